(* Lemmas about the decorators of Model/Targets.v: the exclusion filter and the ARP-cache stage. *)
From Coq Require Import ZArith List Bool Lia Permutation.
From SX Require Import Base.Bytes Model.RangeIter Model.IPNet Model.Exclude Model.Targets.
Import ListNotations.
Open Scope Z_scope.

Definition has_err (r : req) : bool := match rerr r with Some _ => true | None => false end.
Definition addr_ok (a : ip) : Prop := len a = 4 \/ len a = 16.

Lemma excluded_res_ok nets a : addr_ok a -> excluded_res nets a = Some (excluded nets a).
Proof.
  intros H. unfold excluded, excluded_res.
  replace ((len a =? 4) || (len a =? 16)) with true; [reflexivity|].
  symmetry. apply orb_true_iff. destruct H as [H|H]; [left|right]; apply Z.eqb_eq; exact H.
Qed.

Lemma excluded_spec nets a : addr_ok a -> (excluded nets a = true <-> exists n, In n nets /\ contains n a = true).
Proof.
  intros H. unfold excluded, excluded_res.
  replace ((len a =? 4) || (len a =? 16)) with true; [apply existsb_exists|].
  symmetry. apply orb_true_iff. destruct H as [H|H]; [left|right]; apply Z.eqb_eq; exact H.
Qed.

(* what the filter does with one request *)
Lemma filter_one_spec nets r :
  filter_one nets r =
    if has_err r then [r]
    else match excluded_res nets (rip r) with
         | None => [{| rip := rip r; rport := rport r; rerr := Some GContains; rmac := rmac r |}]
         | Some true => []
         | Some false => [r]
         end.
Proof. unfold filter_one, has_err. destruct (rerr r); reflexivity. Qed.

(* a request is dropped iff it carries no error and its address is covered *)
Lemma filter_one_nil nets r :
  filter_one nets r = [] <-> rerr r = None /\ excluded_res nets (rip r) = Some true.
Proof.
  unfold filter_one. destruct (rerr r) as [e|].
  - split; [discriminate|intros [H _]; discriminate].
  - destruct (excluded_res nets (rip r)) as [[|]|].
    + split; intros _; [split; reflexivity|reflexivity].
    + split; [discriminate|intros [_ H]; discriminate].
    + split; [discriminate|intros [_ H]; discriminate].
Qed.

Lemma filter_stage_In nets l en r :
  In r (match filter_stage nets (Emit l en) with Emit l' _ => l' | Fail _ => [] end) ->
  exists r0, In r0 l /\ In r (filter_one nets r0).
Proof. cbn. intros H. apply in_flat_map in H. exact H. Qed.

(* nothing that leaves the filter as a probe is covered by the exclusion list *)
Lemma filter_never_excluded nets o l en r :
  filter_stage nets o = Emit l en -> In r l -> rerr r = None -> excluded nets (rip r) = false.
Proof.
  destruct o as [e|l0 en0]; [discriminate|]. cbn. intros H. inversion H; subst. clear H.
  intros Hin Herr. apply in_flat_map in Hin. destruct Hin as [r0 [_ Hin]].
  unfold filter_one in Hin. destruct (rerr r0) as [e|] eqn:E0.
  - destruct Hin as [<-|[]]. congruence.
  - unfold excluded. destruct (excluded_res nets (rip r0)) as [[|]|] eqn:Ex.
    + destruct Hin.
    + destruct Hin as [<-|[]]. rewrite Ex. reflexivity.
    + destruct Hin as [<-|[]]. cbn in Herr. discriminate.
Qed.

(* on requests with real addresses the filter is exactly "keep errors and uncovered addresses, in order" *)
Lemma filter_stage_exact nets l en :
  Forall (fun r => rerr r = None -> addr_ok (rip r)) l ->
  filter_stage nets (Emit l en) = Emit (filter (fun r => has_err r || negb (excluded nets (rip r))) l) en.
Proof.
  intros H. cbn. f_equal. induction H as [|r l Hr _ IH]; [reflexivity|].
  cbn [flat_map filter]. rewrite IH. rewrite filter_one_spec. unfold has_err in *.
  destruct (rerr r) as [e|]; [reflexivity|].
  rewrite (excluded_res_ok nets (rip r) (Hr eq_refl)). cbn [orb].
  destruct (excluded nets (rip r)); reflexivity.
Qed.

(* so it never removes an address the list does not cover, and never alters what it passes *)
Lemma filter_keeps_uncovered nets l en r :
  Forall (fun r => rerr r = None -> addr_ok (rip r)) l ->
  In r l -> (has_err r = true \/ excluded nets (rip r) = false) ->
  exists l', filter_stage nets (Emit l en) = Emit l' en /\ In r l'.
Proof.
  intros H Hin Hk. rewrite (filter_stage_exact nets l en H). eexists. split; [reflexivity|].
  apply filter_In. split; [exact Hin|]. destruct Hk as [-> | ->]; [reflexivity|apply orb_true_r].
Qed.

(* the cache stage never touches an error request and never changes address or port *)
Lemma cache_one_err c r : has_err r = true -> cache_one c r = r.
Proof. unfold cache_one, has_err. destruct (rerr r); [reflexivity|discriminate]. Qed.

Lemma cache_one_addr c r : rip (cache_one c r) = rip r /\ rport (cache_one c r) = rport r.
Proof.
  unfold cache_one. destruct (rerr r); [split; reflexivity|]. destruct (get_mac c (rip r)); split; reflexivity.
Qed.
