(* Lemmas for C05: the independent decoder of Model/FramesParse.v applied to the frames built by
   Model/Frames.v, layer by layer, then composed. *)
From Coq Require Import ZArith List Bool Lia String.
From SX Require Import Base.Bytes Model.FramesBase Model.FramesParse Model.Frames Gen.FrameConsts
  Proofs.FramesChecksum Spec.C05.
Import ListNotations.
Open Scope Z_scope.

(* ------------------------------------------------------------------ helpers *)

Lemma be16_u16 v : 0 <= v < 65536 -> (v / 256) mod 256 * 256 + v mod 256 = v.
Proof. intros H. Z.div_mod_to_equations. lia. Qed.

Lemma be32_u32 v : 0 <= v < 4294967296 ->
  ((v / 16777216) mod 256 * 256 + (v / 65536) mod 256) * 65536 + ((v / 256) mod 256 * 256 + v mod 256) = v.
Proof. intros H. Z.div_mod_to_equations. lia. Qed.

Lemma length4 (l : list Z) : List.length l = 4%nat -> exists a b c d, l = [a; b; c; d].
Proof. destruct l as [|a [|b [|c [|d [|e l]]]]]; try discriminate. intros _. eauto. Qed.

Lemma length6 (l : list Z) : List.length l = 6%nat -> exists a b c d e f, l = [a; b; c; d; e; f].
Proof. destruct l as [|a [|b [|c [|d [|e [|f [|g l]]]]]]]; try discriminate. intros _. eauto 7. Qed.

Lemma wf1 a : 0 <= a < 256 -> is_byte a = true.
Proof. intros H. unfold is_byte. apply andb_true_intro. split; [apply Z.leb_le|apply Z.ltb_lt]; lia. Qed.

Lemma is_byte_range a : is_byte a = true -> 0 <= a < 256.
Proof. unfold is_byte. rewrite andb_true_iff, Z.leb_le, Z.ltb_lt. tauto. Qed.

Lemma wf_mod256 a : is_byte (a mod 256) = true.
Proof. apply wf1. apply Z.mod_pos_bound. lia. Qed.

Lemma wf_repeat0 n : wf_bytes (repeat 0 n) = true.
Proof. induction n; [reflexivity|]. cbn [repeat]. apply wf_bytes_cons. split; [lia|exact IHn]. Qed.

(* net.IP.To4 *)
Lemma to4_length ip a : to4 ip = Some a -> List.length a = 4%nat.
Proof.
  unfold to4. destruct (Nat.eqb_spec (List.length ip) 4) as [E|E].
  - intros H. injection H as <-. exact E.
  - destruct (Nat.eqb_spec (List.length ip) 16) as [E16|E16]; cbn [andb]; [|discriminate].
    destruct (bytes_eqb (firstn 12 ip) v4_mapped_prefix); [|discriminate].
    intros H. replace a with (skipn 12 ip) by congruence. rewrite skipn_length, E16. reflexivity.
Qed.

Lemma to4_4 ip : List.length ip = 4%nat -> to4 ip = Some ip.
Proof. intros H. unfold to4. rewrite H. reflexivity. Qed.

Lemma to4_mapped a : List.length a = 4%nat -> to4 (v4_mapped_prefix ++ a) = Some a.
Proof.
  intros H. destruct (length4 a H) as (x & y & z & w & ->). reflexivity.
Qed.

(* ------------------------------------------------------------------ Ethernet *)

Lemma eth_frame_ok dst src et payload :
  List.length dst = 6%nat -> List.length src = 6%nat ->
  eth_frame dst src et payload =
  Some (dst ++ src ++ u16_bytes et ++ payload ++ repeat 0 (60 - (14 + List.length payload))).
Proof.
  intros Hd Hs. unfold eth_frame. rewrite Hd, Hs. cbn [Nat.eqb negb].
  f_equal. rewrite <- !app_assoc. do 4 f_equal.
  rewrite !app_length, Hd, Hs. reflexivity.
Qed.

Lemma parse_eth_frame dst src et rest :
  List.length dst = 6%nat -> List.length src = 6%nat -> 0 <= et < 65536 ->
  parse_eth (dst ++ src ++ u16_bytes et ++ rest) =
  Some {| ev_dst := dst; ev_src := src; ev_type := et; ev_payload := rest |}.
Proof.
  intros Hd Hs Het.
  destruct (length6 dst Hd) as (a0 & a1 & a2 & a3 & a4 & a5 & ->).
  destruct (length6 src Hs) as (b0 & b1 & b2 & b3 & b4 & b5 & ->).
  unfold parse_eth, u16_bytes, slice, word_at, byte_at.
  cbn [app List.length Nat.ltb Nat.leb firstn skipn nth].
  rewrite be16_u16 by exact Het. reflexivity.
Qed.

(* ------------------------------------------------------------------ IPv4 *)

Lemma parse_ipv4_header len id flags ttl proto ck src dst l4 :
  0 <= len < 65536 -> 0 <= id < 65536 -> 0 <= flags < 8 ->
  List.length src = 4%nat -> List.length dst = 4%nat ->
  parse_ipv4 (ipv4_header 4 5 len id flags ttl proto ck src dst ++ l4) =
  Some ({| iv_version := 4; iv_ihl := 5; iv_tos := 0; iv_total_len := len; iv_id := id; iv_flags := flags;
           iv_frag_off := 0; iv_ttl := ttl; iv_proto := proto;
           iv_csum_ok := csum_ok (ipv4_header 4 5 len id flags ttl proto ck src dst);
           iv_src := src; iv_dst := dst; iv_options := [] |}, l4).
Proof.
  intros Hlen Hid Hfl Hs Hd.
  destruct (length4 src Hs) as (s0 & s1 & s2 & s3 & ->). destruct (length4 dst Hd) as (d0 & d1 & d2 & d3 & ->).
  unfold ipv4_header, u16_bytes.
  change (Z.lor (4 * 16 mod 256) 5) with 69.
  cbn [app].
  unfold parse_ipv4.
  cbn [List.length Nat.ltb Nat.leb byte_at nth].
  change (69 mod 16) with 5. change (69 / 16) with 4. change (Z.to_nat (4 * 5)) with 20%nat.
  cbn [List.length Nat.ltb Nat.leb Z.ltb Z.compare Pos.compare Pos.compare_cont orb firstn skipn slice Nat.sub].
  unfold word_at, byte_at. cbn [nth].
  do 3 f_equal.
  - apply be16_u16, Hlen.
  - apply be16_u16, Hid.
  - Z.div_mod_to_equations. lia.
  - Z.div_mod_to_equations. lia.
Qed.

Lemma ipv4_header_csum len id flags ttl proto src dst :
  0 <= ttl < 256 -> 0 <= proto < 256 ->
  List.length src = 4%nat -> List.length dst = 4%nat -> wf_bytes src = true -> wf_bytes dst = true ->
  csum_ok (ipv4_header 4 5 len id flags ttl proto
             (csum_fin (sum16 (ipv4_header 4 5 len id flags ttl proto 0 src dst))) src dst) = true.
Proof.
  intros Httl Hproto Hs Hd Ws Wd.
  set (pre := [69; 0] ++ u16_bytes len ++ u16_bytes id ++ u16_bytes ((flags * 8192) mod 65536) ++ [ttl; proto]).
  assert (Hh : forall ck, ipv4_header 4 5 len id flags ttl proto ck src dst = pre ++ u16_bytes ck ++ (src ++ dst)).
  { intros ck. unfold ipv4_header, pre. change (Z.lor (4 * 16 mod 256) 5) with 69.
    rewrite <- !app_assoc. reflexivity. }
  assert (Wpre : wf_bytes pre = true).
  { unfold pre. repeat (apply wf_bytes_app; split); try apply u16_bytes_wf; try reflexivity.
    apply wf_bytes_cons. split; [lia|]. apply wf_bytes_cons. split; [lia|reflexivity]. }
  assert (Wpost : wf_bytes (src ++ dst) = true) by (apply wf_bytes_app; split; assumption).
  assert (Epre : Nat.even (List.length pre) = true) by reflexivity.
  rewrite (Hh 0). change (u16_bytes 0) with [0; 0]. cbn [app].
  rewrite Hh.
  pose proof (checksum_verifies [] pre (src ++ dst) eq_refl Epre eq_refl Wpre Wpost) as H.
  cbn [app sum16 Z.add] in H. apply H.
  assert (W0 : wf_bytes (pre ++ 0 :: 0 :: src ++ dst) = true).
  { apply wf_bytes_app. split; [exact Wpre|]. apply wf_bytes_cons. split; [lia|]. apply wf_bytes_cons. split; [lia|exact Wpost]. }
  pose proof (sum16_bounds _ W0) as [_ Hb].
  assert (Hl : List.length (pre ++ 0 :: 0 :: src ++ dst) = 20%nat).
  { rewrite app_length. cbn [List.length]. rewrite app_length, Hs, Hd. reflexivity. }
  rewrite Hl in Hb. lia.
Qed.

(* the datagram as the fillers build it (version 4, IHL 5 either given or fixed, checksums on),
   possibly followed by Ethernet padding *)
Lemma parse_ipv4_datagram (fx : bool) ihl len id flags ttl proto src dst l4 pad :
  (if fx then 5 else ihl) = 5 -> (fx = false -> 0 <= len < 65536) ->
  0 <= id < 65536 -> 0 <= flags < 8 -> 0 <= ttl < 256 -> 0 <= proto < 256 ->
  List.length src = 4%nat -> List.length dst = 4%nat -> wf_bytes src = true -> wf_bytes dst = true ->
  parse_ipv4 (ipv4_datagram fx true 4 ihl len id flags ttl proto src dst l4 ++ pad) =
  Some ({| iv_version := 4; iv_ihl := 5; iv_tos := 0;
           iv_total_len := if fx then (20 + Z.of_nat (List.length l4)) mod 65536 else len;
           iv_id := id; iv_flags := flags; iv_frag_off := 0; iv_ttl := ttl; iv_proto := proto;
           iv_csum_ok := true; iv_src := src; iv_dst := dst; iv_options := [] |}, l4 ++ pad).
Proof.
  intros Hihl Hlen Hid Hfl Httl Hproto Hs Hd Ws Wd.
  unfold ipv4_datagram. rewrite Hihl.
  set (len' := if fx then (20 + Z.of_nat (List.length l4)) mod 65536 else len).
  assert (Hlen' : 0 <= len' < 65536).
  { subst len'. destruct fx; [apply Z.mod_pos_bound; lia|apply Hlen; reflexivity]. }
  rewrite <- app_assoc.
  rewrite parse_ipv4_header by assumption.
  rewrite ipv4_header_csum by assumption. reflexivity.
Qed.

Lemma ipv4_datagram_length fx cks v ihl len id flags ttl proto src dst l4 :
  List.length src = 4%nat -> List.length dst = 4%nat ->
  List.length (ipv4_datagram fx cks v ihl len id flags ttl proto src dst l4) = (20 + List.length l4)%nat.
Proof.
  intros Hs Hd. unfold ipv4_datagram, ipv4_header. rewrite !app_length, Hs, Hd. reflexivity.
Qed.

(* ------------------------------------------------------------------ cutting at the total length *)

Lemma parse_ip_probe_cut eth d ip l4 pad :
  parse_ipv4 d = Some (ip, l4 ++ pad) ->
  0 <= iv_ihl ip ->
  iv_total_len ip = 4 * iv_ihl ip + Z.of_nat (List.length l4) ->
  iv_total_len ip <= Z.of_nat (List.length d) ->
  parse_ip_probe eth d = Some {| pv_eth := eth; pv_ip := ip; pv_l4 := decode_l4 ip l4; pv_trailer := pad |}.
Proof.
  intros Hp Hihl Htot Hle. unfold parse_ip_probe. rewrite Hp.
  destruct (Z.ltb_spec (iv_total_len ip) (4 * iv_ihl ip)) as [C|_]; [lia|].
  destruct (Z.ltb_spec (Z.of_nat (List.length d)) (iv_total_len ip)) as [C|_]; [lia|].
  cbn [orb].
  replace (Z.to_nat (iv_total_len ip - 4 * iv_ihl ip)) with (List.length l4) by lia.
  rewrite firstn_app, Nat.sub_diag, firstn_all. cbn [firstn]. rewrite app_nil_r.
  rewrite skipn_app, Nat.sub_diag, skipn_all. cbn [skipn app]. reflexivity.
Qed.

(* ------------------------------------------------------------------ transport checksums *)

Lemma u32_bytes_wf v : wf_bytes (u32_bytes v) = true.
Proof.
  unfold u32_bytes. repeat (apply wf_bytes_cons; split; [apply is_byte_range, wf_mod256|]). reflexivity.
Qed.

Lemma u16_bytes_length v : List.length (u16_bytes v) = 2%nat.
Proof. reflexivity. Qed.

(* what gopacket accumulates for the pseudo header is the word sum of the RFC pseudo header *)
Lemma pseudo_init_sum s d proto n :
  List.length s = 4%nat -> List.length d = 4%nat -> 0 <= n < 65536 ->
  pseudo_init s d proto n = sum16 (pseudo_header s d proto n).
Proof.
  intros Hs Hd Hn.
  destruct (length4 s Hs) as (s0 & s1 & s2 & s3 & ->). destruct (length4 d Hd) as (d0 & d1 & d2 & d3 & ->).
  unfold pseudo_init, pseudo_header. cbn [nth app sum16].
  rewrite (Z.mod_small n 65536) by lia. rewrite (Z.div_small n 65536) by lia.
  pose proof (be16_u16 n Hn). lia.
Qed.

Lemma pseudo_header_wf s d proto n :
  wf_bytes s = true -> wf_bytes d = true -> 0 <= proto < 256 -> wf_bytes (pseudo_header s d proto n) = true.
Proof.
  intros Ws Wd Hp. unfold pseudo_header. apply wf_bytes_app. split; [exact Ws|]. apply wf_bytes_app. split; [exact Wd|].
  apply wf_bytes_cons. split; [lia|]. apply wf_bytes_cons. split; [lia|].
  apply wf_bytes_cons. split; [apply is_byte_range, wf_mod256|].
  apply wf_bytes_cons. split; [apply is_byte_range, wf_mod256|reflexivity].
Qed.

Lemma l4_checksum s d proto pre post :
  List.length s = 4%nat -> List.length d = 4%nat -> wf_bytes s = true -> wf_bytes d = true -> 0 <= proto < 256 ->
  Nat.even (List.length pre) = true -> wf_bytes pre = true -> wf_bytes post = true ->
  Z.of_nat (List.length pre + 2 + List.length post) < 65536 ->
  l4_csum_ok s d proto
    (pre ++ u16_bytes (csum_fin (pseudo_init s d proto (Z.of_nat (List.length pre + 2 + List.length post)) +
                                 sum16 (pre ++ 0 :: 0 :: post))) ++ post) = true.
Proof.
  intros Hs Hd Ws Wd Hp Epre Wpre Wpost Hn.
  set (n := Z.of_nat (List.length pre + 2 + List.length post)) in *.
  unfold l4_csum_ok.
  assert (Hl : Z.of_nat (List.length (pre ++ u16_bytes (csum_fin (pseudo_init s d proto n + sum16 (pre ++ 0 :: 0 :: post))) ++ post)) = n).
  { rewrite !app_length, u16_bytes_length. subst n. lia. }
  rewrite Hl. rewrite pseudo_init_sum by (try assumption; subst n; lia).
  assert (Wph : wf_bytes (pseudo_header s d proto n) = true) by (apply pseudo_header_wf; assumption).
  assert (Eph : Nat.even (List.length (pseudo_header s d proto n)) = true).
  { unfold pseudo_header. rewrite !app_length, Hs, Hd. reflexivity. }
  apply checksum_verifies; try assumption.
  assert (W0 : wf_bytes (pre ++ 0 :: 0 :: post) = true).
  { apply wf_bytes_app. split; [exact Wpre|]. apply wf_bytes_cons. split; [lia|]. apply wf_bytes_cons. split; [lia|exact Wpost]. }
  pose proof (sum16_bounds _ W0) as [_ Hb]. pose proof (sum16_bounds _ Wph) as [_ Hb'].
  assert (Hl0 : Z.of_nat (List.length (pre ++ 0 :: 0 :: post)) = n).
  { rewrite app_length. cbn [List.length]. subst n. lia. }
  assert (Hlp : List.length (pseudo_header s d proto n) = 12%nat).
  { unfold pseudo_header. rewrite !app_length, Hs, Hd. reflexivity. }
  rewrite Hl0 in Hb. rewrite Hlp in Hb'. lia.
Qed.

(* ------------------------------------------------------------------ TCP *)

Lemma tcp_block_concrete : tcp_option_block true fc_tcp_options = [2; 4; 5; 180; 4; 2; 3; 3; 7; 0; 0; 0].
Proof. reflexivity. Qed.

Lemma tcp_doff_concrete : tcp_data_offset true fc_tcp_options = 8.
Proof. reflexivity. Qed.

Lemma tcp_flag_bits_range fl : 0 <= tcp_flag_bits fl < 512.
Proof. destruct fl as [[] [] [] [] [] [] [] [] []]; vm_compute; split; congruence. Qed.

(* all 2^9 flag sets: the two flag bytes decode to data offset 8, reserved bits 0 and the same set *)
Lemma tcp_flags_decode fl :
  let w := 32768 + tcp_flag_bits fl in
  ((w / 256) mod 256) / 16 = 8 /\ (((w / 256) mod 256) / 2) mod 8 = 0 /\
  tcp_flags_of ((w / 256) mod 256) (w mod 256) = fl.
Proof. destruct fl as [[] [] [] [] [] [] [] [] []]; vm_compute; repeat split; reflexivity. Qed.

Definition tcp_options_view : list (Z * list Z) := [(2, [5; 180]); (4, []); (3, [7])].

Lemma parse_tcp_header sport dport sq fl win ck :
  0 <= sport < 65536 -> 0 <= dport < 65536 -> 0 <= sq < 4294967296 -> 0 <= win < 65536 ->
  parse_tcp (tcp_header sport dport sq 0 8 fl win ck 0 [2; 4; 5; 180; 4; 2; 3; 3; 7; 0; 0; 0]) =
  Some {| tv_sport := sport; tv_dport := dport; tv_seq := sq; tv_ack := 0; tv_data_offset := 8; tv_reserved := 0;
          tv_flags := fl; tv_window := win; tv_urgent := 0; tv_options := Some tcp_options_view;
          tv_payload := [] |}.
Proof.
  intros Hsp Hdp Hsq Hwin.
  destruct (tcp_flags_decode fl) as (Hoff & Hres & Hfl).
  unfold tcp_header, u16_bytes, u32_bytes.
  change (8 * 4096 mod 65536) with 32768.
  change (0 / 16777216) with 0. change (0 / 65536) with 0. change (0 / 256) with 0. change (0 mod 256) with 0.
  cbn [app].
  unfold parse_tcp.
  cbn [List.length Nat.ltb Nat.leb byte_at nth].
  rewrite Hoff. change (Z.to_nat (4 * 8)) with 32%nat.
  cbn [List.length Nat.ltb Nat.leb Z.ltb Z.compare Pos.compare Pos.compare_cont orb firstn skipn slice Nat.sub].
  change (parse_tcp_options 12 [2; 4; 5; 180; 4; 2; 3; 3; 7; 0; 0; 0]) with (Some tcp_options_view).
  unfold dword_at, word_at, byte_at. cbn [nth].
  rewrite Hres, Hfl.
  rewrite (be16_u16 sport), (be16_u16 dport), (be16_u16 win), (be32_u32 sq) by assumption.
  reflexivity.
Qed.

Lemma tcp_segment_shape s d sport dport sq fl win :
  exists ck, tcp_segment true true s d sport dport sq fl win fc_tcp_options =
             tcp_header sport dport sq 0 8 fl win ck 0 [2; 4; 5; 180; 4; 2; 3; 3; 7; 0; 0; 0].
Proof. unfold tcp_segment. rewrite tcp_block_concrete, tcp_doff_concrete. eexists. reflexivity. Qed.

Lemma tcp_segment_length s d sport dport sq fl win :
  List.length (tcp_segment true true s d sport dport sq fl win fc_tcp_options) = 32%nat.
Proof. destruct (tcp_segment_shape s d sport dport sq fl win) as [ck ->]. reflexivity. Qed.

Lemma tcp_segment_csum s d sport dport sq fl win :
  List.length s = 4%nat -> List.length d = 4%nat -> wf_bytes s = true -> wf_bytes d = true ->
  l4_csum_ok s d 6 (tcp_segment true true s d sport dport sq fl win fc_tcp_options) = true.
Proof.
  intros Hs Hd Ws Wd.
  unfold tcp_segment. rewrite tcp_block_concrete, tcp_doff_concrete.
  set (blk := [2; 4; 5; 180; 4; 2; 3; 3; 7; 0; 0; 0]).
  set (pre := u16_bytes sport ++ u16_bytes dport ++ u32_bytes sq ++ u32_bytes 0 ++
              u16_bytes (8 * 4096 mod 65536 + tcp_flag_bits fl) ++ u16_bytes win).
  set (post := u16_bytes 0 ++ blk).
  assert (Hh : forall ck, tcp_header sport dport sq 0 8 fl win ck 0 blk = pre ++ u16_bytes ck ++ post).
  { intros ck. unfold tcp_header, pre, post. rewrite <- !app_assoc. reflexivity. }
  rewrite (Hh 0). change (u16_bytes 0 ++ post) with (0 :: 0 :: post).
  rewrite Hh.
  assert (Hlen : List.length (pre ++ 0 :: 0 :: post) = 32%nat) by reflexivity.
  rewrite Hlen. unfold gopacket_proto_tcp.
  change (Z.of_nat 32) with (Z.of_nat (List.length pre + 2 + List.length post)).
  apply l4_checksum; try assumption; try lia; try reflexivity.
  - unfold pre. repeat (apply wf_bytes_app; split); try apply u16_bytes_wf; try apply u32_bytes_wf.
Qed.

(* ------------------------------------------------------------------ UDP *)

Lemma parse_udp_segment sport dport ck payload :
  0 <= sport < 65536 -> 0 <= dport < 65536 -> 8 + Z.of_nat (List.length payload) < 65536 ->
  parse_udp (udp_header sport dport (8 + Z.of_nat (List.length payload)) ck ++ payload) =
  Some {| uv_sport := sport; uv_dport := dport; uv_length := 8 + Z.of_nat (List.length payload);
          uv_payload := payload; uv_after := [] |}.
Proof.
  intros Hsp Hdp Hn.
  set (len := 8 + Z.of_nat (List.length payload)) in *.
  assert (Hlen : 0 <= len < 65536) by (subst len; lia).
  unfold udp_header, u16_bytes. cbn [app].
  unfold parse_udp.
  cbn [List.length Nat.ltb Nat.leb].
  unfold word_at, byte_at. cbn [nth].
  rewrite (be16_u16 len), (be16_u16 sport), (be16_u16 dport) by assumption.
  destruct (Z.ltb_spec len 8) as [C|_]; [subst len; lia|].
  match goal with |- context [Z.of_nat ?n <? len] => destruct (Z.ltb_spec (Z.of_nat n) len) as [C|_] end;
    [subst len; lia|].
  cbn [orb]. unfold slice. cbn [skipn].
  replace (Z.to_nat len - 8)%nat with (List.length payload) by (subst len; lia).
  rewrite firstn_all.
  replace (Z.to_nat len) with (8 + List.length payload)%nat by (subst len; lia).
  cbn [Nat.add skipn]. rewrite skipn_all. reflexivity.
Qed.

Lemma udp_segment_fixed_eq fx s d sport dport payload :
  8 + Z.of_nat (List.length payload) < 65536 ->
  udp_segment fx true true 8 s d sport dport payload =
  udp_header sport dport (8 + Z.of_nat (List.length payload))
    (csum_fin (pseudo_init s d 17 (Z.of_nat (List.length (u16_bytes sport ++ u16_bytes dport ++
                                                       u16_bytes (8 + Z.of_nat (List.length payload))) + 2 +
                                                       List.length payload)) +
               sum16 ((u16_bytes sport ++ u16_bytes dport ++ u16_bytes (8 + Z.of_nat (List.length payload))) ++
                      0 :: 0 :: payload))) ++ payload.
Proof.
  intros Hn. unfold udp_segment, udp_length_field.
  replace (if fx then (Z.of_nat (List.length payload) mod 65536 + 8) mod 65536
           else (8 + Z.of_nat (List.length payload)) mod 65536) with (8 + Z.of_nat (List.length payload)).
  2:{ destruct fx; [rewrite (Z.mod_small (Z.of_nat _)) by lia|]; rewrite Z.mod_small; lia. }
  unfold gopacket_proto_udp.
  reflexivity.
Qed.

Lemma udp_segment_csum fx s d sport dport payload :
  List.length s = 4%nat -> List.length d = 4%nat -> wf_bytes s = true -> wf_bytes d = true ->
  wf_bytes payload = true -> 8 + Z.of_nat (List.length payload) < 65536 ->
  l4_csum_ok s d 17 (udp_segment fx true true 8 s d sport dport payload) = true.
Proof.
  intros Hs Hd Ws Wd Wp Hn.
  rewrite udp_segment_fixed_eq by exact Hn.
  unfold udp_header at 1. rewrite <- !app_assoc.
  set (pre := u16_bytes sport ++ u16_bytes dport ++ u16_bytes (8 + Z.of_nat (List.length payload))).
  change (u16_bytes sport ++ u16_bytes dport ++ u16_bytes (8 + Z.of_nat (List.length payload)) ++
          u16_bytes ?ck ++ payload) with (pre ++ u16_bytes ck ++ payload).
  replace (u16_bytes sport ++ u16_bytes dport ++ u16_bytes (8 + Z.of_nat (List.length payload)) ++
           u16_bytes (csum_fin (pseudo_init s d 17 (Z.of_nat (List.length pre + 2 + List.length payload)) +
                                sum16 (pre ++ 0 :: 0 :: payload))) ++ payload)
    with (pre ++ u16_bytes (csum_fin (pseudo_init s d 17 (Z.of_nat (List.length pre + 2 + List.length payload)) +
                                sum16 (pre ++ 0 :: 0 :: payload))) ++ payload)
    by (unfold pre; rewrite <- !app_assoc; reflexivity).
  apply l4_checksum; try assumption; try lia; try reflexivity.
  - unfold pre. repeat (apply wf_bytes_app; split); apply u16_bytes_wf.
  - unfold pre. rewrite !app_length, !u16_bytes_length. lia.
Qed.

(* ------------------------------------------------------------------ ICMP *)

Lemma parse_icmp_message typ code id sq payload :
  0 <= typ < 256 -> 0 <= code < 256 -> 0 <= id < 65536 -> 0 <= sq < 65536 ->
  wf_bytes payload = true -> 8 + Z.of_nat (List.length payload) < 65536 ->
  parse_icmp (icmp_message true typ code id sq payload) =
  Some {| cv_type := typ; cv_code := code; cv_csum_ok := true; cv_id := id; cv_seq := sq; cv_payload := payload |}.
Proof.
  intros Ht Hc Hid Hsq Wp Hn.
  unfold icmp_message.
  set (ck := csum_fin (sum16 (icmp_header typ code 0 id sq ++ payload))).
  assert (Hok : csum_ok (icmp_header typ code ck id sq ++ payload) = true).
  { set (post := u16_bytes id ++ u16_bytes sq ++ payload).
    assert (Hh : forall c, icmp_header typ code c id sq ++ payload = [typ; code] ++ u16_bytes c ++ post).
    { intros c. unfold icmp_header, post. rewrite <- !app_assoc. reflexivity. }
    assert (Wpost : wf_bytes post = true).
    { unfold post. repeat (apply wf_bytes_app; split); try apply u16_bytes_wf. exact Wp. }
    assert (Wpre : wf_bytes [typ; code] = true).
    { apply wf_bytes_cons. split; [lia|]. apply wf_bytes_cons. split; [lia|reflexivity]. }
    subst ck. rewrite (Hh 0). change (u16_bytes 0 ++ post) with (0 :: 0 :: post). rewrite Hh.
    pose proof (checksum_verifies [] [typ; code] post eq_refl eq_refl eq_refl Wpre Wpost) as H.
    cbn [sum16 Z.add] in H. cbn [app] in H. cbn [app]. apply H.
    assert (W0 : wf_bytes (typ :: code :: 0 :: 0 :: post) = true).
    { apply wf_bytes_cons. split; [lia|]. apply wf_bytes_cons. split; [lia|].
      apply wf_bytes_cons. split; [lia|]. apply wf_bytes_cons. split; [lia|exact Wpost]. }
    pose proof (sum16_bounds _ W0) as [_ Hb].
    assert (Hl : Z.of_nat (List.length (typ :: code :: 0 :: 0 :: post)) = 8 + Z.of_nat (List.length payload)).
    { unfold post. cbn [List.length]. rewrite !app_length, !u16_bytes_length. lia. }
    rewrite Hl in Hb. cbn [sum16] in Hb |- *. lia. }
  unfold parse_icmp. rewrite Hok.
  unfold icmp_header, u16_bytes. cbn [app List.length Nat.ltb Nat.leb skipn].
  unfold word_at, byte_at. cbn [nth].
  rewrite (be16_u16 id), (be16_u16 sq) by assumption. reflexivity.
Qed.

(* ------------------------------------------------------------------ spoofed fields stay in range *)

Lemma spoof16_range base n d : 0 < n -> 0 <= base -> base + n <= 65536 ->
  base <= spoof16 base n d <= base + n - 1.
Proof.
  intros Hn Hb Hs. unfold spoof16. pose proof (Z.mod_pos_bound d n Hn). rewrite Z.mod_small; lia.
Qed.

(* ------------------------------------------------------------------ link layer *)

Definition hyp_link (vpn : bool) (q : request) : Prop :=
  vpn = false -> List.length (q_dst_mac q) = 6%nat /\ List.length (q_src_mac q) = 6%nat.

Lemma link_wrap_eq vpn q et dgram : hyp_link vpn q ->
  link_wrap vpn q et dgram =
  Some (if vpn then dgram
        else q_dst_mac q ++ q_src_mac q ++ u16_bytes et ++ dgram ++ repeat 0 (60 - (14 + List.length dgram))).
Proof.
  intros H. unfold link_wrap. destruct vpn; [reflexivity|].
  destruct (H eq_refl) as [Hd Hs]. apply eth_frame_ok; assumption.
Qed.

(* decoding a frame = decoding its datagram followed by the padding *)
Lemma parse_probe_link vpn q dgram : hyp_link vpn q ->
  parse_probe vpn (if vpn then dgram
                   else q_dst_mac q ++ q_src_mac q ++ u16_bytes 2048 ++ dgram ++
                        repeat 0 (60 - (14 + List.length dgram))) =
  parse_ip_probe (link_view vpn q) (dgram ++ eth_padding vpn (List.length dgram)).
Proof.
  intros H. unfold parse_probe, link_view, eth_padding. destruct vpn.
  - rewrite app_nil_r. reflexivity.
  - destruct (H eq_refl) as [Hd Hs]. rewrite parse_eth_frame by (try assumption; lia). cbn [ev_type ev_dst ev_src ev_payload].
    reflexivity.
Qed.

(* ------------------------------------------------------------------ the TCP probe *)

Lemma tcp_layer_flags_id fl : tcp_layer_flags fc_tcp_layer_flag_sources fl = fl.
Proof. destruct fl. reflexivity. Qed.

Lemma tcp_probe_decodes fl vpn q src dst id sport sq :
  to4 (q_src_ip q) = Some src -> to4 (q_dst_ip q) = Some dst -> wf_bytes src = true -> wf_bytes dst = true ->
  hyp_link vpn q -> 0 <= q_dport q < 65536 ->
  0 <= id < 65536 -> 0 <= sport < 65536 -> 0 <= sq < 4294967296 ->
  exists frame, tcp_frame_with fl vpn q id sport sq = Some frame /\
                parse_probe vpn frame = Some (tcp_probe_view fl vpn q src dst id sport sq).
Proof.
  intros Hsrc Hdst Ws Wd Hl Hdp Hid Hsp Hsq.
  pose proof (to4_length _ _ Hsrc) as Ls. pose proof (to4_length _ _ Hdst) as Ld.
  unfold tcp_frame_with. rewrite Hsrc, Hdst. rewrite link_wrap_eq by exact Hl.
  eexists. split; [reflexivity|].
  unfold fc_tcp_ethertype. rewrite parse_probe_link by exact Hl.
  unfold tcp_datagram. rewrite tcp_layer_flags_id.
  unfold fc_tcp_fix_lengths, fc_tcp_compute_checksums, fc_tcp_ip_version.
  set (seg := tcp_segment true true src dst sport (q_dport q) sq fl fc_tcp_window fc_tcp_options).
  assert (Lseg : List.length seg = 32%nat) by apply tcp_segment_length.
  rewrite ipv4_datagram_length by assumption. rewrite Lseg.
  set (pad := eth_padding vpn (20 + 32)).
  assert (Hpad : pad = []) by (subst pad; destruct vpn; reflexivity).
  erewrite parse_ip_probe_cut; [| apply parse_ipv4_datagram; try assumption; try reflexivity;
                                  try discriminate; unfold fc_tcp_ip_flags, fc_tcp_ip_ttl, fc_tcp_ip_proto; lia | ..].
  - unfold tcp_probe_view, ip_expected. f_equal. f_equal.
    + unfold decode_l4. cbn [iv_proto iv_src iv_dst]. unfold fc_tcp_ip_proto. cbn [Z.eqb Pos.eqb].
      subst seg. rewrite tcp_segment_csum by assumption.
      destruct (tcp_segment_shape src dst sport (q_dport q) sq fl fc_tcp_window) as [ck ->].
      rewrite parse_tcp_header by (try assumption; unfold fc_tcp_window; lia).
      reflexivity.
    + exact Hpad.
  - cbn [iv_ihl]. lia.
  - cbn [iv_total_len iv_ihl]. rewrite Lseg. reflexivity.
  - cbn [iv_total_len]. rewrite Lseg, app_length, ipv4_datagram_length, Lseg by assumption. cbn. lia.
Qed.

(* ------------------------------------------------------------------ the UDP probe *)

Lemma udp_segment_length fx s d sport dport p :
  List.length (udp_segment fx true true 8 s d sport dport p) = (8 + List.length p)%nat.
Proof. unfold udp_segment, udp_header. rewrite !app_length. reflexivity. Qed.

Lemma parse_udp_of_segment fx s d sport dport p :
  0 <= sport < 65536 -> 0 <= dport < 65536 -> 8 + Z.of_nat (List.length p) < 65536 ->
  parse_udp (udp_segment fx true true 8 s d sport dport p) =
  Some {| uv_sport := sport; uv_dport := dport; uv_length := 8 + Z.of_nat (List.length p); uv_payload := p;
          uv_after := [] |}.
Proof. intros Hs Hd Hn. rewrite udp_segment_fixed_eq by exact Hn. apply parse_udp_segment; assumption. Qed.

(* every option combination, overrides included: header fields verbatim, UDP header consistent *)
Lemma udp_datagram_fields o p src dst dport id sport :
  List.length src = 4%nat -> List.length dst = 4%nat -> wf_bytes src = true -> wf_bytes dst = true ->
  0 <= o_len o < 65536 -> 0 <= o_proto o < 256 -> 0 <= o_ttl o < 256 -> 0 <= o_flags o < 8 ->
  wf_bytes p = true -> 28 + Z.of_nat (List.length p) < 65536 ->
  0 <= dport < 65536 -> 0 <= id < 65536 -> 0 <= sport < 65536 ->
  let seg := udp_segment (fix_lengths o) true true 8 src dst sport dport p in
  parse_ipv4 (udp_datagram o p src dst dport id sport) =
    Some (ip_with_overrides o (28 + Z.of_nat (List.length p)) id src dst, seg) /\
  parse_udp seg = Some {| uv_sport := sport; uv_dport := dport; uv_length := 8 + Z.of_nat (List.length p);
                          uv_payload := p; uv_after := [] |} /\
  l4_csum_ok src dst 17 seg = true.
Proof.
  intros Ls Ld Ws Wd Hlen Hproto Httl Hfl Wp Hn Hdp Hid Hsp seg.
  split; [|split].
  - unfold udp_datagram.
    change fc_udp_compute_checksums with true. change fc_udp_ip_version with 4. change fc_udp_ip_ihl with 5.
    change fc_udp_length_explicit with true. change fc_udp_length_base with 8. fold seg.
    rewrite <- (app_nil_r (ipv4_datagram _ _ _ _ _ _ _ _ _ _ _ _)).
    rewrite parse_ipv4_datagram; try assumption; [|destruct (fix_lengths o); reflexivity|intros _; exact Hlen].
    rewrite app_nil_r. unfold ip_with_overrides, ip_expected, fix_lengths. do 3 f_equal.
    destruct (o_len o =? 0); [|reflexivity].
    subst seg. rewrite udp_segment_length. rewrite Z.mod_small; lia.
  - subst seg. apply parse_udp_of_segment; try assumption; lia.
  - subst seg. apply udp_segment_csum; try assumption; lia.
Qed.

Lemma udp_frame_link o p q src dst id sport :
  to4 (q_src_ip q) = Some src -> to4 (q_dst_ip q) = Some dst -> hyp_link (o_vpn o) q ->
  udp_frame_with o p q id sport =
  Some (let dgram := udp_datagram o p src dst (q_dport q) id sport in
        if o_vpn o then dgram
        else q_dst_mac q ++ q_src_mac q ++ u16_bytes 2048 ++ dgram ++ repeat 0 (60 - (14 + List.length dgram))).
Proof.
  intros Hs Hd Hl. unfold udp_frame_with. rewrite Hs, Hd. rewrite link_wrap_eq by exact Hl. reflexivity.
Qed.

Lemma udp_probe_decodes o p q src dst id sport :
  to4 (q_src_ip q) = Some src -> to4 (q_dst_ip q) = Some dst -> wf_bytes src = true -> wf_bytes dst = true ->
  hyp_link (o_vpn o) q -> 0 <= q_dport q < 65536 -> 0 <= id < 65536 -> 0 <= sport < 65536 ->
  o_len o = 0 -> o_proto o = 17 -> 0 <= o_ttl o < 256 -> 0 <= o_flags o < 8 ->
  wf_bytes p = true -> 28 + Z.of_nat (List.length p) < 65536 ->
  exists frame, udp_frame_with o p q id sport = Some frame /\
                parse_probe (o_vpn o) frame =
                Some (udp_probe_view (o_ttl o) (o_flags o) p (o_vpn o) q src dst id sport).
Proof.
  intros Hsrc Hdst Ws Wd Hl Hdp Hid Hsp Hlen Hproto Httl Hfl Wp Hn.
  pose proof (to4_length _ _ Hsrc) as Ls. pose proof (to4_length _ _ Hdst) as Ld.
  rewrite (udp_frame_link o p q src dst id sport Hsrc Hdst Hl).
  eexists. split; [reflexivity|]. cbv zeta.
  rewrite parse_probe_link by exact Hl.
  destruct (udp_datagram_fields o p src dst (q_dport q) id sport) as (Hip & Hudp & Hck); try assumption; try lia.
  set (seg := udp_segment (fix_lengths o) true true 8 src dst sport (q_dport q) p) in *.
  assert (Lseg : List.length seg = (8 + List.length p)%nat) by apply udp_segment_length.
  assert (Ldg : List.length (udp_datagram o p src dst (q_dport q) id sport) = (28 + List.length p)%nat).
  { unfold udp_datagram. rewrite ipv4_datagram_length by assumption.
    change fc_udp_compute_checksums with true. change fc_udp_length_explicit with true.
    change fc_udp_length_base with 8. fold seg. rewrite Lseg. lia. }
  rewrite Ldg.
  erewrite parse_ip_probe_cut with (l4 := seg) (ip := ip_with_overrides o (28 + Z.of_nat (List.length p)) id src dst).
  - unfold udp_probe_view, ip_with_overrides. rewrite Hlen, Hproto. cbn [Z.eqb]. f_equal. f_equal.
    unfold decode_l4, ip_expected. cbn [iv_proto iv_src iv_dst Z.eqb Pos.eqb]. rewrite Hudp, Hck. reflexivity.
  - (* the datagram is header ++ seg, so datagram ++ pad parses to (ip, seg ++ pad) *)
    unfold udp_datagram in *.
    change fc_udp_compute_checksums with true in *. change fc_udp_ip_version with 4 in *.
    change fc_udp_ip_ihl with 5 in *. change fc_udp_length_explicit with true in *.
    change fc_udp_length_base with 8 in *. fold seg in Hip |- *.
    rewrite parse_ipv4_datagram; try assumption; try lia; [|destruct (fix_lengths o); reflexivity].
    unfold ip_with_overrides, ip_expected, fix_lengths. rewrite Hlen. cbn [Z.eqb]. do 3 f_equal.
    rewrite Lseg. rewrite Z.mod_small; lia.
  - unfold ip_with_overrides, ip_expected. cbn [iv_ihl]. lia.
  - unfold ip_with_overrides, ip_expected. cbn [iv_total_len iv_ihl]. rewrite Hlen. cbn [Z.eqb]. rewrite Lseg. lia.
  - unfold ip_with_overrides, ip_expected. cbn [iv_total_len]. rewrite Hlen. cbn [Z.eqb].
    rewrite app_length, Ldg. lia.
Qed.

(* ------------------------------------------------------------------ the ICMP probe *)

Lemma icmp_message_length cks typ code id sq p :
  List.length (icmp_message cks typ code id sq p) = (8 + List.length p)%nat.
Proof. unfold icmp_message, icmp_header. rewrite !app_length. reflexivity. Qed.

Lemma icmp_datagram_fields o typ code p src dst id icmpid :
  List.length src = 4%nat -> List.length dst = 4%nat -> wf_bytes src = true -> wf_bytes dst = true ->
  0 <= o_len o < 65536 -> 0 <= o_proto o < 256 -> 0 <= o_ttl o < 256 -> 0 <= o_flags o < 8 ->
  0 <= typ < 256 -> 0 <= code < 256 ->
  wf_bytes p = true -> 28 + Z.of_nat (List.length p) < 65536 ->
  0 <= id < 65536 -> 0 <= icmpid < 65536 ->
  let msg := icmp_message true typ code icmpid fc_icmp_seq p in
  parse_ipv4 (icmp_datagram o typ code p src dst id icmpid) =
    Some (ip_with_overrides o (28 + Z.of_nat (List.length p)) id src dst, msg) /\
  parse_icmp msg = Some {| cv_type := typ; cv_code := code; cv_csum_ok := true; cv_id := icmpid;
                           cv_seq := fc_icmp_seq; cv_payload := p |}.
Proof.
  intros Ls Ld Ws Wd Hlen Hproto Httl Hfl Ht Hc Wp Hn Hid Hicmp msg.
  split.
  - unfold icmp_datagram.
    change fc_icmp_compute_checksums with true. change fc_icmp_ip_version with 4. change fc_icmp_ip_ihl with 5.
    fold msg.
    rewrite <- (app_nil_r (ipv4_datagram _ _ _ _ _ _ _ _ _ _ _ _)).
    rewrite parse_ipv4_datagram; try assumption; [|destruct (fix_lengths o); reflexivity|intros _; exact Hlen].
    rewrite app_nil_r. unfold ip_with_overrides, ip_expected, fix_lengths. do 3 f_equal.
    destruct (o_len o =? 0); [|reflexivity].
    subst msg. rewrite icmp_message_length. rewrite Z.mod_small; lia.
  - subst msg. apply parse_icmp_message; try assumption; try (unfold fc_icmp_seq; lia).
Qed.

Lemma icmp_frame_link o typ code p q src dst id icmpid :
  to4 (q_src_ip q) = Some src -> to4 (q_dst_ip q) = Some dst -> hyp_link (o_vpn o) q ->
  icmp_frame_with o typ code p q id icmpid =
  Some (let dgram := icmp_datagram o typ code p src dst id icmpid in
        if o_vpn o then dgram
        else q_dst_mac q ++ q_src_mac q ++ u16_bytes 2048 ++ dgram ++ repeat 0 (60 - (14 + List.length dgram))).
Proof.
  intros Hs Hd Hl. unfold icmp_frame_with. rewrite Hs, Hd. rewrite link_wrap_eq by exact Hl. reflexivity.
Qed.

Lemma icmp_probe_decodes o typ code p q src dst id icmpid :
  to4 (q_src_ip q) = Some src -> to4 (q_dst_ip q) = Some dst -> wf_bytes src = true -> wf_bytes dst = true ->
  hyp_link (o_vpn o) q -> 0 <= id < 65536 -> 0 <= icmpid < 65536 ->
  o_len o = 0 -> o_proto o = 1 -> 0 <= o_ttl o < 256 -> 0 <= o_flags o < 8 ->
  0 <= typ < 256 -> 0 <= code < 256 ->
  wf_bytes p = true -> 28 + Z.of_nat (List.length p) < 65536 ->
  exists frame, icmp_frame_with o typ code p q id icmpid = Some frame /\
                parse_probe (o_vpn o) frame =
                Some (icmp_probe_view (o_ttl o) (o_flags o) typ code p (o_vpn o) q src dst id icmpid).
Proof.
  intros Hsrc Hdst Ws Wd Hl Hid Hicmp Hlen Hproto Httl Hfl Ht Hc Wp Hn.
  pose proof (to4_length _ _ Hsrc) as Ls. pose proof (to4_length _ _ Hdst) as Ld.
  rewrite (icmp_frame_link o typ code p q src dst id icmpid Hsrc Hdst Hl).
  eexists. split; [reflexivity|]. cbv zeta.
  rewrite parse_probe_link by exact Hl.
  destruct (icmp_datagram_fields o typ code p src dst id icmpid) as (Hip & Hmsg); try assumption; try lia.
  set (msg := icmp_message true typ code icmpid fc_icmp_seq p) in *.
  assert (Lmsg : List.length msg = (8 + List.length p)%nat) by apply icmp_message_length.
  assert (Ldg : List.length (icmp_datagram o typ code p src dst id icmpid) = (28 + List.length p)%nat).
  { unfold icmp_datagram. rewrite ipv4_datagram_length by assumption.
    change fc_icmp_compute_checksums with true. fold msg. rewrite Lmsg. lia. }
  rewrite Ldg.
  erewrite parse_ip_probe_cut with (l4 := msg) (ip := ip_with_overrides o (28 + Z.of_nat (List.length p)) id src dst).
  - unfold icmp_probe_view, ip_with_overrides. rewrite Hlen, Hproto. cbn [Z.eqb]. f_equal. f_equal.
    unfold decode_l4, ip_expected. cbn [iv_proto Z.eqb Pos.eqb]. rewrite Hmsg. reflexivity.
  - unfold icmp_datagram in *.
    change fc_icmp_compute_checksums with true in *. change fc_icmp_ip_version with 4 in *.
    change fc_icmp_ip_ihl with 5 in *. fold msg in Hip |- *.
    rewrite parse_ipv4_datagram; try assumption; try lia; [|destruct (fix_lengths o); reflexivity].
    unfold ip_with_overrides, ip_expected, fix_lengths. rewrite Hlen. cbn [Z.eqb]. do 3 f_equal.
    rewrite Lmsg. rewrite Z.mod_small; lia.
  - unfold ip_with_overrides, ip_expected. cbn [iv_ihl]. lia.
  - unfold ip_with_overrides, ip_expected. cbn [iv_total_len iv_ihl]. rewrite Hlen. cbn [Z.eqb]. rewrite Lmsg. lia.
  - unfold ip_with_overrides, ip_expected. cbn [iv_total_len]. rewrite Hlen. cbn [Z.eqb].
    rewrite app_length, Ldg. lia.
Qed.

(* ------------------------------------------------------------------ the ARP request *)

Lemma arp_spa_4 q : List.length (q_src_ip q) = 4%nat -> arp_spa q = q_src_ip q.
Proof. intros H. unfold arp_spa, fc_arp_spa_to4. rewrite ?(to4_4 _ H). reflexivity. Qed.

Lemma arp_frame_decodes q target :
  List.length (q_src_mac q) = 6%nat -> List.length (q_src_ip q) = 4%nat -> to4 (q_dst_ip q) = Some target ->
  exists frame, arp_frame q = Some frame /\ List.length frame = 60%nat /\
    parse_arp_frame frame =
    Some ({| ev_dst := [255; 255; 255; 255; 255; 255]; ev_src := q_src_mac q; ev_type := 2054;
             ev_payload := arp_body q ++ repeat 0 18 |}, arp_request_view q target).
Proof.
  intros Hm Hs Ht. pose proof (to4_length _ _ Ht) as Lt.
  unfold arp_frame. rewrite eth_frame_ok by (try exact Hm; reflexivity).
  assert (Lb : List.length (arp_body q) = 28%nat).
  { unfold arp_body. rewrite Ht, (arp_spa_4 q Hs). rewrite !app_length, Hm, Hs, Lt. reflexivity. }
  rewrite Lb. change (60 - (14 + 28))%nat with 18%nat.
  eexists. split; [reflexivity|]. split.
  - rewrite !app_length, Lb, Hm. reflexivity.
  - unfold parse_arp_frame. change fc_arp_eth_dst with [255; 255; 255; 255; 255; 255].
    change fc_arp_ethertype with 2054.
    rewrite parse_eth_frame by (try exact Hm; try reflexivity; lia).
    cbn [ev_type Z.eqb Pos.eqb ev_payload]. unfold option_map.
    unfold arp_body, arp_request_view. rewrite Ht, (arp_spa_4 q Hs).
    destruct (length6 _ Hm) as (m0 & m1 & m2 & m3 & m4 & m5 & ->).
    destruct (length4 _ Hs) as (s0 & s1 & s2 & s3 & ->).
    destruct (length4 _ Lt) as (t0 & t1 & t2 & t3 & ->).
    reflexivity.
Qed.

(* ------------------------------------------------------------------ statements over the random draws *)

Definition wf_addrs (q : request) (src dst : list Z) : Prop :=
  to4 (q_src_ip q) = Some src /\ to4 (q_dst_ip q) = Some dst /\ wf_bytes src = true /\ wf_bytes dst = true.

Lemma tcp_spoofed_ranges (r : draws) :
  1 <= spoof16 fc_tcp_ip_id_base fc_tcp_ip_id_mod (d_id r) <= 65535 /\
  32768 <= spoof16 fc_tcp_sport_base fc_tcp_sport_mod (d_sport r) <= 60999.
Proof.
  split; [pose proof (spoof16_range fc_tcp_ip_id_base fc_tcp_ip_id_mod (d_id r))
         |pose proof (spoof16_range fc_tcp_sport_base fc_tcp_sport_mod (d_sport r))];
  unfold fc_tcp_ip_id_base, fc_tcp_ip_id_mod, fc_tcp_sport_base, fc_tcp_sport_mod in *; lia.
Qed.

Lemma udp_spoofed_ranges (r : draws) :
  1 <= spoof16 fc_udp_ip_id_base fc_udp_ip_id_mod (d_id r) <= 65535 /\
  32768 <= spoof16 fc_udp_sport_base fc_udp_sport_mod (d_sport r) <= 60999.
Proof.
  split; [pose proof (spoof16_range fc_udp_ip_id_base fc_udp_ip_id_mod (d_id r))
         |pose proof (spoof16_range fc_udp_sport_base fc_udp_sport_mod (d_sport r))];
  unfold fc_udp_ip_id_base, fc_udp_ip_id_mod, fc_udp_sport_base, fc_udp_sport_mod in *; lia.
Qed.

Lemma icmp_spoofed_ranges (r : draws) :
  1 <= spoof16 fc_icmp_ip_id_base fc_icmp_ip_id_mod (d_id r) <= 65535 /\
  1 <= spoof16 fc_icmp_id_base fc_icmp_id_mod (d_icmp_id r) <= 65535.
Proof.
  split; [pose proof (spoof16_range fc_icmp_ip_id_base fc_icmp_ip_id_mod (d_id r))
         |pose proof (spoof16_range fc_icmp_id_base fc_icmp_id_mod (d_icmp_id r))];
  unfold fc_icmp_ip_id_base, fc_icmp_ip_id_mod, fc_icmp_id_base, fc_icmp_id_mod in *; lia.
Qed.

Lemma tcp_probe_full fl vpn q r src dst :
  wf_addrs q src dst -> hyp_link vpn q -> 0 <= q_dport q < 65536 ->
  let id := spoof16 fc_tcp_ip_id_base fc_tcp_ip_id_mod (d_id r) in
  let sport := spoof16 fc_tcp_sport_base fc_tcp_sport_mod (d_sport r) in
  let sq := d_seq r mod 4294967296 in
  exists frame, tcp_frame fl vpn q r = Some frame /\
                parse_probe vpn frame = Some (tcp_probe_view fl vpn q src dst id sport sq) /\
                1 <= id <= 65535 /\ 32768 <= sport <= 60999.
Proof.
  intros (Hs & Hd & Ws & Wd) Hl Hdp id sport sq.
  destruct (tcp_spoofed_ranges r) as [Hid Hsp]. fold id in Hid. fold sport in Hsp.
  assert (Hsq : 0 <= sq < 4294967296) by (apply Z.mod_pos_bound; lia).
  destruct (tcp_probe_decodes fl vpn q src dst id sport sq) as (frame & Hf & Hp); try assumption; try lia.
  exists frame. unfold tcp_frame. fold id sport sq. auto.
Qed.

Lemma udp_probe_full o p q r src dst :
  wf_addrs q src dst -> hyp_link (o_vpn o) q -> 0 <= q_dport q < 65536 ->
  o_len o = 0 -> o_proto o = 17 -> 0 <= o_ttl o < 256 -> 0 <= o_flags o < 8 ->
  wf_bytes p = true -> 28 + Z.of_nat (List.length p) <= 65535 ->
  let id := spoof16 fc_udp_ip_id_base fc_udp_ip_id_mod (d_id r) in
  let sport := spoof16 fc_udp_sport_base fc_udp_sport_mod (d_sport r) in
  exists frame, udp_frame o p q r = Some frame /\
                parse_probe (o_vpn o) frame = Some (udp_probe_view (o_ttl o) (o_flags o) p (o_vpn o) q src dst id sport) /\
                1 <= id <= 65535 /\ 32768 <= sport <= 60999.
Proof.
  intros (Hs & Hd & Ws & Wd) Hl Hdp Hlen Hproto Httl Hfl Wp Hn id sport.
  destruct (udp_spoofed_ranges r) as [Hid Hsp]. fold id in Hid. fold sport in Hsp.
  destruct (udp_probe_decodes o p q src dst id sport) as (frame & Hf & Hp); try assumption; try lia.
  exists frame. unfold udp_frame. fold id sport. auto.
Qed.

Lemma icmp_probe_full o typ code (popt : option (list Z)) q r src dst :
  wf_addrs q src dst -> hyp_link (o_vpn o) q ->
  o_len o = 0 -> o_proto o = 1 -> 0 <= o_ttl o < 256 -> 0 <= o_flags o < 8 ->
  0 <= typ < 256 -> 0 <= code < 256 ->
  let p := match popt with Some p => p | None => d_payload r end in
  wf_bytes p = true -> 28 + Z.of_nat (List.length p) <= 65535 ->
  let id := spoof16 fc_icmp_ip_id_base fc_icmp_ip_id_mod (d_id r) in
  let icmpid := spoof16 fc_icmp_id_base fc_icmp_id_mod (d_icmp_id r) in
  exists frame, icmp_frame o typ code popt q r = Some frame /\
                parse_probe (o_vpn o) frame =
                Some (icmp_probe_view (o_ttl o) (o_flags o) typ code p (o_vpn o) q src dst id icmpid) /\
                1 <= id <= 65535 /\ 1 <= icmpid <= 65535.
Proof.
  intros (Hs & Hd & Ws & Wd) Hl Hlen Hproto Httl Hfl Ht Hc p Wp Hn id icmpid.
  destruct (icmp_spoofed_ranges r) as [Hid Hic]. fold id in Hid. fold icmpid in Hic.
  destruct (icmp_probe_decodes o typ code p q src dst id icmpid) as (frame & Hf & Hp); try assumption; try lia.
  exists frame. unfold icmp_frame. fold p id icmpid. auto.
Qed.

(* overrides: every option combination *)
Lemma udp_override_full o p q r src dst :
  wf_addrs q src dst -> 0 <= q_dport q < 65536 ->
  0 <= o_len o < 65536 -> 0 <= o_proto o < 256 -> 0 <= o_ttl o < 256 -> 0 <= o_flags o < 8 ->
  wf_bytes p = true -> 28 + Z.of_nat (List.length p) <= 65535 ->
  let id := spoof16 fc_udp_ip_id_base fc_udp_ip_id_mod (d_id r) in
  let sport := spoof16 fc_udp_sport_base fc_udp_sport_mod (d_sport r) in
  let dgram := udp_datagram o p src dst (q_dport q) id sport in
  exists seg,
    parse_ipv4 dgram = Some (ip_with_overrides o (28 + Z.of_nat (List.length p)) id src dst, seg) /\
    parse_udp seg = Some {| uv_sport := sport; uv_dport := q_dport q; uv_length := 8 + Z.of_nat (List.length p);
                            uv_payload := p; uv_after := [] |} /\
    l4_csum_ok src dst 17 seg = true.
Proof.
  intros (Hs & Hd & Ws & Wd) Hdp Hlen Hproto Httl Hfl Wp Hn id sport dgram.
  pose proof (to4_length _ _ Hs) as Ls. pose proof (to4_length _ _ Hd) as Ld.
  destruct (udp_spoofed_ranges r) as [Hid Hsp]. fold id in Hid. fold sport in Hsp.
  eexists. apply udp_datagram_fields; try assumption; lia.
Qed.

Lemma icmp_override_full o typ code p q r src dst :
  wf_addrs q src dst ->
  0 <= o_len o < 65536 -> 0 <= o_proto o < 256 -> 0 <= o_ttl o < 256 -> 0 <= o_flags o < 8 ->
  0 <= typ < 256 -> 0 <= code < 256 ->
  wf_bytes p = true -> 28 + Z.of_nat (List.length p) <= 65535 ->
  let id := spoof16 fc_icmp_ip_id_base fc_icmp_ip_id_mod (d_id r) in
  let icmpid := spoof16 fc_icmp_id_base fc_icmp_id_mod (d_icmp_id r) in
  let dgram := icmp_datagram o typ code p src dst id icmpid in
  exists msg,
    parse_ipv4 dgram = Some (ip_with_overrides o (28 + Z.of_nat (List.length p)) id src dst, msg) /\
    parse_icmp msg = Some {| cv_type := typ; cv_code := code; cv_csum_ok := true; cv_id := icmpid;
                             cv_seq := fc_icmp_seq; cv_payload := p |}.
Proof.
  intros (Hs & Hd & Ws & Wd) Hlen Hproto Httl Hfl Ht Hc Wp Hn id icmpid dgram.
  pose proof (to4_length _ _ Hs) as Ls. pose proof (to4_length _ _ Hd) as Ld.
  destruct (icmp_spoofed_ranges r) as [Hid Hic]. fold id in Hid. fold icmpid in Hic.
  eexists. apply icmp_datagram_fields; try assumption; lia.
Qed.

(* VPN mode: the same datagram, without the Ethernet header (and its padding) *)
Lemma vpn_frame_relation vpn q et dgram : hyp_link vpn q ->
  link_wrap vpn q et dgram =
  Some (if vpn then dgram
        else q_dst_mac q ++ q_src_mac q ++ u16_bytes et ++ dgram ++ repeat 0 (60 - (14 + List.length dgram))).
Proof. exact (link_wrap_eq vpn q et dgram). Qed.

(* Fill refuses exactly the requests whose addresses are not IPv4 or whose MACs are not 6 bytes *)
Lemma link_wrap_none vpn q et dgram :
  link_wrap vpn q et dgram = None <->
  vpn = false /\ (List.length (q_dst_mac q) <> 6%nat \/ List.length (q_src_mac q) <> 6%nat).
Proof.
  unfold link_wrap, eth_frame. destruct vpn.
  - split; [discriminate|intros [C _]; discriminate].
  - destruct (Nat.eqb_spec (List.length (q_dst_mac q)) 6) as [E1|E1]; cbn [negb].
    + destruct (Nat.eqb_spec (List.length (q_src_mac q)) 6) as [E2|E2]; cbn [negb].
      * split; [discriminate|intros [_ [C|C]]; contradiction].
      * split; auto.
    + split; auto.
Qed.

(* ------------------------------------------------------------------ With* options -> filler flags *)

Definition has_opt (w : string) (ws : list string) : bool := existsb (String.eqb w) ws.

Definition flags_of_opts (ws : list string) : tcp_flagset :=
  {| fFIN := has_opt "WithFIN" ws; fSYN := has_opt "WithSYN" ws; fRST := has_opt "WithRST" ws;
     fPSH := has_opt "WithPSH" ws; fACK := has_opt "WithACK" ws; fURG := has_opt "WithURG" ws;
     fECE := has_opt "WithECE" ws; fCWR := has_opt "WithCWR" ws; fNS := has_opt "WithNS" ws |}.

Definition flags_or (a b : tcp_flagset) : tcp_flagset :=
  {| fFIN := fFIN a || fFIN b; fSYN := fSYN a || fSYN b; fRST := fRST a || fRST b; fPSH := fPSH a || fPSH b;
     fACK := fACK a || fACK b; fURG := fURG a || fURG b; fECE := fECE a || fECE b; fCWR := fCWR a || fCWR b;
     fNS := fNS a || fNS b |}.

Definition filler_step (f : tcp_flagset) (w : string) : tcp_flagset :=
  fold_left (fun f' fld => set_flag_field fld f') (assoc_strs w fc_tcp_with_fields) f.

Definition known_opt (w : string) : bool :=
  existsb (String.eqb w) ["WithFIN"; "WithSYN"; "WithRST"; "WithPSH"; "WithACK"; "WithURG"; "WithECE"; "WithCWR"; "WithNS"]%string.

Lemma filler_step_known f w : known_opt w = true -> filler_step f w = flags_or f (flags_of_opts [w]).
Proof.
  unfold known_opt. cbn [existsb]. intros H.
  repeat (apply orb_true_iff in H; destruct H as [H|H]; [apply String.eqb_eq in H; subst w; destruct f; reflexivity|]).
  discriminate.
Qed.

Lemma flags_or_assoc a b c : flags_or (flags_or a b) c = flags_or a (flags_or b c).
Proof.
  unfold flags_or. cbn [fFIN fSYN fRST fPSH fACK fURG fECE fCWR fNS]. rewrite !orb_assoc. reflexivity.
Qed.

Lemma flags_of_opts_cons w ws : flags_of_opts (w :: ws) = flags_or (flags_of_opts [w]) (flags_of_opts ws).
Proof. unfold flags_of_opts, flags_or, has_opt. cbn [existsb fFIN fSYN fRST fPSH fACK fURG fECE fCWR fNS]. rewrite !orb_false_r. reflexivity. Qed.

Lemma filler_fold ws : forall f, forallb known_opt ws = true ->
  fold_left filler_step ws f = flags_or f (flags_of_opts ws).
Proof.
  induction ws as [|w ws IH]; intros f H.
  - destruct f as [b1 b2 b3 b4 b5 b6 b7 b8 b9]. unfold flags_or, flags_of_opts, has_opt.
    cbn [fold_left existsb fFIN fSYN fRST fPSH fACK fURG fECE fCWR fNS]. rewrite !orb_false_r. reflexivity.
  - cbn [forallb] in H. apply andb_true_iff in H. destruct H as [Hw Hws].
    cbn [fold_left]. rewrite filler_step_known by exact Hw. rewrite IH by exact Hws.
    rewrite flags_or_assoc, <- flags_of_opts_cons. reflexivity.
Qed.

(* tcp.NewPacketFiller(opts...) sets exactly the flags whose With* option was given, in any order,
   with any repetition *)
Lemma tcp_filler_flags ws : forallb known_opt ws = true -> tcp_filler_of ws = flags_of_opts ws.
Proof.
  intros H. unfold tcp_filler_of. change (fun f w => fold_left (fun f' fld => set_flag_field fld f') (assoc_strs w fc_tcp_with_fields) f) with filler_step.
  rewrite filler_fold by exact H. destruct (flags_of_opts ws). reflexivity.
Qed.

(* ------------------------------------------------------------------ VPN mode = the same datagram *)

Definition with_vpn (o : ip_opts) (b : bool) : ip_opts :=
  {| o_ttl := o_ttl o; o_len := o_len o; o_proto := o_proto o; o_flags := o_flags o; o_vpn := b |}.

Definition eth_encap (q : request) (dgram : list Z) : list Z :=
  q_dst_mac q ++ q_src_mac q ++ [8; 0] ++ dgram ++ repeat 0 (60 - (14 + List.length dgram)).

Lemma tcp_vpn_relation fl q id sport sq dgram : hyp_link false q ->
  tcp_frame_with fl true q id sport sq = Some dgram ->
  tcp_frame_with fl false q id sport sq = Some (eth_encap q dgram).
Proof.
  intros Hl. unfold tcp_frame_with.
  destruct (to4 (q_src_ip q)) as [s|]; [|discriminate]. destruct (to4 (q_dst_ip q)) as [d|]; [|discriminate].
  cbn [link_wrap]. intros H. injection H as <-.
  change (if false then ?a else ?b) with b. apply eth_frame_ok; apply (Hl eq_refl).
Qed.

Lemma udp_vpn_relation o p q id sport dgram : hyp_link false q ->
  udp_frame_with (with_vpn o true) p q id sport = Some dgram ->
  udp_frame_with (with_vpn o false) p q id sport = Some (eth_encap q dgram).
Proof.
  intros Hl. unfold udp_frame_with.
  destruct (to4 (q_src_ip q)) as [s|]; [|discriminate]. destruct (to4 (q_dst_ip q)) as [d|]; [|discriminate].
  cbn [link_wrap with_vpn o_vpn]. intros H. injection H as <-.
  apply eth_frame_ok; apply (Hl eq_refl).
Qed.

Lemma icmp_vpn_relation o typ code p q id icmpid dgram : hyp_link false q ->
  icmp_frame_with (with_vpn o true) typ code p q id icmpid = Some dgram ->
  icmp_frame_with (with_vpn o false) typ code p q id icmpid = Some (eth_encap q dgram).
Proof.
  intros Hl. unfold icmp_frame_with.
  destruct (to4 (q_src_ip q)) as [s|]; [|discriminate]. destruct (to4 (q_dst_ip q)) as [d|]; [|discriminate].
  cbn [link_wrap with_vpn o_vpn]. intros H. injection H as <-.
  apply eth_frame_ok; apply (Hl eq_refl).
Qed.

(* Fill fails exactly when an address is not IPv4 or (with link header) a MAC is not 6 bytes long *)
Lemma tcp_frame_none fl vpn q id sport sq :
  tcp_frame_with fl vpn q id sport sq = None <->
  to4 (q_src_ip q) = None \/ to4 (q_dst_ip q) = None \/
  (vpn = false /\ (List.length (q_dst_mac q) <> 6%nat \/ List.length (q_src_mac q) <> 6%nat)).
Proof.
  unfold tcp_frame_with.
  destruct (to4 (q_src_ip q)) as [s|]; [|split; auto].
  destruct (to4 (q_dst_ip q)) as [d|]; [|split; auto].
  rewrite link_wrap_none. split; [auto|]. intros [C|[C|C]]; [discriminate|discriminate|exact C].
Qed.
