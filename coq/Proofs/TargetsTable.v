(* The generated cyclic group table satisfies the certificate C04 needs (kernel VM); shared by the proofs
   about the target generators so that the certificate is computed once. *)
From Coq Require Import ZArith List.
From SX Require Import Model.RangeIter Gen.GroupsTable Proofs.RangeIterProofs.

Lemma groups_certificate : check_table cyclic_groups = true.
Proof. vm_compute. reflexivity. Qed.

Lemma groups_ok : table_ok cyclic_groups.
Proof. exact (check_table_sound cyclic_groups groups_certificate). Qed.
