(* Glue for C04: binary search, the boolean row certificate, and the instantiation of the abstract
   orbit of Proofs/Walk.v with  orb k = g'^(a+k) mod p. *)
From Coq Require Import ZArith Znumtheory Zpow_facts List Lia Bool Arith.
From SX Require Import Base.Loop Model.RangeIter Proofs.NumTheory Proofs.Walk.
Import ListNotations.
Open Scope Z_scope.

(* ------------------------------------------------------------------ sort.Search *)
Lemma div2_bounds i j : (i < j)%nat -> (i <= Nat.div2 (i + j) < j)%nat.
Proof.
  intros H. rewrite Nat.div2_div.
  pose proof (Nat.div_mod (i + j) 2 ltac:(lia)) as E.
  pose proof (Nat.mod_upper_bound (i + j) 2 ltac:(lia)) as B. lia.
Qed.

Lemma bsearch_spec (pred : nat -> bool) : forall fuel i j, (i <= j)%nat -> (j - i <= fuel)%nat ->
  let r := bsearch pred fuel i j in
  (i <= r <= j)%nat /\ (r = i \/ pred (r - 1)%nat = false) /\ (r = j \/ pred r = true).
Proof.
  induction fuel as [|f IH]; intros i j Hij Hf; cbn [bsearch].
  - cbv zeta. assert (i = j) by lia. subst. repeat split; auto; lia.
  - destruct (Nat.ltb_spec i j) as [Hlt|Hge].
    + pose proof (div2_bounds i j Hlt) as Hh. set (h := Nat.div2 (i + j)) in *.
      destruct (pred h) eqn:Ph.
      * specialize (IH i h ltac:(lia) ltac:(lia)). cbv zeta in IH.
        destruct IH as [Hr [HA HB]]. cbv zeta. split; [lia|]. split; [exact HA|].
        destruct HB as [->|HB]; right; assumption.
      * specialize (IH (S h) j ltac:(lia) ltac:(lia)). cbv zeta in IH.
        destruct IH as [Hr [HA HB]]. cbv zeta. split; [lia|]. split; [|exact HB].
        destruct HA as [->|HA]; right; [|assumption].
        replace (S h - 1)%nat with h by lia. exact Ph.
    + cbv zeta. assert (i = j) by lia. subst. repeat split; auto; lia.
Qed.

Definition d0 : row := (0, 0, 0).

Lemma search_some table n r : search table n = Some r -> In r table /\ n < rowP r.
Proof.
  unfold search. set (pred := fun i => n <? rowP (nth i table (0, 0, 0))).
  set (len := length table).
  pose proof (bsearch_spec pred (S len) 0%nat len ltac:(lia) ltac:(lia)) as H. cbv zeta in H.
  set (idx := bsearch pred (S len) 0 len) in *.
  destruct H as [Hr [_ HB]]. intros Hnth.
  assert (Hlt : (idx < len)%nat).
  { apply nth_error_Some. rewrite Hnth. discriminate. }
  destruct HB as [E|HB]; [lia|].
  rewrite (nth_error_nth' table d0 Hlt) in Hnth. injection Hnth as <-.
  split; [apply nth_In; exact Hlt|]. unfold pred in HB. apply Z.ltb_lt in HB. exact HB.
Qed.

Lemma search_none table n : search table n = None -> table <> [] -> last_p table <= n.
Proof.
  unfold search, last_p. set (pred := fun i => n <? rowP (nth i table (0, 0, 0))).
  set (len := length table).
  pose proof (bsearch_spec pred (S len) 0%nat len ltac:(lia) ltac:(lia)) as H. cbv zeta in H.
  set (idx := bsearch pred (S len) 0 len) in *.
  destruct H as [Hr [HA _]]. intros Hnth Hne.
  apply nth_error_None in Hnth. fold len in Hnth.
  assert (Hlen : (0 < len)%nat). { subst len. destruct table; [congruence|cbn; lia]. }
  assert (idx = len) by lia.
  destruct HA as [E|HA]; [lia|].
  replace (idx - 1)%nat with (len - 1)%nat in HA by lia.
  unfold pred in HA. apply Z.ltb_ge in HA. exact HA.
Qed.

Lemma search_all_le table n :
  (forall r, In r table -> rowP r <= n) -> search table n = None.
Proof.
  intros Hall. destruct (search table n) as [r|] eqn:E; [|reflexivity].
  apply search_some in E. destruct E as [Hin Hlt]. specialize (Hall r Hin). lia.
Qed.

(* ------------------------------------------------------------------ trial division *)
(* r = least_div fuel d q, with enough fuel (d + fuel > sqrt q): r is the least divisor >= 2 *)
Lemma least_div_spec : forall fuel d q, 2 <= d -> d <= q ->
  (forall e, 2 <= e < d -> ~ (e | q)) ->
  q < (d + Z.of_nat fuel) * (d + Z.of_nat fuel) ->
  let r := least_div fuel d q in
  (r | q) /\ d <= r <= q /\ (forall e, 2 <= e < r -> ~ (e | q)).
Proof.
  induction fuel as [|f IH]; intros d q Hd Hdq Hnone Hfuel; cbn [least_div]; cbv zeta.
  - rewrite Z.add_0_r in Hfuel. split; [apply Z.divide_refl|]. split; [lia|].
    intros e He Hdiv. destruct (Z_lt_le_dec e d) as [Hlt|Hge]; [apply (Hnone e); [lia|assumption]|].
    (* e >= d, e | q, e < q: cofactor c = q / e satisfies 2 <= c, c | q, c * e = q, so c < d or ... *)
    destruct Hdiv as [c Hc]. assert (Hcpos : 0 < c) by nia.
    assert (Hc2 : 2 <= c) by nia.
    destruct (Z_lt_le_dec c d) as [Hcl|Hcg].
    + apply (Hnone c); [lia|]. exists e. lia.
    + assert (d * d <= c * e) by nia. lia.
  - destruct (Z.ltb_spec q (d * d)) as [Hsq|Hsq].
    + split; [apply Z.divide_refl|]. split; [lia|].
      intros e He Hdiv. destruct (Z_lt_le_dec e d) as [Hlt|Hge]; [apply (Hnone e); [lia|assumption]|].
      destruct Hdiv as [c Hc]. assert (Hcpos : 0 < c) by nia. assert (Hc2 : 2 <= c) by nia.
      destruct (Z_lt_le_dec c d) as [Hcl|Hcg].
      * apply (Hnone c); [lia|]. exists e. lia.
      * assert (d * d <= c * e) by nia. lia.
    + destruct (Z.eqb_spec (q mod d) 0) as [Hm|Hm].
      * split; [apply Z.mod_divide; [lia|assumption]|]. split; [lia|]. exact Hnone.
      * assert (Hnd : ~ (d | q)). { intros Hdv. apply Hm. apply Z.mod_divide; [lia|assumption]. }
        assert (Hdq' : d + 1 <= q).
        { destruct (Z.eq_dec d q) as [->|]; [exfalso; apply Hnd; apply Z.divide_refl|lia]. }
        specialize (IH (d + 1) q ltac:(lia) Hdq').
        assert (Hnone' : forall e, 2 <= e < d + 1 -> ~ (e | q)).
        { intros e He. destruct (Z.eq_dec e d) as [->|]; [exact Hnd|apply Hnone; lia]. }
        specialize (IH Hnone').
        assert (Hf' : q < (d + 1 + Z.of_nat f) * (d + 1 + Z.of_nat f)).
        { replace (d + 1 + Z.of_nat f) with (d + Z.of_nat (S f)) by lia. exact Hfuel. }
        specialize (IH Hf'). cbv zeta in IH. destruct IH as [A [B C]].
        split; [exact A|]. split; [lia|exact C].
Qed.

Lemma sqrt_fuel_enough q : 0 <= q -> q < (2 + Z.of_nat (sqrt_fuel q)) * (2 + Z.of_nat (sqrt_fuel q)).
Proof.
  intros Hq. unfold sqrt_fuel. pose proof (Z.sqrt_spec q Hq) as [_ H]. pose proof (Z.sqrt_nonneg q).
  rewrite Z2Nat.id by lia. unfold Z.succ in H. nia.
Qed.

Lemma no_small_divisor_prime q : 2 <= q -> (forall e, 2 <= e < q -> ~ (e | q)) -> prime q.
Proof.
  intros Hq Hnone. destruct (prime_dec q) as [|Hnp]; [assumption|exfalso].
  destruct (not_prime_divide q ltac:(lia) Hnp) as [m [Hm Hdiv]].
  apply (Hnone m); [lia|assumption].
Qed.

Lemma least_div_prime q : 2 <= q -> prime (least_div (sqrt_fuel q) 2 q).
Proof.
  intros Hq.
  pose proof (least_div_spec (sqrt_fuel q) 2 q ltac:(lia) Hq) as H.
  specialize (H ltac:(intros; lia) (sqrt_fuel_enough q ltac:(lia))). cbv zeta in H.
  set (r := least_div (sqrt_fuel q) 2 q) in *. destruct H as [Hdiv [Hr Hnone]].
  apply no_small_divisor_prime; [lia|].
  intros e He Hd. apply (Hnone e He). eapply Z.divide_trans; eassumption.
Qed.

Lemma is_prime_sound q : is_prime q = true -> prime q.
Proof.
  unfold is_prime. intros H. apply andb_true_iff in H. destruct H as [H2 Hl].
  apply Z.leb_le in H2. apply Z.eqb_eq in Hl. rewrite <- Hl. apply least_div_prime. exact H2.
Qed.

(* a prime dividing a product of primes is one of them *)
Lemma prime_div_prod q l : prime q -> (forall x, In x l -> prime x) -> (q | prod l) -> In q l.
Proof.
  intros Hq. induction l as [|x xs IH]; intros Hall Hdiv; cbn [prod fold_right] in Hdiv.
  - exfalso. apply Z.divide_1_r in Hdiv. pose proof (prime_ge_2 q Hq). lia.
  - apply prime_mult in Hdiv; [|exact Hq]. destruct Hdiv as [Hx|Hxs].
    + left. symmetry. apply prime_div_prime; [exact Hq|apply Hall; left; reflexivity|exact Hx].
    + right. apply IH; [intros y Hy; apply Hall; right; exact Hy|exact Hxs].
Qed.

(* ------------------------------------------------------------------ the row certificate *)
Definition order_div (p g : Z) : Prop := forall m, 0 <= m -> cong1 p g m -> (p - 1 | m).

Record good_gen (p g : Z) : Prop := {
  gg_p : 2 < p;
  gg_one : cong1 p g (p - 1);
  gg_ord : order_div p g }.

(* boolean generator test against a list of primes whose product is p-1 *)
Definition is_generator (p : Z) (qs : list Z) (g : Z) : bool :=
  (powm g (p - 1) p =? 1) && forallb (fun q => negb (powm g ((p - 1) / q) p =? 1)) qs.

Lemma is_generator_sound p qs g :
  2 < p -> prod qs = p - 1 -> (forall q, In q qs -> prime q) ->
  is_generator p qs g = true -> good_gen p g.
Proof.
  intros Hp Hprod Hprimes H. unfold is_generator in H. apply andb_true_iff in H. destruct H as [H1 Hqs].
  apply Z.eqb_eq in H1. rewrite powm_spec in H1 by lia.
  assert (Hall : forall q, In q qs -> ~ cong1 p g ((p - 1) / q)).
  { intros q Hq Hc. rewrite forallb_forall in Hqs. specialize (Hqs q Hq).
    apply negb_true_iff in Hqs. apply Z.eqb_neq in Hqs. apply Hqs.
    assert (Hq2 : 2 <= q) by (apply prime_ge_2; auto).
    rewrite powm_spec; [exact Hc|lia|]. apply Z.div_pos; lia. }
  constructor; [exact Hp|exact H1|].
  intros m Hm Hc. apply (cong1_divides p g Hp H1 qs); auto.
  intros q Hq Hdiv. apply prime_div_prod; auto. rewrite Hprod. exact Hdiv.
Qed.

Record good_row (r : row) : Prop := {
  gr_gen : good_gen (rowP r) (rowG r);
  gr_n : 0 <= rowN r;
  gr_rel : rel_prime (rowN r) (rowP r - 1) }.

Lemma check_row_sound r : check_row r = true -> good_row r.
Proof.
  unfold check_row. cbv zeta. set (p := rowP r). set (g := rowG r). set (n := rowN r).
  set (qs := factorize 64 (p - 1)).
  intros H. repeat (apply andb_true_iff in H; destruct H as [H ?]).
  match goal with H : (2 <? p) = true |- _ => apply Z.ltb_lt in H; rename H into Hp end.
  match goal with H : (prod qs =? p - 1) = true |- _ => apply Z.eqb_eq in H; rename H into Hprod end.
  match goal with H : forallb is_prime qs = true |- _ => rename H into Hprimes end.
  match goal with H : (Z.gcd n (p - 1) =? 1) = true |- _ => apply Z.eqb_eq in H; rename H into Hgcd end.
  match goal with H : (0 <=? n) = true |- _ => apply Z.leb_le in H; rename H into Hn end.
  assert (Hpr : forall q, In q qs -> prime q).
  { intros q Hq. rewrite forallb_forall in Hprimes. apply is_prime_sound. apply Hprimes. exact Hq. }
  constructor; [|exact Hn|].
  - apply (is_generator_sound p qs g Hp Hprod Hpr). unfold is_generator.
    apply andb_true_iff. split; assumption.
  - apply Zgcd_1_rel_prime. exact Hgcd.
Qed.

(* ------------------------------------------------------------------ orbit of a generator *)
Section Orbit.
Variables (p g : Z).
Hypothesis Hgood : good_gen p g.
Let Hp := gg_p p g Hgood.
Let Hone := gg_one p g Hgood.
Let Hord := gg_ord p g Hgood.

Lemma pow_period a : 0 <= a -> g ^ (a + (p - 1)) mod p = g ^ a mod p.
Proof.
  intros Ha. rewrite pow_mod_mul by lia. unfold cong1 in Hone. rewrite Hone, Z.mul_1_r.
  apply Z.mod_mod. lia.
Qed.

Lemma pow_period_mul a t : 0 <= a -> 0 <= t -> g ^ (a + (p - 1) * t) mod p = g ^ a mod p.
Proof.
  intros Ha Ht. rewrite pow_mod_mul; [|lia|lia|apply Z.mul_nonneg_nonneg; lia].
  assert (H : cong1 p g ((p - 1) * t)) by (apply cong1_mul; try lia; exact Hone).
  unfold cong1 in H. rewrite H, Z.mul_1_r. apply Z.mod_mod. lia.
Qed.

Lemma pow_eq_divides a b : 0 <= a -> a <= b -> g ^ a mod p = g ^ b mod p -> (p - 1 | b - a).
Proof.
  intros Ha Hab Heq. apply Hord; [lia|]. apply (eq_pow_cong1 p g Hp Hone a b); assumption.
Qed.

Lemma pow_mod_exp a : 0 <= a -> g ^ a mod p = g ^ (a mod (p - 1)) mod p.
Proof.
  intros Ha. pose proof (Z.div_mod a (p - 1) ltac:(lia)) as E.
  pose proof (Z.mod_pos_bound a (p - 1) ltac:(lia)) as B.
  assert (0 <= a / (p - 1)) by (apply Z.div_pos; lia).
  rewrite E at 1. rewrite Z.add_comm. apply pow_period_mul; lia.
Qed.

Variable a : Z.
Hypothesis Ha : 0 <= a.
Definition orbit (k : nat) : Z := g ^ (a + Z.of_nat k) mod p.
Definition period : nat := Z.to_nat (p - 1).

Lemma orbit_step k : orbit (S k) = (orbit k * g) mod p.
Proof.
  unfold orbit. rewrite Nat2Z.inj_succ. replace (a + Z.succ (Z.of_nat k)) with ((a + Z.of_nat k) + 1) by lia.
  rewrite Z.pow_add_r by lia. rewrite Z.pow_1_r. rewrite Z.mul_mod_idemp_l by lia. reflexivity.
Qed.

Lemma orbit_shift b k : orbit (b + k) = g ^ ((a + Z.of_nat b) + Z.of_nat k) mod p.
Proof. unfold orbit. f_equal. f_equal. lia. Qed.

Lemma orbit_eq_iff i j : (i <= j)%nat -> orbit i = orbit j -> (p - 1 | Z.of_nat j - Z.of_nat i).
Proof.
  intros Hij E. unfold orbit in E.
  replace (Z.of_nat j - Z.of_nat i) with ((a + Z.of_nat j) - (a + Z.of_nat i)) by lia.
  apply pow_eq_divides; [lia|lia|exact E].
Qed.

Lemma orbit_period b : orbit (b + period) = orbit b.
Proof.
  unfold orbit, period. rewrite Nat2Z.inj_add, Z2Nat.id by lia.
  replace (a + (Z.of_nat b + (p - 1))) with ((a + Z.of_nat b) + (p - 1)) by lia.
  apply pow_period. lia.
Qed.

Lemma orbit_ne b k : (0 < k < period)%nat -> orbit (b + k) <> orbit b.
Proof.
  intros Hk E. symmetry in E. apply orbit_eq_iff in E; [|lia].
  replace (Z.of_nat (b + k) - Z.of_nat b) with (Z.of_nat k) in E by lia.
  apply Z.divide_pos_le in E; [|lia]. unfold period in Hk. lia.
Qed.

Lemma orbit_inj b i j : (i < period)%nat -> (j < period)%nat -> orbit (b + i) = orbit (b + j) -> i = j.
Proof.
  intros Hi Hj E. unfold period in *.
  destruct (Nat.lt_trichotomy i j) as [Hlt|[->|Hgt]]; [|reflexivity|].
  - exfalso. apply orbit_eq_iff in E; [|lia].
    replace (Z.of_nat (b + j) - Z.of_nat (b + i)) with (Z.of_nat j - Z.of_nat i) in E by lia.
    apply Z.divide_pos_le in E; lia.
  - exfalso. symmetry in E. apply orbit_eq_iff in E; [|lia].
    replace (Z.of_nat (b + i) - Z.of_nat (b + j)) with (Z.of_nat i - Z.of_nat j) in E by lia.
    apply Z.divide_pos_le in E; lia.
Qed.

Lemma orbit_range k : 1 <= orbit k < p.
Proof. unfold orbit. apply pow_unit; [exact Hp|exact Hone|lia]. Qed.

Lemma orbit_surj b x : 1 <= x < p -> exists k, (k < period)%nat /\ orbit (b + k) = x.
Proof.
  intros Hx.
  destruct (pow_surjective p g Hp Hone (ord_inj p g Hp Hone Hord) x Hx) as [j [Hj Ej]].
  (* choose k = (j - (a+b)) mod (p-1) *)
  set (c := a + Z.of_nat b).
  set (k := (j - c) mod (p - 1)).
  pose proof (Z.mod_pos_bound (j - c) (p - 1) ltac:(lia)) as Bk. fold k in Bk.
  exists (Z.to_nat k). split; [unfold period; lia|].
  rewrite orbit_shift. fold c. rewrite Z2Nat.id by lia.
  rewrite pow_mod_exp by lia. rewrite <- Ej. f_equal. f_equal.
  unfold k. rewrite Zplus_mod_idemp_r. replace (c + (j - c)) with j by lia.
  apply Z.mod_small. lia.
Qed.
End Orbit.

(* ------------------------------------------------------------------ the walk is a permutation *)
Definition is_perm_1n (n : Z) (l : list Z) : Prop := NoDup l /\ forall x, In x l <-> 1 <= x <= n.

Lemma perm_length n l : 0 <= n -> is_perm_1n n l -> length l = Z.to_nat n.
Proof.
  intros Hn [Hnd Hin].
  assert (Hincl1 : incl l (zrange 1 (Z.to_nat n))).
  { intros x Hx. apply zrange_In. apply Hin in Hx. lia. }
  assert (Hincl2 : incl (zrange 1 (Z.to_nat n)) l).
  { intros x Hx. apply zrange_In in Hx. apply Hin. lia. }
  pose proof (NoDup_incl_length Hnd Hincl1) as L1.
  pose proof (NoDup_incl_length (zrange_NoDup 1 (Z.to_nat n)) Hincl2) as L2.
  rewrite zrange_length in *. lia.
Qed.

Theorem walk_core p g a n fuel :
  good_gen p g -> 0 <= a -> 1 <= n < p -> n <= Zpos fuel ->
  exists l, walk_from fuel p g n (g ^ a mod p) = Ok (Complete l) /\ is_perm_1n n l.
Proof.
  intros Hgood Ha Hn Hfuel.
  pose proof (gg_p p g Hgood) as Hp.
  set (orb := orbit p g a). set (N := period p).
  assert (HNpos : (0 < N)%nat) by (unfold N, period; lia).
  assert (Hfuelp : (N <= Pos.to_nat (Z.to_pos p))%nat).
  { unfold N, period. rewrite <- Z2Nat.inj_pos. rewrite Z2Pos.id by lia. lia. }
  assert (Horb0 : orb 0%nat = g ^ a mod p).
  { unfold orb, orbit. rewrite Z.add_0_r. reflexivity. }
  (* first Next, from index 0 with startI = orb 0 *)
  pose proof (next_mk p g n (orb 0%nat) N orb HNpos (orbit_step p g Hgood a Ha)) as Hnext.
  assert (Hne0 : forall k : nat, (0 < k < N)%nat -> orb k <> orb 0%nat).
  { intros k Hk. apply (orbit_ne p g Hgood a Ha 0 k). exact Hk. }
  assert (HN0 : orb N = orb 0%nat) by (apply (orbit_period p g Hgood a Ha 0)).
  specialize (Hnext Hne0 HN0 Hfuelp 0%nat HNpos).
  unfold walk_from, init_iter. cbv zeta.
  rewrite <- Horb0.
  change {| itP := p; itG := g; itI := orb 0%nat; itStart := orb 0%nat; itLim := n; itStop := false |}
    with (mk p g n (orb 0%nat) orb 0 false).
  destruct Hnext as [[k0 [Hk0 [Hn0 [Hin0 Hbetween]]]]|[Hn0 Hnone]].
  - (* the first in-range element is orb k0; it becomes the new start *)
    rewrite Hn0. cbn [negb andb].
    set (orb' := fun k : nat => orb (k0 + k)%nat).
    cbn [itP itG itI itLim itStop mk].
    assert (E0 : orb k0 = orb' 0%nat) by (unfold orb'; f_equal; lia).
    rewrite E0.
    change {| itP := p; itG := g; itI := orb' 0%nat; itStart := orb' 0%nat; itLim := n; itStop := false |}
      with (mk p g n (orb' 0%nat) orb' 0 false).
    assert (H0' : orb' 0%nat = orb' 0%nat) by reflexivity.
    assert (Hstep' : forall k, orb' (S k) = (orb' k * g) mod p).
    { intros k. unfold orb'. replace (k0 + S k)%nat with (S (k0 + k)) by lia. apply (orbit_step p g Hgood a Ha). }
    assert (Hne' : forall k, (0 < k < N)%nat -> orb' k <> orb' 0%nat).
    { intros k Hk. unfold orb'. rewrite Nat.add_0_r. apply (orbit_ne p g Hgood a Ha k0 k Hk). }
    assert (HN' : orb' N = orb' 0%nat).
    { unfold orb'. rewrite Nat.add_0_r. apply (orbit_period p g Hgood a Ha k0). }
    assert (Hinj' : forall i j, (i < N)%nat -> (j < N)%nat -> orb' i = orb' j -> i = j).
    { intros i j Hi Hj. apply (orbit_inj p g Hgood a Ha k0 i j Hi Hj). }
    assert (Hrange' : forall k, 1 <= orb' k).
    { intros k. unfold orb', orb. pose proof (orbit_range p g Hgood a Ha (k0 + k)). lia. }
    assert (Hsurj' : forall x, 1 <= x <= n -> exists k, (k < N)%nat /\ orb' k = x).
    { intros x Hx. apply (orbit_surj p g Hgood a Ha k0 x). lia. }
    pose proof (walk_is_permutation n N orb' Hinj' Hrange' Hsurj') as Hperm. cbv zeta in Hperm.
    assert (Hs' : inr_ n (orb' 0%nat) = true) by (unfold orb'; rewrite Nat.add_0_r; exact Hin0).
    assert (Hlen : (length (filter (inr_ n) (map orb' (seq 0 N))) <= Pos.to_nat fuel)%nat).
    { rewrite (perm_length n _ ltac:(lia) Hperm). rewrite <- Z2Nat.inj_pos. lia. }
    exists (filter (inr_ n) (map orb' (seq 0 N))). split; [|exact Hperm].
    f_equal. apply (walk_outputs p g n (orb' 0%nat) N orb' HNpos H0' Hstep' Hne' HN' Hfuelp fuel Hs' Hlen).
  - (* no other element is in range: only possible for n = 1, and then the start itself is 1 *)
    rewrite Hn0. cbn [negb].
    assert (Hall : forall x, 1 <= x <= n -> x = orb 0%nat).
    { intros x Hx. destruct (orbit_surj p g Hgood a Ha 0 x ltac:(lia)) as [k [Hk Ek]].
      cbn [plus] in Ek. destruct k as [|k]; [symmetry; exact Ek|].
      exfalso. specialize (Hnone (S k) ltac:(fold N in Hk; lia)). unfold inr_ in Hnone.
      fold orb in Ek. rewrite Ek in Hnone. apply Z.leb_gt in Hnone. lia. }
    destruct (Z.ltb_spec 1 n) as [Hn1|Hn1].
    + exfalso. pose proof (Hall 1 ltac:(lia)). pose proof (Hall 2 ltac:(lia)). lia.
    + cbn [andb]. rewrite collect_stopped by reflexivity. cbn [itI mk_end].
      exists [orb 0%nat]. split; [reflexivity|].
      assert (n = 1) by lia. subst n. pose proof (Hall 1 ltac:(lia)) as E1. rewrite <- E1.
      split; [constructor; [simpl; tauto|constructor]|].
      intros x. simpl. split; [intros [<-|[]]; lia|intros Hx; left; lia].
Qed.

(* ------------------------------------------------------------------ the randomised generator *)
Lemma derive_g_good r r1 : good_row r -> 0 <= r1 -> good_gen (rowP r) (derive_g r r1).
Proof.
  intros [Hgen Hn Hrel] Hr1. pose proof (gg_p _ _ Hgen) as Hp.
  unfold derive_g. set (p := rowP r) in *. set (g := rowG r) in *. set (n := rowN r) in *.
  set (e := powm n (r1 + 1) (p - 1)).
  assert (He : e = n ^ (r1 + 1) mod (p - 1)) by (unfold e; apply powm_spec; lia).
  assert (He0 : 0 <= e) by (rewrite He; apply Z.mod_pos_bound; lia).
  assert (Hrel' : rel_prime e (p - 1)).
  { rewrite He. apply rel_prime_mod; [lia|]. apply rel_prime_sym. apply rel_prime_Zpower_r; [lia|].
    apply rel_prime_sym. exact Hrel. }
  rewrite powm_spec by lia.
  destruct (gen_power p g e Hp (gg_one _ _ Hgen) (gg_ord _ _ Hgen) He0 Hrel') as [H1 H2].
  constructor; assumption.
Qed.

Definition table_ok (table : list row) : Prop :=
  (forall r, In r table -> good_row r) /\ (forall r, In r table -> rowP r <= last_p table) /\
  last_p table = 2 ^ 32 + 61 /\ table <> [].

Lemma check_table_sound table : check_table table = true -> table_ok table.
Proof.
  unfold check_table. intros H.
  apply andb_true_iff in H. destruct H as [H Hnonempty].
  apply andb_true_iff in H. destruct H as [H Hlast].
  apply andb_true_iff in H. destruct H as [Hrows Hle].
  rewrite forallb_forall in Hrows. rewrite forallb_forall in Hle.
  split; [|split; [|split]].
  - intros r0 Hr. apply check_row_sound. apply Hrows. exact Hr.
  - intros r0 Hr. apply Z.leb_le. apply Hle. exact Hr.
  - apply Z.eqb_eq in Hlast. exact Hlast.
  - intros ->. cbn in Hnonempty. discriminate.
Qed.

Theorem run_permutation table n r1 r2 :
  table_ok table -> 1 <= n <= 2 ^ 32 -> 0 <= r1 -> 0 <= r2 ->
  exists l, run table n r1 r2 = Ok (Complete l) /\ is_perm_1n n l.
Proof.
  intros [Hrows [Hle [Hlast Hne]]] Hn Hr1 Hr2.
  unfold run, run_fuel, new_iter.
  destruct (Z.leb_spec n 0) as [|_]; [lia|].
  destruct (search table n) as [r|] eqn:Es.
  - apply search_some in Es. destruct Es as [Hin Hlt].
    pose proof (derive_g_good r r1 (Hrows r Hin) Hr1) as Hg'.
    cbv zeta. unfold derive_start. rewrite powm_spec by (pose proof (gg_p _ _ Hg'); lia).
    pose proof (walk_core (rowP r) (derive_g r r1) (r2 + 1) n (Z.to_pos n) Hg' ltac:(lia) ltac:(lia)) as W.
    specialize (W ltac:(rewrite Z2Pos.id; lia)). unfold walk_from in W. exact W.
  - exfalso. apply search_none in Es; [|exact Hne]. lia.
Qed.

Theorem run_reject table n r1 r2 :
  table_ok table -> n <= 0 \/ 2 ^ 32 + 61 <= n -> forall fuel, run_fuel table fuel n r1 r2 = Err RangeSize.
Proof.
  intros [Hrows [Hle [Hlast Hne]]] Hn fuel. unfold run_fuel, new_iter.
  destruct (Z.leb_spec n 0) as [|Hpos]; [reflexivity|].
  rewrite search_all_le; [reflexivity|]. intros r Hr. specialize (Hle r Hr). lia.
Qed.

Theorem run_accept table n r1 r2 :
  table_ok table -> 1 <= n <= 2 ^ 32 + 60 -> 0 <= r1 -> 0 <= r2 ->
  forall fuel, exists o, run_fuel table fuel n r1 r2 = Ok o.
Proof.
  intros [Hrows [Hle [Hlast Hne]]] Hn Hr1 Hr2 fuel. unfold run_fuel, new_iter.
  destruct (Z.leb_spec n 0) as [|_]; [lia|].
  destruct (search table n) as [r|] eqn:Es.
  - apply search_some in Es. destruct Es as [Hin Hlt].
    pose proof (derive_g_good r r1 (Hrows r Hin) Hr1) as Hg'.
    cbv zeta. unfold derive_start. rewrite powm_spec by (pose proof (gg_p _ _ Hg'); lia).
    pose proof (walk_core (rowP r) (derive_g r r1) (r2 + 1) n (Z.to_pos n) Hg' ltac:(lia) ltac:(lia)) as W.
    specialize (W ltac:(rewrite Z2Pos.id; lia)). unfold walk_from in W.
    destruct W as [l [W _]].
    destruct (init_iter (rowP r) (derive_g r r1) n (derive_g r r1 ^ (r2 + 1) mod rowP r)) as [it|e];
      [eexists; reflexivity|discriminate].
  - exfalso. apply search_none in Es; [|exact Hne]. lia.
Qed.
