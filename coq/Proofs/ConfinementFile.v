(* C02 for target FILES: whatever a file-mode specification denotes is an address that a well-formed line of
   the file names, and one the exclusion list does not cover. *)
From Coq Require Import ZArith List Bool Lia.
From SX Require Import Base.Bytes Model.IPNet Model.Exclude Model.Targets Model.FileTargets Model.TargetWiring
  Proofs.TargetsProofs Proofs.CoverageProofs Proofs.WiringProofs Proofs.ConfinementProofs.
Import ListNotations.
Open Scope Z_scope.

Lemma line_pair_addr l a p : In (a, p) (line_pair l) -> In a (line_addr l).
Proof.
  destruct l as [oa op| |]; cbn [line_pair line_addr]; try (intros []; fail).
  destruct oa as [[a'|]|]; try (intros []; fail).
  destruct op as [p'|]; try (intros []; fail).
  destruct (valid_port p' && addr_okb a')%bool eqn:E; [|intros []].
  apply andb_prop in E. destruct E as [_ E]. rewrite E.
  intros [H|[]]. injection H as -> _. left. reflexivity.
Qed.

Lemma spec_denote_file_inside k f inp n a p :
  f_file f = true -> k <> KArp -> In (a, p) (spec_denote k f inp n) ->
  kept (class_stages k f inp) a = true /\ In a (flat_map line_addr (i_file inp)).
Proof.
  intros Ef Hk H. unfold spec_denote in H. rewrite Ef in H. cbn [negb] in H.
  assert (Hpairs : In (a, p) (denote_file_pairs (i_file inp) (class_stages k f inp)) ->
                   kept (class_stages k f inp) a = true /\ In a (flat_map line_addr (i_file inp))).
  { unfold denote_file_pairs. intros Hin. apply filter_In in Hin. destruct Hin as [Hin Hk'].
    split; [exact Hk'|]. apply in_flat_map in Hin. destruct Hin as (l & Hl & Hlp).
    apply in_flat_map. exists l. split; [exact Hl|]. eapply line_pair_addr; exact Hlp. }
  assert (Hports : In (a, p) (denote_file_ports (i_file inp) (i_ports inp) (class_stages k f inp)) ->
                   kept (class_stages k f inp) a = true /\ In a (flat_map line_addr (i_file inp))).
  { unfold denote_file_ports. intros Hin. apply cross_In in Hin. destruct Hin as [Hin _].
    apply filter_In in Hin. destruct Hin as [Hin Hk']. split; assumption. }
  destruct k; try congruence.
  - destruct (negb (f_ports f)); [apply Hpairs|apply Hports]; exact H.
  - destruct (negb (f_ports f)); [apply Hpairs|apply Hports]; exact H.
  - unfold denote_file_addrs in H. apply in_map_iff in H. destruct H as (a' & Ha & Hin).
    injection Ha as -> _. apply filter_In in Hin. destruct Hin as [Hin Hk']. split; assumption.
Qed.
