(* Lemmas for C18 about the parsers of Model/Parsers.v: strings.Split/join algebra, port ranges, port
   lists, ports files, validatePorts, flag tables, rate limits. *)
From Coq Require Import ZArith List Bool Lia String Ascii.
From SX Require Import Model.Unquote Model.Duration Gen.ParserTables Model.Parsers Proofs.ParsersDecimal.
Import ListNotations.
Open Scope Z_scope.
Local Open Scope list_scope.

(* ---------------------------------------------------------------- generic *)

Lemma bytes_eq_eq a : forall b, bytes_eq a b = true <-> a = b.
Proof.
  induction a as [|x a IH]; intros [|y b]; cbn; split; intros H; try reflexivity; try discriminate.
  - apply andb_true_iff in H. destruct H as [H1 H2]. apply Z.eqb_eq in H1. apply IH in H2. subst. reflexivity.
  - injection H as -> ->. apply andb_true_iff. split; [apply Z.eqb_refl|apply IH; reflexivity].
Qed.

Lemma map_all_some {A B} (f : A -> option B) l : forall r,
  map_all f l = Some r <-> Forall2 (fun x y => f x = Some y) l r.
Proof.
  induction l as [|x l IH]; intros r; cbn [map_all].
  - split; intros H; [injection H as <-; constructor|inversion H; reflexivity].
  - destruct (f x) as [y|] eqn:E.
    + destruct (map_all f l) as [r'|] eqn:E'.
      * split; intros H.
        -- injection H as <-. constructor; [exact E|apply IH; reflexivity].
        -- inversion H; subst. f_equal. f_equal; [congruence|]. apply IH in H4. congruence.
      * split; intros H; [discriminate|]. inversion H; subst. apply IH in H4. discriminate.
    + split; intros H; [discriminate|]. inversion H; subst. congruence.
Qed.

(* ---------------------------------------------------------------- strings.Split and join *)

Lemma split_on_nonempty sep s : split_on sep s <> [].
Proof.
  destruct s as [|c t]; cbn [split_on]; [discriminate|].
  destruct (c =? sep); [discriminate|]. destruct (split_on sep t); discriminate.
Qed.

Lemma join_cons sep x l : l <> [] -> join sep (x :: l) = x ++ sep :: join sep l.
Proof. destruct l; [congruence|reflexivity]. Qed.

(* joining the pieces with the separator gives the string back: nothing is lost, nothing invented *)
Lemma split_on_join sep s : join sep (split_on sep s) = s.
Proof.
  induction s as [|c t IH]; [reflexivity|]. cbn [split_on].
  destruct (c =? sep) eqn:E.
  - apply Z.eqb_eq in E. subst c. rewrite join_cons by apply split_on_nonempty. rewrite IH. reflexivity.
  - pose proof (split_on_nonempty sep t) as Hne. destruct (split_on sep t) as [|h r]; [congruence|].
    destruct r as [|h' r'].
    + cbn in IH |- *. congruence.
    + rewrite join_cons in IH |- * by discriminate. cbn [app]. congruence.
Qed.

Lemma split_on_no_sep sep s : mem sep s = false -> split_on sep s = [s].
Proof.
  induction s as [|c t IH]; intros H; [reflexivity|]. cbn [mem] in H. apply orb_false_iff in H.
  destruct H as [H1 H2]. cbn [split_on]. rewrite H1, (IH H2). reflexivity.
Qed.

Lemma split_on_app_sep sep x r : mem sep x = false -> split_on sep (x ++ sep :: r) = x :: split_on sep r.
Proof.
  induction x as [|c t IH]; intros H; cbn [app split_on].
  - rewrite Z.eqb_refl. reflexivity.
  - cbn [mem] in H. apply orb_false_iff in H. destruct H as [H1 H2]. rewrite H1, (IH H2). reflexivity.
Qed.

Lemma split_on_pieces sep s : Forall (fun p => mem sep p = false) (split_on sep s).
Proof.
  induction s as [|c t IH]; cbn [split_on]; [repeat constructor|].
  destruct (c =? sep) eqn:E; [constructor; [reflexivity|exact IH]|].
  pose proof (split_on_nonempty sep t). destruct (split_on sep t) as [|h r]; [congruence|].
  inversion IH; subst. constructor; [|assumption]. cbn [mem]. rewrite E. assumption.
Qed.

Lemma split_join sep l : l <> [] -> Forall (fun p => mem sep p = false) l -> split_on sep (join sep l) = l.
Proof.
  induction l as [|x l IH]; intros Hne H; [congruence|]. inversion H; subst.
  destruct l as [|y l'].
  - cbn. apply split_on_no_sep. assumption.
  - rewrite join_cons by discriminate. rewrite split_on_app_sep by assumption. f_equal. apply IH; [discriminate|assumption].
Qed.

Lemma mem_app c a b : mem c (a ++ b) = mem c a || mem c b.
Proof. induction a as [|x a IH]; [reflexivity|]. cbn [app mem]. rewrite IH. apply orb_assoc. Qed.

Lemma all_digits_no c s : is_digit c = false -> all_digits s = true -> mem c s = false.
Proof.
  intros Hc. induction s as [|x s IH]; intros H; [reflexivity|]. cbn [all_digits forallb] in H.
  apply andb_true_iff in H. destruct H as [Hx Hs]. cbn [mem].
  destruct (x =? c) eqn:E; [apply Z.eqb_eq in E; congruence|]. apply IH. exact Hs.
Qed.

Lemma is_number_spec s : is_number s = true <-> s <> [] /\ all_digits s = true.
Proof.
  unfold is_number. destruct s; cbn [is_nil negb andb]; split; intros H.
  - discriminate.
  - destruct H. congruence.
  - split; [discriminate|exact H].
  - tauto.
Qed.

(* ---------------------------------------------------------------- strconv.ParseUint(_, 10, 16) on a port *)

Lemma two64_val : two64 = 2 ^ 64. Proof. reflexivity. Qed.

Lemma parse_uint_port_iff s a :
  parse_uint port_base port_bits s = Some a <-> is_number s = true /\ a = dec_val s /\ a <= 65535.
Proof.
  unfold parse_uint. change port_base with 10. change (2 ^ port_bits) with 65536.
  rewrite is_number_spec. destruct s as [|c t]; [split; [discriminate|intros [[H _] _]; congruence]|].
  set (s := c :: t). split.
  - intros H. destruct (digits_val 10 0 s) as [v|] eqn:E; [|discriminate].
    destruct (v <? 65536) eqn:F; [|discriminate]. injection H as <-.
    apply digits_val_10_some in E. destruct E as [E1 E2]. apply Z.ltb_lt in F.
    split; [split; [discriminate|exact E1]|]. split; lia.
  - intros [[_ Hd] [-> Hle]].
    pose proof (digits_val_10_complete s 0 Hd ltac:(lia)) as Hc. rewrite Z.mul_0_l, Z.add_0_l in Hc.
    rewrite Hc by (rewrite two64_val; lia).
    replace (dec_val s <? 65536) with true by (symmetry; apply Z.ltb_lt; lia). reflexivity.
Qed.

(* ---------------------------------------------------------------- parsePortRange *)

(* what a port-range string denotes: one decimal number, or two joined by a dash; each bound is the
   number written and at most 65535 *)
Definition denotes_port_range (s : bytes) (a b : Z) : Prop :=
  (is_number s = true /\ a = dec_val s /\ b = a /\ a <= 65535) \/
  (exists sa sb, s = sa ++ 45 :: sb /\ is_number sa = true /\ is_number sb = true /\
                 a = dec_val sa /\ b = dec_val sb /\ a <= 65535 /\ b <= 65535).

Lemma is_number_no s c : is_digit c = false -> is_number s = true -> mem c s = false.
Proof. intros Hc H. apply is_number_spec in H. apply all_digits_no; tauto. Qed.

Lemma small_mod a : 0 <= a <= 65535 -> a mod 65536 = a.
Proof. intros. apply Z.mod_small. lia. Qed.

Lemma dec_val_nonneg s : all_digits s = true -> 0 <= dec_val s.
Proof. intros H. apply dec_val_bound in H. lia. Qed.

Lemma parse_port_range_exact s a b : parse_port_range s = Some (a, b) <-> denotes_port_range s a b.
Proof.
  unfold parse_port_range, parse_port_range_gen. change port_range_sep with 45. cbn [andb].
  split.
  - intros H. pose proof (split_on_join 45 s) as Hj.
    destruct (2 <? zlen (split_on 45 s)) eqn:L; [discriminate|]. apply Z.ltb_ge in L. unfold zlen in L.
    destruct (split_on 45 s) as [|p0 rest]; [discriminate|].
    destruct (parse_uint port_base port_bits p0) as [a0|] eqn:E0; [|discriminate].
    apply parse_uint_port_iff in E0. destruct E0 as [N0 [-> L0]].
    pose proof (dec_val_nonneg p0 (proj2 (proj1 (is_number_spec p0) N0))) as P0.
    destruct rest as [|p1 rest'].
    + injection H as <- <-. left. cbn in Hj. subst p0. rewrite small_mod by lia. tauto.
    + destruct rest' as [|p2 r]; [|cbn [List.length] in L; lia].
      destruct (parse_uint port_base port_bits p1) as [b0|] eqn:E1; [|discriminate].
      apply parse_uint_port_iff in E1. destruct E1 as [N1 [-> L1]].
      pose proof (dec_val_nonneg p1 (proj2 (proj1 (is_number_spec p1) N1))) as P1.
      injection H as <- <-. right. exists p0, p1. cbn in Hj. rewrite !small_mod by lia. repeat split; auto.
  - intros [[N [-> [-> L]]]|[sa [sb [-> [Na [Nb [-> [-> [La Lb]]]]]]]]].
    + rewrite split_on_no_sep by (apply is_number_no; [reflexivity|exact N]).
      cbn [zlen List.length Z.of_nat]. cbn [Z.ltb Z.compare Pos.compare Pos.compare_cont Pos.of_succ_nat Pos.succ].
      rewrite (proj2 (parse_uint_port_iff s (dec_val s))) by tauto.
      pose proof (dec_val_nonneg s (proj2 (proj1 (is_number_spec s) N))). rewrite small_mod by lia. reflexivity.
    + rewrite split_on_app_sep by (apply is_number_no; [reflexivity|exact Na]).
      rewrite split_on_no_sep by (apply is_number_no; [reflexivity|exact Nb]).
      cbn [zlen List.length Z.of_nat]. cbn [Z.ltb Z.compare Pos.compare Pos.compare_cont Pos.of_succ_nat Pos.succ].
      rewrite (proj2 (parse_uint_port_iff sa (dec_val sa))) by tauto.
      rewrite (proj2 (parse_uint_port_iff sb (dec_val sb))) by tauto.
      pose proof (dec_val_nonneg sa (proj2 (proj1 (is_number_spec sa) Na))).
      pose proof (dec_val_nonneg sb (proj2 (proj1 (is_number_spec sb) Nb))).
      rewrite !small_mod by lia. reflexivity.
Qed.

(* accepted bounds are ports *)
Lemma denotes_port_range_bounds s a b : denotes_port_range s a b -> 0 <= a <= 65535 /\ 0 <= b <= 65535.
Proof.
  intros [[N [-> [-> L]]]|[sa [sb [-> [Na [Nb [-> [-> [La Lb]]]]]]]]].
  - pose proof (dec_val_nonneg s (proj2 (proj1 (is_number_spec s) N))). lia.
  - pose proof (dec_val_nonneg sa (proj2 (proj1 (is_number_spec sa) Na))).
    pose proof (dec_val_nonneg sb (proj2 (proj1 (is_number_spec sb) Nb))). lia.
Qed.

(* the code before the fix accepts a string that denotes no range *)
Lemma parse_port_range_v0_refuted :
  exists s a b, parse_port_range_v0 s = Some (a, b) /\ ~ denotes_port_range s a b.
Proof.
  exists (str "1-2-3"), 1, 2. split; [vm_compute; reflexivity|].
  intros H. apply parse_port_range_exact in H. vm_compute in H. discriminate.
Qed.

(* canonical renderings *)
Lemma denotes_render_range a b : 0 <= a <= 65535 -> 0 <= b <= 65535 -> denotes_port_range (render_range (a, b)) a b.
Proof.
  intros Ha Hb. right. exists (render_dec a), (render_dec b). unfold render_range. cbn [fst snd app].
  destruct (render_dec_spec a ltac:(lia)) as [_ [_ Va]]. destruct (render_dec_spec b ltac:(lia)) as [_ [_ Vb]].
  rewrite Va, Vb, !render_dec_number by lia. repeat split; lia.
Qed.

Lemma denotes_render_single a : 0 <= a <= 65535 -> denotes_port_range (render_dec a) a a.
Proof.
  intros Ha. left. destruct (render_dec_spec a ltac:(lia)) as [_ [_ Va]].
  rewrite Va, render_dec_number by lia. repeat split; lia.
Qed.

(* ---------------------------------------------------------------- parsePortRanges *)

Definition denotes_port_ranges (s : bytes) (l : list (Z * Z)) : Prop :=
  exists pieces, pieces <> [] /\ s = join 44 pieces /\
                 Forall2 (fun p r => denotes_port_range p (fst r) (snd r)) pieces l.

Lemma denotes_port_range_no_comma s a b : denotes_port_range s a b -> mem 44 s = false.
Proof.
  intros [[N _]|[sa [sb [-> [Na [Nb _]]]]]].
  - apply is_number_no; [reflexivity|exact N].
  - rewrite mem_app. cbn [mem]. rewrite (is_number_no sa 44), (is_number_no sb 44) by (reflexivity || assumption). reflexivity.
Qed.

Lemma Forall2_impl {A B} (P Q : A -> B -> Prop) l r :
  (forall x y, P x y -> Q x y) -> Forall2 P l r -> Forall2 Q l r.
Proof. intros H F. induction F; constructor; auto. Qed.

Lemma parse_port_ranges_exact s l : parse_port_ranges s = Some l <-> denotes_port_ranges s l.
Proof.
  unfold parse_port_ranges. change port_list_sep with 44. rewrite map_all_some. split.
  - intros H. exists (split_on 44 s). split; [apply split_on_nonempty|]. split; [symmetry; apply split_on_join|].
    eapply Forall2_impl; [|exact H]. intros p [a b] Hp. apply parse_port_range_exact. exact Hp.
  - intros [pieces [Hne [-> H]]]. rewrite split_join.
    + eapply Forall2_impl; [|exact H]. intros p [a b] Hp. apply parse_port_range_exact. exact Hp.
    + exact Hne.
    + clear Hne. induction H; constructor; [eapply denotes_port_range_no_comma; eassumption|assumption].
Qed.

Definition port_pair_ok (r : Z * Z) : Prop := 0 <= fst r <= 65535 /\ 0 <= snd r <= 65535.

(* every list of port ranges, each written a-b or (when both bounds agree) as a single number, joined
   by commas, parses back to itself *)
Definition renders_range (p : bytes) (r : Z * Z) : Prop :=
  p = render_range r \/ (fst r = snd r /\ p = render_dec (fst r)).

Lemma parse_port_ranges_roundtrip pieces l :
  l <> [] -> Forall port_pair_ok l -> Forall2 renders_range pieces l ->
  parse_port_ranges (join 44 pieces) = Some l.
Proof.
  intros Hne Hok H. apply parse_port_ranges_exact. exists pieces. split; [|split; [reflexivity|]].
  - inversion H; subst; [congruence|discriminate].
  - clear Hne. induction H; [constructor|]. inversion Hok; subst. constructor; [|auto].
    destruct y as [a b]. destruct H3 as [Ha Hb]. cbn [fst snd] in *.
    destruct H as [->|[E ->]]; [apply denotes_render_range; assumption|].
    cbn [fst snd] in E. subst b. apply denotes_render_single. assumption.
Qed.

Lemma parse_port_ranges_bounds s l : parse_port_ranges s = Some l -> l <> [] /\ Forall port_pair_ok l.
Proof.
  intros H. apply parse_port_ranges_exact in H. destruct H as [pieces [Hne [_ H]]]. split.
  - inversion H; subst; [congruence|discriminate].
  - clear Hne. induction H; constructor; [|assumption]. destruct y. eapply denotes_port_range_bounds. eassumption.
Qed.

(* ---------------------------------------------------------------- validatePorts *)

Lemma validate_ports_spec l : validate_ports l = true <-> l <> [] /\ Forall (fun r => fst r <= snd r) l.
Proof.
  unfold validate_ports. rewrite andb_true_iff, forallb_forall, Forall_forall. split.
  - intros [H1 H2]. split; [destruct l; [discriminate|discriminate]|]. intros r Hr. apply Z.leb_le. auto.
  - intros [H1 H2]. split; [destruct l; [congruence|reflexivity]|]. intros r Hr. apply Z.leb_le. auto.
Qed.

(* ---------------------------------------------------------------- TCP flags: from names to header bits *)

Lemma lor_swap a b c d : Z.lor (Z.lor a b) (Z.lor c d) = Z.lor (Z.lor a c) (Z.lor b d).
Proof.
  apply Z.bits_inj'. intros n _. rewrite !Z.lor_spec.
  destruct (Z.testbit a n), (Z.testbit b n), (Z.testbit c n), (Z.testbit d n); reflexivity.
Qed.

Definition fill_cond (hf : string * string) (st : list string) : bool :=
  String.eqb (snd hf) "=true"%string || mem_s (snd hf) st.

(* non-accumulating form of [wire_bits] *)
Fixpoint wb (T : list (string * string)) (st : list string) : Z :=
  match T with
  | [] => 0
  | hf :: T' => Z.lor (if fill_cond hf st then layers_tcp_bit (fst hf) else 0) (wb T' st)
  end.

Lemma wire_fold_wb T st : forall acc,
  fold_left (fun acc hf => if String.eqb (snd hf) "=true"%string || mem_s (snd hf) st
                           then Z.lor acc (layers_tcp_bit (fst hf)) else acc) T acc
  = Z.lor acc (wb T st).
Proof.
  induction T as [|hf T IH]; intros acc; cbn [fold_left wb]; [rewrite Z.lor_0_r; reflexivity|].
  rewrite IH. unfold fill_cond. destruct (String.eqb (snd hf) "=true"%string || mem_s (snd hf) st).
  - rewrite Z.lor_assoc. reflexivity.
  - rewrite Z.lor_0_l. reflexivity.
Qed.

Lemma wire_bits_wb st : wire_bits st = wb tcp_fill_fields st.
Proof. unfold wire_bits. rewrite wire_fold_wb. apply Z.lor_0_l. Qed.

Lemma wb_cons T f st : wb T (f :: st) = Z.lor (wb T [f]) (wb T st).
Proof.
  induction T as [|hf T IH]; cbn [wb]; [reflexivity|]. rewrite IH, lor_swap. f_equal.
  unfold fill_cond, mem_s. cbn [existsb]. destruct (String.eqb (snd hf) "=true"%string); cbn [orb].
  - symmetry. apply Z.lor_diag.
  - destruct (String.eqb (snd hf) f); cbn [orb].
    + destruct (existsb (String.eqb (snd hf)) st); [symmetry; apply Z.lor_diag|rewrite Z.lor_0_r; reflexivity].
    + rewrite Z.lor_0_l. reflexivity.
Qed.

Lemma wb_app T l st : wb T [] = 0 -> wb T (l ++ st) = Z.lor (wb T l) (wb T st).
Proof.
  intros H0. induction l as [|f l IH]; cbn [app]; [rewrite H0, Z.lor_0_l; reflexivity|].
  rewrite wb_cons, IH, (wb_cons T f l), Z.lor_assoc. reflexivity.
Qed.

Definition no_bang (f : string) : bool :=
  match f with String "!"%char _ => false | _ => true end.

Lemma apply_set_no_bang st f : no_bang f = true -> apply_set st f = f :: st.
Proof.
  destruct f as [|a g]; [reflexivity|]. destruct a as [[] [] [] [] [] [] [] []]; cbn; intros H; try reflexivity; discriminate.
Qed.

Lemma fold_apply_set fs : forall st, forallb no_bang fs = true -> fold_left apply_set fs st = rev fs ++ st.
Proof.
  induction fs as [|f fs IH]; intros st H; [reflexivity|]. cbn [forallb] in H. apply andb_true_iff in H.
  destruct H as [H1 H2]. cbn [fold_left rev]. rewrite apply_set_no_bang, IH by assumption.
  rewrite <- app_assoc. reflexivity.
Qed.

(* the PacketFiller fields the option of a flag name sets *)
Definition fields_of (name : bytes) : list string :=
  match lookup_key name tcp_flag_options with
  | None => []
  | Some w => match lookup_s w tcp_with_sets with None => [] | Some fs => fs end
  end.
Definition name_bits (name : bytes) : Z := wire_bits (fields_of name).

Lemma lookup_s_in {A} k (t : list (string * A)) v : lookup_s k t = Some v -> In (k, v) t.
Proof.
  induction t as [|[k' v'] t IH]; cbn [lookup_s]; [discriminate|]. destruct (String.eqb k k') eqn:E.
  - intros H. injection H as <-. apply String.eqb_eq in E. subst. left. reflexivity.
  - intros H. right. auto.
Qed.

Lemma lookup_key_in {A} k (t : list (string * A)) v : lookup_key k t = Some v -> exists k', In (k', v) t /\ k = str k'.
Proof.
  induction t as [|[k' v'] t IH]; cbn [lookup_key]; [discriminate|]. destruct (bytes_eq k (str k')) eqn:E.
  - intros H. injection H as <-. apply bytes_eq_eq in E. exists k'. split; [left; reflexivity|exact E].
  - intros H. destruct (IH H) as [k0 [H1 H2]]. exists k0. split; [right; exact H1|exact H2].
Qed.

(* facts about the generated tables, checked by computation *)
Definition with_sets_no_bang : bool := forallb (fun wf => forallb no_bang (snd wf)) tcp_with_sets.
Definition no_constant_flag : bool := wb tcp_fill_fields [] =? 0.
(* every key of tcpPacketFlagOptions is one of the nine RFC names and the option it maps to sets exactly
   that flag's bit in the header; all nine names are keys *)
Definition tcp_table_check : bool :=
  with_sets_no_bang && no_constant_flag
  && forallb (fun kv => is_flag_name rfc_tcp_flags (str (fst kv))
                        && (name_bits (str (fst kv)) =? rfc_bit rfc_tcp_flags (str (fst kv)))) tcp_flag_options
  && forallb (fun kv => match lookup_key (str (fst kv)) tcp_flag_options with Some _ => true | None => false end) rfc_tcp_flags.

Section TcpTable.
Hypothesis Hcheck : tcp_table_check = true.

Lemma Hparts : with_sets_no_bang = true /\ no_constant_flag = true /\
  forallb (fun kv => is_flag_name rfc_tcp_flags (str (fst kv))
                     && (name_bits (str (fst kv)) =? rfc_bit rfc_tcp_flags (str (fst kv)))) tcp_flag_options = true /\
  forallb (fun kv => match lookup_key (str (fst kv)) tcp_flag_options with Some _ => true | None => false end) rfc_tcp_flags = true.
Proof. unfold tcp_table_check in Hcheck. rewrite !andb_true_iff in Hcheck. tauto. Qed.

Lemma apply_option_fields st name : apply_option st name = rev (fields_of name) ++ st.
Proof.
  unfold apply_option, fields_of. destruct (lookup_key name tcp_flag_options) as [w|]; [|reflexivity].
  destruct (lookup_s w tcp_with_sets) as [fs|] eqn:E; [|reflexivity].
  apply fold_apply_set. destruct Hparts as [H _]. unfold with_sets_no_bang in H. rewrite forallb_forall in H.
  apply (H (w, fs)). apply lookup_s_in. exact E.
Qed.

Lemma wb_rev T l : wb T [] = 0 -> wb T (rev l) = wb T l.
Proof.
  intros H0. induction l as [|f l IH]; [reflexivity|]. cbn [rev].
  rewrite wb_app, IH, (wb_cons T f l), Z.lor_comm by assumption. reflexivity.
Qed.

Lemma wb_nil0 : wb tcp_fill_fields [] = 0.
Proof. destruct Hparts as [_ [H _]]. apply Z.eqb_eq. exact H. Qed.

(* the header bits of a list of options are the union of the bits of each *)
Lemma filler_bits names : forall st,
  wire_bits (fold_left apply_option names st) = Z.lor (fold_right (fun n acc => Z.lor (name_bits n) acc) 0 names) (wire_bits st).
Proof.
  induction names as [|n names IH]; intros st; cbn [fold_left fold_right]; [rewrite Z.lor_0_l; reflexivity|].
  rewrite IH, apply_option_fields, !wire_bits_wb, wb_app, wb_rev by apply wb_nil0.
  unfold name_bits. rewrite wire_bits_wb, Z.lor_assoc, (Z.lor_comm _ (wb tcp_fill_fields (fields_of n))). reflexivity.
Qed.

Lemma tcp_flag_bits_union names :
  tcp_flag_bits names = fold_right (fun n acc => Z.lor (name_bits n) acc) 0 names.
Proof.
  unfold tcp_flag_bits, filler_fields. rewrite filler_bits, wire_bits_wb, wb_nil0, Z.lor_0_r. reflexivity.
Qed.

Lemma table_key_ok name w : lookup_key name tcp_flag_options = Some w ->
  is_flag_name rfc_tcp_flags name = true /\ name_bits name = rfc_bit rfc_tcp_flags name.
Proof.
  intros H. apply lookup_key_in in H. destruct H as [k [Hin ->]].
  destruct Hparts as [_ [_ [H _]]]. rewrite forallb_forall in H. specialize (H _ Hin). cbn [fst] in H.
  apply andb_true_iff in H. destruct H as [H1 H2]. apply Z.eqb_eq in H2. tauto.
Qed.

Lemma rfc_name_is_key name : is_flag_name rfc_tcp_flags name = true -> exists w, lookup_key name tcp_flag_options = Some w.
Proof.
  unfold is_flag_name. destruct (lookup_key name rfc_tcp_flags) as [b|] eqn:E; [|discriminate]. intros _.
  apply lookup_key_in in E. destruct E as [k [Hin ->]].
  destruct Hparts as [_ [_ [_ H]]]. rewrite forallb_forall in H. specialize (H _ Hin). cbn [fst] in H.
  destruct (lookup_key (str k) tcp_flag_options) as [w|]; [exists w; reflexivity|discriminate].
Qed.

(* what a TCP flag string denotes: comma-separated names, in any letter case *)
Definition denotes_flags (table : list (string * Z)) (s : bytes) (names : list bytes) : Prop :=
  (s = [] /\ names = []) \/
  (s <> [] /\ exists pieces, s = join 44 pieces /\ pieces <> [] /\
              Forall2 (fun p n => to_lower p = n /\ mem 44 p = false /\ is_flag_name table n = true) pieces names).

Lemma parse_tcp_flags_exact s names :
  parse_tcp_flags s = Some names <->
  denotes_flags rfc_tcp_flags s names.
Proof.
  unfold parse_tcp_flags, denotes_flags. change tcp_flag_sep with 44. destruct s as [|c t].
  - cbn [is_nil]. split; [intros H; injection H as <-; left; tauto|].
    intros [[_ ->]|[H _]]; [reflexivity|congruence].
  - cbn [is_nil]. set (s := c :: t). rewrite map_all_some. split.
    + intros H. right. split; [discriminate|]. exists (split_on 44 s).
      split; [symmetry; apply split_on_join|]. split; [apply split_on_nonempty|].
      pose proof (split_on_pieces 44 s) as Hp. induction H; [constructor|]. inversion Hp; subst.
      constructor; [|auto]. destruct (lookup_key (to_lower x) tcp_flag_options) as [w|] eqn:E; [|discriminate].
      injection H as <-. split; [reflexivity|]. split; [assumption|]. apply (table_key_ok _ _ E).
    + intros [[H _]|[_ [pieces [Hs [Hne H]]]]]; [discriminate|]. rewrite Hs, split_join.
      * eapply Forall2_impl; [|exact H]. intros p n [<- [_ Hn]]. cbn beta.
        destruct (rfc_name_is_key _ Hn) as [w ->]. reflexivity.
      * exact Hne.
      * clear Hs Hne. induction H; constructor; tauto.
Qed.

(* each named flag sets exactly its own bit: the header bits are the union of the RFC bits of the names *)
Lemma tcp_flags_bits_exact s names :
  parse_tcp_flags s = Some names -> tcp_flag_bits names = rfc_bits rfc_tcp_flags names.
Proof.
  intros H. rewrite tcp_flag_bits_union. unfold rfc_bits.
  assert (F : Forall (fun n => name_bits n = rfc_bit rfc_tcp_flags n) names).
  { unfold parse_tcp_flags in H. destruct (is_nil s); [injection H as <-; constructor|].
    apply map_all_some in H. induction H; constructor; [|assumption].
    destruct (lookup_key (to_lower x) tcp_flag_options) as [w|] eqn:E; [|discriminate].
    injection H as <-. apply (table_key_ok _ _ E). }
  clear H. induction F as [|n ns Hn F IH]; cbn [fold_right]; [reflexivity|]. rewrite Hn, IH. reflexivity.
Qed.

End TcpTable.

(* ---------------------------------------------------------------- IP flags *)

Definition ip_table_check : bool :=
  forallb (fun kv => is_flag_name rfc_ip_flags (str (fst kv))
                     && (ip_case_value (snd kv) =? rfc_bit rfc_ip_flags (str (fst kv)))) ip_flag_cases
  && forallb (fun kv => match lookup_key (str (fst kv)) ip_flag_cases with Some _ => true | None => false end) rfc_ip_flags.

Lemma lor_small a b : 0 <= a < 8 -> 0 <= b < 8 -> 0 <= Z.lor a b < 8.
Proof.
  intros Ha Hb.
  assert (A : a = 0 \/ a = 1 \/ a = 2 \/ a = 3 \/ a = 4 \/ a = 5 \/ a = 6 \/ a = 7) by lia.
  assert (B : b = 0 \/ b = 1 \/ b = 2 \/ b = 3 \/ b = 4 \/ b = 5 \/ b = 6 \/ b = 7) by lia.
  destruct A as [->|[->|[->|[->|[->|[->|[->| ->]]]]]]];
  destruct B as [->|[->|[->|[->|[->|[->|[->| ->]]]]]]]; cbn; lia.
Qed.

Lemma fold_left_lor vs : forall acc, fold_left Z.lor vs acc = Z.lor acc (fold_right Z.lor 0 vs).
Proof.
  induction vs as [|v vs IH]; intros acc; cbn [fold_left fold_right]; [rewrite Z.lor_0_r; reflexivity|].
  rewrite IH, Z.lor_assoc. reflexivity.
Qed.

Lemma rfc_ip_bit_small n : 0 <= rfc_bit rfc_ip_flags n < 8.
Proof.
  unfold rfc_bit. destruct (lookup_key n rfc_ip_flags) as [b|] eqn:E; [|lia].
  apply lookup_key_in in E. destruct E as [k [Hin _]]. cbn in Hin.
  repeat (destruct Hin as [Hin|Hin]; [injection Hin as _ <-; lia|]). contradiction.
Qed.

Lemma rfc_ip_bits_small names : 0 <= rfc_bits rfc_ip_flags names < 8.
Proof. induction names as [|n names IH]; cbn [rfc_bits fold_right]; [lia|]. apply lor_small; [apply rfc_ip_bit_small|exact IH]. Qed.

Section IpTable.
Hypothesis Hcheck : ip_table_check = true.

Lemma ip_case_ok name cs : lookup_key name ip_flag_cases = Some cs ->
  is_flag_name rfc_ip_flags name = true /\ ip_case_value cs = rfc_bit rfc_ip_flags name.
Proof.
  intros H. apply lookup_key_in in H. destruct H as [k [Hin ->]].
  unfold ip_table_check in Hcheck. apply andb_true_iff in Hcheck. destruct Hcheck as [H _].
  rewrite forallb_forall in H. specialize (H _ Hin). cbn [fst snd] in H.
  apply andb_true_iff in H. destruct H as [H1 H2]. apply Z.eqb_eq in H2. tauto.
Qed.

Lemma ip_name_is_case name : is_flag_name rfc_ip_flags name = true -> exists cs, lookup_key name ip_flag_cases = Some cs.
Proof.
  unfold is_flag_name. destruct (lookup_key name rfc_ip_flags) as [b|] eqn:E; [|discriminate]. intros _.
  apply lookup_key_in in E. destruct E as [k [Hin ->]].
  unfold ip_table_check in Hcheck. apply andb_true_iff in Hcheck. destruct Hcheck as [_ H].
  rewrite forallb_forall in H. specialize (H _ Hin). cbn [fst] in H.
  destruct (lookup_key (str k) ip_flag_cases) as [w|]; [exists w; reflexivity|discriminate].
Qed.

(* an accepted IP flag string is a comma-separated list of the three names in any letter case, and the
   value is exactly the union of their header bits *)
Lemma parse_ip_flags_exact s v :
  parse_ip_flags s = Some v <->
  (s = [] /\ v = 0) \/
  (s <> [] /\ Forall (fun n => is_flag_name rfc_ip_flags n = true) (split_on 44 (to_lower s)) /\
   v = rfc_bits rfc_ip_flags (split_on 44 (to_lower s))).
Proof.
  unfold parse_ip_flags. change ip_flag_sep with 44. destruct s as [|c t].
  - cbn [is_nil]. split; [intros H; injection H as <-; left; tauto|]. intros [[_ ->]|[H _]]; [reflexivity|congruence].
  - cbn [is_nil]. set (s := c :: t). set (ps := split_on 44 (to_lower s)).
    set (f := fun p => match lookup_key p ip_flag_cases with Some cs => Some (ip_case_value cs) | None => None end).
    assert (Hval : forall vs, Forall2 (fun x y => f x = Some y) ps vs ->
                              Forall (fun n => is_flag_name rfc_ip_flags n = true) ps /\
                              fold_right Z.lor 0 vs = rfc_bits rfc_ip_flags ps).
    { intros vs H. induction H; [split; [constructor|reflexivity]|]. destruct IHForall2 as [I1 I2].
      unfold f in H. destruct (lookup_key x ip_flag_cases) as [cs|] eqn:E; [|discriminate]. injection H as <-.
      destruct (ip_case_ok _ _ E) as [K1 K2]. split; [constructor; assumption|].
      cbn [fold_right rfc_bits]. unfold rfc_bits in I2. rewrite I2, K2. reflexivity. }
    split.
    + intros H. right. split; [discriminate|]. destruct (map_all f ps) as [vs|] eqn:E; [|discriminate].
      injection H as <-. apply map_all_some in E. destruct (Hval _ E) as [V1 V2]. split; [exact V1|].
      rewrite fold_left_lor, Z.lor_0_l, V2. apply Z.mod_small. pose proof (rfc_ip_bits_small ps). lia.
    + intros [[H _]|[_ [HF ->]]]; [discriminate|].
      assert (Hex : exists vs, Forall2 (fun x y => f x = Some y) ps vs).
      { clear Hval. induction HF; [exists []; constructor|]. destruct IHHF as [vs Hvs].
        destruct (ip_name_is_case _ H) as [cs Hcs]. exists (ip_case_value cs :: vs). constructor; [|exact Hvs].
        unfold f. rewrite Hcs. reflexivity. }
      destruct Hex as [vs Hvs]. rewrite (proj2 (map_all_some f ps vs) Hvs).
      destruct (Hval _ Hvs) as [_ V2]. rewrite fold_left_lor, Z.lor_0_l, V2. f_equal.
      apply Z.mod_small. pose proof (rfc_ip_bits_small ps). lia.
Qed.

End IpTable.

(* ---------------------------------------------------------------- line-oriented files *)

Lemma scan_segments_ok segs : forall toks,
  scan_segments segs = (toks, false) -> toks = map drop_cr (strip_last_empty segs).
Proof.
  induction segs as [|seg rest IH]; intros toks H; cbn [scan_segments strip_last_empty] in *.
  - injection H as <-. reflexivity.
  - destruct rest as [|seg' rest'].
    + destruct (is_nil seg); [injection H as <-; reflexivity|].
      destruct (max_token <=? zlen seg); [discriminate|]. injection H as <-. reflexivity.
    + destruct (max_token <=? zlen seg); [discriminate|].
      destruct (scan_segments (seg' :: rest')) as [ts e] eqn:E. injection H as <- ->.
      cbn [map]. f_equal. apply IH. reflexivity.
Qed.

Lemma scan_segments_short segs :
  Forall (fun seg => zlen seg < max_token) segs ->
  scan_segments segs = (map drop_cr (strip_last_empty segs), false).
Proof.
  induction segs as [|seg rest IH]; intros H; [reflexivity|]. inversion H; subst.
  cbn [scan_segments strip_last_empty]. destruct rest as [|seg' rest'].
  - destruct (is_nil seg); [reflexivity|].
    replace (max_token <=? zlen seg) with false by (symmetry; apply Z.leb_gt; assumption). reflexivity.
  - replace (max_token <=? zlen seg) with false by (symmetry; apply Z.leb_gt; assumption).
    rewrite (IH H3). reflexivity.
Qed.

Lemma map_lines_spec {A} (f : bytes -> option A) c t lines : forall l,
  map_lines f c t lines = Some l <->
  Forall2 (fun ln r => f ln = Some r) (filter (fun l => negb (is_nil l)) (map (clean_line c t) lines)) l.
Proof.
  induction lines as [|ln lines IH]; intros l; cbn [map_lines map filter].
  - split; intros H; [injection H as <-; constructor|inversion H; reflexivity].
  - destruct (is_nil (clean_line c t ln)); cbn [negb]; [apply IH|].
    destruct (f (clean_line c t ln)) as [y|] eqn:E.
    + destruct (map_lines f c t lines) as [r|] eqn:E'.
      * split; intros H.
        -- injection H as <-. constructor; [exact E|apply IH; reflexivity].
        -- inversion H; subst. f_equal. f_equal; [congruence|]. apply IH in H4. congruence.
      * split; intros H; [discriminate|]. inversion H; subst. apply IH in H4. discriminate.
    + split; intros H; [discriminate|]. inversion H; subst. congruence.
Qed.

(* with scanner.Err() reported, an accepted file accounts for every content line of the file, in order:
   nothing after an over-long line is silently dropped *)
Lemma parse_lines_exact {A} (f : bytes -> option A) c t data l :
  parse_lines_gen true f c t data = Some l ->
  Forall2 (fun ln r => f ln = Some r) (content_lines c t data) l.
Proof.
  unfold parse_lines_gen, scan_lines, content_lines, all_lines.
  destruct (scan_segments (split_on 10 data)) as [toks toolong] eqn:E.
  destruct (map_lines f c t toks) as [l'|] eqn:M; [|discriminate]. cbn [andb].
  destruct toolong; [discriminate|]. intros H. injection H as <-.
  apply scan_segments_ok in E. subst toks. apply map_lines_spec. exact M.
Qed.

Lemma parse_lines_complete {A} (f : bytes -> option A) c t data l :
  Forall (fun seg => zlen seg < max_token) (split_on 10 data) ->
  Forall2 (fun ln r => f ln = Some r) (content_lines c t data) l ->
  parse_lines_gen true f c t data = Some l.
Proof.
  intros Hs H. unfold parse_lines_gen, scan_lines. rewrite (scan_segments_short _ Hs).
  unfold content_lines, all_lines in H. apply map_lines_spec in H. rewrite H. reflexivity.
Qed.

Lemma parse_ports_file_exact data l :
  parse_ports_file data = Some l ->
  Forall2 (fun ln r => denotes_port_range ln (fst r) (snd r)) (content_lines 35 32 data) l.
Proof.
  intros H. apply parse_lines_exact in H. eapply Forall2_impl; [|exact H].
  intros ln [a b] Hp. apply parse_port_range_exact. exact Hp.
Qed.

Lemma Forall2_len {A B} (P : A -> B -> Prop) l r : Forall2 P l r -> List.length l = List.length r.
Proof. intros H. induction H; cbn; congruence. Qed.

(* the code before the fix drops the rest of a file after a line of 64 KiB without any error *)
Definition long_file : bytes := str "80" ++ [10; 35] ++ repeat 99 (Z.to_nat 65536) ++ [10] ++ str "443" ++ [10].
Lemma parse_ports_file_v0_refuted :
  exists data l, parse_ports_file_v0 data = Some l /\
                 ~ Forall2 (fun ln r => denotes_port_range ln (fst r) (snd r)) (content_lines 35 32 data) l.
Proof.
  exists long_file, [(80, 80)]. split; [vm_compute; reflexivity|].
  intros H. apply Forall2_len in H. revert H. vm_compute. discriminate.
Qed.

Lemma parse_exclude_exact f data nets :
  parse_exclude f data = Some nets ->
  Forall2 (fun ln n => f ln = Some n) (content_lines 35 32 data) nets.
Proof. apply parse_lines_exact. Qed.

Lemma parse_exclude_v0_refuted :
  exists f data nets, parse_exclude_v0 f data = Some nets /\
                      ~ Forall2 (fun ln n => f ln = Some n) (content_lines 35 32 data) nets.
Proof.
  exists (fun _ => Some (0, 0)), long_file, [(0, 0)]. split; [vm_compute; reflexivity|].
  intros H. apply Forall2_len in H. revert H. vm_compute. discriminate.
Qed.

(* ---------------------------------------------------------------- round trip of a ports file *)

Lemma render_dec_f_len fuel : forall n acc, (List.length (render_dec_f fuel n acc) <= fuel + List.length acc)%nat.
Proof.
  induction fuel as [|f IH]; intros n acc; cbn [render_dec_f]; [lia|].
  destruct (n <? 10); [cbn [List.length]; lia|]. specialize (IH (n / 10) ((48 + n mod 10) :: acc)).
  cbn [List.length] in IH. lia.
Qed.

Lemma render_dec_len n : 0 <= n <= 65535 -> zlen (render_dec n) <= 16.
Proof.
  intros Hn. unfold zlen, render_dec. pose proof (render_dec_f_len (S (Z.to_nat (Z.log2 n))) n []) as H.
  cbn [List.length] in H. assert (Z.log2 n <= 15).
  { change 15 with (Z.log2 65535). apply Z.log2_le_mono. lia. }
  pose proof (Z.log2_nonneg n). lia.
Qed.

Lemma render_range_chars r c : port_pair_ok r -> is_digit c = false -> c <> 45 -> mem c (render_range r) = false.
Proof.
  intros [Ha Hb] Hc Hn. unfold render_range. rewrite !mem_app. cbn [mem].
  destruct (render_dec_spec (fst r) ltac:(lia)) as [_ [Da _]]. destruct (render_dec_spec (snd r) ltac:(lia)) as [_ [Db _]].
  rewrite (all_digits_no c _ Hc Da), (all_digits_no c _ Hc Db).
  replace (45 =? c) with false by (symmetry; apply Z.eqb_neq; lia). reflexivity.
Qed.

Lemma render_range_len r : port_pair_ok r -> zlen (render_range r) < max_token.
Proof.
  intros [Ha Hb]. unfold render_range, zlen. rewrite !app_length. cbn [List.length].
  pose proof (render_dec_len (fst r) ltac:(lia)). pose proof (render_dec_len (snd r) ltac:(lia)).
  unfold zlen in *. unfold max_token. lia.
Qed.

Lemma render_range_nonempty r : port_pair_ok r -> render_range r <> [].
Proof.
  intros [Ha _]. unfold render_range. destruct (render_dec_spec (fst r) ltac:(lia)) as [N _].
  destruct (render_dec (fst r)); [congruence|discriminate].
Qed.

Lemma split_render_file l : Forall port_pair_ok l ->
  split_on 10 (render_ports_file l) = map render_range l ++ [[]].
Proof.
  induction 1 as [|r l Hr Hl IH]; [reflexivity|]. unfold render_ports_file in *. cbn [flat_map map app].
  rewrite <- app_assoc. cbn [app]. rewrite split_on_app_sep by (apply render_range_chars; [assumption|reflexivity|lia]).
  rewrite IH. reflexivity.
Qed.

Lemma strip_last_empty_snoc L : Forall (fun s : bytes => s <> []) L -> strip_last_empty (L ++ [[]]) = L.
Proof.
  induction 1 as [|s L Hs HL IH]; [reflexivity|]. cbn [app strip_last_empty].
  destruct (L ++ [[]]) eqn:E; [destruct L; discriminate|]. rewrite IH. reflexivity.
Qed.

Lemma drop_cr_id s : mem 13 s = false -> drop_cr s = s.
Proof.
  induction s as [|c t IH]; intros H; [reflexivity|]. cbn [mem] in H. apply orb_false_iff in H. destruct H as [H1 H2].
  cbn [drop_cr]. destruct t; [rewrite H1; reflexivity|]. rewrite (IH H2). reflexivity.
Qed.

Lemma cut_at_id c s : mem c s = false -> cut_at c s = s.
Proof.
  induction s as [|x t IH]; intros H; [reflexivity|]. cbn [mem] in H. apply orb_false_iff in H. destruct H as [H1 H2].
  cbn [cut_at]. rewrite H1, (IH H2). reflexivity.
Qed.

Lemma drop_leading_id c s : mem c s = false -> drop_leading c s = s.
Proof. destruct s as [|x t]; intros H; [reflexivity|]. cbn [mem] in H. apply orb_false_iff in H. cbn [drop_leading]. destruct H as [-> _]. reflexivity. Qed.

Lemma mem_rev c s : mem c (rev s) = mem c s.
Proof.
  induction s as [|x t IH]; [reflexivity|]. cbn [rev]. rewrite mem_app, IH. cbn [mem]. rewrite orb_false_r. apply orb_comm.
Qed.

Lemma trim_id c s : mem c s = false -> trim c s = s.
Proof.
  intros H. unfold trim, frev. rewrite (drop_leading_id c s H), !rev_append_rev, !app_nil_r.
  rewrite drop_leading_id by (rewrite mem_rev; exact H). apply rev_involutive.
Qed.

Lemma clean_render r : port_pair_ok r -> clean_line 35 32 (render_range r) = render_range r.
Proof.
  intros H. unfold clean_line. rewrite cut_at_id by (apply render_range_chars; [assumption|reflexivity|lia]).
  apply trim_id. apply render_range_chars; [assumption|reflexivity|lia].
Qed.

(* every list of port ranges written one per line parses back to exactly that list *)
Lemma parse_ports_file_roundtrip l : Forall port_pair_ok l -> parse_ports_file (render_ports_file l) = Some l.
Proof.
  intros H. unfold parse_ports_file, parse_ports_file_gen.
  change ports_file_comment with 35. change ports_file_trim with 32. apply parse_lines_complete.
  - rewrite (split_render_file l H). apply Forall_app. split; [|repeat constructor; unfold max_token; cbn; lia].
    rewrite Forall_map. eapply Forall_impl; [|exact H]. intros r Hr. apply render_range_len. exact Hr.
  - unfold content_lines, all_lines. rewrite (split_render_file l H).
    rewrite strip_last_empty_snoc by (rewrite Forall_map; eapply Forall_impl; [|exact H]; intros r Hr; apply render_range_nonempty; exact Hr).
    induction H as [|r l Hr Hl IH]; [constructor|]. cbn [map].
    rewrite drop_cr_id by (apply render_range_chars; [assumption|reflexivity|lia]).
    rewrite (clean_render r Hr). cbn [filter].
    destruct (render_range r) eqn:E; [exfalso; apply (render_range_nonempty r Hr E)|]. cbn [is_nil negb].
    constructor; [|exact IH]. rewrite <- E. destruct r as [ra rb]. apply parse_port_range_exact.
    destruct Hr as [Ha Hb]. apply denotes_render_range; assumption.
Qed.

(* ---------------------------------------------------------------- rate limit *)

(* a count: decimal digits with an optional sign; a minus sign is only accepted in front of zero *)
Definition denotes_count (p : bytes) (n : Z) : Prop :=
  exists sign ds, p = sign ++ ds /\ is_number ds = true /\ n = dec_val ds /\ n < 2 ^ 31 /\
                  (sign = [] \/ sign = [43] \/ (sign = [45] /\ n = 0)).

Lemma digits_val_10_iff r v : r <> [] ->
  (digits_val 10 0 r = Some v <-> is_number r = true /\ v = dec_val r /\ v < two64).
Proof.
  intros Hne. rewrite is_number_spec. split.
  - intros H. destruct (digits_val_10_some r 0 v H) as [H1 H2]. rewrite Z.mul_0_l, Z.add_0_l in H2.
    split; [tauto|]. split; [exact H2|].
    (* the loop never returns a value outside uint64 *)
    clear H1 H2. revert H. generalize 0 at 1. intros acc. revert acc v.
    induction r as [|c t IH]; [congruence|]. intros acc v. cbn [digits_val].
    destruct (digit_val c) as [d|]; [|discriminate]. destruct (d <? 10); [|discriminate].
    destruct (two64 <=? acc * 10 + d) eqn:E; [discriminate|]. apply Z.leb_gt in E.
    destruct t as [|c' t']; [cbn [digits_val]; intros H; injection H as <-; exact E|].
    apply IH. discriminate.
  - intros [[_ Hd] [-> Hv]]. pose proof (digits_val_10_complete r 0 Hd ltac:(lia)) as Hc.
    rewrite Z.mul_0_l, Z.add_0_l in Hc. apply Hc. exact Hv.
Qed.

Lemma number_head s : is_number s = true -> exists c t, s = c :: t /\ is_digit c = true.
Proof.
  intros H. apply is_number_spec in H. destruct H as [Hne Hd]. destruct s as [|c t]; [congruence|].
  exists c, t. split; [reflexivity|]. cbn [all_digits forallb] in Hd. apply andb_true_iff in Hd. tauto.
Qed.

Lemma parse_int_rate p n :
  (parse_int rate_base rate_bits p = Some n /\ 0 <= n) <-> denotes_count p n.
Proof.
  unfold parse_int, denotes_count. change rate_base with 10. change (2 ^ (rate_bits - 1)) with (2 ^ 31). split.
  - intros [H Hn]. destruct p as [|c t]; [discriminate|].
    destruct (c =? 43) eqn:E1; [|destruct (c =? 45) eqn:E2].
    + apply Z.eqb_eq in E1. subst c. destruct t as [|c' t']; [discriminate|]. remember (c' :: t') as r eqn:Er.
      destruct (digits_val 10 0 r) as [v|] eqn:E; [|discriminate].
      apply digits_val_10_iff in E; [|rewrite Er; discriminate]. destruct E as [N [-> _]].
      destruct (2 ^ 31 <=? dec_val r) eqn:F; [discriminate|]. injection H as <-. apply Z.leb_gt in F.
      exists [43], r. repeat split; auto.
    + apply Z.eqb_eq in E2. subst c. destruct t as [|c' t']; [discriminate|]. remember (c' :: t') as r eqn:Er.
      destruct (digits_val 10 0 r) as [v|] eqn:E; [|discriminate].
      apply digits_val_10_iff in E; [|rewrite Er; discriminate]. destruct E as [N [-> _]].
      destruct (2 ^ 31 <? dec_val r) eqn:F; [discriminate|]. injection H as <-.
      pose proof (dec_val_nonneg r (proj2 (proj1 (is_number_spec r) N))).
      exists [45], r. assert (dec_val r = 0) by lia. repeat split; auto; try lia. right. right. split; [reflexivity|lia].
    + remember (c :: t) as r eqn:Er. destruct (digits_val 10 0 r) as [v|] eqn:E; [|discriminate].
      apply digits_val_10_iff in E; [|rewrite Er; discriminate]. destruct E as [N [-> _]].
      destruct (2 ^ 31 <=? dec_val r) eqn:F; [discriminate|]. injection H as <-. apply Z.leb_gt in F.
      exists [], r. repeat split; auto.
  - intros [sign [ds [-> [N [-> [Hlt Hs]]]]]].
    pose proof (dec_val_nonneg ds (proj2 (proj1 (is_number_spec ds) N))) as Hnn. split; [|exact Hnn].
    assert (Hdv : digits_val 10 0 ds = Some (dec_val ds)).
    { apply digits_val_10_iff; [apply is_number_spec in N; tauto|]. repeat split; auto. rewrite two64_val. lia. }
    destruct (number_head ds N) as [c [t [Eds Hc]]]. apply is_digit_spec in Hc. subst ds.
    destruct Hs as [->|[->|[-> Hz]]]; cbn [app].
    + replace (c =? 43) with false by (symmetry; apply Z.eqb_neq; lia).
      replace (c =? 45) with false by (symmetry; apply Z.eqb_neq; lia). cbv beta iota. rewrite Hdv.
      replace (2 ^ 31 <=? dec_val (c :: t)) with false by (symmetry; apply Z.leb_gt; lia). reflexivity.
    + rewrite Z.eqb_refl. cbv beta iota. rewrite Hdv.
      replace (2 ^ 31 <=? dec_val (c :: t)) with false by (symmetry; apply Z.leb_gt; lia). reflexivity.
    + replace (45 =? 43) with false by reflexivity. rewrite Z.eqb_refl. cbv beta iota. rewrite Hdv.
      replace (2 ^ 31 <? dec_val (c :: t)) with false by (symmetry; apply Z.ltb_ge; lia). rewrite Hz. reflexivity.
Qed.

(* the window text handed to time.ParseDuration: a window that starts with a unit has an implicit 1 *)
Definition rate_window (w : bytes) : bytes :=
  match w with
  | c :: _ => if negb (is_digit c) && negb (c =? 46) then 49 :: w else w
  | [] => w
  end.

(* what a rate string denotes: a count, alone (per second) or followed by one slash and a window; the
   window is what Go's duration syntax gives for the text written *)
Definition denotes_rate (s : bytes) (n d : Z) : Prop :=
  exists cnt, denotes_count cnt n /\
    ((s = cnt /\ d = one_second) \/
     (exists w, s = cnt ++ 47 :: w /\ mem 47 w = false /\ parse_duration (rate_window w) = Some d /\ 0 <= d)).

Lemma denotes_count_no_slash p n : denotes_count p n -> mem 47 p = false.
Proof.
  intros [sign [ds [-> [N [_ [_ Hs]]]]]]. rewrite mem_app, (is_number_no ds 47) by (reflexivity || assumption).
  destruct Hs as [->|[->|[-> _]]]; reflexivity.
Qed.

Lemma parse_rate_limit_exact s n d : parse_rate_limit s = Some (n, d) <-> denotes_rate s n d.
Proof.
  unfold parse_rate_limit, parse_rate_limit_gen, denotes_rate. change rate_sep with 47. cbn [andb]. split.
  - intros H. pose proof (split_on_join 47 s) as Hj. pose proof (split_on_pieces 47 s) as Hp.
    destruct (2 <? zlen (split_on 47 s)) eqn:L; [discriminate|]. apply Z.ltb_ge in L. unfold zlen in L.
    destruct (split_on 47 s) as [|p0 rest]; [discriminate|].
    destruct (parse_int rate_base rate_bits p0) as [rate|] eqn:E; [|discriminate].
    destruct (rate <? 0) eqn:F; [discriminate|]. apply Z.ltb_ge in F.
    assert (C : denotes_count p0 rate) by (apply parse_int_rate; tauto).
    destruct rest as [|w rest'].
    + injection H as <- <-. exists p0. split; [exact C|]. left. cbn in Hj. auto.
    + destruct rest' as [|x y]; [|cbn [List.length] in L; lia].
      fold (rate_window w) in H. destruct (parse_duration (rate_window w)) as [d'|] eqn:D; [|discriminate].
      destruct (d' <? 0) eqn:G; [discriminate|]. apply Z.ltb_ge in G. injection H as <- <-.
      exists p0. split; [exact C|]. right. exists w. cbn in Hj. inversion Hp; subst. inversion H2; subst. auto.
  - intros [cnt [C [[-> ->]|[w [-> [Hw [D Hd]]]]]]]; pose proof (denotes_count_no_slash _ _ C) as Hc;
      pose proof (proj2 (parse_int_rate cnt n) C) as [P Pn].
    + rewrite split_on_no_sep by exact Hc. cbn [zlen List.length Z.of_nat].
      cbn [Z.ltb Z.compare Pos.compare Pos.compare_cont Pos.of_succ_nat Pos.succ]. rewrite P.
      replace (n <? 0) with false by (symmetry; apply Z.ltb_ge; exact Pn). reflexivity.
    + rewrite split_on_app_sep by exact Hc. rewrite split_on_no_sep by exact Hw. cbn [zlen List.length Z.of_nat].
      cbn [Z.ltb Z.compare Pos.compare Pos.compare_cont Pos.of_succ_nat Pos.succ]. rewrite P.
      replace (n <? 0) with false by (symmetry; apply Z.ltb_ge; exact Pn).
      fold (rate_window w). rewrite D. replace (d <? 0) with false by (symmetry; apply Z.ltb_ge; exact Hd). reflexivity.
Qed.

(* the code before the fix reads the window .5s as 1.5s: the accepted window is not the duration written *)
Lemma parse_rate_limit_v0_refuted :
  exists s n d, parse_rate_limit_v0 s = Some (n, d) /\ ~ denotes_rate s n d.
Proof.
  exists (str "5/.5s"), 5, 1500000000. split; [vm_compute; reflexivity|].
  intros H. apply parse_rate_limit_exact in H. vm_compute in H. discriminate.
Qed.

(* ---------------------------------------------------------------- round trips of rates *)
From SX Require Import Proofs.DurationProofs.

Lemma denotes_count_render n : 0 <= n < 2 ^ 31 -> denotes_count (render_dec n) n.
Proof.
  intros Hn. exists [], (render_dec n). destruct (render_dec_spec n ltac:(lia)) as [_ [_ Hv]].
  cbn [app]. rewrite render_dec_number by lia. repeat split; auto; lia.
Qed.

Lemma unit_no_slash u uv : In (u, uv) unit_table -> mem 47 u = false.
Proof.
  unfold unit_table. cbn [In]. intros H.
  repeat (destruct H as [H|H]; [injection H as <- <-; reflexivity|]). destruct H.
Qed.

Lemma unit_head u uv : In (u, uv) unit_table -> exists c t, u = c :: t /\ is_digit c = false /\ (c =? 46) = false.
Proof.
  unfold unit_table. cbn [In]. intros H.
  repeat (destruct H as [H|H]; [injection H as <- <-; eexists; eexists; split; [reflexivity|split; reflexivity]|]). destruct H.
Qed.

(* a count alone is per second *)
Lemma rate_roundtrip_count n : 0 <= n < 2 ^ 31 -> parse_rate_limit (render_dec n) = Some (n, one_second).
Proof.
  intros Hn. apply parse_rate_limit_exact. exists (render_dec n). split; [apply denotes_count_render; exact Hn|]. left. auto.
Qed.

(* count/unit is per one unit, for each of the eight unit names *)
Lemma rate_roundtrip_unit n u uv : 0 <= n < 2 ^ 31 -> In (u, uv) unit_table ->
  parse_rate_limit (render_dec n ++ 47 :: u) = Some (n, uv).
Proof.
  intros Hn Hu. apply parse_rate_limit_exact. exists (render_dec n). split; [apply denotes_count_render; exact Hn|].
  right. exists u. split; [reflexivity|]. split; [eapply unit_no_slash; exact Hu|].
  destruct (unit_head u uv Hu) as [c [t [-> [Hc Hd]]]]. unfold rate_window. rewrite Hc, Hd. cbn [negb andb].
  pose proof (parse_duration_single [49] (c :: t) uv Hu eq_refl) as P.
  change (dec_val [49]) with 1 in P. rewrite Z.mul_1_l in P.
  destruct (unit_table_facts _ _ Hu) as [_ [_ [_ Hr]]]. split; [apply P; unfold two63; lia|lia].
Qed.

(* count/<k><unit> is per k units: every rate whose window is a whole number of some unit *)
Lemma rate_roundtrip_window n k u uv : 0 <= n < 2 ^ 31 -> In (u, uv) unit_table -> 0 <= k -> k * uv <= two63 - 1 ->
  parse_rate_limit (render_dec n ++ 47 :: render_dec k ++ u) = Some (n, k * uv).
Proof.
  intros Hn Hu Hk Hb. apply parse_rate_limit_exact. exists (render_dec n). split; [apply denotes_count_render; exact Hn|].
  right. exists (render_dec k ++ u). split; [reflexivity|].
  destruct (render_dec_spec k Hk) as [Hne [Hd _]].
  split; [rewrite mem_app, (all_digits_no 47 _ eq_refl Hd), (unit_no_slash u uv Hu); reflexivity|].
  destruct (number_head (render_dec k) (render_dec_number k Hk)) as [c [t [E Hc]]].
  unfold rate_window. rewrite E. cbn [app]. rewrite Hc. cbn [negb andb]. change (c :: t ++ u) with ((c :: t) ++ u). rewrite <- E.
  split; [apply parse_duration_render; assumption|].
  destruct (unit_table_facts _ _ Hu) as [_ [_ [_ Hr]]]. nia.
Qed.

(* every rate: any count below 2^31 per any window of 0 .. 2^63-1 nanoseconds *)
Lemma rate_roundtrip_ns n d : 0 <= n < 2 ^ 31 -> 0 <= d <= two63 - 1 ->
  parse_rate_limit (render_dec n ++ 47 :: render_dec d ++ [110; 115]) = Some (n, d).
Proof.
  intros Hn Hd. pose proof (rate_roundtrip_window n d [110; 115] 1 Hn ltac:(left; reflexivity) ltac:(lia) ltac:(lia)) as H.
  rewrite Z.mul_1_r in H. exact H.
Qed.

(* ---------------------------------------------------------------- round trip of IP flags (ASCII letter case) *)

Definition ascii_bytes (s : bytes) : Prop := Forall (fun c => c < 128) s.

Lemma to_lower_ascii s : ascii_bytes s -> to_lower s = map lower_byte s.
Proof.
  induction s as [|a t IH]; intros H; [reflexivity|]. inversion H; subst. cbn [to_lower map].
  destruct t as [|b u]; [reflexivity|].
  replace (a =? 196) with false by (symmetry; apply Z.eqb_neq; lia). cbn [andb].
  replace (a =? 226) with false by (symmetry; apply Z.eqb_neq; lia). cbn [andb].
  rewrite (IH H3). destruct u; reflexivity.
Qed.

Lemma ascii_join ws : Forall ascii_bytes ws -> ascii_bytes (join 44 ws).
Proof.
  induction 1 as [|w ws Hw Hws IH]; [constructor|]. destruct ws as [|w' ws']; [exact Hw|].
  rewrite join_cons by discriminate. apply Forall_app. split; [exact Hw|]. constructor; [lia|exact IH].
Qed.

Lemma map_lower_join ws : map lower_byte (join 44 ws) = join 44 (map (map lower_byte) ws).
Proof.
  induction ws as [|w ws IH]; [reflexivity|]. destruct ws as [|w' ws']; [reflexivity|].
  rewrite join_cons by discriminate. cbn [map]. rewrite (join_cons 44 (map lower_byte w)) by discriminate.
  rewrite map_app. cbn [map]. rewrite IH. reflexivity.
Qed.

Lemma flag_name_no_comma table n : is_flag_name table n = true -> Forall (fun kv => mem 44 (str (fst kv)) = false) table -> mem 44 n = false.
Proof.
  unfold is_flag_name. destruct (lookup_key n table) as [b|] eqn:E; [|discriminate]. intros _ H.
  apply lookup_key_in in E. destruct E as [k [Hin ->]]. rewrite Forall_forall in H. apply (H _ Hin).
Qed.

Lemma rfc_ip_no_comma : Forall (fun kv : string * Z => mem 44 (str (fst kv)) = false) rfc_ip_flags.
Proof. repeat constructor. Qed.

(* any sequence of the three names (any subset, order, repetition), each written in any ASCII letter case,
   joined by commas, parses to exactly the union of their bits *)
Lemma parse_ip_flags_roundtrip (Hcheck : ip_table_check = true) written names :
  names <> [] -> Forall ascii_bytes written ->
  Forall2 (fun w n => map lower_byte w = n /\ is_flag_name rfc_ip_flags n = true) written names ->
  parse_ip_flags (join 44 written) = Some (rfc_bits rfc_ip_flags names).
Proof.
  intros Hne Ha H.
  assert (Hmap : map (map lower_byte) written = names).
  { clear Hne Ha. induction H; [reflexivity|]. cbn [map]. destruct H as [-> _]. f_equal. exact IHForall2. }
  assert (Hnames : Forall (fun n => is_flag_name rfc_ip_flags n = true) names).
  { clear Hne Ha Hmap. induction H; constructor; tauto. }
  assert (Hsplit : split_on 44 (to_lower (join 44 written)) = names).
  { rewrite to_lower_ascii by (apply ascii_join; exact Ha). rewrite map_lower_join, Hmap. apply split_join; [exact Hne|].
    eapply Forall_impl; [|exact Hnames]. intros n Hn. apply (flag_name_no_comma rfc_ip_flags n Hn rfc_ip_no_comma). }
  apply (parse_ip_flags_exact Hcheck). right. rewrite Hsplit. split; [|split; [exact Hnames|reflexivity]].
  intros E. assert (L : split_on 44 (to_lower (join 44 written)) = [[]]) by (rewrite E; reflexivity).
  rewrite Hsplit in L. rewrite L in Hnames. apply Forall_inv in Hnames. vm_compute in Hnames. discriminate.
Qed.
