(* Lemmas about Model.Socks: decision rule, time bound, cancellation, for all scripts. *)
From Coq Require Import ZArith List Bool Lia Arith.
From SX Require Import Model.Socks.
Import ListNotations.
Open Scope Z_scope.

(* ---------------------------------------------------------------- wait *)
Definition wr_time (now : Z) (r : wait_res) : Z :=
  match r with Fired t | TimedOut t | Cancelled t => t | Forever => now end.

Lemma natural_bounds now l due :
  0 <= l -> natural now (Some l) due <> Forever /\
            now <= wr_time now (natural now (Some l) due) <= now + l.
Proof.
  intros Hl. unfold natural. destruct due as [d|].
  - destruct (Z.max 0 d <? l) eqn:E; cbn; split; try discriminate.
    + apply Z.ltb_lt in E. lia.
    + lia.
  - cbn. split; [discriminate|lia].
Qed.

Definition lim_ok (lim : option Z) : Prop := match lim with Some l => 0 <= l | None => True end.

Lemma dial_limit_ok t : lim_ok (dial_limit t).
Proof. unfold dial_limit. destruct (t =? 0); cbn; [exact I|lia]. Qed.
Lemma data_limit_ok t : lim_ok (data_limit t).
Proof. cbn. lia. Qed.

Lemma natural_mono now lim due : lim_ok lim -> now <= wr_time now (natural now lim due).
Proof.
  unfold natural. destruct due as [d|], lim as [l|]; cbn; intros Hl; try lia.
  destruct (Z.max 0 d <? l) eqn:E; cbn; lia.
Qed.

Lemma natural_not_cancelled now lim due t : natural now lim due <> Cancelled t.
Proof.
  unfold natural. destruct due as [d|], lim as [l|]; try discriminate.
  destruct (Z.max 0 d <? l); discriminate.
Qed.

Lemma wait_none now lim due : wait now None lim due = natural now lim due.
Proof. reflexivity. Qed.

Lemma wait_never_fires now cancel lim t : wait now cancel lim None <> Fired t.
Proof.
  destruct cancel as [tc|]; unfold wait, natural.
  - destruct (tc <=? now); [discriminate|]. destruct lim as [l|]; [|discriminate].
    destruct (tc <? now + l); discriminate.
  - destruct lim; discriminate.
Qed.

Lemma wait_cancel_cases now tc lim due :
  wait now (Some tc) lim due = natural now lim due \/
  exists t, wait now (Some tc) lim due = Cancelled t.
Proof.
  unfold wait. destruct (tc <=? now); [right; eauto|].
  destruct (natural now lim due) as [t|t|t|]; try (destruct (tc <? t)); eauto.
Qed.

Lemma wait_bounds now cancel l due :
  0 <= l -> wait now cancel (Some l) due <> Forever /\
            now <= wr_time now (wait now cancel (Some l) due) <= now + l.
Proof.
  intros Hl. destruct (natural_bounds now l due Hl) as [Hn Hb].
  destruct cancel as [tc|]; [|exact (conj Hn Hb)].
  unfold wait. destruct (tc <=? now) eqn:E1; [cbn; split; [discriminate|lia]|].
  apply Z.leb_gt in E1.
  destruct (natural now (Some l) due) as [t|t|t|]; cbn in *;
    try (destruct (tc <? t) eqn:E2; [apply Z.ltb_lt in E2|]; cbn); try (split; [discriminate|lia]).
  congruence.
Qed.

(* with a cancellation time, no operation ends after max(now, tc) and none blocks for ever *)
Lemma wait_cancel_bound now tc lim due :
  lim_ok lim ->
  wait now (Some tc) lim due <> Forever /\
  now <= wr_time now (wait now (Some tc) lim due) <= Z.max now tc.
Proof.
  intros Hok. unfold wait. destruct (tc <=? now) eqn:E1; [cbn; split; [discriminate|lia]|].
  apply Z.leb_gt in E1. pose proof (natural_mono now lim due Hok) as Hm.
  pose proof (natural_not_cancelled now lim due) as Hnc.
  destruct (natural now lim due) as [t|t|t|]; cbn in *; [| |exfalso; exact (Hnc t eq_refl)|];
    try (destruct (tc <? t) eqn:E2; [apply Z.ltb_lt in E2|apply Z.ltb_ge in E2]; cbn);
    split; try discriminate; try lia.
Qed.

(* a cancellation strictly after the natural end of an operation does not affect it *)
Lemma wait_late_cancel now tc lim due :
  lim_ok lim -> natural now lim due <> Forever -> (forall t, natural now lim due <> Cancelled t) ->
  wr_time now (natural now lim due) < tc ->
  wait now (Some tc) lim due = natural now lim due.
Proof.
  intros Hok Hf Hc Ht. pose proof (natural_mono now lim due Hok) as Hm. unfold wait.
  destruct (tc <=? now) eqn:E1; [apply Z.leb_le in E1; lia|].
  destruct (natural now lim due) as [t|t|t|]; cbn in *; try congruence.
  - destruct (tc <? t) eqn:E2; [apply Z.ltb_lt in E2; lia|reflexivity].
  - destruct (tc <? t) eqn:E2; [apply Z.ltb_lt in E2; lia|reflexivity].
Qed.


(* ---------------------------------------------------------------- read_call *)
Definition rd_time (now : Z) (r : read_res) : Z :=
  match r with RdBytes _ _ t | RdErr _ t => t | RdHang => now end.

Lemma read_call_bounds cancel t_data want evs now :
  read_call cancel t_data want evs now <> RdHang /\
  now <= rd_time now (read_call cancel t_data want evs now) <= now + Z.max 0 t_data.
Proof.
  unfold read_call, data_limit.
  set (due := match evs with [] => None | (d, _) :: _ => Some d end).
  assert (H0 : 0 <= Z.max 0 t_data) by lia.
  destruct (wait_bounds now cancel (Z.max 0 t_data) due H0) as [Hf Hb].
  assert (Hnil : evs = [] -> forall t, wait now cancel (Some (Z.max 0 t_data)) due <> Fired t).
  { intros -> t. subst due. destruct cancel as [tc|]; unfold wait, natural.
    - destruct (tc <=? now); [discriminate|]. destruct (tc <? now + Z.max 0 t_data); discriminate.
    - discriminate. }
  destruct (wait now cancel (Some (Z.max 0 t_data)) due) as [t|t|t|] eqn:E; cbn in Hb.
  - destruct evs as [|[d [b l| |]] rest]; cbn; try (split; [discriminate|lia]).
    exfalso. exact (Hnil eq_refl t eq_refl).
  - cbn. split; [discriminate|lia].
  - cbn. split; [discriminate|lia].
  - congruence.
Qed.

Lemma read_call_bytes_nonempty cancel t_data want evs now l rest t :
  read_call cancel t_data (S want) evs now = RdBytes l rest t -> (1 <= length l <= S want)%nat.
Proof.
  unfold read_call. destruct (wait now cancel (data_limit t_data) _); try discriminate.
  destruct evs as [|[d [b r| |]] rest']; try discriminate.
  intros H. injection H as <- _ _.
  pose proof (firstn_length (S want) (b :: r)) as HL. cbn in *. lia.
Qed.

(* ---------------------------------------------------------------- read_full: totality and time *)
Definition rf_time (now : Z) (r : rf_res) : Z :=
  match r with RfDone _ t _ | RfErr _ t _ => t | _ => now end.
Definition rf_calls (c : nat) (r : rf_res) : nat :=
  match r with RfDone _ _ n | RfErr _ _ n | RfHang n => n | RfFuel => c end.

Lemma read_full_bounds fuel : forall cancel t_data want got evs now calls,
  (want <= fuel)%nat ->
  let r := read_full fuel cancel t_data want got evs now calls in
  r <> RfFuel /\ (forall n, r <> RfHang n) /\
  (calls <= rf_calls calls r <= calls + want)%nat /\
  now <= rf_time now r <= now + Z.of_nat (rf_calls calls r - calls) * Z.max 0 t_data.
Proof.
  induction fuel as [|fuel IH]; intros cancel t_data want got evs now calls Hw.
  - assert (want = O) by lia. subst want. cbn. repeat split; try discriminate; try lia.
  - destruct want as [|w].
    + cbn. repeat split; try discriminate; try lia.
    + cbn [read_full].
      destruct (read_call_bounds cancel t_data (S w) evs now) as [Hh Hb].
      destruct (read_call cancel t_data (S w) evs now) as [l rest t|e t|] eqn:E; [| |congruence].
      * pose proof (read_call_bytes_nonempty _ _ _ _ _ _ _ _ E) as Hl. cbn in Hb.
        specialize (IH cancel t_data (S w - length l)%nat (got ++ l) rest t (S calls)).
        assert (Hw' : (S w - length l <= fuel)%nat) by lia. specialize (IH Hw').
        cbv zeta in IH. destruct IH as [H1 [H2 [H3 H4]]].
        set (r := read_full fuel cancel t_data (S w - length l) (got ++ l) rest t (S calls)) in *.
        cbv zeta. clearbody r.
        destruct r as [bs t' n|e t' n|n|]; cbn [rf_calls rf_time] in *; try congruence;
          try (exfalso; exact (H2 n eq_refl));
          (split; [discriminate|]; split; [discriminate|]; split; [lia|];
           replace (Z.of_nat (n - calls)) with (Z.of_nat (n - S calls) + 1) by lia;
           set (m := Z.max 0 t_data) in *; assert (0 <= m) by (subst m; lia); nia).
      * cbn in Hb. cbv zeta. cbn [rf_calls rf_time].
        replace (Z.of_nat (S calls - calls)) with 1 by lia.
        repeat split; try discriminate; try lia.
Qed.

(* ---------------------------------------------------------------- read_full without cancellation:
   its result is determined by the delivered stream *)
Lemma firstn_app_len {A} (n : nat) (l1 l2 : list A) :
  firstn n (l1 ++ l2) = firstn n l1 ++ firstn (n - length (firstn n l1)) l2.
Proof.
  rewrite firstn_app. f_equal. rewrite firstn_length.
  destruct (Nat.le_ge_cases n (length l1)) as [H|H].
  - rewrite (Nat.min_l _ _ H). replace (n - length l1)%nat with O by lia.
    replace (n - n)%nat with O by lia. reflexivity.
  - rewrite (Nat.min_r _ _ H). reflexivity.
Qed.

Lemma read_full_delivered fuel : forall t_data want got evs now calls,
  (want <= fuel)%nat ->
  let D := delivered (Z.max 0 t_data) evs in
  if (want <=? length D)%nat
  then exists t n, read_full fuel None t_data want got evs now calls = RfDone (got ++ firstn want D) t n
  else exists e t n, read_full fuel None t_data want got evs now calls = RfErr e t n.
Proof.
  induction fuel as [|fuel IH]; intros t_data want got evs now calls Hw; cbv zeta.
  - assert (want = O) by lia. subst want. cbn. rewrite app_nil_r. eauto.
  - destruct want as [|w].
    + cbn. rewrite app_nil_r. eauto.
    + cbn [read_full]. unfold read_call, data_limit. rewrite wait_none.
      destruct evs as [|[d ev] rest].
      * cbn. eauto.
      * cbn [natural delivered].
        destruct ev as [b l| |].
        -- destruct (Z.max 0 d <? Z.max 0 t_data) eqn:E.
           ++ specialize (IH t_data (S w - length (firstn (S w) (b :: l)))%nat
                             (got ++ firstn (S w) (b :: l)) rest (now + Z.max 0 d) (S calls)).
              assert (Hl : (1 <= length (firstn (S w) (b :: l)) <= S w)%nat).
              { rewrite firstn_length. cbn [length]. lia. }
              assert (Hw' : (S w - length (firstn (S w) (b :: l)) <= fuel)%nat) by lia.
              specialize (IH Hw'). cbv zeta in IH.
              set (D := delivered (Z.max 0 t_data) rest) in *.
              set (k := length (firstn (S w) (b :: l))) in *.
              assert (Hk : k = Nat.min (S w) (length (b :: l))) by (subst k; apply firstn_length).
              rewrite (firstn_app_len (S w) (b :: l) D). fold k.
              rewrite app_length.
              destruct (S w - k <=? length D)%nat eqn:E1.
              ** apply Nat.leb_le in E1.
                 assert (E2 : (S w <=? length (b :: l) + length D)%nat = true) by (apply Nat.leb_le; lia).
                 rewrite E2. destruct IH as [t [n IH]]. exists t, n. rewrite IH, app_assoc. reflexivity.
              ** apply Nat.leb_gt in E1.
                 assert (E2 : (S w <=? length (b :: l) + length D)%nat = false) by (apply Nat.leb_gt; lia).
                 rewrite E2. exact IH.
           ++ cbn. eauto.
        -- destruct (Z.max 0 d <? Z.max 0 t_data); cbn; eauto.
        -- destruct (Z.max 0 d <? Z.max 0 t_data); cbn; eauto.
Qed.

(* ---------------------------------------------------------------- read_full and cancellation *)
Lemma read_call_cancel_cases tc t_data want evs now :
  read_call (Some tc) t_data want evs now = read_call None t_data want evs now \/
  exists t, read_call (Some tc) t_data want evs now = RdErr ECancelled t.
Proof.
  unfold read_call.
  destruct (wait_cancel_cases now tc (data_limit t_data)
              match evs with [] => None | (d, _) :: _ => Some d end) as [->|[t ->]]; eauto.
Qed.

Lemma read_full_cancel_cases fuel : forall tc t_data want got evs now calls,
  read_full fuel (Some tc) t_data want got evs now calls = read_full fuel None t_data want got evs now calls \/
  exists t n, read_full fuel (Some tc) t_data want got evs now calls = RfErr ECancelled t n.
Proof.
  induction fuel as [|fuel IH]; intros tc t_data want got evs now calls.
  - left. destruct want; reflexivity.
  - destruct want as [|w]; [left; reflexivity|]. cbn [read_full].
    destruct (read_call_cancel_cases tc t_data (S w) evs now) as [->|[t ->]].
    + destruct (read_call None t_data (S w) evs now) as [l rest t|e t|]; eauto.
    + right. destruct got; eauto.
Qed.

(* ---------------------------------------------------------------- scan: decision rule *)
Definition dial_connects_b (t_dial : Z) (s : sched dial_ev) : bool :=
  match s with
  | After d DConnected => (t_dial =? 0) || (Z.max 0 d <? Z.max 0 t_dial)
  | _ => false
  end.

Definition write_succeeds_b (t_data : Z) (s : sched write_ev) : bool :=
  match s with
  | After d WOk => Z.max 0 d <? Z.max 0 t_data
  | _ => false
  end.

Lemma dial_connects_iff t_dial s : dial_connects_b t_dial s = true <-> dial_connects t_dial s.
Proof.
  unfold dial_connects. split.
  - destruct s as [d [| |]|]; cbn; try discriminate. intros H. exists d. split; [reflexivity|].
    apply orb_true_iff in H. destruct H as [H|H]; [left; apply Z.eqb_eq, H|right; apply Z.ltb_lt, H].
  - intros [d [-> H]]. cbn. apply orb_true_iff.
    destruct H as [H|H]; [left; apply Z.eqb_eq, H|right; apply Z.ltb_lt, H].
Qed.

Lemma write_succeeds_iff t_data s : write_succeeds_b t_data s = true <-> write_succeeds t_data s.
Proof.
  unfold write_succeeds. split.
  - destruct s as [d [|]|]; cbn; try discriminate. intros H. exists d. split; [reflexivity|apply Z.ltb_lt, H].
  - intros [d [-> H]]. cbn. apply Z.ltb_lt, H.
Qed.

(* the time at which the connection is established / the write returns, when they succeed *)
Definition t_connected (s : script) : Z :=
  match s_dial s with After d _ => Z.max 0 d | Never => 0 end.
Definition t_written (s : script) : Z :=
  t_connected s + match s_write s with After d _ => Z.max 0 d | Never => 0 end.

(* without cancellation, scan is this closed form *)
Lemma scan_closed_form p t_dial t_data ip port s :
  dial_connects_b t_dial (s_dial s) = true -> s_linger s = true ->
  write_succeeds_b t_data (s_write s) = true ->
  scan p t_dial t_data None ip port s =
    match read_full (p_reply_len p) None t_data (p_reply_len p) [] (s_reads s) (t_written s) 0 with
    | RfFuel => mk OutOfFuel (t_written s) (Some (greeting p)) 0
    | RfHang n => mk Hang (t_written s) (Some (greeting p)) n
    | RfErr e t n => mk (Error e) t (Some (greeting p)) n
    | RfDone reply t n =>
        if accepts p reply then mk (Report ip port (p_result_version p)) t (Some (greeting p)) n
        else mk Nothing t (Some (greeting p)) n
    end.
Proof.
  intros Hd Hl Hw. unfold scan, write_stage, read_stage, t_written, t_connected.
  destruct (s_dial s) as [d [| |]|]; cbn in Hd; try discriminate.
  destruct (s_write s) as [dw [|]|]; cbn in Hw; try discriminate.
  rewrite Hl. cbn [negb sched_due wait]. unfold dial_limit, data_limit, natural.
  apply Z.ltb_lt in Hw.
  assert (Hw' : (Z.max 0 dw <? Z.max 0 t_data) = true) by (apply Z.ltb_lt; exact Hw).
  destruct (t_dial =? 0) eqn:E0.
  - rewrite Hw'. replace (0 + Z.max 0 d) with (Z.max 0 d) by lia. reflexivity.
  - cbn in Hd. rewrite Hd, Hw'. replace (0 + Z.max 0 d) with (Z.max 0 d) by lia. reflexivity.
Qed.

Definition is_report (o : outcome) : bool := match o with Report _ _ _ => true | _ => false end.

(* if one of the three preconditions fails, nothing is ever reported, with or without cancellation *)
Lemma scan_no_report p t_dial t_data cancel ip port s :
  dial_connects_b t_dial (s_dial s) && s_linger s && write_succeeds_b t_data (s_write s) = false ->
  is_report (r_out (scan p t_dial t_data cancel ip port s)) = false.
Proof.
  intros H. unfold scan, write_stage, read_stage.
  destruct (wait 0 cancel (dial_limit t_dial) (sched_due (s_dial s))) as [t0|t0|t0|] eqn:Ed; try reflexivity.
  destruct (s_dial s) as [d [| |]|] eqn:Es; try reflexivity.
  destruct (s_linger s) eqn:El; [|reflexivity]. cbn [negb].
  destruct (wait t0 cancel (data_limit t_data) (sched_due (s_write s))) as [t1|t1|t1|] eqn:Ew; try reflexivity.
  destruct (s_write s) as [dw [|]|] eqn:Esw; try reflexivity.
  exfalso.
  (* both waits fired: so both were in time *)
  assert (Hd : dial_connects_b t_dial (After d DConnected) = true).
  { cbn. cbn in Ed. unfold dial_limit in *. destruct (t_dial =? 0); [reflexivity|]. cbn.
    destruct cancel as [tc|]; unfold wait, natural in Ed.
    - destruct (tc <=? 0); [discriminate|].
      destruct (Z.max 0 d <? Z.max 0 t_dial); [reflexivity|].
      destruct (tc <? 0 + Z.max 0 t_dial); discriminate.
    - destruct (Z.max 0 d <? Z.max 0 t_dial); [reflexivity|discriminate]. }
  assert (Hw : write_succeeds_b t_data (After dw WOk) = true).
  { cbn. cbn in Ew. unfold data_limit in *.
    destruct cancel as [tc|]; unfold wait, natural in Ew.
    - destruct (tc <=? t0); [discriminate|].
      destruct (Z.max 0 dw <? Z.max 0 t_data); [reflexivity|].
      destruct (tc <? t0 + Z.max 0 t_data); discriminate.
    - destruct (Z.max 0 dw <? Z.max 0 t_data); [reflexivity|discriminate]. }
  rewrite Hd, Hw in H. discriminate.
Qed.

Definition is_answer (o : outcome) : bool := match o with Report _ _ _ | Nothing => true | _ => false end.

(* ... nor does the probe get as far as judging a reply *)
Lemma scan_no_answer p t_dial t_data cancel ip port s :
  dial_connects_b t_dial (s_dial s) && s_linger s && write_succeeds_b t_data (s_write s) = false ->
  is_answer (r_out (scan p t_dial t_data cancel ip port s)) = false.
Proof.
  intros H. unfold scan, write_stage, read_stage.
  destruct (wait 0 cancel (dial_limit t_dial) (sched_due (s_dial s))) as [t0|t0|t0|] eqn:Ed; try reflexivity.
  destruct (s_dial s) as [d [| |]|] eqn:Es; try reflexivity.
  destruct (s_linger s) eqn:El; [|reflexivity]. cbn [negb].
  destruct (wait t0 cancel (data_limit t_data) (sched_due (s_write s))) as [t1|t1|t1|] eqn:Ew; try reflexivity.
  destruct (s_write s) as [dw [|]|] eqn:Esw; try reflexivity.
  exfalso.
  (* both waits fired: so both were in time *)
  assert (Hd : dial_connects_b t_dial (After d DConnected) = true).
  { cbn. cbn in Ed. unfold dial_limit in *. destruct (t_dial =? 0); [reflexivity|]. cbn.
    destruct cancel as [tc|]; unfold wait, natural in Ed.
    - destruct (tc <=? 0); [discriminate|].
      destruct (Z.max 0 d <? Z.max 0 t_dial); [reflexivity|].
      destruct (tc <? 0 + Z.max 0 t_dial); discriminate.
    - destruct (Z.max 0 d <? Z.max 0 t_dial); [reflexivity|discriminate]. }
  assert (Hw : write_succeeds_b t_data (After dw WOk) = true).
  { cbn. cbn in Ew. unfold data_limit in *.
    destruct cancel as [tc|]; unfold wait, natural in Ew.
    - destruct (tc <=? t0); [discriminate|].
      destruct (Z.max 0 dw <? Z.max 0 t_data); [reflexivity|].
      destruct (tc <? t0 + Z.max 0 t_data); discriminate.
    - destruct (Z.max 0 dw <? Z.max 0 t_data); [reflexivity|discriminate]. }
  rewrite Hd, Hw in H. discriminate.
Qed.

(* the decision rule, all scripts, no cancellation *)
Lemma scan_report_iff p t_dial t_data ip port s :
  let D := delivered (Z.max 0 t_data) (s_reads s) in
  r_out (scan p t_dial t_data None ip port s) = Report ip port (p_result_version p) <->
  dial_connects t_dial (s_dial s) /\ s_linger s = true /\ write_succeeds t_data (s_write s) /\
  (p_reply_len p <= length D)%nat /\ accepts p (firstn (p_reply_len p) D) = true.
Proof.
  cbv zeta. rewrite <- dial_connects_iff, <- write_succeeds_iff.
  destruct (dial_connects_b t_dial (s_dial s) && s_linger s && write_succeeds_b t_data (s_write s)) eqn:E.
  - apply andb_true_iff in E. destruct E as [E Hw]. apply andb_true_iff in E. destruct E as [Hd Hl].
    rewrite (scan_closed_form p t_dial t_data ip port s Hd Hl Hw).
    pose proof (read_full_delivered (p_reply_len p) t_data (p_reply_len p) [] (s_reads s) (t_written s) 0
                  (Nat.le_refl _)) as HD. cbv zeta in HD.
    destruct (p_reply_len p <=? length (delivered (Z.max 0 t_data) (s_reads s)))%nat eqn:EL.
    + destruct HD as [t [n ->]]. cbn [app]. apply Nat.leb_le in EL.
      destruct (accepts p (firstn (p_reply_len p) (delivered (Z.max 0 t_data) (s_reads s)))) eqn:EA; cbn.
      * split; [intros _; auto|reflexivity].
      * split; [discriminate|]. intros [_ [_ [_ [_ H]]]]. discriminate.
    + destruct HD as [e [t [n ->]]]. cbn. apply Nat.leb_gt in EL.
      split; [discriminate|]. intros [_ [_ [_ [H _]]]]. lia.
  - pose proof (scan_no_report p t_dial t_data None ip port s E) as Hn.
    split.
    + intros H. rewrite H in Hn. discriminate.
    + intros [Hd [Hl [Hw _]]]. rewrite Hd, Hl, Hw in E. discriminate.
Qed.

(* "no record, no error" happens exactly when a complete reply arrived and it is not the accepted one *)
Lemma scan_nothing_iff p t_dial t_data ip port s :
  let D := delivered (Z.max 0 t_data) (s_reads s) in
  r_out (scan p t_dial t_data None ip port s) = Nothing <->
  dial_connects t_dial (s_dial s) /\ s_linger s = true /\ write_succeeds t_data (s_write s) /\
  (p_reply_len p <= length D)%nat /\ accepts p (firstn (p_reply_len p) D) = false.
Proof.
  cbv zeta. rewrite <- dial_connects_iff, <- write_succeeds_iff.
  destruct (dial_connects_b t_dial (s_dial s) && s_linger s && write_succeeds_b t_data (s_write s)) eqn:E.
  - apply andb_true_iff in E. destruct E as [E Hw]. apply andb_true_iff in E. destruct E as [Hd Hl].
    rewrite (scan_closed_form p t_dial t_data ip port s Hd Hl Hw).
    pose proof (read_full_delivered (p_reply_len p) t_data (p_reply_len p) [] (s_reads s) (t_written s) 0
                  (Nat.le_refl _)) as HD. cbv zeta in HD.
    destruct (p_reply_len p <=? length (delivered (Z.max 0 t_data) (s_reads s)))%nat eqn:EL.
    + destruct HD as [t [n ->]]. cbn [app]. apply Nat.leb_le in EL.
      destruct (accepts p (firstn (p_reply_len p) (delivered (Z.max 0 t_data) (s_reads s)))) eqn:EA; cbn.
      * split; [discriminate|]. intros [_ [_ [_ [_ H]]]]. discriminate.
      * split; [intros _; auto|reflexivity].
    + destruct HD as [e [t [n ->]]]. cbn. apply Nat.leb_gt in EL.
      split; [discriminate|]. intros [_ [_ [_ [H _]]]]. lia.
  - pose proof (scan_no_answer p t_dial t_data None ip port s E) as Hn.
    split.
    + intros H. rewrite H in Hn. discriminate.
    + intros [Hd [Hl [Hw _]]]. rewrite Hd, Hl, Hw in E. discriminate.
Qed.

(* whatever is reported carries the address and port of the request and the configured version *)
Lemma scan_report_fields p t_dial t_data cancel ip port s ip' port' v :
  r_out (scan p t_dial t_data cancel ip port s) = Report ip' port' v ->
  ip' = ip /\ port' = port /\ v = p_result_version p.
Proof.
  unfold scan, write_stage, read_stage.
  destruct (wait 0 cancel (dial_limit t_dial) (sched_due (s_dial s))); cbn; try discriminate.
  destruct (s_dial s) as [d [| |]|]; cbn; try discriminate.
  destruct (negb (s_linger s)); cbn; try discriminate.
  destruct (wait t cancel (data_limit t_data) (sched_due (s_write s))); cbn; try discriminate.
  destruct (s_write s) as [dw [|]|]; cbn; try discriminate.
  destruct (read_full _ _ _ _ _ _ _ _); cbn; try discriminate.
  destruct (accepts p bytes); cbn; try discriminate.
  intros H. injection H as <- <- <-. auto.
Qed.

(* a successful write hands exactly the greeting to the connection; a report implies it *)
Lemma scan_sent p t_dial t_data cancel ip port s l :
  r_sent (scan p t_dial t_data cancel ip port s) = Some l -> l = greeting p.
Proof.
  unfold scan, write_stage, read_stage.
  destruct (wait 0 cancel (dial_limit t_dial) (sched_due (s_dial s))); cbn; try discriminate.
  destruct (s_dial s) as [d [| |]|]; cbn; try discriminate.
  destruct (negb (s_linger s)); cbn; try discriminate.
  destruct (wait t cancel (data_limit t_data) (sched_due (s_write s))); cbn; try discriminate.
  destruct (s_write s) as [dw [|]|]; cbn; try discriminate.
  destruct (read_full _ _ _ _ _ _ _ _); cbn; try (intros H; injection H as <-; reflexivity).
  destruct (accepts p bytes); cbn; intros H; injection H as <-; reflexivity.
Qed.

Lemma scan_report_sent p t_dial t_data cancel ip port s :
  is_report (r_out (scan p t_dial t_data cancel ip port s)) = true ->
  r_sent (scan p t_dial t_data cancel ip port s) = Some (greeting p).
Proof.
  unfold scan, write_stage, read_stage.
  destruct (wait 0 cancel (dial_limit t_dial) (sched_due (s_dial s))); cbn; try discriminate.
  destruct (s_dial s) as [d [| |]|]; cbn; try discriminate.
  destruct (negb (s_linger s)); cbn; try discriminate.
  destruct (wait t cancel (data_limit t_data) (sched_due (s_write s))); cbn; try discriminate.
  destruct (s_write s) as [dw [|]|]; cbn; try discriminate.
  destruct (read_full _ _ _ _ _ _ _ _); cbn; try discriminate.
  destruct (accepts p bytes); cbn; try discriminate. reflexivity.
Qed.

(* ---------------------------------------------------------------- scan: time bound, all scripts,
   with or without cancellation *)
Ltac fin_time :=
  cbn [r_out r_fin r_reads r_sent mk];
  repeat split; try discriminate; try lia;
  try (match goal with |- context [Z.of_nat ?n * Z.max 0 ?t] => idtac | |- context [(1 + Z.of_nat ?n) * Z.max 0 ?t] => idtac end;
       repeat match goal with
       | |- context [Z.max 0 ?t] => let m := fresh "m" in set (m := Z.max 0 t) in *; assert (0 <= m) by (subst m; lia); clearbody m
       end;
       repeat match goal with
       | |- context [Z.of_nat ?n] => let k := fresh "k" in set (k := Z.of_nat n) in *; assert (0 <= k) by (subst k; lia); clearbody k
       end; nia).

Lemma scan_time p t_dial t_data cancel ip port s :
  t_dial <> 0 ->
  let r := scan p t_dial t_data cancel ip port s in
  r_out r <> Hang /\ r_out r <> OutOfFuel /\
  0 <= r_fin r <= Z.max 0 t_dial + (1 + Z.of_nat (p_reply_len p)) * Z.max 0 t_data /\
  (r_reads r <= p_reply_len p)%nat.
Proof.
  intros Hd. cbv zeta. unfold scan, write_stage, read_stage.
  assert (Hlim : dial_limit t_dial = Some (Z.max 0 t_dial)).
  { unfold dial_limit. destruct (t_dial =? 0) eqn:E; [apply Z.eqb_eq in E; congruence|reflexivity]. }
  rewrite Hlim.
  assert (H0 : 0 <= Z.max 0 t_dial) by lia. assert (H1 : 0 <= Z.max 0 t_data) by lia.
  destruct (wait_bounds 0 cancel (Z.max 0 t_dial) (sched_due (s_dial s)) H0) as [Hf Hb].
  destruct (wait 0 cancel (Some (Z.max 0 t_dial)) (sched_due (s_dial s))) as [t0|t0|t0|] eqn:Ed;
    cbn in Hb; [| | |congruence]; try solve [fin_time].
  destruct (s_dial s) as [d [| |]|] eqn:Es; try solve [fin_time].
  2:{ (* Fired without an event: impossible *)
      exfalso. cbn in Ed. destruct cancel as [tc|]; unfold wait, natural in Ed.
      - destruct (tc <=? 0); [discriminate|]. destruct (tc <? 0 + Z.max 0 t_dial); discriminate.
      - discriminate. }
  destruct (negb (s_linger s)); [fin_time|].
  unfold data_limit.
  destruct (wait_bounds t0 cancel (Z.max 0 t_data) (sched_due (s_write s)) H1) as [Hf1 Hb1].
  destruct (wait t0 cancel (Some (Z.max 0 t_data)) (sched_due (s_write s))) as [t1|t1|t1|] eqn:Ew;
    cbn in Hb1; [| | |congruence]; try solve [fin_time].
  destruct (s_write s) as [dw [|]|] eqn:Esw; try solve [fin_time].
  2:{ exfalso. cbn in Ew. destruct cancel as [tc|]; unfold wait, natural in Ew.
      - destruct (tc <=? t0); [discriminate|]. destruct (tc <? t0 + Z.max 0 t_data); discriminate.
      - discriminate. }
  pose proof (read_full_bounds (p_reply_len p) cancel t_data (p_reply_len p) [] (s_reads s) t1 0%nat
                (Nat.le_refl _)) as HR. cbv zeta in HR. destruct HR as [R1 [R2 [R3 R4]]].
  destruct (read_full (p_reply_len p) cancel t_data (p_reply_len p) [] (s_reads s) t1 0) as [bs t n|e t n|n|];
    cbn [rf_calls rf_time] in *; try congruence.
  - replace (n - 0)%nat with n in R4 by lia.
    assert (Z.of_nat n * Z.max 0 t_data <= Z.of_nat (p_reply_len p) * Z.max 0 t_data)
      by (apply Z.mul_le_mono_nonneg_r; lia).
    destruct (accepts p bs); cbn [r_out r_fin r_reads mk]; repeat split; try discriminate; lia.
  - replace (n - 0)%nat with n in R4 by lia.
    assert (Z.of_nat n * Z.max 0 t_data <= Z.of_nat (p_reply_len p) * Z.max 0 t_data)
      by (apply Z.mul_le_mono_nonneg_r; lia).
    cbn [r_out r_fin r_reads mk]; repeat split; try discriminate; lia.
Qed.

(* the fuelled ReadFull loop never runs out of fuel, whatever the timeouts *)
Lemma scan_total p t_dial t_data cancel ip port s :
  r_out (scan p t_dial t_data cancel ip port s) <> OutOfFuel.
Proof.
  unfold scan, write_stage, read_stage.
  destruct (wait 0 cancel (dial_limit t_dial) (sched_due (s_dial s))); try discriminate.
  destruct (s_dial s) as [d [| |]|]; try discriminate.
  destruct (negb (s_linger s)); try discriminate.
  destruct (wait t cancel (data_limit t_data) (sched_due (s_write s))); try discriminate.
  destruct (s_write s) as [dw [|]|]; try discriminate.
  pose proof (read_full_bounds (p_reply_len p) cancel t_data (p_reply_len p) []
                (s_reads s) t0 0%nat (Nat.le_refl _)) as HB. cbv zeta in HB. destruct HB as [HB _].
  destruct (read_full _ _ _ _ _ _ _ _); try discriminate; try congruence.
  destruct (accepts p bytes); discriminate.
Qed.

(* ---------------------------------------------------------------- scan: cancellation *)
(* (a) with a cancellation at tc the probe ends by max(0, tc), whatever the timeouts (even none) *)
Lemma read_full_cancel_bound fuel : forall tc t_data want got evs now calls,
  (want <= fuel)%nat -> now <= Z.max 0 tc ->
  rf_time now (read_full fuel (Some tc) t_data want got evs now calls) <= Z.max 0 tc.
Proof.
  induction fuel as [|fuel IH]; intros tc t_data want got evs now calls Hw Hn.
  - assert (want = O) by lia. subst. cbn. exact Hn.
  - destruct want as [|w]; [cbn; exact Hn|]. cbn [read_full].
    destruct (read_call (Some tc) t_data (S w) evs now) as [l rest t|e t|] eqn:E; cbn [rf_time]; try lia.
    + pose proof (read_call_bytes_nonempty _ _ _ _ _ _ _ _ E) as Hl.
      assert (Ht : t <= Z.max 0 tc).
      { unfold read_call in E.
        destruct (wait_cancel_bound now tc (data_limit t_data)
                    match evs with [] => None | (d, _) :: _ => Some d end (data_limit_ok _)) as [_ Hb].
        destruct (wait now (Some tc) (data_limit t_data) _) as [t'|t'|t'|]; try discriminate.
        cbn in Hb. destruct evs as [|[d [b r| |]] rest']; try discriminate.
        injection E as _ _ <-. lia. }
      specialize (IH tc t_data (S w - length l)%nat (got ++ l) rest t (S calls)).
      assert (Hw' : (S w - length l <= fuel)%nat) by lia. specialize (IH Hw' Ht).
      destruct (read_full fuel (Some tc) t_data (S w - length l) (got ++ l) rest t (S calls)); cbn [rf_time] in *; lia.
    + unfold read_call in E.
      destruct (wait_cancel_bound now tc (data_limit t_data)
                  match evs with [] => None | (d, _) :: _ => Some d end (data_limit_ok _)) as [_ Hb].
      destruct (wait now (Some tc) (data_limit t_data) _) as [t'|t'|t'|]; try discriminate; cbn in Hb.
      * destruct evs as [|[d [b r| |]] rest']; try discriminate; injection E as _ <-; lia.
      * injection E as _ <-. lia.
      * injection E as _ <-. lia.
Qed.

Lemma scan_cancel_bound p t_dial t_data tc ip port s :
  let r := scan p t_dial t_data (Some tc) ip port s in
  r_out r <> Hang /\ r_fin r <= Z.max 0 tc.
Proof.
  cbv zeta. unfold scan, write_stage, read_stage.
  destruct (wait_cancel_bound 0 tc (dial_limit t_dial) (sched_due (s_dial s)) (dial_limit_ok _)) as [Hf Hb].
  destruct (wait 0 (Some tc) (dial_limit t_dial) (sched_due (s_dial s))) as [t0|t0|t0|] eqn:Ed;
    cbn in Hb; [| | |congruence]; try (cbn; split; [discriminate|lia]).
  destruct (s_dial s) as [d [| |]|] eqn:Es; try (cbn; split; [discriminate|lia]).
  2:{ exfalso. exact (wait_never_fires _ _ _ _ Ed). }
  destruct (negb (s_linger s)); [cbn; split; [discriminate|lia]|].
  destruct (wait_cancel_bound t0 tc (data_limit t_data) (sched_due (s_write s)) (data_limit_ok _)) as [Hf1 Hb1].
  destruct (wait t0 (Some tc) (data_limit t_data) (sched_due (s_write s))) as [t1|t1|t1|] eqn:Ew;
    cbn in Hb1; [| | |congruence]; try (cbn; split; [discriminate|lia]).
  destruct (s_write s) as [dw [|]|] eqn:Esw; try (cbn; split; [discriminate|lia]).
  2:{ exfalso. exact (wait_never_fires _ _ _ _ Ew). }
  assert (Ht1 : t1 <= Z.max 0 tc) by lia.
  pose proof (read_full_cancel_bound (p_reply_len p) tc t_data (p_reply_len p) [] (s_reads s) t1 0%nat
                (Nat.le_refl _) Ht1) as HR.
  pose proof (read_full_bounds (p_reply_len p) (Some tc) t_data (p_reply_len p) [] (s_reads s) t1 0%nat
                (Nat.le_refl _)) as HB. cbv zeta in HB. destruct HB as [B1 [B2 _]].
  destruct (read_full (p_reply_len p) (Some tc) t_data (p_reply_len p) [] (s_reads s) t1 0) as [bs t n|e t n|n|];
    cbn in *; try congruence.
  - destruct (accepts p bs); cbn; split; try discriminate; lia.
  - split; [discriminate|lia].
Qed.

(* (b) cancellation never fabricates anything: the cancelled run is the uncancelled one or ends
   with the cancellation error *)
Lemma scan_cancel_cases p t_dial t_data tc ip port s :
  r_out (scan p t_dial t_data (Some tc) ip port s) = r_out (scan p t_dial t_data None ip port s) \/
  r_out (scan p t_dial t_data (Some tc) ip port s) = Error ECancelled.
Proof.
  unfold scan, write_stage, read_stage.
  destruct (wait_cancel_cases 0 tc (dial_limit t_dial) (sched_due (s_dial s))) as [->|[t ->]];
    [|right; reflexivity].
  rewrite wait_none.
  destruct (natural 0 (dial_limit t_dial) (sched_due (s_dial s))) as [t0|t0|t0|]; try (left; reflexivity).
  destruct (s_dial s) as [d [| |]|]; try (left; reflexivity).
  destruct (negb (s_linger s)); [left; reflexivity|].
  destruct (wait_cancel_cases t0 tc (data_limit t_data) (sched_due (s_write s))) as [->|[t ->]];
    [|right; reflexivity].
  rewrite wait_none.
  destruct (natural t0 (data_limit t_data) (sched_due (s_write s))) as [t1|t1|t1|]; try (left; reflexivity).
  destruct (s_write s) as [dw [|]|]; try (left; reflexivity).
  destruct (read_full_cancel_cases (p_reply_len p) tc t_data (p_reply_len p) [] (s_reads s) t1 0)
    as [->|[t [n ->]]]; [left; reflexivity|right; reflexivity].
Qed.

(* (c) a cancellation strictly after the uncancelled probe's end changes nothing *)
Lemma read_call_late_cancel tc t_data want evs now :
  rd_time now (read_call None t_data want evs now) < tc ->
  read_call (Some tc) t_data want evs now = read_call None t_data want evs now.
Proof.
  unfold read_call. rewrite wait_none.
  set (due := match evs with [] => None | (d, _) :: _ => Some d end).
  intros H.
  assert (Hf : natural now (data_limit t_data) due <> Forever).
  { apply (natural_bounds now (Z.max 0 t_data) due). lia. }
  rewrite (wait_late_cancel now tc (data_limit t_data) due (data_limit_ok _) Hf (natural_not_cancelled _ _ _)); [reflexivity|].
  destruct (natural now (data_limit t_data) due) as [t|t|t|] eqn:E; cbn in *; try lia; try congruence.
  destruct evs as [|[d [b r| |]] rest]; cbn in H; try lia.
  subst due. cbn in E. discriminate.
Qed.

Lemma read_full_mono fuel : forall cancel t_data want got evs now calls,
  now <= rf_time now (read_full fuel cancel t_data want got evs now calls).
Proof.
  induction fuel as [|fuel IH]; intros; destruct want as [|w]; cbn [read_full rf_time]; try lia.
  destruct (read_call_bounds cancel t_data (S w) evs now) as [_ Hb].
  destruct (read_call cancel t_data (S w) evs now) as [l rest t|e t|]; cbn [rf_time rd_time] in *; try lia.
  specialize (IH cancel t_data (S w - length l)%nat (got ++ l) rest t (S calls)).
  destruct (read_full fuel cancel t_data (S w - length l) (got ++ l) rest t (S calls)); cbn [rf_time] in *; lia.
Qed.

Lemma read_full_late_cancel fuel : forall tc t_data want got evs now calls,
  (want <= fuel)%nat ->
  rf_time now (read_full fuel None t_data want got evs now calls) < tc ->
  read_full fuel (Some tc) t_data want got evs now calls = read_full fuel None t_data want got evs now calls.
Proof.
  induction fuel as [|fuel IH]; intros tc t_data want got evs now calls Hw Ht.
  - destruct want; reflexivity.
  - destruct want as [|w]; [reflexivity|]. cbn [read_full] in *.
    destruct (read_call_bounds None t_data (S w) evs now) as [Hh Hb].
    destruct (read_call None t_data (S w) evs now) as [l rest t|e t|] eqn:E; [| |congruence].
    + pose proof (read_call_bytes_nonempty _ _ _ _ _ _ _ _ E) as Hl.
      pose proof (read_full_mono fuel None t_data (S w - length l)%nat (got ++ l) rest t (S calls)) as Hm.
      pose proof (read_full_bounds fuel None t_data (S w - length l)%nat (got ++ l) rest t (S calls)) as HB.
      cbv zeta in HB. destruct HB as [HB1 [HB2 _]]; [lia|].
      assert (Hrt : rf_time t (read_full fuel None t_data (S w - length l) (got ++ l) rest t (S calls)) < tc /\ t < tc).
      { destruct (read_full fuel None t_data (S w - length l) (got ++ l) rest t (S calls)) as [bs t' n|e' t' n|n|];
          cbn [rf_time] in *; [split; lia|split; lia|exfalso; exact (HB2 n eq_refl)|congruence]. }
      destruct Hrt as [Hr1 Hr2].
      assert (Hlt : rd_time now (read_call None t_data (S w) evs now) < tc) by (rewrite E; exact Hr2).
      rewrite (read_call_late_cancel tc t_data (S w) evs now Hlt), E.
      apply IH; [lia|exact Hr1].
    + assert (Hlt : rd_time now (read_call None t_data (S w) evs now) < tc) by (rewrite E; exact Ht).
      rewrite (read_call_late_cancel tc t_data (S w) evs now Hlt), E. reflexivity.
Qed.

Lemma read_stage_late_cancel p t_data tc ip port s t1 :
  r_out (read_stage p t_data None ip port s t1) <> Hang ->
  r_fin (read_stage p t_data None ip port s t1) < tc ->
  read_stage p t_data (Some tc) ip port s t1 = read_stage p t_data None ip port s t1.
Proof.
  unfold read_stage.
  pose proof (read_full_late_cancel (p_reply_len p) tc t_data (p_reply_len p) [] (s_reads s) t1 0%nat
                (Nat.le_refl _)) as HL.
  destruct (read_full (p_reply_len p) None t_data (p_reply_len p) [] (s_reads s) t1 0) as [bs t n|e t n|n|];
    cbn [rf_time] in HL.
  - intros _ Ht. rewrite HL; [reflexivity|]. destruct (accepts p bs); exact Ht.
  - intros _ Ht. rewrite HL; [reflexivity|exact Ht].
  - cbn. congruence.
  - intros _ Ht. rewrite HL; [reflexivity|exact Ht].
Qed.

Lemma read_stage_mono p t_data cancel ip port s t1 :
  t1 <= r_fin (read_stage p t_data cancel ip port s t1).
Proof.
  unfold read_stage.
  pose proof (read_full_mono (p_reply_len p) cancel t_data (p_reply_len p) [] (s_reads s) t1 0%nat) as Hm.
  destruct (read_full (p_reply_len p) cancel t_data (p_reply_len p) [] (s_reads s) t1 0) as [bs t n|e t n|n|];
    cbn [rf_time] in Hm; try (destruct (accepts p bs)); cbn; lia.
Qed.

Lemma write_stage_late_cancel p t_data tc ip port s t0 :
  r_out (write_stage p t_data None ip port s t0) <> Hang ->
  r_fin (write_stage p t_data None ip port s t0) < tc ->
  write_stage p t_data (Some tc) ip port s t0 = write_stage p t_data None ip port s t0.
Proof.
  unfold write_stage. rewrite wait_none.
  pose proof (natural_mono t0 (data_limit t_data) (sched_due (s_write s)) (data_limit_ok _)) as Hm.
  pose proof (wait_late_cancel t0 tc (data_limit t_data) (sched_due (s_write s)) (data_limit_ok _)) as HL.
  pose proof (natural_not_cancelled t0 (data_limit t_data) (sched_due (s_write s))) as Hnc.
  destruct (natural t0 (data_limit t_data) (sched_due (s_write s))) as [t1|t1|t1|]; cbn [wr_time] in *.
  - assert (HL' : t1 < tc -> wait t0 (Some tc) (data_limit t_data) (sched_due (s_write s)) = Fired t1).
    { intros H. apply HL; [discriminate|exact Hnc|exact H]. }
    destruct (s_write s) as [dw [|]|].
    + intros Hh Ht. pose proof (read_stage_mono p t_data None ip port s t1) as Hm1.
      rewrite HL' by lia. apply read_stage_late_cancel; assumption.
    + cbn [r_out r_fin mk]. intros _ Ht. rewrite HL' by lia. reflexivity.
    + cbn. congruence.
  - cbn [r_out r_fin mk]. intros _ Ht. rewrite HL; [reflexivity|discriminate|exact Hnc|exact Ht].
  - exfalso. exact (Hnc t1 eq_refl).
  - cbn. congruence.
Qed.

Lemma write_stage_mono p t_data cancel ip port s t0 :
  t0 <= r_fin (write_stage p t_data cancel ip port s t0).
Proof.
  unfold write_stage.
  assert (H1 : 0 <= Z.max 0 t_data) by lia.
  destruct (wait_bounds t0 cancel (Z.max 0 t_data) (sched_due (s_write s)) H1) as [_ Hb].
  unfold data_limit.
  destruct (wait t0 cancel (Some (Z.max 0 t_data)) (sched_due (s_write s))) as [t1|t1|t1|]; cbn in *; try lia.
  destruct (s_write s) as [dw [|]|]; cbn; try lia.
  pose proof (read_stage_mono p t_data cancel ip port s t1). lia.
Qed.

Lemma scan_late_cancel p t_dial t_data tc ip port s :
  r_out (scan p t_dial t_data None ip port s) <> Hang ->
  r_fin (scan p t_dial t_data None ip port s) < tc ->
  scan p t_dial t_data (Some tc) ip port s = scan p t_dial t_data None ip port s.
Proof.
  unfold scan. rewrite wait_none.
  pose proof (natural_mono 0 (dial_limit t_dial) (sched_due (s_dial s)) (dial_limit_ok _)) as Hm.
  pose proof (wait_late_cancel 0 tc (dial_limit t_dial) (sched_due (s_dial s)) (dial_limit_ok _)) as HL.
  pose proof (natural_not_cancelled 0 (dial_limit t_dial) (sched_due (s_dial s))) as Hnc.
  destruct (natural 0 (dial_limit t_dial) (sched_due (s_dial s))) as [t0|t0|t0|]; cbn [wr_time] in *.
  - assert (HL' : t0 < tc -> wait 0 (Some tc) (dial_limit t_dial) (sched_due (s_dial s)) = Fired t0).
    { intros H. apply HL; [discriminate|exact Hnc|exact H]. }
    destruct (s_dial s) as [d [| |]|].
    + destruct (negb (s_linger s)).
      * cbn [r_out r_fin mk]. intros _ Ht. rewrite HL' by lia. reflexivity.
      * intros Hh Ht. pose proof (write_stage_mono p t_data None ip port s t0) as Hm1.
        rewrite HL' by lia. apply write_stage_late_cancel; assumption.
    + cbn [r_out r_fin mk]. intros _ Ht. rewrite HL' by lia. reflexivity.
    + cbn [r_out r_fin mk]. intros _ Ht. rewrite HL' by lia. reflexivity.
    + cbn. congruence.
  - cbn [r_out r_fin mk]. intros _ Ht. rewrite HL; [reflexivity|discriminate|exact Hnc|exact Ht].
  - exfalso. exact (Hnc t0 eq_refl).
  - cbn. congruence.
Qed.

(* ---------------------------------------------------------------- the reply test in terms of the first two bytes *)
Lemma accepts_first_two p (D : list Z) :
  p_reply_len p = 2%nat ->
  ((p_reply_len p <= length D)%nat /\ accepts p (firstn (p_reply_len p) D) = true) <->
  firstn 2 D = [p_accept_ver p; p_accept_method p].
Proof.
  intros ->. destruct D as [|a [|b D]]; cbn.
  - split; [intros [H _]; lia|discriminate].
  - split; [intros [H _]; lia|discriminate].
  - split.
    + intros [_ H]. apply andb_true_iff in H. destruct H as [H1 H2].
      apply Z.eqb_eq in H1, H2. subst. reflexivity.
    + intros H. injection H as -> ->. split; [lia|]. rewrite !Z.eqb_refl. reflexivity.
Qed.

(* with a dial timeout of 0 (= none for net.Dialer) no bound in terms of the configured timeouts exists:
   the connection attempt lasts as long as the network lets it *)
Lemma scan_zero_dial_unbounded p t_data ip port (B : Z) :
  exists s, B < r_fin (scan p 0 t_data None ip port s).
Proof.
  exists {| s_dial := After (Z.max 0 B + 1) DRefused; s_linger := true; s_write := Never; s_reads := [] |}.
  unfold scan. cbn [s_dial sched_due]. unfold dial_limit. cbn [Z.eqb]. unfold wait, natural. cbn [r_fin mk]. lia.
Qed.
