(* Lemmas about Model/Decode.v: lengths of take/drop, the option loops and the parser loop never run
   out of fuel, every DecodeFromBytes is a function of the bytes alone except for the fields it
   leaves untouched, inversion of the parser loop. *)
From Coq Require Import ZArith List Bool Lia.
From SX Require Import Base.Bytes Model.Decode.
Import ListNotations.
Open Scope Z_scope.

(* ------------------------------------------------------------------ take / drop *)
Lemma Zlength_nonneg (l : bytes) : 0 <= Zlength l.
Proof. rewrite Zlength_correct. apply Nat2Z.is_nonneg. Qed.

Lemma Zlength_take n l : Zlength (take n l) = Z.min (Z.max 0 n) (Zlength l).
Proof.
  revert n. induction l as [|x l IH]; intros n; cbn [take].
  - rewrite Zlength_nil. lia.
  - destruct (Z.leb_spec n 0).
    + rewrite Zlength_nil, Zlength_cons. pose proof (Zlength_nonneg l). lia.
    + rewrite !Zlength_cons, IH. pose proof (Zlength_nonneg l). lia.
Qed.

Lemma Zlength_drop n l : Zlength (drop n l) = Zlength l - Z.min (Z.max 0 n) (Zlength l).
Proof.
  revert n. induction l as [|x l IH]; intros n; cbn [drop].
  - rewrite Zlength_nil. lia.
  - destruct (Z.leb_spec n 0).
    + rewrite Zlength_cons. pose proof (Zlength_nonneg l). lia.
    + rewrite IH, Zlength_cons. pose proof (Zlength_nonneg l). lia.
Qed.

Lemma Zlength_pos_cons (l : bytes) : l <> [] -> 0 < Zlength l.
Proof. destruct l; [congruence|]. intros _. rewrite Zlength_cons. pose proof (Zlength_nonneg l). lia. Qed.

Lemma Zlength_length (l : bytes) : Zlength l = Z.of_nat (length l).
Proof. apply Zlength_correct. Qed.

(* ------------------------------------------------------------------ option loops: fuel suffices *)
Lemma ip_opts_fuel fuel : forall d, Zlength d < Z.of_nat fuel -> ip_opts fuel d <> Some EFuel.
Proof.
  induction fuel as [|fuel IH]; intros d Hd.
  - pose proof (Zlength_nonneg d). lia.
  - cbn [ip_opts]. destruct d as [|t d']; [discriminate|].
    destruct (t =? 0); [discriminate|].
    assert (Hlen : 0 < Zlength (t :: d')) by (apply Zlength_pos_cons; discriminate).
    destruct (t =? 1).
    + apply IH. rewrite Zlength_drop. lia.
    + destruct (Zlength (t :: d') <? 2); [discriminate|].
      destruct (Zlength (t :: d') <? byte_at 1 (t :: d')); [discriminate|].
      destruct (Z.leb_spec (byte_at 1 (t :: d')) 2); [discriminate|].
      apply IH. rewrite Zlength_drop. lia.
Qed.

Lemma tcp_opts_fuel fuel : forall d, Zlength d < Z.of_nat fuel -> tcp_opts fuel d <> Some EFuel.
Proof.
  induction fuel as [|fuel IH]; intros d Hd.
  - pose proof (Zlength_nonneg d). lia.
  - cbn [tcp_opts]. destruct d as [|t d']; [discriminate|].
    destruct (t =? 0); [discriminate|].
    assert (Hlen : 0 < Zlength (t :: d')) by (apply Zlength_pos_cons; discriminate).
    destruct (t =? 1).
    + apply IH. rewrite Zlength_drop. lia.
    + destruct (Zlength (t :: d') <? 2); [discriminate|].
      destruct (Z.ltb_spec (byte_at 1 (t :: d')) 2); [discriminate|].
      destruct (Zlength (t :: d') <? byte_at 1 (t :: d')); [discriminate|].
      apply IH. rewrite Zlength_drop. lia.
Qed.

(* ------------------------------------------------------------------ one layer *)
Definition is_fuel_err (r : dres) : Prop := match r with DErr _ EFuel => True | _ => False end.

Lemma decode_layer_no_fuel t st d : t <> LOther -> ~ is_fuel_err (decode_layer t st d).
Proof.
  intros Ht. destruct t; cbn [decode_layer]; try congruence.
  - unfold decode_eth. destruct (Zlength d <? 14); [exact (fun x => x)|].
    destruct (_ <? 1536); exact (fun x => x).
  - unfold decode_ip. destruct (Zlength d <? 20); [exact (fun x => x)|].
    set (ihl := byte_at 0 d mod 16).
    assert (Hihl : 0 <= ihl < 16) by (apply Z.mod_pos_bound; lia).
    destruct (_ <? 20); [exact (fun x => x)|].
    destruct (ihl <? 5); [exact (fun x => x)|].
    destruct (_ <? ihl * 4); [exact (fun x => x)|].
    destruct (_ && _); [exact (fun x => x)|].
    match goal with |- context [ip_opts 41 ?x] => pose proof (ip_opts_fuel 41 x) as Hf; destruct (ip_opts 41 x) as [e|] end;
      [|exact (fun x => x)].
    destruct e; try exact (fun x => x). exfalso. apply Hf; [|reflexivity].
    rewrite Zlength_take. change (Z.of_nat 41) with 41. lia.
  - unfold decode_tcp. destruct (Zlength d <? 20); [exact (fun x => x)|].
    set (off := (byte_at 12 d / 16) mod 16).
    assert (Hoff : 0 <= off < 16) by (apply Z.mod_pos_bound; lia).
    destruct (off <? 5); [exact (fun x => x)|].
    destruct (_ <? off * 4); [exact (fun x => x)|].
    match goal with |- context [tcp_opts 41 ?x] => pose proof (tcp_opts_fuel 41 x) as Hf; destruct (tcp_opts 41 x) as [e|] end;
      [|exact (fun x => x)].
    destruct e; try exact (fun x => x). exfalso. apply Hf; [|reflexivity].
    rewrite Zlength_take. change (Z.of_nat 41) with 41. lia.
  - unfold decode_icmp. destruct (_ <? 8); exact (fun x => x).
  - unfold decode_arp. destruct (_ <? 8); [exact (fun x => x)|].
    destruct (_ <? u8 _); [exact (fun x => x)|].
    repeat match goal with |- context [match slice ?a ?b ?c with _ => _ end] => destruct (slice a b c) end;
      exact (fun x => x).
Qed.

(* a successful decode that names a decodable next layer (only Ethernet and IPv4 do; TCP, ICMPv4 and
   ARP are terminal) and has a non-empty payload consumed at least one byte *)
Lemma decode_layer_shrinks t st d st' next pl :
  decode_layer t st d = DOk st' next pl -> next <> LOther -> pl <> [] -> Zlength pl < Zlength d.
Proof.
  intros H Hn Hpl. apply Zlength_pos_cons in Hpl.
  destruct t; cbn [decode_layer] in H; try discriminate.
  - unfold decode_eth in H. destruct (Z.ltb_spec (Zlength d) 14); [discriminate|].
    destruct (_ <? 1536).
    + injection H as _ <- _. congruence.
    + injection H as _ _ <-. rewrite Zlength_drop in *. lia.
  - unfold decode_ip in H. destruct (Z.ltb_spec (Zlength d) 20); [discriminate|].
    set (ihl := byte_at 0 d mod 16) in *.
    destruct (_ <? 20); [discriminate|].
    destruct (Z.ltb_spec ihl 5); [discriminate|].
    destruct (_ <? ihl * 4); [discriminate|].
    destruct (_ && _); [discriminate|].
    destruct (ip_opts _ _); [discriminate|].
    injection H as _ _ <-.
    destruct (_ <? Zlength d); rewrite Zlength_drop in *; [rewrite Zlength_take in *|]; lia.
  - unfold decode_tcp in H. destruct (_ <? 20); [discriminate|].
    destruct (_ <? 5); [discriminate|]. destruct (_ <? _ * 4); [discriminate|].
    destruct (tcp_opts _ _); [discriminate|]. injection H as _ <- _. congruence.
  - unfold decode_icmp in H. destruct (_ <? 8); [discriminate|]. injection H as _ <- _. congruence.
  - unfold decode_arp in H. destruct (_ <? 8); [discriminate|].
    destruct (_ <? u8 _); [discriminate|].
    repeat match type of H with context [match slice ?a ?b ?c with _ => _ end] => destruct (slice a b c) end;
      try discriminate.
    injection H as _ <- _. congruence.
Qed.

(* ------------------------------------------------------------------ the parser loop: fuel suffices *)
Lemma decode_loop_fuel has : has LOther = false -> forall fuel t st d acc,
  t <> LOther -> Zlength d < Z.of_nat fuel ->
  snd (decode_loop has fuel t st d acc) <> Some EFuel.
Proof.
  intros Hhas. induction fuel as [|fuel IH]; intros t st d acc Ht Hd.
  - pose proof (Zlength_nonneg d). lia.
  - cbn [decode_loop]. pose proof (decode_layer_no_fuel t st d Ht) as Hnf.
    destruct (decode_layer t st d) as [st' next pl|st' e] eqn:E.
    + destruct pl as [|x pl']; [cbn; discriminate|].
      destruct (has next) eqn:Hn; [|cbn; discriminate].
      assert (Hnext : next <> LOther) by (intros ->; congruence).
      apply IH; [exact Hnext|].
      assert (Zlength (x :: pl') < Zlength d)
        by (eapply decode_layer_shrinks; [exact E|exact Hnext|discriminate]).
      lia.
    + cbn. destruct e; try discriminate. exfalso. apply Hnf. exact I.
Qed.

Lemma decode_layers_fuel has first st d :
  has LOther = false -> first <> LOther -> snd (decode_layers has first st d) <> Some EFuel.
Proof.
  intros Hh Hf. unfold decode_layers. apply decode_loop_fuel; [exact Hh|exact Hf|].
  rewrite Zlength_length. lia.
Qed.

(* ------------------------------------------------------------------ decoders are functions of the bytes *)
(* [same_layer t a b]: the decoder struct of layer type t has the same contents in a and b *)
Definition same_layer (t : ltype) (a b : dstate) : Prop :=
  match t with
  | LIPv4 => s_ip a = s_ip b
  | LTCP => s_tcp a = s_tcp b
  | LICMP => s_icmp a = s_icmp b
  | LARP => s_arp a = s_arp b
  | _ => True
  end.

Lemma same_layer_refl t a : same_layer t a a.
Proof. destruct t; cbn; reflexivity. Qed.
Lemma same_layer_sym t a b : same_layer t a b -> same_layer t b a.
Proof. destruct t; cbn; congruence. Qed.
Lemma same_layer_trans t a b c : same_layer t a b -> same_layer t b c -> same_layer t a c.
Proof. destruct t; cbn; congruence. Qed.

Lemma ltype_eq_dec (a b : ltype) : {a = b} + {a <> b}.
Proof. decide equality. Qed.

Ltac others_tac := let u := fresh "u" in let Hu := fresh "Hu" in
  intros u Hu; destruct u; cbn; try (split; reflexivity); congruence.

(* Decoding layer t from states st1 and st2: same verdict, same next type and payload, the struct
   of layer t gets the same contents, every other struct is left as it was. *)
Lemma decode_layer_indep t st1 st2 d :
  match decode_layer t st1 d, decode_layer t st2 d with
  | DOk a n p, DOk b n' p' =>
      n = n' /\ p = p' /\ same_layer t a b /\
      (forall u, u <> t -> same_layer u a st1 /\ same_layer u b st2)
  | DErr a e, DErr b e' => e = e'
  | _, _ => False
  end.
Proof.
  destruct t; cbn [decode_layer].
  - unfold decode_eth. destruct (_ <? 14); [reflexivity|].
    destruct (_ <? 1536); (split; [reflexivity|split; [reflexivity|split; [exact I|others_tac]]]).
  - unfold decode_ip. destruct (_ <? 20); [reflexivity|].
    destruct (_ <? 20); [reflexivity|]. destruct (_ <? 5); [reflexivity|].
    destruct (_ <? _ * 4); [reflexivity|]. destruct (_ && _); [reflexivity|].
    destruct (ip_opts _ _); [reflexivity|].
    split; [reflexivity|split; [reflexivity|split; [reflexivity|others_tac]]].
  - unfold decode_tcp. destruct (_ <? 20); [reflexivity|].
    destruct (_ <? 5); [reflexivity|]. destruct (_ <? _ * 4); [reflexivity|].
    destruct (tcp_opts _ _); [reflexivity|].
    split; [reflexivity|split; [reflexivity|split; [reflexivity|others_tac]]].
  - unfold decode_icmp. destruct (_ <? 8); [reflexivity|].
    split; [reflexivity|split; [reflexivity|split; [reflexivity|others_tac]]].
  - unfold decode_arp. destruct (_ <? 8); [reflexivity|].
    destruct (_ <? u8 _); [reflexivity|].
    repeat match goal with |- context [match slice ?a ?b ?c with _ => _ end] => destruct (slice a b c) end;
      try reflexivity.
    split; [reflexivity|split; [reflexivity|split; [reflexivity|others_tac]]].
  - reflexivity.
Qed.

(* [agree_on dec a b]: a and b agree on the struct of every layer type listed in dec *)
Definition agree_on (dec : list ltype) (a b : dstate) : Prop := forall t, In t dec -> same_layer t a b.

Lemma decode_loop_indep has : forall fuel t st1 st2 d acc,
  agree_on acc st1 st2 ->
  snd (fst (decode_loop has fuel t st1 d acc)) = snd (fst (decode_loop has fuel t st2 d acc)) /\
  snd (decode_loop has fuel t st1 d acc) = snd (decode_loop has fuel t st2 d acc) /\
  (snd (decode_loop has fuel t st1 d acc) = None ->
   agree_on (snd (fst (decode_loop has fuel t st1 d acc)))
            (fst (fst (decode_loop has fuel t st1 d acc))) (fst (fst (decode_loop has fuel t st2 d acc)))).
Proof.
  induction fuel as [|fuel IH]; intros t st1 st2 d acc Hag.
  - cbn. split; [reflexivity|split; [reflexivity|discriminate]].
  - cbn [decode_loop]. pose proof (decode_layer_indep t st1 st2 d) as Hi.
    destruct (decode_layer t st1 d) as [a n p|a e]; destruct (decode_layer t st2 d) as [b n' p'|b e'];
      try contradiction.
    + destruct Hi as [<- [<- [Ht Ho]]].
      assert (Hag' : agree_on (acc ++ [t]) a b).
      { intros u Hu. apply in_app_or in Hu. destruct (ltype_eq_dec u t) as [->|Hne]; [exact Ht|].
        destruct Hu as [Hu|[Hu|[]]]; [|congruence].
        destruct (Ho u Hne) as [H1 H2].
        eapply same_layer_trans; [exact H1|]. eapply same_layer_trans; [exact (Hag u Hu)|].
        apply same_layer_sym. exact H2. }
      destruct p as [|x p'].
      * cbn. split; [reflexivity|split; [reflexivity|intros _; exact Hag']].
      * destruct (has n); [apply IH; exact Hag'|].
        cbn. split; [reflexivity|split; [reflexivity|intros _; exact Hag']].
    + subst e'. cbn. split; [reflexivity|split; [reflexivity|discriminate]].
Qed.

(* ------------------------------------------------------------------ inversion of the parser loop *)
Lemma decode_loop_ok has fuel t st d acc st' dec :
  decode_loop has fuel t st d acc = (st', dec, None) ->
  exists st1 next pl, decode_layer t st d = DOk st1 next pl /\
    (((pl = [] \/ has next = false) /\ st' = st1 /\ dec = acc ++ [t]) \/
     (pl <> [] /\ has next = true /\
      exists fuel0, decode_loop has fuel0 next st1 pl (acc ++ [t]) = (st', dec, None))).
Proof.
  destruct fuel as [|fuel]; cbn [decode_loop]; [discriminate|].
  destruct (decode_layer t st d) as [st1 next pl|st1 e]; [|discriminate].
  intros H. exists st1, next, pl. split; [reflexivity|].
  destruct pl as [|x pl'].
  - injection H as <- <-. left. split; [left; reflexivity|split; reflexivity].
  - destruct (has next) eqn:Hn.
    + right. split; [discriminate|split; [reflexivity|exists fuel; exact H]].
    + injection H as <- <-. left. split; [right; reflexivity|split; reflexivity].
Qed.

Lemma decode_loop_prefix has : forall fuel t st d acc st' dec,
  decode_loop has fuel t st d acc = (st', dec, None) -> exists rest, dec = acc ++ t :: rest.
Proof.
  induction fuel as [|fuel IH]; intros t st d acc st' dec H; [discriminate|].
  cbn [decode_loop] in H.
  destruct (decode_layer t st d) as [st1 next pl|st1 e]; [|discriminate].
  destruct pl as [|x pl'].
  - injection H as _ <-. exists []. reflexivity.
  - destruct (has next).
    + apply IH in H. destruct H as [rest ->]. exists (next :: rest). rewrite <- app_assoc. reflexivity.
    + injection H as _ <-. exists []. reflexivity.
Qed.
