(* Invariants of the transition system of Model/Live.v over ALL schedules, for C19. *)
From Coq Require Import String List ZArith Bool Arith Lia.
From SX Require Import Model.Live Gen.LiveWiring Spec.C19.
Import ListNotations.
Local Open Scope Z_scope.

(* ------------------------------------------------------------------ subsequences *)
Lemma subseq_nil_l b : subseq [] b = true.
Proof. destruct b; reflexivity. Qed.

Lemma subseq_refl a : subseq a a = true.
Proof. induction a as [|x a IH]; [reflexivity|]. cbn. rewrite Nat.eqb_refl. exact IH. Qed.

Lemma subseq_app_r : forall b a c, subseq a b = true -> subseq a (b ++ c) = true.
Proof.
  induction b as [|y b IH]; intros a c H.
  - destruct a; [apply subseq_nil_l|discriminate].
  - destruct a as [|x a]; [reflexivity|]. cbn in *. destruct (Nat.eqb x y); apply IH; exact H.
Qed.

Lemma subseq_snoc : forall b a x, subseq a b = true -> subseq (a ++ [x]) (b ++ [x]) = true.
Proof.
  induction b as [|y b IH]; intros a x H.
  - destruct a; [|discriminate]. cbn. rewrite Nat.eqb_refl. reflexivity.
  - destruct a as [|z a].
    + cbn. destruct (Nat.eqb x y); [apply subseq_nil_l|]. apply (IH [] x). apply subseq_nil_l.
    + cbn in *. destruct (Nat.eqb z y); [apply IH; exact H|apply (IH (z :: a) x); exact H].
Qed.

Lemma subseq_length : forall b a, subseq a b = true -> (length a <= length b)%nat.
Proof.
  induction b as [|y b IH]; intros a H.
  - destruct a; [cbn; lia|discriminate].
  - destruct a as [|x a]; [cbn; lia|]. cbn in *. destruct (Nat.eqb x y).
    + apply IH in H. lia.
    + apply IH in H. cbn in H. lia.
Qed.

(* ------------------------------------------------------------------ the script *)
Lemma total_S : forall k script p, nth_error script k = Some p -> total (S k) script = total k script ++ pass_reqs p.
Proof.
  unfold total. induction k as [|k IH]; intros script p H.
  - destruct script as [|q script]; [discriminate|]. cbn in H. injection H as ->. cbn. rewrite app_nil_r. reflexivity.
  - destruct script as [|q script]; [discriminate|]. cbn in H. cbn [firstn flat_map].
    rewrite <- app_assoc. f_equal. apply (IH script p H).
Qed.

Lemma skipn_cons_nth {A} : forall k (l : list A) x f, skipn k l = x :: f -> nth_error l k = Some x /\ skipn (S k) l = f.
Proof.
  induction k as [|k IH]; intros l x f H.
  - destruct l; [discriminate|]. cbn in H. injection H as -> ->. split; reflexivity.
  - destruct l as [|y l]; [discriminate|]. cbn in H. apply IH in H. exact H.
Qed.

Section Inv.
Variable rescan : Z.
Variable script : list pass.

Notation lstep := (lstep rescan).
Notation run := (run rescan).

(* every EStart made while not cancelled happened when all earlier passes had been sent completely *)
Definition starts_complete (l : list levent) : Prop :=
  forall k t n ok, In (EStart k t n ok false) l -> n = length (total k script).

(* every pass but the first starts at least [rescan] after the goroutine saw the previous one end *)
Definition starts_spaced (l : list levent) : Prop :=
  forall k t' n ok c, In (EStart (S k) t' n ok c) l -> exists t, In (EEnd k t) l /\ t + rescan <= t'.

Record inv (s : lstate) : Prop := {
  i_cons : exists pre, subseq (outl s) pre = true /\
                       pre ++ inflight s ++ cur_rest s = total (calls s) script /\
                       (cancelled s = false -> pre = outl s);
  i_future : future s = skipn (calls s) script;
  i_calls : (1 <= calls s)%nat;
  i_ended : pc s = Ended -> cancelled s = true;
  i_nil : cur s = None -> pc s = AtRead \/ pc s = Ended \/ (rescan <= 0 /\ exists t, pc s = AtTimer t);
  i_timer : forall t0, pc s = AtTimer t0 -> cancelled s = false -> cur s = Some [];
  i_timer_log : 0 < rescan -> forall t0, pc s = AtTimer t0 -> In (EEnd (pred (calls s)) t0) (log s);
  i_complete : starts_complete (log s);
  i_spaced : 0 < rescan -> starts_spaced (log s) }.

Lemma inv_start : forall s0, live_start script = Started s0 -> inv s0.
Proof.
  intros s0 H. unfold live_start in H. destruct script as [|[l|] f] eqn:E; try discriminate.
  injection H as <-. constructor; cbn.
  - exists []. split; [reflexivity|]. split; [|reflexivity]. unfold total. rewrite E. cbn. rewrite app_nil_r. reflexivity.
  - rewrite E. reflexivity.
  - lia.
  - discriminate.
  - discriminate.
  - discriminate.
  - discriminate.
  - intros k t n ok [H|[]]. injection H as <- <- <- <-. reflexivity.
  - intros _ k t' n ok c [H|[]]. discriminate.
Qed.

Lemma enter_timer_cases : forall s t,
  (enter_timer rescan s t = set_pc s Ended /\ cancelled s = true /\ 0 < rescan) \/
  (enter_timer rescan s t = set_pc s (AtTimer t) /\ (cancelled s = false \/ rescan <= 0)).
Proof.
  intros s t. unfold enter_timer. destruct (cancelled s); cbn [andb].
  - destruct (Z.ltb_spec 0 rescan); [left; auto|right; split; [reflexivity|right; lia]].
  - right. split; [reflexivity|left; reflexivity].
Qed.

Ltac proj := cbn [pc cur future calls outl cancelled now log set_pc] in *.
Ltac start_inv := constructor; unfold inflight, cur_rest; proj; try assumption; try discriminate.

Lemma complete_cons_end : forall k t l, starts_complete l -> starts_complete (EEnd k t :: l).
Proof. intros k t l H k' t' n ok [HH|HH]; [discriminate|exact (H k' t' n ok HH)]. Qed.

Lemma spaced_cons_end : forall k t l, starts_spaced l -> starts_spaced (EEnd k t :: l).
Proof.
  intros k t l H k' t' n ok c [HH|HH]; [discriminate|]. destruct (H k' t' n ok c HH) as [t1 [A B]].
  exists t1. split; [right; exact A|exact B].
Qed.

Lemma inv_step : forall s m s', inv s -> lstep s m = Some s' -> inv s'.
Proof.
  intros s m s' I H. destruct I as [[pre [Hsub [Hcons Hpre]]] Hfut Hcalls Hend Hnil Htim Htlog Hcomp Hsp].
  unfold Live.lstep in H. unfold inflight, cur_rest in Hcons.
  destruct m as [| t | | t | |].
  - (* MDeliver *)
    destruct (pc s) eqn:Epc; try discriminate. destruct (cur s) as [[|r l]|] eqn:Ecur; try discriminate.
    injection H as <-. cbn [app] in Hcons. start_inv.
    exists pre. repeat split; assumption.
  - (* MEndPass *)
    destruct (pc s) eqn:Epc; try discriminate. destruct (cur s) as [[|r l]|] eqn:Ecur; try discriminate.
    destruct (now s <=? t) eqn:En; try discriminate. injection H as <-. cbn [app] in Hcons.
    match goal with |- inv (enter_timer _ ?s1 _) => destruct (enter_timer_cases s1 t) as [[E [C R]]|[E C]]; rewrite E end;
      proj; start_inv.
    + exists pre. repeat split; assumption.
    + intros _. exact C.
    + apply complete_cons_end. exact Hcomp.
    + intros R'. apply spaced_cons_end. exact (Hsp R').
    + exists pre. repeat split; assumption.
    + intros t0 _ _. reflexivity.
    + intros R' t0 HH. injection HH as <-. left. reflexivity.
    + apply complete_cons_end. exact Hcomp.
    + intros R'. apply spaced_cons_end. exact (Hsp R').
  - (* MAccept *)
    destruct (pc s) eqn:Epc; try discriminate. injection H as <-. cbn [app] in Hcons. start_inv.
    + exists (pre ++ [r]). split; [apply subseq_snoc; exact Hsub|].
      split; [rewrite <- app_assoc; exact Hcons|]. intros C. rewrite (Hpre C). reflexivity.
    + intros _. left. reflexivity.
  - (* MTick *)
    destruct (pc s) eqn:Epc; try discriminate.
    destruct ((now s <=? t) && (t0 + rescan <=? t)) eqn:Eg; try discriminate.
    apply andb_true_iff in Eg. destruct Eg as [_ Eg]. apply Z.leb_le in Eg.
    destruct (future s) as [|p f] eqn:Ef; try discriminate. injection H as <-.
    symmetry in Hfut. destruct (skipn_cons_nth _ _ _ _ Hfut) as [Hn Hs]. cbn [app] in Hcons. start_inv.
    + exists (pre ++ match cur s with Some l => l | None => [] end).
      split; [apply subseq_app_r; exact Hsub|]. rewrite (total_S _ _ _ Hn), <- Hcons.
      split; [destruct p; cbn; rewrite <- ?app_assoc, ?app_nil_r; reflexivity|].
      intros C. rewrite (Htim t0 eq_refl C). rewrite app_nil_r. apply Hpre. exact C.
    + symmetry. exact Hs.
    + lia.
    + intros _. left. reflexivity.
    + intros k t1 n ok [HH|HH]; [|exact (Hcomp k t1 n ok HH)].
      injection HH as <- <- <- <- C. rewrite <- Hcons, (Htim t0 eq_refl C), (Hpre C). rewrite app_nil_r. reflexivity.
    + intros R' k t' n ok c [HH|HH].
      * injection HH as Hk <- <- <- <-. exists t0. split; [|exact Eg]. right.
        assert (X := Htlog R' t0 eq_refl). rewrite Hk in X. cbn [Init.Nat.pred] in X. exact X.
      * destruct (Hsp R' k t' n ok c HH) as [t1 [A B]]. exists t1. split; [right; exact A|exact B].
  - (* MCancel *)
    injection H as <-. start_inv.
    + exists pre. repeat split; try assumption. discriminate.
    + intros _. reflexivity.
  - (* MDone *)
    destruct (pc s) eqn:Epc; try discriminate; destruct (cancelled s) eqn:Ec; try discriminate.
    + (* AtRead *)
      injection H as <-. cbn [app] in Hcons.
      destruct (enter_timer_cases s (now s)) as [[E [C R]]|[E C]]; rewrite E; start_inv.
      * exists pre. repeat split; try assumption. rewrite Ec. discriminate.
      * intros _. exact Ec.
      * intros _. right. left. reflexivity.
      * exists pre. repeat split; try assumption. rewrite Ec. discriminate.
      * intros _. right. right. destruct C as [C|C]; [congruence|]. split; [exact C|]. eexists. reflexivity.
      * intros t0 _ C'. congruence.
      * intros R'. destruct C as [C|C]; [congruence|lia].
    + (* AtWrite: the request is dropped *)
      injection H as <-. cbn [app] in Hcons. start_inv.
      * exists (pre ++ [r]). split; [apply subseq_app_r; exact Hsub|].
        split; [rewrite <- app_assoc; exact Hcons|]. rewrite Ec. discriminate.
      * intros _. left. reflexivity.
    + (* AtTimer *)
      injection H as <-. cbn [app] in Hcons. start_inv.
      * exists pre. repeat split; try assumption. rewrite Ec. discriminate.
      * intros _. exact Ec.
      * intros _. right. left. reflexivity.
Qed.

Lemma inv_run : forall ms s s', inv s -> run s ms = Some s' -> inv s'.
Proof.
  induction ms as [|m ms IH]; intros s s' I H; cbn in H.
  - injection H as <-. exact I.
  - destruct (lstep s m) as [s1|] eqn:E; [|discriminate]. exact (IH s1 s' (inv_step s m s1 I E) H).
Qed.

Definition reach (s : lstate) : Prop := exists s0 ms, live_start script = Started s0 /\ run s0 ms = Some s.

Lemma reach_inv : forall s, reach s -> inv s.
Proof. intros s [s0 [ms [H R]]]. exact (inv_run ms s0 s (inv_start s0 H) R). Qed.

(* ------------------------------------------------------------------ what the invariants say *)

(* the requests sent on out are always a subsequence of the passes generated so far: nothing is
   duplicated, reordered or invented, with or without cancellation *)
Lemma live_out_subseq : forall s, reach s -> subseq (outl s) (total (calls s) script) = true.
Proof.
  intros s R. destruct (i_cons s (reach_inv s R)) as [pre [A [B _]]]. rewrite <- B. apply subseq_app_r. exact A.
Qed.

(* until the context is cancelled nothing is lost either: sent ++ held ++ still to come = the
   concatenation of the generated passes, in order *)
Lemma live_out_prefix : forall s, reach s -> cancelled s = false ->
  outl s ++ inflight s ++ cur_rest s = total (calls s) script.
Proof.
  intros s R C. destruct (i_cons s (reach_inv s R)) as [pre [_ [B D]]]. rewrite <- (D C). exact B.
Qed.

Lemma live_pass_complete_before_next : forall s, reach s ->
  forall k t n ok, In (EStart k t n ok false) (log s) -> n = length (total k script).
Proof. intros s R. exact (i_complete s (reach_inv s R)). Qed.

Lemma live_interval : 0 < rescan -> forall s, reach s ->
  forall k t' n ok c, In (EStart (S k) t' n ok c) (log s) -> exists t, In (EEnd k t) (log s) /\ t + rescan <= t'.
Proof. intros P s R. exact (i_spaced s (reach_inv s R) P). Qed.

(* passes keep coming: an uncancelled generator whose last pass did not fail always has a move *)
Lemma live_progress : forall s, reach s -> cancelled s = false -> cur s <> None -> future s <> [] ->
  exists m s', m <> MCancel /\ lstep s m = Some s'.
Proof.
  intros s R C N F. assert (I := reach_inv s R).
  destruct (pc s) eqn:Epc.
  - destruct (cur s) as [[|r l]|] eqn:Ecur; [| |now elim N].
    + exists (MEndPass (now s)). unfold Live.lstep. rewrite Epc, Ecur, Z.leb_refl. eexists. split; [discriminate|reflexivity].
    + exists MDeliver. unfold Live.lstep. rewrite Epc, Ecur. eexists. split; [discriminate|reflexivity].
  - exists MAccept. unfold Live.lstep. rewrite Epc. eexists. split; [discriminate|reflexivity].
  - exists (MTick (Z.max (now s) (t0 + rescan))). unfold Live.lstep. rewrite Epc.
    assert (G : ((now s <=? Z.max (now s) (t0 + rescan)) && (t0 + rescan <=? Z.max (now s) (t0 + rescan)))%bool = true)
      by (apply andb_true_iff; split; apply Z.leb_le; lia).
    rewrite G. destruct (future s) as [|p f]; [now elim F|]. eexists. split; [discriminate|reflexivity].
  - rewrite (i_ended s I Epc) in C. discriminate.
Qed.

(* a pass that fails to start: the goroutine sits in readRequest on a nil channel; nothing can
   happen but the cancellation, and then ctx.Done, which ends it.  No further delegate call, no
   output, no other step: neither a crash nor a busy loop. *)
Lemma live_fail_blocks : 0 < rescan -> forall s, reach s -> cur s = None -> pc s <> Ended ->
  pc s = AtRead /\
  forall m s', lstep s m = Some s' ->
    (m = MCancel \/ (m = MDone /\ cancelled s = true /\ pc s' = Ended)) /\
    calls s' = calls s /\ outl s' = outl s /\ cur s' = None.
Proof.
  intros P s R N NE. assert (I := reach_inv s R).
  destruct (i_nil s I N) as [A|[A|[A _]]]; [|contradiction|lia].
  split; [exact A|]. intros m s' H. unfold Live.lstep in H. rewrite A, N in H.
  destruct m; try discriminate.
  - injection H as <-. cbn. repeat split; try assumption. left. reflexivity.
  - destruct (cancelled s) eqn:C; [|discriminate]. injection H as <-.
    unfold enter_timer. rewrite C. destruct (Z.ltb_spec 0 rescan); [|lia]. cbn.
    repeat split; try assumption. right. repeat split.
Qed.

End Inv.

(* ------------------------------------------------------------------ cancellation *)
Section Cancel.
Variable rescan : Z.

(* in every state in which the context is cancelled, ctx.Done can fire at the current select, and
   after at most three such steps the goroutine has returned and closed out; nothing more is sent *)
Lemma live_cancel_ends : forall s, cancelled s = true ->
  exists s', finish rescan s = Some s' /\ pc s' = Ended /\ outl s' = outl s /\ calls s' = calls s.
Proof.
  intros s C. unfold finish, is_ended, obind, Live.lstep, enter_timer, set_pc.
  destruct (pc s) eqn:Epc; rewrite ?C; cbn [pc cancelled outl calls andb];
    try (eexists; split; [reflexivity|cbn; repeat split; assumption]).
  - (* AtRead *)
    destruct (0 <? rescan); cbn [pc cancelled]; rewrite ?C; cbn;
      eexists; (split; [reflexivity|cbn; repeat split]).
  - (* AtWrite *)
    destruct (0 <? rescan); cbn [pc cancelled]; rewrite ?C; cbn;
      eexists; (split; [reflexivity|cbn; repeat split]).
Qed.

(* once out is closed the stream has ended: no move changes anything but the cancelled flag *)
Lemma live_ended_final : forall s m s', pc s = Ended -> lstep rescan s m = Some s' ->
  m = MCancel /\ pc s' = Ended /\ outl s' = outl s /\ calls s' = calls s.
Proof.
  intros s m s' E H. unfold Live.lstep in H. rewrite E in H. destruct m; try discriminate.
  injection H as <-. cbn. repeat split; try assumption.
Qed.

(* [finish] and the trace acceptor only make moves of the model *)
Lemma finish_is_run : forall s s', finish rescan s = Some s' -> exists ms, run rescan s ms = Some s'.
Proof.
  intros s s' H. unfold finish, obind in H.
  destruct (is_ended s); [injection H as <-; exists []; reflexivity|].
  destruct (lstep rescan s MDone) as [s1|] eqn:E1; [|discriminate].
  destruct (is_ended s1); [injection H as <-; exists [MDone]; cbn [run]; rewrite E1; reflexivity|].
  destruct (lstep rescan s1 MDone) as [s2|] eqn:E2; [|discriminate].
  destruct (is_ended s2); [injection H as <-; exists [MDone; MDone]; cbn [run]; rewrite E1, E2; reflexivity|].
  destruct (lstep rescan s2 MDone) as [s3|] eqn:E3; [|discriminate].
  destruct (is_ended s3); [|discriminate]. injection H as <-.
  exists [MDone; MDone; MDone]. cbn [run]. rewrite E1, E2, E3. reflexivity.
Qed.

Lemma run_app : forall a b s s1 s2, run rescan s a = Some s1 -> run rescan s1 b = Some s2 -> run rescan s (a ++ b) = Some s2.
Proof.
  induction a as [|m a IH]; intros b s s1 s2 H1 H2; cbn [run app] in *.
  - injection H1 as <-. exact H2.
  - destruct (lstep rescan s m) as [s'|]; [|discriminate]. exact (IH b s' s1 s2 H1 H2).
Qed.

Lemma drop_inflight_is_run : forall s s', drop_inflight rescan s = Some s' -> exists ms, run rescan s ms = Some s'.
Proof.
  intros s s' H. unfold drop_inflight in H. destruct (pc s);
    try (injection H as <-; exists []; reflexivity).
  exists [MDone]. cbn [run]. rewrite H. reflexivity.
Qed.

Lemma notice_close_is_run : forall tc s s', notice_close rescan tc s = Some s' -> exists ms, run rescan s ms = Some s'.
Proof.
  intros tc s s' H. unfold notice_close in H. destruct (pc s);
    try (injection H as <-; exists []; reflexivity).
  eexists [_]. cbn [run]. rewrite H. reflexivity.
Qed.

Lemma vstep_is_run : forall v e v', vstep rescan v e = Some v' -> exists ms, run rescan (vs v) ms = Some (vs v').
Proof.
  intros v e v' H. unfold vstep in H. destruct e as [r|r|t|k t| |].
  - (* VD *)
    destruct (drop_inflight rescan (vs v)) as [s1|] eqn:E1; cbn [obind] in H; [|discriminate].
    destruct (cur s1) as [[|r' l]|]; try discriminate. destruct (Nat.eqb r r'); [|discriminate].
    destruct (lstep rescan s1 MDeliver) as [s2|] eqn:E2; [|discriminate]. injection H as <-. cbn [vs].
    destruct (drop_inflight_is_run _ _ E1) as [ms R]. exists (ms ++ [MDeliver]).
    apply (run_app ms [MDeliver] _ s1 s2 R). cbn [run]. rewrite E2. reflexivity.
  - (* VO *)
    destruct (pc (vs v)); try discriminate. destruct (Nat.eqb r r0); [|discriminate].
    destruct (lstep rescan (vs v) MAccept) as [s2|] eqn:E2; [|discriminate]. injection H as <-. cbn [vs].
    exists [MAccept]. cbn [run]. rewrite E2. reflexivity.
  - (* VC *)
    destruct (cur (vs v)) as [[|]|]; try discriminate. injection H as <-. exists []. reflexivity.
  - (* VG *)
    destruct (Nat.eqb k (calls (vs v))); [|discriminate].
    destruct (drop_inflight rescan (vs v)) as [s1|] eqn:E1; cbn [obind] in H; [|discriminate].
    destruct (notice_close rescan (vclose v) s1) as [s2|] eqn:E2; cbn [obind] in H; [|discriminate].
    destruct (lstep rescan s2 (MTick t)) as [s3|] eqn:E3; [|discriminate]. injection H as <-. cbn [vs].
    destruct (drop_inflight_is_run _ _ E1) as [ms1 R1]. destruct (notice_close_is_run _ _ _ E2) as [ms2 R2].
    exists (ms1 ++ ms2 ++ [MTick t]). apply (run_app ms1 _ _ s1 s3 R1). apply (run_app ms2 _ _ s2 s3 R2).
    cbn [run]. rewrite E3. reflexivity.
  - (* VK *)
    destruct (lstep rescan (vs v) MCancel) as [s2|] eqn:E2; [|discriminate]. injection H as <-. cbn [vs].
    exists [MCancel]. cbn [run]. rewrite E2. reflexivity.
  - (* VX *)
    destruct (finish rescan (vs v)) as [s2|] eqn:E2; [|discriminate]. injection H as <-. cbn [vs].
    exact (finish_is_run _ _ E2).
Qed.

Lemma vrun_is_run : forall tr i v v', vrun rescan i v tr = inr v' -> exists ms, run rescan (vs v) ms = Some (vs v').
Proof.
  induction tr as [|e tr IH]; intros i v v' H; cbn [vrun] in H.
  - injection H as <-. exists []. reflexivity.
  - destruct (vstep rescan v e) as [v1|] eqn:E; [|discriminate].
    destruct (vstep_is_run _ _ _ E) as [ms1 R1]. destruct (IH _ _ _ H) as [ms2 R2].
    exists (ms1 ++ ms2). exact (run_app ms1 ms2 _ _ _ R1 R2).
Qed.

End Cancel.

(* a trace the oracle accepts is a behaviour of the model: some schedule of the transition system
   started on the same script ends with out closed and exactly the received requests sent *)
Lemma accepted_trace_is_a_run : forall c, check_trace c = [] -> t_start_err c = false ->
  exists s0 ms s, live_start (t_script c) = Started s0 /\ run (t_rescan c) s0 ms = Some s /\
                  pc s = Ended /\ nat_list_eqb (outl s) (t_outs c) = true.
Proof.
  intros c H E. unfold check_trace in H. rewrite E in H.
  destruct (live_start (t_script c)) as [s0| |] eqn:S; try discriminate.
  destruct (vrun (t_rescan c) 0 {| vs := s0; vclose := 0 |} (t_trace c)) as [i|v] eqn:V; [discriminate|].
  destruct (vrun_is_run _ _ _ _ _ V) as [ms R]. cbn in R.
  exists s0, ms, (vs v). split; [reflexivity|]. split; [exact R|].
  destruct (is_ended (vs v)) eqn:EE; [|discriminate].
  destruct (nat_list_eqb (outl (vs v)) (t_outs c)) eqn:EO; [|discriminate].
  split; [|reflexivity]. unfold is_ended in EE. destruct (pc (vs v)); try discriminate. reflexivity.
Qed.

(* ------------------------------------------------------------------ the wiring of `sx arp --live` *)
Lemma live_wiring_holds : live_wiring_ok = true.
Proof. vm_compute. reflexivity. Qed.
