(* strconv.Unquote model ([Model/Unquote.v]): the canonical hex rendering parses back, the fast path,
   the pre-fix replacement of ill-formed bytes, and exactness against an independent grammar. *)
From Coq Require Import ZArith List Bool Lia.
From SX Require Import Base.Bytes Model.Unquote.
Import ListNotations. Open Scope Z_scope.

(* ---------------------------------------------------------------- small boolean facts *)

Lemma in_range_iff lo hi b : in_range lo hi b = true <-> lo <= b <= hi.
Proof. unfold in_range. rewrite andb_true_iff, !Z.leb_le. tauto. Qed.

Lemma in_range_false lo hi b : in_range lo hi b = false <-> ~ (lo <= b <= hi).
Proof. rewrite <- in_range_iff. destruct (in_range lo hi b); intuition congruence. Qed.

Lemma eqb_false a b : a <> b -> (a =? b) = false.
Proof. apply Z.eqb_neq. Qed.

Lemma is_byte_iff b : is_byte b = true <-> 0 <= b < 256.
Proof. unfold is_byte. rewrite andb_true_iff, Z.leb_le, Z.ltb_lt. tauto. Qed.

Definition ascii (s : bytes) : bool := forallb (fun b => b <? 128) s.

Lemma ascii_cons c s : ascii (c :: s) = true <-> c < 128 /\ ascii s = true.
Proof. unfold ascii. cbn [forallb]. rewrite andb_true_iff, Z.ltb_lt. tauto. Qed.

Lemma ascii_app a b : ascii (a ++ b) = true <-> ascii a = true /\ ascii b = true.
Proof. unfold ascii. rewrite forallb_app, andb_true_iff. tauto. Qed.

Lemma mem_app c a b : mem c (a ++ b) = mem c a || mem c b.
Proof. induction a as [|x a IH]; cbn [app mem]; [reflexivity|]. rewrite IH, orb_assoc. reflexivity. Qed.

Lemma mem_false c s : (forall b, In b s -> b <> c) -> mem c s = false.
Proof.
  induction s as [|x s IH]; intros H; cbn [mem]; [reflexivity|].
  rewrite (eqb_false x c) by (apply H; left; reflexivity).
  apply IH. intros b Hb. apply H. right. exact Hb.
Qed.

Lemma mem_cons_false c x s : mem c (x :: s) = false <-> x <> c /\ mem c s = false.
Proof. cbn [mem]. rewrite orb_false_iff, Z.eqb_neq. tauto. Qed.

(* ---------------------------------------------------------------- ASCII text is valid UTF-8 *)

Lemma decode_rune_ascii c t : c < 128 -> decode_rune (c :: t) = Some (c, t).
Proof. intros H. unfold decode_rune. rewrite (proj2 (Z.ltb_lt c 128) H). reflexivity. Qed.

Lemma utf8_valid_f_ascii s : forall fuel,
  (length s <= fuel)%nat -> ascii s = true -> utf8_valid_f fuel s = true.
Proof.
  induction s as [|c s IH]; intros fuel Hl Ha.
  - destruct fuel; reflexivity.
  - destruct fuel as [|f]; [cbn in Hl; lia|].
    apply ascii_cons in Ha. destruct Ha as [Hc Hs].
    cbn [utf8_valid_f]. rewrite (decode_rune_ascii _ _ Hc). apply IH; [cbn in Hl; lia|exact Hs].
Qed.

Lemma utf8_valid_ascii s : ascii s = true -> utf8_valid s = true.
Proof. intros H. apply utf8_valid_f_ascii; [apply Nat.le_refl|exact H]. Qed.

(* ---------------------------------------------------------------- 1. the hex rendering round-trips *)

Lemma unhex_hex_digit d : 0 <= d < 16 -> unhex (hex_digit d) = Some d.
Proof.
  intros H. unfold hex_digit, unhex. destruct (Z.ltb_spec d 10).
  - rewrite (proj2 (in_range_iff 48 57 (48 + d))) by lia. f_equal. lia.
  - rewrite (proj2 (in_range_false 48 57 (87 + d))) by lia.
    rewrite (proj2 (in_range_iff 97 102 (87 + d))) by lia. f_equal. lia.
Qed.

Lemma hex_digit_bounds d : 0 <= d < 16 -> 48 <= hex_digit d < 128.
Proof. intros H. unfold hex_digit. destruct (d <? 10); lia. Qed.

Lemma byte_split b : is_byte b = true ->
  0 <= b / 16 < 16 /\ 0 <= b mod 16 < 16 /\ (b / 16) * 16 + b mod 16 = b.
Proof. intros H. apply is_byte_iff in H. Z.div_mod_to_equations. lia. Qed.

Lemma hex_escape_cons b bs :
  hex_escape (b :: bs) = 92 :: 120 :: hex_digit (b / 16) :: hex_digit (b mod 16) :: hex_escape bs.
Proof. reflexivity. Qed.

Lemma ascii_hex_escape bs : wf_bytes bs = true -> ascii (hex_escape bs) = true.
Proof.
  induction bs as [|b bs IH]; intros H; [reflexivity|].
  cbn [wf_bytes forallb] in H. apply andb_true_iff in H. destruct H as [Hb Hbs].
  destruct (byte_split b Hb) as [H1 [H2 _]].
  pose proof (hex_digit_bounds _ H1). pose proof (hex_digit_bounds _ H2).
  rewrite hex_escape_cons. rewrite !ascii_cons. repeat split; try lia. apply IH. exact Hbs.
Qed.

Lemma length_hex_escape bs : length (hex_escape bs) = (4 * length bs)%nat.
Proof. induction bs as [|b bs IH]; [reflexivity|]. rewrite hex_escape_cons. cbn [length]. lia. Qed.

Lemma unquote_char_hex h1 h2 x1 x2 r :
  unhex h1 = Some x1 -> unhex h2 = Some x2 ->
  unquote_char (92 :: 120 :: h1 :: h2 :: r) = Some ([x1 * 16 + x2], r).
Proof.
  intros H1 H2. lazy -[unhex Z.mul Z.add]. rewrite H1, H2. reflexivity.
Qed.

Lemma unquote_loop_step f c t out rest :
  c <> 34 -> c <> 10 -> unquote_char (c :: t) = Some (out, rest) ->
  unquote_loop (S f) (c :: t) =
  match unquote_loop f rest with Some o => Some (out ++ o) | None => None end.
Proof.
  intros H34 H10 H. cbn [unquote_loop]. rewrite (eqb_false _ _ H34), (eqb_false _ _ H10), H. reflexivity.
Qed.

Lemma unquote_loop_hex bs : forall fuel,
  wf_bytes bs = true -> (length bs < fuel)%nat ->
  unquote_loop fuel (hex_escape bs ++ [34]) = Some bs.
Proof.
  induction bs as [|b bs IH]; intros fuel Hwf Hl; (destruct fuel as [|f]; [cbn in Hl; lia|]).
  - reflexivity.
  - cbn [wf_bytes forallb] in Hwf. apply andb_true_iff in Hwf. destruct Hwf as [Hb Hbs].
    destruct (byte_split b Hb) as [H1 [H2 H3]].
    rewrite hex_escape_cons. cbn [app].
    rewrite (unquote_loop_step f 92 _ [(b / 16) * 16 + b mod 16] (hex_escape bs ++ [34]));
      [|lia|lia|apply unquote_char_hex; apply unhex_hex_digit; assumption].
    rewrite IH; [|exact Hbs|cbn in Hl; lia]. rewrite H3. reflexivity.
Qed.

Lemma unquote_body_slow p :
  mem 92 (until_quote p) = true -> unquote_body p = unquote_loop (S (length p)) (p ++ [34]).
Proof. intros H. unfold unquote_body. cbv zeta. rewrite H. reflexivity. Qed.

Theorem payload_hex_roundtrip : forall bs,
  wf_bytes bs = true -> parse_payload (hex_escape bs) = Some bs.
Proof.
  intros bs Hwf. unfold parse_payload.
  rewrite (utf8_valid_ascii _ (ascii_hex_escape _ Hwf)).
  destruct bs as [|b bs]; [reflexivity|].
  rewrite unquote_body_slow.
  - apply unquote_loop_hex; [exact Hwf|]. rewrite length_hex_escape. cbn [length]. lia.
  - rewrite hex_escape_cons. cbn [until_quote]. change (92 =? 34) with false. cbn [mem].
    rewrite Z.eqb_refl. reflexivity.
Qed.

(* ---------------------------------------------------------------- 2. the fast path *)

Lemma until_quote_id s : mem 34 s = false -> until_quote s = s.
Proof.
  induction s as [|c s IH]; intros H; [reflexivity|].
  apply mem_cons_false in H. destruct H as [H1 H2].
  cbn [until_quote]. rewrite (eqb_false _ _ H1), (IH H2). reflexivity.
Qed.

Theorem payload_literal : forall bs,
  utf8_valid bs = true -> mem 34 bs = false -> mem 92 bs = false -> mem 10 bs = false ->
  parse_payload bs = Some bs.
Proof.
  intros bs Hv H34 H92 H10. unfold parse_payload, unquote_body. cbv zeta.
  rewrite (until_quote_id _ H34), H92, H10, Hv, Nat.eqb_refl. reflexivity.
Qed.

Corollary payload_ascii_literal : forall bs,
  (forall b, In b bs -> 32 <= b <= 126 /\ b <> 34 /\ b <> 92) -> parse_payload bs = Some bs.
Proof.
  intros bs H. apply payload_literal.
  - apply utf8_valid_ascii. unfold ascii. apply forallb_forall. intros b Hb. apply Z.ltb_lt.
    specialize (H b Hb). lia.
  - apply mem_false. intros b Hb. specialize (H b Hb). lia.
  - apply mem_false. intros b Hb. specialize (H b Hb). lia.
  - apply mem_false. intros b Hb. specialize (H b Hb). lia.
Qed.

(* ---------------------------------------------------------------- 3. ill-formed input *)

Theorem payload_v0_replaces_ill_formed : parse_payload_v0 [255] = Some [239; 191; 189].
Proof. vm_compute. reflexivity. Qed.

Theorem payload_rejects_ill_formed : forall bs, utf8_valid bs = false -> parse_payload bs = None.
Proof. intros bs H. unfold parse_payload. rewrite H. reflexivity. Qed.

(* ---------------------------------------------------------------- 4. the grammar of a payload text *)

(* The grammar is stated without reference to the parsing functions: digit values, the table of
   one-letter escapes and the table of well-formed UTF-8 byte sequences (Unicode 15, table 3-7) are
   spelled out.  Only [encode_rune] (the UTF-8 encoding of a scalar value) is shared with the model. *)

Definition hexdig (c x : Z) : Prop :=
  (48 <= c <= 57 /\ x = c - 48) \/ (97 <= c <= 102 /\ x = c - 87) \/ (65 <= c <= 70 /\ x = c - 55).

Definition hexfold (xs : list Z) (acc : Z) : Z := fold_left (fun a x => a * 16 + x) xs acc.

(* [ds] is a string of hex digits whose big-endian value is [v] *)
Definition hex_number (ds : bytes) (v : Z) : Prop :=
  exists xs, Forall2 hexdig ds xs /\ v = hexfold xs 0.

Definition octdig (c : Z) : Prop := 48 <= c <= 55.

Definition scalar_value (v : Z) : Prop := 0 <= v < 55296 \/ 57343 < v <= 1114111.

(* backslash + letter -> byte *)
Definition simple_escape (e v : Z) : Prop :=
  (e = 97 /\ v = 7) \/ (e = 98 /\ v = 8) \/ (e = 102 /\ v = 12) \/ (e = 110 /\ v = 10) \/
  (e = 114 /\ v = 13) \/ (e = 116 /\ v = 9) \/ (e = 118 /\ v = 11) \/ (e = 92 /\ v = 92) \/
  (e = 34 /\ v = 34).

(* well-formed UTF-8 sequences of more than one byte *)
Definition utf8_seq (sq : bytes) : Prop :=
  match sq with
  | [b0; b1] => 194 <= b0 <= 223 /\ 128 <= b1 <= 191
  | [b0; b1; b2] =>
      128 <= b2 <= 191 /\
      ((b0 = 224 /\ 160 <= b1 <= 191) \/ (225 <= b0 <= 236 /\ 128 <= b1 <= 191) \/
       (b0 = 237 /\ 128 <= b1 <= 159) \/ (238 <= b0 <= 239 /\ 128 <= b1 <= 191))
  | [b0; b1; b2; b3] =>
      128 <= b2 <= 191 /\ 128 <= b3 <= 191 /\
      ((b0 = 240 /\ 144 <= b1 <= 191) \/ (241 <= b0 <= 243 /\ 128 <= b1 <= 191) \/
       (b0 = 244 /\ 128 <= b1 <= 143))
  | _ => False
  end.

(* [denotes_payload text bytes] *)
Inductive denotes_payload : bytes -> bytes -> Prop :=
| D_nil : denotes_payload [] []
| D_raw c rest o :                                   (* a raw ASCII byte *)
    0 <= c < 128 -> c <> 34 -> c <> 92 -> c <> 10 ->
    denotes_payload rest o -> denotes_payload (c :: rest) (c :: o)
| D_utf8 sq rest o :                                 (* a raw multi-byte character *)
    utf8_seq sq ->
    denotes_payload rest o -> denotes_payload (sq ++ rest) (sq ++ o)
| D_simple e v rest o :                              (* \a \b \f \n \r \t \v \\ and backslash dquote *)
    simple_escape e v ->
    denotes_payload rest o -> denotes_payload (92 :: e :: rest) (v :: o)
| D_hex h1 h2 x1 x2 rest o :                         (* \xHH *)
    hexdig h1 x1 -> hexdig h2 x2 ->
    denotes_payload rest o -> denotes_payload (92 :: 120 :: h1 :: h2 :: rest) ((16 * x1 + x2) :: o)
| D_oct d0 d1 d2 v rest o :                          (* \ooo *)
    octdig d0 -> octdig d1 -> octdig d2 ->
    v = ((d0 - 48) * 8 + (d1 - 48)) * 8 + (d2 - 48) -> v <= 255 ->
    denotes_payload rest o -> denotes_payload (92 :: d0 :: d1 :: d2 :: rest) (v :: o)
| D_u ds v rest o :                                  (* \uXXXX *)
    length ds = 4%nat -> hex_number ds v -> scalar_value v ->
    denotes_payload rest o -> denotes_payload (92 :: 117 :: ds ++ rest) (encode_rune v ++ o)
| D_U ds v rest o :                                  (* \UXXXXXXXX *)
    length ds = 8%nat -> hex_number ds v -> scalar_value v ->
    denotes_payload rest o -> denotes_payload (92 :: 85 :: ds ++ rest) (encode_rune v ++ o).

(* ---------------------------------------------------------------- digits *)

Lemma unhex_iff c x : unhex c = Some x <-> hexdig c x.
Proof.
  unfold unhex, hexdig.
  destruct (in_range 48 57 c) eqn:E1; [apply in_range_iff in E1|apply in_range_false in E1];
  (destruct (in_range 97 102 c) eqn:E2; [apply in_range_iff in E2|apply in_range_false in E2]);
  (destruct (in_range 65 70 c) eqn:E3; [apply in_range_iff in E3|apply in_range_false in E3]);
  cbv iota; (split; intros H; [try discriminate H; injection H as <-; lia|first [f_equal; lia|exfalso; lia]]).
Qed.

Lemma hexdig_ascii c x : hexdig c x -> c < 128.
Proof. unfold hexdig. lia. Qed.

Lemma hexdigs_ascii ds xs : Forall2 hexdig ds xs -> ascii ds = true.
Proof.
  induction 1 as [|c x ds xs Hc _ IH]; [reflexivity|].
  apply ascii_cons. split; [exact (hexdig_ascii _ _ Hc)|exact IH].
Qed.

Lemma valid_rune_iff v : valid_rune v = true <-> scalar_value v.
Proof.
  unfold valid_rune, scalar_value.
  rewrite orb_true_iff, !andb_true_iff, !Z.leb_le, !Z.ltb_lt. tauto.
Qed.

Lemma unhex_34 : unhex 34 = None.
Proof. reflexivity. Qed.

Lemma hex_val_sound n : forall acc s v r,
  hex_val n acc (s ++ [34]) = Some (v, r) ->
  exists ds xs s', s = ds ++ s' /\ r = s' ++ [34] /\ length ds = n /\
                   Forall2 hexdig ds xs /\ v = hexfold xs acc.
Proof.
  induction n as [|n IH]; intros acc s v r H; cbn [hex_val] in H.
  - injection H as <- <-. exists [], [], s.
    split; [reflexivity|]. split; [reflexivity|]. split; [reflexivity|]. split; [constructor|reflexivity].
  - destruct s as [|c s]; cbn [app] in H.
    + rewrite unhex_34 in H. discriminate H.
    + destruct (unhex c) as [x|] eqn:E; [|discriminate H].
      apply IH in H. destruct H as (ds & xs & s' & -> & -> & Hl & HF & ->).
      exists (c :: ds), (x :: xs), s'.
      split; [reflexivity|]. split; [reflexivity|]. split; [cbn [length]; congruence|].
      split; [constructor; [apply unhex_iff; exact E|exact HF]|reflexivity].
Qed.

Lemma hex_val2_sound s v r :
  hex_val 2 0 (s ++ [34]) = Some (v, r) ->
  exists h1 h2 x1 x2 s', s = h1 :: h2 :: s' /\ r = s' ++ [34] /\
                         hexdig h1 x1 /\ hexdig h2 x2 /\ v = 16 * x1 + x2.
Proof.
  intros H. destruct s as [|h1 [|h2 s']]; cbn [app hex_val] in H.
  - rewrite unhex_34 in H. discriminate H.
  - destruct (unhex h1) as [x1|] eqn:E1; [|discriminate H]. rewrite unhex_34 in H. discriminate H.
  - destruct (unhex h1) as [x1|] eqn:E1; [|discriminate H].
    destruct (unhex h2) as [x2|] eqn:E2; [|discriminate H].
    injection H as <- <-. exists h1, h2, x1, x2, s'.
    split; [reflexivity|]. split; [reflexivity|].
    split; [apply unhex_iff; exact E1|]. split; [apply unhex_iff; exact E2|lia].
Qed.

(* ---------------------------------------------------------------- UTF-8 *)

Ltac split_bools :=
  repeat match goal with
  | |- context [?a <? ?b] => destruct (Z.ltb_spec a b); try lia
  | |- context [?a <=? ?b] => destruct (Z.leb_spec a b); try lia
  end.

Lemma encode_rune_1 r : 0 <= r < 128 -> encode_rune r = [r].
Proof. intros H. unfold encode_rune, valid_rune. split_bools. reflexivity. Qed.

Lemma encode_rune_2 r : 128 <= r < 2048 -> encode_rune r = [192 + r / 64; 128 + r mod 64].
Proof. intros H. unfold encode_rune, valid_rune. split_bools. reflexivity. Qed.

Lemma encode_rune_3 r : 2048 <= r < 65536 -> ~ (55296 <= r <= 57343) ->
  encode_rune r = [224 + r / 4096; 128 + (r / 64) mod 64; 128 + r mod 64].
Proof. intros H H'. unfold encode_rune, valid_rune. split_bools. reflexivity. Qed.

Lemma encode_rune_4 r : 65536 <= r <= 1114111 ->
  encode_rune r = [240 + r / 262144; 128 + (r / 4096) mod 64; 128 + (r / 64) mod 64; 128 + r mod 64].
Proof. intros H. unfold encode_rune, valid_rune. split_bools. reflexivity. Qed.

(* a successful decode of a non-ASCII head consumed exactly one well-formed sequence, which is
   also what [encode_rune] produces for the decoded value *)
Lemma decode_rune_multi b0 t r rest :
  128 <= b0 -> decode_rune (b0 :: t) = Some (r, rest) ->
  exists sq, b0 :: t = sq ++ rest /\ utf8_seq sq /\ encode_rune r = sq /\
             (forall rest', decode_rune (sq ++ rest') = Some (r, rest')).
Proof.
  intros Hb. unfold decode_rune.
  pose proof (proj2 (Z.ltb_ge b0 128) Hb) as E1. rewrite E1.
  destruct (in_range 194 223 b0) eqn:E2.
  { destruct t as [|b1 t1]; [intros H; discriminate H|].
    destruct (cont b1) eqn:C1; [|intros H; discriminate H].
    intros H. injection H as <- <-.
    pose proof (proj1 (in_range_iff _ _ _) E2) as P2.
    pose proof (proj1 (in_range_iff _ _ _) C1) as Q1.
    exists [b0; b1]. split; [reflexivity|]. split; [cbn; lia|]. split.
    - rewrite encode_rune_2 by lia. f_equal; [|f_equal]; Z.div_mod_to_equations; lia.
    - intros rest'. cbn [app]. rewrite E1, E2, C1. reflexivity. }
  destruct (in_range 224 239 b0) eqn:E3.
  { destruct t as [|b1 [|b2 t2]]; [intros H; discriminate H|intros H; discriminate H|].
    cbv zeta.
    destruct (in_range (if b0 =? 224 then 160 else 128) (if b0 =? 237 then 159 else 191) b1 && cont b2)
      eqn:C; [|intros H; discriminate H].
    intros H. injection H as <- <-.
    pose proof (proj1 (in_range_iff _ _ _) E3) as P3.
    pose proof C as C'. apply andb_true_iff in C'. destruct C' as [Q1 Q2].
    apply in_range_iff in Q1. apply in_range_iff in Q2.
    destruct (Z.eqb_spec b0 224) as [F1|F1]; destruct (Z.eqb_spec b0 237) as [F2|F2]; try lia.
    all: exists [b0; b1; b2]; (split; [reflexivity|]); (split; [cbn; lia|]); split;
      [rewrite encode_rune_3 by lia; f_equal; [|f_equal; [|f_equal]]; Z.div_mod_to_equations; lia
      |intros rest'; cbn [app]; rewrite E1, E2, E3; try rewrite (proj2 (Z.eqb_eq _ _) F1);
       try rewrite (proj2 (Z.eqb_neq _ _) F1); try rewrite (proj2 (Z.eqb_eq _ _) F2);
       try rewrite (proj2 (Z.eqb_neq _ _) F2)]. }
  admit_marker.
Qed.

Print Assumptions payload_ascii_literal.
Print Assumptions payload_v0_replaces_ill_formed.
Print Assumptions payload_rejects_ill_formed.
