(* strconv.Unquote model ([Model/Unquote.v]): the canonical hex rendering parses back, the fast path,
   the pre-fix replacement of ill-formed bytes, and exactness against an independent grammar. *)
From Coq Require Import ZArith List Bool Lia.
From SX Require Import Base.Bytes Model.Unquote.
Import ListNotations. Open Scope Z_scope.

(* ---------------------------------------------------------------- small boolean facts *)

Lemma in_range_iff lo hi b : in_range lo hi b = true <-> lo <= b <= hi.
Proof. unfold in_range. rewrite andb_true_iff, !Z.leb_le. tauto. Qed.

Lemma in_range_false lo hi b : in_range lo hi b = false <-> ~ (lo <= b <= hi).
Proof. rewrite <- in_range_iff. destruct (in_range lo hi b); intuition congruence. Qed.

Lemma eqb_false a b : a <> b -> (a =? b) = false.
Proof. apply Z.eqb_neq. Qed.

Lemma is_byte_iff b : is_byte b = true <-> 0 <= b < 256.
Proof. unfold is_byte. rewrite andb_true_iff, Z.leb_le, Z.ltb_lt. tauto. Qed.

Definition ascii (s : bytes) : bool := forallb (fun b => b <? 128) s.

Lemma ascii_cons c s : ascii (c :: s) = true <-> c < 128 /\ ascii s = true.
Proof. unfold ascii. cbn [forallb]. rewrite andb_true_iff, Z.ltb_lt. tauto. Qed.

Lemma ascii_app a b : ascii (a ++ b) = true <-> ascii a = true /\ ascii b = true.
Proof. unfold ascii. rewrite forallb_app, andb_true_iff. tauto. Qed.

Lemma mem_app c a b : mem c (a ++ b) = mem c a || mem c b.
Proof. induction a as [|x a IH]; cbn [app mem]; [reflexivity|]. rewrite IH, orb_assoc. reflexivity. Qed.

Lemma mem_false c s : (forall b, In b s -> b <> c) -> mem c s = false.
Proof.
  induction s as [|x s IH]; intros H; cbn [mem]; [reflexivity|].
  rewrite (eqb_false x c) by (apply H; left; reflexivity).
  apply IH. intros b Hb. apply H. right. exact Hb.
Qed.

Lemma mem_cons_false c x s : mem c (x :: s) = false <-> x <> c /\ mem c s = false.
Proof. cbn [mem]. rewrite orb_false_iff, Z.eqb_neq. tauto. Qed.

(* ---------------------------------------------------------------- ASCII text is valid UTF-8 *)

Lemma decode_rune_ascii c t : c < 128 -> decode_rune (c :: t) = Some (c, t).
Proof. intros H. unfold decode_rune. rewrite (proj2 (Z.ltb_lt c 128) H). reflexivity. Qed.

Lemma utf8_valid_f_ascii s : forall fuel,
  (length s <= fuel)%nat -> ascii s = true -> utf8_valid_f fuel s = true.
Proof.
  induction s as [|c s IH]; intros fuel Hl Ha.
  - destruct fuel; reflexivity.
  - destruct fuel as [|f]; [cbn in Hl; lia|].
    apply ascii_cons in Ha. destruct Ha as [Hc Hs].
    cbn [utf8_valid_f]. rewrite (decode_rune_ascii _ _ Hc). apply IH; [cbn in Hl; lia|exact Hs].
Qed.

Lemma utf8_valid_ascii s : ascii s = true -> utf8_valid s = true.
Proof. intros H. apply utf8_valid_f_ascii; [apply Nat.le_refl|exact H]. Qed.

(* ---------------------------------------------------------------- 1. the hex rendering round-trips *)

Lemma unhex_hex_digit d : 0 <= d < 16 -> unhex (hex_digit d) = Some d.
Proof.
  intros H. unfold hex_digit, unhex. destruct (Z.ltb_spec d 10).
  - rewrite (proj2 (in_range_iff 48 57 (48 + d))) by lia. f_equal. lia.
  - rewrite (proj2 (in_range_false 48 57 (87 + d))) by lia.
    rewrite (proj2 (in_range_iff 97 102 (87 + d))) by lia. f_equal. lia.
Qed.

Lemma hex_digit_bounds d : 0 <= d < 16 -> 48 <= hex_digit d < 128.
Proof. intros H. unfold hex_digit. destruct (d <? 10); lia. Qed.

Lemma byte_split b : is_byte b = true ->
  0 <= b / 16 < 16 /\ 0 <= b mod 16 < 16 /\ (b / 16) * 16 + b mod 16 = b.
Proof. intros H. apply is_byte_iff in H. Z.div_mod_to_equations. lia. Qed.

Lemma hex_escape_cons b bs :
  hex_escape (b :: bs) = 92 :: 120 :: hex_digit (b / 16) :: hex_digit (b mod 16) :: hex_escape bs.
Proof. reflexivity. Qed.

Lemma ascii_hex_escape bs : wf_bytes bs = true -> ascii (hex_escape bs) = true.
Proof.
  induction bs as [|b bs IH]; intros H; [reflexivity|].
  cbn [wf_bytes forallb] in H. apply andb_true_iff in H. destruct H as [Hb Hbs].
  destruct (byte_split b Hb) as [H1 [H2 _]].
  pose proof (hex_digit_bounds _ H1). pose proof (hex_digit_bounds _ H2).
  rewrite hex_escape_cons. rewrite !ascii_cons. repeat split; try lia. apply IH. exact Hbs.
Qed.

Lemma length_hex_escape bs : length (hex_escape bs) = (4 * length bs)%nat.
Proof. induction bs as [|b bs IH]; [reflexivity|]. rewrite hex_escape_cons. cbn [length]. lia. Qed.

Lemma unquote_char_hex h1 h2 x1 x2 r :
  unhex h1 = Some x1 -> unhex h2 = Some x2 ->
  unquote_char (92 :: 120 :: h1 :: h2 :: r) = Some ([x1 * 16 + x2], r).
Proof.
  intros H1 H2. lazy -[unhex Z.mul Z.add]. rewrite H1, H2. reflexivity.
Qed.

Lemma unquote_loop_step f c t out rest :
  c <> 34 -> c <> 10 -> unquote_char (c :: t) = Some (out, rest) ->
  unquote_loop (S f) (c :: t) =
  match unquote_loop f rest with Some o => Some (out ++ o) | None => None end.
Proof.
  intros H34 H10 H. cbn [unquote_loop]. rewrite (eqb_false _ _ H34), (eqb_false _ _ H10), H. reflexivity.
Qed.

Lemma unquote_loop_hex bs : forall fuel,
  wf_bytes bs = true -> (length bs < fuel)%nat ->
  unquote_loop fuel (hex_escape bs ++ [34]) = Some bs.
Proof.
  induction bs as [|b bs IH]; intros fuel Hwf Hl; (destruct fuel as [|f]; [cbn in Hl; lia|]).
  - reflexivity.
  - cbn [wf_bytes forallb] in Hwf. apply andb_true_iff in Hwf. destruct Hwf as [Hb Hbs].
    destruct (byte_split b Hb) as [H1 [H2 H3]].
    rewrite hex_escape_cons. cbn [app].
    rewrite (unquote_loop_step f 92 _ [(b / 16) * 16 + b mod 16] (hex_escape bs ++ [34]));
      [|lia|lia|apply unquote_char_hex; apply unhex_hex_digit; assumption].
    rewrite IH; [|exact Hbs|cbn in Hl; lia]. rewrite H3. reflexivity.
Qed.

Lemma unquote_body_slow p :
  mem 92 (until_quote p) = true -> unquote_body p = unquote_loop (S (length p)) (p ++ [34]).
Proof. intros H. unfold unquote_body. cbv zeta. rewrite H. reflexivity. Qed.

Theorem payload_hex_roundtrip : forall bs,
  wf_bytes bs = true -> parse_payload (hex_escape bs) = Some bs.
Proof.
  intros bs Hwf. unfold parse_payload.
  rewrite (utf8_valid_ascii _ (ascii_hex_escape _ Hwf)).
  destruct bs as [|b bs]; [reflexivity|].
  rewrite unquote_body_slow.
  - apply unquote_loop_hex; [exact Hwf|]. rewrite length_hex_escape. cbn [length]. lia.
  - rewrite hex_escape_cons. cbn [until_quote]. change (92 =? 34) with false. cbn [mem].
    rewrite Z.eqb_refl. reflexivity.
Qed.

(* ---------------------------------------------------------------- 2. the fast path *)

Lemma until_quote_id s : mem 34 s = false -> until_quote s = s.
Proof.
  induction s as [|c s IH]; intros H; [reflexivity|].
  apply mem_cons_false in H. destruct H as [H1 H2].
  cbn [until_quote]. rewrite (eqb_false _ _ H1), (IH H2). reflexivity.
Qed.

Theorem payload_literal : forall bs,
  utf8_valid bs = true -> mem 34 bs = false -> mem 92 bs = false -> mem 10 bs = false ->
  parse_payload bs = Some bs.
Proof.
  intros bs Hv H34 H92 H10. unfold parse_payload, unquote_body. cbv zeta.
  rewrite (until_quote_id _ H34), H92, H10, Hv, Nat.eqb_refl. reflexivity.
Qed.

Corollary payload_ascii_literal : forall bs,
  (forall b, In b bs -> 32 <= b <= 126 /\ b <> 34 /\ b <> 92) -> parse_payload bs = Some bs.
Proof.
  intros bs H. apply payload_literal.
  - apply utf8_valid_ascii. unfold ascii. apply forallb_forall. intros b Hb. apply Z.ltb_lt.
    specialize (H b Hb). lia.
  - apply mem_false. intros b Hb. specialize (H b Hb). lia.
  - apply mem_false. intros b Hb. specialize (H b Hb). lia.
  - apply mem_false. intros b Hb. specialize (H b Hb). lia.
Qed.

(* ---------------------------------------------------------------- 3. ill-formed input *)

Theorem payload_v0_replaces_ill_formed : parse_payload_v0 [255] = Some [239; 191; 189].
Proof. vm_compute. reflexivity. Qed.

Theorem payload_rejects_ill_formed : forall bs, utf8_valid bs = false -> parse_payload bs = None.
Proof. intros bs H. unfold parse_payload. rewrite H. reflexivity. Qed.

(* ---------------------------------------------------------------- 4. the grammar of a payload text *)

(* The grammar is stated without reference to the parsing functions: digit values, the table of
   one-letter escapes and the table of well-formed UTF-8 byte sequences (Unicode 15, table 3-7) are
   spelled out.  Only [encode_rune] (the UTF-8 encoding of a scalar value) is shared with the model. *)

Definition hexdig (c x : Z) : Prop :=
  (48 <= c <= 57 /\ x = c - 48) \/ (97 <= c <= 102 /\ x = c - 87) \/ (65 <= c <= 70 /\ x = c - 55).

Definition hexfold (xs : list Z) (acc : Z) : Z := fold_left (fun a x => a * 16 + x) xs acc.

(* [ds] is a string of hex digits whose big-endian value is [v] *)
Definition hex_number (ds : bytes) (v : Z) : Prop :=
  exists xs, Forall2 hexdig ds xs /\ v = hexfold xs 0.

Definition octdig (c : Z) : Prop := 48 <= c <= 55.

Definition scalar_value (v : Z) : Prop := 0 <= v < 55296 \/ 57343 < v <= 1114111.

(* backslash + letter -> byte *)
Definition simple_escape (e v : Z) : Prop :=
  (e = 97 /\ v = 7) \/ (e = 98 /\ v = 8) \/ (e = 102 /\ v = 12) \/ (e = 110 /\ v = 10) \/
  (e = 114 /\ v = 13) \/ (e = 116 /\ v = 9) \/ (e = 118 /\ v = 11) \/ (e = 92 /\ v = 92) \/
  (e = 34 /\ v = 34).

(* well-formed UTF-8 sequences of more than one byte *)
Definition utf8_seq (sq : bytes) : Prop :=
  match sq with
  | [b0; b1] => 194 <= b0 <= 223 /\ 128 <= b1 <= 191
  | [b0; b1; b2] =>
      128 <= b2 <= 191 /\
      ((b0 = 224 /\ 160 <= b1 <= 191) \/ (225 <= b0 <= 236 /\ 128 <= b1 <= 191) \/
       (b0 = 237 /\ 128 <= b1 <= 159) \/ (238 <= b0 <= 239 /\ 128 <= b1 <= 191))
  | [b0; b1; b2; b3] =>
      128 <= b2 <= 191 /\ 128 <= b3 <= 191 /\
      ((b0 = 240 /\ 144 <= b1 <= 191) \/ (241 <= b0 <= 243 /\ 128 <= b1 <= 191) \/
       (b0 = 244 /\ 128 <= b1 <= 143))
  | _ => False
  end.

(* [denotes_payload text bytes] *)
Inductive denotes_payload : bytes -> bytes -> Prop :=
| D_nil : denotes_payload [] []
| D_raw c rest o :                                   (* a raw ASCII byte *)
    0 <= c < 128 -> c <> 34 -> c <> 92 -> c <> 10 ->
    denotes_payload rest o -> denotes_payload (c :: rest) (c :: o)
| D_utf8 sq rest o :                                 (* a raw multi-byte character *)
    utf8_seq sq ->
    denotes_payload rest o -> denotes_payload (sq ++ rest) (sq ++ o)
| D_simple e v rest o :                              (* \a \b \f \n \r \t \v \\ and backslash dquote *)
    simple_escape e v ->
    denotes_payload rest o -> denotes_payload (92 :: e :: rest) (v :: o)
| D_hex h1 h2 x1 x2 rest o :                         (* \xHH *)
    hexdig h1 x1 -> hexdig h2 x2 ->
    denotes_payload rest o -> denotes_payload (92 :: 120 :: h1 :: h2 :: rest) ((16 * x1 + x2) :: o)
| D_oct d0 d1 d2 v rest o :                          (* \ooo *)
    octdig d0 -> octdig d1 -> octdig d2 ->
    v = ((d0 - 48) * 8 + (d1 - 48)) * 8 + (d2 - 48) -> v <= 255 ->
    denotes_payload rest o -> denotes_payload (92 :: d0 :: d1 :: d2 :: rest) (v :: o)
| D_u ds v rest o :                                  (* \uXXXX *)
    length ds = 4%nat -> hex_number ds v -> scalar_value v ->
    denotes_payload rest o -> denotes_payload (92 :: 117 :: ds ++ rest) (encode_rune v ++ o)
| D_U ds v rest o :                                  (* \UXXXXXXXX *)
    length ds = 8%nat -> hex_number ds v -> scalar_value v ->
    denotes_payload rest o -> denotes_payload (92 :: 85 :: ds ++ rest) (encode_rune v ++ o).

(* ---------------------------------------------------------------- digits *)

Lemma unhex_iff c x : unhex c = Some x <-> hexdig c x.
Proof.
  unfold unhex, hexdig.
  destruct (in_range 48 57 c) eqn:E1; [apply in_range_iff in E1|apply in_range_false in E1];
  (destruct (in_range 97 102 c) eqn:E2; [apply in_range_iff in E2|apply in_range_false in E2]);
  (destruct (in_range 65 70 c) eqn:E3; [apply in_range_iff in E3|apply in_range_false in E3]);
  cbv iota; (split; intros H; [try discriminate H; injection H as <-; lia|first [f_equal; lia|exfalso; lia]]).
Qed.

Lemma hexdig_ascii c x : hexdig c x -> c < 128.
Proof. unfold hexdig. lia. Qed.

Lemma hexdigs_ascii ds xs : Forall2 hexdig ds xs -> ascii ds = true.
Proof.
  induction 1 as [|c x ds xs Hc _ IH]; [reflexivity|].
  apply ascii_cons. split; [exact (hexdig_ascii _ _ Hc)|exact IH].
Qed.

Lemma valid_rune_iff v : valid_rune v = true <-> scalar_value v.
Proof.
  unfold valid_rune, scalar_value.
  rewrite orb_true_iff, !andb_true_iff, !Z.leb_le, !Z.ltb_lt. tauto.
Qed.

Lemma unhex_34 : unhex 34 = None.
Proof. reflexivity. Qed.

Lemma hex_val_sound n : forall acc s v r,
  hex_val n acc (s ++ [34]) = Some (v, r) ->
  exists ds xs s', s = ds ++ s' /\ r = s' ++ [34] /\ length ds = n /\
                   Forall2 hexdig ds xs /\ v = hexfold xs acc.
Proof.
  induction n as [|n IH]; intros acc s v r H; cbn [hex_val] in H.
  - injection H as <- <-. exists [], [], s.
    split; [reflexivity|]. split; [reflexivity|]. split; [reflexivity|]. split; [constructor|reflexivity].
  - destruct s as [|c s]; cbn [app] in H.
    + rewrite unhex_34 in H. discriminate H.
    + destruct (unhex c) as [x|] eqn:E; [|discriminate H].
      apply IH in H. destruct H as (ds & xs & s' & -> & -> & Hl & HF & ->).
      exists (c :: ds), (x :: xs), s'.
      split; [reflexivity|]. split; [reflexivity|]. split; [cbn [length]; congruence|].
      split; [constructor; [apply unhex_iff; exact E|exact HF]|reflexivity].
Qed.

Lemma hex_val2_sound s v r :
  hex_val 2 0 (s ++ [34]) = Some (v, r) ->
  exists h1 h2 x1 x2 s', s = h1 :: h2 :: s' /\ r = s' ++ [34] /\
                         hexdig h1 x1 /\ hexdig h2 x2 /\ v = 16 * x1 + x2.
Proof.
  intros H. destruct s as [|h1 [|h2 s']]; cbn [app hex_val] in H.
  - rewrite unhex_34 in H. discriminate H.
  - destruct (unhex h1) as [x1|] eqn:E1; [|discriminate H]. rewrite unhex_34 in H. discriminate H.
  - destruct (unhex h1) as [x1|] eqn:E1; [|discriminate H].
    destruct (unhex h2) as [x2|] eqn:E2; [|discriminate H].
    injection H as <- <-. exists h1, h2, x1, x2, s'.
    split; [reflexivity|]. split; [reflexivity|].
    split; [apply unhex_iff; exact E1|]. split; [apply unhex_iff; exact E2|lia].
Qed.

(* ---------------------------------------------------------------- UTF-8 *)

Ltac split_bools :=
  repeat match goal with
  | |- context [?a <? ?b] => destruct (Z.ltb_spec a b); try lia
  | |- context [?a <=? ?b] => destruct (Z.leb_spec a b); try lia
  end.

Lemma encode_rune_1 r : 0 <= r < 128 -> encode_rune r = [r].
Proof. intros H. unfold encode_rune, valid_rune. split_bools; reflexivity. Qed.

Lemma encode_rune_2 r : 128 <= r < 2048 -> encode_rune r = [192 + r / 64; 128 + r mod 64].
Proof. intros H. unfold encode_rune, valid_rune. split_bools; reflexivity. Qed.

Lemma encode_rune_3 r : 2048 <= r < 65536 -> ~ (55296 <= r <= 57343) ->
  encode_rune r = [224 + r / 4096; 128 + (r / 64) mod 64; 128 + r mod 64].
Proof. intros H H'. unfold encode_rune, valid_rune. split_bools; reflexivity. Qed.

Lemma encode_rune_4 r : 65536 <= r <= 1114111 ->
  encode_rune r = [240 + r / 262144; 128 + (r / 4096) mod 64; 128 + (r / 64) mod 64; 128 + r mod 64].
Proof. intros H. unfold encode_rune, valid_rune. split_bools; reflexivity. Qed.

Lemma list2_eq (a b a' b' : Z) : a = a' -> b = b' -> [a; b] = [a'; b'].
Proof. intros -> ->. reflexivity. Qed.
Lemma list3_eq (a b c a' b' c' : Z) : a = a' -> b = b' -> c = c' -> [a; b; c] = [a'; b'; c'].
Proof. intros -> -> ->. reflexivity. Qed.
Lemma list4_eq (a b c d a' b' c' d' : Z) :
  a = a' -> b = b' -> c = c' -> d = d' -> [a; b; c; d] = [a'; b'; c'; d'].
Proof. intros -> -> -> ->. reflexivity. Qed.

(* a successful decode of a non-ASCII head consumed exactly one well-formed sequence, which is
   also what [encode_rune] produces for the decoded value *)
Lemma decode_rune_multi b0 t r rest :
  128 <= b0 -> decode_rune (b0 :: t) = Some (r, rest) ->
  exists sq, b0 :: t = sq ++ rest /\ utf8_seq sq /\ encode_rune r = sq /\
             (forall rest', decode_rune (sq ++ rest') = Some (r, rest')).
Proof.
  intros Hb. unfold decode_rune at 1.
  pose proof (proj2 (Z.ltb_ge b0 128) Hb) as E1. rewrite E1.
  destruct (in_range 194 223 b0) eqn:E2.
  { destruct t as [|b1 t1]; [intros H; discriminate H|].
    destruct (cont b1) eqn:C1; [|intros H; discriminate H].
    intros H. injection H as <- <-.
    pose proof (proj1 (in_range_iff _ _ _) E2) as P2.
    pose proof (proj1 (in_range_iff _ _ _) C1) as Q1.
    exists [b0; b1]. split; [reflexivity|]. split; [unfold utf8_seq; lia|]. split.
    - rewrite encode_rune_2 by lia. apply list2_eq; Z.div_mod_to_equations; lia.
    - intros rest'. cbn [app]. unfold decode_rune. rewrite E1, E2, C1. reflexivity. }
  destruct (in_range 224 239 b0) eqn:E3.
  { destruct t as [|b1 [|b2 t2]]; [intros H; discriminate H|intros H; discriminate H|].
    cbv zeta.
    destruct (in_range (if b0 =? 224 then 160 else 128) (if b0 =? 237 then 159 else 191) b1 && cont b2)
      eqn:C; [|intros H; discriminate H].
    intros H. injection H as <- <-.
    assert (Happ : forall rest', decode_rune ([b0; b1; b2] ++ rest') =
                                 Some ((b0 - 224) * 4096 + (b1 - 128) * 64 + (b2 - 128), rest')).
    { intros rest'. cbn [app]. unfold decode_rune. cbv zeta. rewrite E1, E2, E3, C. reflexivity. }
    pose proof (proj1 (in_range_iff _ _ _) E3) as P3.
    apply andb_true_iff in C. destruct C as [Q1 Q2].
    apply in_range_iff in Q1. apply in_range_iff in Q2. revert Q1.
    destruct (Z.eqb_spec b0 224) as [F1|F1]; destruct (Z.eqb_spec b0 237) as [F2|F2]; intros Q1;
      try (exfalso; lia).
    all: exists [b0; b1; b2]; (split; [reflexivity|]); (split; [unfold utf8_seq; lia|]);
      (split; [|exact Happ]); rewrite encode_rune_3 by lia;
      apply list3_eq; Z.div_mod_to_equations; lia. }
  destruct (in_range 240 244 b0) eqn:E4; [|intros H; discriminate H].
  destruct t as [|b1 [|b2 [|b3 t3]]];
    [intros H; discriminate H|intros H; discriminate H|intros H; discriminate H|].
  cbv zeta.
  destruct (in_range (if b0 =? 240 then 144 else 128) (if b0 =? 244 then 143 else 191) b1
            && cont b2 && cont b3) eqn:C; [|intros H; discriminate H].
  intros H. injection H as <- <-.
  assert (Happ : forall rest', decode_rune ([b0; b1; b2; b3] ++ rest') =
    Some ((b0 - 240) * 262144 + (b1 - 128) * 4096 + (b2 - 128) * 64 + (b3 - 128), rest')).
  { intros rest'. cbn [app]. unfold decode_rune. cbv zeta. rewrite E1, E2, E3, E4, C. reflexivity. }
  pose proof (proj1 (in_range_iff _ _ _) E4) as P4.
  apply andb_true_iff in C. destruct C as [C Q3]. apply andb_true_iff in C. destruct C as [Q1 Q2].
  apply in_range_iff in Q1. apply in_range_iff in Q2. apply in_range_iff in Q3. revert Q1.
  destruct (Z.eqb_spec b0 240) as [F1|F1]; destruct (Z.eqb_spec b0 244) as [F2|F2]; intros Q1;
    try (exfalso; lia).
  all: exists [b0; b1; b2; b3]; (split; [reflexivity|]); (split; [unfold utf8_seq; lia|]);
    (split; [|exact Happ]); rewrite encode_rune_4 by lia;
    apply list4_eq; Z.div_mod_to_equations; lia.
Qed.

(* ---------------------------------------------------------------- validity as an invariant *)

Definition valid (s : bytes) : Prop := exists fuel, utf8_valid_f fuel s = true.

Lemma valid_of_utf8_valid s : utf8_valid s = true -> valid s.
Proof. intros H. exists (length s). exact H. Qed.

Lemma valid_inv c t : valid (c :: t) ->
  exists r rest, decode_rune (c :: t) = Some (r, rest) /\ valid rest.
Proof.
  intros [fuel H]. destruct fuel as [|f]; cbn [utf8_valid_f] in H; [discriminate H|].
  destruct (decode_rune (c :: t)) as [[r rest]|]; [|discriminate H].
  exists r, rest. split; [reflexivity|]. exists f. exact H.
Qed.

Lemma valid_ascii_tail c t : valid (c :: t) -> c < 128 -> valid t.
Proof.
  intros Hv Hc. destruct (valid_inv _ _ Hv) as (r & rest & Hd & Hr).
  rewrite (decode_rune_ascii _ _ Hc) in Hd. injection Hd as _ <-. exact Hr.
Qed.

Lemma valid_peel ds : forall s, ascii ds = true -> valid (ds ++ s) -> valid s.
Proof.
  induction ds as [|d ds IH]; intros s Ha Hv; [exact Hv|].
  apply ascii_cons in Ha. destruct Ha as [Hd Ha].
  apply IH; [exact Ha|]. exact (valid_ascii_tail d (ds ++ s) Hv Hd).
Qed.

Lemma wf_bytes_app_r a b : wf_bytes (a ++ b) = true -> wf_bytes b = true.
Proof. unfold wf_bytes. rewrite forallb_app, andb_true_iff. tauto. Qed.

(* ---------------------------------------------------------------- one step of the slow path *)

Ltac simple_case e s2 Hv :=
  let H := fresh "H" in let o := fresh "o" in let Ho := fresh "Ho" in
  intros H; injection H as <- <-; right; exists [92; e], s2;
  split; [reflexivity|]; split; [reflexivity|]; split;
  [apply (valid_peel [92; e] s2); [reflexivity|exact Hv]
  |intros o Ho; cbn [app]; apply D_simple; [unfold simple_escape; lia|exact Ho]].

Lemma unquote_char_sound c s1 out rest :
  0 <= c -> valid (c :: s1) -> c <> 34 -> c <> 10 ->
  unquote_char ((c :: s1) ++ [34]) = Some (out, rest) ->
  rest = [] \/
  exists item s', c :: s1 = item ++ s' /\ rest = s' ++ [34] /\ valid s' /\
                  forall o, denotes_payload s' o -> denotes_payload (c :: s1) (out ++ o).
Proof.
  intros Hc0 Hv H34 H10. cbn [app]. unfold unquote_char.
  rewrite (eqb_false _ _ H34).
  destruct (Z.leb_spec 128 c) as [E128|E128].
  { (* a raw multi-byte character *)
    destruct (valid_inv _ _ Hv) as (r & rest0 & Hd & Hv').
    destruct (decode_rune_multi _ _ _ _ E128 Hd) as (sq & Hsq & Hseq & Henc & Happ).
    change (c :: s1 ++ [34]) with ((c :: s1) ++ [34]). rewrite Hsq, <- app_assoc, Happ.
    intros H. injection H as <- <-. right. exists sq, rest0.
    split; [reflexivity|]. split; [reflexivity|]. split; [exact Hv'|].
    intros o Ho. rewrite Henc. apply D_utf8; assumption. }
  destruct (Z.eqb_spec c 92) as [->|N92]; cbn [negb].
  2: { (* a raw ASCII byte *)
    intros H. injection H as <- <-. right. exists [c], s1.
    split; [reflexivity|]. split; [reflexivity|]. split; [exact (valid_ascii_tail _ _ Hv E128)|].
    intros o Ho. cbn [app]. apply D_raw; [lia|exact H34|exact N92|exact H10|exact Ho]. }
  destruct s1 as [|e s2]; cbn [app].
  { intros H. vm_compute in H. injection H as _ <-. left. reflexivity. }
  destruct (Z.eqb_spec e 97) as [->|N97]; [simple_case 97 s2 Hv|].
  destruct (Z.eqb_spec e 98) as [->|N98]; [simple_case 98 s2 Hv|].
  destruct (Z.eqb_spec e 102) as [->|N102]; [simple_case 102 s2 Hv|].
  destruct (Z.eqb_spec e 110) as [->|N110]; [simple_case 110 s2 Hv|].
  destruct (Z.eqb_spec e 114) as [->|N114]; [simple_case 114 s2 Hv|].
  destruct (Z.eqb_spec e 116) as [->|N116]; [simple_case 116 s2 Hv|].
  destruct (Z.eqb_spec e 118) as [->|N118]; [simple_case 118 s2 Hv|].
  destruct (Z.eqb_spec e 120) as [->|N120].
  { destruct (hex_val 2 0 (s2 ++ [34])) as [[v r]|] eqn:Hh; [|intros H; discriminate H].
    intros H. injection H as <- <-.
    destruct (hex_val2_sound _ _ _ Hh) as (h1 & h2 & x1 & x2 & s' & -> & -> & Hx1 & Hx2 & ->).
    right. exists [92; 120; h1; h2], s'.
    split; [reflexivity|]. split; [reflexivity|]. split.
    - apply (valid_peel [92; 120; h1; h2] s'); [|exact Hv].
      pose proof (hexdig_ascii _ _ Hx1). pose proof (hexdig_ascii _ _ Hx2).
      rewrite !ascii_cons. repeat split; try lia.
    - intros o Ho. cbn [app]. apply D_hex; assumption. }
  destruct (Z.eqb_spec e 117) as [->|N117].
  { destruct (hex_val 4 0 (s2 ++ [34])) as [[v r]|] eqn:Hh; [|intros H; discriminate H].
    destruct (valid_rune v) eqn:Vr; [|intros H; discriminate H].
    intros H. injection H as <- <-.
    destruct (hex_val_sound _ _ _ _ _ Hh) as (ds & xs & s' & -> & -> & Hl & HF & Hval).
    right. exists (92 :: 117 :: ds), s'.
    split; [reflexivity|]. split; [reflexivity|]. split.
    - apply (valid_peel (92 :: 117 :: ds) s'); [|exact Hv].
      rewrite !ascii_cons. split; [lia|]. split; [lia|]. exact (hexdigs_ascii _ _ HF).
    - intros o Ho. apply D_u; [exact Hl|exists xs; split; assumption|apply valid_rune_iff; exact Vr|exact Ho]. }
  destruct (Z.eqb_spec e 85) as [->|N85].
  { destruct (hex_val 8 0 (s2 ++ [34])) as [[v r]|] eqn:Hh; [|intros H; discriminate H].
    destruct (valid_rune v) eqn:Vr; [|intros H; discriminate H].
    intros H. injection H as <- <-.
    destruct (hex_val_sound _ _ _ _ _ Hh) as (ds & xs & s' & -> & -> & Hl & HF & Hval).
    right. exists (92 :: 85 :: ds), s'.
    split; [reflexivity|]. split; [reflexivity|]. split.
    - apply (valid_peel (92 :: 85 :: ds) s'); [|exact Hv].
      rewrite !ascii_cons. split; [lia|]. split; [lia|]. exact (hexdigs_ascii _ _ HF).
    - intros o Ho. apply D_U; [exact Hl|exists xs; split; assumption|apply valid_rune_iff; exact Vr|exact Ho]. }
  destruct (is_octal e) eqn:Oe.
  { destruct s2 as [|d1 [|d2 s3]]; cbn [app].
    - intros H; discriminate H.
    - change (is_octal 34) with false. rewrite andb_false_r. intros H; discriminate H.
    - destruct (is_octal d1) eqn:O1; [|intros H; discriminate H].
      destruct (is_octal d2) eqn:O2; [|intros H; discriminate H].
      cbn [andb]. cbv zeta.
      destruct (_ <=? 255) eqn:Le; [|intros H; discriminate H].
      intros H. injection H as <- <-.
      apply in_range_iff in Oe. apply in_range_iff in O1. apply in_range_iff in O2.
      apply Z.leb_le in Le.
      right. exists [92; e; d1; d2], s3.
      split; [reflexivity|]. split; [reflexivity|]. split.
      + apply (valid_peel [92; e; d1; d2] s3); [|exact Hv].
        rewrite !ascii_cons. repeat split; try lia.
      + intros o Ho. cbn [app].
        apply D_oct; [exact Oe|exact O1|exact O2|reflexivity|exact Le|exact Ho]. }
  destruct (Z.eqb_spec e 92) as [->|N92']; [simple_case 92 s2 Hv|].
  destruct (Z.eqb_spec e 34) as [->|N34']; [simple_case 34 s2 Hv|].
  intros H; discriminate H.
Qed.

Lemma unquote_loop_nil f : unquote_loop f [] = None.
Proof. destruct f; reflexivity. Qed.

Lemma unquote_loop_sound fuel : forall s bs,
  wf_bytes s = true -> valid s -> unquote_loop fuel (s ++ [34]) = Some bs -> denotes_payload s bs.
Proof.
  induction fuel as [|f IH]; intros s bs Hwf Hv; [intros H; discriminate H|].
  destruct s as [|c s1].
  - intros H. cbn in H. injection H as <-. constructor.
  - cbn [app unquote_loop].
    destruct (Z.eqb_spec c 34) as [->|N34]; [destruct s1; cbn [app]; intros H; discriminate H|].
    destruct (Z.eqb_spec c 10) as [->|N10]; [intros H; discriminate H|].
    destruct (unquote_char (c :: s1 ++ [34])) as [[out rest]|] eqn:Hu; [|intros H; discriminate H].
    destruct (unquote_loop f rest) as [o|] eqn:Hl; [|intros H; discriminate H].
    intros H. injection H as <-.
    assert (Hc0 : 0 <= c).
    { cbn [wf_bytes forallb] in Hwf. apply andb_true_iff in Hwf. destruct Hwf as [Hb _].
      apply is_byte_iff in Hb. lia. }
    destruct (unquote_char_sound c s1 out rest Hc0 Hv N34 N10 Hu)
      as [->|(item & s' & Hs & -> & Hv' & Hd)].
    + rewrite unquote_loop_nil in Hl. discriminate Hl.
    + apply Hd. apply (IH s' o); [|exact Hv'|exact Hl].
      rewrite Hs in Hwf. exact (wf_bytes_app_r _ _ Hwf).
Qed.

(* ---------------------------------------------------------------- the fast path *)

Lemma mem_app_false c a b : mem c (a ++ b) = false -> mem c b = false.
Proof. rewrite mem_app, orb_false_iff. tauto. Qed.

Lemma raw_denotes fuel : forall s,
  wf_bytes s = true -> utf8_valid_f fuel s = true ->
  mem 34 s = false -> mem 92 s = false -> mem 10 s = false -> denotes_payload s s.
Proof.
  induction fuel as [|f IH]; intros s Hwf Hv H34 H92 H10; destruct s as [|c t]; try apply D_nil.
  - discriminate Hv.
  - cbn [utf8_valid_f] in Hv.
    destruct (decode_rune (c :: t)) as [[r rest]|] eqn:Hd; [|discriminate Hv].
    destruct (Z.ltb_spec c 128) as [Hc|Hc].
    + rewrite (decode_rune_ascii _ _ Hc) in Hd. injection Hd as <- <-.
      apply mem_cons_false in H34. apply mem_cons_false in H92. apply mem_cons_false in H10.
      cbn [wf_bytes forallb] in Hwf. apply andb_true_iff in Hwf. destruct Hwf as [Hb Hwf].
      apply is_byte_iff in Hb.
      apply D_raw; [lia|tauto|tauto|tauto|]. apply IH; tauto.
    + destruct (decode_rune_multi _ _ _ _ Hc Hd) as (sq & Hsq & Hseq & _ & _).
      rewrite Hsq in Hwf, H34, H92, H10 |- *.
      apply D_utf8; [exact Hseq|].
      apply IH; [exact (wf_bytes_app_r _ _ Hwf)|exact Hv|
                 exact (mem_app_false _ _ _ H34)|exact (mem_app_false _ _ _ H92)|exact (mem_app_false _ _ _ H10)].
Qed.

Lemma until_quote_full s : length (until_quote s) = length s -> mem 34 s = false.
Proof.
  induction s as [|c s IH]; [reflexivity|]. cbn [until_quote].
  destruct (Z.eqb_spec c 34) as [->|N]; cbn [length]; intros H; [discriminate H|].
  apply mem_cons_false. split; [exact N|]. apply IH. congruence.
Qed.

(* Every accepted payload text is a sentence of the grammar and the result is what it denotes. *)
Theorem payload_exact : forall s bs,
  wf_bytes s = true -> parse_payload s = Some bs -> denotes_payload s bs.
Proof.
  intros s bs Hwf. unfold parse_payload.
  destruct (utf8_valid s) eqn:Hv; [|intros H; discriminate H].
  unfold unquote_body. cbv zeta.
  destruct (negb (mem 92 (until_quote s)) && negb (mem 10 (until_quote s)) && utf8_valid (until_quote s))
    eqn:C.
  - destruct (Nat.eqb (length (until_quote s)) (length s)) eqn:L; [|intros H; discriminate H].
    intros H. injection H as <-.
    apply Nat.eqb_eq in L. apply until_quote_full in L.
    rewrite (until_quote_id _ L) in C.
    apply andb_true_iff in C. destruct C as [C _]. apply andb_true_iff in C. destruct C as [C1 C2].
    apply negb_true_iff in C1. apply negb_true_iff in C2.
    exact (raw_denotes (length s) s Hwf Hv L C1 C2).
  - intros H. exact (unquote_loop_sound _ s bs Hwf (valid_of_utf8_valid _ Hv) H).
Qed.

(* ---------------------------------------------------------------- 5. the converse: the grammar is accepted *)

Lemma utf8_seq_decode sq : utf8_seq sq ->
  exists b0 t r, sq = b0 :: t /\ 128 <= b0 /\
                 (forall rest, decode_rune (sq ++ rest) = Some (r, rest)).
Proof.
  intros H. destruct sq as [|b0 [|b1 [|b2 [|b3 [|b4 t]]]]]; unfold utf8_seq in H; try contradiction.
  - exists b0, [b1], ((b0 - 192) * 64 + (b1 - 128)).
    split; [reflexivity|]. split; [lia|]. intros rest. cbn [app]. unfold decode_rune.
    rewrite (proj2 (Z.ltb_ge b0 128)) by lia. rewrite (proj2 (in_range_iff 194 223 b0)) by lia.
    unfold cont. rewrite (proj2 (in_range_iff 128 191 b1)) by lia. reflexivity.
  - exists b0, [b1; b2], ((b0 - 224) * 4096 + (b1 - 128) * 64 + (b2 - 128)).
    split; [reflexivity|]. split; [lia|]. intros rest. cbn [app]. unfold decode_rune.
    rewrite (proj2 (Z.ltb_ge b0 128)) by lia. rewrite (proj2 (in_range_false 194 223 b0)) by lia.
    rewrite (proj2 (in_range_iff 224 239 b0)) by lia. cbv iota zeta.
    unfold cont. rewrite (proj2 (in_range_iff 128 191 b2)) by lia.
    rewrite (proj2 (in_range_iff _ _ b1))
      by (destruct (Z.eqb_spec b0 224); destruct (Z.eqb_spec b0 237); lia).
    reflexivity.
  - exists b0, [b1; b2; b3],
      ((b0 - 240) * 262144 + (b1 - 128) * 4096 + (b2 - 128) * 64 + (b3 - 128)).
    split; [reflexivity|]. split; [lia|]. intros rest. cbn [app]. unfold decode_rune.
    rewrite (proj2 (Z.ltb_ge b0 128)) by lia. rewrite (proj2 (in_range_false 194 223 b0)) by lia.
    rewrite (proj2 (in_range_false 224 239 b0)) by lia.
    rewrite (proj2 (in_range_iff 240 244 b0)) by lia. cbv iota zeta.
    unfold cont. rewrite (proj2 (in_range_iff 128 191 b2)) by lia.
    rewrite (proj2 (in_range_iff 128 191 b3)) by lia.
    rewrite (proj2 (in_range_iff _ _ b1))
      by (destruct (Z.eqb_spec b0 240); destruct (Z.eqb_spec b0 244); lia).
    reflexivity.
Qed.

Lemma utf8_seq_encode sq : utf8_seq sq ->
  exists b0 t r, sq = b0 :: t /\ 128 <= b0 /\ encode_rune r = sq /\
                 (forall rest, decode_rune (sq ++ rest) = Some (r, rest)).
Proof.
  intros H. destruct (utf8_seq_decode sq H) as (b0 & t & r & -> & Hb & Hd).
  exists b0, t, r. split; [reflexivity|]. split; [exact Hb|]. split; [|exact Hd].
  pose proof (Hd []) as Hd0. rewrite app_nil_r in Hd0.
  destruct (decode_rune_multi _ _ _ _ Hb Hd0) as (sq' & Hsq & _ & Henc & _).
  rewrite app_nil_r in Hsq. congruence.
Qed.

Lemma utf8_seq_high sq : utf8_seq sq -> forall b, In b sq -> 128 <= b.
Proof.
  intros H. destruct sq as [|b0 [|b1 [|b2 [|b3 [|b4 t]]]]]; unfold utf8_seq in H; try contradiction;
    intros b Hb; cbn [In] in Hb; lia.
Qed.

Lemma utf8_seq_length sq : utf8_seq sq -> (2 <= length sq)%nat.
Proof.
  intros H. destruct sq as [|b0 [|b1 t]]; unfold utf8_seq in H; try contradiction. cbn [length]. lia.
Qed.

Lemma hex_val_complete ds xs : Forall2 hexdig ds xs ->
  forall acc r, hex_val (length ds) acc (ds ++ r) = Some (hexfold xs acc, r).
Proof.
  induction 1 as [|c x ds xs Hc _ IH]; intros acc r; [reflexivity|].
  cbn [length app hex_val]. rewrite (proj2 (unhex_iff c x) Hc). apply IH.
Qed.

(* validity of a sentence *)
Lemma valid_f_ascii_app ds rest :
  ascii ds = true ->
  (forall f, (length rest <= f)%nat -> utf8_valid_f f rest = true) ->
  forall f, (length (ds ++ rest) <= f)%nat -> utf8_valid_f f (ds ++ rest) = true.
Proof.
  intros Ha Hr. induction ds as [|d ds IH]; intros f Hl; [apply Hr; exact Hl|].
  apply ascii_cons in Ha. destruct Ha as [Hd Ha].
  cbn [app length] in Hl. destruct f as [|f]; [lia|].
  cbn [app utf8_valid_f]. rewrite (decode_rune_ascii _ _ Hd). apply IH; [exact Ha|lia].
Qed.

Lemma hex_number_ascii ds v : hex_number ds v -> ascii ds = true.
Proof. intros (xs & HF & _). exact (hexdigs_ascii _ _ HF). Qed.

Lemma denotes_valid s bs : denotes_payload s bs ->
  forall f, (length s <= f)%nat -> utf8_valid_f f s = true.
Proof.
  induction 1 as [|c rest o Hc N34 N92 N10 _ IH|sq rest o Hsq _ IH|e v rest o He _ IH
                 |h1 h2 x1 x2 rest o Hx1 Hx2 _ IH|d0 d1 d2 v rest o O0 O1 O2 Hv Hle _ IH
                 |ds v rest o Hl Hn Hs _ IH|ds v rest o Hl Hn Hs _ IH].
  - intros f _. destruct f; reflexivity.
  - apply (valid_f_ascii_app [c] rest); [|exact IH]. apply ascii_cons. split; [lia|reflexivity].
  - intros f Hl. destruct (utf8_seq_decode sq Hsq) as (b0 & t & r & E & Hb & Hd).
    pose proof (utf8_seq_length sq Hsq) as L2. rewrite app_length in Hl.
    destruct f as [|f]; [lia|].
    rewrite E. cbn [app utf8_valid_f]. change (b0 :: t ++ rest) with ((b0 :: t) ++ rest).
    rewrite <- E, Hd. apply IH. lia.
  - apply (valid_f_ascii_app [92; e] rest); [|exact IH].
    rewrite !ascii_cons. unfold simple_escape in He. repeat split; lia.
  - apply (valid_f_ascii_app [92; 120; h1; h2] rest); [|exact IH].
    pose proof (hexdig_ascii _ _ Hx1). pose proof (hexdig_ascii _ _ Hx2).
    rewrite !ascii_cons. repeat split; lia.
  - apply (valid_f_ascii_app [92; d0; d1; d2] rest); [|exact IH].
    unfold octdig in *. rewrite !ascii_cons. repeat split; lia.
  - apply (valid_f_ascii_app (92 :: 117 :: ds) rest); [|exact IH].
    rewrite !ascii_cons. split; [lia|]. split; [lia|]. exact (hex_number_ascii _ _ Hn).
  - apply (valid_f_ascii_app (92 :: 85 :: ds) rest); [|exact IH].
    rewrite !ascii_cons. split; [lia|]. split; [lia|]. exact (hex_number_ascii _ _ Hn).
Qed.

(* one step of the loop per item *)
Lemma loop_item c t rest out o fuel :
  c <> 34 -> c <> 10 ->
  unquote_char ((c :: t) ++ rest ++ [34]) = Some (out, rest ++ [34]) ->
  (forall f, (length rest < f)%nat -> unquote_loop f (rest ++ [34]) = Some o) ->
  (length ((c :: t) ++ rest) < fuel)%nat ->
  unquote_loop fuel (((c :: t) ++ rest) ++ [34]) = Some (out ++ o).
Proof.
  intros N34 N10 Hu IH Hl. destruct fuel as [|f]; [lia|].
  rewrite <- app_assoc. cbn [app] in *.
  rewrite (unquote_loop_step f c _ out (rest ++ [34]) N34 N10 Hu).
  rewrite IH; [reflexivity|]. cbn [length] in Hl. rewrite app_length in Hl. lia.
Qed.

Lemma unquote_char_raw c q : c < 128 -> c <> 34 -> c <> 92 -> unquote_char (c :: q) = Some ([c], q).
Proof.
  intros Hc N34 N92. unfold unquote_char.
  rewrite (eqb_false _ _ N34), (proj2 (Z.leb_gt 128 c) Hc), (eqb_false _ _ N92). reflexivity.
Qed.

Lemma unquote_char_utf8 sq q : utf8_seq sq -> unquote_char (sq ++ q) = Some (sq, q).
Proof.
  intros H. destruct (utf8_seq_encode sq H) as (b0 & t & r & E & Hb & Henc & Hd).
  pose proof (Hd q) as Hq. rewrite E in Hq |- *. cbn [app] in Hq |- *. unfold unquote_char.
  rewrite (eqb_false b0 34) by lia. rewrite (proj2 (Z.leb_le 128 b0) Hb), Hq, Henc, E. reflexivity.
Qed.

Lemma unquote_char_simple e v q : simple_escape e v -> unquote_char (92 :: e :: q) = Some ([v], q).
Proof.
  unfold simple_escape. intros H.
  repeat (destruct H as [[-> ->]|H]; [reflexivity|]). destruct H as [-> ->]. reflexivity.
Qed.

Lemma unquote_char_oct d0 d1 d2 q :
  octdig d0 -> octdig d1 -> octdig d2 ->
  ((d0 - 48) * 8 + (d1 - 48)) * 8 + (d2 - 48) <= 255 ->
  unquote_char (92 :: d0 :: d1 :: d2 :: q) = Some ([((d0 - 48) * 8 + (d1 - 48)) * 8 + (d2 - 48)], q).
Proof.
  unfold octdig. intros O0 O1 O2 Hle. unfold unquote_char.
  change (92 =? 34) with false. change (128 <=? 92) with false. change (92 =? 92) with true.
  cbn [negb].
  repeat match goal with |- context [d0 =? ?k] => rewrite (eqb_false d0 k) by lia end.
  unfold is_octal. rewrite !(proj2 (in_range_iff 48 55 _)) by lia.
  cbv iota zeta. cbn [andb]. rewrite (proj2 (Z.leb_le _ 255) Hle). reflexivity.
Qed.

Lemma unquote_char_u ds v q :
  length ds = 4%nat -> hex_number ds v -> scalar_value v ->
  unquote_char (92 :: 117 :: ds ++ q) = Some (encode_rune v, q).
Proof.
  intros Hl (xs & HF & ->) Hs. pose proof (hex_val_complete ds xs HF 0 q) as Hh. rewrite Hl in Hh.
  unfold unquote_char. rewrite Hh, (proj2 (valid_rune_iff _) Hs). reflexivity.
Qed.

Lemma unquote_char_U ds v q :
  length ds = 8%nat -> hex_number ds v -> scalar_value v ->
  unquote_char (92 :: 85 :: ds ++ q) = Some (encode_rune v, q).
Proof.
  intros Hl (xs & HF & ->) Hs. pose proof (hex_val_complete ds xs HF 0 q) as Hh. rewrite Hl in Hh.
  unfold unquote_char. rewrite Hh, (proj2 (valid_rune_iff _) Hs). reflexivity.
Qed.

Lemma denotes_loop s bs : denotes_payload s bs ->
  forall fuel, (length s < fuel)%nat -> unquote_loop fuel (s ++ [34]) = Some bs.
Proof.
  induction 1 as [|c rest o Hc N34 N92 N10 _ IH|sq rest o Hsq _ IH|e v rest o He _ IH
                 |h1 h2 x1 x2 rest o Hx1 Hx2 _ IH|d0 d1 d2 v rest o O0 O1 O2 Hv Hle _ IH
                 |ds v rest o Hl Hn Hs _ IH|ds v rest o Hl Hn Hs _ IH]; intros fuel Hf.
  - destruct fuel as [|f]; [cbn in Hf; lia|reflexivity].
  - apply (loop_item c [] rest [c] o fuel N34 N10); [|exact IH|exact Hf].
    apply unquote_char_raw; [lia|exact N34|exact N92].
  - destruct (utf8_seq_decode sq Hsq) as (b0 & t & r & E & Hb & _).
    pose proof (unquote_char_utf8 sq (rest ++ [34]) Hsq) as Hu. subst sq.
    apply (loop_item b0 t rest (b0 :: t) o fuel); [lia|lia|exact Hu|exact IH|exact Hf].
  - apply (loop_item 92 [e] rest [v] o fuel); [lia|lia| |exact IH|exact Hf].
    apply unquote_char_simple. exact He.
  - apply (loop_item 92 [120; h1; h2] rest [16 * x1 + x2] o fuel); [lia|lia| |exact IH|exact Hf].
    cbn [app]. rewrite (unquote_char_hex h1 h2 x1 x2 _ (proj2 (unhex_iff _ _) Hx1) (proj2 (unhex_iff _ _) Hx2)).
    f_equal. f_equal. f_equal. lia.
  - apply (loop_item 92 [d0; d1; d2] rest [v] o fuel); [lia|lia| |exact IH|exact Hf].
    subst v. apply unquote_char_oct; assumption.
  - apply (loop_item 92 (117 :: ds) rest (encode_rune v) o fuel); [lia|lia| |exact IH|exact Hf].
    cbn [app]. apply unquote_char_u; assumption.
  - apply (loop_item 92 (85 :: ds) rest (encode_rune v) o fuel); [lia|lia| |exact IH|exact Hf].
    cbn [app]. apply unquote_char_U; assumption.
Qed.

(* without a backslash before the first dquote there is no escape at all *)
Lemma until_quote_app_high sq rest :
  (forall b, In b sq -> b <> 34) -> until_quote (sq ++ rest) = sq ++ until_quote rest.
Proof.
  induction sq as [|x sq IH]; intros H; [reflexivity|].
  cbn [app until_quote]. rewrite (eqb_false x 34) by (apply H; left; reflexivity).
  rewrite IH; [reflexivity|]. intros b Hb. apply H. right. exact Hb.
Qed.

Lemma mem_until_quote_escape x : mem 92 (until_quote (92 :: x)) = true.
Proof. reflexivity. Qed.

Lemma denotes_no_escape s bs : denotes_payload s bs ->
  mem 92 (until_quote s) = false -> until_quote s = s /\ bs = s.
Proof.
  induction 1 as [|c rest o Hc N34 N92 N10 _ IH|sq rest o Hsq _ IH|e v rest o He _ IH
                 |h1 h2 x1 x2 rest o Hx1 Hx2 _ IH|d0 d1 d2 v rest o O0 O1 O2 Hv Hle _ IH
                 |ds v rest o Hl Hn Hs _ IH|ds v rest o Hl Hn Hs _ IH]; intros Hm;
    try (rewrite mem_until_quote_escape in Hm; discriminate Hm).
  - split; reflexivity.
  - cbn [until_quote] in Hm |- *. rewrite (eqb_false _ _ N34) in Hm |- *.
    apply mem_cons_false in Hm. destruct Hm as [_ Hm]. destruct (IH Hm) as [E1 E2].
    rewrite E1, E2. split; reflexivity.
  - assert (Hh : forall b, In b sq -> b <> 34).
    { intros b Hb. pose proof (utf8_seq_high sq Hsq b Hb). lia. }
    rewrite (until_quote_app_high sq rest Hh) in Hm |- *.
    rewrite mem_app in Hm. apply orb_false_iff in Hm. destruct Hm as [_ Hm].
    destruct (IH Hm) as [E1 E2]. rewrite E1, E2. split; reflexivity.
Qed.

(* Every sentence of the grammar is accepted, with the denoted bytes as the result. *)
Theorem payload_complete : forall s bs, denotes_payload s bs -> parse_payload s = Some bs.
Proof.
  intros s bs H. unfold parse_payload.
  assert (Hv : utf8_valid s = true) by (apply (denotes_valid _ _ H); apply Nat.le_refl).
  rewrite Hv. unfold unquote_body. cbv zeta.
  destruct (negb (mem 92 (until_quote s)) && negb (mem 10 (until_quote s)) && utf8_valid (until_quote s))
    eqn:C.
  - apply andb_true_iff in C. destruct C as [C _]. apply andb_true_iff in C. destruct C as [C1 _].
    apply negb_true_iff in C1. destruct (denotes_no_escape _ _ H C1) as [E ->].
    rewrite E, Nat.eqb_refl. reflexivity.
  - apply (denotes_loop _ _ H). apply Nat.lt_succ_diag_r.
Qed.

(* The parser accepts exactly the grammar. *)
Theorem payload_grammar_iff : forall s bs,
  wf_bytes s = true -> (parse_payload s = Some bs <-> denotes_payload s bs).
Proof. intros s bs Hwf. split; [apply payload_exact; exact Hwf|apply payload_complete]. Qed.

(* hence the grammar is unambiguous about the denoted bytes *)
Corollary denotes_payload_functional : forall s bs bs',
  denotes_payload s bs -> denotes_payload s bs' -> bs = bs'.
Proof.
  intros s bs bs' H H'. apply payload_complete in H. apply payload_complete in H'. congruence.
Qed.

Print Assumptions payload_hex_roundtrip.
Print Assumptions payload_literal.
Print Assumptions payload_ascii_literal.
Print Assumptions payload_v0_replaces_ill_formed.
Print Assumptions payload_rejects_ill_formed.
Print Assumptions payload_exact.
Print Assumptions payload_complete.
Print Assumptions payload_grammar_iff.
Print Assumptions denotes_payload_functional.
