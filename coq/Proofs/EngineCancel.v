(* C12 for the application-scan network: from EVERY reachable state in which the context has been
   cancelled there is a continuation in which the call to startScanEngine returns -- every goroutine
   it waits for (logger, error drain) finishes, the result and error streams come to an end -- so
   only an unfair scheduler could keep the call from returning.  For every W, request list, Scan
   outcome and every state reached by any schedule with cancellation at any moment. *)
From stdpp Require Import gmultiset list sets.
From SX Require Import Base.Net Model.AppEngine Proofs.AppEngineProofs.

Section cancel.
Variable W : nat.
Variable scan_out : nat -> scan_res.
Variable reqs : list (nat * bool).
Variable cap : nat.
Notation beh := (beh W scan_out).
Notation net := (net val loc ev).
Notation n0 := (init W cap reqs).

Definition p_sup : nat := W + 1.
Definition p_copier : nat := W + 2.
Definition p_caller : nat := W + 5.

Ltac alt_in := repeat first [apply elem_of_list_here | apply elem_of_list_further].

(* [good m]: m is reachable from the initial state and cancelled *)
Definition good (m : net) : Prop := reachable beh n0 m /\ cancelled m = true.

Lemma good_step m m' : good m -> nstep beh m m' -> good m'.
Proof. intros [Hr Hc] Hs. split; [eapply RS; eauto|eapply cancelled_mono; eauto]. Qed.

(* what a reachable state looks like at index j *)
Lemma state_at m j r : reachable beh n0 m -> layout W !! j = Some r ->
  exists l, procs m !! j = Some l /\ role_of l = r /\ PL scan_out reqs l.
Proof.
  intros Hr Hj.
  pose proof (engine_safe W scan_out cap reqs m Hr) as (Hroles & _).
  pose proof (engine_typed W scan_out reqs cap m Hr) as [[HPL _] _].
  rewrite <- Hroles in Hj. unfold roles_of in Hj. rewrite list_lookup_fmap in Hj.
  destruct (procs m !! j) as [l|] eqn:E; [|discriminate]. injection Hj as <-.
  exists l. repeat split; auto. eapply Forall_lookup_1; eauto.
Qed.

Lemma chan_at m c : reachable beh n0 m -> c < 5 -> exists ch, chans m !! c = Some ch.
Proof.
  intros Hr Hc. apply lookup_lt_is_Some_2.
  assert (Hlen : forall a b, nstep beh a b -> length (chans b) = length (chans a)).
  { intros a b Hs. destruct Hs; simpl; rewrite ?insert_length; reflexivity. }
  assert (length (chans m) = 5); [|lia].
  induction Hr; [reflexivity|]. rewrite (Hlen _ _ H). assumption.
Qed.

(* a closed channel is not live for anybody: whoever is about to close c finds it open *)
Lemma open_for_closer m i l c k ch :
  reachable beh n0 m -> procs m !! i = Some l -> beh l = PClose c k -> chans m !! c = Some ch -> cclosed ch = false.
Proof.
  intros Hr Hi Hb Hc. destruct (cclosed ch) eqn:E; [|reflexivity]. exfalso.
  pose proof (engine_safe W scan_out cap reqs m Hr) as (_ & _ & Hdead & _).
  apply (Hdead c ch Hc E i l Hi).
  destruct (engine_disciplined W scan_out l) as [_ Hm]. rewrite Hb in Hm. tauto.
Qed.

(* ---- single steps that touch only goroutine i ---- *)
Record moved (i : nat) (m m' : net) (l' : loc) : Prop := {
  mv_step : nstep beh m m';
  mv_here : procs m' !! i = Some l';
  mv_others : forall j, j <> i -> procs m' !! j = procs m !! j }.

Lemma mv_done m i l alts k :
  procs m !! i = Some l -> beh l = PSel alts -> (GDone, k) ∈ alts -> cancelled m = true ->
  moved i m (set_proc m i (k RCancelled)) (k RCancelled) /\ chans (set_proc m i (k RCancelled)) = chans m.
Proof.
  intros Hi Hb Ha Hc. split; [|reflexivity]. constructor.
  - eapply NDone; eauto.
  - simpl. apply list_lookup_insert. eapply lookup_lt_Some; eassumption.
  - intros j Hj. simpl. apply list_lookup_insert_ne. congruence.
Qed.

Lemma mv_call m i l evf k :
  procs m !! i = Some l -> beh l = PCall evf k ->
  let m' := Net (<[i := k 0]> (procs m)) (chans m) (cancelled m) (log m ++ evf 0) (panicked m) in
  moved i m m' (k 0) /\ chans m' = chans m.
Proof.
  intros Hi Hb m'. split; [|reflexivity]. constructor.
  - eapply NCall; eauto.
  - simpl. apply list_lookup_insert. eapply lookup_lt_Some; eassumption.
  - intros j Hj. simpl. apply list_lookup_insert_ne. congruence.
Qed.

Lemma mv_close m i l c k ch :
  procs m !! i = Some l -> beh l = PClose c k -> chans m !! c = Some ch -> cclosed ch = false ->
  let m' := set_chan (set_proc m i k) c (Chan (cbuf ch) (ccap ch) true) in
  moved i m m' k /\ chans m' !! c = Some (Chan (cbuf ch) (ccap ch) true) /\
  (forall c', c' <> c -> chans m' !! c' = chans m !! c').
Proof.
  intros Hi Hb Hc Hcl m'. split; [|split].
  - constructor.
    + eapply NClose; eauto.
    + simpl. apply list_lookup_insert. eapply lookup_lt_Some; eassumption.
    + intros j Hj. simpl. apply list_lookup_insert_ne. congruence.
  - simpl. apply list_lookup_insert. eapply lookup_lt_Some; eassumption.
  - intros c' Hc'. simpl. apply list_lookup_insert_ne. congruence.
Qed.

(* ---- a worker can always run to its end after cancellation, touching nothing else ---- *)
Record ran (i : nat) (m m' : net) : Prop := {
  rn_reach : reachable beh m m';
  rn_others : forall j, j <> i -> procs m' !! j = procs m !! j;
  rn_chans : chans m' = chans m }.

Lemma ran_refl i m : ran i m m.
Proof. constructor; auto. apply R0. Qed.
Lemma ran_moved i m m' l' : moved i m m' l' -> chans m' = chans m -> ran i m m'.
Proof. intros [Hs _ Ho] Hc. constructor; auto. eapply RS; [apply R0|exact Hs]. Qed.
Lemma ran_trans i a b c : ran i a b -> ran i b c -> ran i a c.
Proof.
  intros [r1 o1 c1] [r2 o2 c2]. constructor.
  - eapply reachable_trans; eauto.
  - intros j Hj. rewrite o2, o1; auto.
  - congruence.
Qed.

Lemma worker_idle_ends m i k :
  procs m !! i = Some (WIdle k) -> cancelled m = true ->
  exists m', ran i m m' /\ procs m' !! i = Some (End (RWorker k)).
Proof.
  intros Hi Hc.
  destruct (mv_done m i (WIdle k) _ (fun _ => End (RWorker k)) Hi eq_refl ltac:(alt_in) Hc) as [Hm Hch].
  eexists. split; [eapply ran_moved; eauto|apply (mv_here _ _ _ _ Hm)].
Qed.

Lemma worker_can_end m i l k :
  good m -> procs m !! i = Some l -> role_of l = RWorker k -> PL scan_out reqs l ->
  exists m', ran i m m' /\ procs m' !! i = Some (End (RWorker k)).
Proof.
  intros [Hr Hc] Hi Hrole HPL.
  assert (Hback : forall a id, procs a !! i = Some (WErr k id) \/ procs a !! i = Some (WPut k id) -> cancelled a = true ->
            exists a', ran i a a' /\ procs a' !! i = Some (End (RWorker k))).
  { intros a id [Ha|Ha] Hca.
    - destruct (mv_done a i _ _ (fun _ => WIdle k) Ha eq_refl ltac:(alt_in) Hca) as [Hm Hch].
      destruct (worker_idle_ends _ i k (mv_here _ _ _ _ Hm)) as (a' & H1 & H2).
      { rewrite <- Hca. destruct Hm as [Hs _ _]. inversion Hs; subst; simpl; auto. }
      exists a'. split; [eapply ran_trans; [eapply ran_moved; eauto|exact H1]|assumption].
    - destruct (mv_done a i _ _ (fun _ => WIdle k) Ha eq_refl ltac:(alt_in) Hca) as [Hm Hch].
      destruct (worker_idle_ends _ i k (mv_here _ _ _ _ Hm)) as (a' & H1 & H2).
      { rewrite <- Hca. destruct Hm as [Hs _ _]. inversion Hs; subst; simpl; auto. }
      exists a'. split; [eapply ran_trans; [eapply ran_moved; eauto|exact H1]|assumption]. }
  destruct l; simpl in Hrole; try discriminate; try (injection Hrole as ->).
  - apply worker_idle_ends; assumption.
  - eapply Hback; eauto.
  - destruct (mv_call m i _ _ _ Hi eq_refl) as [Hm Hch]. cbv zeta in Hm, Hch.
    set (m1 := Net _ _ _ _ _) in *.
    assert (Hc1 : cancelled m1 = true) by exact Hc.
    pose proof (mv_here _ _ _ _ Hm) as Hhere.
    destruct (scan_out id) eqn:Es.
    + destruct (Hback m1 id (or_intror Hhere) Hc1) as (a' & H1 & H2).
      exists a'. split; [eapply ran_trans; [eapply ran_moved; eauto|exact H1]|assumption].
    + destruct (worker_idle_ends m1 i k Hhere Hc1) as (a' & H1 & H2).
      exists a'. split; [eapply ran_trans; [eapply ran_moved; eauto|exact H1]|assumption].
    + destruct (Hback m1 id (or_introl Hhere) Hc1) as (a' & H1 & H2).
      exists a'. split; [eapply ran_trans; [eapply ran_moved; eauto|exact H1]|assumption].
  - eapply Hback; eauto.
  - simpl in HPL. destruct HPL.
  - subst r. exists m. split; [apply ran_refl|assumption].
Qed.

Lemma good_ran i m m' : good m -> ran i m m' -> good m'.
Proof.
  intros [Hr Hc] [Hrr _ _]. split; [eapply reachable_trans; eauto|].
  clear -Hrr Hc. induction Hrr; [assumption|]. eapply cancelled_mono; eauto.
Qed.

(* all workers 0..k-1 ended, nothing else moved, channels untouched *)
Lemma workers_end m : good m -> forall k, k <= W ->
  exists m', reachable beh m m' /\ good m' /\ chans m' = chans m /\
    (forall i, i < k -> procs m' !! p_w i = Some (End (RWorker i))) /\
    (forall j, (forall i, i < k -> j <> p_w i) -> procs m' !! j = procs m !! j).
Proof.
  intros Hg k. induction k as [|k IH]; intros Hk.
  - exists m. split; [apply R0|]. split; [assumption|]. split; [reflexivity|]. split; [intros i Hi; lia|auto].
  - destruct (IH ltac:(lia)) as (m1 & Hr1 & Hg1 & Hch1 & Hw1 & Ho1).
    destruct (state_at m1 (p_w k) (RWorker k) (proj1 Hg1) (layout_worker W k ltac:(lia))) as (l & Hl & Hrl & Hpl).
    destruct (worker_can_end m1 (p_w k) l k Hg1 Hl Hrl Hpl) as (m2 & Hran & Hend).
    exists m2. split; [eapply reachable_trans; [exact Hr1|apply (rn_reach _ _ _ Hran)]|].
    split; [eapply good_ran; eauto|]. split; [rewrite (rn_chans _ _ _ Hran); assumption|]. split.
    + intros i Hi. destruct (decide (i = k)) as [->|Hne]; [assumption|].
      rewrite (rn_others _ _ _ Hran) by (unfold p_w; lia). apply Hw1. lia.
    + intros j Hj. rewrite (rn_others _ _ _ Hran) by (apply Hj; lia). apply Ho1. intros i Hi. apply Hj. lia.
Qed.

(* layout positions of the fixed goroutines *)
Lemma layout_tail j : j < 5 -> layout W !! (W + 1 + j) = [RSup; RCopier; RLogger; RDrain; RCaller] !! j.
Proof.
  intros Hj. unfold layout. rewrite lookup_app_r by (simpl; lia). simpl.
  rewrite lookup_app_r by (rewrite fmap_length, seq_length; lia). rewrite fmap_length, seq_length.
  f_equal. lia.
Qed.

Theorem engine_can_return n :
  reachable beh n0 n -> cancelled n = true ->
  exists n', reachable beh n n' /\ procs n' !! p_caller = Some (End RCaller) /\
             procs n' !! p_logger W = Some (End RLogger) /\ procs n' !! p_drain W = Some (End RDrain) /\
             panicked n' = false.
Proof.
  intros Hr Hcan. assert (Hg : good n) by (split; assumption).
  (* 1. workers *)
  destruct (workers_end n Hg W ltac:(lia)) as (n1 & Hr1 & Hg1 & Hch1 & Hw1 & Ho1).
  (* 2. supervisor: wait, close errc, close done *)
  assert (Hsup : exists n2, reachable beh n1 n2 /\ good n2 /\ procs n2 !! p_sup = Some (End RSup) /\
             (forall j, j <> p_sup -> procs n2 !! j = procs n1 !! j) /\
             (exists ch, chans n2 !! c_errc = Some ch /\ cclosed ch = true)).
  { destruct (state_at n1 p_sup RSup (proj1 Hg1)) as (l & Hl & Hrl & _).
    { unfold p_sup. replace (W + 1) with (W + 1 + 0) by lia. rewrite (layout_tail 0) by lia. reflexivity. }
    assert (Hallw : all_ended beh n1 (worker_ids W)).
    { unfold all_ended, worker_ids. rewrite Forall_forall. intros i Hi. apply elem_of_list_fmap in Hi.
      destruct Hi as (k & -> & Hk). apply elem_of_seq in Hk. exists (End (RWorker k)). split; [apply Hw1; lia|reflexivity]. }
    (* from SCloseDone *)
    assert (HfromD : forall a, good a -> procs a !! p_sup = Some SCloseDone ->
              (exists ch, chans a !! c_errc = Some ch /\ cclosed ch = true) ->
              exists b, reachable beh a b /\ good b /\ procs b !! p_sup = Some (End RSup) /\
                (forall j, j <> p_sup -> procs b !! j = procs a !! j) /\
                (exists ch, chans b !! c_errc = Some ch /\ cclosed ch = true)).
    { intros a Hga Ha (che & Hche & Hcle).
      destruct (chan_at a c_done (proj1 Hga) ltac:(unfold c_done; lia)) as (ch & Hch).
      pose proof (open_for_closer a p_sup _ _ _ ch (proj1 Hga) Ha eq_refl Hch) as Hopen.
      destruct (mv_close a p_sup _ _ _ ch Ha eq_refl Hch Hopen) as (Hm & _ & Hoc). cbv zeta in Hm, Hoc.
      eexists. split; [eapply RS; [apply R0|apply (mv_step _ _ _ _ Hm)]|].
      split; [eapply good_step; [exact Hga|apply (mv_step _ _ _ _ Hm)]|].
      split; [apply (mv_here _ _ _ _ Hm)|]. split; [apply (mv_others _ _ _ _ Hm)|].
      exists che. rewrite Hoc by (unfold c_errc, c_done; lia). auto. }
    assert (HfromE : forall a, good a -> procs a !! p_sup = Some SCloseErr ->
              exists b, reachable beh a b /\ good b /\ procs b !! p_sup = Some (End RSup) /\
                (forall j, j <> p_sup -> procs b !! j = procs a !! j) /\
                (exists ch, chans b !! c_errc = Some ch /\ cclosed ch = true)).
    { intros a Hga Ha.
      destruct (chan_at a c_errc (proj1 Hga) ltac:(unfold c_errc; lia)) as (ch & Hch).
      pose proof (open_for_closer a p_sup _ _ _ ch (proj1 Hga) Ha eq_refl Hch) as Hopen.
      destruct (mv_close a p_sup _ _ _ ch Ha eq_refl Hch Hopen) as (Hm & Hce & _). cbv zeta in Hm, Hce.
      set (a1 := set_chan _ _ _) in *.
      assert (Hga1 : good a1) by (eapply good_step; [exact Hga|apply (mv_step _ _ _ _ Hm)]).
      destruct (HfromD a1 Hga1 (mv_here _ _ _ _ Hm)) as (b & Hrb & Hgb & Hpb & Hob & Hcb); [eauto|].
      exists b. split; [eapply reachable_trans; [eapply RS; [apply R0|apply (mv_step _ _ _ _ Hm)]|exact Hrb]|].
      split; [assumption|]. split; [assumption|]. split; [|assumption].
      intros j Hj. rewrite Hob by assumption. apply (mv_others _ _ _ _ Hm). assumption. }
    destruct l; simpl in Hrl; try discriminate.
    - (* SWait *)
      assert (Hs : nstep beh n1 (set_proc n1 p_sup SCloseErr)) by (eapply NWait; eauto).
      assert (Hga : good (set_proc n1 p_sup SCloseErr)) by (eapply good_step; eauto).
      assert (Hhere : procs (set_proc n1 p_sup SCloseErr) !! p_sup = Some SCloseErr)
        by (simpl; apply list_lookup_insert; eapply lookup_lt_Some; eassumption).
      destruct (HfromE _ Hga Hhere) as (b & Hrb & Hgb & Hpb & Hob & Hcb).
      exists b. split; [eapply reachable_trans; [eapply RS; [apply R0|exact Hs]|exact Hrb]|].
      split; [assumption|]. split; [assumption|]. split; [|assumption].
      intros j Hj. rewrite Hob by assumption. simpl. apply list_lookup_insert_ne. congruence.
    - destruct (HfromE n1 Hg1 Hl) as (b & H); exists b; exact H.
    - (* SCloseDone: errc was closed by the supervisor on the way here *)
      apply (HfromD n1 Hg1 Hl).
      apply (did_reachable beh has_closed n0 n1 (engine_did_beh W scan_out) (init_did W reqs cap) (proj1 Hg1) p_sup SCloseDone c_errc Hl).
      reflexivity.
    - exfalso. pose proof (engine_typed W scan_out reqs cap n1 (proj1 Hg1)) as [[HPL _] _].
      eapply Forall_lookup_1 in HPL; eauto. exact HPL.
    - subst r. exists n1. split; [apply R0|]. split; [assumption|]. split; [assumption|]. split; [auto|].
      apply (did_reachable beh has_closed n0 n1 (engine_did_beh W scan_out) (init_did W reqs cap) (proj1 Hg1) p_sup (End RSup) c_errc Hl).
      left. reflexivity. }
  destruct Hsup as (n2 & Hr2 & Hg2 & Hsup2 & Ho2 & (che & Hche & Hcle)).
  (* 3. logger *)
  assert (Hlog : exists n3, reachable beh n2 n3 /\ good n3 /\ procs n3 !! p_logger W = Some (End RLogger) /\
             (forall j, j <> p_logger W -> procs n3 !! j = procs n2 !! j) /\ chans n3 = chans n2).
  { destruct (state_at n2 (p_logger W) RLogger (proj1 Hg2) (layout_logger W)) as (l & Hl & Hrl & Hpl).
    assert (Hidle : forall a, good a -> procs a !! p_logger W = Some LIdle ->
              exists b, reachable beh a b /\ good b /\ procs b !! p_logger W = Some (End RLogger) /\
                (forall j, j <> p_logger W -> procs b !! j = procs a !! j) /\ chans b = chans a).
    { intros a Hga Ha.
      destruct (mv_done a (p_logger W) LIdle _ (fun _ => End RLogger) Ha eq_refl ltac:(alt_in) (proj2 Hga)) as [Hm Hch].
      eexists. split; [eapply RS; [apply R0|apply (mv_step _ _ _ _ Hm)]|].
      split; [eapply good_step; [exact Hga|apply (mv_step _ _ _ _ Hm)]|].
      split; [apply (mv_here _ _ _ _ Hm)|]. split; [apply (mv_others _ _ _ _ Hm)|exact Hch]. }
    destruct l; simpl in Hrl; try discriminate.
    - apply Hidle; assumption.
    - destruct (mv_call n2 (p_logger W) _ _ _ Hl eq_refl) as [Hm Hch]. cbv zeta in Hm, Hch.
      set (a1 := Net _ _ _ _ _) in *.
      assert (Hga1 : good a1) by (eapply good_step; [exact Hg2|apply (mv_step _ _ _ _ Hm)]).
      destruct (Hidle a1 Hga1 (mv_here _ _ _ _ Hm)) as (b & Hrb & Hgb & Hpb & Hob & Hcb).
      exists b. split; [eapply reachable_trans; [eapply RS; [apply R0|apply (mv_step _ _ _ _ Hm)]|exact Hrb]|].
      split; [assumption|]. split; [assumption|]. split; [|congruence].
      intros j Hj. rewrite Hob by assumption. apply (mv_others _ _ _ _ Hm). assumption.
    - simpl in Hpl. destruct Hpl.
    - subst r. exists n2. split; [apply R0|]. auto. }
  destruct Hlog as (n3 & Hr3 & Hg3 & Hlog3 & Ho3 & Hch3).
  (* 4. the error drain: errc is closed, so it empties the buffer and ends *)
  assert (Hdrain : exists n4, reachable beh n3 n4 /\ good n4 /\ procs n4 !! p_drain W = Some (End RDrain) /\
             (forall j, j <> p_drain W -> procs n4 !! j = procs n3 !! j)).
  { assert (Hloop : forall k a, good a -> procs a !! p_drain W = Some DIdle ->
              (exists ch, chans a !! c_errc = Some ch /\ cclosed ch = true /\ length (cbuf ch) = k) ->
              exists b, reachable beh a b /\ good b /\ procs b !! p_drain W = Some (End RDrain) /\
                (forall j, j <> p_drain W -> procs b !! j = procs a !! j)).
    { induction k as [|k IHk]; intros a Hga Ha (ch & Hch & Hcl & Hlen).
      - destruct (cbuf ch) eqn:Eb; [|discriminate].
        assert (Hs : nstep beh a (set_proc a (p_drain W) (End RDrain))).
        { eapply (NRecvClosed beh a (p_drain W) DIdle _ c_errc (fun r => match r with RVal v => DEmit v | _ => End RDrain end));
            eauto. alt_in. }
        eexists. split; [eapply RS; [apply R0|exact Hs]|]. split; [eapply good_step; eauto|].
        split; [simpl; apply list_lookup_insert; eapply lookup_lt_Some; eassumption|].
        intros j Hj. simpl. apply list_lookup_insert_ne. congruence.
      - destruct (cbuf ch) as [|v rest] eqn:Eb; [discriminate|]. simpl in Hlen.
        assert (Hs : nstep beh a (set_chan (set_proc a (p_drain W) (DEmit v)) c_errc (Chan rest (ccap ch) (cclosed ch)))).
        { eapply (NRecv beh a (p_drain W) DIdle _ c_errc (fun r => match r with RVal v => DEmit v | _ => End RDrain end));
            eauto. alt_in. }
        set (a1 := set_chan _ _ _) in *.
        assert (Hga1 : good a1) by (eapply good_step; eauto).
        assert (Ha1 : procs a1 !! p_drain W = Some (DEmit v))
          by (simpl; apply list_lookup_insert; eapply lookup_lt_Some; eassumption).
        destruct (mv_call a1 (p_drain W) _ _ _ Ha1 eq_refl) as [Hm Hchs]. cbv zeta in Hm, Hchs.
        set (a2 := Net _ _ _ _ _) in *.
        assert (Hga2 : good a2) by (eapply good_step; [exact Hga1|apply (mv_step _ _ _ _ Hm)]).
        destruct (IHk a2 Hga2 (mv_here _ _ _ _ Hm)) as (b & Hrb & Hgb & Hpb & Hob).
        { exists (Chan rest (ccap ch) (cclosed ch)). rewrite Hchs. split; [|simpl; split; [assumption|lia]].
          simpl. apply list_lookup_insert. eapply lookup_lt_Some; eassumption. }
        exists b. split; [eapply reachable_trans; [eapply RS; [eapply RS; [apply R0|exact Hs]|apply (mv_step _ _ _ _ Hm)]|exact Hrb]|].
        split; [assumption|]. split; [assumption|].
        intros j Hj. rewrite Hob by assumption. rewrite (mv_others _ _ _ _ Hm) by assumption.
        simpl. apply list_lookup_insert_ne. congruence. }
    assert (Hcl3 : exists ch, chans n3 !! c_errc = Some ch /\ cclosed ch = true) by (rewrite Hch3; eauto).
    destruct (state_at n3 (p_drain W) RDrain (proj1 Hg3) (layout_drain W)) as (l & Hl & Hrl & Hpl).
    destruct l; simpl in Hrl; try discriminate.
    - destruct Hcl3 as (ch & H1 & H2). eapply (Hloop (length (cbuf ch))); eauto.
    - destruct (mv_call n3 (p_drain W) _ _ _ Hl eq_refl) as [Hm Hchs]. cbv zeta in Hm, Hchs.
      set (a1 := Net _ _ _ _ _) in *.
      assert (Hga1 : good a1) by (eapply good_step; [exact Hg3|apply (mv_step _ _ _ _ Hm)]).
      destruct Hcl3 as (ch & H1 & H2).
      destruct (Hloop (length (cbuf ch)) a1 Hga1 (mv_here _ _ _ _ Hm)) as (b & Hrb & Hgb & Hpb & Hob).
      { exists ch. rewrite Hchs. auto. }
      exists b. split; [eapply reachable_trans; [eapply RS; [apply R0|apply (mv_step _ _ _ _ Hm)]|exact Hrb]|].
      split; [assumption|]. split; [assumption|].
      intros j Hj. rewrite Hob by assumption. apply (mv_others _ _ _ _ Hm). assumption.
    - simpl in Hpl. destruct Hpl.
    - subst r. exists n3. split; [apply R0|]. auto. }
  destruct Hdrain as (n4 & Hr4 & Hg4 & Hdr4 & Ho4).
  (* 5. the caller: both goroutines it waits for have ended *)
  assert (Hlog4 : procs n4 !! p_logger W = Some (End RLogger)).
  { rewrite Ho4 by (unfold p_logger, p_drain; lia). assumption. }
  destruct (state_at n4 p_caller RCaller (proj1 Hg4)) as (l & Hl & Hrl & Hpl).
  { unfold p_caller. replace (W + 5) with (W + 1 + 4) by lia. rewrite (layout_tail 4) by lia. reflexivity. }
  assert (Hfinal : exists n5, reachable beh n4 n5 /\ good n5 /\ procs n5 !! p_caller = Some (End RCaller) /\
             (forall j, j <> p_caller -> procs n5 !! j = procs n4 !! j)).
  { destruct l; simpl in Hrl; try discriminate.
    - assert (Hs : nstep beh n4 (set_proc n4 p_caller (End RCaller))).
      { eapply NWait; eauto. unfold all_ended. rewrite Forall_forall. intros i Hi.
        apply elem_of_cons in Hi. destruct Hi as [->|Hi]; [exists (End RLogger); split; [assumption|reflexivity]|].
        apply elem_of_list_singleton in Hi. subst. exists (End RDrain). split; [assumption|reflexivity]. }
      eexists. split; [eapply RS; [apply R0|exact Hs]|]. split; [eapply good_step; eauto|].
      split; [simpl; apply list_lookup_insert; eapply lookup_lt_Some; eassumption|].
      intros j Hj. simpl. apply list_lookup_insert_ne. congruence.
    - simpl in Hpl. destruct Hpl.
    - subst r. exists n4. split; [apply R0|]. auto. }
  destruct Hfinal as (n5 & Hr5 & Hg5 & Hcal5 & Ho5).
  exists n5. split.
  { eapply reachable_trans; [|exact Hr5]. eapply reachable_trans; [|exact Hr4]. eapply reachable_trans; [|exact Hr3].
    eapply reachable_trans; [exact Hr1|exact Hr2]. }
  split; [assumption|]. split; [rewrite Ho5 by (unfold p_caller, p_logger; lia); assumption|].
  split; [rewrite Ho5 by (unfold p_caller, p_drain; lia); assumption|].
  apply (engine_no_panic W scan_out cap reqs). exact (proj1 Hg5).
Qed.

End cancel.
