(* C01 o C08: the request generators of an application-scan command (socks, docker, elastic) feeding
   the generic engine.  For every such command, every valid specification, every number of workers,
   every Scan outcome and EVERY schedule: when the engine signals completion (nothing cancelled) the
   targets handed to Scanner.Scan are - as a multiset - exactly what the specification denotes. *)
From stdpp Require Import gmultiset list sets.
From SX Require Import Base.Net Model.AppEngine Proofs.AppEngineProofs Proofs.AppEngineOrder Proofs.PipelineWire
  Proofs.AppEngineScans.
From Coq Require Import ZArith.
From SX Require Import Base.Loop Base.Bytes Model.RangeIter Model.IPNet Model.Exclude Model.Targets Model.FileTargets
  Model.TargetWiring Proofs.RangeIterProofs Proofs.WiringProofs Proofs.WireCoverage.
Local Open Scope nat_scope.

Lemma due_good reqs : due all_ok all_ok reqs = good_list reqs.
Proof.
  unfold due, good_list. induction reqs as [|[i b] l IH]; [reflexivity|].
  rewrite !filter_cons. unfold sent_b at 1, all_ok. simpl.
  destruct b; simpl.
  - destruct (decide (false = true)); [discriminate|]. destruct (decide (true = false)); [discriminate|]. exact IH.
  - destruct (decide (true = true)); [|congruence]. destruct (decide (false = false)); [|congruence].
    simpl. f_equal. exact IH.
Qed.

(* [ws] = the targets handed to Scan in a complete, uncancelled run of the generic engine fed with
   [evs]: some number of workers, request-channel capacity, Scan outcomes and schedule *)
Definition scan_outcome (evs : list event) (ws : list (ip * Z)) : Prop :=
  exists W cap scan_out s,
    0 < W /\ reachable (beh W scan_out) (init W cap (to_reqs evs)) s /\
    cancelled s = false /\ chan_closed s c_done /\
    ws = flat_map (frame_at evs) (scan_list s).

Lemma scan_outcome_probes evs ws : scan_outcome evs ws -> ws ≡ₚ probes evs.
Proof.
  intros (W & cap & so & s & HW & Hr & Hc & Hd & ->).
  rewrite (engine_scans_exact W so (to_reqs evs) (to_reqs_NoDup evs) cap s HW Hr Hc Hd).
  rewrite <- due_good. pose proof (due_frames [] evs) as H. simpl in H. unfold to_reqs. rewrite H. reflexivity.
Qed.

Lemma scan_outcomes_concat runs wss :
  Forall2 scan_outcome runs wss -> concat wss ≡ₚ probes (concat runs).
Proof.
  intros H. rewrite probes_concat. induction H as [|evs ws runs wss H1 _ IH]; [reflexivity|].
  simpl. rewrite (scan_outcome_probes _ _ H1), IH. reflexivity.
Qed.

(* ---- scans and error records together (application scans) ---- *)
Definition no_fail (so : nat -> scan_res) : Prop := forall id, so id <> SFail.

Lemma failed_errdue so reqs : no_fail so -> failed_list so reqs = errdue all_ok all_ok reqs.
Proof.
  intros Hnf. unfold failed_list, errdue. induction reqs as [|[i b] l IH]; [reflexivity|].
  assert (Hb : failed_b so (i, b) = negb (sent_b all_ok all_ok (i, b))).
  { unfold failed_b, sent_b, all_ok. simpl. specialize (Hnf i).
    destruct (so i); try congruence; destruct b; reflexivity. }
  rewrite !filter_cons.
  destruct (decide (failed_b so (i, b) = true)) as [Hf|Hf];
    destruct (decide (sent_b all_ok all_ok (i, b) = false)) as [Hs|Hs].
  - simpl. f_equal. exact IH.
  - exfalso. rewrite Hb in Hf. destruct (sent_b all_ok all_ok (i, b)); [discriminate|]. apply Hs. reflexivity.
  - exfalso. rewrite Hb, Hs in Hf. apply Hf. reflexivity.
  - exact IH.
Qed.

(* [ws] = the targets handed to Scan, [es] = the causes of the error records logged, in an uncancelled run of the
   generic engine under startScanEngine on [evs] that has signalled completion and whose error stream is drained;
   no probe fails (probe failures are error records of their own: C08_errors_exact) *)
Definition app_outcome (evs : list event) (ws : list (ip * Z)) (es : list gerr) : Prop :=
  exists W cap scan_out s,
    0 < W /\ no_fail scan_out /\ reachable (beh W scan_out) (init W cap (to_reqs evs)) s /\
    cancelled s = false /\ chan_closed s c_done /\
    (forall ch, chans s !! c_errc = Some ch -> cbuf ch = []) /\
    (forall j l, procs s !! j = Some l -> role_of l = RDrain -> weight l = ∅) /\
    ws = flat_map (frame_at evs) (scan_list s) /\ es = flat_map (error_at evs) (errlog_list s).

Lemma app_outcome_exact evs ws es : app_outcome evs ws es -> ws ≡ₚ probes evs /\ es ≡ₚ errors evs.
Proof.
  intros (W & cap & so & s & HW & Hnf & Hr & Hc & Hd & He & Hi & -> & ->). split.
  - rewrite (engine_scans_exact W so (to_reqs evs) (to_reqs_NoDup evs) cap s HW Hr Hc Hd).
    rewrite <- due_good. pose proof (due_frames [] evs) as H. simpl in H. unfold to_reqs. rewrite H. reflexivity.
  - rewrite (engine_errors_exact W so (to_reqs evs) (to_reqs_NoDup evs) cap s HW Hr Hc Hd He Hi).
    rewrite (failed_errdue so _ Hnf).
    pose proof (errdue_errors [] evs) as H. simpl in H. unfold to_reqs. rewrite H. reflexivity.
Qed.

Section Commands.
Variable table : list row.
Hypothesis table_good : table_ok table.
Variable chunk_size : Z.
Hypothesis chunk_pos : (0 < chunk_size)%Z.

Theorem scan_coverage cmd k f inp n :
  class_of cmd = Some k -> valid_spec k f inp n ->
  exists runs, engine_runs table chunk_size true cmd f inp = Some runs /\
    forall wss, Forall2 scan_outcome runs wss -> concat wss ≡ₚ spec_denote k f inp n.
Proof.
  intros Hc V.
  destruct (command_coverage table table_good chunk_size chunk_pos cmd k f inp n Hc V) as (evs & Hrun & Hperm & _ & _).
  rewrite engine_runs_concat in Hrun.
  destruct (engine_runs table chunk_size true cmd f inp) as [runs|]; [|discriminate].
  injection Hrun as <-. exists runs. split; [reflexivity|].
  intros wss Hw. rewrite (scan_outcomes_concat _ _ Hw). exact Hperm.
Qed.
End Commands.
