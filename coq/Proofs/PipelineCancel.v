(* C12 for the packet pipeline: from EVERY reachable state in which the context has been cancelled
   there is a continuation in which the merged error stream comes to its end and the error drain of
   startScanEngine finishes -- although the sender's sends on its error channel are unconditional
   and the sender itself may stay blocked for ever (it is not waited for). *)
From stdpp Require Import gmultiset list sets.
From SX Require Import Base.Net Model.Pipeline Proofs.PipelineProofs Proofs.PipelineOrder.

Section cancel.
Variable N : nat.
Variables fill_ok write_ok : nat -> bool.
Variable reqs : list (nat * bool).
Variable cap : nat.
Notation beh := (beh N fill_ok write_ok).
Notation net := (net val loc ev).
Notation n0 := (init N cap reqs).

Definition p_ecloser : nat := 2 * N + 6.
Definition p_drain : nat := 2 * N + 7.

Ltac alt_in := repeat first [apply elem_of_list_here | apply elem_of_list_further].

Definition good (m : net) : Prop := reachable beh n0 m /\ cancelled m = true.
Lemma good_step m m' : good m -> nstep beh m m' -> good m'.
Proof. intros [Hr Hc] Hs. split; [eapply RS; eauto|eapply cancelled_mono; eauto]. Qed.

Lemma state_at m j r : reachable beh n0 m -> layout N !! j = Some r ->
  exists l, procs m !! j = Some l /\ role_of l = r /\ PL N fill_ok write_ok reqs l.
Proof.
  intros Hr Hj.
  pose proof (pipeline_safe N fill_ok write_ok cap reqs m Hr) as (Hroles & _).
  pose proof (pipeline_typed N fill_ok write_ok reqs cap m Hr) as [[HPL _] _].
  rewrite <- Hroles in Hj. unfold roles_of in Hj. rewrite list_lookup_fmap in Hj.
  destruct (procs m !! j) as [l|] eqn:E; [|discriminate]. injection Hj as <-.
  exists l. repeat split; auto. eapply Forall_lookup_1; eauto.
Qed.

Lemma chan_at m c : reachable beh n0 m -> c < N + 6 -> exists ch, chans m !! c = Some ch.
Proof.
  intros Hr Hc. apply lookup_lt_is_Some_2.
  assert (Hlen : forall a b, nstep beh a b -> length (chans b) = length (chans a)).
  { intros a b Hs. destruct Hs; simpl; rewrite ?insert_length; reflexivity. }
  assert (length (chans m) = N + 6); [|lia].
  induction Hr; [|rewrite (Hlen _ _ H); assumption].
  simpl. unfold init_chans. rewrite !app_length, fmap_length, seq_length. simpl. lia.
Qed.

Lemma open_for_closer m i l c k ch :
  reachable beh n0 m -> procs m !! i = Some l -> beh l = PClose c k -> chans m !! c = Some ch -> cclosed ch = false.
Proof.
  intros Hr Hi Hb Hc. destruct (cclosed ch) eqn:E; [|reflexivity]. exfalso.
  pose proof (pipeline_safe N fill_ok write_ok cap reqs m Hr) as (_ & _ & Hdead & _).
  apply (Hdead c ch Hc E i l Hi).
  destruct (pipeline_disciplined N fill_ok write_ok l) as [_ Hm]. rewrite Hb in Hm. tauto.
Qed.

Lemma layout_fixed j : j < 7 ->
  layout N !! (2 * N + 1 + j) = [RCloser; RSender; RReceiver; REMux 0; REMux 1; RECloser; RDrain] !! j.
Proof.
  intros Hj.
  assert (E : layout N = ([RSrc] ++ (RWorker <$> seq 0 N) ++ (RMux <$> seq 0 N)) ++
                         [RCloser; RSender; RReceiver; REMux 0; REMux 1; RECloser; RDrain])
    by (unfold layout; rewrite <- !app_assoc; reflexivity).
  rewrite E.
  assert (Hlen : length ([RSrc] ++ (RWorker <$> seq 0 N) ++ (RMux <$> seq 0 N)) = 1 + (N + N))
    by (rewrite !app_length, !fmap_length, !seq_length; reflexivity).
  rewrite lookup_app_r by (rewrite Hlen; lia). rewrite Hlen. f_equal. lia.
Qed.

(* the result of running goroutine i alone for a while *)
Record ran (i : nat) (m m' : net) : Prop := {
  rn_reach : reachable beh m m';
  rn_good : good m -> good m';
  rn_others : forall j, j <> i -> procs m' !! j = procs m !! j }.

Lemma ran_refl i m : ran i m m.
Proof. constructor; auto. apply R0. Qed.
Lemma ran_trans i a b c : ran i a b -> ran i b c -> ran i a c.
Proof.
  intros [r1 g1 o1] [r2 g2 o2]. constructor; auto.
  - eapply reachable_trans; eauto.
  - intros j Hj. rewrite o2, o1; auto.
Qed.
Lemma ran_step i m m' : nstep beh m m' -> (forall j, j <> i -> procs m' !! j = procs m !! j) -> ran i m m'.
Proof. intros Hs Ho. constructor; auto; [eapply RS; [apply R0|exact Hs]|intros Hg; eapply good_step; eauto]. Qed.

Lemma step_done m i l alts k :
  procs m !! i = Some l -> beh l = PSel alts -> (GDone, k) ∈ alts -> cancelled m = true ->
  ran i m (set_proc m i (k RCancelled)) /\ procs (set_proc m i (k RCancelled)) !! i = Some (k RCancelled) /\
  chans (set_proc m i (k RCancelled)) = chans m.
Proof.
  intros Hi Hb Ha Hc. split; [|split; [|reflexivity]].
  - apply ran_step; [eapply NDone; eauto|]. intros j Hj. simpl. apply list_lookup_insert_ne. congruence.
  - simpl. apply list_lookup_insert. eapply lookup_lt_Some; eassumption.
Qed.

(* an error multiplexer can always end after cancellation, without touching any channel *)
Lemma emux_can_end m j0 l :
  good m -> procs m !! p_em N j0 = Some l -> role_of l = REMux j0 -> PL N fill_ok write_ok reqs l ->
  exists m', ran (p_em N j0) m m' /\ procs m' !! p_em N j0 = Some (End (REMux j0)) /\ chans m' = chans m.
Proof.
  intros [Hr Hc] Hi Hrole HPL.
  assert (Hidle : forall a, procs a !! p_em N j0 = Some (EIdle j0) -> cancelled a = true ->
            exists a', ran (p_em N j0) a a' /\ procs a' !! p_em N j0 = Some (End (REMux j0)) /\ chans a' = chans a).
  { intros a Ha Hca. destruct (step_done a _ (EIdle j0) _ (fun _ => End (REMux j0)) Ha eq_refl ltac:(alt_in) Hca) as (H1 & H2 & H3).
    eexists. eauto. }
  destruct l; simpl in Hrole; try discriminate; try (injection Hrole as ->).
  - apply Hidle; assumption.
  - destruct (step_done m _ (ESend j0 v) _ (fun _ => EIdle j0) Hi eq_refl ltac:(alt_in) Hc) as (H1 & H2 & H3).
    destruct (Hidle _ H2 Hc) as (a' & H4 & H5 & H6).
    exists a'. split; [eapply ran_trans; eauto|]. split; [assumption|congruence].
  - simpl in HPL. destruct HPL.
  - subst r. exists m. split; [apply ran_refl|auto].
Qed.

Theorem pipeline_errors_end n :
  reachable beh n0 n -> cancelled n = true ->
  exists n', reachable beh n n' /\ procs n' !! p_drain = Some (End RDrain) /\
             (exists ch, chans n' !! c_eout N = Some ch /\ cclosed ch = true) /\
             panicked n' = false.
Proof.
  intros Hr Hcan. assert (Hg : good n) by (split; assumption).
  (* 1. both error multiplexers end *)
  destruct (state_at n (p_em N 0) (REMux 0) Hr) as (l0 & Hl0 & Hr0 & Hp0).
  { unfold p_em. replace (2 * N + 4 + 0) with (2 * N + 1 + 3) by lia. rewrite (layout_fixed 3) by lia. reflexivity. }
  destruct (emux_can_end n 0 l0 Hg Hl0 Hr0 Hp0) as (n1 & Hran1 & He0 & Hch1).
  assert (Hg1 : good n1) by (apply (rn_good _ _ _ Hran1); assumption).
  destruct (state_at n1 (p_em N 1) (REMux 1) (proj1 Hg1)) as (l1 & Hl1 & Hr1 & Hp1).
  { unfold p_em. replace (2 * N + 4 + 1) with (2 * N + 1 + 4) by lia. rewrite (layout_fixed 4) by lia. reflexivity. }
  destruct (emux_can_end n1 1 l1 Hg1 Hl1 Hr1 Hp1) as (n2 & Hran2 & He1 & Hch2).
  assert (Hg2 : good n2) by (apply (rn_good _ _ _ Hran2); assumption).
  assert (He0' : procs n2 !! p_em N 0 = Some (End (REMux 0))).
  { rewrite (rn_others _ _ _ Hran2) by (unfold p_em; lia). assumption. }
  (* 2. the error closer waits for them and closes the merged stream *)
  assert (Hclo : exists n3, reachable beh n2 n3 /\ good n3 /\
             (forall j, j <> p_ecloser -> procs n3 !! j = procs n2 !! j) /\
             (exists ch, chans n3 !! c_eout N = Some ch /\ cclosed ch = true)).
  { destruct (state_at n2 p_ecloser RECloser (proj1 Hg2)) as (l & Hl & Hrl & Hpl).
    { unfold p_ecloser. replace (2 * N + 6) with (2 * N + 1 + 5) by lia. rewrite (layout_fixed 5) by lia. reflexivity. }
    assert (HfromC : forall a, good a -> procs a !! p_ecloser = Some ECClose ->
              exists b, reachable beh a b /\ good b /\ (forall j, j <> p_ecloser -> procs b !! j = procs a !! j) /\
                (exists ch, chans b !! c_eout N = Some ch /\ cclosed ch = true)).
    { intros a Hga Ha.
      destruct (chan_at a (c_eout N) (proj1 Hga) ltac:(unfold c_eout; lia)) as (ch & Hch).
      pose proof (open_for_closer a p_ecloser _ _ _ ch (proj1 Hga) Ha eq_refl Hch) as Hopen.
      assert (Hs : nstep beh a (set_chan (set_proc a p_ecloser (End RECloser)) (c_eout N) (Chan (cbuf ch) (ccap ch) true)))
        by (eapply NClose; eauto).
      eexists. split; [eapply RS; [apply R0|exact Hs]|]. split; [eapply good_step; eauto|]. split.
      - intros j Hj. simpl. apply list_lookup_insert_ne. congruence.
      - eexists. split; [simpl; apply list_lookup_insert; eapply lookup_lt_Some; eassumption|reflexivity]. }
    destruct l; simpl in Hrl; try discriminate.
    - assert (Hs : nstep beh n2 (set_proc n2 p_ecloser ECClose)).
      { eapply NWait; eauto. unfold all_ended, emux_ids. rewrite Forall_forall. intros i Hi.
        apply elem_of_cons in Hi. destruct Hi as [->|Hi]; [exists (End (REMux 0)); split; [assumption|reflexivity]|].
        apply elem_of_list_singleton in Hi. subst. exists (End (REMux 1)). split; [assumption|reflexivity]. }
      assert (Hga : good (set_proc n2 p_ecloser ECClose)) by (eapply good_step; eauto).
      destruct (HfromC _ Hga) as (b & Hrb & Hgb & Hob & Hcb).
      { simpl. apply list_lookup_insert. eapply lookup_lt_Some; eassumption. }
      exists b. split; [eapply reachable_trans; [eapply RS; [apply R0|exact Hs]|exact Hrb]|].
      split; [assumption|]. split; [|assumption].
      intros j Hj. rewrite Hob by assumption. simpl. apply list_lookup_insert_ne. congruence.
    - apply HfromC; assumption.
    - simpl in Hpl. destruct Hpl.
    - subst r. exists n2. split; [apply R0|]. split; [assumption|]. split; [auto|].
      apply (did_reachable beh (has_closed N) n0 n2 (pipeline_did_beh N fill_ok write_ok) (init_did N reqs cap)
               (proj1 Hg2) p_ecloser (End RECloser) (c_eout N) Hl). reflexivity. }
  destruct Hclo as (n3 & Hr3 & Hg3 & Ho3 & Hcl3).
  (* 3. the drain empties the closed stream and ends *)
  assert (Hloop : forall k a, good a -> procs a !! p_drain = Some DIdle ->
            (exists ch, chans a !! c_eout N = Some ch /\ cclosed ch = true /\ length (cbuf ch) = k) ->
            exists b, reachable beh a b /\ good b /\ procs b !! p_drain = Some (End RDrain) /\
              (exists ch, chans b !! c_eout N = Some ch /\ cclosed ch = true)).
  { induction k as [|k IHk]; intros a Hga Ha (ch & Hch & Hcl & Hlen).
    - destruct (cbuf ch) eqn:Eb; [|discriminate].
      assert (Hs : nstep beh a (set_proc a p_drain (End RDrain))).
      { eapply (NRecvClosed beh a p_drain DIdle _ (c_eout N) (fun r => match r with RVal v => DEmit v | _ => End RDrain end));
          eauto. alt_in. }
      eexists. split; [eapply RS; [apply R0|exact Hs]|]. split; [eapply good_step; eauto|].
      split; [simpl; apply list_lookup_insert; eapply lookup_lt_Some; eassumption|]. simpl. eauto.
    - destruct (cbuf ch) as [|v rest] eqn:Eb; [discriminate|]. simpl in Hlen.
      assert (Hs : nstep beh a (set_chan (set_proc a p_drain (DEmit v)) (c_eout N) (Chan rest (ccap ch) (cclosed ch)))).
      { eapply (NRecv beh a p_drain DIdle _ (c_eout N) (fun r => match r with RVal v => DEmit v | _ => End RDrain end));
          eauto. alt_in. }
      set (a1 := set_chan _ _ _) in *.
      assert (Hga1 : good a1) by (eapply good_step; eauto).
      assert (Ha1 : procs a1 !! p_drain = Some (DEmit v))
        by (simpl; apply list_lookup_insert; eapply lookup_lt_Some; eassumption).
      assert (Hs2 : nstep beh a1 (Net (<[p_drain := DIdle]> (procs a1)) (chans a1) (cancelled a1) (log a1 ++ [EErrOut v]) (panicked a1))).
      { eapply (NCall beh a1 p_drain (DEmit v) (fun _ => [EErrOut v]) (fun _ => DIdle) 0); eauto. }
      set (a2 := Net _ _ _ _ _) in *.
      assert (Hga2 : good a2) by (eapply good_step; eauto).
      destruct (IHk a2 Hga2) as (b & Hrb & Hgb & Hpb & Hcb).
      { simpl. apply list_lookup_insert. eapply lookup_lt_Some; eassumption. }
      { exists (Chan rest (ccap ch) (cclosed ch)). split; [|simpl; split; [assumption|lia]].
        simpl. apply list_lookup_insert. eapply lookup_lt_Some; eassumption. }
      exists b. split; [eapply reachable_trans; [eapply RS; [eapply RS; [apply R0|exact Hs]|exact Hs2]|exact Hrb]|]. auto. }
  destruct (state_at n3 p_drain RDrain (proj1 Hg3)) as (l & Hl & Hrl & Hpl).
  { unfold p_drain. replace (2 * N + 7) with (2 * N + 1 + 6) by lia. rewrite (layout_fixed 6) by lia. reflexivity. }
  destruct Hcl3 as (ch3 & Hch3 & Hclo3).
  assert (Hfin : exists n4, reachable beh n3 n4 /\ good n4 /\ procs n4 !! p_drain = Some (End RDrain) /\
            (exists ch, chans n4 !! c_eout N = Some ch /\ cclosed ch = true)).
  { destruct l; simpl in Hrl; try discriminate.
    - eapply (Hloop (length (cbuf ch3))); eauto.
    - assert (Hs2 : nstep beh n3 (Net (<[p_drain := DIdle]> (procs n3)) (chans n3) (cancelled n3) (log n3 ++ [EErrOut v]) (panicked n3))).
      { eapply (NCall beh n3 p_drain (DEmit v) (fun _ => [EErrOut v]) (fun _ => DIdle) 0); eauto. }
      set (a2 := Net _ _ _ _ _) in *.
      assert (Hga2 : good a2) by (eapply good_step; eauto).
      destruct (Hloop (length (cbuf ch3)) a2 Hga2) as (b & Hrb & Hgb & Hpb & Hcb).
      { simpl. apply list_lookup_insert. eapply lookup_lt_Some; eassumption. }
      { exists ch3. simpl. auto. }
      exists b. split; [eapply reachable_trans; [eapply RS; [apply R0|exact Hs2]|exact Hrb]|]. auto.
    - simpl in Hpl. destruct Hpl.
    - subst r. exists n3. split; [apply R0|]. split; [assumption|]. split; [assumption|]. eauto. }
  destruct Hfin as (n4 & Hr4 & Hg4 & Hd4 & Hc4).
  exists n4. split.
  { eapply reachable_trans; [|exact Hr4]. eapply reachable_trans; [|exact Hr3].
    eapply reachable_trans; [apply (rn_reach _ _ _ Hran1)|apply (rn_reach _ _ _ Hran2)]. }
  split; [assumption|]. split; [assumption|].
  apply (pipeline_no_panic N fill_ok write_ok cap reqs). exact (proj1 Hg4).
Qed.

(* The same, and stronger: the continuation moves ONLY the two error multiplexers, the closer of the merged error
   stream and the drain.  The request source, the generator workers, the packet multiplexers, the SENDER and the
   receiver do not take a single step in it: the call comes back although the sender stays exactly where the
   cancellation found it (asleep in the rate limiter, inside a blocking device write, blocked on its error
   channel), and without the sender's done ever being closed. *)
Theorem pipeline_errors_end_frozen n :
  reachable beh n0 n -> cancelled n = true ->
  exists n', reachable beh n n' /\ procs n' !! p_drain = Some (End RDrain) /\
             (exists ch, chans n' !! c_eout N = Some ch /\ cclosed ch = true) /\
             panicked n' = false /\
             (forall j, j <> p_em N 0 -> j <> p_em N 1 -> j <> p_ecloser -> j <> p_drain ->
                        procs n' !! j = procs n !! j).
Proof.
  intros Hr Hcan. assert (Hg : good n) by (split; assumption).
  (* 1. both error multiplexers end *)
  destruct (state_at n (p_em N 0) (REMux 0) Hr) as (l0 & Hl0 & Hr0 & Hp0).
  { unfold p_em. replace (2 * N + 4 + 0) with (2 * N + 1 + 3) by lia. rewrite (layout_fixed 3) by lia. reflexivity. }
  destruct (emux_can_end n 0 l0 Hg Hl0 Hr0 Hp0) as (n1 & Hran1 & He0 & Hch1).
  assert (Hg1 : good n1) by (apply (rn_good _ _ _ Hran1); assumption).
  destruct (state_at n1 (p_em N 1) (REMux 1) (proj1 Hg1)) as (l1 & Hl1 & Hr1 & Hp1).
  { unfold p_em. replace (2 * N + 4 + 1) with (2 * N + 1 + 4) by lia. rewrite (layout_fixed 4) by lia. reflexivity. }
  destruct (emux_can_end n1 1 l1 Hg1 Hl1 Hr1 Hp1) as (n2 & Hran2 & He1 & Hch2).
  assert (Hg2 : good n2) by (apply (rn_good _ _ _ Hran2); assumption).
  assert (He0' : procs n2 !! p_em N 0 = Some (End (REMux 0))).
  { rewrite (rn_others _ _ _ Hran2) by (unfold p_em; lia). assumption. }
  (* 2. the error closer waits for them and closes the merged stream *)
  assert (Hclo : exists n3, reachable beh n2 n3 /\ good n3 /\
             (forall j, j <> p_ecloser -> procs n3 !! j = procs n2 !! j) /\
             (exists ch, chans n3 !! c_eout N = Some ch /\ cclosed ch = true)).
  { destruct (state_at n2 p_ecloser RECloser (proj1 Hg2)) as (l & Hl & Hrl & Hpl).
    { unfold p_ecloser. replace (2 * N + 6) with (2 * N + 1 + 5) by lia. rewrite (layout_fixed 5) by lia. reflexivity. }
    assert (HfromC : forall a, good a -> procs a !! p_ecloser = Some ECClose ->
              exists b, reachable beh a b /\ good b /\ (forall j, j <> p_ecloser -> procs b !! j = procs a !! j) /\
                (exists ch, chans b !! c_eout N = Some ch /\ cclosed ch = true)).
    { intros a Hga Ha.
      destruct (chan_at a (c_eout N) (proj1 Hga) ltac:(unfold c_eout; lia)) as (ch & Hch).
      pose proof (open_for_closer a p_ecloser _ _ _ ch (proj1 Hga) Ha eq_refl Hch) as Hopen.
      assert (Hs : nstep beh a (set_chan (set_proc a p_ecloser (End RECloser)) (c_eout N) (Chan (cbuf ch) (ccap ch) true)))
        by (eapply NClose; eauto).
      eexists. split; [eapply RS; [apply R0|exact Hs]|]. split; [eapply good_step; eauto|]. split.
      - intros j Hj. simpl. apply list_lookup_insert_ne. congruence.
      - eexists. split; [simpl; apply list_lookup_insert; eapply lookup_lt_Some; eassumption|reflexivity]. }
    destruct l; simpl in Hrl; try discriminate.
    - assert (Hs : nstep beh n2 (set_proc n2 p_ecloser ECClose)).
      { eapply NWait; eauto. unfold all_ended, emux_ids. rewrite Forall_forall. intros i Hi.
        apply elem_of_cons in Hi. destruct Hi as [->|Hi]; [exists (End (REMux 0)); split; [assumption|reflexivity]|].
        apply elem_of_list_singleton in Hi. subst. exists (End (REMux 1)). split; [assumption|reflexivity]. }
      assert (Hga : good (set_proc n2 p_ecloser ECClose)) by (eapply good_step; eauto).
      destruct (HfromC _ Hga) as (b & Hrb & Hgb & Hob & Hcb).
      { simpl. apply list_lookup_insert. eapply lookup_lt_Some; eassumption. }
      exists b. split; [eapply reachable_trans; [eapply RS; [apply R0|exact Hs]|exact Hrb]|].
      split; [assumption|]. split; [|assumption].
      intros j Hj. rewrite Hob by assumption. simpl. apply list_lookup_insert_ne. congruence.
    - apply HfromC; assumption.
    - simpl in Hpl. destruct Hpl.
    - subst r. exists n2. split; [apply R0|]. split; [assumption|]. split; [auto|].
      apply (did_reachable beh (has_closed N) n0 n2 (pipeline_did_beh N fill_ok write_ok) (init_did N reqs cap)
               (proj1 Hg2) p_ecloser (End RECloser) (c_eout N) Hl). reflexivity. }
  destruct Hclo as (n3 & Hr3 & Hg3 & Ho3 & Hcl3).
  (* 3. the drain empties the closed stream and ends *)
  assert (Hloop : forall k a, good a -> procs a !! p_drain = Some DIdle ->
            (exists ch, chans a !! c_eout N = Some ch /\ cclosed ch = true /\ length (cbuf ch) = k) ->
            exists b, reachable beh a b /\ good b /\ procs b !! p_drain = Some (End RDrain) /\
              (exists ch, chans b !! c_eout N = Some ch /\ cclosed ch = true) /\
              (forall j, j <> p_drain -> procs b !! j = procs a !! j)).
  { induction k as [|k IHk]; intros a Hga Ha (ch & Hch & Hcl & Hlen).
    - destruct (cbuf ch) eqn:Eb; [|discriminate].
      assert (Hs : nstep beh a (set_proc a p_drain (End RDrain))).
      { eapply (NRecvClosed beh a p_drain DIdle _ (c_eout N) (fun r => match r with RVal v => DEmit v | _ => End RDrain end));
          eauto. alt_in. }
      eexists. split; [eapply RS; [apply R0|exact Hs]|]. split; [eapply good_step; eauto|].
      split; [simpl; apply list_lookup_insert; eapply lookup_lt_Some; eassumption|]. simpl. split; [eauto|].
      intros j Hj. apply list_lookup_insert_ne. congruence.
    - destruct (cbuf ch) as [|v rest] eqn:Eb; [discriminate|]. simpl in Hlen.
      assert (Hs : nstep beh a (set_chan (set_proc a p_drain (DEmit v)) (c_eout N) (Chan rest (ccap ch) (cclosed ch)))).
      { eapply (NRecv beh a p_drain DIdle _ (c_eout N) (fun r => match r with RVal v => DEmit v | _ => End RDrain end));
          eauto. alt_in. }
      set (a1 := set_chan _ _ _) in *.
      assert (Hga1 : good a1) by (eapply good_step; eauto).
      assert (Ha1 : procs a1 !! p_drain = Some (DEmit v))
        by (simpl; apply list_lookup_insert; eapply lookup_lt_Some; eassumption).
      assert (Hs2 : nstep beh a1 (Net (<[p_drain := DIdle]> (procs a1)) (chans a1) (cancelled a1) (log a1 ++ [EErrOut v]) (panicked a1))).
      { eapply (NCall beh a1 p_drain (DEmit v) (fun _ => [EErrOut v]) (fun _ => DIdle) 0); eauto. }
      set (a2 := Net _ _ _ _ _) in *.
      assert (Hga2 : good a2) by (eapply good_step; eauto).
      destruct (IHk a2 Hga2) as (b & Hrb & Hgb & Hpb & Hcb & Hob).
      { simpl. apply list_lookup_insert. eapply lookup_lt_Some; eassumption. }
      { exists (Chan rest (ccap ch) (cclosed ch)). split; [|simpl; split; [assumption|lia]].
        simpl. apply list_lookup_insert. eapply lookup_lt_Some; eassumption. }
      exists b. split; [eapply reachable_trans; [eapply RS; [eapply RS; [apply R0|exact Hs]|exact Hs2]|exact Hrb]|].
      split; [assumption|]. split; [assumption|]. split; [assumption|].
      intros j Hj. rewrite (Hob j Hj). unfold a2, a1. simpl. rewrite !list_lookup_insert_ne by congruence. reflexivity. }
  destruct (state_at n3 p_drain RDrain (proj1 Hg3)) as (l & Hl & Hrl & Hpl).
  { unfold p_drain. replace (2 * N + 7) with (2 * N + 1 + 6) by lia. rewrite (layout_fixed 6) by lia. reflexivity. }
  destruct Hcl3 as (ch3 & Hch3 & Hclo3).
  assert (Hfin : exists n4, reachable beh n3 n4 /\ good n4 /\ procs n4 !! p_drain = Some (End RDrain) /\
            (exists ch, chans n4 !! c_eout N = Some ch /\ cclosed ch = true) /\
            (forall j, j <> p_drain -> procs n4 !! j = procs n3 !! j)).
  { destruct l; simpl in Hrl; try discriminate.
    - eapply (Hloop (length (cbuf ch3))); eauto.
    - assert (Hs2 : nstep beh n3 (Net (<[p_drain := DIdle]> (procs n3)) (chans n3) (cancelled n3) (log n3 ++ [EErrOut v]) (panicked n3))).
      { eapply (NCall beh n3 p_drain (DEmit v) (fun _ => [EErrOut v]) (fun _ => DIdle) 0); eauto. }
      set (a2 := Net _ _ _ _ _) in *.
      assert (Hga2 : good a2) by (eapply good_step; eauto).
      destruct (Hloop (length (cbuf ch3)) a2 Hga2) as (b & Hrb & Hgb & Hpb & Hcb & Hob).
      { simpl. apply list_lookup_insert. eapply lookup_lt_Some; eassumption. }
      { exists ch3. simpl. auto. }
      exists b. split; [eapply reachable_trans; [eapply RS; [apply R0|exact Hs2]|exact Hrb]|].
      split; [assumption|]. split; [assumption|]. split; [assumption|].
      intros j Hj. rewrite (Hob j Hj). unfold a2. simpl. rewrite list_lookup_insert_ne by congruence. reflexivity.
    - simpl in Hpl. destruct Hpl.
    - subst r. exists n3. split; [apply R0|]. split; [assumption|]. split; [assumption|]. split; [eauto|]. auto. }
  destruct Hfin as (n4 & Hr4 & Hg4 & Hd4 & Hc4 & Ho4).
  exists n4. split.
  { eapply reachable_trans; [|exact Hr4]. eapply reachable_trans; [|exact Hr3].
    eapply reachable_trans; [apply (rn_reach _ _ _ Hran1)|apply (rn_reach _ _ _ Hran2)]. }
  split; [assumption|]. split; [assumption|].
  split; [apply (pipeline_no_panic N fill_ok write_ok cap reqs); exact (proj1 Hg4)|].
  intros j J0 J1 J2 J3.
  rewrite (Ho4 j J3), (Ho3 j J2), (rn_others _ _ _ Hran2 j J1), (rn_others _ _ _ Hran1 j J0). reflexivity.
Qed.


End cancel.
