(* Lemmas about Model/Json.v: the escape/unescape round trip over all byte strings, numbers, value
   trees, records, the one-line property, the logger and de-duplication loops. *)
From Coq Require Import ZArith Bool Ascii String List Lia ZifyBool Permutation.
From SX Require Import Base.Bytes Model.Json.
Import ListNotations.
Open Scope Z_scope.

(* ------------------------------------------------------------------ small tools *)

Ltac bdestruct_if :=
  match goal with
  | |- context [if ?c then _ else _] => let E := fresh "E" in destruct c eqn:E
  end.

Lemma wf_bytes_cons b l : wf_bytes (b :: l) = true <-> (0 <= b < 256) /\ wf_bytes l = true.
Proof.
  unfold wf_bytes; cbn [forallb]. unfold is_byte. rewrite andb_true_iff. split; intros [H1 H2]; split; auto; lia.
Qed.

Lemma wf_bytes_app a b : wf_bytes (a ++ b) = true <-> wf_bytes a = true /\ wf_bytes b = true.
Proof. unfold wf_bytes. rewrite forallb_app, andb_true_iff. tauto. Qed.

Lemma bytes_eqb_refl a : bytes_eqb a a = true.
Proof. apply bytes_eqb_eq. reflexivity. Qed.

Lemma bytes_eqb_neq a b : bytes_eqb a b = false <-> a <> b.
Proof.
  split.
  - intros H E. apply bytes_eqb_eq in E. congruence.
  - intros H. destruct (bytes_eqb a b) eqn:E; [|reflexivity]. apply bytes_eqb_eq in E. contradiction.
Qed.

(* ------------------------------------------------------------------ chunks *)

Definition rune_ok (bs : list Z) : bool :=
  match bs with
  | [b0; b1] => in_rng 194 223 b0 && cont b1
  | [b0; b1; b2] => in_rng 224 239 b0 && in_rng (lo3 b0) (hi3 b0) b1 && cont b2
  | [b0; b1; b2; b3] => in_rng 240 244 b0 && in_rng (lo4 b0) (hi4 b0) b1 && cont b2 && cont b3
  | _ => false
  end.

Definition wf_chunk (c : chunk) : Prop :=
  match c with
  | CAscii b => 0 <= b < 128
  | CRune bs => rune_ok bs = true
  | CBad b => 128 <= b < 256
  end.

(* the relation between a string and its chunk list, as an induction principle *)
Lemma chunks_rel (P : list Z -> list chunk -> Prop) :
  P [] [] ->
  (forall b t cs, b < 128 -> P t cs -> P (b :: t) (CAscii b :: cs)) ->
  (forall bs t cs, rune_ok bs = true -> P t cs -> P (bs ++ t) (CRune bs :: cs)) ->
  (forall b t cs, 128 <= b -> utf8_width b t = 0%nat -> P t cs -> P (b :: t) (CBad b :: cs)) ->
  forall s, P s (chunks s).
Proof.
  intros H0 Ha Hr Hb s.
  remember (length s) as n eqn:Hn.
  assert (Hle : (length s <= n)%nat) by lia. clear Hn. revert s Hle.
  induction n as [|n IH]; intros s Hle.
  - destruct s; [exact H0|cbn in Hle; lia].
  - destruct s as [|b0 t0]; [exact H0|]. cbn [length] in Hle.
    cbn [chunks]. destruct (b0 <? 128) eqn:E.
    + apply Ha; [lia|apply IH; lia].
    + assert (Hbad : utf8_width b0 t0 = 0%nat -> P (b0 :: t0) (CBad b0 :: chunks t0)).
      { intros W. apply Hb; [lia|exact W|apply IH; lia]. }
      destruct (utf8_width b0 t0) as [|[|[|[|[|w]]]]] eqn:W; try (apply Hbad; reflexivity).
      * (* 1: impossible, but the default branch covers it *)
        exfalso. unfold utf8_width in W.
        repeat (match type of W with context [if ?c then _ else _] => destruct c end;
                try discriminate); destruct t0 as [|? [|? [|? ?]]]; try discriminate;
        repeat (match type of W with context [if ?c then _ else _] => destruct c end; try discriminate).
      * (* 2 *)
        unfold utf8_width in W.
        destruct (in_rng 194 223 b0) eqn:R2.
        -- destruct t0 as [|b1 t1]; [discriminate|]. destruct (cont b1) eqn:C1; [|discriminate].
           change (b0 :: b1 :: t1) with ([b0; b1] ++ t1). apply Hr.
           ++ cbn. rewrite R2, C1. reflexivity.
           ++ apply IH. cbn [length] in Hle. lia.
        -- exfalso. destruct (in_rng 224 239 b0).
           ++ destruct t0 as [|? [|? ?]]; try discriminate.
              match type of W with context [if ?c then _ else _] => destruct c end; discriminate.
           ++ destruct (in_rng 240 244 b0); [|discriminate].
              destruct t0 as [|? [|? [|? ?]]]; try discriminate.
              match type of W with context [if ?c then _ else _] => destruct c end; discriminate.
      * (* 3 *)
        unfold utf8_width in W.
        destruct (in_rng 194 223 b0) eqn:R2.
        -- exfalso. destruct t0 as [|b1 t1]; [discriminate|]. destruct (cont b1); discriminate.
        -- destruct (in_rng 224 239 b0) eqn:R3.
           ++ destruct t0 as [|b1 [|b2 t2]]; try discriminate.
              destruct (in_rng (lo3 b0) (hi3 b0) b1 && cont b2) eqn:C; [|discriminate].
              change (b0 :: b1 :: b2 :: t2) with ([b0; b1; b2] ++ t2). apply Hr.
              ** cbn. rewrite R3. cbn. exact C.
              ** apply IH. cbn [length] in Hle. lia.
           ++ exfalso. destruct (in_rng 240 244 b0); [|discriminate].
              destruct t0 as [|? [|? [|? ?]]]; try discriminate.
              match type of W with context [if ?c then _ else _] => destruct c end; discriminate.
      * (* 4 *)
        unfold utf8_width in W.
        destruct (in_rng 194 223 b0) eqn:R2.
        -- exfalso. destruct t0 as [|b1 t1]; [discriminate|]. destruct (cont b1); discriminate.
        -- destruct (in_rng 224 239 b0) eqn:R3.
           ++ exfalso. destruct t0 as [|? [|? ?]]; try discriminate.
              match type of W with context [if ?c then _ else _] => destruct c end; discriminate.
           ++ destruct (in_rng 240 244 b0) eqn:R4; [|discriminate].
              destruct t0 as [|b1 [|b2 [|b3 t3]]]; try discriminate.
              destruct (in_rng (lo4 b0) (hi4 b0) b1 && cont b2 && cont b3) eqn:C; [|discriminate].
              change (b0 :: b1 :: b2 :: b3 :: t3) with ([b0; b1; b2; b3] ++ t3). apply Hr.
              ** cbn. rewrite R4. cbn. exact C.
              ** apply IH. cbn [length] in Hle. lia.
      * (* >= 5: impossible; default branch *)
        exfalso. unfold utf8_width in W.
        repeat (match type of W with context [if ?c then _ else _] => destruct c end;
                try discriminate); destruct t0 as [|? [|? [|? ?]]]; try discriminate;
        repeat (match type of W with context [if ?c then _ else _] => destruct c end; try discriminate).
Qed.
Lemma chunks_wf s : wf_bytes s = true -> Forall wf_chunk (chunks s).
Proof.
  pattern s, (chunks s). apply chunks_rel; clear s.
  - intros _. constructor.
  - intros b t cs Hb IH H. apply wf_bytes_cons in H. destruct H as [H1 H2].
    constructor; [cbn; lia|auto].
  - intros bs t cs Hr IH H. apply wf_bytes_app in H. destruct H as [H1 H2].
    constructor; [exact Hr|auto].
  - intros b t cs Hb W IH H. apply wf_bytes_cons in H. destruct H as [H1 H2].
    constructor; [cbn; lia|auto].
Qed.

Lemma chunks_raw s : concat (map raw_chunk (chunks s)) = s.
Proof.
  pattern s, (chunks s). apply chunks_rel; clear s; cbn; intros; try congruence.
Qed.

(* a string is valid UTF-8 iff sanitizing changes nothing; then it is returned unchanged *)
Lemma sanitize_valid s : valid_utf8 s = true -> sanitize s = s.
Proof.
  unfold valid_utf8, sanitize.
  pattern s, (chunks s). apply chunks_rel; clear s; cbn; intros; try congruence.
  - f_equal. auto.
  - f_equal. auto.
Qed.

Lemma hexval_hexd x : 0 <= x < 16 -> hexval (hexd x) = Some x.
Proof.
  intros H. unfold hexval, hexd, in_rng.
  destruct (x <? 10) eqn:E.
  - replace ((48 <=? 48 + x) && (48 + x <=? 57)) with true by lia. f_equal. lia.
  - replace ((48 <=? 87 + x) && (87 + x <=? 57)) with false by lia.
    replace ((97 <=? 87 + x) && (87 + x <=? 102)) with true by lia. f_equal. lia.
Qed.

Lemma lex_u a b c d cp tl :
  hex4 a b c d = Some cp -> cp < 55296 ->
  lex_str (92 :: 117 :: a :: b :: c :: d :: tl) = cons_opt (utf8_encode cp) (lex_str tl).
Proof.
  intros H Hc. cbn [lex_str]. change (92 =? 34) with false. change (92 =? 92) with true.
  change (117 =? 117) with true. cbv iota. rewrite H.
  unfold in_rng. replace ((55296 <=? cp) && (cp <=? 56319)) with false by lia.
  replace ((56320 <=? cp) && (cp <=? 57343)) with false by lia. reflexivity.
Qed.

Lemma lex_ascii fl b tl : 0 <= b < 128 ->
  lex_str (esc_ascii fl b ++ tl) = cons_opt [b] (lex_str tl).
Proof.
  intros Hb. unfold esc_ascii.
  destruct (b =? 34) eqn:E1. { assert (b = 34) by lia. subst. reflexivity. }
  destruct (b =? 92) eqn:E2. { assert (b = 92) by lia. subst. reflexivity. }
  destruct (b =? 10) eqn:E3. { assert (b = 10) by lia. subst. reflexivity. }
  destruct (b =? 13) eqn:E4. { assert (b = 13) by lia. subst. reflexivity. }
  destruct (b =? 9) eqn:E5. { assert (b = 9) by lia. subst. reflexivity. }
  destruct ((b =? 8) && is_std fl) eqn:E6. { assert (b = 8) by lia. subst. reflexivity. }
  destruct ((b =? 12) && is_std fl) eqn:E7. { assert (b = 12) by lia. subst. reflexivity. }
  destruct ((b <? 32) || (b =? 38) || (b =? 60) || (b =? 62)) eqn:E8.
  - unfold u00. cbn [app].
    rewrite (lex_u 48 48 (hexd (b / 16)) (hexd (b mod 16)) b).
    + unfold utf8_encode. replace (b <? 128) with true by lia. reflexivity.
    + unfold hex4. change (hexval 48) with (Some 0).
      rewrite !hexval_hexd.
      * f_equal. pose proof (Z.div_mod b 16). lia.
      * apply Z.mod_pos_bound. lia.
      * split; [apply Z.div_pos; lia|apply Z.div_lt_upper_bound; lia].
    + lia.
  - cbn [app lex_str]. rewrite E1, E2.
    replace (b <? 32) with false by lia. replace (b <? 128) with true by lia. reflexivity.
Qed.

Lemma utf8_width_rune b0 t tl : rune_ok (b0 :: t) = true -> utf8_width b0 (t ++ tl) = length (b0 :: t).
Proof.
  intros H. destruct t as [|b1 [|b2 [|b3 [|b4 t]]]]; cbn in H; try discriminate; unfold utf8_width; cbn [app length].
  - apply andb_true_iff in H. destruct H as [H1 H2]. rewrite H1, H2. reflexivity.
  - apply andb_true_iff in H. destruct H as [H H3]. apply andb_true_iff in H. destruct H as [H1 H2].
    replace (in_rng 194 223 b0) with false by (unfold in_rng in *; lia).
    rewrite H1, H2, H3. reflexivity.
  - apply andb_true_iff in H. destruct H as [H H4]. apply andb_true_iff in H. destruct H as [H H3].
    apply andb_true_iff in H. destruct H as [H1 H2].
    replace (in_rng 194 223 b0) with false by (unfold in_rng in *; lia).
    replace (in_rng 224 239 b0) with false by (unfold in_rng in *; lia).
    rewrite H1, H2, H3, H4. reflexivity.
Qed.

Lemma rune_ok_lead b0 t : rune_ok (b0 :: t) = true -> 194 <= b0 <= 244.
Proof.
  destruct t as [|b1 [|b2 [|b3 [|b4 t]]]]; cbn; try discriminate; unfold in_rng; lia.
Qed.

Lemma lex_rune bs tl : rune_ok bs = true -> bs <> ls_bytes -> bs <> ps_bytes ->
  lex_str (bs ++ tl) = cons_opt bs (lex_str tl).
Proof.
  intros H _ _. destruct bs as [|b0 t]; [discriminate|].
  pose proof (rune_ok_lead _ _ H) as Hl. pose proof (utf8_width_rune b0 t tl H) as W.
  cbn [app lex_str].
  replace (b0 =? 34) with false by lia. replace (b0 =? 92) with false by lia.
  replace (b0 <? 32) with false by lia. replace (b0 <? 128) with false by lia.
  rewrite W.
  destruct t as [|b1 [|b2 [|b3 [|b4 t]]]]; cbn in H; try discriminate; reflexivity.
Qed.

Lemma lex_chunk fl c tl : wf_chunk c ->
  lex_str (esc_chunk fl c ++ tl) = cons_opt (san_chunk c) (lex_str tl).
Proof.
  destruct c as [b|bs|b]; cbn [wf_chunk esc_chunk san_chunk]; intros H.
  - apply lex_ascii. exact H.
  - destruct (bytes_eqb bs ls_bytes) eqn:E1.
    { apply bytes_eqb_eq in E1. subst. reflexivity. }
    destruct (bytes_eqb bs ps_bytes) eqn:E2.
    { apply bytes_eqb_eq in E2. subst. reflexivity. }
    apply lex_rune; [exact H| |]; apply bytes_eqb_neq; assumption.
  - reflexivity.
Qed.

Lemma lex_body fl cs rest : Forall wf_chunk cs ->
  lex_str (flat_map (esc_chunk fl) cs ++ 34 :: rest) = Some (flat_map san_chunk cs, rest).
Proof.
  induction 1 as [|c cs Hc _ IH]; cbn [flat_map app].
  - reflexivity.
  - rewrite <- app_assoc, lex_chunk by exact Hc. rewrite IH. reflexivity.
Qed.

(* the string round trip: for every byte string, reading back what was written gives the string
   with exactly its invalid bytes replaced by U+FFFD *)
Lemma lex_esc_string fl s rest : wf_bytes s = true ->
  lex_str (esc_body fl s ++ 34 :: rest) = Some (sanitize s, rest).
Proof. intros H. apply lex_body, chunks_wf, H. Qed.
(* ---------------- no line feed, and only bytes, in what the escapers write *)
Definition out_ok (x : Z) : bool := is_byte x && negb (x =? 10).

Lemma hexd_ok x : 0 <= x < 16 -> out_ok (hexd x) = true.
Proof. intros H. unfold out_ok, is_byte, hexd. destruct (x <? 10) eqn:E; lia. Qed.

Lemma esc_ascii_ok fl b : 0 <= b < 128 -> forallb out_ok (esc_ascii fl b) = true.
Proof.
  intros Hb. unfold esc_ascii.
  repeat (bdestruct_if; [reflexivity|]).
  bdestruct_if.
  - unfold u00. cbn [forallb]. rewrite !hexd_ok; [reflexivity| |].
    + apply Z.mod_pos_bound. lia.
    + split; [apply Z.div_pos; lia|apply Z.div_lt_upper_bound; lia].
  - cbn. unfold out_ok, is_byte. lia.
Qed.

Lemma rune_ok_bytes bs : rune_ok bs = true -> forallb out_ok bs = true.
Proof.
  destruct bs as [|b0 [|b1 [|b2 [|b3 [|b4 t]]]]]; cbn; try discriminate;
    unfold out_ok, is_byte, in_rng, cont, lo3, hi3, lo4, hi4, in_rng; intros H;
    repeat match goal with |- context [if ?c then _ else _] => destruct c end;
    repeat match type of H with context [if ?c then _ else _] => destruct c eqn:? end; lia.
Qed.

Lemma esc_chunk_ok fl c : wf_chunk c -> forallb out_ok (esc_chunk fl c) = true.
Proof.
  destruct c as [b|bs|b]; cbn [wf_chunk esc_chunk]; intros H.
  - apply esc_ascii_ok, H.
  - repeat (bdestruct_if; [reflexivity|]). apply rune_ok_bytes, H.
  - reflexivity.
Qed.

Lemma esc_body_ok fl s : wf_bytes s = true -> forallb out_ok (esc_body fl s) = true.
Proof.
  intros H. apply chunks_wf in H. unfold esc_body. induction H as [|c cs Hc _ IH]; cbn [flat_map].
  - reflexivity.
  - rewrite forallb_app, esc_chunk_ok, IH by exact Hc. reflexivity.
Qed.

Lemma esc_string_ok fl s : wf_bytes s = true -> forallb out_ok (esc_string fl s) = true.
Proof.
  intros H. unfold esc_string. cbn [forallb]. rewrite forallb_app, esc_body_ok by exact H. reflexivity.
Qed.
(* ---------------- decimal numbers *)
Lemma digits_fuel_acc f : forall n acc, digits_fuel f n acc = digits_fuel f n [] ++ acc.
Proof.
  induction f as [|f IH]; intros n acc; cbn [digits_fuel]; [reflexivity|].
  destruct (n <? 10); [reflexivity|].
  rewrite (IH (n / 10) ((48 + n mod 10) :: acc)), (IH (n / 10) [48 + n mod 10]).
  rewrite <- app_assoc. reflexivity.
Qed.

Lemma digits_fuel_small f n : 0 <= n < 10 -> digits_fuel (S f) n [] = [48 + n].
Proof.
  intros H. cbn [digits_fuel]. replace (n <? 10) with true by lia.
  rewrite Z.mod_small by lia. reflexivity.
Qed.

Lemma digits_fuel_step f n : 10 <= n ->
  digits_fuel (S f) n [] = digits_fuel f (n / 10) [] ++ [48 + n mod 10].
Proof.
  intros H. cbn [digits_fuel]. replace (n <? 10) with false by lia. apply digits_fuel_acc.
Qed.

Lemma parse_digits_app a : forall b acc,
  parse_digits (a ++ b) acc = match parse_digits a acc with Some x => parse_digits b x | None => None end.
Proof.
  induction a as [|x a IH]; intros b acc; cbn [app parse_digits]; [reflexivity|].
  destruct (is_digit x); [apply IH|reflexivity].
Qed.

Lemma digits_parse f : forall n, 0 <= n < 10 ^ Z.of_nat f ->
  parse_digits (digits_fuel f n []) 0 = Some n /\
  forallb is_digit (digits_fuel f n []) = true /\
  (0 < n -> exists d r, digits_fuel f n [] = d :: r /\ 49 <= d <= 57) /\
  (n = 0 -> (0 < f)%nat -> digits_fuel f n [] = [48]).
Proof.
  induction f as [|f IH]; intros n Hn.
  - change (10 ^ Z.of_nat 0) with 1 in Hn. assert (n = 0) by lia. subst. cbn.
    repeat split; try reflexivity; try lia.
  - destruct (Z.ltb_spec n 10) as [Hs|Hs].
    + rewrite digits_fuel_small by lia. cbn [parse_digits forallb]. unfold is_digit, in_rng.
      replace ((48 <=? 48 + n) && (48 + n <=? 57)) with true by lia.
      repeat split; try reflexivity.
      * f_equal. lia.
      * intros Hp. exists (48 + n), []. split; [reflexivity|lia].
      * intros -> _. reflexivity.
    + rewrite digits_fuel_step by lia.
      assert (Hq : 0 <= n / 10 < 10 ^ Z.of_nat f).
      { rewrite Nat2Z.inj_succ, Z.pow_succ_r in Hn by lia.
        split; [apply Z.div_pos; lia|apply Z.div_lt_upper_bound; lia]. }
      destruct (IH (n / 10) Hq) as [P1 [P2 [P3 _]]].
      assert (Hm : 0 <= n mod 10 < 10) by (apply Z.mod_pos_bound; lia).
      repeat split.
      * rewrite parse_digits_app, P1. cbn [parse_digits]. unfold is_digit, in_rng.
        replace ((48 <=? 48 + n mod 10) && (48 + n mod 10 <=? 57)) with true by lia.
        f_equal. pose proof (Z.div_mod n 10). lia.
      * rewrite forallb_app, P2. cbn [forallb]. unfold is_digit, in_rng. lia.
      * intros _. destruct P3 as [d [r [E Hd]]].
        { apply Z.div_str_pos. lia. }
        exists d, (r ++ [48 + n mod 10]). rewrite E. split; [reflexivity|exact Hd].
      * intros ->. lia.
Qed.

Lemma enc_uint_parse n : 0 <= n < 2 ^ 64 -> parse_uint (enc_uint n) = Some n.
Proof.
  intros H. unfold enc_uint, parse_uint.
  destruct (digits_parse 20 n) as [P1 [_ [P3 P4]]]; [change (10 ^ Z.of_nat 20) with 100000000000000000000; lia|].
  destruct (digits_fuel 20 n []) eqn:E; [|exact P1].
  destruct (Z.eq_dec n 0) as [->|Hnz]; [rewrite P4 in E; [discriminate|reflexivity|lia]|].
  destruct P3 as [d [r [E' _]]]; [lia|discriminate].
Qed.

Lemma drop_digits_all l : forallb is_digit l = true -> drop_digits l = [].
Proof.
  induction l as [|x l IH]; cbn; [reflexivity|]. intros H. apply andb_true_iff in H. destruct H as [H1 H2].
  rewrite H1. auto.
Qed.

Lemma enc_uint_valid n : 0 <= n < 2 ^ 64 ->
  valid_num (enc_uint n) = true /\ forallb is_digit (enc_uint n) = true /\
  exists d r, enc_uint n = d :: r /\ is_digit d = true.
Proof.
  intros H. unfold enc_uint.
  destruct (digits_parse 20 n) as [_ [P2 [P3 P4]]]; [change (10 ^ Z.of_nat 20) with 100000000000000000000; lia|].
  destruct (Z.eq_dec n 0) as [->|Hnz].
  - rewrite P4 by (reflexivity || lia). repeat split; try reflexivity. exists 48, []. split; reflexivity.
  - destruct P3 as [d [r [E Hd]]]; [lia|]. rewrite E in *. cbn [forallb] in P2.
    apply andb_true_iff in P2. destruct P2 as [Q1 Q2].
    repeat split.
    + unfold valid_num. replace (d =? 45) with false by lia. replace (d =? 48) with false by lia.
      unfold in_rng. replace ((49 <=? d) && (d <=? 57)) with true by lia.
      rewrite drop_digits_all by exact Q2. reflexivity.
    + cbn [forallb]. rewrite Q1, Q2. reflexivity.
    + exists d, r. split; [reflexivity|exact Q1].
Qed.

Lemma digit_num_char l : forallb is_digit l = true -> forallb num_char l = true.
Proof.
  induction l as [|x l IH]; cbn [forallb]; [reflexivity|]. intros H. apply andb_true_iff in H. destruct H as [H1 H2].
  rewrite IH by exact H2. unfold num_char. rewrite H1. reflexivity.
Qed.

Lemma enc_int_props n : - 2 ^ 63 <= n < 2 ^ 64 ->
  valid_num (enc_int n) = true /\ forallb num_char (enc_int n) = true /\ parse_int (enc_int n) = Some n /\
  (0 <= n -> parse_uint (enc_int n) = Some n).
Proof.
  intros H. unfold enc_int. destruct (n <? 0) eqn:E.
  - destruct (enc_uint_valid (- n)) as [V [D [d [r [Ed Hd]]]]]; [lia|].
    repeat split.
    + unfold valid_num. change (45 =? 45) with true. cbv iota.
      unfold valid_num in V. rewrite Ed in *.
      assert (d =? 45 = false) by (unfold is_digit, in_rng in Hd; lia). rewrite H0 in V. exact V.
    + cbn [forallb]. rewrite digit_num_char by exact D. reflexivity.
    + unfold parse_int. change (45 =? 45) with true. cbv iota. rewrite enc_uint_parse by lia. f_equal. lia.
    + lia.
  - destruct (enc_uint_valid n) as [V [D [d [r [Ed Hd]]]]]; [lia|].
    repeat split; try assumption.
    + apply digit_num_char, D.
    + unfold parse_int. rewrite Ed. assert (d =? 45 = false) by (unfold is_digit, in_rng in Hd; lia).
      rewrite H0, <- Ed. apply enc_uint_parse. lia.
    + intros _. apply enc_uint_parse. lia.
Qed.

Definition delim_ok (rest : list Z) : bool :=
  match rest with [] => true | b :: _ => negb (num_char b) end.

Lemma span_num_app t rest : forallb num_char t = true -> delim_ok rest = true ->
  span_num (t ++ rest) = (t, rest).
Proof.
  intros Ht Hr. induction t as [|x t IH]; cbn [app].
  - destruct rest as [|b r]; [reflexivity|]. cbn in *. destruct (num_char b); [discriminate|reflexivity].
  - cbn in Ht. apply andb_true_iff in Ht. destruct Ht as [H1 H2]. cbn [span_num]. rewrite H1, IH by exact H2.
    reflexivity.
Qed.
(* ---------------- value trees *)
Lemma jvalue_ind' (P : jvalue -> Prop) :
  P JNull -> (forall b, P (JBool b)) -> (forall t, P (JNum t)) -> (forall s, P (JStr s)) ->
  (forall l, Forall P l -> P (JArr l)) ->
  (forall l, Forall (fun kv => P (snd kv)) l -> P (JObj l)) ->
  (forall l, Forall (fun kv => P (snd kv)) l -> P (JMap l)) ->
  forall v, P v.
Proof.
  intros Hn Hb Hnum Hs Ha Ho Hm.
  fix IH 1. intros v. destruct v as [|b|t|s|l|l|l].
  - exact Hn.
  - apply Hb.
  - apply Hnum.
  - apply Hs.
  - apply Ha. induction l as [|x l IHl]; constructor; [apply IH|exact IHl].
  - apply Ho. induction l as [|[k x] l IHl]; constructor; [apply IH|exact IHl].
  - apply Hm. induction l as [|[k x] l IHl]; constructor; [apply IH|exact IHl].
Qed.

Section SortFacts.
Context {A B : Type} (g : list Z * A -> list Z * B) (Hg : forall kv, fst (g kv) = fst kv).

Lemma insert_key_map x l : insert_key (g x) (map g l) = map g (insert_key x l).
Proof.
  induction l as [|y l IH]; cbn [map insert_key]; [reflexivity|].
  rewrite !Hg. destruct (bytes_leb (fst x) (fst y)); cbn [map]; [reflexivity|]. rewrite IH. reflexivity.
Qed.

Lemma sort_keys_map l : sort_keys (map g l) = map g (sort_keys l).
Proof.
  induction l as [|x l IH]; cbn [map sort_keys]; [reflexivity|]. rewrite IH. apply insert_key_map.
Qed.
End SortFacts.

Lemma insert_key_perm {A} (x : list Z * A) l : Permutation (insert_key x l) (x :: l).
Proof.
  induction l as [|y l IH]; cbn [insert_key]; [reflexivity|].
  destruct (bytes_leb (fst x) (fst y)); [reflexivity|].
  rewrite IH. apply perm_swap.
Qed.

Lemma sort_keys_perm {A} (l : list (list Z * A)) : Permutation (sort_keys l) l.
Proof.
  induction l as [|x l IH]; cbn [sort_keys]; [reflexivity|]. rewrite insert_key_perm. constructor. exact IH.
Qed.

Lemma sort_keys_Forall {A} (P : list Z * A -> Prop) l : Forall P l -> Forall P (sort_keys l).
Proof. intros H. eapply Permutation_Forall; [symmetry; apply sort_keys_perm|exact H]. Qed.

Definition enc_kv (fl : flavour) (kv : list Z * jvalue) : list Z * list Z :=
  match kv with (k, x) => (k, enc_jv fl x) end.
Definition norm_kv (kv : list Z * jvalue) : list Z * jvalue :=
  match kv with (k, x) => (k, norm x) end.

Lemma enc_kv_fst fl kv : fst (enc_kv fl kv) = fst kv. Proof. destruct kv; reflexivity. Qed.
Lemma norm_kv_fst kv : fst (norm_kv kv) = fst kv. Proof. destruct kv; reflexivity. Qed.

Lemma enc_jv_map fl l : enc_jv fl (JMap l) = enc_jv fl (JObj (sort_keys l)).
Proof.
  change (enc_jv fl (JMap l)) with (enc_members fl (sort_keys (map (enc_kv fl) l))).
  change (enc_jv fl (JObj (sort_keys l))) with (enc_members fl (map (enc_kv fl) (sort_keys l))).
  rewrite (sort_keys_map (enc_kv fl) (enc_kv_fst fl)). reflexivity.
Qed.

Lemma norm_map l : norm (JMap l) = norm (JObj (sort_keys l)).
Proof.
  change (norm (JMap l)) with (JObj (map san_key (sort_keys (map norm_kv l)))).
  change (norm (JObj (sort_keys l))) with (JObj (map san_key (map norm_kv (sort_keys l)))).
  rewrite (sort_keys_map norm_kv norm_kv_fst). reflexivity.
Qed.

(* unfolding equations of the mutual parser *)
Lemma pval_S f s : pval (S f) s =
  match skip_ws s with
  | [] => None
  | b :: t =>
      if b =? 34 then match lex_str t with Some (d, r) => Some (JStr d, r) | None => None end
      else if b =? 123 then
        match skip_ws t with
        | c :: r => if c =? 125 then Some (JObj [], r)
                    else match pmembers f (c :: r) with Some (l, r') => Some (JObj l, r') | None => None end
        | [] => None
        end
      else if b =? 91 then
        match skip_ws t with
        | c :: r => if c =? 93 then Some (JArr [], r)
                    else match pelems f (c :: r) with Some (l, r') => Some (JArr l, r') | None => None end
        | [] => None
        end
      else if b =? 116 then
        match strip_prefix (str "rue") t with Some r => Some (JBool true, r) | None => None end
      else if b =? 102 then
        match strip_prefix (str "alse") t with Some r => Some (JBool false, r) | None => None end
      else if b =? 110 then
        match strip_prefix (str "ull") t with Some r => Some (JNull, r) | None => None end
      else let (a, r) := span_num (b :: t) in if valid_num a then Some (JNum a, r) else None
  end.
Proof. reflexivity. Qed.

Lemma pmembers_S f s : pmembers (S f) s =
  match skip_ws s with
  | q :: t =>
      if q =? 34 then
        match lex_str t with
        | Some (k, r) =>
            match skip_ws r with
            | c :: r1 =>
                if c =? 58 then
                  match pval f r1 with
                  | Some (v, r2) =>
                      match skip_ws r2 with
                      | d :: r3 =>
                          if d =? 44 then
                            match pmembers f r3 with
                            | Some (l, r4) => Some ((k, v) :: l, r4)
                            | None => None
                            end
                          else if d =? 125 then Some ([(k, v)], r3)
                          else None
                      | [] => None
                      end
                  | None => None
                  end
                else None
            | [] => None
            end
        | None => None
        end
      else None
  | [] => None
  end.
Proof. reflexivity. Qed.

Lemma pelems_S f s : pelems (S f) s =
  match pval f s with
  | Some (v, r) =>
      match skip_ws r with
      | d :: r1 =>
          if d =? 44 then
            match pelems f r1 with Some (l, r2) => Some (v :: l, r2) | None => None end
          else if d =? 93 then Some ([v], r1)
          else None
      | [] => None
      end
  | None => None
  end.
Proof. reflexivity. Qed.

Lemma skip_ws_head b t : is_ws b = false -> skip_ws (b :: t) = b :: t.
Proof. intros H. cbn [skip_ws]. rewrite H. reflexivity. Qed.

(* the first byte of an encoded value *)
Definition head_ok (b : Z) : bool :=
  negb (is_ws b) && negb (b =? 93) && negb (b =? 125) && negb (b =? 44) && negb (b =? 58).

Lemma valid_num_head t : valid_num t = true -> exists b t', t = b :: t' /\ ((b =? 45) || is_digit b) = true.
Proof.
  unfold valid_num. destruct t as [|m r]; [discriminate|]. intros H. exists m, r. split; [reflexivity|].
  destruct (m =? 45) eqn:E; [reflexivity|]. cbn [orb].
  destruct (m =? 48) eqn:E0; [unfold is_digit, in_rng; lia|].
  destruct (in_rng 49 57 m) eqn:E1; [unfold is_digit, in_rng in *; lia|discriminate].
Qed.

Lemma enc_jv_head fl v : wf_jv v = true -> exists b t, enc_jv fl v = b :: t /\ head_ok b = true.
Proof.
  destruct v as [|[|]|t|s|l|l|l]; intros H; try (eexists _, _; split; [reflexivity|reflexivity]).
  - cbn in H. apply andb_true_iff in H. destruct H as [H _]. apply valid_num_head in H.
    destruct H as [b [t' [-> Hb]]]. exists b, t'. split; [reflexivity|].
    unfold head_ok, is_ws, is_digit, in_rng in *. lia.
Qed.

Definition RT (fl : flavour) (v : jvalue) : Prop :=
  wf_jv v = true -> forall f rest, (length (enc_jv fl v) < f)%nat -> delim_ok rest = true ->
  pval f (enc_jv fl v ++ rest) = Some (norm v, rest).

Definition wf_kv (kv : list Z * jvalue) : bool := match kv with (k, x) => wf_bytes k && wf_jv x end.

Lemma enc_member_shape fl k e tl :
  enc_member fl (k, e) ++ tl = 34 :: esc_body fl k ++ 34 :: 58 :: e ++ tl.
Proof.
  unfold enc_member, esc_string. cbn [fst snd app]. rewrite <- !app_assoc. reflexivity.
Qed.

Lemma join_comma_cons x y l : join_comma (x :: y :: l) = x ++ 44 :: join_comma (y :: l).
Proof. reflexivity. Qed.

Lemma members_rt fl l :
  Forall (fun kv => RT fl (snd kv)) l -> forallb wf_kv l = true -> l <> [] ->
  forall f rest,
    (length (join_comma (map (enc_member fl) (map (enc_kv fl) l))) + 1 < f)%nat ->
    pmembers f (join_comma (map (enc_member fl) (map (enc_kv fl) l)) ++ 125 :: rest)
    = Some (map san_key (map norm_kv l), rest).
Proof.
  induction l as [|[k x] l IH]; intros HF Hwf Hne f rest Hlen; [contradiction|].
  inversion HF as [|? ? Hx HF']; subst. cbn [snd] in Hx.
  cbn [forallb wf_kv] in Hwf. apply andb_true_iff in Hwf. destruct Hwf as [Hkx Hwl].
  apply andb_true_iff in Hkx. destruct Hkx as [Hk Hxw].
  destruct f as [|f]; [lia|]. rewrite pmembers_S.
  destruct l as [|kv2 l].
  - (* last member *)
    cbn [map join_comma enc_kv] in *. rewrite enc_member_shape.
    rewrite skip_ws_head by reflexivity. change (34 =? 34) with true. cbv iota.
    rewrite lex_esc_string by exact Hk.
    rewrite skip_ws_head by reflexivity. change (58 =? 58) with true. cbv iota.
    rewrite (Hx Hxw f (125 :: rest)); [|unfold enc_member, esc_string in Hlen; cbn [fst snd] in Hlen;
      rewrite app_length in Hlen; cbn [length] in Hlen; lia|reflexivity].
    rewrite skip_ws_head by reflexivity. reflexivity.
  - (* more members follow *)
    cbn [map] in *. rewrite join_comma_cons in *. cbn [enc_kv] in *.
    rewrite <- app_assoc. rewrite enc_member_shape.
    rewrite skip_ws_head by reflexivity. change (34 =? 34) with true. cbv iota.
    rewrite lex_esc_string by exact Hk.
    rewrite skip_ws_head by reflexivity. change (58 =? 58) with true. cbv iota.
    rewrite app_length in Hlen. unfold enc_member at 1, esc_string in Hlen. cbn [fst snd length] in Hlen.
    rewrite !app_length in Hlen. cbn [length] in Hlen.
    cbn [app]. rewrite (Hx Hxw f); [|lia|reflexivity].
    rewrite skip_ws_head by reflexivity. change (44 =? 44) with true. cbv iota.
    rewrite (IH HF' Hwl); [reflexivity|discriminate|]. cbn [map]. lia.
Qed.

Lemma elems_rt fl l :
  Forall (RT fl) l -> forallb wf_jv l = true -> l <> [] ->
  forall f rest,
    (length (join_comma (map (enc_jv fl) l)) + 1 < f)%nat ->
    pelems f (join_comma (map (enc_jv fl) l) ++ 93 :: rest) = Some (map norm l, rest).
Proof.
  induction l as [|x l IH]; intros HF Hwf Hne f rest Hlen; [contradiction|].
  inversion HF as [|? ? Hx HF']; subst.
  cbn [forallb] in Hwf. apply andb_true_iff in Hwf. destruct Hwf as [Hxw Hwl].
  destruct f as [|f]; [lia|]. rewrite pelems_S.
  destruct l as [|y l].
  - cbn [map join_comma] in *. rewrite (Hx Hxw f (93 :: rest)); [|lia|reflexivity].
    rewrite skip_ws_head by reflexivity. reflexivity.
  - cbn [map] in *. rewrite join_comma_cons in *. rewrite <- app_assoc. cbn [app].
    rewrite app_length in Hlen. cbn [length] in Hlen.
    rewrite (Hx Hxw f); [|lia|reflexivity].
    rewrite skip_ws_head by reflexivity. change (44 =? 44) with true. cbv iota.
    rewrite (IH HF' Hwl); [reflexivity|discriminate|lia].
Qed.

Lemma head_ok_ws b : head_ok b = true -> is_ws b = false.
Proof. unfold head_ok. destruct (is_ws b); [discriminate|reflexivity]. Qed.

Lemma obj_rt fl l :
  Forall (fun kv => RT fl (snd kv)) l -> forallb wf_kv l = true ->
  forall f rest, (length (enc_jv fl (JObj l)) < f)%nat ->
  pval f (enc_jv fl (JObj l) ++ rest) = Some (norm (JObj l), rest).
Proof.
  intros HF Hwf f rest Hlen.
  change (enc_jv fl (JObj l)) with (enc_members fl (map (enc_kv fl) l)) in *.
  change (norm (JObj l)) with (JObj (map san_key (map norm_kv l))).
  unfold enc_members in *. cbn [length] in Hlen. rewrite app_length in Hlen. cbn [length] in Hlen.
  destruct f as [|f]; [lia|]. rewrite pval_S. cbn [app]. rewrite skip_ws_head by reflexivity.
  change (123 =? 34) with false. change (123 =? 123) with true. cbv iota.
  destruct l as [|[k x] l].
  - cbn [map join_comma app]. rewrite skip_ws_head by reflexivity. reflexivity.
  - rewrite <- app_assoc. cbn [app].
    pose proof (members_rt fl ((k, x) :: l) HF Hwf ltac:(discriminate) f rest ltac:(lia)) as M.
    remember (join_comma (map (enc_member fl) (map (enc_kv fl) ((k, x) :: l)))) as J eqn:EJ.
    assert (HJ : exists t, J = 34 :: t).
    { subst J. cbn [map enc_kv]. destruct (map (enc_kv fl) l); cbn [map join_comma];
        unfold enc_member, esc_string; cbn [fst snd app]; eexists; reflexivity. }
    destruct HJ as [t Ht]. rewrite Ht in *. cbn [app] in *.
    rewrite skip_ws_head by reflexivity. change (34 =? 125) with false. cbv iota.
    rewrite M. reflexivity.
Qed.

Lemma forallb_wf_kv l :
  forallb (fun kv : list Z * jvalue => match kv with (k, x) => wf_bytes k && wf_jv x end) l = forallb wf_kv l.
Proof. reflexivity. Qed.

Lemma jv_roundtrip fl v : RT fl v.
Proof.
  induction v using jvalue_ind'; unfold RT; intros Hwf f rest Hlen Hd.
  - destruct f as [|f]; [cbn in Hlen; lia|]. reflexivity.
  - destruct f as [|f]; [cbn in Hlen; lia|]. destruct b; reflexivity.
  - (* number *)
    cbn [enc_jv norm] in *. cbn [wf_jv] in Hwf. apply andb_true_iff in Hwf. destruct Hwf as [Hv Hc].
    destruct (valid_num_head t Hv) as [b [t' [-> Hb]]].
    destruct f as [|f]; [cbn in Hlen; lia|]. rewrite pval_S. cbn [app].
    rewrite skip_ws_head by (unfold is_ws, is_digit, in_rng in *; lia).
    replace (b =? 34) with false by (unfold is_digit, in_rng in *; lia).
    replace (b =? 123) with false by (unfold is_digit, in_rng in *; lia).
    replace (b =? 91) with false by (unfold is_digit, in_rng in *; lia).
    replace (b =? 116) with false by (unfold is_digit, in_rng in *; lia).
    replace (b =? 102) with false by (unfold is_digit, in_rng in *; lia).
    replace (b =? 110) with false by (unfold is_digit, in_rng in *; lia).
    change (b :: t' ++ rest) with ((b :: t') ++ rest). rewrite span_num_app by assumption.
    rewrite Hv. reflexivity.
  - (* string *)
    cbn [enc_jv norm wf_jv] in *. unfold esc_string in *.
    destruct f as [|f]; [cbn in Hlen; lia|]. rewrite pval_S. cbn [app].
    rewrite skip_ws_head by reflexivity. change (34 =? 34) with true. cbv iota.
    rewrite <- app_assoc. cbn [app]. rewrite lex_esc_string by exact Hwf. reflexivity.
  - (* array *)
    cbn [wf_jv] in Hwf. cbn [enc_jv norm] in *. cbn [length] in Hlen. rewrite app_length in Hlen. cbn [length] in Hlen.
    destruct f as [|f]; [lia|]. rewrite pval_S. cbn [app]. rewrite skip_ws_head by reflexivity.
    change (91 =? 34) with false. change (91 =? 123) with false. change (91 =? 91) with true. cbv iota.
    destruct l as [|x l].
    + cbn [map join_comma app]. rewrite skip_ws_head by reflexivity. reflexivity.
    + rewrite <- app_assoc. cbn [app].
      pose proof (elems_rt fl (x :: l) H Hwf ltac:(discriminate) f rest ltac:(lia)) as M.
      assert (Hh : exists b t, join_comma (map (enc_jv fl) (x :: l)) = b :: t /\ head_ok b = true).
      { cbn [forallb] in Hwf. apply andb_true_iff in Hwf. destruct Hwf as [Hx _].
        destruct (enc_jv_head fl x Hx) as [b [t [E Hb]]]. cbn [map].
        destruct (map (enc_jv fl) l); cbn [join_comma]; rewrite E; cbn [app]; eexists _, _; split; try reflexivity; exact Hb. }
      destruct Hh as [b [t [E Hb]]]. rewrite E in *. cbn [app] in *.
      rewrite skip_ws_head by (apply head_ok_ws, Hb).
      replace (b =? 93) with false by (unfold head_ok in Hb; lia).
      rewrite M. reflexivity.
  - (* object *)
    cbn [wf_jv] in Hwf. rewrite forallb_wf_kv in Hwf. apply obj_rt; assumption.
  - (* map *)
    cbn [wf_jv] in Hwf. rewrite forallb_wf_kv in Hwf.
    rewrite enc_jv_map, norm_map in *. apply obj_rt.
    + apply sort_keys_Forall. exact H.
    + apply forallb_forall. intros kv Hin. rewrite forallb_forall in Hwf. apply Hwf.
      eapply Permutation_in; [apply sort_keys_perm|exact Hin].
    + exact Hlen.
Qed.

(* a complete text decodes to the normalised value *)
Lemma dec_json_enc fl v : wf_jv v = true -> dec_json (enc_jv fl v) = Some (norm v).
Proof.
  intros H. unfold dec_json.
  pose proof (jv_roundtrip fl v H (S (length (enc_jv fl v))) [] ltac:(lia) eq_refl) as R.
  rewrite app_nil_r in R. rewrite R. reflexivity.
Qed.
(* ---------------- records *)
Lemma plain_key_wf k : plain_key k = true -> wf_bytes k = true.
Proof.
  unfold plain_key, wf_bytes. induction k as [|b k IH]; cbn [forallb]; [reflexivity|].
  intros H. apply andb_true_iff in H. destruct H as [H1 H2]. rewrite IH by exact H2.
  unfold plain_byte, in_rng, is_byte in *. lia.
Qed.

Lemma plain_key_sanitize k : plain_key k = true -> sanitize k = k.
Proof.
  unfold plain_key, sanitize. induction k as [|b k IH]; cbn [forallb]; [reflexivity|].
  intros H. apply andb_true_iff in H. destruct H as [H1 H2]. cbn [chunks].
  replace (b <? 128) with true by (unfold plain_byte, in_rng in H1; lia).
  cbn [flat_map san_chunk app]. rewrite IH by exact H2. reflexivity.
Qed.

Lemma mem_bytes_In k l : mem_bytes k l = true <-> In k l.
Proof.
  induction l as [|x l IH]; cbn [mem_bytes In]; [split; [discriminate|tauto]|].
  rewrite orb_true_iff, IH, bytes_eqb_eq. split; intros [H|H]; auto.
Qed.

Definition entries (fs : list field) (vs : list fval) : list (list Z * jvalue) :=
  map san_key (map norm_kv (fields_jv fs vs)).

Lemma entries_keys fs : forall vs k,
  forallb (fun f => plain_key (fkey f)) fs = true ->
  In k (map fst (entries fs vs)) -> In k (map fkey fs).
Proof.
  induction fs as [|f fs IH]; intros vs k Hp Hin; [destruct vs; exact Hin|].
  cbn [forallb] in Hp. apply andb_true_iff in Hp. destruct Hp as [Hp1 Hp2].
  destruct vs as [|v vs]; [destruct Hin|]. unfold entries in *. cbn [fields_jv] in Hin.
  destruct (fomit f && fval_zero v).
  - right. eapply IH; eassumption.
  - cbn [map fst san_key norm_kv] in Hin. destruct Hin as [Hin|Hin].
    + left. rewrite plain_key_sanitize in Hin by exact Hp1. exact Hin.
    + right. eapply IH; eassumption.
Qed.

Lemma sty_num_range t n : sty_ok t (VNum n) = true -> - 2 ^ 63 <= n < 2 ^ 64.
Proof.
  destruct t as [|bits|bits|]; cbn; try discriminate; intros H.
  - assert (2 ^ bits <= 2 ^ 64) by (apply Z.pow_le_mono_r; lia). lia.
  - assert (2 ^ (bits - 1) <= 2 ^ 63) by (apply Z.pow_le_mono_r; lia). lia.
Qed.

Lemma sval_wf t x : sty_ok t x = true -> wf_jv (sval_jv x) = true.
Proof.
  destruct x as [s|n|b]; intros H; cbn [sval_jv wf_jv].
  - destruct t; cbn in H; try discriminate. exact H.
  - destruct (enc_int_props n (sty_num_range _ _ H)) as [V [C _]]. rewrite V, C. reflexivity.
  - reflexivity.
Qed.

Lemma sval_back t x : sty_ok t x = true -> sval_of t (norm (sval_jv x)) = Some (san_sval x).
Proof.
  destruct x as [s|n|b]; intros H.
  - destruct t; cbn in H; try discriminate. reflexivity.
  - pose proof (sty_num_range _ _ H) as R. destruct (enc_int_props n R) as [_ [_ [PI PU]]].
    destruct t as [|bits|bits|]; cbn in H; try discriminate; cbn [sval_jv norm sval_of san_sval].
    + rewrite PU by lia. replace (n <? 2 ^ bits) with true by lia. reflexivity.
    + rewrite PI. replace ((- 2 ^ (bits - 1) <=? n) && (n <? 2 ^ (bits - 1))) with true by lia. reflexivity.
  - destruct t; cbn in H; try discriminate. reflexivity.
Qed.

Lemma sub_wf sub : forall xs, forallb (fun kt : list Z * sty => plain_key (fst kt)) sub = true ->
  sub_ok sub xs = true -> forallb wf_kv (sub_jv sub xs) = true.
Proof.
  induction sub as [|[k t] sub IH]; intros xs Hp H; [destruct xs; reflexivity|].
  destruct xs as [|x xs]; [discriminate|]. cbn [sub_ok] in H. apply andb_true_iff in H. destruct H as [H1 H2].
  cbn [forallb fst] in Hp. apply andb_true_iff in Hp. destruct Hp as [Hp1 Hp2].
  cbn [sub_jv forallb wf_kv]. rewrite (plain_key_wf _ Hp1), (sval_wf _ _ H1), IH by assumption. reflexivity.
Qed.

Lemma sub_back sub : forall xs, forallb (fun kt : list Z * sty => plain_key (fst kt)) sub = true ->
  sub_ok sub xs = true ->
  svals_of sub (map san_key (map norm_kv (sub_jv sub xs))) = Some (map san_sval xs).
Proof.
  induction sub as [|[k t] sub IH]; intros xs Hp H; [destruct xs; [reflexivity|discriminate]|].
  destruct xs as [|x xs]; [discriminate|]. cbn [sub_ok] in H. apply andb_true_iff in H. destruct H as [H1 H2].
  cbn [forallb fst] in Hp. apply andb_true_iff in Hp. destruct Hp as [Hp1 Hp2].
  cbn [sub_jv map norm_kv san_key fst snd svals_of].
  rewrite plain_key_sanitize by exact Hp1. rewrite bytes_eqb_refl, sval_back by exact H1.
  rewrite IH by assumption. reflexivity.
Qed.

Lemma fval_wf f v : field_ok f = true -> fty_ok (ftype f) v = true -> wf_jv (fval_jv (ftype f) v) = true.
Proof.
  unfold field_ok. intros Hf H. apply andb_true_iff in Hf. destruct Hf as [_ Hf].
  destruct (ftype f) as [t|sub|]; destruct v as [x|[xs|]|tr]; cbn in H; try discriminate; cbn [fval_jv].
  - eapply sval_wf, H.
  - apply andb_true_iff in Hf. destruct Hf as [Hf _]. cbn [wf_jv]. rewrite forallb_wf_kv. apply sub_wf; assumption.
  - reflexivity.
  - exact H.
Qed.

Lemma fval_back f v : field_ok f = true -> fty_ok (ftype f) v = true ->
  fval_of (ftype f) (norm (fval_jv (ftype f) v)) = Some (san_fval v).
Proof.
  unfold field_ok. intros Hf H. apply andb_true_iff in Hf. destruct Hf as [_ Hf].
  destruct (ftype f) as [t|sub|]; destruct v as [x|[xs|]|tr]; cbn in H; try discriminate; cbn [fval_jv fval_of san_fval].
  - rewrite sval_back by exact H. reflexivity.
  - apply andb_true_iff in Hf. destruct Hf as [Hf _].
    change (norm (JObj (sub_jv sub xs))) with (JObj (map san_key (map norm_kv (sub_jv sub xs)))).
    cbn [fval_of]. rewrite sub_back by assumption. reflexivity.
  - reflexivity.
  - reflexivity.
Qed.

Lemma zero_back f v : field_ok f = true -> fty_ok (ftype f) v = true -> fval_zero v = true ->
  zero_of (ftype f) = san_fval v.
Proof.
  intros _ H Z. destruct (ftype f) as [t|sub|]; destruct v as [x|[xs|]|tr]; cbn in H, Z; try discriminate.
  destruct x as [[|b s]|n|b]; try discriminate; destruct t; cbn in H; try discriminate; cbn.
  - reflexivity.
  - assert (n = 0) by lia. subst. reflexivity.
  - assert (n = 0) by lia. subst. reflexivity.
  - destruct b; [discriminate|reflexivity].
Qed.

Lemma fields_wf fs : forall vs, forallb field_ok fs = true -> fields_ok fs vs = true ->
  forallb wf_kv (fields_jv fs vs) = true.
Proof.
  induction fs as [|f fs IH]; intros vs Hs H; [destruct vs; reflexivity|].
  destruct vs as [|v vs]; [discriminate|]. cbn [fields_ok] in H. apply andb_true_iff in H. destruct H as [H1 H2].
  cbn [forallb] in Hs. apply andb_true_iff in Hs. destruct Hs as [Hs1 Hs2].
  cbn [fields_jv]. destruct (fomit f && fval_zero v); [apply IH; assumption|].
  cbn [forallb wf_kv]. rewrite (fval_wf f v Hs1 H1), IH by assumption.
  unfold field_ok in Hs1. apply andb_true_iff in Hs1. destruct Hs1 as [Hk _].
  rewrite (plain_key_wf _ Hk). reflexivity.
Qed.

Lemma field_ok_plain fs : forallb field_ok fs = true -> forallb (fun f => plain_key (fkey f)) fs = true.
Proof.
  intros H. apply forallb_forall. intros f Hin. rewrite forallb_forall in H. specialize (H f Hin).
  unfold field_ok in H. apply andb_true_iff in H. tauto.
Qed.

Lemma vals_back fs : forall vs, forallb field_ok fs = true -> nodup_bytes (map fkey fs) = true ->
  fields_ok fs vs = true -> vals_of fs (entries fs vs) = Some (map san_fval vs).
Proof.
  induction fs as [|f fs IH]; intros vs Hs Hnd H; [destruct vs; [reflexivity|discriminate]|].
  destruct vs as [|v vs]; [discriminate|]. cbn [fields_ok] in H. apply andb_true_iff in H. destruct H as [H1 H2].
  cbn [forallb] in Hs. apply andb_true_iff in Hs. destruct Hs as [Hs1 Hs2].
  cbn [map nodup_bytes] in Hnd. apply andb_true_iff in Hnd. destruct Hnd as [Hn1 Hn2].
  specialize (IH vs Hs2 Hn2 H2).
  assert (Hk : plain_key (fkey f) = true) by (unfold field_ok in Hs1; apply andb_true_iff in Hs1; tauto).
  unfold entries in *. cbn [fields_jv].
  destruct (fomit f && fval_zero v) eqn:Eo.
  - apply andb_true_iff in Eo. destruct Eo as [Eo1 Eo2]. cbn [vals_of map].
    assert (Hnk : forall k j es', map san_key (map norm_kv (fields_jv fs vs)) = (k, j) :: es' ->
                  bytes_eqb k (fkey f) = false).
    { intros k j es' E. apply bytes_eqb_neq. intros ->.
      assert (In (fkey f) (map fkey fs)).
      { apply (entries_keys fs vs); [apply field_ok_plain, Hs2|]. unfold entries. rewrite E. left. reflexivity. }
      apply mem_bytes_In in H. rewrite H in Hn1. discriminate. }
    destruct (map san_key (map norm_kv (fields_jv fs vs))) as [|[k j] es'] eqn:E.
    + rewrite Eo1, IH. rewrite (zero_back f v Hs1 H1 Eo2). reflexivity.
    + rewrite (Hnk k j es' eq_refl), Eo1, IH. rewrite (zero_back f v Hs1 H1 Eo2). reflexivity.
  - cbn [map norm_kv san_key fst snd vals_of]. rewrite plain_key_sanitize by exact Hk.
    rewrite bytes_eqb_refl, (fval_back f v Hs1 H1), IH. reflexivity.
Qed.

Lemma record_wf sc vals : schema_ok sc = true -> wt_record sc vals = true ->
  wf_jv (record_jv sc vals) = true.
Proof.
  unfold schema_ok, wt_record, record_jv. intros Hs H. apply andb_true_iff in Hs. destruct Hs as [Hs _].
  cbn [wf_jv]. rewrite forallb_wf_kv. apply fields_wf; assumption.
Qed.

(* C14 round trip at record level *)
Lemma record_roundtrip sc vals : schema_ok sc = true -> wt_record sc vals = true ->
  dec_record sc (enc_record sc vals) = Some (map san_fval vals).
Proof.
  intros Hs H. unfold dec_record, enc_record.
  rewrite dec_json_enc by (apply record_wf; assumption).
  unfold record_jv. change (norm (JObj (fields_jv (sc_fields sc) vals))) with (JObj (entries (sc_fields sc) vals)).
  unfold schema_ok in Hs. apply andb_true_iff in Hs. destruct Hs as [Hs1 Hs2].
  apply vals_back; assumption.
Qed.

(* values whose strings are valid UTF-8 come back unchanged *)
Fixpoint jv_utf8 (v : jvalue) : bool :=
  match v with
  | JStr s => valid_utf8 s
  | JArr l => forallb jv_utf8 l
  | JObj l => forallb (fun kv => match kv with (k, x) => valid_utf8 k && jv_utf8 x end) l
  | JMap _ => false   (* a map comes back as its sorted member list, i.e. as a JObj *)
  | _ => true
  end.

Lemma norm_utf8 v : jv_utf8 v = true -> norm v = v.
Proof.
  induction v using jvalue_ind'; cbn [jv_utf8 norm]; intros Hv; try reflexivity.
  - rewrite sanitize_valid by exact Hv. reflexivity.
  - f_equal. induction H as [|x l Hx _ IH]; cbn [map]; [reflexivity|].
    cbn [forallb] in Hv. apply andb_true_iff in Hv. destruct Hv as [H1 H2]. rewrite Hx, IH by assumption. reflexivity.
  - f_equal. change (map san_key (map norm_kv l) = l).
    induction H as [|[k x] l Hx _ IH]; cbn [map]; [reflexivity|].
    cbn [forallb] in Hv. apply andb_true_iff in Hv. destruct Hv as [H1 H2]. apply andb_true_iff in H1. destruct H1 as [Hk Hxv].
    cbn [snd] in Hx. unfold san_key at 1. cbn [norm_kv fst snd]. rewrite sanitize_valid, Hx, IH by assumption. reflexivity.
  - discriminate.
Qed.

Definition sval_utf8 (x : sval) : bool := match x with VStr s => valid_utf8 s | _ => true end.
Definition fval_utf8 (v : fval) : bool :=
  match v with
  | VS x => sval_utf8 x
  | VPtr (Some xs) => forallb sval_utf8 xs
  | VPtr None => true
  | VTree t => jv_utf8 t
  end.

Lemma san_sval_utf8 x : sval_utf8 x = true -> san_sval x = x.
Proof. destruct x; cbn; intros H; [rewrite sanitize_valid by exact H|..]; reflexivity. Qed.

Lemma san_fval_utf8 v : fval_utf8 v = true -> san_fval v = v.
Proof.
  destruct v as [x|[xs|]|t]; cbn [fval_utf8 san_fval]; intros H.
  - rewrite san_sval_utf8 by exact H. reflexivity.
  - do 2 f_equal. induction xs as [|x xs IH]; [reflexivity|]. cbn [forallb] in H. apply andb_true_iff in H.
    destruct H as [H1 H2]. cbn [map]. rewrite san_sval_utf8, IH by assumption. reflexivity.
  - reflexivity.
  - rewrite norm_utf8 by exact H. reflexivity.
Qed.

Lemma record_roundtrip_utf8 sc vals : schema_ok sc = true -> wt_record sc vals = true ->
  forallb fval_utf8 vals = true ->
  dec_record sc (enc_record sc vals) = Some vals.
Proof.
  intros Hs H Hu. rewrite record_roundtrip by assumption. f_equal.
  induction vals as [|v vals IH]; [reflexivity|]. cbn [forallb] in Hu. apply andb_true_iff in Hu. destruct Hu as [H1 H2].
  cbn [map]. rewrite san_fval_utf8 by exact H1. f_equal.
  clear - H2. induction vals as [|w vals IH]; [reflexivity|]. cbn [forallb] in H2. apply andb_true_iff in H2.
  destruct H2 as [Ha Hb]. cbn [map]. rewrite san_fval_utf8, IH by assumption. reflexivity.
Qed.
(* ---------------- one line: no LF anywhere in an encoded value *)
Lemma join_comma_ok l : Forall (fun x => forallb out_ok x = true) l -> forallb out_ok (join_comma l) = true.
Proof.
  induction 1 as [|x l Hx _ IH]; [reflexivity|]. destruct l as [|y l]; [exact Hx|].
  rewrite join_comma_cons, forallb_app, Hx. cbn [forallb]. rewrite IH. reflexivity.
Qed.

Lemma num_char_ok t : forallb num_char t = true -> forallb out_ok t = true.
Proof.
  induction t as [|b t IH]; cbn [forallb]; [reflexivity|]. intros H. apply andb_true_iff in H. destruct H as [H1 H2].
  rewrite IH by exact H2. unfold num_char, is_digit, in_rng, out_ok, is_byte in *. lia.
Qed.

Lemma members_ok fl l :
  Forall (fun kv => wf_jv (snd kv) = true -> forallb out_ok (enc_jv fl (snd kv)) = true) l ->
  forallb wf_kv l = true ->
  forallb out_ok (enc_members fl (map (enc_kv fl) l)) = true.
Proof.
  intros HF Hwf. unfold enc_members. cbn [forallb]. rewrite forallb_app. cbn [forallb].
  rewrite join_comma_ok; [reflexivity|].
  induction HF as [|[k x] l Hx _ IH]; cbn [map]; constructor.
  - cbn [forallb wf_kv] in Hwf. apply andb_true_iff in Hwf. destruct Hwf as [H1 _]. apply andb_true_iff in H1.
    destruct H1 as [Hk Hxw]. cbn [snd] in Hx. unfold enc_member. cbn [enc_kv fst snd]. rewrite forallb_app. cbn [forallb].
    rewrite esc_string_ok by exact Hk. rewrite (Hx Hxw). reflexivity.
  - apply IH. cbn [forallb] in Hwf. apply andb_true_iff in Hwf. tauto.
Qed.

Lemma enc_jv_ok fl v : wf_jv v = true -> forallb out_ok (enc_jv fl v) = true.
Proof.
  induction v using jvalue_ind'; intros Hwf.
  - reflexivity.
  - destruct b; reflexivity.
  - cbn [wf_jv] in Hwf. apply andb_true_iff in Hwf. apply num_char_ok. tauto.
  - apply esc_string_ok. exact Hwf.
  - cbn [enc_jv wf_jv] in *. cbn [forallb]. rewrite forallb_app. cbn [forallb]. rewrite join_comma_ok; [reflexivity|].
    induction H as [|x l Hx _ IH]; cbn [map]; constructor; cbn [forallb] in Hwf; apply andb_true_iff in Hwf.
    + apply Hx. tauto.
    + apply IH. tauto.
  - cbn [wf_jv] in Hwf. rewrite forallb_wf_kv in Hwf.
    change (enc_jv fl (JObj l)) with (enc_members fl (map (enc_kv fl) l)). apply members_ok; assumption.
  - cbn [wf_jv] in Hwf. rewrite forallb_wf_kv in Hwf. rewrite enc_jv_map.
    change (enc_jv fl (JObj (sort_keys l))) with (enc_members fl (map (enc_kv fl) (sort_keys l))). apply members_ok.
    + apply sort_keys_Forall. exact H.
    + apply forallb_forall. intros kv Hin. rewrite forallb_forall in Hwf. apply Hwf.
      eapply Permutation_in; [apply sort_keys_perm|exact Hin].
Qed.

Lemma out_ok_no_lf l : forallb out_ok l = true -> ~ In 10 l /\ wf_bytes l = true.
Proof.
  intros H. split.
  - intros Hin. rewrite forallb_forall in H. specialize (H 10 Hin). discriminate.
  - unfold wf_bytes. apply forallb_forall. intros x Hx. rewrite forallb_forall in H. specialize (H x Hx).
    unfold out_ok in H. apply andb_true_iff in H. tauto.
Qed.

Lemma record_one_line sc vals : schema_ok sc = true -> wt_record sc vals = true ->
  ~ In 10 (enc_record sc vals) /\ wf_bytes (enc_record sc vals) = true /\
  exists es, dec_json (enc_record sc vals) = Some (JObj es).
Proof.
  intros Hs H. pose proof (record_wf sc vals Hs H) as W.
  destruct (out_ok_no_lf _ (enc_jv_ok (sc_flavour sc) _ W)) as [A B].
  split; [exact A|]. split; [exact B|].
  unfold enc_record. rewrite dec_json_enc by exact W. unfold record_jv. eexists. reflexivity.
Qed.

(* ---------------- the logger loop *)
Section LoopFacts.
Context {R : Type}.

Lemma log_results_order (wr : R -> option (list Z)) evs :
  log_results wr evs = flat_map (fun r => match wr r with Some l => [l] | None => [] end) (log_taken evs).
Proof.
  induction evs as [|e evs IH]; [reflexivity|]. destruct e as [r| | |]; cbn [log_results log_taken flat_map]; try reflexivity.
  - destruct (wr r); cbn [app]; rewrite IH; reflexivity.
  - exact IH.
Qed.

(* when marshalling never fails: one Write per result, in order *)
Lemma log_results_total (ln : R -> list Z) evs :
  log_results (fun r => Some (ln r)) evs = map ln (log_taken evs).
Proof.
  rewrite log_results_order. induction (log_taken evs) as [|r l IH]; [reflexivity|]. cbn. rewrite IH. reflexivity.
Qed.

(* a history that ends by the channel being closed after all of rs *)
Lemma log_taken_all rs : log_taken (map (@LResult R) rs ++ [@LClosed R]) = rs.
Proof. induction rs as [|r rs IH]; [reflexivity|]. cbn. rewrite IH. reflexivity. Qed.

(* ---------------- de-duplication *)
Variable id : R -> list Z.

Definition id_in (r : R) (l : list R) : bool := existsb (fun x => bytes_eqb (id x) (id r)) l.

Lemma id_in_mem r before seen :
  (forall k, mem_bytes k seen = true <-> In k (map id before)) ->
  id_in r before = mem_bytes (id r) seen.
Proof.
  intros H. unfold id_in. destruct (mem_bytes (id r) seen) eqn:E.
  - apply H in E. apply in_map_iff in E. destruct E as [x [E Hin]]. apply existsb_exists. exists x.
    split; [exact Hin|]. apply bytes_eqb_eq. exact E.
  - destruct (existsb _ before) eqn:E2; [|reflexivity]. apply existsb_exists in E2. destruct E2 as [x [Hin E2]].
    apply bytes_eqb_eq in E2. assert (mem_bytes (id r) seen = true).
    { apply H. apply in_map_iff. exists x. split; assumption. } congruence.
Qed.

(* the set of IDs the goroutine remembers is exactly the set of IDs received so far *)
Lemma uniq_run_spec evs : forall seen before,
  (forall k, mem_bytes k seen = true <-> In k (map id before)) ->
  uniq_run id seen evs = firsts id before (uniq_taken id seen evs).
Proof.
  induction evs as [|e evs IH]; intros seen before Hs; [reflexivity|].
  destruct e as [r sent| |]; cbn [uniq_run uniq_taken]; try reflexivity.
  destruct (mem_bytes (id r) seen) eqn:E.
  - cbn [firsts]. fold (id_in r before). rewrite (id_in_mem r before seen Hs), E.
    apply IH. intros k. rewrite Hs. cbn [map In]. split; [auto|]. intros [<-|H]; [|exact H]. apply Hs. exact E.
  - destruct sent; [|reflexivity].
    cbn [firsts]. fold (id_in r before). rewrite (id_in_mem r before seen Hs), E. f_equal.
    apply IH. intros k. cbn [mem_bytes map In]. rewrite orb_true_iff, bytes_eqb_eq, Hs. split; intros [H|H]; auto.
Qed.

Lemma firsts_nodup l : forall before,
  NoDup (map id (firsts id before l)) /\
  (forall r, In r (firsts id before l) -> In r l /\ id_in r before = false) /\
  (forall r, In r l -> id_in r before = true \/ In (id r) (map id (firsts id before l))).
Proof.
  induction l as [|r l IH]; intros before; cbn [firsts].
  - split; [constructor|]. split; intros r [].
  - fold (id_in r before). destruct (IH (r :: before)) as [N [S C]].
    assert (Hext : forall x, id_in x (r :: before) = bytes_eqb (id r) (id x) || id_in x before) by reflexivity.
    destruct (id_in r before) eqn:E.
    + split; [|split].
      * exact N.
      * intros x Hin. destruct (S x Hin) as [S1 S2]. rewrite Hext in S2. apply orb_false_iff in S2. split; [right; exact S1|tauto].
      * intros x [<-|Hin]; [left; exact E|]. destruct (C x Hin) as [H|H]; [|right; exact H].
        rewrite Hext in H. apply orb_true_iff in H. destruct H as [H|H]; [|left; exact H].
        apply bytes_eqb_eq in H. left. unfold id_in in *. rewrite <- H. exact E.
    + split; [|split].
      * cbn [map]. constructor; [|exact N]. intros Hin. apply in_map_iff in Hin. destruct Hin as [x [Ex Hin]].
        destruct (S x Hin) as [_ S2]. rewrite Hext in S2. apply orb_false_iff in S2. destruct S2 as [S2 _].
        apply bytes_eqb_neq in S2. congruence.
      * intros x [<-|Hin]; [split; [left; reflexivity|exact E]|]. destruct (S x Hin) as [S1 S2].
        rewrite Hext in S2. apply orb_false_iff in S2. split; [right; exact S1|tauto].
      * intros x [<-|Hin]; [right; left; reflexivity|]. destruct (C x Hin) as [H|H]; [|right; right; exact H].
        rewrite Hext in H. apply orb_true_iff in H. destruct H as [H|H]; [|left; exact H].
        apply bytes_eqb_eq in H. right. left. exact H.
Qed.
End LoopFacts.
