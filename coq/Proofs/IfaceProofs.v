(* Lemmas about the interface / source selection model (property C17).
   Part 1: vocabulary in which the theorems are stated.  Part 2: the selection functions computed
   under declarative hypotheses.  Part 3: facts that hold for every configuration. *)
From Coq Require Import ZArith List Bool String Lia.
From SX Require Import Model.Iface.
Import ListNotations.
Open Scope Z_scope.

(* ================================================================== 1. vocabulary *)

(* address [a] of an interface covers target [t]: the target's base address (its IP masked with its
   own mask) lies in the network of [a] -- Go's IPNet.Contains on IP.Mask, as the code computes it *)
Definition covers (t : target) (a : addr) : bool :=
  a_ipnet a && contains a (ip_mask (t_ip t) (t_mask t)).

(* no address of [i] covers [t] *)
Definition unattached (t : target) (i : iface) : Prop :=
  forall a, In a (if_addrs i) -> covers t a = false.

(* [a] is the first address of [i], in Addrs() order, that covers [t] *)
Definition first_cover (t : target) (i : iface) (a : addr) : Prop :=
  exists l1 l2, if_addrs i = l1 ++ a :: l2 /\ (forall b, In b l1 -> covers t b = false) /\ covers t a = true.

(* the first address of an interface, whatever its family (GetInterfaceIP) *)
Definition first_ip (i : iface) : option ip :=
  match if_addrs i with [] => None | a :: _ => Some (a_ip a) end.

(* every net.Addr of the interface is a *net.IPNet (always so on Linux) *)
Definition ipnet_addrs (i : iface) : Prop := forall a, In a (if_addrs i) -> a_ipnet a = true.

(* the source address before the IPv4 test: --srcip if given, else the interface's address *)
Definition source_of (ov : overrides) (ifip : option ip) : option ip :=
  match ov_srcip ov with Some s => Some s | None => ifip end.

Definition mac_of (ov : overrides) (i : iface) : option ip :=
  match ov_srcmac ov with Some m => Some m | None => if_mac i end.

Definition is_none {A} (x : option A) : bool := match x with None => true | Some _ => false end.

(* what getScanRange + parseOptions make of a chosen interface [i] with interface address [ifip] *)
Definition finish (strict : bool) (ov : overrides) (i : iface) (ifip : option ip) : result outcome :=
  match source_of ov ifip with
  | None => Err ErrSrcIP
  | Some s =>
      match to4 s with
      | Some s4 => Ok {| o_iface := i; o_srcip := Some s4; o_srcmac := mac_of ov i; o_vpn := is_none (mac_of ov i) |}
      | None => if strict then Err ErrSrcIP
                else Ok {| o_iface := i; o_srcip := None; o_srcmac := mac_of ov i; o_vpn := is_none (mac_of ov i) |}
      end
  end.

(* a default route as the code understands it: no destination, no preferred source *)
Definition is_default (r : route) : bool := rt_dst_nil r && rt_src_nil r.

(* [r] is the default route of lowest metric among those with metric below [p], the first one in
   netlink order among equals *)
Definition best_below (p : Z) (rs : list route) (r : route) : Prop :=
  exists pre post, rs = pre ++ r :: post /\ is_default r = true /\ rt_prio r < p /\
    (forall r', In r' pre -> is_default r' = true -> rt_prio r < rt_prio r') /\
    (forall r', In r' post -> is_default r' = true -> rt_prio r <= rt_prio r').

Definition none_below (p : Z) (rs : list route) : Prop :=
  forall r, In r rs -> is_default r = true -> p <= rt_prio r.

(* "usable" = metric below math.MaxInt32, the value the running minimum starts from *)
Definition best_default (rs : list route) (r : route) : Prop := best_below max_int32 rs r.
Definition no_default (rs : list route) : Prop := none_below max_int32 rs.

(* every default route names an existing interface whose addresses can be read *)
Definition routes_resolvable (cfg : config) : Prop :=
  forall r, In r (routes cfg) -> is_default r = true ->
    exists i, interface_by_index cfg (rt_link r) = Ok i /\ if_addrs_err i = false /\ ipnet_addrs i.

(* ================================================================== 2. computing the selection *)

Lemma choose_unfold strict cfg t ov :
  choose_gen strict cfg t ov =
  match resolve_iface cfg ov with
  | Err e => Err e
  | Ok oi =>
      match get_interface cfg oi t with
      | Err e => Err e
      | Ok (None, _) => Err ErrSrcInterface
      | Ok (Some i, ifip) => finish strict ov i ifip
      end
  end.
Proof.
  unfold choose_gen, get_scan_range_gen, finish, source_of, mac_of, is_none.
  destruct (resolve_iface cfg ov) as [oi|e]; [|reflexivity].
  destruct (get_interface cfg oi t) as [[[i|] ifip]|e]; try reflexivity.
  destruct (ov_srcip ov) as [s|]; [|destruct ifip as [s|]; [|reflexivity]];
    (destruct (to4 s); [reflexivity|destruct strict; reflexivity]).
Qed.

Lemma find_first_cover t i a : first_cover t i a -> find (covers t) (if_addrs i) = Some a.
Proof.
  intros (l1 & l2 & -> & Hpre & Ha). induction l1 as [|b l1 IH]; cbn.
  - rewrite Ha. reflexivity.
  - rewrite (Hpre b (or_introl eq_refl)). apply IH. intros c Hc. apply Hpre. right. exact Hc.
Qed.

Lemma find_unattached t i : unattached t i -> find (covers t) (if_addrs i) = None.
Proof.
  unfold unattached. induction (if_addrs i) as [|b l IH]; intros H; cbn; [reflexivity|].
  rewrite (H b (or_introl eq_refl)). apply IH. intros c Hc. apply H. right. exact Hc.
Qed.

Lemma local_subnet_ip_eq i t :
  local_subnet_ip i t =
  if if_addrs_err i then Err ErrAddrs
  else Ok (match find (covers t) (if_addrs i) with Some a => Some (a_ip a) | None => None end).
Proof. reflexivity. Qed.

Lemma local_subnet_ip_first t i a :
  if_addrs_err i = false -> first_cover t i a -> local_subnet_ip i t = Ok (Some (a_ip a)).
Proof. intros He Hf. rewrite local_subnet_ip_eq, He, (find_first_cover _ _ _ Hf). reflexivity. Qed.

Lemma local_subnet_ip_unattached t i :
  if_addrs_err i = false -> unattached t i -> local_subnet_ip i t = Ok None.
Proof. intros He Hu. rewrite local_subnet_ip_eq, He, (find_unattached _ _ Hu). reflexivity. Qed.

Lemma local_subnet_walk_first t pre i post a :
  (forall j, In j pre -> if_addrs_err j = false /\ unattached t j) ->
  if_addrs_err i = false -> first_cover t i a ->
  local_subnet_walk (pre ++ i :: post) t = Ok (Some (i, a_ip a)).
Proof.
  intros Hpre He Hf. induction pre as [|j pre IH]; cbn.
  - rewrite (local_subnet_ip_first _ _ _ He Hf). reflexivity.
  - destruct (Hpre j (or_introl eq_refl)) as [Hje Hju].
    rewrite (local_subnet_ip_unattached _ _ Hje Hju). apply IH. intros k Hk. apply Hpre. right. exact Hk.
Qed.

Lemma local_subnet_walk_none t l :
  (forall j, In j l -> if_addrs_err j = false /\ unattached t j) -> local_subnet_walk l t = Ok None.
Proof.
  induction l as [|j l IH]; intros H; cbn; [reflexivity|].
  destruct (H j (or_introl eq_refl)) as [Hje Hju].
  rewrite (local_subnet_ip_unattached _ _ Hje Hju). apply IH. intros k Hk. apply H. right. exact Hk.
Qed.

Lemma get_interface_ip_eq i :
  if_addrs_err i = false -> ipnet_addrs i -> get_interface_ip i = Ok (first_ip i).
Proof.
  intros He Hn. unfold get_interface_ip, first_ip. rewrite He. unfold ipnet_addrs in Hn.
  destruct (if_addrs i) as [|a l]; [reflexivity|]. rewrite (Hn a (or_introl eq_refl)). reflexivity.
Qed.

(* what the loop does with the route it finally settles on *)
Definition take_route (cfg : config) (r : route) : result (option iface * option ip) :=
  match interface_by_index cfg (rt_link r) with
  | Err e => Err e
  | Ok i => match get_interface_ip i with Err e => Err e | Ok a => Ok (Some i, a) end
  end.

(* a default route whose interface and addresses can be looked up *)
Definition route_ok (cfg : config) (r : route) : Prop := exists p, take_route cfg r = Ok p.

(* once the running minimum is at most every default metric still to come, nothing changes *)
Lemma default_walk_rest cfg : forall post prio cur,
  (forall r', In r' post -> is_default r' = true -> prio <= rt_prio r') ->
  default_walk cfg post prio cur = Ok cur.
Proof.
  induction post as [|q post IH]; intros prio cur H; [reflexivity|].
  cbn [default_walk]. unfold is_default_candidate. fold (is_default q).
  destruct (is_default q) eqn:Hq; cbn [andb].
  - assert (Hge : (rt_prio q <? prio) = false) by (apply Z.ltb_ge; apply H; [left; reflexivity|exact Hq]).
    rewrite Hge. apply IH. intros r Hr. apply H. right. exact Hr.
  - apply IH. intros r Hr. apply H. right. exact Hr.
Qed.

(* the loop of GetDefaultInterface ends on the best default route [r]; the default routes BEFORE it
   that become a running minimum on the way must be resolvable (a failure there ends the loop), the
   routes after it are never looked up; the outcome is whatever looking [r] up gives *)
Lemma default_walk_best cfg : forall pre r post prio cur,
  (forall r', In r' pre -> is_default r' = true -> rt_prio r' < prio -> route_ok cfg r') ->
  is_default r = true -> rt_prio r < prio ->
  (forall r', In r' pre -> is_default r' = true -> rt_prio r < rt_prio r') ->
  (forall r', In r' post -> is_default r' = true -> rt_prio r <= rt_prio r') ->
  default_walk cfg (pre ++ r :: post) prio cur =
  match take_route cfg r with Err e => Err e | Ok p => Ok p end.
Proof.
  induction pre as [|q pre IH]; intros r post prio cur Hres Hd Hp Hpre Hpost.
  - cbn [app default_walk]. unfold is_default_candidate. fold (is_default r). rewrite Hd.
    assert (Hlt : (rt_prio r <? prio) = true) by (apply Z.ltb_lt; exact Hp). rewrite Hlt. cbn [andb].
    unfold take_route. destruct (interface_by_index cfg (rt_link r)) as [i|e]; [|reflexivity].
    destruct (get_interface_ip i) as [a|e]; [|reflexivity].
    apply default_walk_rest. exact Hpost.
  - cbn [app default_walk]. unfold is_default_candidate. fold (is_default q).
    assert (Hpre' : forall r', In r' pre -> is_default r' = true -> rt_prio r < rt_prio r')
      by (intros r' Hr'; apply Hpre; right; exact Hr').
    destruct (is_default q) eqn:Hq; cbn [andb].
    + destruct (rt_prio q <? prio) eqn:Hlt.
      * apply Z.ltb_lt in Hlt. destruct (Hres q (or_introl eq_refl) Hq Hlt) as [p Hq'].
        unfold take_route in Hq'. destruct (interface_by_index cfg (rt_link q)) as [j|e]; [|discriminate].
        destruct (get_interface_ip j) as [x|e]; [|discriminate].
        apply IH; try assumption.
        -- intros r' Hr' Hd' Hlt'. apply Hres; [right; exact Hr'|exact Hd'|lia].
        -- apply Hpre; [left; reflexivity|exact Hq].
      * apply IH; try assumption. intros r' Hr' Hd' Hlt'. apply Hres; [right; exact Hr'|exact Hd'|exact Hlt'].
    + apply IH; try assumption. intros r' Hr' Hd' Hlt'. apply Hres; [right; exact Hr'|exact Hd'|exact Hlt'].
Qed.

Lemma default_walk_none cfg : forall rs prio cur,
  (forall r, In r rs -> is_default r = true -> prio <= rt_prio r) ->
  default_walk cfg rs prio cur = Ok cur.
Proof. exact (default_walk_rest cfg). Qed.

(* ------------------------------------------------------------------ attached *)

(* without --iface: the first attached interface in enumeration order, with its covering address *)
Lemma choose_attached_auto strict cfg t ov pre i post a :
  ov_iface ov = ""%string -> ifaces_err cfg = false ->
  ifaces cfg = pre ++ i :: post ->
  (forall j, In j pre -> if_addrs_err j = false /\ unattached t j) ->
  if_addrs_err i = false -> first_cover t i a ->
  choose_gen strict cfg (Some t) ov = finish strict ov i (Some (a_ip a)).
Proof.
  intros Hov He Hsplit Hpre Hie Hf. rewrite choose_unfold. unfold resolve_iface. rewrite Hov. cbn [String.eqb].
  unfold get_interface, cmd_local_subnet_interface, get_local_subnet_interface. rewrite He, Hsplit.
  rewrite (local_subnet_walk_first _ _ _ _ _ Hpre Hie Hf). reflexivity.
Qed.

(* with --iface: only that interface is examined; when attached, its covering address is used *)
Lemma choose_attached_iface strict cfg t ov i a :
  ov_iface ov <> ""%string -> interface_by_name cfg (ov_iface ov) = Ok i ->
  if_addrs_err i = false -> first_cover t i a ->
  choose_gen strict cfg (Some t) ov = finish strict ov i (Some (a_ip a)).
Proof.
  intros Hov Hn Hie Hf. rewrite choose_unfold. unfold resolve_iface.
  destruct (String.eqb_spec (ov_iface ov) ""%string) as [E|_]; [contradiction|]. rewrite Hn.
  unfold get_interface, cmd_local_subnet_interface. rewrite (local_subnet_ip_first _ _ _ Hie Hf). reflexivity.
Qed.

(* ------------------------------------------------------------------ fallbacks *)

Definition not_attached_opt (t : option target) (i : iface) : Prop :=
  match t with None => True | Some t => unattached t i end.

(* --iface given and not attached (or no target): that interface with its FIRST address *)
Lemma choose_fallback_iface strict cfg t ov i :
  ov_iface ov <> ""%string -> interface_by_name cfg (ov_iface ov) = Ok i ->
  if_addrs_err i = false -> ipnet_addrs i -> not_attached_opt t i ->
  choose_gen strict cfg t ov = finish strict ov i (first_ip i).
Proof.
  intros Hov Hn Hie Hnet Hu. rewrite choose_unfold. unfold resolve_iface.
  destruct (String.eqb_spec (ov_iface ov) ""%string) as [E|_]; [contradiction|]. rewrite Hn.
  unfold get_interface, cmd_local_subnet_interface, fallback_interface.
  rewrite (get_interface_ip_eq _ Hie Hnet).
  destruct t as [t|]; [|reflexivity]. cbn in Hu. rewrite (local_subnet_ip_unattached _ _ Hie Hu). reflexivity.
Qed.

Definition none_attached (cfg : config) (t : option target) : Prop :=
  match t with
  | None => True
  | Some t => ifaces_err cfg = false /\ forall j, In j (ifaces cfg) -> if_addrs_err j = false /\ unattached t j
  end.

Lemma get_interface_auto_unattached cfg t :
  none_attached cfg t -> get_interface cfg None t = get_default_interface cfg.
Proof.
  destruct t as [t|]; [|reflexivity]. intros [He H]. unfold get_interface, cmd_local_subnet_interface,
    get_local_subnet_interface. rewrite He, (local_subnet_walk_none _ _ H). reflexivity.
Qed.

Lemma resolvable_route_ok cfg r :
  (exists i, interface_by_index cfg (rt_link r) = Ok i /\ if_addrs_err i = false /\ ipnet_addrs i) -> route_ok cfg r.
Proof.
  intros (i & Hi & He & Hn). unfold route_ok, take_route. rewrite Hi, (get_interface_ip_eq _ He Hn). eexists. reflexivity.
Qed.

(* no --iface, nothing attached, [r] the best default route: the outcome is decided by [r] alone *)
Lemma choose_fallback_default_gen strict cfg t ov pre r post :
  ov_iface ov = ""%string -> none_attached cfg t -> routes_err cfg = false ->
  routes cfg = pre ++ r :: post ->
  (forall r', In r' pre -> is_default r' = true -> rt_prio r' < max_int32 -> route_ok cfg r') ->
  is_default r = true -> rt_prio r < max_int32 ->
  (forall r', In r' pre -> is_default r' = true -> rt_prio r < rt_prio r') ->
  (forall r', In r' post -> is_default r' = true -> rt_prio r <= rt_prio r') ->
  choose_gen strict cfg t ov =
  match interface_by_index cfg (rt_link r) with
  | Err e => Err e
  | Ok i => match get_interface_ip i with Err e => Err e | Ok a => finish strict ov i a end
  end.
Proof.
  intros Hov Hna Hre Hsplit Hres Hd Hp Hpre Hpost.
  rewrite choose_unfold. unfold resolve_iface. rewrite Hov. cbn [String.eqb].
  rewrite (get_interface_auto_unattached _ _ Hna). unfold get_default_interface. rewrite Hre, Hsplit.
  rewrite (default_walk_best cfg pre r post max_int32 (None, None) Hres Hd Hp Hpre Hpost).
  unfold take_route. destruct (interface_by_index cfg (rt_link r)) as [i|e]; [|reflexivity].
  destruct (get_interface_ip i) as [a|e]; reflexivity.
Qed.

(* no --iface, nothing attached: the interface of the best default route, with its first address *)
Lemma choose_fallback_default strict cfg t ov r i :
  ov_iface ov = ""%string -> none_attached cfg t -> routes_err cfg = false ->
  routes_resolvable cfg -> best_default (routes cfg) r -> interface_by_index cfg (rt_link r) = Ok i ->
  choose_gen strict cfg t ov = finish strict ov i (first_ip i).
Proof.
  intros Hov Hna Hre Hres (pre & post & Hsplit & Hd & Hp & Hpre & Hpost) Hi.
  rewrite (choose_fallback_default_gen strict cfg t ov pre r post Hov Hna Hre Hsplit); try assumption.
  - rewrite Hi. destruct (Hres r) as (j & Hj & Hje & Hjn); [rewrite Hsplit; apply in_or_app; right; left; reflexivity|exact Hd|].
    rewrite Hi in Hj. injection Hj as <-. rewrite (get_interface_ip_eq _ Hje Hjn). reflexivity.
  - intros r' Hr' Hd' _. apply resolvable_route_ok. apply Hres; [rewrite Hsplit; apply in_or_app; left; exact Hr'|exact Hd'].
Qed.

(* the kernel lists the default routes of the main table by ascending metric: then only the FIRST
   usable default route is ever looked up, and it alone decides, whatever comes after it *)
Lemma choose_fallback_first_default strict cfg t ov pre r post :
  ov_iface ov = ""%string -> none_attached cfg t -> routes_err cfg = false ->
  routes cfg = pre ++ r :: post ->
  (forall r', In r' pre -> is_default r' = false) ->
  is_default r = true -> rt_prio r < max_int32 ->
  (forall r', In r' post -> is_default r' = true -> rt_prio r <= rt_prio r') ->
  choose_gen strict cfg t ov =
  match interface_by_index cfg (rt_link r) with
  | Err e => Err e
  | Ok i => match get_interface_ip i with Err e => Err e | Ok a => finish strict ov i a end
  end.
Proof.
  intros Hov Hna Hre Hsplit Hpre Hd Hp Hpost.
  apply (choose_fallback_default_gen strict cfg t ov pre r post); try assumption.
  - intros r' Hr' Hd'. rewrite (Hpre r' Hr') in Hd'. discriminate.
  - intros r' Hr' Hd'. rewrite (Hpre r' Hr') in Hd'. discriminate.
Qed.

(* no --iface, nothing attached, no usable default route: errSrcInterface *)
Lemma choose_no_interface strict cfg t ov :
  ov_iface ov = ""%string -> none_attached cfg t -> routes_err cfg = false -> no_default (routes cfg) ->
  choose_gen strict cfg t ov = Err ErrSrcInterface.
Proof.
  intros Hov Hna Hre Hnd. rewrite choose_unfold. unfold resolve_iface. rewrite Hov. cbn [String.eqb].
  rewrite (get_interface_auto_unattached _ _ Hna). unfold get_default_interface. rewrite Hre.
  rewrite (default_walk_none cfg (routes cfg) max_int32 (None, None) Hnd). reflexivity.
Qed.

(* ================================================================== 3. facts for every configuration *)

Lemma to4_length x y : to4 x = Some y -> List.length y = 4%nat.
Proof.
  unfold to4, len. destruct (Z.of_nat (List.length x) =? 4) eqn:E4.
  - intros H. injection H as <-. apply Z.eqb_eq in E4. lia.
  - destruct (Z.of_nat (List.length x) =? 16) eqn:E16; cbn [andb]; [|discriminate].
    destruct (bytes_eqb (firstn 12 x) v4in6_prefix); [|discriminate].
    assert (Hl : List.length (skipn 12 x) = 4%nat) by (rewrite skipn_length; apply Z.eqb_eq in E16; lia).
    intros H. injection H as <-. exact Hl.
Qed.

(* [ipo] is nil or an address of [i] *)
Definition ip_of_iface (i : iface) (ipo : option ip) : Prop :=
  match ipo with None => True | Some x => exists a, In a (if_addrs i) /\ x = a_ip a end.

Definition good_pair (cfg : config) (p : option iface * option ip) : Prop :=
  match p with
  | (Some i, ipo) => In i (ifaces cfg) /\ ip_of_iface i ipo
  | (None, _) => True
  end.

Lemma local_subnet_ip_inv i t x :
  local_subnet_ip i t = Ok (Some x) -> exists a, In a (if_addrs i) /\ x = a_ip a /\ covers t a = true.
Proof.
  rewrite local_subnet_ip_eq. destruct (if_addrs_err i); [discriminate|].
  destruct (find (covers t) (if_addrs i)) as [a|] eqn:Hf; [|discriminate].
  intros H. injection H as <-. apply find_some in Hf. exists a. tauto.
Qed.

Lemma local_subnet_ip_good i t ipo : local_subnet_ip i t = Ok ipo -> ip_of_iface i ipo.
Proof.
  destruct ipo as [x|]; [|exact (fun _ => I)]. intros H. apply local_subnet_ip_inv in H.
  destruct H as (a & Ha & -> & _). exists a. tauto.
Qed.

Lemma local_subnet_walk_inv t : forall l i x,
  local_subnet_walk l t = Ok (Some (i, x)) -> In i l /\ ip_of_iface i (Some x).
Proof.
  induction l as [|j l IH]; intros i x H; cbn in H; [discriminate|].
  destruct (local_subnet_ip j t) as [[y|]|e] eqn:Hj; [| |discriminate].
  - injection H as <- <-. split; [left; reflexivity|]. exact (local_subnet_ip_good _ _ _ Hj).
  - destruct (IH _ _ H) as [Hin Hip]. split; [right; exact Hin|exact Hip].
Qed.

Lemma get_interface_ip_good i ipo : get_interface_ip i = Ok ipo -> ip_of_iface i ipo.
Proof.
  unfold get_interface_ip. destruct (if_addrs_err i); [discriminate|].
  destruct (if_addrs i) as [|a l] eqn:Ha; [intros H; injection H as <-; exact I|].
  destruct (a_ipnet a); [|discriminate]. intros H. injection H as <-. cbn. rewrite Ha. exists a.
  split; [left; reflexivity|reflexivity].
Qed.

Lemma interface_by_index_inv cfg k i : interface_by_index cfg k = Ok i -> In i (ifaces cfg) /\ if_index i = k.
Proof.
  unfold interface_by_index. destruct (k <=? 0); [discriminate|]. destruct (ifaces_err cfg); [discriminate|].
  destruct (find (fun i0 => if_index i0 =? k) (ifaces cfg)) as [j|] eqn:Hf; [|discriminate].
  intros H. injection H as <-. apply find_some in Hf. destruct Hf as [Hin He]. apply Z.eqb_eq in He. tauto.
Qed.

Lemma interface_by_name_inv cfg n i : interface_by_name cfg n = Ok i -> In i (ifaces cfg) /\ if_name i = n.
Proof.
  unfold interface_by_name. destruct (ifaces_err cfg); [discriminate|].
  destruct (find (fun i0 => String.eqb n (if_name i0)) (ifaces cfg)) as [j|] eqn:Hf; [|discriminate].
  intros H. injection H as <-. apply find_some in Hf. destruct Hf as [Hin He]. apply String.eqb_eq in He. auto.
Qed.

Lemma default_walk_good cfg : forall rs prio cur p,
  good_pair cfg cur -> default_walk cfg rs prio cur = Ok p -> good_pair cfg p.
Proof.
  induction rs as [|q rs IH]; intros prio cur p Hc H; cbn in H.
  - injection H as <-. exact Hc.
  - destruct (is_default_candidate q prio).
    + destruct (interface_by_index cfg (rt_link q)) as [i|e] eqn:Hi; [|discriminate].
      destruct (get_interface_ip i) as [ipo|e] eqn:Hip; [|discriminate].
      eapply IH; [|exact H].
      cbn. split; [exact (proj1 (interface_by_index_inv _ _ _ Hi))|exact (get_interface_ip_good _ _ Hip)].
    + eapply IH; [exact Hc|exact H].
Qed.

Lemma get_default_interface_good cfg p : get_default_interface cfg = Ok p -> good_pair cfg p.
Proof.
  unfold get_default_interface. destruct (routes_err cfg); [discriminate|].
  apply default_walk_good. exact I.
Qed.

(* getInterface: what comes back is the --iface interface if there is one, else an interface of
   the configuration; the address is nil or one of that interface's own *)
Lemma get_interface_inv cfg oi t i ipo :
  get_interface cfg oi t = Ok (Some i, ipo) ->
  match oi with Some j => i = j | None => In i (ifaces cfg) end /\ ip_of_iface i ipo.
Proof.
  assert (Hfb : forall i ipo, fallback_interface cfg oi = Ok (Some i, ipo) ->
            match oi with Some j => i = j | None => In i (ifaces cfg) end /\ ip_of_iface i ipo).
  { intros i0 ipo0. unfold fallback_interface. destruct oi as [j|].
    - destruct (get_interface_ip j) as [x|e] eqn:Hj; [|discriminate]. intros H. injection H as <- <-.
      split; [reflexivity|exact (get_interface_ip_good _ _ Hj)].
    - intros H. apply get_default_interface_good in H. exact H. }
  unfold get_interface. destruct t as [t|]; [|apply Hfb].
  destruct (cmd_local_subnet_interface cfg oi t) as [[[j|] [x|]]|e] eqn:Hc; try discriminate; try apply Hfb.
  intros H. injection H as <- <-. unfold cmd_local_subnet_interface in Hc. destruct oi as [k|].
  - destruct (local_subnet_ip k t) as [y|e] eqn:Hk; [|discriminate]. injection Hc as <- <-.
    split; [reflexivity|exact (local_subnet_ip_good _ _ _ Hk)].
  - unfold get_local_subnet_interface in Hc. destruct (ifaces_err cfg); [discriminate|].
    destruct (local_subnet_walk (ifaces cfg) t) as [[[k y]|]|e] eqn:Hw; try discriminate.
    injection Hc as <- <-. exact (local_subnet_walk_inv _ _ _ _ Hw).
Qed.

Lemma resolve_iface_inv cfg ov oi :
  resolve_iface cfg ov = Ok oi ->
  match oi with
  | None => ov_iface ov = ""%string
  | Some i => ov_iface ov <> ""%string /\ interface_by_name cfg (ov_iface ov) = Ok i
  end.
Proof.
  unfold resolve_iface. destruct (String.eqb_spec (ov_iface ov) ""%string) as [E|E].
  - intros H. injection H as <-. exact E.
  - destruct (interface_by_name cfg (ov_iface ov)) as [i|e]; [|discriminate].
    intros H. injection H as <-. split; [exact E|reflexivity].
Qed.

Lemma finish_inv strict ov i ipo o :
  finish strict ov i ipo = Ok o ->
  o_iface o = i /\ o_srcmac o = mac_of ov i /\ o_vpn o = is_none (o_srcmac o) /\
  exists s, source_of ov ipo = Some s /\ o_srcip o = to4 s /\ (strict = true -> to4 s <> None).
Proof.
  unfold finish. destruct (source_of ov ipo) as [s|]; [|discriminate].
  destruct (to4 s) as [s4|] eqn:H4.
  - intros H. injection H as <-. cbn. repeat split; try reflexivity. exists s. rewrite H4.
    repeat split; try reflexivity. discriminate.
  - destruct strict; [discriminate|]. intros H. injection H as <-. cbn. repeat split; try reflexivity.
    exists s. rewrite H4. repeat split; try reflexivity. discriminate.
Qed.

(* the master inversion: every accepted run, for every configuration incl. all oracle flags *)
Lemma choose_inv strict cfg t ov o :
  choose_gen strict cfg t ov = Ok o ->
  In (o_iface o) (ifaces cfg) /\
  (ov_iface ov <> ""%string -> interface_by_name cfg (ov_iface ov) = Ok (o_iface o)) /\
  o_srcmac o = mac_of ov (o_iface o) /\
  o_vpn o = is_none (o_srcmac o) /\
  exists ipo s, ip_of_iface (o_iface o) ipo /\ source_of ov ipo = Some s /\ o_srcip o = to4 s /\
                (strict = true -> to4 s <> None).
Proof.
  rewrite choose_unfold. destruct (resolve_iface cfg ov) as [oi|e] eqn:Hr; [|discriminate].
  destruct (get_interface cfg oi t) as [[[i|] ipo]|e] eqn:Hg; try discriminate.
  intros Hf. apply resolve_iface_inv in Hr. apply get_interface_inv in Hg. destruct Hg as [Hi Hip].
  apply finish_inv in Hf. destruct Hf as (-> & Hm & Hv & s & Hs & H4 & Hst).
  split; [|split; [|split; [exact Hm|split; [exact Hv|]]]].
  - destruct oi as [j|]; [|exact Hi]. subst j. destruct Hr as [_ Hn]. exact (proj1 (interface_by_name_inv _ _ _ Hn)).
  - intros Hne. destruct oi as [j|]; [|contradiction]. subst j. exact (proj2 Hr).
  - exists ipo, s. tauto.
Qed.

(* the interface does not depend on --srcip / --srcmac *)
Lemma choose_iface_indep strict cfg t ov ov' o o' :
  ov_iface ov = ov_iface ov' ->
  choose_gen strict cfg t ov = Ok o -> choose_gen strict cfg t ov' = Ok o' -> o_iface o = o_iface o'.
Proof.
  intros He. rewrite !choose_unfold. unfold resolve_iface. rewrite <- He.
  destruct (if (ov_iface ov =? "")%string then Ok None else
            match interface_by_name cfg (ov_iface ov) with Ok i => Ok (Some i) | Err e => Err e end) as [oi|e];
    [|discriminate].
  destruct (get_interface cfg oi t) as [[[i|] ipo]|e]; try discriminate.
  intros H1 H2. apply finish_inv in H1. apply finish_inv in H2. destruct H1 as [-> _]. destruct H2 as [-> _]. reflexivity.
Qed.

(* the repair changes nothing but the nil-source outcome *)
Lemma finish_strict_rel ov i ipo :
  match finish false ov i ipo with
  | Ok o => match o_srcip o with
            | Some _ => finish true ov i ipo = Ok o
            | None => finish true ov i ipo = Err ErrSrcIP
            end
  | Err e => finish true ov i ipo = Err e
  end.
Proof.
  unfold finish. destruct (source_of ov ipo) as [s|]; [|reflexivity]. destruct (to4 s); reflexivity.
Qed.

Lemma choose_fix_rel cfg t ov :
  match choose_gen false cfg t ov with
  | Ok o => match o_srcip o with
            | Some _ => choose_gen true cfg t ov = Ok o
            | None => choose_gen true cfg t ov = Err ErrSrcIP
            end
  | Err e => choose_gen true cfg t ov = Err e
  end.
Proof.
  rewrite !choose_unfold. destruct (resolve_iface cfg ov) as [oi|e]; [|reflexivity].
  destruct (get_interface cfg oi t) as [[[i|] ipo]|e]; try reflexivity. apply finish_strict_rel.
Qed.

(* arp command *)
Lemma choose_arp_spec strict cfg t ov :
  choose_arp_gen strict cfg t ov =
  match choose_gen strict cfg t ov with
  | Err e => Err e
  | Ok o => if o_vpn o then Err ErrSrcMAC else Ok o
  end.
Proof.
  unfold choose_arp_gen. destruct (choose_gen strict cfg t ov) as [o|e] eqn:H; [|reflexivity].
  apply choose_inv in H. destruct H as (_ & _ & _ & Hv & _). rewrite Hv. destruct (o_srcmac o); reflexivity.
Qed.

(* ================================================================== 4. the case analysis is complete *)

Lemma cover_dec_list t : forall l : list addr,
  (exists l1 a l2, l = l1 ++ a :: l2 /\ (forall b, In b l1 -> covers t b = false) /\ covers t a = true) \/
  (forall a, In a l -> covers t a = false).
Proof.
  induction l as [|b l IH]; [right; intros a []|].
  destruct (covers t b) eqn:Hb.
  - left. exists [], b, l. split; [reflexivity|]. split; [intros c []|exact Hb].
  - destruct IH as [(l1 & a & l2 & -> & H1 & H2)|H].
    + left. exists (b :: l1), a, l2. split; [reflexivity|]. split; [|exact H2].
      intros c [<-|Hc]; [exact Hb|exact (H1 c Hc)].
    + right. intros a [<-|Ha]; [exact Hb|exact (H a Ha)].
Qed.

Lemma cover_dec t i : (exists a, first_cover t i a) \/ unattached t i.
Proof.
  destruct (cover_dec_list t (if_addrs i)) as [(l1 & a & l2 & H)|H].
  - left. exists a, l1, l2. exact H.
  - right. exact H.
Qed.

Lemma attached_dec t : forall l : list iface,
  (exists pre i post a, l = pre ++ i :: post /\ (forall j, In j pre -> unattached t j) /\ first_cover t i a) \/
  (forall j, In j l -> unattached t j).
Proof.
  induction l as [|k l IH]; [right; intros j []|].
  destruct (cover_dec t k) as [[a Ha]|Hk].
  - left. exists [], k, l, a. split; [reflexivity|]. split; [intros j []|exact Ha].
  - destruct IH as [(pre & i & post & a & -> & H1 & H2)|H].
    + left. exists (k :: pre), i, post, a. split; [reflexivity|]. split; [|exact H2].
      intros j [<-|Hj]; [exact Hk|exact (H1 j Hj)].
    + right. intros j [<-|Hj]; [exact Hk|exact (H j Hj)].
Qed.

Lemma best_below_dec : forall rs p, (exists r, best_below p rs r) \/ none_below p rs.
Proof.
  induction rs as [|q rs IH]; intros p; [right; intros r []|].
  destruct (is_default q) eqn:Hq.
  - destruct (Z_lt_ge_dec (rt_prio q) p) as [Hlt|Hge].
    + destruct (IH (rt_prio q)) as [(r & pre & post & -> & Hd & Hp & Hpre & Hpost)|Hn].
      * left. exists r, (q :: pre), post. split; [reflexivity|]. split; [exact Hd|]. split; [lia|]. split; [|exact Hpost].
        intros r' [<-|Hr'] Hd'; [exact Hp|exact (Hpre r' Hr' Hd')].
      * left. exists q, [], rs. split; [reflexivity|]. split; [exact Hq|]. split; [exact Hlt|]. split; [intros r' []|exact Hn].
    + destruct (IH p) as [(r & pre & post & -> & Hd & Hp & Hpre & Hpost)|Hn].
      * left. exists r, (q :: pre), post. split; [reflexivity|]. split; [exact Hd|]. split; [exact Hp|]. split; [|exact Hpost].
        intros r' [<-|Hr'] Hd'; [lia|exact (Hpre r' Hr' Hd')].
      * right. intros r [<-|Hr] Hd; [lia|exact (Hn r Hr Hd)].
  - destruct (IH p) as [(r & pre & post & -> & Hd & Hp & Hpre & Hpost)|Hn].
    + left. exists r, (q :: pre), post. split; [reflexivity|]. split; [exact Hd|]. split; [exact Hp|]. split; [|exact Hpost].
      intros r' [<-|Hr'] Hd'; [rewrite Hq in Hd'; discriminate|exact (Hpre r' Hr' Hd')].
    + right. intros r [<-|Hr] Hd; [rewrite Hq in Hd; discriminate|exact (Hn r Hr Hd)].
Qed.

Lemma best_default_dec rs : (exists r, best_default rs r) \/ no_default rs.
Proof. exact (best_below_dec rs max_int32). Qed.

(* every operating-system call of the selection succeeds *)
Definition readable (cfg : config) : Prop :=
  ifaces_err cfg = false /\ routes_err cfg = false /\
  (forall i, In i (ifaces cfg) -> if_addrs_err i = false /\ ipnet_addrs i).

(* with --iface: exactly one of three things happens *)
Lemma choose_complete_iface strict cfg t ov :
  readable cfg -> ov_iface ov <> ""%string ->
  (interface_by_name cfg (ov_iface ov) = Err ErrIfaceName /\ choose_gen strict cfg t ov = Err ErrIfaceName) \/
  (exists i, interface_by_name cfg (ov_iface ov) = Ok i /\
     ((exists t' a, t = Some t' /\ first_cover t' i a /\ choose_gen strict cfg t ov = finish strict ov i (Some (a_ip a))) \/
      (not_attached_opt t i /\ choose_gen strict cfg t ov = finish strict ov i (first_ip i)))).
Proof.
  intros (He & _ & Hall) Hov.
  destruct (interface_by_name cfg (ov_iface ov)) as [i|e] eqn:Hn.
  - right. exists i. split; [reflexivity|]. destruct (Hall i (proj1 (interface_by_name_inv _ _ _ Hn))) as [Hie Hnet].
    destruct t as [t'|].
    + destruct (cover_dec t' i) as [[a Ha]|Hu].
      * left. exists t', a. split; [reflexivity|]. split; [exact Ha|]. exact (choose_attached_iface strict cfg t' ov i a Hov Hn Hie Ha).
      * right. split; [exact Hu|]. exact (choose_fallback_iface strict cfg (Some t') ov i Hov Hn Hie Hnet Hu).
    + right. split; [exact I|]. exact (choose_fallback_iface strict cfg None ov i Hov Hn Hie Hnet I).
  - left. assert (e = ErrIfaceName) as ->.
    { unfold interface_by_name in Hn. rewrite He in Hn.
      destruct (find (fun i0 => String.eqb (ov_iface ov) (if_name i0)) (ifaces cfg)); [discriminate|]. injection Hn as <-. reflexivity. }
    split; [reflexivity|]. rewrite choose_unfold. unfold resolve_iface.
    destruct (String.eqb_spec (ov_iface ov) ""%string) as [E|_]; [contradiction|]. rewrite Hn. reflexivity.
Qed.

(* without --iface: exactly one of three things happens *)
Lemma choose_complete_auto strict cfg t ov :
  readable cfg -> routes_resolvable cfg -> ov_iface ov = ""%string ->
  (exists t' pre i post a, t = Some t' /\ ifaces cfg = pre ++ i :: post /\ (forall j, In j pre -> unattached t' j) /\
     first_cover t' i a /\ choose_gen strict cfg t ov = finish strict ov i (Some (a_ip a))) \/
  (none_attached cfg t /\
     ((exists r i, best_default (routes cfg) r /\ interface_by_index cfg (rt_link r) = Ok i /\
                   choose_gen strict cfg t ov = finish strict ov i (first_ip i)) \/
      (no_default (routes cfg) /\ choose_gen strict cfg t ov = Err ErrSrcInterface))).
Proof.
  intros (He & Hre & Hall) Hres Hov.
  assert (Hfall : none_attached cfg t ->
     (exists r i, best_default (routes cfg) r /\ interface_by_index cfg (rt_link r) = Ok i /\
                  choose_gen strict cfg t ov = finish strict ov i (first_ip i)) \/
     (no_default (routes cfg) /\ choose_gen strict cfg t ov = Err ErrSrcInterface)).
  { intros Hna. destruct (best_default_dec (routes cfg)) as [[r Hr]|Hn].
    - left. destruct Hr as (pre & post & Hsplit & Hd & Hrest) eqn:Hr'. clear Hr'.
      destruct (Hres r) as (i & Hi & _); [rewrite Hsplit; apply in_or_app; right; left; reflexivity|exact Hd|].
      exists r, i. split; [exists pre, post; exact (conj Hsplit (conj Hd Hrest))|]. split; [exact Hi|].
      apply (choose_fallback_default strict cfg t ov r i Hov Hna Hre Hres); [exists pre, post; exact (conj Hsplit (conj Hd Hrest))|exact Hi].
    - right. split; [exact Hn|]. exact (choose_no_interface strict cfg t ov Hov Hna Hre Hn). }
  destruct t as [t'|].
  - destruct (attached_dec t' (ifaces cfg)) as [(pre & i & post & a & Hsplit & Hpre & Ha)|Hnone].
    + left. exists t', pre, i, post, a. split; [reflexivity|]. split; [exact Hsplit|]. split; [exact Hpre|]. split; [exact Ha|].
      apply (choose_attached_auto strict cfg t' ov pre i post a Hov He Hsplit); [|apply Hall; rewrite Hsplit; apply in_or_app; right; left; reflexivity|exact Ha].
      intros j Hj. split; [apply Hall; rewrite Hsplit; apply in_or_app; left; exact Hj|exact (Hpre j Hj)].
    + right. assert (Hna : none_attached cfg (Some t')).
      { split; [exact He|]. intros j Hj. split; [exact (proj1 (Hall j Hj))|exact (Hnone j Hj)]. }
      split; [exact Hna|exact (Hfall Hna)].
  - right. split; [exact I|exact (Hfall I)].
Qed.

(* ================================================================== 5. statements about accepted runs *)

Lemma overrides_win strict cfg t ov o :
  choose_gen strict cfg t ov = Ok o ->
  (ov_iface ov <> ""%string ->
     interface_by_name cfg (ov_iface ov) = Ok (o_iface o) /\ if_name (o_iface o) = ov_iface ov) /\
  (forall s, ov_srcip ov = Some s -> o_srcip o = to4 s /\ (strict = true -> to4 s <> None)) /\
  (forall m, ov_srcmac ov = Some m -> o_srcmac o = Some m).
Proof.
  intros H. apply choose_inv in H.
  destruct H as (_ & Hn & Hm & _ & ipo & s & _ & Hs & H4 & Hst). split; [|split].
  - intros Hne. split; [exact (Hn Hne)|exact (proj2 (interface_by_name_inv _ _ _ (Hn Hne)))].
  - intros s' Hs'. unfold source_of in Hs. rewrite Hs' in Hs. injection Hs as ->. split; [exact H4|exact Hst].
  - intros m Hm'. unfold mac_of in Hm. rewrite Hm' in Hm. exact Hm.
Qed.

Lemma vpn_iff_no_mac strict cfg t ov o :
  choose_gen strict cfg t ov = Ok o ->
  (o_vpn o = true <-> o_srcmac o = None) /\
  (o_vpn o = true <-> ov_srcmac ov = None /\ if_mac (o_iface o) = None) /\
  choose_arp_gen strict cfg t ov = (if o_vpn o then Err ErrSrcMAC else Ok o).
Proof.
  intros H. rewrite (choose_arp_spec strict cfg t ov), H. apply choose_inv in H. destruct H as (_ & _ & Hm & Hv & _).
  split; [|split; [|reflexivity]].
  - rewrite Hv. destruct (o_srcmac o); cbn; split; congruence.
  - rewrite Hv, Hm. unfold mac_of. destruct (ov_srcmac ov); cbn; [split; [discriminate|intros [? _]; discriminate]|].
    destruct (if_mac (o_iface o)); cbn; split; try tauto; try discriminate. intros [_ ?]; discriminate.
Qed.

Lemma error_or_own_source cfg t ov :
  match choose_gen true cfg t ov with
  | Err _ => True
  | Ok o =>
      In (o_iface o) (ifaces cfg) /\
      (exists s4, o_srcip o = Some s4 /\ List.length s4 = 4%nat /\
         match ov_srcip ov with
         | Some s => to4 s = Some s4
         | None => exists a, In a (if_addrs (o_iface o)) /\ to4 (a_ip a) = Some s4
         end) /\
      o_srcmac o = match ov_srcmac ov with Some m => Some m | None => if_mac (o_iface o) end
  end.
Proof.
  destruct (choose_gen true cfg t ov) as [o|e] eqn:H; [|exact I]. apply choose_inv in H.
  destruct H as (Hin & _ & Hm & _ & ipo & s & Hip & Hs & H4 & Hst). split; [exact Hin|split; [|exact Hm]].
  destruct (to4 s) as [s4|] eqn:E4; [|exfalso; exact (Hst eq_refl eq_refl)].
  exists s4. split; [exact H4|split; [exact (to4_length _ _ E4)|]].
  unfold source_of in Hs. destruct (ov_srcip ov) as [s'|].
  - injection Hs as ->. exact E4.
  - subst ipo. destruct Hip as (a & Ha & ->). exists a. split; [exact Ha|exact E4].
Qed.

(* ================================================================== 6. the gateway lookup *)

Definition is_default_via (idx : Z) (r : route) : bool := is_default r && (rt_link r =? idx).

Lemma gateway_walk_rest idx : forall post prio gw,
  (forall r', In r' post -> is_default_via idx r' = true -> prio <= rt_prio r') ->
  gateway_walk post idx prio gw = gw.
Proof.
  induction post as [|q post IH]; intros prio gw H; [reflexivity|].
  cbn [gateway_walk]. unfold is_default_candidate. fold (is_default q).
  destruct (is_default q && (rt_prio q <? prio) && (rt_link q =? idx)) eqn:E.
  - apply andb_true_iff in E. destruct E as [E El]. apply andb_true_iff in E. destruct E as [Ed Ep].
    apply Z.ltb_lt in Ep. assert (prio <= rt_prio q); [|lia].
    apply H; [left; reflexivity|]. unfold is_default_via. rewrite Ed, El. reflexivity.
  - apply IH. intros r' Hr'. apply H. right. exact Hr'.
Qed.

(* GetDefaultGatewayIP returns the gateway of the lowest-metric default route through the interface *)
Lemma gateway_walk_best idx : forall pre r post prio gw,
  is_default_via idx r = true -> rt_prio r < prio ->
  (forall r', In r' pre -> is_default_via idx r' = true -> rt_prio r < rt_prio r') ->
  (forall r', In r' post -> is_default_via idx r' = true -> rt_prio r <= rt_prio r') ->
  gateway_walk (pre ++ r :: post) idx prio gw = rt_gw r.
Proof.
  induction pre as [|q pre IH]; intros r post prio gw Hd Hp Hpre Hpost.
  - cbn [app gateway_walk]. unfold is_default_candidate. fold (is_default r).
    unfold is_default_via in Hd. apply andb_true_iff in Hd. destruct Hd as [Hd Hl].
    rewrite Hd, Hl. assert (Hlt : (rt_prio r <? prio) = true) by (apply Z.ltb_lt; exact Hp). rewrite Hlt. cbn [andb].
    apply gateway_walk_rest. exact Hpost.
  - cbn [app gateway_walk]. unfold is_default_candidate. fold (is_default q).
    assert (Hpre' : forall r', In r' pre -> is_default_via idx r' = true -> rt_prio r < rt_prio r')
      by (intros r' Hr'; apply Hpre; right; exact Hr').
    destruct (is_default q && (rt_prio q <? prio) && (rt_link q =? idx)) eqn:E.
    + apply andb_true_iff in E. destruct E as [E El]. apply andb_true_iff in E. destruct E as [Ed Ep].
      apply IH; try assumption. apply Hpre; [left; reflexivity|]. unfold is_default_via. rewrite Ed, El. reflexivity.
    + apply IH; assumption.
Qed.

(* ================================================================== 7. the target argument *)

(* what ParseIPNet refuses: every CIDR whose mask is not 4 bytes (all IPv6 prefixes, the IPv4-mapped
   form included), every address that is not Is4, everything that does not parse *)
Definition non_ipv4_text (x : target_text) : Prop :=
  match x with
  | TxtCIDR _ maskb => len maskb <> 4
  | TxtAddr is4 _ => is4 = false
  | TxtJunk => True
  end.

Lemma parse_ipnet_refuses x : non_ipv4_text x <-> parse_ipnet x = Err ErrTarget.
Proof.
  destruct x as [ipb maskb|[|] addr|]; cbn.
  - destruct (len maskb =? 4) eqn:E; [apply Z.eqb_eq in E|apply Z.eqb_neq in E]; split; intros H;
      try reflexivity; try discriminate; try assumption. contradiction.
  - split; discriminate.
  - split; reflexivity.
  - split; intros; [reflexivity|exact I].
Qed.

Lemma parse_ipnet_total x : non_ipv4_text x \/ exists t, parse_ipnet x = Ok t /\ len (t_mask t) = 4.
Proof.
  destruct x as [ipb maskb|[|] addr|]; cbn.
  - destruct (len maskb =? 4) eqn:E; [apply Z.eqb_eq in E|apply Z.eqb_neq in E].
    + right. eexists. split; [reflexivity|exact E].
    + left. exact E.
  - right. eexists. split; reflexivity.
  - left. reflexivity.
  - left. exact I.
Qed.

(* a refused target ends the command before any interface or source is selected: the arp command
   fails with ErrInvalidAddr whatever the host looks like, the ip-level commands fail with it unless
   the --iface lookup, which they do first, already failed *)
Lemma refused_target strict cfg x ov :
  non_ipv4_text x ->
  run_arp_gen strict cfg (Some x) ov = Err ErrTarget /\
  run_gen strict cfg (Some x) ov =
    match resolve_iface cfg ov with Err e => Err e | Ok _ => Err ErrTarget end.
Proof.
  intros H. apply parse_ipnet_refuses in H. unfold run_arp_gen, run_gen. rewrite H.
  split; [reflexivity|]. destruct (resolve_iface cfg ov); reflexivity.
Qed.

(* an accepted target is handed to the selection unchanged *)
Lemma accepted_target strict cfg x t ov :
  parse_ipnet x = Ok t ->
  run_gen strict cfg (Some x) ov = choose_gen strict cfg (Some t) ov /\
  run_arp_gen strict cfg (Some x) ov = choose_arp_gen strict cfg (Some t) ov.
Proof.
  intros H. unfold run_arp_gen, run_gen. rewrite H. split; [|reflexivity].
  unfold choose_gen. destruct (resolve_iface cfg ov); reflexivity.
Qed.

Lemma run_no_target strict cfg ov :
  run_gen strict cfg None ov = choose_gen strict cfg None ov /\
  run_arp_gen strict cfg None ov = choose_arp_gen strict cfg None ov.
Proof. split; reflexivity. Qed.
