(* Lemmas about the file generators: each reads the file up to and including the first line that stops it,
   every line read becomes exactly one request determined by that line alone; composed with the stages and
   the nested generator this gives the per-entry reading of C13 and the coverage statements of C01 for the
   file modes. *)
From Coq Require Import ZArith List Bool Lia Permutation.
From SX Require Import Base.Loop Base.Bytes Model.RangeIter Model.IPNet Model.Exclude Model.Targets Model.FileTargets
  Proofs.NumTheory Proofs.RangeIterProofs Proofs.IPNetProofs Proofs.StagesProofs Proofs.TargetsProofs.
Import ListNotations.
Open Scope Z_scope.

(* ------------------------------------------------------------------ the generators, line by line *)
Lemma pairs_walk_spec ls : pairs_walk ls = map (fun l => fst (pair_line l)) (processed pair_stops ls).
Proof.
  induction ls as [|l ls IH]; [reflexivity|]. cbn [pairs_walk processed]. unfold pair_stops at 1.
  destruct (pair_line l) as [r stop] eqn:E. cbn [snd]. destruct stop; cbn [map]; rewrite E; cbn [fst]; [reflexivity|].
  rewrite IH. reflexivity.
Qed.

Lemma ips_walk_spec ls : forall cur, ips_walk true cur ls = map addr_line (processed addr_stops ls).
Proof.
  induction ls as [|l ls IH]; intros cur; [reflexivity|]. cbn [ips_walk processed]. unfold addr_stops.
  destruct l as [[[a|]|] portf| |]; cbn [addr_line map]; try reflexivity. rewrite IH. reflexivity.
Qed.

Lemma processed_nostop stops ls : forallb (fun l => negb (stops l)) ls = true -> processed stops ls = ls.
Proof.
  induction ls as [|l ls IH]; [reflexivity|]. cbn [forallb processed]. intros H. apply andb_true_iff in H.
  destruct H as [H1 H2]. destruct (stops l); [discriminate|]. rewrite IH by exact H2. reflexivity.
Qed.

(* lines before the first stopping line are all read; what follows a stopping line is not *)
Lemma processed_splice stops l1 b l2 : forallb (fun l => negb (stops l)) l1 = true ->
  processed stops (l1 ++ b :: l2) = l1 ++ (if stops b then [b] else b :: processed stops l2).
Proof.
  induction l1 as [|l l1 IH]; [reflexivity|]. cbn [forallb app processed]. intros H. apply andb_true_iff in H.
  destruct H as [H1 H2]. destruct (stops l); [discriminate|]. rewrite IH by exact H2. reflexivity.
Qed.

Lemma processed_app_nostop stops l1 l2 : forallb (fun l => negb (stops l)) l1 = true ->
  processed stops (l1 ++ l2) = l1 ++ processed stops l2.
Proof.
  induction l1 as [|l l1 IH]; [reflexivity|]. cbn [forallb app processed]. intros H. apply andb_true_iff in H.
  destruct H as [H1 H2]. destruct (stops l); [discriminate|]. rewrite IH by exact H2. reflexivity.
Qed.

(* ------------------------------------------------------------------ what one entry becomes *)
(* pairs file: the outcome of one line under a stack of stages *)
Definition pair_outcome (st : stages) (l : line) : list event := map req_event (stage_one st (fst (pair_line l))).
(* address file read for port p (p = 0 for the port-less scans) *)
Definition addr_outcome (st : stages) (p : Z) (l : line) : list event := map req_event (stage_one st (ip_req p (addr_line l))).

(* the cause a bad line states *)
Definition pair_cause (l : line) : option gerr := rerr (fst (pair_line l)).
Definition addr_cause (l : line) : option gerr := match addr_line l with inl _ => None | inr e => Some e end.

Lemma pair_line_err l e : pair_cause l = Some e -> fst (pair_line l) = err_req e.
Proof.
  unfold pair_cause. destruct l as [[[a|]|] portf| |]; cbn; try (intros H; inversion H; reflexivity).
  destruct (valid_port match portf with Some p => p | None => 0 end); cbn; intros H; inversion H; reflexivity.
Qed.

(* a bad entry: exactly one error record stating its cause, whatever stages are stacked on top *)
Lemma pair_outcome_bad st l e : pair_cause l = Some e -> pair_outcome st l = [EError e].
Proof.
  intros H. unfold pair_outcome. rewrite (pair_line_err l e H). rewrite stage_one_err by reflexivity. reflexivity.
Qed.

Lemma addr_outcome_bad st p l e : addr_cause l = Some e -> addr_outcome st p l = [EError e].
Proof.
  unfold addr_cause, addr_outcome. destruct (addr_line l) as [a|e']; [discriminate|]. intros H. inversion H; subst.
  rewrite stage_one_err by reflexivity. reflexivity.
Qed.

(* a good entry: dropped iff excluded; otherwise one probe with the MAC the cache knows, or one no-MAC error *)
Definition good_outcome (st : stages) (a : ip) (p : Z) : list event :=
  if kept st a then
    match st_cache st with
    | None => [EProbe a p []]
    | Some c => match get_mac c a with [] => [EError GNoMAC] | m => [EProbe a p m] end
    end
  else [].

Lemma good_outcome_spec st a p : addr_ok a -> map req_event (stage_one st (mk_req a p)) = good_outcome st a p.
Proof.
  intros Ha. rewrite (stage_one_good st a p Ha). unfold good_outcome. destruct (kept st a); [|reflexivity].
  destruct (st_cache st) as [c|]; [|reflexivity]. destruct (get_mac c a); reflexivity.
Qed.

Lemma pair_outcome_good st a p : addr_ok a -> valid_port p = true ->
  pair_outcome st (LJson (Some (Some a)) (Some p)) = good_outcome st a p.
Proof. intros Ha Hp. unfold pair_outcome. cbn [pair_line]. rewrite Hp. cbn [fst]. apply good_outcome_spec. exact Ha. Qed.

Lemma addr_outcome_good st p a portf : addr_ok a ->
  addr_outcome st p (LJson (Some (Some a)) portf) = good_outcome st a p.
Proof. intros Ha. unfold addr_outcome. cbn [addr_line ip_req]. apply good_outcome_spec. exact Ha. Qed.

(* ------------------------------------------------------------------ whole files *)
Definition run_pairs (st : stages) (ls : list line) : list event := flat_map (pair_outcome st) (processed pair_stops ls).
Definition run_addrs (st : stages) (p : Z) (ls : list line) : list event := flat_map (addr_outcome st p) (processed addr_stops ls).

Lemma events_emit_done l : events (Emit l Done) = map req_event l.
Proof. reflexivity. Qed.

Lemma map_flat_map_map {A B C} (g : B -> C) (h : A -> list B) l : map g (flat_map h l) = flat_map (fun x => map g (h x)) l.
Proof. apply map_flat_map. Qed.

Lemma flat_map_map' {A B C} (f : A -> B) (g : B -> list C) l : flat_map g (map f l) = flat_map (fun x => g (f x)) l.
Proof. induction l as [|x l IH]; cbn; [reflexivity|]. rewrite IH. reflexivity. Qed.

(* pairs file, any stack of stages: the events are the per-line outcomes of the lines read, in order *)
Lemma file_pairs_events table dp di op st ports ls : op 0%nat = Some ls ->
  events (ipport_requests table dp di (TFilePairs op) st ports) = run_pairs st ls.
Proof.
  intros Hop. unfold ipport_requests, file_pairs_gen. rewrite Hop, apply_stages_flat, events_emit_done.
  rewrite pairs_walk_spec, flat_map_map', map_flat_map_map. reflexivity.
Qed.

Lemma file_pairs_unopenable table dp di op st ports : op 0%nat = None ->
  events (ipport_requests table dp di (TFilePairs op) st ports) = [EError GOpen].
Proof. intros Hop. unfold ipport_requests, file_pairs_gen. rewrite Hop, apply_stages_fail. reflexivity. Qed.

Lemma file_source_good op ls : (forall k, op k = Some ls) ->
  good_source (file_source op) (fun _ => map addr_line (processed addr_stops ls)).
Proof. intros H k. unfold file_source, file_ips_gen. rewrite H, ips_walk_spec. reflexivity. Qed.

(* address file x ports: one pass over the file per port, ports in the order the port generator yields them *)
Lemma file_ports_events table (table_good : table_ok table) dp di op st rs ls :
  (forall k, op k = Some ls) -> nonneg dp -> rs <> [] -> Forall valid_range rs ->
  exists ps, Permutation ps (all_ports rs) /\
    events (ipport_requests table dp di (TFileIPs op) st rs) = flat_map (fun p => run_addrs st p ls) ps.
Proof.
  intros Hop Hdp Hne Hv. destruct (ports_gen_ok table table_good dp rs Hdp Hne Hv) as [ps [Hg Hp]].
  exists ps. split; [exact Hp|]. unfold ipport_requests. rewrite Hg.
  rewrite (ip_port_gen_blocks _ _ ps (file_source_good op ls Hop)).
  rewrite (blocks_const _ (map addr_line (processed addr_stops ls))) by reflexivity.
  rewrite apply_stages_flat, events_emit_done.
  rewrite flat_map_flat_map', map_flat_map_map. apply flat_map_ext. intros p.
  unfold run_addrs, addr_outcome. rewrite !flat_map_map', map_flat_map_map. reflexivity.
Qed.

(* port-less scan of an address file (icmp -f) *)
Lemma file_addrs_events table di op st ls : op 0%nat = Some ls ->
  events (ip_requests table di (TFileIPs op) st) = run_addrs st 0 ls.
Proof.
  intros Hop. unfold ip_requests, ip_req_gen, file_source, file_ips_gen. rewrite Hop, ips_walk_spec.
  rewrite apply_stages_flat, events_emit_done. unfold run_addrs, addr_outcome.
  rewrite !flat_map_map', map_flat_map_map. reflexivity.
Qed.

(* ------------------------------------------------------------------ neighbours *)
(* a bad line at ANY position: everything before it is handled as if the file ended there, the line itself
   is exactly one error with its cause, and what follows is handled as if the line were absent - or not
   at all when the line stops the reader *)
Lemma run_pairs_splice st l1 b l2 e :
  forallb (fun l => negb (pair_stops l)) l1 = true -> pair_cause b = Some e ->
  run_pairs st (l1 ++ b :: l2) = run_pairs st l1 ++ [EError e] ++ (if pair_stops b then [] else run_pairs st l2).
Proof.
  intros H1 Hb. unfold run_pairs. rewrite (processed_splice _ l1 b l2 H1), (processed_nostop _ l1 H1).
  rewrite flat_map_app'. f_equal. destruct (pair_stops b); cbn [flat_map]; rewrite (pair_outcome_bad st b e Hb); reflexivity.
Qed.

Lemma run_addrs_splice st p l1 b l2 e :
  forallb (fun l => negb (addr_stops l)) l1 = true -> addr_cause b = Some e ->
  run_addrs st p (l1 ++ b :: l2) = run_addrs st p l1 ++ [EError e].
Proof.
  intros H1 Hb. unfold run_addrs. rewrite (processed_splice _ l1 b l2 H1), (processed_nostop _ l1 H1).
  rewrite flat_map_app'. f_equal.
  assert (Hs : addr_stops b = true) by (unfold addr_stops, addr_cause in *; destruct (addr_line b); [discriminate|reflexivity]).
  rewrite Hs. cbn [flat_map]. rewrite (addr_outcome_bad st p b e Hb). reflexivity.
Qed.

(* good lines only: nothing stops, the events are the good outcomes in file order *)
Lemma run_pairs_app st l1 l2 : forallb (fun l => negb (pair_stops l)) l1 = true ->
  run_pairs st (l1 ++ l2) = run_pairs st l1 ++ run_pairs st l2.
Proof.
  intros H. unfold run_pairs. rewrite (processed_app_nostop _ l1 l2 H), (processed_nostop _ l1 H). apply flat_map_app'.
Qed.

(* ------------------------------------------------------------------ well-formed files (coverage) *)
Lemma addr_okb_ok a : addr_okb a = true -> addr_ok a.
Proof.
  unfold addr_okb, addr_ok. intros H. apply orb_true_iff in H. destruct H as [H|H]; apply Z.eqb_eq in H; [left|right]; exact H.
Qed.

Lemma wf_pair_line_inv l : wf_pair_line l = true ->
  exists a p, l = LJson (Some (Some a)) (Some p) /\ valid_port p = true /\ addr_ok a /\ line_pair l = [(a, p)].
Proof.
  unfold wf_pair_line. destruct l as [[[a|]|] [p|]| |]; cbn [line_pair]; try discriminate.
  destruct (valid_port p) eqn:Ep; [|discriminate]. destruct (addr_okb a) eqn:Ea; [|discriminate]. cbn [andb]. intros _.
  exists a, p. split; [reflexivity|]. split; [exact Ep|]. split; [apply addr_okb_ok; exact Ea|reflexivity].
Qed.

Lemma wf_addr_line_inv l : wf_addr_line l = true ->
  exists a portf, l = LJson (Some (Some a)) portf /\ addr_ok a /\ line_addr l = [a].
Proof.
  unfold wf_addr_line. destruct l as [[[a|]|] portf| |]; cbn [line_addr]; try discriminate.
  destruct (addr_okb a) eqn:Ea; [|discriminate]. intros _. exists a, portf.
  split; [reflexivity|]. split; [apply addr_okb_ok; exact Ea|reflexivity].
Qed.

Lemma wf_pairs_reqs ls : forallb wf_pair_line ls = true ->
  pairs_walk ls = map (fun ap => mk_req (fst ap) (snd ap)) (flat_map line_pair ls) /\
  Forall good_req (pairs_walk ls).
Proof.
  induction ls as [|l ls IH]; [split; [reflexivity|constructor]|]. cbn [forallb]. intros H. apply andb_true_iff in H.
  destruct H as [H1 H2]. destruct (wf_pair_line_inv l H1) as (a & p & -> & Hp & Ha & Hl). destruct (IH H2) as [E F].
  cbn [pairs_walk pair_line]. rewrite Hp. cbn [flat_map]. rewrite Hl, E. split; [reflexivity|].
  constructor; [|rewrite <- E; exact F]. repeat split. exact Ha.
Qed.

Lemma wf_addrs_pass ls : forallb wf_addr_line ls = true ->
  map addr_line (processed addr_stops ls) = map inl (flat_map line_addr ls) /\ Forall addr_ok (flat_map line_addr ls).
Proof.
  induction ls as [|l ls IH]; [split; [reflexivity|constructor]|]. cbn [forallb]. intros H. apply andb_true_iff in H.
  destruct H as [H1 H2]. destruct (wf_addr_line_inv l H1) as (a & portf & -> & Ha & Hl). destruct (IH H2) as [E F].
  cbn [processed]. unfold addr_stops at 1. cbn [addr_line map flat_map]. rewrite Hl, E. split; [reflexivity|].
  constructor; assumption.
Qed.
