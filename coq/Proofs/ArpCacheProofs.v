(* Lemmas about Model/ArpCache.v: text round trips of addresses, the printed ARP line loads, all
   cache files (last line wins), parser outputs are 16 bytes, the cache key separates IPv4 hosts,
   the cache stage. *)
From Coq Require Import ZArith Bool Ascii String List Lia ZifyBool.
From SX Require Import Base.Bytes Model.Json Gen.Schemas Model.ArpCache Proofs.JsonProofs.
Import ListNotations.
Open Scope Z_scope.

(* ---------------- finite sweeps *)
Fixpoint zrange (n : nat) : list Z := match n with O => [] | S n' => zrange n' ++ [Z.of_nat n'] end.

Lemma zrange_in n b : 0 <= b < Z.of_nat n -> In b (zrange n).
Proof.
  induction n as [|n IH]; intros H; [lia|]. cbn [zrange]. apply in_or_app.
  destruct (Z.eq_dec b (Z.of_nat n)) as [->|Hne]; [right; left; reflexivity|left; apply IH; lia].
Qed.

Lemma sweep (P : Z -> bool) n : forallb P (zrange n) = true -> forall b, 0 <= b < Z.of_nat n -> P b = true.
Proof. intros H b Hb. rewrite forallb_forall in H. apply H, zrange_in, Hb. Qed.

(* ---------------- decimal text of a byte *)
Definition byte_digits (b : Z) : list Z :=
  if b <? 10 then [48 + b]
  else if b <? 100 then [48 + b / 10; 48 + b mod 10]
  else [48 + b / 100; 48 + (b / 10) mod 10; 48 + b mod 10].

Lemma enc_uint_byte b : 0 <= b < 256 -> enc_uint b = byte_digits b.
Proof.
  intros H. apply bytes_eqb_eq.
  apply (sweep (fun b => bytes_eqb (enc_uint b) (byte_digits b)) 256); [vm_compute; reflexivity|exact H].
Qed.

Lemma digit_is d : 0 <= d <= 9 -> is_digit (48 + d) = true.
Proof. unfold is_digit, in_rng. lia. Qed.

(* reading the decimal text of one byte: the state after it *)
Lemma ipv4_field b rest first pd acc : 0 <= b < 256 ->
  exists dl, ipv4_fields (enc_uint b ++ rest) 0 0 first pd acc = ipv4_fields rest b dl false false acc.
Proof.
  intros H. rewrite enc_uint_byte by exact H. unfold byte_digits.
  destruct (b <? 10) eqn:E1.
  - exists 1. cbn [app ipv4_fields]. rewrite digit_is by lia. cbn [andb Z.eqb].
    replace (255 <? 0 * 10 + (48 + b - 48)) with false by lia.
    replace (0 * 10 + (48 + b - 48)) with b by lia. reflexivity.
  - assert (D := Z.div_mod b 10 ltac:(lia)). assert (M := Z.mod_pos_bound b 10 ltac:(lia)).
    assert (Q : 1 <= b / 10 < 26) by (split; [apply Z.div_le_lower_bound; lia|apply Z.div_lt_upper_bound; lia]).
    destruct (b <? 100) eqn:E2.
    + assert (b / 10 < 10) by (apply Z.div_lt_upper_bound; lia).
      exists 2. cbn [app ipv4_fields]. rewrite !digit_is by lia. cbn [andb Z.eqb].
      replace (255 <? 0 * 10 + (48 + b / 10 - 48)) with false by lia.
      replace ((0 + 1 =? 1) && (0 * 10 + (48 + b / 10 - 48) =? 0)) with false by lia.
      replace (255 <? (0 * 10 + (48 + b / 10 - 48)) * 10 + (48 + b mod 10 - 48)) with false by lia.
      replace ((0 * 10 + (48 + b / 10 - 48)) * 10 + (48 + b mod 10 - 48)) with b by lia.
      reflexivity.
    + assert (D2 := Z.div_mod (b / 10) 10 ltac:(lia)). assert (M2 := Z.mod_pos_bound (b / 10) 10 ltac:(lia)).
      assert (E : b / 10 / 10 = b / 100) by (rewrite Z.div_div by lia; reflexivity).
      assert (Q2 : 1 <= b / 100 < 3) by (split; [apply Z.div_le_lower_bound; lia|apply Z.div_lt_upper_bound; lia]).
      exists 3. cbn [app ipv4_fields]. rewrite !digit_is by lia. cbn [andb Z.eqb].
      replace (255 <? 0 * 10 + (48 + b / 100 - 48)) with false by lia.
      replace ((0 + 1 =? 1) && (0 * 10 + (48 + b / 100 - 48) =? 0)) with false by lia.
      replace (255 <? (0 * 10 + (48 + b / 100 - 48)) * 10 + (48 + (b / 10) mod 10 - 48)) with false by lia.
      replace ((0 + 1 + 1 =? 1) && ((0 * 10 + (48 + b / 100 - 48)) * 10 + (48 + (b / 10) mod 10 - 48) =? 0)) with false by lia.
      replace (255 <? ((0 * 10 + (48 + b / 100 - 48)) * 10 + (48 + (b / 10) mod 10 - 48)) * 10 + (48 + b mod 10 - 48)) with false by lia.
      replace (((0 * 10 + (48 + b / 100 - 48)) * 10 + (48 + (b / 10) mod 10 - 48)) * 10 + (48 + b mod 10 - 48)) with b by lia.
      reflexivity.
Qed.

(* the character after a field *)
Lemma ipv4_dot rest b dl acc : rest <> [] -> (length acc <> 3)%nat ->
  ipv4_fields (46 :: rest) b dl false false acc = ipv4_fields rest 0 0 false true (acc ++ [b]).
Proof.
  intros Hr Ha. cbn [ipv4_fields]. change (is_digit 46) with false. change (46 =? 46) with true. cbv iota.
  destruct rest as [|c t]; [contradiction|]. cbn [orb].
  replace (length acc =? 3)%nat with false by (symmetry; apply Nat.eqb_neq; exact Ha). reflexivity.
Qed.

Lemma enc_uint_nonempty b : 0 <= b < 256 -> enc_uint b <> [].
Proof. intros H. rewrite enc_uint_byte by exact H. unfold byte_digits. repeat bdestruct_if; discriminate. Qed.

Lemma parse_ipv4_text a b c d :
  0 <= a < 256 -> 0 <= b < 256 -> 0 <= c < 256 -> 0 <= d < 256 ->
  parse_ipv4 (ip4_text [a; b; c; d]) = Some [a; b; c; d].
Proof.
  intros Ha Hb Hc Hd. unfold parse_ipv4, ip4_text. cbn [map join_with].
  assert (Hne : forall x t, 0 <= x < 256 -> enc_uint x ++ t <> []).
  { intros x t Hx E. apply app_eq_nil in E. destruct E as [E _]. exact (enc_uint_nonempty x Hx E). }
  destruct (ipv4_field a (46 :: enc_uint b ++ 46 :: enc_uint c ++ 46 :: enc_uint d) true false [] Ha) as [d1 E1].
  rewrite E1, ipv4_dot; [|apply Hne; exact Hb|discriminate]. cbn [app].
  destruct (ipv4_field b (46 :: enc_uint c ++ 46 :: enc_uint d) false true [a] Hb) as [d2 E2].
  rewrite E2, ipv4_dot; [|apply Hne; exact Hc|discriminate]. cbn [app].
  destruct (ipv4_field c (46 :: enc_uint d) false true [a; b] Hc) as [d3 E3].
  rewrite E3, ipv4_dot; [|apply enc_uint_nonempty; exact Hd|discriminate]. cbn [app].
  destruct (ipv4_field d [] false true [a; b; c] Hd) as [d4 E4].
  rewrite <- (app_nil_r (enc_uint d)), E4. reflexivity.
Qed.

Lemma enc_uint_digits b : 0 <= b < 256 -> forallb is_digit (enc_uint b) = true.
Proof.
  intros H. apply (sweep (fun b => forallb is_digit (enc_uint b)) 256); [vm_compute; reflexivity|exact H].
Qed.

Lemma first_special_digits ds rest : forallb is_digit ds = true ->
  first_special (ds ++ rest) = first_special rest.
Proof.
  induction ds as [|c ds IH]; cbn [app forallb first_special]; [reflexivity|]. intros H.
  apply andb_true_iff in H. destruct H as [H1 H2].
  replace ((c =? 46) || (c =? 58) || (c =? 37)) with false by (unfold is_digit, in_rng in H1; lia).
  apply IH, H2.
Qed.

Definition is_ip4 (ip : list Z) : Prop :=
  exists a b c d, ip = [a; b; c; d] /\ 0 <= a < 256 /\ 0 <= b < 256 /\ 0 <= c < 256 /\ 0 <= d < 256.

Lemma is_ip4_wf ip : length ip = 4%nat -> wf_bytes ip = true -> is_ip4 ip.
Proof.
  destruct ip as [|a [|b [|c [|d [|e t]]]]]; try discriminate. intros _ H.
  unfold wf_bytes in H. cbn [forallb] in H. unfold is_byte in H.
  exists a, b, c, d. repeat split; lia.
Qed.

(* net.ParseIP inverts IP.String on IPv4 addresses (and yields the 16-byte form) *)
Lemma parse_ip_text_v4 ip : is_ip4 ip -> parse_ip_text (ip4_text ip) = Some (v4_prefix ++ ip).
Proof.
  intros [a [b [c [d [-> [Ha [Hb [Hc Hd]]]]]]]]. unfold parse_ip_text.
  assert (F : first_special (ip4_text [a; b; c; d]) = 46).
  { unfold ip4_text. cbn [map join_with]. rewrite first_special_digits by (apply enc_uint_digits; exact Ha). reflexivity. }
  rewrite F. change (46 =? 46) with true. cbv iota. rewrite parse_ipv4_text by assumption. reflexivity.
Qed.

Lemma ip_text_v4 ip : is_ip4 ip -> ip_text ip = ip4_text ip.
Proof. intros [a [b [c [d [-> _]]]]]. reflexivity. Qed.

Lemma ip_text_mapped ip : is_ip4 ip -> ip_text (v4_prefix ++ ip) = ip4_text ip.
Proof. intros [a [b [c [d [-> _]]]]]. reflexivity. Qed.

(* ---------------- MAC text *)
Lemma xtoi2_hex2 b : 0 <= b < 256 -> xtoi2 (hexd (b / 16)) (hexd (b mod 16)) = Some b.
Proof.
  intros H. unfold xtoi2. rewrite !hexval_hexd.
  - f_equal. pose proof (Z.div_mod b 16). lia.
  - apply Z.mod_pos_bound. lia.
  - split; [apply Z.div_pos; lia|apply Z.div_lt_upper_bound; lia].
Qed.

Definition is_mac6 (m : list Z) : Prop := length m = 6%nat /\ wf_bytes m = true.

Lemma parse_mac_text_6 m : is_mac6 m -> parse_mac_text (mac_text m) = Some m.
Proof.
  intros [Hl Hw]. destruct m as [|m0 [|m1 [|m2 [|m3 [|m4 [|m5 [|m6 t]]]]]]]; try discriminate.
  unfold wf_bytes in Hw. cbn [forallb] in Hw. unfold is_byte in Hw.
  unfold parse_mac_text, mac_text. cbn [map join_with hex2 app length Nat.ltb Nat.leb nth].
  change (58 =? 58) with true. cbn [orb]. cbn [mac_sep]. change (58 =? 58) with true. cbv iota.
  rewrite !xtoi2_hex2 by lia. unfold hex2. cbn [mac_sep]. rewrite !xtoi2_hex2 by lia. reflexivity.
Qed.

(* ---------------- the printed line loads *)
Definition is_ascii (s : list Z) : bool := forallb (fun b => (0 <=? b) && (b <? 128)) s.

Lemma ascii_sanitize s : is_ascii s = true -> sanitize s = s.
Proof.
  unfold is_ascii, sanitize. induction s as [|b s IH]; cbn [forallb]; [reflexivity|].
  intros H. apply andb_true_iff in H. destruct H as [H1 H2]. cbn [chunks].
  replace (b <? 128) with true by lia. cbn [flat_map san_chunk app]. rewrite IH by exact H2. reflexivity.
Qed.

Lemma ascii_wf s : is_ascii s = true -> wf_bytes s = true.
Proof.
  unfold is_ascii, wf_bytes. induction s as [|b s IH]; cbn [forallb]; [reflexivity|].
  intros H. apply andb_true_iff in H. destruct H as [H1 H2]. rewrite IH by exact H2. unfold is_byte. lia.
Qed.

Lemma ascii_app a b : is_ascii (a ++ b) = is_ascii a && is_ascii b.
Proof. unfold is_ascii. apply forallb_app. Qed.

Lemma digits_ascii s : forallb is_digit s = true -> is_ascii s = true.
Proof.
  unfold is_ascii. induction s as [|b s IH]; cbn [forallb]; [reflexivity|]. intros H.
  apply andb_true_iff in H. destruct H as [H1 H2]. rewrite IH by exact H2. unfold is_digit, in_rng in H1. lia.
Qed.

Lemma ip4_text_ascii ip : is_ip4 ip -> is_ascii (ip4_text ip) = true.
Proof.
  intros [a [b [c [d [-> [Ha [Hb [Hc Hd]]]]]]]]. unfold ip4_text. cbn [map join_with].
  assert (S : forall x y, is_ascii (x ++ 46 :: y) = is_ascii x && is_ascii y).
  { intros x y. rewrite ascii_app. reflexivity. }
  rewrite !S. rewrite !digits_ascii by (apply enc_uint_digits; assumption). reflexivity.
Qed.

Lemma hexd_ascii x : 0 <= x < 16 -> (0 <=? hexd x) && (hexd x <? 128) = true.
Proof. intros H. unfold hexd. destruct (x <? 10) eqn:E; lia. Qed.

Lemma hex2_ascii b : 0 <= b < 256 -> is_ascii (hex2 b) = true.
Proof.
  intros H. unfold hex2, is_ascii. cbn [forallb]. rewrite !hexd_ascii; [reflexivity| |].
  - apply Z.mod_pos_bound. lia.
  - split; [apply Z.div_pos; lia|apply Z.div_lt_upper_bound; lia].
Qed.

Lemma mac_text_ascii m : wf_bytes m = true -> is_ascii (mac_text m) = true.
Proof.
  unfold mac_text. induction m as [|b m IH]; intros H; [reflexivity|].
  apply wf_bytes_cons in H. destruct H as [Hb Hm]. cbn [map]. destruct m as [|b' m].
  - cbn [map join_with]. apply hex2_ascii, Hb.
  - change (join_with 58 (hex2 b :: map hex2 (b' :: m))) with (hex2 b ++ 58 :: join_with 58 (map hex2 (b' :: m))).
    rewrite ascii_app, hex2_ascii by exact Hb. cbn [is_ascii forallb andb]. apply IH, Hm.
Qed.

Lemma arp_schema_ok : schema_ok arp_schema = true.
Proof. vm_compute. reflexivity. Qed.

(* the object the ARP scan prints for (ip, mac, vendor) decodes to its three strings *)
Lemma arp_object_entry ipt mact vendor :
  wf_bytes ipt = true -> wf_bytes mact = true -> wf_bytes vendor = true ->
  entry_of_line (enc_record arp_schema [VS (VStr ipt); VS (VStr mact); VS (VStr vendor)])
  = Some (sanitize ipt, sanitize mact).
Proof.
  intros H1 H2 H3. unfold entry_of_line, enc_record.
  rewrite dec_json_enc.
  - reflexivity.
  - apply record_wf; [exact arp_schema_ok|]. cbn. rewrite H1, H2, H3. reflexivity.
Qed.

Lemma load_arp_object c ip mac vendor : is_ip4 ip -> is_mac6 mac -> wf_bytes vendor = true ->
  load_line c (arp_object ip mac vendor) = inl ((ip4_text ip, mac) :: c).
Proof.
  intros Hip Hmac Hv. unfold load_line, arp_object, arp_result.
  rewrite (ip_text_v4 ip Hip).
  pose proof (ip4_text_ascii ip Hip) as A1. pose proof (mac_text_ascii mac (proj2 Hmac)) as A2.
  rewrite arp_object_entry by (first [assumption | apply ascii_wf; assumption]).
  rewrite !ascii_sanitize by assumption.
  rewrite parse_ip_text_v4 by exact Hip. rewrite parse_mac_text_6 by exact Hmac.
  unfold cache_put. rewrite ip_text_mapped by exact Hip. reflexivity.
Qed.

(* ---------------- FillCache over all files *)
Lemma load_line_binding c ln c' : load_line c ln = inl c' ->
  exists k m, c' = (k, m) :: c /\ forall c0, load_line c0 ln = inl ((k, m) :: c0).
Proof.
  unfold load_line. destruct (entry_of_line ln) as [[ipt mact]|]; [|discriminate].
  destruct (parse_ip_text ipt) as [ip|]; [|discriminate].
  destruct (parse_mac_text mact) as [mac|]; [|discriminate].
  intros H. injection H as <-. exists (ip_text ip), mac. split; reflexivity.
Qed.

(* the binding a line creates, if it is a good line *)
Definition binding (ln : list Z) : option (list Z * list Z) :=
  match load_line [] ln with
  | inl ((k, m) :: _) => Some (k, m)
  | _ => None
  end.

Lemma load_line_some c ln k m : binding ln = Some (k, m) -> load_line c ln = inl ((k, m) :: c).
Proof.
  unfold binding. destruct (load_line [] ln) as [c'|e] eqn:E; [|discriminate].
  destruct (load_line_binding [] ln c' E) as [k' [m' [-> F]]]. intros H. injection H as <- <-. apply F.
Qed.

Lemma load_line_none c ln : binding ln = None -> exists e, load_line c ln = inr e.
Proof.
  unfold binding. destruct (load_line [] ln) as [c'|e] eqn:E.
  - destruct (load_line_binding [] ln c' E) as [k' [m' [-> F]]]. discriminate.
  - intros _. unfold load_line in *. destruct (entry_of_line ln) as [[ipt mact]|]; [|eexists; reflexivity].
    destruct (parse_ip_text ipt) as [ip|]; [|eexists; reflexivity].
    destruct (parse_mac_text mact) as [mac|]; [discriminate|eexists; reflexivity].
Qed.

(* the file loads iff every line is good, and then the cache is the list of bindings, newest first *)
Lemma fill_from_spec lines : forall c c',
  fill_cache_from c lines = inl c' <->
  exists bs, map binding lines = map Some bs /\ c' = rev bs ++ c.
Proof.
  induction lines as [|ln lines IH]; intros c c'; cbn [fill_cache_from map].
  - split.
    + intros H. injection H as <-. exists []. split; reflexivity.
    + intros [bs [H ->]]. destruct bs; [reflexivity|discriminate].
  - destruct (binding ln) as [[k m]|] eqn:B.
    + rewrite (load_line_some c ln k m B). rewrite IH. split.
      * intros [bs [H ->]]. exists ((k, m) :: bs). split; [cbn [map]; rewrite H; reflexivity|].
        cbn [rev]. rewrite <- app_assoc. reflexivity.
      * intros [bs [H ->]]. destruct bs as [|b bs]; [discriminate|]. cbn [map] in H. injection H as <- H.
        exists bs. split; [exact H|]. cbn [rev]. rewrite <- app_assoc. reflexivity.
    + destruct (load_line_none c ln B) as [e ->]. split; [discriminate|].
      intros [bs [H _]]. destruct bs; discriminate.
Qed.

(* the value the LAST good line for key k gives it, scanning the file top to bottom *)
Definition last_binding (k : list Z) (lines : list (list Z)) : option (list Z) :=
  fold_left (fun acc ln => match binding ln with
                           | Some (k', m) => if bytes_eqb k k' then Some m else acc
                           | None => acc
                           end) lines None.

Lemma lookup_rev_bindings k bs : forall acc c,
  cache_lookup k c = acc ->
  cache_lookup k (rev bs ++ c) =
  fold_left (fun acc b => if bytes_eqb k (fst b) then Some (snd b) else acc) bs acc.
Proof.
  induction bs as [|[k' m] bs IH]; intros acc c H; cbn [rev fold_left app]; [exact H|].
  rewrite <- app_assoc. apply IH. cbn [app cache_lookup fst snd]. destruct (bytes_eqb k k'); [reflexivity|exact H].
Qed.

Lemma last_wins lines c : fill_cache lines = inl c ->
  forall k, cache_lookup k c = last_binding k lines.
Proof.
  unfold fill_cache. intros H k. apply fill_from_spec in H. destruct H as [bs [Hb ->]].
  rewrite (lookup_rev_bindings k bs None []) by reflexivity. unfold last_binding.
  generalize (@None (list Z)). revert bs Hb. induction lines as [|ln lines IH]; intros bs Hb acc.
  - destruct bs; [reflexivity|discriminate].
  - destruct bs as [|[k' m] bs]; [discriminate|]. cbn [map] in Hb. injection Hb as Hb1 Hb.
    cbn [fold_left fst snd]. rewrite Hb1. apply IH. exact Hb.
Qed.

(* ---------------- the cache stage *)
Lemma stage_cases c gw r :
  (exists m, cache_get c (rq_dst r) = Some m /\ rq_dstmac (cache_stage1 c gw r) = m /\ rq_err (cache_stage1 c gw r) = rq_err r) \/
  (cache_get c (rq_dst r) = None /\ exists g, gw = Some g /\ rq_dstmac (cache_stage1 c gw r) = g /\ rq_err (cache_stage1 c gw r) = rq_err r) \/
  (cache_get c (rq_dst r) = None /\ gw = None /\ rq_err (cache_stage1 c gw r) = true /\ rq_dstmac (cache_stage1 c gw r) = rq_dstmac r).
Proof.
  unfold cache_stage1, dst_mac. destruct (cache_get c (rq_dst r)) as [m|].
  - left. exists m. repeat split; reflexivity.
  - destruct gw as [g|].
    + right. left. split; [reflexivity|]. exists g. repeat split; reflexivity.
    + right. right. repeat split; reflexivity.
Qed.

Lemma stage_keeps c gw r :
  rq_dst (cache_stage1 c gw r) = rq_dst r /\ rq_port (cache_stage1 c gw r) = rq_port r.
Proof. unfold cache_stage1. destruct (dst_mac c gw (rq_dst r)); split; reflexivity. Qed.

(* ---------------- what net.ParseIP returns is 16 bytes *)
Lemma ipv4_fields_out s : forall val dl first pd acc out,
  wf_bytes acc = true -> (length acc <= 3)%nat -> 0 <= val < 256 ->
  ipv4_fields s val dl first pd acc = Some out ->
  wf_bytes out = true /\ length out = 4%nat.
Proof.
  induction s as [|c t IH]; intros val dl first pd acc out Hw Hl Hv; cbn [ipv4_fields].
  - destruct (length acc <? 3)%nat eqn:E; [discriminate|]. intros H. injection H as <-.
    split.
    + apply wf_bytes_app. split; [exact Hw|]. apply wf_bytes_cons. split; [exact Hv|reflexivity].
    + rewrite app_length. cbn [length]. apply Nat.ltb_ge in E. lia.
  - destruct (is_digit c) eqn:D.
    + destruct ((dl =? 1) && (val =? 0)); [discriminate|].
      destruct (255 <? val * 10 + (c - 48)) eqn:E; [discriminate|].
      apply IH; [exact Hw|exact Hl|]. unfold is_digit, in_rng in D. lia.
    + destruct (c =? 46); [|discriminate].
      destruct (first || pd || match t with [] => true | _ :: _ => false end); [discriminate|].
      destruct (length acc =? 3)%nat eqn:E; [discriminate|]. apply Nat.eqb_neq in E.
      apply IH.
      * apply wf_bytes_app. split; [exact Hw|]. apply wf_bytes_cons. split; [exact Hv|reflexivity].
      * rewrite app_length. cbn [length]. lia.
      * lia.
Qed.

Lemma parse_ipv4_out s out : parse_ipv4 s = Some out -> wf_bytes out = true /\ length out = 4%nat.
Proof. unfold parse_ipv4. apply ipv4_fields_out; [reflexivity|cbn; lia|lia]. Qed.

Lemma hexval_range c d : hexval c = Some d -> 0 <= d < 16.
Proof.
  unfold hexval, in_rng. repeat bdestruct_if; intros H; try discriminate; injection H as <-; lia.
Qed.

Lemma hex_run_out s : forall acc n v n' rest,
  0 <= acc < 16 ^ Z.of_nat n -> (n <= 4)%nat ->
  hex_run s acc n = Some (v, n', rest) -> 0 <= v < 65536.
Proof.
  induction s as [|c t IH]; intros acc n v n' rest Ha Hn; cbn [hex_run].
  - intros H. injection H as <- _ _.
    assert (16 ^ Z.of_nat n <= 16 ^ 4) by (apply Z.pow_le_mono_r; lia). lia.
  - destruct (hexval c) as [d|] eqn:Hc.
    + destruct (3 <? n)%nat eqn:E; [discriminate|]. apply Nat.ltb_ge in E.
      apply IH; [|lia]. pose proof (hexval_range c d Hc).
      rewrite Nat2Z.inj_succ, Z.pow_succ_r by lia. lia.
    + intros H. injection H as <- _ _.
      assert (16 ^ Z.of_nat n <= 16 ^ 4) by (apply Z.pow_le_mono_r; lia). lia.
Qed.

Lemma group_bytes_wf v : 0 <= v < 65536 -> wf_bytes [v / 256; v mod 256] = true.
Proof.
  intros H. apply wf_bytes_cons. split.
  - split; [apply Z.div_pos; lia|apply Z.div_lt_upper_bound; lia].
  - apply wf_bytes_cons. split; [apply Z.mod_pos_bound; lia|reflexivity].
Qed.

Lemma ipv6_loop_out fuel : forall s ip ell out ell',
  wf_bytes ip = true -> (length ip <= 16)%nat -> Nat.even (length ip) = true ->
  ipv6_loop fuel s ip ell = Some (out, ell') ->
  wf_bytes out = true /\ (length out <= 16)%nat.
Proof.
  induction fuel as [|fuel IH]; intros s ip ell out ell' Hw Hl He; cbn [ipv6_loop].
  - destruct s; [|discriminate]. intros H. injection H as <- _. split; assumption.
  - destruct (16 <=? length ip)%nat eqn:E16.
    { destruct s; [|discriminate]. intros H. injection H as <- _. split; assumption. }
    apply Nat.leb_gt in E16.
    assert (L14 : (length ip <= 14)%nat).
    { destruct (Nat.eq_dec (length ip) 15) as [E|E]; [rewrite E in He; discriminate|lia]. }
    destruct (hex_run s 0 0%nat) as [[[acc n] rest]|] eqn:HR; [|discriminate].
    assert (Hacc : 0 <= acc < 65536) by (eapply (hex_run_out s 0 0%nat); [cbn; lia|lia|exact HR]).
    destruct (n =? 0)%nat; [discriminate|].
    assert (Hw' : wf_bytes (ip ++ [acc / 256; acc mod 256]) = true).
    { apply wf_bytes_app. split; [exact Hw|apply group_bytes_wf, Hacc]. }
    assert (Hl' : (length (ip ++ [(acc / 256)%Z; (acc mod 256)%Z]) <= 16)%nat) by (rewrite app_length; cbn [length]; lia).
    assert (He' : Nat.even (length (ip ++ [acc / 256; acc mod 256])) = true).
    { rewrite app_length. cbn [length]. replace (length ip + 2)%nat with (S (S (length ip))) by lia. exact He. }
    destruct rest as [|d rest'].
    { intros H. injection H as <- _. split; assumption. }
    destruct (d =? 46).
    + destruct (match ell with Some _ => false | None => negb (length ip =? 12)%nat end); [discriminate|].
      destruct (16 <? length ip + 4)%nat eqn:E4; [discriminate|]. apply Nat.ltb_ge in E4.
      destruct (parse_ipv4 s) as [v4|] eqn:P4; [|discriminate].
      destruct (parse_ipv4_out s v4 P4) as [W4 L4].
      intros H. injection H as <- _. split.
      * apply wf_bytes_app. split; assumption.
      * rewrite app_length. lia.
    + destruct (d =? 58); [|discriminate].
      destruct rest' as [|c2 t2]; [discriminate|].
      destruct (c2 =? 58).
      * destruct ell; [discriminate|]. destruct t2 as [|x t2'].
        -- intros H. injection H as <- _. split; assumption.
        -- apply IH; assumption.
      * apply IH; assumption.
Qed.

Lemma zeros_wf n : wf_bytes (zeros n) = true /\ length (zeros n) = n.
Proof. induction n as [|n [IH1 IH2]]; [split; reflexivity|]. cbn [zeros length]. split; [apply wf_bytes_cons; split; [lia|exact IH1]|lia]. Qed.

Lemma wf_firstn n l : wf_bytes l = true -> wf_bytes (firstn n l) = true.
Proof.
  unfold wf_bytes. intros H. apply forallb_forall. intros x Hx. rewrite forallb_forall in H. apply H.
  eapply In_nth_error in Hx. destruct Hx as [i Hi]. rewrite <- (firstn_skipn n l). apply in_or_app. left.
  eapply nth_error_In. exact Hi.
Qed.
Lemma wf_skipn n l : wf_bytes l = true -> wf_bytes (skipn n l) = true.
Proof.
  unfold wf_bytes. intros H. apply forallb_forall. intros x Hx. rewrite forallb_forall in H. apply H.
  rewrite <- (firstn_skipn n l). apply in_or_app. right. exact Hx.
Qed.

Lemma parse_ipv6_out s out : parse_ipv6 s = Some out -> wf_bytes out = true /\ length out = 16%nat.
Proof.
  unfold parse_ipv6. destruct (existsb (fun c => c =? 37) s); [discriminate|].
  assert (Z16 : wf_bytes (zeros 16) = true /\ length (zeros 16) = 16%nat) by apply zeros_wf.
  assert (Main : forall t ell, match ipv6_loop 9 t [] ell with
                 | Some (ip, ell') =>
                     if (length ip <? 16)%nat
                     then match ell' with
                          | Some e => Some (firstn e ip ++ zeros (16 - length ip) ++ skipn e ip)
                          | None => None
                          end
                     else match ell' with Some _ => None | None => Some ip end
                 | None => None
                 end = Some out -> wf_bytes out = true /\ length out = 16%nat).
  { intros t ell. destruct (ipv6_loop 9 t [] ell) as [[ip ell']|] eqn:EL; [|discriminate].
    destruct (ipv6_loop_out 9 t [] ell ip ell' eq_refl ltac:(cbn; lia) eq_refl EL) as [W L].
    destruct (length ip <? 16)%nat eqn:E.
    - destruct ell' as [e|]; [|discriminate]. apply Nat.ltb_lt in E. remember (16 - length ip)%nat as k eqn:Hk.
      intros H. injection H as <-. split.
      + apply wf_bytes_app. split; [apply wf_firstn, W|]. apply wf_bytes_app. split; [apply zeros_wf|apply wf_skipn, W].
      + rewrite !app_length. rewrite (proj2 (zeros_wf _)).
        pose proof (firstn_skipn e ip) as FS. apply (f_equal (@length Z)) in FS. rewrite app_length in FS. lia.
    - destruct ell'; [discriminate|]. intros H. injection H as <-. apply Nat.ltb_ge in E. split; [exact W|lia]. }
  destruct s as [|a [|b t]].
  - apply (Main [] None).
  - apply (Main [a] None).
  - destruct ((a =? 58) && (b =? 58)).
    + destruct t as [|x t'].
      * intros H. injection H as <-. exact Z16.
      * apply (Main (x :: t') (Some 0%nat)).
    + apply (Main (a :: b :: t) None).
Qed.

Lemma parse_ip_text_out s out : parse_ip_text s = Some out -> wf_bytes out = true /\ length out = 16%nat.
Proof.
  unfold parse_ip_text. destruct (first_special s =? 46).
  - destruct (parse_ipv4 s) as [v4|] eqn:P; [|discriminate]. destruct (parse_ipv4_out s v4 P) as [W L].
    intros H. injection H as <-. split; [apply (proj2 (wf_bytes_app v4_prefix v4)); split; [reflexivity|exact W]|change (length (v4_prefix ++ v4) = 16%nat); rewrite app_length, L; reflexivity].
  - destruct (first_special s =? 58); [apply parse_ipv6_out|discriminate].
Qed.

(* ---------------- the key ip.String() separates IPv4 addresses from everything else *)
Lemma ascii_digits_no_colon s : forallb is_digit s = true -> ~ In 58 s.
Proof.
  intros H Hin. rewrite forallb_forall in H. specialize (H 58 Hin). discriminate.
Qed.

Lemma ip4_text_no_colon ip : is_ip4 ip -> ~ In 58 (ip4_text ip).
Proof.
  intros [a [b [c [d [-> [Ha [Hb [Hc Hd]]]]]]]]. unfold ip4_text. cbn [map join_with]. intros Hin.
  repeat (apply in_app_or in Hin; destruct Hin as [Hin|Hin];
          [eapply ascii_digits_no_colon; [apply enc_uint_digits|exact Hin]; assumption|];
          destruct Hin as [Hin|Hin]; [discriminate|]).
  eapply ascii_digits_no_colon; [apply enc_uint_digits|exact Hin]; assumption.
Qed.

Lemma join_with_in sep x y l : In sep (join_with sep (x :: y :: l)).
Proof. change (join_with sep (x :: y :: l)) with (x ++ sep :: join_with sep (y :: l)). apply in_or_app. right. left. reflexivity. Qed.

Lemma ip6_text_colon a : length a = 16%nat -> In 58 (ip6_text a).
Proof.
  intros H. do 16 (destruct a as [|? a]; [discriminate|]). destruct a; [|discriminate].
  unfold ip6_text. cbn [groups_of].
  match goal with |- context [best_run ?g 0%nat (0%nat, 0%nat)] => destruct (best_run g 0%nat (0%nat, 0%nat)) as [zs zl] end.
  destruct (zl =? 0)%nat.
  - cbn [map]. apply join_with_in.
  - apply in_or_app. right. left. reflexivity.
Qed.

Lemma ip4_text_inj x y : is_ip4 x -> is_ip4 y -> ip4_text x = ip4_text y -> x = y.
Proof.
  intros Hx Hy E.
  pose proof (parse_ip_text_v4 x Hx) as Px. pose proof (parse_ip_text_v4 y Hy) as Py.
  rewrite E, Py in Px. injection Px as Px. symmetry. exact Px.
Qed.

Lemma to4_ip4 a a4 : to4 a = Some a4 -> wf_bytes a = true -> is_ip4 a4 /\ ip_text a = ip4_text a4.
Proof.
  unfold to4. intros H W. destruct (length a =? 4)%nat eqn:E4.
  - injection H as <-. apply Nat.eqb_eq in E4. split; [apply is_ip4_wf; assumption|].
    unfold ip_text, to4. rewrite E4. reflexivity.
  - destruct ((length a =? 16)%nat && bytes_eqb (firstn 12 a) v4_prefix) eqn:E16; [|discriminate].
    apply andb_true_iff in E16. destruct E16 as [E16 EP]. apply Nat.eqb_eq in E16.
    do 16 (destruct a as [|? a]; [discriminate|]). destruct a; [|discriminate].
    cbn [skipn] in H. injection H as <-. split.
    + apply is_ip4_wf; [reflexivity|]. apply (wf_skipn 12) in W. exact W.
    + unfold ip_text, to4. cbn [length Nat.eqb negb orb andb]. rewrite EP. reflexivity.
Qed.

(* two addresses with the same cache key, one of them IPv4 (4-byte or IPv4-mapped form): they are
   the same IPv4 address *)
Lemma key_collision a d : wf_bytes a = true -> length a = 16%nat -> is_ipv4 d = true ->
  ip_text a = ip_text d -> to4 a = to4 d.
Proof.
  intros Wa La Hd E. unfold is_ipv4 in Hd. destruct (to4 d) as [d4|] eqn:Td; [|discriminate].
  destruct (to4_ip4 d d4 Td Hd) as [Id Ed]. rewrite Ed in E.
  destruct (to4 a) as [a4|] eqn:Ta.
  - destruct (to4_ip4 a a4 Ta Wa) as [Ia Ea]. rewrite Ea in E. f_equal. apply ip4_text_inj; assumption.
  - exfalso. apply (ip4_text_no_colon d4 Id). rewrite <- E.
    unfold ip_text. rewrite La, Ta. cbn [Nat.eqb negb orb]. apply ip6_text_colon, La.
Qed.

(* the address and MAC a good line binds *)
Definition line_addr (ln : list Z) : option (list Z * list Z) :=
  match entry_of_line ln with
  | Some (ipt, mact) =>
      match parse_ip_text ipt, parse_mac_text mact with
      | Some ip, Some mac => Some (ip, mac)
      | _, _ => None
      end
  | None => None
  end.

Lemma binding_addr ln : binding ln = match line_addr ln with Some (a, m) => Some (ip_text a, m) | None => None end.
Proof.
  unfold binding, line_addr, load_line. destruct (entry_of_line ln) as [[ipt mact]|]; [|reflexivity].
  destruct (parse_ip_text ipt); [|reflexivity]. destruct (parse_mac_text mact); reflexivity.
Qed.

Lemma line_addr_out ln a m : line_addr ln = Some (a, m) -> wf_bytes a = true /\ length a = 16%nat.
Proof.
  unfold line_addr. destruct (entry_of_line ln) as [[ipt mact]|]; [|discriminate].
  destruct (parse_ip_text ipt) as [ip|] eqn:P; [|discriminate]. destruct (parse_mac_text mact); [|discriminate].
  intros H. injection H as <- _. apply (parse_ip_text_out ipt ip P).
Qed.

(* never another host's MAC: what the cache answers for an IPv4 destination is the MAC of the LAST
   line of the file whose address is that same IPv4 address *)
Definition same_host (a d : list Z) : bool :=
  match to4 a, to4 d with Some x, Some y => bytes_eqb x y | _, _ => false end.

Definition last_for (d : list Z) (lines : list (list Z)) : option (list Z) :=
  fold_left (fun acc ln => match line_addr ln with
                           | Some (a, m) => if same_host a d then Some m else acc
                           | None => acc
                           end) lines None.

Lemma never_other_host lines c d : fill_cache lines = inl c -> is_ipv4 d = true ->
  cache_get c d = last_for d lines.
Proof.
  intros H Hd. unfold cache_get. rewrite (last_wins lines c H). unfold last_binding, last_for.
  generalize (@None (list Z)). clear H. induction lines as [|ln lines IH]; intros acc; [reflexivity|].
  cbn [fold_left]. rewrite binding_addr. destruct (line_addr ln) as [[a m]|] eqn:LA; [|apply IH].
  destruct (line_addr_out ln a m LA) as [Wa La].
  assert (K : bytes_eqb (ip_text d) (ip_text a) = same_host a d).
  { unfold same_host. destruct (bytes_eqb (ip_text d) (ip_text a)) eqn:E.
    - apply bytes_eqb_eq in E. symmetry in E. pose proof (key_collision a d Wa La Hd E) as T.
      unfold is_ipv4 in Hd. destruct (to4 d) as [d4|]; [|discriminate]. rewrite T. symmetry. apply bytes_eqb_refl.
    - destruct (to4 a) as [a4|] eqn:Ta; [|reflexivity]. destruct (to4 d) as [d4|] eqn:Td; [|reflexivity].
      destruct (bytes_eqb a4 d4) eqn:E2; [|reflexivity]. apply bytes_eqb_eq in E2. subst d4. exfalso.
      unfold is_ipv4 in Hd. rewrite Td in Hd.
      destruct (to4_ip4 a a4 Ta Wa) as [_ Ea]. destruct (to4_ip4 d a4 Td Hd) as [_ Ed].
      rewrite Ea, Ed, bytes_eqb_refl in E. discriminate. }
  rewrite K. apply IH.
Qed.

(* ---------------- the whole output of an ARP scan as a cache file *)
Lemma split_rev_line obj rest : ~ In 10 obj -> forall cur,
  split_rev (obj ++ 10 :: rest) cur = (rev obj ++ cur) :: split_rev rest [].
Proof.
  induction obj as [|b obj IH]; intros Hn cur; cbn [app split_rev rev].
  - change (10 =? 10) with true. reflexivity.
  - replace (b =? 10) with false by (symmetry; apply Z.eqb_neq; intros ->; apply Hn; left; reflexivity).
    rewrite IH by (intros Hin; apply Hn; right; exact Hin). rewrite <- app_assoc. reflexivity.
Qed.

Lemma arp_object_shape ip mac vendor : exists body, arp_object ip mac vendor = body ++ [125].
Proof.
  unfold arp_object, enc_record, record_jv. cbn [enc_jv]. unfold enc_members.
  eexists (123 :: _). cbn [app]. reflexivity.
Qed.

Lemma line_of_rev obj body : obj = body ++ [125] -> line_of (rev obj ++ []) = obj.
Proof.
  intros ->. rewrite app_nil_r, rev_app_distr. cbn [rev app]. unfold line_of, drop_cr.
  change (125 =? 13) with false. cbv iota. rewrite rev_append_rev, app_nil_r. cbn [rev].
  rewrite rev_involutive. reflexivity.
Qed.

Definition reply := (list Z * list Z * list Z)%type.
Definition reply_ok (r : reply) : Prop :=
  match r with (ip, mac, vendor) =>
    is_ip4 ip /\ is_mac6 mac /\ wf_bytes vendor = true /\ Z.of_nat (length (arp_object ip mac vendor)) < max_line
  end.
Definition reply_line (r : reply) : list Z := match r with (ip, mac, vendor) => arp_line ip mac vendor end.
Definition reply_binding (r : reply) : list Z * list Z := match r with (ip, mac, _) => (ip4_text ip, mac) end.

Lemma scan_output_loads rs : Forall reply_ok rs -> forall c,
  fill_raw c (split_rev (flat_map reply_line rs) []) = inl (rev (map reply_binding rs) ++ c).
Proof.
  induction 1 as [|[[ip mac] vendor] rs Hr _ IH]; intros c; [reflexivity|].
  destruct Hr as [Hip [Hmac [Hv Hlen]]].
  cbn [flat_map reply_line map reply_binding rev]. unfold arp_line, line. fold (arp_object ip mac vendor).
  rewrite <- app_assoc. cbn [app].
  assert (Hnl : ~ In 10 (arp_object ip mac vendor)).
  { apply (record_one_line arp_schema); [exact arp_schema_ok|]. unfold arp_result. cbn.
    rewrite (ascii_wf _ (ip4_text_ascii ip Hip)) || idtac.
    rewrite (ip_text_v4 ip Hip), (ascii_wf _ (ip4_text_ascii ip Hip)), (ascii_wf _ (mac_text_ascii mac (proj2 Hmac))), Hv. reflexivity. }
  rewrite split_rev_line by exact Hnl. cbn [fill_raw].
  rewrite app_nil_r, rev_length.
  replace (max_line <=? Z.of_nat (length (arp_object ip mac vendor))) with false by lia.
  destruct (arp_object_shape ip mac vendor) as [body Hb].
  rewrite <- (app_nil_r (rev (arp_object ip mac vendor))), (line_of_rev _ body Hb).
  rewrite load_arp_object by assumption. rewrite IH. rewrite <- app_assoc. reflexivity.
Qed.
