(* C01 o C07: the request generators of a command feeding the packet pipeline.  For every packet-scan
   command, every valid specification, every number of pipeline workers and EVERY schedule of every
   engine run, the frames handed to the wire in complete uncancelled runs are - as a multiset - exactly
   what the specification denotes.  The generator side is Proofs/WiringProofs.v (C01), the pipeline side
   is Proofs/PipelineWire.v (C07); this file only composes them. *)
From stdpp Require Import gmultiset list sets.
From SX Require Import Base.Net Model.Pipeline Proofs.PipelineProofs Proofs.PipelineOrder Proofs.PipelineWire.
From Coq Require Import ZArith.
From SX Require Import Base.Loop Base.Bytes Model.RangeIter Model.IPNet Model.Exclude Model.Targets Model.FileTargets
  Model.TargetWiring Proofs.RangeIterProofs Proofs.WiringProofs.
Local Open Scope nat_scope.

(* ---------- the engine runs of one command (run_command, before concatenation) ---------- *)
Definition engine_runs (table : list row) (chunk_size : Z) (empty_once : bool)
           (cmd : command) (f : cfg) (inp : inputs) : option (list (list event)) :=
  let g := resolve f (c_gen cmd) in
  if well_formed table f inp g then
    Some match c_engine cmd with
         | EChunked =>
             match i_ports inp with
             | [] => if empty_once then [run_engine table f inp g 0 []] else []
             | _ => map (fun ic => run_engine table f inp g (fst ic) (snd ic))
                        (combine (seq 0 (length (i_ports inp))) (chunks (Z.to_nat chunk_size) (i_ports inp)))
             end
         | EPacketOnce | EGeneric => [run_engine table f inp g 0 (i_ports inp)]
         end
  else None.

Lemma engine_runs_concat table chunk_size empty_once cmd f inp :
  run_command table chunk_size empty_once cmd f inp =
  option_map (@concat event) (engine_runs table chunk_size empty_once cmd f inp).
Proof.
  unfold run_command, engine_runs. destruct (well_formed _ _ _ _); [|reflexivity]. simpl. f_equal.
  destruct (c_engine cmd); simpl; try (rewrite app_nil_r; reflexivity).
  unfold port_scan_engine. destruct (i_ports inp); [|reflexivity].
  destruct empty_once; simpl; [rewrite app_nil_r|]; reflexivity.
Qed.

(* ---------- an engine run's events as the request stream of the pipeline ---------- *)
Definition is_probe (e : event) : bool := match e with EProbe _ _ _ => true | _ => false end.
(* request k of the stream is event k; it carries an error iff the event is not a probe *)
Fixpoint to_reqs_from (k : nat) (evs : list event) : list (nat * bool) :=
  match evs with [] => [] | e :: r => (k, negb (is_probe e)) :: to_reqs_from (S k) r end.
Definition to_reqs (evs : list event) : list (nat * bool) := to_reqs_from 0 evs.

Lemma fst_to_reqs k evs : fst <$> to_reqs_from k evs = seq k (length evs).
Proof. revert k. induction evs as [|e r IH]; intros k; simpl; [reflexivity|]. rewrite IH. reflexivity. Qed.
Lemma to_reqs_NoDup evs : NoDup (fst <$> to_reqs evs).
Proof. unfold to_reqs. rewrite fst_to_reqs. apply NoDup_seq. Qed.

(* the (address, port) of the frame built for request id *)
Definition frame_at (evs : list event) (id : nat) : list (ip * Z) :=
  match evs !! id with Some e => probe_of e | None => [] end.
Definition all_ok (_ : nat) : bool := true.

Lemma due_frames pre evs :
  flat_map (frame_at (pre ++ evs)) (due all_ok all_ok (to_reqs_from (length pre) evs)) = probes evs.
Proof.
  revert pre. induction evs as [|e r IH]; intros pre; [reflexivity|].
  specialize (IH (pre ++ [e])). rewrite <- app_assoc in IH. simpl in IH.
  rewrite app_length in IH. simpl in IH. replace (length pre + 1) with (S (length pre)) in IH by lia.
  unfold due in *. cbn [to_reqs_from]. rewrite filter_cons.
  assert (Hat : frame_at (pre ++ e :: r) (length pre) = probe_of e).
  { unfold frame_at. rewrite lookup_app_r by lia. rewrite Nat.sub_diag. reflexivity. }
  unfold probes. cbn [flat_map]. fold (probes r). rewrite <- IH.
  destruct (decide (sent_b all_ok all_ok (length pre, negb (is_probe e)) = true)) as [Hs|Hs].
  - rewrite fmap_cons. cbn [flat_map fst]. rewrite Hat. reflexivity.
  - assert (Hp : is_probe e = false).
    { unfold sent_b, all_ok in Hs. simpl in Hs. destruct (is_probe e); [exfalso; apply Hs; reflexivity|reflexivity]. }
    destruct e; try discriminate; reflexivity.
Qed.

(* ---------- one engine run on the wire ---------- *)
(* [ws] is what a complete, uncancelled run of the pipeline fed with [evs] handed to the wire:
   some number of workers, some capacity of the request channel, some schedule *)
Definition wire_outcome (evs : list event) (ws : list (ip * Z)) : Prop :=
  exists N cap s,
    reachable (beh N all_ok all_ok) (init N cap (to_reqs evs)) s /\
    cancelled s = false /\ quiescent s /\
    ws = flat_map (frame_at evs) (wire_list s).

Lemma wire_outcome_probes evs ws : wire_outcome evs ws -> ws ≡ₚ probes evs.
Proof.
  intros (N & cap & s & Hr & Hc & Hq & ->).
  rewrite (pipeline_wire_exact N all_ok all_ok (to_reqs evs) (to_reqs_NoDup evs) cap s Hr Hc Hq).
  pose proof (due_frames [] evs) as H. simpl in H. unfold to_reqs. rewrite H. reflexivity.
Qed.

Lemma probes_concat (runs : list (list event)) : probes (concat runs) = concat (map probes runs).
Proof.
  induction runs as [|r runs IH]; [reflexivity|]. simpl. unfold probes in *. rewrite flat_map_app, IH. reflexivity.
Qed.

Lemma wire_outcomes_concat runs wss :
  Forall2 wire_outcome runs wss -> concat wss ≡ₚ probes (concat runs).
Proof.
  intros H. rewrite probes_concat. induction H as [|evs ws runs wss H1 _ IH]; [reflexivity|].
  simpl. rewrite (wire_outcome_probes _ _ H1), IH. reflexivity.
Qed.

(* ---------- wire and error stream together ---------- *)
Definition error_at (evs : list event) (id : nat) : list gerr :=
  match evs !! id with Some e => error_of e | None => [] end.

Lemma errdue_errors pre evs :
  flat_map (error_at (pre ++ evs)) (errdue all_ok all_ok (to_reqs_from (length pre) evs)) = errors evs.
Proof.
  revert pre. induction evs as [|e r IH]; intros pre; [reflexivity|].
  specialize (IH (pre ++ [e])). rewrite <- app_assoc in IH. simpl in IH.
  rewrite app_length in IH. simpl in IH. replace (length pre + 1) with (S (length pre)) in IH by lia.
  unfold errdue in *. cbn [to_reqs_from]. rewrite filter_cons.
  assert (Hat : error_at (pre ++ e :: r) (length pre) = error_of e).
  { unfold error_at. rewrite lookup_app_r by lia. rewrite Nat.sub_diag. reflexivity. }
  unfold errors. cbn [flat_map]. fold (errors r). rewrite <- IH.
  destruct (decide (sent_b all_ok all_ok (length pre, negb (is_probe e)) = false)) as [Hs|Hs].
  - rewrite fmap_cons. cbn [flat_map fst]. rewrite Hat. reflexivity.
  - assert (Hp : is_probe e = true).
    { unfold sent_b, all_ok in Hs. simpl in Hs. destruct (is_probe e); [reflexivity|exfalso; apply Hs; reflexivity]. }
    destruct e; try discriminate; reflexivity.
Qed.

(* [ws] = what was handed to the wire, [es] = the causes of the request errors logged by the error
   drain, in a complete uncancelled run of the pipeline fed with [evs] *)
Definition run_outcome (evs : list event) (ws : list (ip * Z)) (es : list gerr) : Prop :=
  exists N cap s,
    reachable (beh N all_ok all_ok) (init N cap (to_reqs evs)) s /\
    cancelled s = false /\ quiescent s /\
    ws = flat_map (frame_at evs) (wire_list s) /\ es = flat_map (error_at evs) (err_list s).

Lemma run_outcome_exact evs ws es : run_outcome evs ws es -> ws ≡ₚ probes evs /\ es ≡ₚ errors evs.
Proof.
  intros (N & cap & s & Hr & Hc & Hq & -> & ->). split.
  - rewrite (pipeline_wire_exact N all_ok all_ok (to_reqs evs) (to_reqs_NoDup evs) cap s Hr Hc Hq).
    pose proof (due_frames [] evs) as H. simpl in H. unfold to_reqs. rewrite H. reflexivity.
  - rewrite (pipeline_errors_exact N all_ok all_ok (to_reqs evs) (to_reqs_NoDup evs) cap s Hr Hc Hq).
    pose proof (errdue_errors [] evs) as H. simpl in H. unfold to_reqs. rewrite H. reflexivity.
Qed.

Lemma errors_concat (runs : list (list event)) : errors (concat runs) = concat (map errors runs).
Proof.
  induction runs as [|r runs IH]; [reflexivity|]. simpl. unfold errors in *. rewrite flat_map_app, IH. reflexivity.
Qed.

Lemma run_outcomes_concat runs wss ess :
  Forall3 run_outcome runs wss ess ->
  concat wss ≡ₚ probes (concat runs) /\ concat ess ≡ₚ errors (concat runs).
Proof.
  intros H. rewrite probes_concat, errors_concat.
  induction H as [|evs ws es runs wss ess H1 _ [IH1 IH2]]; [split; reflexivity|].
  destruct (run_outcome_exact _ _ _ H1) as [Hw He]. simpl. split.
  - rewrite Hw, IH1. reflexivity.
  - rewrite He, IH2. reflexivity.
Qed.

(* ---------- the composition ---------- *)
Section Commands.
Variable table : list row.
Hypothesis table_good : table_ok table.
Variable chunk_size : Z.
Hypothesis chunk_pos : (0 < chunk_size)%Z.

Theorem wire_coverage cmd k f inp n :
  class_of cmd = Some k -> valid_spec k f inp n ->
  exists runs, engine_runs table chunk_size true cmd f inp = Some runs /\
    forall wss, Forall2 wire_outcome runs wss -> concat wss ≡ₚ spec_denote k f inp n.
Proof.
  intros Hc V.
  destruct (command_coverage table table_good chunk_size chunk_pos cmd k f inp n Hc V) as (evs & Hrun & Hperm & _ & _).
  rewrite engine_runs_concat in Hrun.
  destruct (engine_runs table chunk_size true cmd f inp) as [runs|]; [|discriminate].
  injection Hrun as <-. exists runs. split; [reflexivity|].
  intros wss Hw. rewrite (wire_outcomes_concat _ _ Hw). exact Hperm.
Qed.
End Commands.
