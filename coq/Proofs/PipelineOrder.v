(* C07, second part: what travels where (typing of channels and states by the fate of each request),
   "done is closed only after the last frame was handed to the wire", and the terminal equalities.
   For every N >= 1, every request list with distinct ids, every Fill/Write outcome, every schedule. *)
From stdpp Require Import gmultiset list sets.
From SX Require Import Base.Net Model.Pipeline Proofs.PipelineProofs.

Section order.
Variable N : nat.
Variables fill_ok write_ok : nat -> bool.
Variable reqs : list (nat * bool).
Notation beh := (beh N fill_ok write_ok).

Definition has (id : nat) (b : bool) : Prop := (id, b) ∈ reqs.
(* the request cannot produce a frame: it carried an error, or Fill failed *)
Definition errfate1 (id : nat) : Prop := has id true \/ (has id false /\ fill_ok id = false).
(* the request ends as an error: as above, or the write failed *)
Definition errfate (id : nat) : Prop :=
  errfate1 id \/ (has id false /\ fill_ok id = true /\ write_ok id = false).
Definition wirefate (id : nat) : Prop := has id false /\ fill_ok id = true /\ write_ok id = true.

Definition is_req (v : val) : Prop := exists id b, v = VReq id b /\ has id b.
Definition good_buf (v : val) : Prop :=
  exists id, (v = VBuf id /\ has id false /\ fill_ok id = true) \/ (v = VBufErr id /\ errfate1 id).
Definition is_verr (v : val) : Prop := exists id, v = VErr id /\ errfate id.
Definition is_errv (v : val) : Prop := v = VRcvErr \/ is_verr v.

Definition PV (c : nat) (v : val) : Prop :=
  (c = c_in /\ is_req v) \/
  (((exists i, i < N /\ c = c_w i) \/ c = c_m N) /\ good_buf v) \/
  (c = c_serr N /\ is_verr v) \/
  (c = c_rerr N /\ v = VRcvErr) \/
  (c = c_eout N /\ is_errv v).

Definition PL (l : loc) : Prop :=
  match l with
  | Src rest | SrcStalled rest => forall x, x ∈ rest -> x ∈ reqs
  | WIdle i | WClose i | MIdle i => i < N
  | WFill i id => i < N /\ has id false
  | WSend i id => i < N /\ has id false /\ fill_ok id = true
  | WSendErr i id => i < N /\ errfate1 id
  | MSend i v => i < N /\ good_buf v
  | SErr id => errfate id
  | SWrite id => has id false /\ fill_ok id = true
  | ESend _ v | DEmit v => is_errv v
  | Junk _ _ => False
  | _ => True
  end.

Definition PE (e : ev) : Prop :=
  match e with
  | EFill id => has id false
  | EWire id => wirefate id
  | EWriteFail id => True
  | EErrOut v => is_errv v
  end.

Ltac alts H :=
  repeat (apply elem_of_cons in H; destruct H as [H|H]); [..|apply elem_of_nil in H; destruct H];
  try (injection H as -> ->).
Ltac chan_lia := unfold c_in, c_w, c_m, c_done, c_serr, c_rerr, c_eout in *; lia.

Lemma PV_in v : PV c_in v -> is_req v.
Proof. intros [[_ H]|[[[(i & _ & H)|H] _]|[[H _]|[[H _]|[H _]]]]]; [assumption|chan_lia..]. Qed.
Lemma PV_w i v : i < N -> PV (c_w i) v -> good_buf v.
Proof. intros Hi [[H _]|[[_ H]|[[H _]|[[H _]|[H _]]]]]; [chan_lia|assumption|chan_lia..]. Qed.
Lemma PV_m v : PV (c_m N) v -> good_buf v.
Proof. intros [[H _]|[[_ H]|[[H _]|[[H _]|[H _]]]]]; [chan_lia|assumption|chan_lia..]. Qed.
Lemma PV_ein j v : PV (e_in N j) v -> is_errv v.
Proof.
  destruct j as [|j]; simpl.
  - intros [[H _]|[[[(i & Hi & H)|H] _]|[[_ H]|[[H _]|[H _]]]]]; [chan_lia|chan_lia|chan_lia|right; assumption|chan_lia|chan_lia].
  - intros [[H _]|[[[(i & Hi & H)|H] _]|[[H _]|[[_ H]|[H _]]]]]; [chan_lia|chan_lia|chan_lia|chan_lia|left; assumption|chan_lia].
Qed.
Lemma PV_eout v : PV (c_eout N) v -> is_errv v.
Proof. intros [[H _]|[[[(i & Hi & H)|H] _]|[[H _]|[[H _]|[_ H]]]]]; [chan_lia|chan_lia|chan_lia|chan_lia|chan_lia|assumption]. Qed.
Lemma PV_done v : ~ PV (c_done N) v.
Proof. intros [[H _]|[[[(i & Hi & H)|H] _]|[[H _]|[[H _]|[H _]]]]]; chan_lia. Qed.

Lemma pipeline_typed_beh : typed_beh beh PL PV PE.
Proof.
  intros l HPL. destruct l as
    [rest| |i|i id|i id|i id|i|i|i v| | | |id|id| | | | | | |j|j v| | | |v|r v|r|srest]; simpl in *; try done.
  - destruct rest as [|[id b] r]; simpl; [done|].
    intros g k Hin. alts Hin; simpl; [| |exact HPL].
    * split.
      -- left. split; [reflexivity|]. exists id, b. split; [reflexivity|]. apply HPL. left.
      -- intros x Hx. apply HPL. right. assumption.
    * intros x Hx. apply HPL. right. assumption.
  - intros g k Hin. alts Hin; simpl; [done|]. split; [|done].
    intros v Hv. apply PV_in in Hv. destruct Hv as (id & b & -> & Hhas). destruct b; simpl.
    + split; [assumption|]. left. assumption.
    + split; assumption.
  - intros o. destruct HPL as [Hi Hhas]. split; [|constructor; [assumption|constructor]].
    destruct (fill_ok id) eqn:Ef; simpl; [auto|]. split; [assumption|]. right. auto.
  - destruct HPL as (Hi & Hhas & Hf). intros g k Hin. alts Hin; simpl; [done|]. split; [|done].
    right. left. split; [left; eauto|]. exists id. left. auto.
  - destruct HPL as (Hi & He). intros g k Hin. alts Hin; simpl; [done|]. split; [|done].
    right. left. split; [left; eauto|]. exists id. right. auto.
  - intros g k Hin. alts Hin; simpl; [done|]. split; [|done]. intros v Hv. split; [assumption|]. eapply PV_w; eauto.
  - destruct HPL as (Hi & Hg). intros g k Hin. alts Hin; simpl; [done|]. split; [|assumption].
    right. left. split; [right; reflexivity|assumption].
  - intros g k Hin. alts Hin; simpl; [done|]. split; [|done].
    intros v Hv. apply PV_m in Hv. destruct Hv as (id & [(-> & Hh & Hf)|(-> & He)]); simpl.
    + auto.
    + left. assumption.
  - intros g k Hin. alts Hin; simpl. split; [|done]. right. right. left. split; [reflexivity|]. exists id. auto.
  - intros o. destruct HPL as [Hh Hf]. destruct (write_ok id) eqn:Ew; simpl.
    + split; [done|]. constructor; [|constructor]. simpl. unfold wirefate. auto.
    + split; [|constructor; [done|constructor]]. right. auto.
  - intros g k Hin. alts Hin; simpl; done.
  - intros o. split; [|constructor]. destruct o as [|[|o]]; done.
  - intros g k Hin. alts Hin; simpl; [done|]. split; [|done]. right. right. right. left. auto.
  - intros g k Hin. alts Hin; simpl; [done|]. split; [|done]. intros v Hv. eapply PV_ein; eauto.
  - intros g k Hin. alts Hin; simpl; [done|]. split; [|done]. right. right. right. right. auto.
  - intros g k Hin. alts Hin; simpl. split; [|done]. intros v Hv. apply PV_eout. assumption.
  - intros o. split; [done|]. constructor; [assumption|constructor].
  - intros g k Hin. apply elem_of_nil in Hin. destruct Hin.
Qed.

Lemma init_typed cap : typed PL PV PE (init N cap reqs).
Proof.
  split; [split|].
  - simpl. unfold init_procs. rewrite !Forall_app. split; [|split; [|split]].
    + constructor; [|constructor]. simpl. auto.
    + apply Forall_fmap. apply Forall_forall. intros i Hi. apply elem_of_seq in Hi. simpl. lia.
    + apply Forall_fmap. apply Forall_forall. intros i Hi. apply elem_of_seq in Hi. simpl. lia.
    + repeat constructor.
  - simpl. constructor.
  - intros c ch Hc. simpl in Hc. unfold init_chans in Hc. apply elem_of_list_lookup_2 in Hc.
    assert (cbuf ch = []) as ->; [|constructor].
    rewrite !elem_of_app in Hc. destruct Hc as [H|[H|H]].
    + apply elem_of_list_singleton in H. subst. reflexivity.
    + apply elem_of_list_fmap in H. destruct H as (? & -> & _). reflexivity.
    + repeat (apply elem_of_cons in H; destruct H as [->|H]; [reflexivity|]). apply elem_of_nil in H. destruct H.
Qed.

(* every value in flight, every local state and every logged event is consistent with the fate of
   its request; in particular: Fill is only called for error-free requests, a frame is written to
   the wire only for a request that is error-free, filled and written successfully, and an error is
   logged only for a request that failed in one of the three ways (or comes from the receiver) *)
Theorem pipeline_typed cap n : reachable beh (init N cap reqs) n -> typed PL PV PE n.
Proof. apply typed_reachable; [apply pipeline_typed_beh|apply init_typed]. Qed.

(* ------------------------------------------------------------------ closed-and-drained chains *)
Definition needs (l : loc) : list nat :=
  match l with
  | WClose i | End (RWorker i) => [c_in]
  | End (RMux i) => [c_w i]
  | SCloseDone | SCloseErr | End RSender => [c_m N]
  | End (REMux j) => [e_in N j]
  | End RDrain => [c_eout N]
  | _ => []
  end.

Lemma pipeline_needs_beh : needs_beh beh needs.
Proof.
  intros l. destruct l as
    [rest| |i|i id|i id|i id|i|i|i v| | | |id|id| | | | | | |j|j v| | | |v|r v|r|srest]; simpl; try done.
  - destruct rest as [|[id b] r]; simpl; [done|]. intros g k Hin. alts Hin; simpl; done.
  - intros g k Hin. alts Hin; simpl; [done|]. split; [|set_solver].
    intros v. destruct v as [id b|id|id|id|]; simpl; try done. destruct b; done.
  - intros o. destruct (fill_ok id); done.
  - intros g k Hin. alts Hin; simpl; done.
  - intros g k Hin. alts Hin; simpl; done.
  - intros g k Hin. alts Hin; simpl; [done|]. split; [done|set_solver].
  - intros g k Hin. alts Hin; simpl; done.
  - intros g k Hin. alts Hin; simpl; [done|]. split; [|set_solver]. intros v. destruct v; done.
  - intros g k Hin. alts Hin; simpl; done.
  - intros o. destruct (write_ok id); done.
  - intros g k Hin. alts Hin; simpl; done.
  - intros o. destruct o as [|[|o]]; done.
  - intros g k Hin. alts Hin; simpl; done.
  - intros g k Hin. alts Hin; simpl; [done|]. split; [done|set_solver].
  - intros g k Hin. alts Hin; simpl; done.
  - intros g k Hin. alts Hin; simpl. split; [done|set_solver].
  - intros g k Hin. apply elem_of_nil in Hin. destruct Hin.
  - intros g k Hin. apply elem_of_nil in Hin. destruct Hin.
Qed.

Definition has_closed (l : loc) (c : nat) : Prop :=
  match l with
  | End RSrc => c = c_in
  | End (RWorker i) => c = c_w i
  | End RCloser => c = c_m N
  | SCloseErr => c = c_done N
  | End RSender => c = c_done N \/ c = c_serr N
  | End RReceiver => c = c_rerr N
  | End RECloser => c = c_eout N
  | _ => False
  end.

Lemma pipeline_closers_beh : closers_beh beh has_closed.
Proof.
  intros l. destruct l as
    [rest| |i|i id|i id|i id|i|i|i v| | | |id|id| | | | | | |j|j v| | | |v|r v|r|srest]; simpl; try done.
  all: try (destruct rest as [|[id b] r]; simpl; try done).
  all: split; [first [reflexivity|left; reflexivity|right; reflexivity]|intros c' Hc'; try done; subst; auto].
Qed.

Lemma pipeline_did_beh : did_beh beh has_closed.
Proof.
  intros l. destruct l as
    [rest| |i|i id|i id|i id|i|i|i v| | | |id|id| | | | | | |j|j v| | | |v|r v|r|srest]; simpl; try done.
  - destruct rest as [|[id b] r]; simpl; [intros c' ->; left; reflexivity|].
    intros g k r0 c Hin. alts Hin; simpl; done.
  - intros c' ->. left. reflexivity.
  - intros g k r0 c Hin. alts Hin; simpl; try done. destruct r0 as [v| | | |]; simpl; try done.
    destruct v as [id b|id|id|id|]; simpl; try done. destruct b; done.
  - intros o c. destruct (fill_ok id); done.
  - intros g k r0 c Hin. alts Hin; simpl; done.
  - intros g k r0 c Hin. alts Hin; simpl; done.
  - intros c' ->. left. reflexivity.
  - intros g k r0 c Hin. alts Hin; simpl; try done. destruct r0; done.
  - intros g k r0 c Hin. alts Hin; simpl; done.
  - intros c' ->. left. reflexivity.
  - intros g k r0 c Hin. alts Hin; simpl; try done. destruct r0 as [v| | | |]; simpl; try done. destruct v; done.
  - intros g k r0 c Hin. alts Hin; simpl; done.
  - intros o c. destruct (write_ok id); done.
  - intros c' ->. left. reflexivity.
  - intros c' [->| ->]; [right; reflexivity|left; reflexivity].
  - intros g k r0 c Hin. alts Hin; simpl; done.
  - intros o c. destruct o as [|[|o]]; done.
  - intros g k r0 c Hin. alts Hin; simpl; done.
  - intros c' ->. left. reflexivity.
  - intros g k r0 c Hin. alts Hin; simpl; try done. destruct r0; done.
  - intros g k r0 c Hin. alts Hin; simpl; done.
  - intros c' ->. left. reflexivity.
  - intros g k r0 c Hin. alts Hin; simpl. destruct r0; done.
  - intros g k r0 c Hin. apply elem_of_nil in Hin. destruct Hin.
  - intros g k r0 c Hin. apply elem_of_nil in Hin. destruct Hin.
Qed.

Lemma init_did cap : did_ok has_closed (init N cap reqs).
Proof.
  intros j l c Hj Hd. exfalso. simpl in Hj. unfold init_procs in Hj. apply elem_of_list_lookup_2 in Hj.
  rewrite !elem_of_app in Hj. destruct Hj as [H|[H|[H|H]]].
  - apply elem_of_list_singleton in H. subst. done.
  - apply elem_of_list_fmap in H. destruct H as (? & -> & _). done.
  - apply elem_of_list_fmap in H. destruct H as (? & -> & _). done.
  - repeat (apply elem_of_cons in H; destruct H as [->|H]; [done|]). set_solver.
Qed.

Lemma init_needs cap : needs_ok needs (init N cap reqs).
Proof.
  intros _ j l c Hj Hc. exfalso. simpl in Hj. unfold init_procs in Hj. apply elem_of_list_lookup_2 in Hj.
  rewrite !elem_of_app in Hj. destruct Hj as [H|[H|[H|H]]].
  - apply elem_of_list_singleton in H. subst. simpl in Hc. set_solver.
  - apply elem_of_list_fmap in H. destruct H as (? & -> & _). simpl in Hc. set_solver.
  - apply elem_of_list_fmap in H. destruct H as (? & -> & _). simpl in Hc. set_solver.
  - repeat (apply elem_of_cons in H; destruct H as [->|H]; [simpl in Hc; set_solver|]). set_solver.
Qed.

Lemma init_closers cap : closers_ok has_closed (init N cap reqs).
Proof.
  intros c ch Hc Hcl. exfalso. simpl in Hc. unfold init_chans in Hc. apply elem_of_list_lookup_2 in Hc.
  rewrite !elem_of_app in Hc. destruct Hc as [H|[H|H]].
  - apply elem_of_list_singleton in H. subst. discriminate.
  - apply elem_of_list_fmap in H. destruct H as (? & -> & _). discriminate.
  - repeat (apply elem_of_cons in H; destruct H as [->|H]; [discriminate|]). set_solver.
Qed.

Definition chan_closed (n : net val loc ev) (c : nat) : Prop :=
  exists ch, chans n !! c = Some ch /\ cclosed ch = true.

Lemma closed_empty_closed n c : closed_empty n c -> chan_closed n c.
Proof. intros (ch & H1 & H2 & _). exists ch. auto. Qed.

(* the upstream part of the network: everything before the error streams *)
Definition upstream (r : role) : Prop :=
  match r with RSrc | RWorker _ | RMux _ | RCloser | RSender => True | _ => False end.

(* Completion is signalled only after the last frame has been handed to the wire: if [done] is
   closed and the context has not been cancelled, then the source, every worker, every multiplexer
   and the sender hold nothing, and the request channel, every worker channel and the merged
   channel are closed and empty. *)
Theorem pipeline_done_quiet cap n :
  0 < N -> reachable beh (init N cap reqs) n -> cancelled n = false -> chan_closed n (c_done N) ->
  (forall j l, procs n !! j = Some l -> upstream (role_of l) -> weight l = ∅) /\
  closed_empty n c_in /\ (forall i, i < N -> closed_empty n (c_w i)) /\ closed_empty n (c_m N).
Proof.
  intros HN Hr Hcan (chd & Hchd & Hcld).
  pose proof (pipeline_safe N fill_ok write_ok cap reqs n Hr) as (Hroles & Hfin & _ & _).
  pose proof (needs_reachable beh needs _ n pipeline_needs_beh (init_needs cap) Hr Hcan) as Hneeds.
  pose proof (closers_reachable beh has_closed _ n pipeline_closers_beh (init_closers cap) Hr) as Hclosers.
  pose proof (pipeline_typed cap n Hr) as [[HPL _] _].
  assert (Hrole_at : forall j l, procs n !! j = Some l -> layout N !! j = Some (role_of l)).
  { intros j l Hj. rewrite <- Hroles. unfold roles_of. rewrite list_lookup_fmap, Hj. done. }
  (* sender *)
  destruct (Hclosers _ _ Hchd Hcld) as (js & ls & Hjs & Hhs).
  assert (Hls : ls = SCloseErr \/ ls = End RSender).
  { pose proof (Hrole_at _ _ Hjs) as Hrl.
    destruct ls; simpl in Hhs; try done; try (destruct r; try done); auto;
      try (apply layout_worker_lt in Hrl); try (match type of Hhs with _ \/ _ => destruct Hhs end); exfalso; chan_lia. }
  assert (Hcm : closed_empty n (c_m N)).
  { apply (Hneeds js ls); [assumption|]. destruct Hls as [-> | ->]; simpl; set_solver. }
  (* closer, multiplexers *)
  destruct Hcm as (chm & Hchm & Hclm & Hbufm).
  destruct (Hclosers _ _ Hchm Hclm) as (jc & lc & Hjc & Hhc).
  assert (lc = End RCloser) as ->.
  { pose proof (Hrole_at _ _ Hjc) as Hrl.
    destruct lc; simpl in Hhc; try done; try (destruct r; try done); try reflexivity;
      try (apply layout_worker_lt in Hrl); try (match type of Hhc with _ \/ _ => destruct Hhc end); exfalso; chan_lia. }
  assert (Hmux : forall k, k < N -> procs n !! p_m N k = Some (End (RMux k))).
  { intros k Hk. destruct (Hfin jc (End RCloser) (p_m N k) Hjc) as (lm & Hlm & Hend).
    { simpl. unfold mux_ids. apply elem_of_list_fmap. exists k. split; [reflexivity|apply elem_of_seq; lia]. }
    rewrite Hlm. f_equal. pose proof (Hrole_at _ _ Hlm) as Hrl. rewrite (layout_mux N k Hk) in Hrl. injection Hrl as Hrl.
    unfold ended in Hend. apply ended_is_End in Hend. destruct Hend as [r ->]. simpl in Hrl. congruence. }
  assert (Hcw : forall k, k < N -> closed_empty n (c_w k)).
  { intros k Hk. apply (Hneeds (p_m N k) (End (RMux k))); [apply Hmux; assumption|simpl; set_solver]. }
  (* workers *)
  assert (Hworker : forall k, k < N -> exists jw, procs n !! jw = Some (End (RWorker k))).
  { intros k Hk. destruct (Hcw k Hk) as (chw & Hchw & Hclw & _).
    destruct (Hclosers _ _ Hchw Hclw) as (jw & lw & Hjw & Hhw). exists jw. rewrite Hjw. f_equal.
    pose proof (Hrole_at _ _ Hjw) as Hrl.
    destruct lw; simpl in Hhw; try done; try (destruct r; try done);
      try (match type of Hhw with _ \/ _ => destruct Hhw end);
      first [ exfalso; chan_lia | apply layout_worker_lt in Hrl; f_equal; f_equal; chan_lia ]. }
  (* source *)
  assert (Hcin : closed_empty n c_in).
  { destruct (Hworker 0 HN) as (jw & Hjw). apply (Hneeds jw (End (RWorker 0))); [assumption|simpl; set_solver]. }
  destruct Hcin as (chi & Hchi & Hcli & Hbufi).
  destruct (Hclosers _ _ Hchi Hcli) as (jsrc & lsrc & Hjsrc & Hhsrc).
  assert (lsrc = End RSrc) as ->.
  { pose proof (Hrole_at _ _ Hjsrc) as Hrl.
    destruct lsrc; simpl in Hhsrc; try done; try (destruct r; try done); try reflexivity;
      try (match type of Hhsrc with _ \/ _ => destruct Hhsrc end);
      try (apply layout_worker_lt in Hrl); exfalso; chan_lia. }
  split; [|split; [exists chi; auto|split; [assumption|exists chm; auto]]].
  (* nobody upstream holds a token *)
  intros j l Hj Hup.
  assert (Hsame : forall j' l', procs n !! j' = Some l' -> role_of l' = role_of l -> l = l').
  { intros j' l' Hj' Heq. assert (j' = j) by (eapply (same_role_same_index N); eauto). subst. congruence. }
  destruct (role_of l) eqn:Erole; simpl in Hup; try done.
  - rewrite (Hsame _ _ Hjsrc eq_refl). reflexivity.
  - assert (Hi : i < N) by (apply (layout_worker_lt N j); rewrite <- Erole; apply Hrole_at; assumption).
    destruct (Hworker i Hi) as (jw & Hjw). rewrite (Hsame _ _ Hjw eq_refl). reflexivity.
  - assert (Hi : i < N).
    { pose proof (Hrole_at _ _ Hj) as Hrl. rewrite Erole in Hrl. apply layout_mux_inv in Hrl. tauto. }
    rewrite (Hsame _ _ (Hmux i Hi) eq_refl). reflexivity.
  - rewrite (Hsame _ _ Hjc eq_refl). reflexivity.
  - rewrite (Hsame _ _ Hjs ltac:(destruct Hls as [-> | ->]; reflexivity)). destruct Hls as [-> | ->]; reflexivity.
Qed.

(* ------------------------------------------------------------------ exactly-once, by fate *)
Definition wire_tok (e : ev) : gmultiset nat := match e with EWire id => {[+ id +]} | _ => ∅ end.
Definition err_tok (e : ev) : gmultiset nat := match e with EErrOut v => tok_val v | _ => ∅ end.
Definition wire_of (n : net val loc ev) : gmultiset nat := msum wire_tok (log n).
Definition errs_of (n : net val loc ev) : gmultiset nat := msum err_tok (log n).

Lemma msum_split (l : list ev) : msum tok_ev l = msum wire_tok l ⊎ msum err_tok l.
Proof.
  induction l as [|e l IH]; simpl; [multiset_solver|]. rewrite IH.
  destruct e; simpl; multiset_solver.
Qed.

Lemma msum_mult0 {A} (f : A -> gmultiset nat) (l : list A) id :
  (forall a, a ∈ l -> multiplicity id (f a) = 0) -> multiplicity id (msum f l) = 0.
Proof.
  induction l as [|a l IH]; simpl; intros Hf; [apply multiplicity_empty|].
  rewrite multiplicity_disj_union. rewrite (Hf a) by (left). rewrite IH; [reflexivity|].
  intros b Hb. apply Hf. right. assumption.
Qed.

Lemma msum_mult_pos {A} (f : A -> gmultiset nat) (l : list A) id :
  multiplicity id (msum f l) <> 0 -> exists a, a ∈ l /\ multiplicity id (f a) <> 0.
Proof.
  induction l as [|a l IH]; simpl; intros Hm; [rewrite multiplicity_empty in Hm; done|].
  rewrite multiplicity_disj_union in Hm.
  destruct (decide (multiplicity id (f a) = 0)) as [E|E].
  - destruct IH as (b & Hb & Hmb); [lia|]. exists b. split; [right; assumption|assumption].
  - exists a. split; [left|assumption].
Qed.

Hypothesis Hnodup : NoDup (fst <$> reqs).

Lemma has_unique id b b' : has id b -> has id b' -> b = b'.
Proof.
  unfold has. intros H1 H2.
  apply elem_of_list_lookup in H1. destruct H1 as (i1 & H1).
  apply elem_of_list_lookup in H2. destruct H2 as (i2 & H2).
  assert (i1 = i2).
  { eapply NoDup_lookup; [exact Hnodup| |]; rewrite list_lookup_fmap; [rewrite H1|rewrite H2]; reflexivity. }
  subst. congruence.
Qed.

Lemma wire_not_err id : wirefate id -> errfate id -> False.
Proof.
  intros (Hh & Hf & Hw) [[He|(_ & He)]|(_ & _ & He)].
  - pose proof (has_unique _ _ _ Hh He). discriminate.
  - congruence.
  - congruence.
Qed.

Lemma ids_mult id b : has id b -> multiplicity id (ids_of reqs) = 1.
Proof.
  intros Hh. unfold ids_of.
  assert (G : forall l : list nat, NoDup l -> id ∈ l -> multiplicity id (list_to_set_disj l : gmultiset nat) = 1).
  { induction l as [|x l IH]; intros Hnd Hin; [set_solver|].
    apply NoDup_cons in Hnd. destruct Hnd as [Hx Hnd]. simpl. rewrite multiplicity_disj_union.
    apply elem_of_cons in Hin. destruct Hin as [->|Hin].
    - rewrite multiplicity_singleton.
      assert (multiplicity x (list_to_set_disj l : gmultiset nat) = 0); [|lia].
      destruct (multiplicity x (list_to_set_disj l : gmultiset nat)) eqn:Em; [reflexivity|]. exfalso. apply Hx.
      apply elem_of_list_to_set_disj. apply elem_of_multiplicity. lia.
    - rewrite multiplicity_singleton_ne by (intros ->; contradiction). rewrite IH by assumption. reflexivity. }
  apply G; [assumption|]. apply elem_of_list_fmap. exists (id, b). split; [reflexivity|assumption].
Qed.

Lemma errv_mult0 id v : wirefate id -> is_errv v -> multiplicity id (tok_val v) = 0.
Proof.
  intros Hw [->|(id' & -> & He)]; simpl; [apply multiplicity_empty|].
  destruct (decide (id = id')) as [->|Hne]; [exfalso; eapply wire_not_err; eauto|].
  apply multiplicity_singleton_ne. assumption.
Qed.

(* When [done] is closed (and the scan was not cancelled), every request that is error-free,
   fills and writes successfully has had its frame handed to the wire exactly once. *)
Theorem pipeline_done_after_last_write cap n id :
  0 < N -> reachable beh (init N cap reqs) n -> cancelled n = false -> chan_closed n (c_done N) ->
  wirefate id -> multiplicity id (wire_of n) = 1.
Proof.
  intros HN Hr Hcan Hdone Hw.
  destruct (pipeline_done_quiet cap n HN Hr Hcan Hdone) as (Hup & Hcin & Hcw & Hcm).
  pose proof (pipeline_conservation N fill_ok write_ok cap reqs n Hr Hcan) as Hcons.
  pose proof (pipeline_typed cap n Hr) as [[HPL HPE] HPV].
  assert (Hone : multiplicity id (ids_of reqs) = 1) by (destruct Hw as (Hh & _); eapply ids_mult; eauto).
  rewrite <- Hcons in Hone. unfold potential in Hone. rewrite !multiplicity_disj_union in Hone.
  rewrite msum_split, multiplicity_disj_union in Hone.
  (* goroutines hold no token of id *)
  rewrite (msum_mult0 weight (procs n) id) in Hone.
  2:{ intros l Hl. apply elem_of_list_lookup in Hl. destruct Hl as (j & Hj).
      assert (Hpl : PL l) by (eapply Forall_lookup_1; eauto).
      assert (Hdec : upstream (role_of l) \/ ~ upstream (role_of l)) by (destruct (role_of l); simpl; tauto).
      destruct Hdec as [Hu|Hnu]; [rewrite (Hup j l Hj Hu); apply multiplicity_empty|].
      destruct l; simpl in Hnu, Hpl |- *; try (exfalso; apply Hnu; exact I); try apply multiplicity_empty;
        try (apply errv_mult0; assumption); try done.
      all: try (destruct r; simpl in Hnu; try (exfalso; apply Hnu; exact I); done). }
  (* channel buffers hold no token of id *)
  rewrite (msum_mult0 (bufW tok_val) (chans n) id) in Hone.
  2:{ intros ch Hch. apply elem_of_list_lookup in Hch. destruct Hch as (c & Hc).
      unfold bufW. apply msum_mult0. intros v Hv.
      pose proof (HPV c ch Hc) as Hall. rewrite Forall_forall in Hall. specialize (Hall v Hv).
      destruct Hall as [[E1 _]|[[[(i & Hi & E1)|E1] _]|[[E1 Hve]|[[E1 E2]|[E1 Hve]]]]]; subst c; try subst v.
      - destruct Hcin as (ch' & Hc' & _ & Hb). rewrite Hc in Hc'. injection Hc' as <-. rewrite Hb in Hv. set_solver.
      - destruct (Hcw i Hi) as (ch' & Hc' & _ & Hb). rewrite Hc in Hc'. injection Hc' as <-. rewrite Hb in Hv. set_solver.
      - destruct Hcm as (ch' & Hc' & _ & Hb). rewrite Hc in Hc'. injection Hc' as <-. rewrite Hb in Hv. set_solver.
      - apply errv_mult0; [assumption|right; assumption].
      - apply multiplicity_empty.
      - apply errv_mult0; assumption. }
  (* logged errors are not about id *)
  rewrite (msum_mult0 err_tok (log n) id) in Hone.
  2:{ intros e He. rewrite Forall_forall in HPE. specialize (HPE e He).
      destruct e; simpl in *; try apply multiplicity_empty. apply errv_mult0; assumption. }
  unfold wire_of. lia.
Qed.

(* terminal state (nobody holds anything, all buffers empty, not cancelled): the wire got exactly the
   frames of the requests with wire fate, once each, and every other request yielded exactly one
   error record; nothing else was written or reported about a request *)
Definition quiescent (n : net val loc ev) : Prop :=
  (forall l, l ∈ procs n -> weight l = ∅) /\ (forall ch, ch ∈ chans n -> cbuf ch = []).

Theorem pipeline_terminal cap n id b :
  reachable beh (init N cap reqs) n -> cancelled n = false -> quiescent n -> has id b ->
  (wirefate id -> multiplicity id (wire_of n) = 1 /\ multiplicity id (errs_of n) = 0) /\
  (~ wirefate id -> multiplicity id (wire_of n) = 0 /\ multiplicity id (errs_of n) = 1).
Proof.
  intros Hr Hcan [Hq1 Hq2] Hh.
  pose proof (pipeline_conservation N fill_ok write_ok cap reqs n Hr Hcan) as Hcons.
  pose proof (pipeline_typed cap n Hr) as [[_ HPE] _].
  assert (Hone : multiplicity id (ids_of reqs) = 1) by (eapply ids_mult; eauto).
  rewrite <- Hcons in Hone. unfold potential in Hone. rewrite !multiplicity_disj_union in Hone.
  rewrite msum_split, multiplicity_disj_union in Hone.
  rewrite (msum_mult0 weight (procs n) id) in Hone by (intros l Hl; rewrite (Hq1 l Hl); apply multiplicity_empty).
  rewrite (msum_mult0 (bufW tok_val) (chans n) id) in Hone
    by (intros ch Hch; unfold bufW; rewrite (Hq2 ch Hch); apply multiplicity_empty).
  fold (wire_of n) (errs_of n) in Hone. rewrite Forall_forall in HPE.
  split.
  - intros Hw. assert (multiplicity id (errs_of n) = 0); [|lia].
    apply msum_mult0. intros e He. specialize (HPE e He).
    destruct e; simpl in *; try apply multiplicity_empty. apply errv_mult0; assumption.
  - intros Hnw. assert (multiplicity id (wire_of n) = 0); [|lia].
    apply msum_mult0. intros e He. specialize (HPE e He).
    destruct e as [id'|id'|id'|v]; simpl in *; try apply multiplicity_empty.
    destruct (decide (id = id')) as [->|Hne]; [contradiction|]. apply multiplicity_singleton_ne. assumption.
Qed.

End order.
