(* Lemmas about Model/Process.v for C06: for every validity test that (a) accepts only the exact
   header chain of the scanned protocol and (b) looks only at structs of decoded layers, processing
   never crashes, never runs out of fuel, a record implies the frame's own header chain and is a
   function of the frame alone, and outcomes do not depend on the decoder state. *)
From Coq Require Import ZArith List Bool Lia.
From SX Require Import Base.Bytes Model.Decode Model.Process Spec.C06 Proofs.DecodeProofs.
Import ListNotations.
Open Scope Z_scope.

(* ------------------------------------------------------------------ what is required of validPacket *)
Definition valid_sound (k : kind) (valid : validity) : Prop :=
  forall dec st, valid dec st = true ->
    match k with
    | KArp => dec = [LEth; LARP] /\ ar_hw (s_arp st) = 6 /\ ar_pr (s_arp st) = 4
    | _ => dec = [LEth; LIPv4; transport k] \/ dec = [LIPv4; transport k]
    end.

Definition valid_respects (valid : validity) : Prop :=
  forall dec a b, agree_on dec a b -> valid dec a = valid dec b.

Lemma ltypes_eqb_eq a : forall b, ltypes_eqb a b = true -> a = b.
Proof.
  induction a as [|x a IH]; intros [|y b] H; cbn in H; try discriminate; [reflexivity|].
  apply andb_true_iff in H. destruct H as [H1 H2]. apply IH in H2. subst.
  destruct x, y; cbn in H1; try discriminate; reflexivity.
Qed.

Lemma valid_fixed_sound k : valid_sound k (valid_fixed k).
Proof.
  intros dec st H. destruct k; cbn in H |- *.
  - apply orb_true_iff in H. destruct H as [H|H]; apply ltypes_eqb_eq in H; auto.
  - apply orb_true_iff in H. destruct H as [H|H]; apply ltypes_eqb_eq in H; auto.
  - repeat (apply andb_true_iff in H; destruct H as [H ?]).
    apply ltypes_eqb_eq in H. repeat split; try assumption; apply Z.eqb_eq; assumption.
Qed.

Lemma valid_fixed_respects k : valid_respects (valid_fixed k).
Proof.
  intros dec a b Hag. destruct k; cbn; try reflexivity.
  destruct (ltypes_eqb dec [LEth; LARP]) eqn:E; [|reflexivity].
  apply ltypes_eqb_eq in E. subst dec.
  assert (H : s_arp a = s_arp b) by (apply (Hag LARP); cbn; auto).
  rewrite H. reflexivity.
Qed.

(* ------------------------------------------------------------------ shape facts *)
Lemma has_dec_other k : has_dec k LOther = false.
Proof. destruct k; reflexivity. Qed.

Lemma first_layer_not_other k vpn : first_layer k vpn <> LOther.
Proof. destruct k; cbn; try destruct vpn; discriminate. Qed.

(* one step of the loop against a known decoded list *)
Lemma loop_step has fuel t st d acc st' x rest :
  decode_loop has fuel t st d acc = (st', acc ++ x :: rest, None) ->
  x = t /\ exists st1 next pl, decode_layer t st d = DOk st1 next pl /\
    ((rest = [] /\ st' = st1 /\ (pl = [] \/ has next = false)) \/
     (pl <> [] /\ has next = true /\ exists fuel0,
        decode_loop has fuel0 next st1 pl (acc ++ [t]) = (st', (acc ++ [t]) ++ rest, None))).
Proof.
  intros H. pose proof (decode_loop_prefix _ _ _ _ _ _ _ _ H) as [r0 Hr0].
  apply app_inv_head in Hr0. injection Hr0 as -> ->.
  split; [reflexivity|].
  apply decode_loop_ok in H. destruct H as [st1 [next [pl [Hd Hc]]]].
  exists st1, next, pl. split; [exact Hd|].
  destruct Hc as [[Hstop [-> Hdec]]|[Hpl [Hn [fuel0 Hrec]]]].
  - left. replace (acc ++ [t]) with (acc ++ t :: []) in Hdec by reflexivity.
    apply app_inv_head in Hdec. injection Hdec as ->. split; [reflexivity|split; [reflexivity|exact Hstop]].
  - right. split; [exact Hpl|split; [exact Hn|]]. exists fuel0.
    rewrite <- app_assoc. exact Hrec.
Qed.

(* exactly two layers were decoded *)
Lemma chain2 has t0 st f st' a b :
  decode_layers has t0 st f = (st', [a; b], None) ->
  t0 = a /\ exists st1 p1 n2 p2,
    decode_layer a st f = DOk st1 b p1 /\ decode_layer b st1 p1 = DOk st' n2 p2.
Proof.
  unfold decode_layers. intros H.
  apply (loop_step has _ t0 st f [] st' a [b]) in H. destruct H as [Ha [st1 [n1 [p1 [Hd1 Hc]]]]]. subst t0.
  split; [reflexivity|].
  destruct Hc as [[Hr _]|[_ [_ [fuel0 H2]]]]; [discriminate|].
  apply (loop_step has _ n1 st1 p1 [a] st' b []) in H2. destruct H2 as [Hb [st2 [n2 [p2 [Hd2 Hc2]]]]]. subst n1.
  destruct Hc2 as [[_ [-> _]]|[_ [_ [fuel1 H3]]]].
  - exists st1, p1, n2, p2. split; assumption.
  - apply decode_loop_prefix in H3. destruct H3 as [r Hr].
    change (([a] ++ [b]) ++ []) with ([a; b] ++ []) in Hr. apply app_inv_head in Hr. discriminate.
Qed.

(* exactly three layers were decoded *)
Lemma chain3 has t0 st f st' a b c :
  decode_layers has t0 st f = (st', [a; b; c], None) ->
  t0 = a /\ exists st1 p1 st2 p2 n3 p3,
    decode_layer a st f = DOk st1 b p1 /\ decode_layer b st1 p1 = DOk st2 c p2 /\
    decode_layer c st2 p2 = DOk st' n3 p3.
Proof.
  unfold decode_layers. intros H.
  apply (loop_step has _ t0 st f [] st' a [b; c]) in H. destruct H as [Ha [st1 [n1 [p1 [Hd1 Hc]]]]]. subst t0.
  split; [reflexivity|].
  destruct Hc as [[Hr _]|[_ [_ [fuel0 H2]]]]; [discriminate|].
  apply (loop_step has _ n1 st1 p1 [a] st' b [c]) in H2. destruct H2 as [Hb [st2 [n2 [p2 [Hd2 Hc2]]]]]. subst n1.
  destruct Hc2 as [[Hr _]|[_ [_ [fuel1 H3]]]]; [discriminate|].
  apply (loop_step has _ n2 st2 p2 [a; b] st' c []) in H3. destruct H3 as [Hc' [st3 [n3 [p3 [Hd3 Hc3]]]]]. subst n2.
  destruct Hc3 as [[_ [-> _]]|[_ [_ [fuel2 H4]]]].
  - exists st1, p1, st2, p2, n3, p3. repeat split; assumption.
  - apply decode_loop_prefix in H4. destruct H4 as [r Hr].
    change (([a; b] ++ [c]) ++ []) with ([a; b; c] ++ []) in Hr. apply app_inv_head in Hr. discriminate.
Qed.

(* ------------------------------------------------------------------ what a successful decode means *)
Lemma eth_next_ip et : eth_next et = LIPv4 -> et = 2048.
Proof.
  unfold eth_next. destruct (Z.eqb_spec et 2048); [auto|].
  destruct (et =? 2054); [discriminate|]. destruct (et =? 25944); discriminate.
Qed.

Lemma eth_next_arp et : eth_next et = LARP -> et = 2054.
Proof.
  unfold eth_next. destruct (et =? 2048); [discriminate|].
  destruct (Z.eqb_spec et 2054); [auto|]. destruct (et =? 25944); discriminate.
Qed.

Lemma eth_ok st f st1 nx p1 :
  decode_eth st f = DOk st1 nx p1 -> nx <> LOther ->
  st1 = st /\ p1 = drop 14 f /\ 14 <= Zlength f /\ eth_next (be16 (byte_at 12 f) (byte_at 13 f)) = nx.
Proof.
  unfold decode_eth. destruct (Z.ltb_spec (Zlength f) 14); [discriminate|].
  destruct (_ <? 1536).
  - intros HH Hn. injection HH as _ <- _. congruence.
  - intros HH _. injection HH as <- <- <-. repeat split; try reflexivity. assumption.
Qed.

Lemma ip_next_tcp ff pr : ip_next ff pr = LTCP ->
  ((ff / 8192) mod 2 =? 0) && (ff mod 8192 =? 0) = true /\ pr = 6.
Proof.
  unfold ip_next. destruct ((ff / 8192) mod 2 =? 0), (ff mod 8192 =? 0); cbn; try discriminate.
  destruct (Z.eqb_spec pr 6); [auto|]. destruct (pr =? 1); [discriminate|].
  destruct (_ || _); discriminate.
Qed.

Lemma ip_next_icmp ff pr : ip_next ff pr = LICMP ->
  ((ff / 8192) mod 2 =? 0) && (ff mod 8192 =? 0) = true /\ pr = 1.
Proof.
  unfold ip_next. destruct ((ff / 8192) mod 2 =? 0), (ff mod 8192 =? 0); cbn; try discriminate.
  destruct (pr =? 6); [discriminate|]. destruct (Z.eqb_spec pr 1); [auto|].
  destruct (_ || _); discriminate.
Qed.

Lemma ip_ok st p st2 nx p2 :
  decode_ip st p = DOk st2 nx p2 ->
  st2 = set_ip st {| ip_src := take 4 (drop 12 p); ip_ttl := byte_at 8 p |} /\
  p2 = ip_body p /\ nx = ip_next (be16 (byte_at 6 p) (byte_at 7 p)) (byte_at 9 p) /\
  20 <= Zlength p /\ 5 <= ip_ihl p /\ ip_ihl p * 4 <= ip_total p /\ ip_ihl p * 4 <= Zlength p.
Proof.
  unfold decode_ip, ip_body, ip_total, ip_ihl.
  destruct (Z.ltb_spec (Zlength p) 20); [discriminate|].
  set (ihl := byte_at 0 p mod 16).
  set (tl := if be16 (byte_at 2 p) (byte_at 3 p) =? 0 then Zlength p mod 65536 else be16 (byte_at 2 p) (byte_at 3 p)).
  destruct (Z.ltb_spec tl 20); [discriminate|].
  destruct (Z.ltb_spec ihl 5); [discriminate|].
  destruct (Z.ltb_spec tl (ihl * 4)); [discriminate|].
  destruct (Z.ltb_spec (Zlength p) tl); destruct (Z.ltb_spec (Zlength p) (ihl * 4)); cbn [andb];
    try discriminate; (destruct (ip_opts _ _); [discriminate|]);
    intros HH; injection HH as <- <- <-; repeat split; try reflexivity; lia.
Qed.

Lemma tcp_ok st s st3 nx p3 :
  decode_tcp st s = DOk st3 nx p3 ->
  st3 = set_tcp st {| tcp_sport := be16 (byte_at 0 s) (byte_at 1 s);
                      tcp_flags := (byte_at 12 s mod 2) * 256 + byte_at 13 s |} /\
  tcp_header s = true.
Proof.
  unfold decode_tcp, tcp_header.
  destruct (Z.ltb_spec (Zlength s) 20); [discriminate|].
  set (off := (byte_at 12 s / 16) mod 16).
  destruct (Z.ltb_spec off 5); [discriminate|].
  destruct (Z.ltb_spec (Zlength s) (off * 4)); [discriminate|].
  destruct (tcp_opts _ _); [discriminate|].
  intros HH; injection HH as <- _ _. split; [reflexivity|].
  repeat (apply andb_true_iff; split); apply Z.leb_le; lia.
Qed.

Lemma icmp_ok st s st3 nx p3 :
  decode_icmp st s = DOk st3 nx p3 ->
  st3 = set_icmp st {| ic_type := byte_at 0 s; ic_code := byte_at 1 s |} /\ icmp_header s = true.
Proof.
  unfold decode_icmp, icmp_header. destruct (Z.ltb_spec (Zlength s) 8); [discriminate|].
  intros HH; injection HH as <- _ _. split; [reflexivity|]. apply Z.leb_le. lia.
Qed.

Lemma slice_some lo hi d r : slice lo hi d = Some r -> r = take (hi - lo) (drop lo d) /\ lo <= hi <= Zlength d.
Proof.
  unfold slice. destruct (Z.leb_spec lo hi); destruct (Z.leb_spec hi (Zlength d)); cbn [andb];
    try discriminate. intros HH; injection HH as <-. split; [reflexivity|lia].
Qed.

Lemma arp_ok st a st' nx pl :
  decode_arp st a = DOk st' nx pl ->
  let hw := byte_at 4 a in let pr := byte_at 5 a in
  ar_hw (s_arp st') = hw /\ ar_pr (s_arp st') = pr /\
  ar_sha_cap (s_arp st') = drop 8 a /\
  slice 8 (u8 (8 + hw)) a = Some (ar_sha (s_arp st')) /\
  slice (u8 (8 + hw)) (u8 (8 + hw + pr)) a = Some (ar_spa (s_arp st')) /\
  u8 (8 + 2 * hw + 2 * pr) <= Zlength a.
Proof.
  unfold decode_arp. destruct (Z.ltb_spec (Zlength a) 8); [discriminate|].
  destruct (Z.ltb_spec (Zlength a) (u8 (8 + 2 * byte_at 4 a + 2 * byte_at 5 a))); [discriminate|].
  destruct (slice 8 _ a) as [sha|] eqn:E1; [|discriminate].
  destruct (slice (u8 (8 + byte_at 4 a)) _ a) as [spa|] eqn:E2; [|discriminate].
  destruct (slice (u8 (8 + byte_at 4 a + byte_at 5 a)) _ a); [|discriminate].
  destruct (slice (u8 (8 + 2 * byte_at 4 a + byte_at 5 a)) _ a); [|discriminate].
  intros HH; injection HH as <- _ _. cbn. repeat split; try reflexivity; assumption.
Qed.

Lemma ipv4_header_intro proto p :
  20 <= Zlength p -> 5 <= ip_ihl p -> ip_ihl p * 4 <= ip_total p -> ip_ihl p * 4 <= Zlength p ->
  ip_unfragmented p = true -> byte_at 9 p = proto -> ipv4_header proto p = true.
Proof.
  intros H1 H2 H3 H4 H5 H6. unfold ipv4_header. rewrite H5.
  repeat (apply andb_true_iff; split); try reflexivity; try (apply Z.leb_le; assumption).
  apply Z.eqb_eq. assumption.
Qed.

Lemma eth_header_intro ty f :
  14 <= Zlength f -> be16 (byte_at 12 f) (byte_at 13 f) = ty -> eth_header ty f = true.
Proof.
  intros H1 H2. unfold eth_header. apply andb_true_iff. split; [apply Z.leb_le; assumption|].
  apply Z.eqb_eq. assumption.
Qed.

(* ------------------------------------------------------------------ the theorems, for any good validPacket *)
Section GoodValidity.
Variable k : kind.
Variable valid : validity.
Hypothesis Hs : valid_sound k valid.
Hypothesis Hr : valid_respects valid.

(* a record is emitted only for a frame that has the header chain, and it is that frame's record *)
Theorem process_record vpn st f st' r :
  process k vpn valid st f = (st', ORecord r) ->
  has_chain k vpn f = true /\ r = fields_of k vpn f.
Proof.
  unfold process.
  destruct (decode_layers (has_dec k) (first_layer k vpn) st f) as [[s' dec] [e|]] eqn:E; [discriminate|].
  destruct (valid dec s') eqn:V; cbn [negb]; [|discriminate].
  pose proof (Hs _ _ V) as Hv. clear V. destruct k as [sa af| |]; cbn [transport] in Hv.
  - (* tcp *)
    destruct Hv as [-> | ->].
    + apply chain3 in E. destruct E as [Hf [st1 [p1 [st2 [p2 [n3 [p3 [D1 [D2 D3]]]]]]]]].
      cbn [decode_layer] in D1, D2, D3.
      assert (vpn = false) by (destruct vpn; cbn in Hf; congruence). subst vpn.
      apply eth_ok in D1; [|discriminate]. destruct D1 as [-> [-> [Hlen Hnx]]]. apply eth_next_ip in Hnx.
      apply ip_ok in D2. destruct D2 as [-> [-> [Hn [H20 [Hihl [Htl Hhl]]]]]].
      symmetry in Hn. apply ip_next_tcp in Hn. destruct Hn as [Hfrag Hpr].
      apply tcp_ok in D3. destruct D3 as [-> Hth].
      cbn [s_tcp s_ip set_tcp set_ip tcp_flags tcp_sport ip_src].
      destruct (negb (sa _)); intros HH; [discriminate|]. injection HH as _ <-.
      split; [|reflexivity].
      unfold has_chain, l3. cbn [orb]. rewrite Hth.
      rewrite (eth_header_intro 2048 f Hlen Hnx).
      rewrite (ipv4_header_intro 6 (drop 14 f) H20 Hihl Htl Hhl Hfrag Hpr). reflexivity.
    + apply chain2 in E. destruct E as [Hf [st1 [p1 [n2 [p2 [D1 D2]]]]]].
      cbn [decode_layer] in D1, D2.
      assert (vpn = true) by (destruct vpn; cbn in Hf; congruence). subst vpn.
      apply ip_ok in D1. destruct D1 as [-> [-> [Hn [H20 [Hihl [Htl Hhl]]]]]].
      symmetry in Hn. apply ip_next_tcp in Hn. destruct Hn as [Hfrag Hpr].
      apply tcp_ok in D2. destruct D2 as [-> Hth].
      cbn [s_tcp s_ip set_tcp set_ip tcp_flags tcp_sport ip_src].
      destruct (negb (sa _)); intros HH; [discriminate|]. injection HH as _ <-.
      split; [|reflexivity].
      unfold has_chain, l3. cbn [orb]. rewrite Hth.
      rewrite (ipv4_header_intro 6 f H20 Hihl Htl Hhl Hfrag Hpr). reflexivity.
  - (* icmp *)
    destruct Hv as [-> | ->].
    + apply chain3 in E. destruct E as [Hf [st1 [p1 [st2 [p2 [n3 [p3 [D1 [D2 D3]]]]]]]]].
      cbn [decode_layer] in D1, D2, D3.
      assert (vpn = false) by (destruct vpn; cbn in Hf; congruence). subst vpn.
      apply eth_ok in D1; [|discriminate]. destruct D1 as [-> [-> [Hlen Hnx]]]. apply eth_next_ip in Hnx.
      apply ip_ok in D2. destruct D2 as [-> [-> [Hn [H20 [Hihl [Htl Hhl]]]]]].
      symmetry in Hn. apply ip_next_icmp in Hn. destruct Hn as [Hfrag Hpr].
      apply icmp_ok in D3. destruct D3 as [-> Hth].
      cbn [s_icmp s_ip set_icmp set_ip ic_type ic_code ip_src ip_ttl].
      intros HH. injection HH as _ <-.
      split; [|reflexivity].
      unfold has_chain, l3. cbn [orb]. rewrite Hth.
      rewrite (eth_header_intro 2048 f Hlen Hnx).
      rewrite (ipv4_header_intro 1 (drop 14 f) H20 Hihl Htl Hhl Hfrag Hpr). reflexivity.
    + apply chain2 in E. destruct E as [Hf [st1 [p1 [n2 [p2 [D1 D2]]]]]].
      cbn [decode_layer] in D1, D2.
      assert (vpn = true) by (destruct vpn; cbn in Hf; congruence). subst vpn.
      apply ip_ok in D1. destruct D1 as [-> [-> [Hn [H20 [Hihl [Htl Hhl]]]]]].
      symmetry in Hn. apply ip_next_icmp in Hn. destruct Hn as [Hfrag Hpr].
      apply icmp_ok in D2. destruct D2 as [-> Hth].
      cbn [s_icmp s_ip set_icmp set_ip ic_type ic_code ip_src ip_ttl].
      intros HH. injection HH as _ <-.
      split; [|reflexivity].
      unfold has_chain, l3. cbn [orb]. rewrite Hth.
      rewrite (ipv4_header_intro 1 f H20 Hihl Htl Hhl Hfrag Hpr). reflexivity.
  - (* arp *)
    destruct Hv as [-> [Hhw Hpr]].
    apply chain2 in E. destruct E as [_ [st1 [p1 [n2 [p2 [D1 D2]]]]]].
    cbn [decode_layer] in D1, D2.
    apply eth_ok in D1; [|discriminate]. destruct D1 as [-> [-> [Hlen Hnx]]]. apply eth_next_arp in Hnx.
    apply arp_ok in D2. cbn zeta in D2. destruct D2 as [A1 [A2 [A3 [A4 [A5 A6]]]]].
    rewrite A1 in Hhw. rewrite A2 in Hpr. rewrite Hhw in A4, A5, A6. rewrite Hpr in A5, A6.
    change (u8 (8 + 6)) with 14 in *. change (u8 (8 + 6 + 4)) with 18 in *.
    change (u8 (8 + 2 * 6 + 2 * 4)) with 28 in *.
    apply slice_some in A4. destruct A4 as [A4 _]. apply slice_some in A5. destruct A5 as [A5 _].
    rewrite A3, A4, A5.
    destruct (_ <? 3); intros HH; [discriminate|]. injection HH as _ <-.
    split; [|reflexivity].
    unfold has_chain, arp_6_4. rewrite (eth_header_intro 2054 f Hlen Hnx), Hhw, Hpr.
    cbn [andb Z.eqb Pos.eqb]. rewrite !andb_true_r. apply Z.leb_le. exact A6.
Qed.

(* processing never panics outside gopacket's recover *)
Theorem process_no_crash vpn st f : snd (process k vpn valid st f) <> OCrash.
Proof.
  unfold process.
  destruct (decode_layers (has_dec k) (first_layer k vpn) st f) as [[s' dec] [e|]] eqn:E; [discriminate|].
  destruct (valid dec s') eqn:V; cbn [negb]; [|discriminate].
  pose proof (Hs _ _ V) as Hv. clear V. destruct k as [sa af| |].
  - destruct (negb (sa _)); discriminate.
  - discriminate.
  - destruct Hv as [-> [Hhw Hpr]].
    apply chain2 in E. destruct E as [_ [st1 [p1 [n2 [p2 [D1 D2]]]]]].
    cbn [decode_layer] in D2. apply arp_ok in D2. cbn zeta in D2.
    destruct D2 as [A1 [A2 [A3 [_ [_ A6]]]]].
    rewrite A1 in Hhw. rewrite A2 in Hpr. rewrite Hhw, Hpr in A6.
    change (u8 (8 + 2 * 6 + 2 * 4)) with 28 in A6.
    rewrite A3. destruct (Z.ltb_spec (Zlength (drop 8 p1)) 3) as [Hlt|_]; [|discriminate].
    rewrite Zlength_drop in Hlt. lia.
Qed.

(* the model's fuel always suffices: every call terminates with a genuine outcome *)
Theorem process_no_fuel vpn st f : snd (process k vpn valid st f) <> OError EFuel.
Proof.
  unfold process.
  pose proof (decode_layers_fuel (has_dec k) (first_layer k vpn) st f (has_dec_other k)
                (first_layer_not_other k vpn)) as Hf.
  destruct (decode_layers (has_dec k) (first_layer k vpn) st f) as [[s' dec] [e|]].
  - cbn in *. congruence.
  - destruct (valid dec s'); cbn [negb]; [|discriminate].
    destruct k as [sa af| |]; [destruct (negb (sa _)); discriminate|discriminate|].
    destruct (_ <? 3); discriminate.
Qed.

(* the outcome does not depend on what earlier frames left in the decoder structs *)
Theorem process_indep vpn st1 st2 f :
  snd (process k vpn valid st1 f) = snd (process k vpn valid st2 f).
Proof.
  unfold process, decode_layers.
  assert (H0 : agree_on [] st1 st2) by (intros t []).
  pose proof (decode_loop_indep (has_dec k) (S (length f)) (first_layer k vpn) st1 st2 f [] H0) as Hi.
  destruct (decode_loop (has_dec k) (S (length f)) (first_layer k vpn) st1 f []) as [[a dec1] e1].
  destruct (decode_loop (has_dec k) (S (length f)) (first_layer k vpn) st2 f []) as [[b dec2] e2].
  cbn [fst snd] in Hi. destruct Hi as [<- [<- Hag]].
  destruct e1 as [e|]; [reflexivity|]. specialize (Hag eq_refl).
  rewrite <- (Hr _ _ _ Hag). destruct (valid dec1 a) eqn:V; cbn [negb]; [|reflexivity].
  pose proof (Hs _ _ V) as Hv. clear V. destruct k as [sa af| |]; cbn [transport] in Hv.
  - assert (Hip : s_ip a = s_ip b) by (apply (Hag LIPv4); destruct Hv as [-> | ->]; cbn; auto).
    assert (Htcp : s_tcp a = s_tcp b) by (apply (Hag LTCP); destruct Hv as [-> | ->]; cbn; auto).
    rewrite Hip, Htcp. destruct (negb (sa _)); reflexivity.
  - assert (Hip : s_ip a = s_ip b) by (apply (Hag LIPv4); destruct Hv as [-> | ->]; cbn; auto).
    assert (Hic : s_icmp a = s_icmp b) by (apply (Hag LICMP); destruct Hv as [-> | ->]; cbn; auto).
    rewrite Hip, Hic. reflexivity.
  - destruct Hv as [-> _].
    assert (Harp : s_arp a = s_arp b) by (apply (Hag LARP); cbn; auto).
    rewrite Harp. destruct (_ <? 3); reflexivity.
Qed.

(* ---- sequences of frames *)
Theorem run_indep vpn : forall fs st1 st2, run k vpn valid st1 fs = run k vpn valid st2 fs.
Proof.
  induction fs as [|f fs IH]; intros st1 st2; [reflexivity|].
  cbn [run]. rewrite (process_indep vpn st1 st2 f).
  destruct (is_crash _); [reflexivity|]. f_equal. apply IH.
Qed.

Theorem run_total vpn : forall fs st,
  length (run k vpn valid st fs) = length fs /\
  Forall (fun o => o <> OCrash /\ o <> OError EFuel) (run k vpn valid st fs).
Proof.
  induction fs as [|f fs IH]; intros st; [split; [reflexivity|constructor]|].
  cbn [run]. pose proof (process_no_crash vpn st f) as Hc. pose proof (process_no_fuel vpn st f) as Hf.
  destruct (snd (process k vpn valid st f)) eqn:E; cbn [is_crash]; try congruence;
    destruct (IH (fst (process k vpn valid st f))) as [IH1 IH2];
    (split; [cbn; rewrite IH1; reflexivity|constructor; [split; congruence|exact IH2]]).
Qed.

(* the i-th outcome of a sequence is what the i-th frame alone produces from the zero state *)
Theorem run_nth vpn : forall fs st i, (i < length fs)%nat ->
  nth i (run k vpn valid st fs) ONone = snd (process k vpn valid init_state (nth i fs [])).
Proof.
  induction fs as [|f fs IH]; intros st i Hi; [cbn in Hi; lia|].
  cbn [run]. destruct i as [|i].
  - cbn [nth]. apply process_indep.
  - pose proof (process_no_crash vpn st f) as Hc.
    destruct (snd (process k vpn valid st f)) eqn:E; cbn [is_crash nth]; try congruence;
      apply IH; cbn in Hi; lia.
Qed.

End GoodValidity.

Lemma filter_length_le {A} (p : A -> bool) (l : list A) : (length (filter p l) <= length l)%nat.
Proof. induction l as [|x l IH]; cbn; [lia|]. destruct (p x); cbn; lia. Qed.
