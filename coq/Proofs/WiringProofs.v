(* From the generated wiring table to the generator models: a command whose chain has one of the four
   expected shapes runs exactly the model chain of that shape, so the coverage lemmas apply to it. *)
From Coq Require Import ZArith List Bool Lia Permutation.
From SX Require Import Base.Loop Base.Bytes Model.RangeIter Model.IPNet Model.Exclude Model.Targets Model.FileTargets
  Model.TargetWiring Proofs.NumTheory Proofs.RangeIterProofs Proofs.IPNetProofs Proofs.StagesProofs Proofs.TargetsProofs
  Proofs.FileTargetsProofs Proofs.CoverageProofs.
Import ListNotations.
Open Scope Z_scope.

Lemma gexpr_eqb_eq a : forall b, gexpr_eqb a b = true -> a = b.
Proof.
  induction a; intros b H; destruct b; cbn in H; try discriminate; try reflexivity;
    try (apply andb_true_iff in H; destruct H as [H1 H2]);
    f_equal; auto.
Qed.

Lemma all_cfgs_complete f : In f all_cfgs.
Proof. destruct f as [[] [] [] [] [] []]; cbn; tauto. Qed.

Lemma class_of_sound cmd k : class_of cmd = Some k ->
  c_engine cmd = class_engine k /\ forall f, resolve f (c_gen cmd) = expected k f.
Proof.
  unfold class_of. intros H.
  assert (Hk : has_class cmd k = true).
  { destruct (has_class cmd KPortPacket) eqn:E1; [inversion H; subst; exact E1|].
    destruct (has_class cmd KPortGeneric) eqn:E2; [inversion H; subst; exact E2|].
    destruct (has_class cmd KArp) eqn:E3; [inversion H; subst; exact E3|].
    destruct (has_class cmd KIcmp) eqn:E4; [inversion H; subst; exact E4|discriminate]. }
  unfold has_class in Hk. apply andb_true_iff in Hk. destruct Hk as [He Hg]. split.
  - destruct (c_engine cmd), k; cbn in He; try discriminate; reflexivity.
  - intros f. rewrite forallb_forall in Hg. apply gexpr_eqb_eq. apply Hg. apply all_cfgs_complete.
Qed.

(* ---------- what the expected chains mean ---------- *)
Definition const_opener (inp : inputs) : opener := fun _ => content inp.
Definition port_target (f : cfg) (inp : inputs) : target :=
  if negb (f_file f) then TSubnet (i_dst inp)
  else if negb (f_ports f) then TFilePairs (const_opener inp)
  else TFileIPs (const_opener inp).
Definition ip_target (f : cfg) (inp : inputs) : target :=
  if f_file f then TFileIPs (const_opener inp) else TSubnet (i_dst inp).
Definition class_stages (k : class) (f : cfg) (inp : inputs) : stages :=
  {| st_filter := if f_exclude f then Some (i_nets inp) else None;
     st_cache := match k with
                 | KPortPacket | KIcmp => if f_cache f then Some (i_cache inp) else None
                 | KPortGeneric | KArp => None
                 end |}.

Lemma interp_port_packet table f inp c ports :
  interp_req table f inp c (expected KPortPacket f) ports =
  Some (ipport_requests table (i_dp inp c) (i_di inp c) (port_target f inp) (class_stages KPortPacket f inp) ports).
Proof. destruct f as [[] [] [] [] fl fs]; reflexivity. Qed.

Lemma interp_port_generic table f inp c ports :
  interp_req table f inp c (expected KPortGeneric f) ports =
  Some (ipport_requests table (i_dp inp c) (i_di inp c) (port_target f inp) (class_stages KPortGeneric f inp) ports).
Proof. destruct f as [[] [] [] fc fl fs]; reflexivity. Qed.

Lemma interp_arp table f inp c ports : f_live f = false ->
  interp_req table f inp c (expected KArp f) ports =
  Some (ip_requests table (i_di inp c) (TSubnet (i_dst inp)) (class_stages KArp f inp)).
Proof. destruct f as [ff fp [] fc [] fs]; intros H; try discriminate; reflexivity. Qed.

Lemma interp_icmp table f inp c ports :
  interp_req table f inp c (expected KIcmp f) ports =
  Some (ip_requests table (i_di inp c) (ip_target f inp) (class_stages KIcmp f inp)).
Proof. destruct f as [[] fp [] [] fl fs]; reflexivity. Qed.

Lemma port_scan_engine_ext size once r1 r2 ports :
  (forall c ch, r1 c ch = r2 c ch) -> port_scan_engine size once r1 ports = port_scan_engine size once r2 ports.
Proof.
  intros H. unfold port_scan_engine. destruct ports; [destruct once; [apply H|reflexivity]|].
  f_equal. apply map_ext. intros [i ch]. apply H.
Qed.

(* ---------- what a target specification denotes, per class and option setting ---------- *)
Definition spec_denote (k : class) (f : cfg) (inp : inputs) (n : ipnet) : list (ip * Z) :=
  let st := class_stages k f inp in
  match k with
  | KPortPacket | KPortGeneric =>
      if negb (f_file f) then denote_subnet_ports n (i_ports inp) st
      else if negb (f_ports f) then denote_file_pairs (i_file inp) st
      else denote_file_ports (i_file inp) (i_ports inp) st
  | KArp => denote_subnet n st
  | KIcmp => if f_file f then denote_file_addrs (i_file inp) st else denote_subnet n st
  end.

(* a valid IPv4 target specification for a command of class k under option setting f *)
Record valid_spec (k : class) (f : cfg) (inp : inputs) (n : ipnet) : Prop := {
  vs_live : f_live f = false;                                   (* one pass (live mode: C19) *)
  vs_file : f_file f = true -> i_openable inp = true;
  vs_arp_nofile : k = KArp -> f_file f = false;                 (* arp takes no -f *)
  vs_dst : f_file f = false -> i_dst inp = Some n /\ exists pl, ipv4_net n pl;   (* accepted by ParseIPNet *)
  vs_ports : f_ports f = true <-> i_ports inp <> [];
  vs_ranges : Forall valid_range (i_ports inp);
  vs_need_ports : (k = KPortPacket \/ k = KPortGeneric) -> f_file f = false -> f_ports f = true;
  vs_pairs : (k = KPortPacket \/ k = KPortGeneric) -> f_file f = true -> f_ports f = false ->
             forallb wf_pair_line (i_file inp) = true;
  vs_addrs : (f_file f = true /\ (f_ports f = true \/ k = KIcmp)) -> forallb wf_addr_line (i_file inp) = true;
  vs_gateway : f_cache f = true -> ac_gateway (i_cache inp) <> [];   (* a MAC is known for every destination *)
  vs_dp : forall c, nonneg (i_dp inp c);
  vs_di : forall c, nonneg (i_di inp c) }.

Lemma class_stages_total k f inp : (f_cache f = true -> ac_gateway (i_cache inp) <> []) -> cache_total (class_stages k f inp).
Proof.
  intros H. unfold cache_total, class_stages. cbn [st_cache].
  destruct k; try exact I; destruct (f_cache f); try exact I; apply H; reflexivity.
Qed.

Section Commands.
Variable table : list row.
Hypothesis table_good : table_ok table.
Variable chunk_size : Z.
Hypothesis chunk_pos : 0 < chunk_size.

(* every command whose chain has an expected shape covers every valid specification exactly *)
Lemma command_coverage cmd k f inp n :
  class_of cmd = Some k -> valid_spec k f inp n ->
  exists evs, run_command table chunk_size true cmd f inp = Some evs /\
              Permutation (probes evs) (spec_denote k f inp n) /\ errors evs = [] /\ normal evs = true.
Proof.
  intros Hc V. destruct (class_of_sound cmd k Hc) as [He Hg]. unfold run_command. rewrite Hg, He.
  pose proof (class_stages_total k f inp (vs_gateway _ _ _ _ V)) as Ht.
  assert (Hcontent : f_file f = true -> content inp = Some (i_file inp)).
  { intros Hf. unfold content. rewrite (vs_file _ _ _ _ V Hf). reflexivity. }
  destruct k.
  - (* packet port scans: chunk loop *)
    unfold well_formed. rewrite interp_port_packet. cbn [class_engine]. eexists. split; [reflexivity|].
    rewrite (port_scan_engine_ext _ _ _
               (fun c ch => events (ipport_requests table (i_dp inp c) (i_di inp c) (port_target f inp) (class_stages KPortPacket f inp) ch)))
      by (intros c ch; unfold run_engine; rewrite interp_port_packet; reflexivity).
    unfold spec_denote, port_target. destruct (f_file f) eqn:Ef; cbn [negb].
    + destruct (f_ports f) eqn:Ep; cbn [negb].
      * apply (file_ports_chunked table table_good chunk_size true (i_dp inp) (i_di inp) (fun _ => const_opener inp) (i_file inp));
          [exact chunk_pos|intros c k0; apply Hcontent; reflexivity| |exact (vs_dp _ _ _ _ V)| | |exact Ht].
        -- apply (vs_addrs _ _ _ _ V). split; [exact Ef|left; exact Ep].
        -- apply (proj1 (vs_ports _ _ _ _ V)). exact Ep.
        -- exact (vs_ranges _ _ _ _ V).
      * assert (Hp : i_ports inp = []).
        { destruct (i_ports inp) eqn:E; [reflexivity|]. exfalso.
          assert (f_ports f = true) by (apply (proj2 (vs_ports _ _ _ _ V)); rewrite E; discriminate). congruence. }
        rewrite Hp.
        destruct (file_pairs_chunked table chunk_size (i_dp inp) (i_di inp) (fun _ => const_opener inp) (i_file inp)
                    (class_stages KPortPacket f inp)) as (E1 & E2 & E3);
          [apply Hcontent; reflexivity| |exact Ht|].
        -- apply (vs_pairs _ _ _ _ V); [left; reflexivity|exact Ef|exact Ep].
        -- unfold packet_port_scan in E1, E2, E3. split; [rewrite E1; apply Permutation_refl|split; assumption].
    + destruct (vs_dst _ _ _ _ V Ef) as [Hd [pl Hn]]. rewrite Hd.
      assert (Ep : f_ports f = true) by (apply (vs_need_ports _ _ _ _ V); [left; reflexivity|exact Ef]).
      apply (subnet_ports_chunked table table_good chunk_size true (i_dp inp) (i_di inp) n pl);
        [exact chunk_pos|exact Hn|exact (vs_dp _ _ _ _ V)|exact (vs_di _ _ _ _ V)| |exact (vs_ranges _ _ _ _ V)|exact Ht].
      apply (proj1 (vs_ports _ _ _ _ V)). exact Ep.
  - (* application scans: one engine on the whole list *)
    unfold well_formed. rewrite interp_port_generic. cbn [class_engine]. eexists. split; [reflexivity|].
    unfold run_engine. rewrite interp_port_generic.
    unfold spec_denote, port_target. destruct (f_file f) eqn:Ef; cbn [negb].
    + destruct (f_ports f) eqn:Ep; cbn [negb].
      * apply (file_ports_run table table_good (i_dp inp 0%nat) (i_di inp 0%nat) (const_opener inp) (i_file inp));
          [intros k0; apply Hcontent; reflexivity| |exact (vs_dp _ _ _ _ V 0%nat)| | |exact Ht].
        -- apply (vs_addrs _ _ _ _ V). split; [exact Ef|left; exact Ep].
        -- apply (proj1 (vs_ports _ _ _ _ V)). exact Ep.
        -- exact (vs_ranges _ _ _ _ V).
      * destruct (file_pairs_run table (i_dp inp 0%nat) (i_di inp 0%nat) (const_opener inp) (i_file inp)
                    (class_stages KPortGeneric f inp) (i_ports inp)) as (E1 & E2 & E3);
          [apply Hcontent; reflexivity| |exact Ht|].
        -- apply (vs_pairs _ _ _ _ V); [right; reflexivity|exact Ef|exact Ep].
        -- split; [rewrite E1; apply Permutation_refl|split; assumption].
    + destruct (vs_dst _ _ _ _ V Ef) as [Hd [pl Hn]]. rewrite Hd.
      assert (Ep : f_ports f = true) by (apply (vs_need_ports _ _ _ _ V); [right; reflexivity|exact Ef]).
      apply (subnet_ports_run table table_good (i_dp inp 0%nat) (i_di inp 0%nat) n pl);
        [exact Hn|exact (vs_dp _ _ _ _ V 0%nat)|exact (vs_di _ _ _ _ V 0%nat)| |exact (vs_ranges _ _ _ _ V)|exact Ht].
      apply (proj1 (vs_ports _ _ _ _ V)). exact Ep.
  - (* arp *)
    unfold well_formed. rewrite (interp_arp _ _ _ _ _ (vs_live _ _ _ _ V)). cbn [class_engine]. eexists. split; [reflexivity|].
    unfold run_engine. rewrite (interp_arp _ _ _ _ _ (vs_live _ _ _ _ V)).
    destruct (vs_dst _ _ _ _ V (vs_arp_nofile _ _ _ _ V eq_refl)) as [Hd [pl Hn]]. rewrite Hd. unfold spec_denote.
    apply (subnet_portless_run table table_good (i_di inp 0%nat) n pl); [exact Hn|exact (vs_di _ _ _ _ V 0%nat)|exact Ht].
  - (* icmp *)
    unfold well_formed. rewrite interp_icmp. cbn [class_engine]. eexists. split; [reflexivity|].
    unfold run_engine. rewrite interp_icmp. unfold spec_denote, ip_target. destruct (f_file f) eqn:Ef.
    + destruct (file_portless_run table (i_di inp 0%nat) (const_opener inp) (i_file inp) (class_stages KIcmp f inp)) as (E1 & E2 & E3);
        [apply Hcontent; reflexivity| |exact Ht|].
      * apply (vs_addrs _ _ _ _ V). split; [exact Ef|right; reflexivity].
      * split; [rewrite E1; apply Permutation_refl|split; assumption].
    + destruct (vs_dst _ _ _ _ V Ef) as [Hd [pl Hn]]. rewrite Hd.
      apply (subnet_portless_run table table_good (i_di inp 0%nat) n pl); [exact Hn|exact (vs_di _ _ _ _ V 0%nat)|exact Ht].
Qed.
End Commands.

(* ------------------------------------------------------------------ C13: target files through the commands *)
Lemma all_ports_concat cs : all_ports (concat cs) = concat (map all_ports cs).
Proof. induction cs as [|c cs IH]; cbn; [reflexivity|]. rewrite all_ports_app, IH. reflexivity. Qed.

(* the chunk loop when every run is F(some permutation of the chunk's ports), F additive *)
Lemma engine_runs_exists (run : nat -> list prange -> list event) (F : list Z -> list event) :
  (forall a b, F (a ++ b) = F a ++ F b) -> forall cs i,
  (forall c chunk, In chunk cs -> exists ps, Permutation ps (all_ports chunk) /\ run c chunk = F ps) ->
  exists ps, Permutation ps (concat (map all_ports cs)) /\
             concat (map (fun ic => run (fst ic) (snd ic)) (combine (seq i (length cs)) cs)) = F ps.
Proof.
  intros HF cs. induction cs as [|ch cs IH]; intros i H.
  - exists []. split; [constructor|]. cbn. pose proof (HF [] []) as E. cbn in E.
    destruct (F []) as [|e l]; [reflexivity|]. exfalso. apply (f_equal (@length event)) in E. rewrite app_length in E. cbn in E. lia.
  - destruct (H i ch (or_introl eq_refl)) as [p1 [P1 E1]].
    destruct (IH (S i) (fun c chunk Hin => H c chunk (or_intror Hin))) as [p2 [P2 E2]].
    exists (p1 ++ p2). split; [cbn; apply Permutation_app; assumption|].
    cbn [length seq combine map concat fst snd]. rewrite E1, E2, HF. reflexivity.
Qed.

Lemma port_scan_engine_exists size once (run : nat -> list prange -> list event) (F : list Z -> list event) ports :
  0 < size -> ports <> [] -> (forall a b, F (a ++ b) = F a ++ F b) ->
  (forall c chunk, chunk <> [] -> incl chunk ports -> exists ps, Permutation ps (all_ports chunk) /\ run c chunk = F ps) ->
  exists ps, Permutation ps (all_ports ports) /\ port_scan_engine size once run ports = F ps.
Proof.
  intros Hs Hne HF H. unfold port_scan_engine. destruct ports as [|p0 ports0]; [contradiction|].
  set (ports := p0 :: ports0) in *.
  assert (Hs' : (0 < Z.to_nat size)%nat) by lia.
  destruct (chunks_concat (Z.to_nat size) ports Hs') as [Ec Fc].
  rewrite (combine_seq_longer _ 0 (length ports) (chunks_length _ _)).
  destruct (engine_runs_exists run F HF (chunks (Z.to_nat size) ports) 0%nat) as [ps [P E]].
  - intros c chunk Hin. apply H.
    + rewrite Forall_forall in Fc. apply Fc. exact Hin.
    + intros x Hx. rewrite <- Ec. apply in_concat. exists chunk. split; assumption.
  - exists ps. split; [|exact E]. rewrite <- all_ports_concat, Ec in P. exact P.
Qed.

Section FileCommands.
Variable table : list row.
Hypothesis table_good : table_ok table.
Variable chunk_size : Z.
Hypothesis chunk_pos : 0 < chunk_size.

(* pairs file through any port command: the events are the per-entry outcomes, in file order *)
Lemma command_file_pairs cmd k f inp :
  class_of cmd = Some k -> (k = KPortPacket \/ k = KPortGeneric) ->
  f_file f = true -> f_ports f = false -> i_ports inp = [] -> i_openable inp = true ->
  run_command table chunk_size true cmd f inp = Some (run_pairs (class_stages k f inp) (i_file inp)).
Proof.
  intros Hc Hk Ef Ep Hp Ho. destruct (class_of_sound cmd k Hc) as [He Hg]. unfold run_command. rewrite Hg, He.
  assert (Hcontent : const_opener inp 0%nat = Some (i_file inp)) by (unfold const_opener, content; rewrite Ho; reflexivity).
  destruct Hk as [-> | ->]; unfold well_formed.
  - rewrite interp_port_packet. cbn [class_engine]. f_equal. rewrite Hp. unfold port_scan_engine, run_engine.
    rewrite interp_port_packet. unfold port_target. rewrite Ef, Ep. cbn [negb].
    apply file_pairs_events. exact Hcontent.
  - rewrite interp_port_generic. cbn [class_engine]. f_equal. unfold run_engine.
    rewrite interp_port_generic. unfold port_target. rewrite Ef, Ep. cbn [negb].
    apply file_pairs_events. exact Hcontent.
Qed.

(* address file x ports through any port command (chunked or not): one pass over the file per port *)
Lemma command_file_ports cmd k f inp :
  class_of cmd = Some k -> (k = KPortPacket \/ k = KPortGeneric) ->
  f_file f = true -> f_ports f = true -> i_ports inp <> [] -> Forall valid_range (i_ports inp) ->
  i_openable inp = true -> (forall c, nonneg (i_dp inp c)) ->
  exists ps, Permutation ps (all_ports (i_ports inp)) /\
    run_command table chunk_size true cmd f inp =
      Some (flat_map (fun p => run_addrs (class_stages k f inp) p (i_file inp)) ps).
Proof.
  intros Hc Hk Ef Ep Hne Hv Ho Hdp. destruct (class_of_sound cmd k Hc) as [He Hg]. unfold run_command. rewrite Hg, He.
  assert (Hcontent : forall j, const_opener inp j = Some (i_file inp)) by (intros j; unfold const_opener, content; rewrite Ho; reflexivity).
  destruct Hk as [-> | ->]; unfold well_formed.
  - rewrite interp_port_packet. cbn [class_engine].
    destruct (port_scan_engine_exists chunk_size true (run_engine table f inp (expected KPortPacket f))
                (fun ps => flat_map (fun p => run_addrs (class_stages KPortPacket f inp) p (i_file inp)) ps)
                (i_ports inp) chunk_pos Hne) as [ps [P E]].
    + intros a b. apply flat_map_app'.
    + intros c chunk H1 H2. unfold run_engine. rewrite interp_port_packet. unfold port_target. rewrite Ef, Ep. cbn [negb].
      apply (file_ports_events table table_good (i_dp inp c) (i_di inp c) (const_opener inp) _ chunk (i_file inp) Hcontent (Hdp c) H1).
      apply (Forall_incl _ _ _ H2 Hv).
    + exists ps. split; [exact P|]. rewrite E. reflexivity.
  - rewrite interp_port_generic. cbn [class_engine]. unfold run_engine. rewrite interp_port_generic.
    unfold port_target. rewrite Ef, Ep. cbn [negb].
    destruct (file_ports_events table table_good (i_dp inp 0%nat) (i_di inp 0%nat) (const_opener inp)
                (class_stages KPortGeneric f inp) (i_ports inp) (i_file inp) Hcontent (Hdp 0%nat) Hne Hv) as [ps [P E]].
    exists ps. split; [exact P|]. rewrite E. reflexivity.
Qed.

(* address file through icmp *)
Lemma command_file_icmp cmd f inp :
  class_of cmd = Some KIcmp -> f_file f = true -> i_openable inp = true ->
  run_command table chunk_size true cmd f inp = Some (run_addrs (class_stages KIcmp f inp) 0 (i_file inp)).
Proof.
  intros Hc Ef Ho. destruct (class_of_sound cmd KIcmp Hc) as [He Hg]. unfold run_command. rewrite Hg, He.
  unfold well_formed. rewrite interp_icmp. cbn [class_engine]. f_equal. unfold run_engine. rewrite interp_icmp.
  unfold ip_target. rewrite Ef. apply file_addrs_events. unfold const_opener, content. rewrite Ho. reflexivity.
Qed.
End FileCommands.
