(* Number theory for C04: the order argument (a Lucas-style certificate makes g a generator of
   (Z/pZ)^*, without assuming p prime), coprime powers of generators, pigeonhole surjectivity. *)
From Coq Require Import ZArith Znumtheory Zpow_facts List Lia Bool FinFun.
From SX Require Import Model.RangeIter.
Import ListNotations.
Open Scope Z_scope.

Lemma powm_pos_spec b e m : 0 < m -> powm_pos b e m = b ^ (Zpos e) mod m.
Proof.
  intros Hm. induction e as [e IH|e IH|]; cbn [powm_pos].
  - rewrite IH. rewrite Pos2Z.inj_xI.
    replace (2 * Z.pos e + 1) with (Z.pos e + Z.pos e + 1) by lia.
    rewrite !Z.pow_add_r by lia. rewrite Z.pow_1_r.
    rewrite <- Z.mul_mod by lia. rewrite Z.mul_mod_idemp_l by lia. reflexivity.
  - rewrite IH. rewrite Pos2Z.inj_xO.
    replace (2 * Z.pos e) with (Z.pos e + Z.pos e) by lia.
    rewrite Z.pow_add_r by lia. rewrite <- Z.mul_mod by lia. reflexivity.
  - rewrite Z.pow_1_r. reflexivity.
Qed.

Lemma powm_spec b e m : 0 < m -> 0 <= e -> powm b e m = b ^ e mod m.
Proof.
  intros Hm He. destruct e as [|p|p]; cbn [powm].
  - reflexivity.
  - apply powm_pos_spec; assumption.
  - lia.
Qed.

(* ---------- congruence helpers ---------- *)
Definition cong1 (p g k : Z) := g ^ k mod p = 1.

Lemma pow_mod_mul p g a b : 0 < p -> 0 <= a -> 0 <= b ->
  g ^ (a + b) mod p = ((g ^ a mod p) * (g ^ b mod p)) mod p.
Proof. intros. rewrite Z.pow_add_r by lia. apply Z.mul_mod. lia. Qed.

Lemma cong1_add p g a b : 1 < p -> 0 <= a -> 0 <= b -> cong1 p g a -> cong1 p g b -> cong1 p g (a+b).
Proof.
  unfold cong1. intros Hp Ha Hb H1 H2. rewrite pow_mod_mul by lia. rewrite H1, H2.
  rewrite Z.mul_1_l. apply Z.mod_small. lia.
Qed.

Lemma cong1_mul p g a c : 1 < p -> 0 <= a -> 0 <= c -> cong1 p g a -> cong1 p g (a*c).
Proof.
  intros Hp Ha Hc H. pattern c. apply natlike_ind; [ | | exact Hc].
  - rewrite Z.mul_0_r. unfold cong1. rewrite Z.pow_0_r. apply Z.mod_small. lia.
  - intros x Hx IH. replace (a * Z.succ x) with (a*x + a) by lia.
    apply cong1_add; try lia; try nia; assumption.
Qed.

(* if g^(a+b) = 1 and g^a = 1 then g^b = 1 *)
Lemma cong1_sub p g a b : 1 < p -> 0 <= a -> 0 <= b -> cong1 p g (a+b) -> cong1 p g a -> cong1 p g b.
Proof.
  unfold cong1. intros Hp Ha Hb H1 H2. rewrite pow_mod_mul in H1 by lia. rewrite H2 in H1.
  rewrite Z.mul_1_l in H1. rewrite Z.mod_mod in H1 by lia. exact H1.
Qed.

(* ---------- order argument ---------- *)
Section Order.
Variables (p g : Z).
Hypothesis Hp : 2 < p.
Let n := p - 1.
Hypothesis Hgn : cong1 p g n.

(* injectivity up to exponent difference *)
Lemma eq_pow_cong1 a b : 0 <= a -> a <= b -> g ^ a mod p = g ^ b mod p -> cong1 p g (b - a).
Proof.
  intros Ha Hab Heq.
  assert (Hn0 : 0 <= n - 1) by (subst n; lia).
  assert (Han : 0 <= a * n) by (apply Z.mul_nonneg_nonneg; subst n; lia).
  assert (Han1 : 0 <= a * (n - 1)) by (apply Z.mul_nonneg_nonneg; lia).
  assert (Hinv : cong1 p g (a * n)).
  { rewrite Z.mul_comm. apply cong1_mul; [lia|subst n; lia|lia|exact Hgn]. }
  unfold cong1 in *.
  assert (E1 : g ^ (b - a) mod p = g ^ ((b - a) + a * n) mod p).
  { rewrite (pow_mod_mul p g (b-a) (a*n)) by lia. rewrite Hinv, Z.mul_1_r.
    rewrite Z.mod_mod by lia. reflexivity. }
  rewrite E1.
  replace (b - a + a * n) with (b + a * (n - 1)) by ring.
  rewrite (pow_mod_mul p g b (a * (n - 1))) by lia.
  rewrite <- Heq. rewrite <- pow_mod_mul by lia.
  replace (a + a * (n - 1)) with (a * n) by ring. exact Hinv.
Qed.

Lemma cong1_gcd k : 0 < k -> cong1 p g k -> cong1 p g (Z.gcd k n).
Proof.
  intros Hk Hck.
  destruct (Z.gcd_bezout k n (Z.gcd k n) eq_refl) as [u [v Huv]].
  set (d := Z.gcd k n) in *.
  assert (Hd : 0 < d). { subst d. pose proof (Z.gcd_nonneg k n). assert (Z.gcd k n <> 0). { intro E. apply Z.gcd_eq_0_l in E. lia. } lia. }
  set (t := Z.abs u + Z.abs v + 1).
  set (u' := u + t * n). set (v' := t * k - v).
  assert (Hn : 0 < n) by (subst n; lia).
  assert (Hu' : 0 <= u') by (subst u' t; nia).
  assert (Hv' : 0 <= v') by (subst v' t; nia).
  assert (E : u' * k = d + v' * n) by (subst u' v'; nia).
  apply (cong1_sub p g (v' * n) d); try lia; try nia.
  - replace (v' * n + d) with (k * u') by nia. apply cong1_mul; try lia. exact Hck.
  - rewrite Z.mul_comm. apply cong1_mul; try lia. exact Hgn.
Qed.

Variable qs : list Z.
Hypothesis Hqs_complete : forall q, prime q -> (q | n) -> In q qs.
Hypothesis Hqs_not1 : forall q, In q qs -> ~ cong1 p g (n / q).

Lemma prime_divisor_exists : forall c, 1 < c -> exists q, prime q /\ (q | c).
Proof.
  intros c Hc. assert (H0 : 0 <= c) by lia. revert Hc. pattern c.
  apply Zlt_0_ind; [|exact H0].
  clear c H0. intros c IH _ Hc.
  destruct (prime_dec c) as [Hpr|Hnp].
  - exists c. split; [assumption| apply Z.divide_refl].
  - destruct (not_prime_divide c Hc Hnp) as [m [Hm Hdiv]].
    assert (Hm1 : 0 <= m < c) by lia. assert (Hm2 : 1 < m) by lia.
    destruct (IH m Hm1 Hm2) as [q [Hq Hqm]].
    exists q. split; [assumption|]. eapply Z.divide_trans; eassumption.
Qed.

Lemma cong1_small_contra k : 0 < k < n -> ~ cong1 p g k.
Proof.
  intros Hk Hc.
  pose proof (cong1_gcd k ltac:(lia) Hc) as Hd.
  set (d := Z.gcd k n) in *.
  assert (Hdn : (d | n)) by (subst d; apply Z.gcd_divide_r).
  assert (Hdk : (d | k)) by (subst d; apply Z.gcd_divide_l).
  assert (Hdpos : 0 < d).
  { subst d. pose proof (Z.gcd_nonneg k n). assert (Z.gcd k n <> 0). { intro E. apply Z.gcd_eq_0_l in E. lia. } lia. }
  assert (Hdle : d <= k) by (apply Z.divide_pos_le; [lia|assumption]).
  destruct Hdn as [c Hc'].  (* n = c * d *)
  assert (Hc1 : 1 < c) by nia.
  destruct (prime_divisor_exists c Hc1) as [q [Hq [c' Hqc]]]. (* c = c' * q *)
  assert (Hqn : (q | n)). { exists (c' * d). nia. }
  pose proof (Hqs_complete q Hq Hqn) as Hin.
  apply (Hqs_not1 q Hin).
  assert (Hq2 : 2 <= q) by (apply prime_ge_2; assumption).
  assert (Ediv : n / q = d * c').
  { replace n with ((d * c') * q) by nia. apply Z.div_mul. lia. }
  rewrite Ediv. apply cong1_mul; try lia; try nia. exact Hd.
Qed.

Theorem pow_injective a b : 0 <= a < n -> 0 <= b < n -> g ^ a mod p = g ^ b mod p -> a = b.
Proof.
  intros Ha Hb Heq.
  destruct (Z.lt_trichotomy a b) as [Hlt|[Heq'|Hgt]]; [|assumption|].
  - exfalso. apply (cong1_small_contra (b - a)); [lia|]. apply eq_pow_cong1; [lia|lia|assumption].
  - exfalso. apply (cong1_small_contra (a - b)); [lia|]. apply eq_pow_cong1; [lia|lia|symmetry; assumption].
Qed.

(* order divides: g^m = 1 -> n | m *)
Theorem cong1_divides m : 0 <= m -> cong1 p g m -> (n | m).
Proof.
  intros Hm Hc.
  assert (Hn : 0 < n) by (subst n; lia).
  pose proof (Z.div_mod m n ltac:(lia)) as E.
  pose proof (Z.mod_pos_bound m n Hn) as Hr.
  assert (Hr0 : m mod n = 0).
  { destruct (Z.eq_dec (m mod n) 0) as [|Hne]; [assumption|].
    exfalso. apply (cong1_small_contra (m mod n)); [lia|].
    apply (cong1_sub p g (n * (m / n)) (m mod n)); try lia.
    - apply Z.mul_nonneg_nonneg; [lia|]. apply Z.div_pos; lia.
    - rewrite <- E. assumption.
    - apply cong1_mul; try lia. apply Z.div_pos; lia. exact Hgn. }
  apply Z.mod_divide; [lia|assumption].
Qed.
End Order.


(* ---------- a coprime power of a generator is a generator ---------- *)
Definition inj_pow (p g : Z) := forall a b, 0 <= a < p - 1 -> 0 <= b < p - 1 -> g ^ a mod p = g ^ b mod p -> a = b.

Lemma pow_pow_mod p g e k : 0 < p -> 0 <= e -> 0 <= k -> (g ^ e mod p) ^ k mod p = g ^ (e * k) mod p.
Proof. intros. rewrite <- Zpower_mod by lia. rewrite Z.pow_mul_r by lia. reflexivity. Qed.

Lemma gen_power p g e :
  2 < p -> cong1 p g (p - 1) ->
  (forall m, 0 <= m -> cong1 p g m -> (p - 1 | m)) ->
  0 <= e -> rel_prime e (p - 1) ->
  cong1 p (g ^ e mod p) (p - 1) /\
  (forall m, 0 <= m -> cong1 p (g ^ e mod p) m -> (p - 1 | m)).
Proof.
  intros Hp Hg Hord He Hrel. split.
  - unfold cong1. rewrite pow_pow_mod by lia. rewrite Z.mul_comm. apply cong1_mul; try lia. exact Hg.
  - intros m Hm Hc. unfold cong1 in Hc. rewrite pow_pow_mod in Hc by lia.
    assert (Hd : (p - 1 | e * m)). { apply Hord; [nia|exact Hc]. }
    apply Gauss with (b := e). { rewrite Z.mul_comm in Hd. rewrite Z.mul_comm. exact Hd. }
    apply rel_prime_sym. exact Hrel.
Qed.

(* order-divides  ==>  injective powers *)
Lemma ord_inj p g : 2 < p -> cong1 p g (p - 1) ->
  (forall m, 0 <= m -> cong1 p g m -> (p - 1 | m)) -> inj_pow p g.
Proof.
  intros Hp Hg Hord a b Ha Hb Heq.
  assert (W : forall a b, 0 <= a < p-1 -> 0 <= b < p-1 -> a < b -> g ^ a mod p = g ^ b mod p -> False).
  { clear a b Ha Hb Heq. intros a b Ha Hb Hlt Heq.
    pose proof (eq_pow_cong1 p g Hp Hg a b ltac:(lia) ltac:(lia) Heq) as Hc.
    pose proof (Hord (b - a) ltac:(lia) Hc) as Hd.
    apply Z.divide_pos_le in Hd; lia. }
  destruct (Z.lt_trichotomy a b) as [Hlt|[E|Hgt]]; [exfalso; eauto|assumption|exfalso; symmetry in Heq; eauto].
Qed.

(* powers of g are units: in [1, p-1] *)
Lemma pow_unit p g k : 2 < p -> cong1 p g (p - 1) -> 0 <= k -> 1 <= g ^ k mod p < p.
Proof.
  intros Hp Hg Hk. pose proof (Z.mod_pos_bound (g ^ k) p ltac:(lia)) as Hb.
  destruct (Z.eq_dec (g ^ k mod p) 0) as [E|]; [|lia]. exfalso.
  (* g^(k*(p-1)) = 1 but also = (g^k)^(p-1) = 0 *)
  assert (H1 : cong1 p g ((p - 1) * k)) by (apply cong1_mul; try lia; exact Hg).
  unfold cong1 in H1. rewrite Z.mul_comm in H1. rewrite <- pow_pow_mod in H1 by lia.
  rewrite E in H1. rewrite Z.pow_0_l in H1 by lia. rewrite Z.mod_0_l in H1 by lia. lia.
Qed.

(* ---------- surjectivity by pigeonhole ---------- *)
Lemma NoDup_map_in {A B} (f : A -> B) (l : list A) :
  (forall a b, In a l -> In b l -> f a = f b -> a = b) -> NoDup l -> NoDup (map f l).
Proof.
  induction l as [|x xs IH]; intros Hinj Hnd; simpl; [constructor|].
  inversion Hnd as [|? ? Hnotin Hnd']; subst. constructor.
  - intros Hin. apply in_map_iff in Hin. destruct Hin as [y [E Hy]].
    assert (y = x) by (apply Hinj; simpl; auto). subst. contradiction.
  - apply IH; [|assumption]. intros a b Ha Hb. apply Hinj; simpl; auto.
Qed.

Definition zrange (a : Z) (len : nat) : list Z := map (fun i => a + Z.of_nat i) (seq 0 len).
Lemma zrange_In a len x : In x (zrange a len) <-> a <= x < a + Z.of_nat len.
Proof.
  unfold zrange. rewrite in_map_iff. split.
  - intros [i [E Hi]]. apply in_seq in Hi. lia.
  - intros Hx. exists (Z.to_nat (x - a)). split; [lia|]. apply in_seq. lia.
Qed.
Lemma zrange_length a len : length (zrange a len) = len.
Proof. unfold zrange. rewrite map_length, seq_length. reflexivity. Qed.
Lemma zrange_NoDup a len : NoDup (zrange a len).
Proof.
  unfold zrange. apply Injective_map_NoDup; [|apply seq_NoDup].
  intros x y E. lia.
Qed.

Theorem pow_surjective p g : 2 < p -> cong1 p g (p - 1) -> inj_pow p g ->
  forall x, 1 <= x < p -> exists k, 0 <= k < p - 1 /\ g ^ k mod p = x.
Proof.
  intros Hp Hg Hinj x Hx.
  set (n := Z.to_nat (p - 1)).
  set (l := map (fun k => g ^ k mod p) (zrange 0 n)).
  assert (Hnd : NoDup l).
  { subst l. apply NoDup_map_in; [|apply zrange_NoDup].
    intros a b Ha Hb E. apply zrange_In in Ha. apply zrange_In in Hb. apply Hinj; subst n; lia. }
  assert (Hincl : incl l (zrange 1 n)).
  { intros y Hy. subst l. apply in_map_iff in Hy. destruct Hy as [k [E Hk]]. apply zrange_In in Hk.
    apply zrange_In. subst y. pose proof (pow_unit p g k Hp Hg ltac:(lia)). subst n. lia. }
  assert (Hlen : (length (zrange 1 n) <= length l)%nat).
  { subst l. rewrite map_length, !zrange_length. lia. }
  pose proof (NoDup_length_incl Hnd Hlen Hincl) as Hrev.
  assert (Hin : In x (zrange 1 n)) by (apply zrange_In; subst n; lia).
  apply Hrev in Hin. subst l. apply in_map_iff in Hin. destruct Hin as [k [E Hk]].
  apply zrange_In in Hk. exists k. split; [subst n; lia|exact E].
Qed.
