(* Lemmas about Model.HttpProbe: decision rules, secondary requests, fields, time, cancellation. *)
From Coq Require Import ZArith List Bool Lia.
From SX Require Import Model.Socks Model.HttpProbe Proofs.SocksProofs.
Import ListNotations.
Open Scope Z_scope.

(* ---------------------------------------------------------------- wait, specialised *)
Lemma wait_fired_iff now l due t :
  wait now None (Some l) due = Fired t <-> exists d, due = Some d /\ Z.max 0 d < l /\ t = now + Z.max 0 d.
Proof.
  unfold wait, natural. destruct due as [d|].
  - destruct (Z.max 0 d <? l) eqn:E.
    + apply Z.ltb_lt in E. split.
      * intros H. injection H as <-. exists d. auto.
      * intros [d' [H1 [H2 H3]]]. injection H1 as <-. subst. reflexivity.
    + apply Z.ltb_ge in E. split; [discriminate|]. intros [d' [H1 [H2 H3]]]. injection H1 as <-. lia.
  - split; [discriminate|]. intros [d' [H1 _]]. discriminate.
Qed.

Lemma wait_lim_bounds now cancel l due :
  0 <= l -> now <= wr_time now (wait now cancel (Some l) due) <= now + l /\
            wait now cancel (Some l) due <> Forever.
Proof. intros H. destruct (wait_bounds now cancel l due H). auto. Qed.

Lemma wait_cancel_le now tc l due :
  0 <= l -> wr_time now (wait now (Some tc) (Some l) due) <= Z.max now tc.
Proof. intros H. destruct (wait_cancel_bound now tc (Some l) due H) as [_ Hb]. lia. Qed.

(* ---------------------------------------------------------------- elastic: one Get *)
Definition g_time (g : get_res) : Z := match g with GMap t | GNil t | GErr t => t end.

Lemma elastic_get_bounds now cancel T r :
  now <= g_time (elastic_get now cancel T r) <= now + Z.max 0 T.
Proof.
  unfold elastic_get. assert (H0 : 0 <= Z.max 0 T) by lia.
  destruct (wait_lim_bounds now cancel (Z.max 0 T) (resp_due r) H0) as [Hb Hf].
  destruct (wait now cancel (Some (Z.max 0 T)) (resp_due r)) as [t|t|t|]; cbn in Hb; try congruence.
  - destruct r as [d [k|st b]|]; cbn [g_time p_fin pmk rr_time fst snd wr_time]; try lia. destruct (decode_map b); cbn [g_time p_fin pmk rr_time fst snd wr_time]; lia.
  - cbn [g_time p_fin pmk rr_time fst snd wr_time]. lia.
  - cbn [g_time p_fin pmk rr_time fst snd wr_time]. lia.
Qed.

Lemma elastic_get_cancel_le now tc T r :
  g_time (elastic_get now (Some tc) T r) <= Z.max now tc.
Proof.
  unfold elastic_get. assert (H0 : 0 <= Z.max 0 T) by lia.
  pose proof (wait_cancel_le now tc (Z.max 0 T) (resp_due r) H0) as Hb.
  destruct (wait_lim_bounds now (Some tc) (Z.max 0 T) (resp_due r) H0) as [_ Hf].
  destruct (wait now (Some tc) (Some (Z.max 0 T)) (resp_due r)) as [t|t|t|]; cbn in Hb; try congruence.
  - destruct r as [d [k|st b]|]; cbn [g_time p_fin pmk rr_time fst snd wr_time]; try lia. destruct (decode_map b); cbn [g_time p_fin pmk rr_time fst snd wr_time]; lia.
  - cbn [g_time p_fin pmk rr_time fst snd wr_time]. lia.
  - cbn [g_time p_fin pmk rr_time fst snd wr_time]. lia.
Qed.

Lemma resp_due_some r d :
  resp_due r = Some d <->
  (exists k, r = After d (EConnErr k)) \/ (exists st b, r = After d (EResp st b) /\ body_never b = false).
Proof.
  destruct r as [d' [k|st b]|]; cbn.
  - split.
    + intros H. injection H as <-. left. eauto.
    + intros [[k' H]|[st [b [H _]]]]; [injection H as <- _; reflexivity|discriminate].
  - destruct (body_never b) eqn:E.
    + split; [discriminate|]. intros [[k H]|[st' [b' [H Hn]]]]; [discriminate|].
      injection H as _ _ <-. congruence.
    + split.
      * intros H. injection H as <-. right. eauto.
      * intros [[k H]|[st' [b' [H _]]]]; [discriminate|injection H as <- _ _; reflexivity].
  - split; [discriminate|]. intros [[k H]|[st [b [H _]]]]; discriminate.
Qed.

(* the value a Get yields, in terms of the scripted response (no cancellation) *)
Lemma elastic_get_map_iff now T r :
  (exists t, elastic_get now None T r = GMap t) <-> answers_object decode_map (Z.max 0 T) r.
Proof.
  unfold elastic_get, answers_object. split.
  - intros [t H].
    destruct (wait now None (Some (Z.max 0 T)) (resp_due r)) as [t'|t'|t'|] eqn:E; try discriminate.
    apply wait_fired_iff in E. destruct E as [d [Hd [Hl _]]].
    apply resp_due_some in Hd. destruct Hd as [[k ->]|[st [b [-> Hn]]]]; [discriminate|].
    destruct (decode_map b) eqn:Ed; try discriminate. exists d, st, b. auto.
  - intros [d [st [b [-> [Hn [Hl Hd]]]]]].
    assert (E : wait now None (Some (Z.max 0 T)) (resp_due (After d (EResp st b))) = Fired (now + Z.max 0 d)).
    { apply wait_fired_iff. exists d. cbn. rewrite Hn. auto. }
    rewrite E, Hd. eauto.
Qed.

Lemma elastic_get_nil_iff now T r :
  (exists t, elastic_get now None T r = GNil t) <-> answers_null decode_map (Z.max 0 T) r.
Proof.
  unfold elastic_get, answers_null. split.
  - intros [t H].
    destruct (wait now None (Some (Z.max 0 T)) (resp_due r)) as [t'|t'|t'|] eqn:E; try discriminate.
    apply wait_fired_iff in E. destruct E as [d [Hd [Hl _]]].
    apply resp_due_some in Hd. destruct Hd as [[k ->]|[st [b [-> Hn]]]]; [discriminate|].
    destruct (decode_map b) eqn:Ed; try discriminate. exists d, st, b. auto.
  - intros [d [st [b [-> [Hn [Hl Hd]]]]]].
    assert (E : wait now None (Some (Z.max 0 T)) (resp_due (After d (EResp st b))) = Fired (now + Z.max 0 d)).
    { apply wait_fired_iff. exists d. cbn. rewrite Hn. auto. }
    rewrite E, Hd. eauto.
Qed.

(* ---------------------------------------------------------------- elastic: Scan *)
Lemma elastic_report_iff_gen rn T tg s :
  is_preport (p_out (elastic_scan rn T None tg s)) = true <->
  answers_object decode_map (Z.max 0 T) (e_info s) \/
  (rn = false /\ answers_null decode_map (Z.max 0 T) (e_info s)).
Proof.
  rewrite <- elastic_get_map_iff with (now := 0), <- elastic_get_nil_iff with (now := 0).
  unfold elastic_scan.
  destruct (elastic_get 0 None T (e_info s)) as [t|t|t] eqn:E.
  - destruct (elastic_get t None T (e_indexes s)); cbn; split; eauto.
  - destruct rn.
    + cbn. split; [discriminate|]. intros [[t' H]|[H _]]; discriminate.
    + destruct (elastic_get t None T (e_indexes s)); cbn; split; eauto.
  - cbn. split; [discriminate|]. intros [[t' H]|[_ [t' H]]]; discriminate.
Qed.

(* with the nil check: reported iff GET / was answered in time with a body that decodes as an object *)
Lemma elastic_report_iff T tg s :
  is_preport (p_out (elastic_scan true T None tg s)) = true <->
  answers_object decode_map (Z.max 0 T) (e_info s).
Proof.
  rewrite elastic_report_iff_gen. split; [intros [H|[H _]]; [exact H|discriminate]|auto].
Qed.

(* ... and then the record's info is that object *)
Lemma elastic_report_info_object T cancel tg s tg' k b :
  p_out (elastic_scan true T cancel tg s) = PReport tg' k b -> k = IObject.
Proof.
  unfold elastic_scan. destruct (elastic_get 0 cancel T (e_info s)); cbn; try discriminate.
  destruct (elastic_get t cancel T (e_indexes s)); cbn; intros H; injection H as _ <- _; reflexivity.
Qed.

(* without it, the body null is reported although it is not an object *)
Lemma elastic_null_reported T tg idx d st :
  Z.max 0 d < Z.max 0 T ->
  exists b, p_out (elastic_scan false T None tg {| e_info := After d (EResp st BNull); e_indexes := idx |})
            = PReport tg INull b.
Proof.
  intros Hl. unfold elastic_scan, elastic_get at 1. cbn [e_info e_indexes resp_due body_never].
  assert (E : wait 0 None (Some (Z.max 0 T)) (Some d) = Fired (0 + Z.max 0 d)).
  { apply wait_fired_iff. exists d. auto. }
  rewrite E. cbn [decode_map].
  destruct (elastic_get (0 + Z.max 0 d) None T idx); cbn; eauto.
Qed.

(* the record's target is the request's, with or without cancellation *)
Lemma elastic_fields rn T cancel tg s tg' k b :
  p_out (elastic_scan rn T cancel tg s) = PReport tg' k b -> tg' = tg.
Proof.
  unfold elastic_scan. destruct (elastic_get 0 cancel T (e_info s)); cbn; try discriminate.
  - destruct (elastic_get t cancel T (e_indexes s)); cbn; intros H; injection H as <- _ _; reflexivity.
  - destruct rn; cbn; try discriminate.
    destruct (elastic_get t cancel T (e_indexes s)); cbn; intros H; injection H as <- _ _; reflexivity.
Qed.

(* same decision and same primary content whatever the index-list request does *)
Definition same_primary (a b : poutcome) : Prop :=
  match a, b with
  | PReport t1 k1 _, PReport t2 k2 _ => t1 = t2 /\ k1 = k2
  | PError, PError => True
  | _, _ => False
  end.

Lemma elastic_secondary_harmless rn T cancel tg info idx1 idx2 :
  same_primary (p_out (elastic_scan rn T cancel tg {| e_info := info; e_indexes := idx1 |}))
               (p_out (elastic_scan rn T cancel tg {| e_info := info; e_indexes := idx2 |})).
Proof.
  unfold elastic_scan. cbn [e_info e_indexes].
  destruct (elastic_get 0 cancel T info); cbn.
  - destruct (elastic_get t cancel T idx1), (elastic_get t cancel T idx2); cbn; auto.
  - destruct rn; cbn; auto.
    destruct (elastic_get t cancel T idx1), (elastic_get t cancel T idx2); cbn; auto.
  - exact I.
Qed.

(* the index list is attached iff that request was answered in time with an object *)
Lemma elastic_secondary_iff T tg s :
  (exists k, p_out (elastic_scan true T None tg s) = PReport tg k true) <->
  answers_object decode_map (Z.max 0 T) (e_info s) /\ answers_object decode_map (Z.max 0 T) (e_indexes s).
Proof.
  unfold elastic_scan. split.
  - destruct (elastic_get 0 None T (e_info s)) as [t|t|t] eqn:E; cbn; try (intros [k H]; discriminate).
    intros [k H]. split; [apply (elastic_get_map_iff 0); eauto|].
    destruct (elastic_get t None T (e_indexes s)) eqn:E2; cbn in H; try discriminate.
    apply (elastic_get_map_iff t). eauto.
  - intros [H1 H2]. apply (elastic_get_map_iff 0) in H1. destruct H1 as [t ->].
    apply (elastic_get_map_iff t) in H2. destruct H2 as [t' ->]. cbn. eauto.
Qed.

Lemma elastic_time rn T cancel tg s :
  0 <= p_fin (elastic_scan rn T cancel tg s) <= 2 * Z.max 0 T.
Proof.
  unfold elastic_scan.
  pose proof (elastic_get_bounds 0 cancel T (e_info s)) as H1.
  destruct (elastic_get 0 cancel T (e_info s)) as [t|t|t]; cbn in H1.
  - pose proof (elastic_get_bounds t cancel T (e_indexes s)) as H2.
    destruct (elastic_get t cancel T (e_indexes s)); cbn [g_time p_fin pmk rr_time fst snd wr_time] in *; lia.
  - destruct rn; cbn [g_time p_fin pmk rr_time fst snd wr_time]; try lia.
    pose proof (elastic_get_bounds t cancel T (e_indexes s)) as H2.
    destruct (elastic_get t cancel T (e_indexes s)); cbn [g_time p_fin pmk rr_time fst snd wr_time] in *; lia.
  - cbn [g_time p_fin pmk rr_time fst snd wr_time]. lia.
Qed.

Lemma elastic_cancel_prompt rn T tc tg s :
  p_fin (elastic_scan rn T (Some tc) tg s) <= Z.max 0 tc.
Proof.
  unfold elastic_scan.
  pose proof (elastic_get_cancel_le 0 tc T (e_info s)) as H1.
  destruct (elastic_get 0 (Some tc) T (e_info s)) as [t|t|t]; cbn in H1.
  - pose proof (elastic_get_cancel_le t tc T (e_indexes s)) as H2.
    destruct (elastic_get t (Some tc) T (e_indexes s)); cbn [g_time p_fin pmk rr_time fst snd wr_time] in *; lia.
  - destruct rn; cbn [g_time p_fin pmk rr_time fst snd wr_time]; try lia.
    pose proof (elastic_get_cancel_le t tc T (e_indexes s)) as H2.
    destruct (elastic_get t (Some tc) T (e_indexes s)); cbn [g_time p_fin pmk rr_time fst snd wr_time] in *; lia.
  - cbn [g_time p_fin pmk rr_time fst snd wr_time]. lia.
Qed.

(* ---------------------------------------------------------------- docker: requests under one deadline *)
Lemma docker_req_bounds now dl cancel r m :
  now <= dl -> now <= rr_time (docker_req now dl cancel r m) <= dl.
Proof.
  intros Hn. unfold docker_req. assert (H0 : 0 <= Z.max 0 (dl - now)) by lia.
  destruct (wait_lim_bounds now cancel (Z.max 0 (dl - now)) (req_due m r) H0) as [Hb Hf].
  destruct (wait now cancel (Some (Z.max 0 (dl - now))) (req_due m r)) as [t|t|t|]; cbn in Hb; try congruence.
  - destruct r as [d [k|st b]|]; cbn [g_time p_fin pmk rr_time fst snd wr_time]; lia.
  - cbn [g_time p_fin pmk rr_time fst snd wr_time]. lia.
  - cbn [g_time p_fin pmk rr_time fst snd wr_time]. lia.
Qed.

Lemma docker_req_cancel_le now dl tc r m :
  rr_time (docker_req now dl (Some tc) r m) <= Z.max now tc.
Proof.
  unfold docker_req. assert (H0 : 0 <= Z.max 0 (dl - now)) by lia.
  pose proof (wait_cancel_le now tc (Z.max 0 (dl - now)) (req_due m r) H0) as Hb.
  destruct (wait_lim_bounds now (Some tc) (Z.max 0 (dl - now)) (req_due m r) H0) as [_ Hf].
  destruct (wait now (Some tc) (Some (Z.max 0 (dl - now))) (req_due m r)) as [t|t|t|]; cbn in Hb; try congruence.
  - destruct r as [d [k|st b]|]; cbn [g_time p_fin pmk rr_time fst snd wr_time]; lia.
  - cbn [g_time p_fin pmk rr_time fst snd wr_time]. lia.
  - cbn [g_time p_fin pmk rr_time fst snd wr_time]. lia.
Qed.

Lemma docker_ping_bounds now dl cancel s :
  now <= dl -> now <= fst (docker_ping now dl cancel s) <= dl.
Proof.
  intros Hn. unfold docker_ping.
  pose proof (docker_req_bounds now dl cancel (d_ping_head s) MHead Hn) as H1.
  destruct (docker_req now dl cancel (d_ping_head s) MHead) as [t st b|t k|t]; cbn [rr_time] in H1.
  - destruct ((st =? 200) || (st =? 500)); cbn [fst]; [lia|].
    pose proof (docker_req_bounds t dl cancel (d_ping_get s) MDrain). lia.
  - destruct k; cbn [fst]; [lia|].
    pose proof (docker_req_bounds t dl cancel (d_ping_get s) MDrain). lia.
  - cbn [fst]. pose proof (docker_req_bounds t dl cancel (d_ping_get s) MDrain). lia.
Qed.

Lemma docker_ping_cancel_le now dl tc s :
  fst (docker_ping now dl (Some tc) s) <= Z.max now tc.
Proof.
  unfold docker_ping.
  pose proof (docker_req_cancel_le now dl tc (d_ping_head s) MHead) as H1.
  destruct (docker_req now dl (Some tc) (d_ping_head s) MHead) as [t st b|t k|t]; cbn [rr_time] in H1.
  - destruct ((st =? 200) || (st =? 500)); cbn [fst]; [lia|].
    pose proof (docker_req_cancel_le t dl tc (d_ping_get s) MDrain). lia.
  - destruct k; cbn [fst]; [lia|].
    pose proof (docker_req_cancel_le t dl tc (d_ping_get s) MDrain). lia.
  - cbn [fst]. pose proof (docker_req_cancel_le t dl tc (d_ping_get s) MDrain). lia.
Qed.

Lemma docker_call_bounds now dl cancel r :
  now <= dl -> now <= fst (docker_call now dl cancel r) <= dl.
Proof.
  intros Hn. unfold docker_call. pose proof (docker_req_bounds now dl cancel r MBody Hn) as H.
  destruct (docker_req now dl cancel r MBody) as [t st b|t k|t]; cbn [rr_time] in H;
    try (destruct ((200 <=? st) && (st <? 400))); cbn [fst]; lia.
Qed.

Lemma docker_call_cancel_le now dl tc r :
  fst (docker_call now dl (Some tc) r) <= Z.max now tc.
Proof.
  unfold docker_call. pose proof (docker_req_cancel_le now dl tc r MBody) as H.
  destruct (docker_req now dl (Some tc) r MBody) as [t st b|t k|t]; cbn [rr_time] in H;
    try (destruct ((200 <=? st) && (st <? 400))); cbn [fst]; lia.
Qed.

(* what an API call yields, in terms of the scripted response (no cancellation) *)
Definition call_answers (want : decoded) (limit : Z) (r : sched resp_ev) : Prop :=
  exists d st b, r = After d (EResp st b) /\ body_never b = false /\ Z.max 0 d < limit /\
                 200 <= st < 400 /\ decode_struct b = want.

Lemma docker_call_iff now dl r want :
  want <> DErr ->
  snd (docker_call now dl None r) = want <-> call_answers want (Z.max 0 (dl - now)) r.
Proof.
  intros Hw. unfold docker_call, docker_req, call_answers. cbn [req_due]. split.
  - destruct (wait now None (Some (Z.max 0 (dl - now))) (resp_due r)) as [t|t|t|] eqn:E;
      try (cbn; intros H; congruence).
    apply wait_fired_iff in E. destruct E as [d [Hd [Hl _]]].
    apply resp_due_some in Hd. destruct Hd as [[k ->]|[st [b [-> Hn]]]]; [cbn; congruence|].
    destruct ((200 <=? st) && (st <? 400)) eqn:Es; cbn [snd]; [|congruence].
    intros H. exists d, st, b. apply andb_true_iff in Es. destruct Es as [E1 E2].
    apply Z.leb_le in E1. apply Z.ltb_lt in E2. repeat split; auto.
  - intros [d [st [b [-> [Hn [Hl [Hs Hd]]]]]]].
    assert (E : wait now None (Some (Z.max 0 (dl - now))) (resp_due (After d (EResp st b))) = Fired (now + Z.max 0 d)).
    { apply wait_fired_iff. exists d. cbn. rewrite Hn. auto. }
    rewrite E.
    assert (Es : (200 <=? st) && (st <? 400) = true).
    { apply andb_true_iff. split; [apply Z.leb_le|apply Z.ltb_lt]; lia. }
    rewrite Es. exact Hd.
Qed.

(* ---------------------------------------------------------------- docker: Scan *)
Definition docker_t0 (T : Z) (cancel : option Z) (s : dscript) : Z := fst (docker_ping 0 (Z.max 0 T) cancel s).

Lemma docker_scan_unfold T cancel tg s :
  docker_scan T cancel tg s =
  let dl := Z.max 0 T in
  let t0 := docker_t0 T cancel s in
  let pings := snd (docker_ping 0 dl cancel s) in
  let r1 := pings ++ issued t0 (dl - t0) cancel SInfo in
  match snd (docker_call t0 dl cancel (d_info s)) with
  | DErr => pmk PError (fst (docker_call t0 dl cancel (d_info s))) r1
  | k =>
      let t1 := fst (docker_call t0 dl cancel (d_info s)) in
      let info := match k with DNull => INull | _ => IObject end in
      let r2 := r1 ++ issued t1 (dl - t1) cancel SVersion in
      match snd (docker_call t1 dl cancel (d_version s)) with
      | DObject => pmk (PReport tg info true) (fst (docker_call t1 dl cancel (d_version s))) r2
      | _ => pmk (PReport tg info false) (fst (docker_call t1 dl cancel (d_version s))) r2
      end
  end.
Proof.
  unfold docker_scan, docker_t0. cbv zeta.
  destruct (docker_ping 0 (Z.max 0 T) cancel s) as [t0 pings]. cbn [fst snd].
  destruct (docker_call t0 (Z.max 0 T) cancel (d_info s)) as [t1 k]. cbn [fst snd].
  destruct k; try reflexivity;
    destruct (docker_call t1 (Z.max 0 T) cancel (d_version s)) as [t2 k2]; cbn [fst snd]; destruct k2; reflexivity.
Qed.

(* reported iff the /info call, started when the version negotiation is over, succeeds in the time
   that is left: status 2xx/3xx and a body that decodes -- as an object, or (the defect) as null *)
Lemma docker_report_iff T tg s :
  let limit := Z.max 0 (Z.max 0 T - docker_t0 T None s) in
  is_preport (p_out (docker_scan T None tg s)) = true <->
  call_answers DObject limit (d_info s) \/ call_answers DNull limit (d_info s).
Proof.
  cbv zeta. rewrite docker_scan_unfold. cbv zeta.
  rewrite <- (docker_call_iff (docker_t0 T None s) (Z.max 0 T) (d_info s) DObject) by discriminate.
  rewrite <- (docker_call_iff (docker_t0 T None s) (Z.max 0 T) (d_info s) DNull) by discriminate.
  destruct (snd (docker_call (docker_t0 T None s) (Z.max 0 T) None (d_info s))) eqn:E.
  - destruct (snd (docker_call _ _ None (d_version s))); cbn; split; auto.
  - destruct (snd (docker_call _ _ None (d_version s))); cbn; split; auto.
  - cbn. split; [discriminate|]. intros [H|H]; discriminate.
Qed.

(* the statement of the property, under the guard that excludes the body null *)
Lemma docker_report_iff_partial T tg s :
  (forall d st, d_info s <> After d (EResp st BNull)) ->
  let limit := Z.max 0 (Z.max 0 T - docker_t0 T None s) in
  is_preport (p_out (docker_scan T None tg s)) = true <-> call_answers DObject limit (d_info s).
Proof.
  intros Hn. cbv zeta. rewrite docker_report_iff. split; [|auto].
  intros [H|[d [st [b [Hr [_ [_ [_ Hd]]]]]]]]; [exact H|].
  exfalso. destruct b; cbn in Hd; try discriminate. exact (Hn d st Hr).
Qed.

Lemma docker_null_reported T tg ph pg ver d st :
  200 <= st < 400 ->
  Z.max 0 d < Z.max 0 (Z.max 0 T - docker_t0 T None {| d_ping_head := ph; d_ping_get := pg;
                                                         d_info := After d (EResp st BNull); d_version := ver |}) ->
  exists b, p_out (docker_scan T None tg {| d_ping_head := ph; d_ping_get := pg;
                                            d_info := After d (EResp st BNull); d_version := ver |})
            = PReport tg INull b.
Proof.
  intros Hs Hl. set (s := {| d_ping_head := ph; d_ping_get := pg; d_info := After d (EResp st BNull); d_version := ver |}) in *.
  assert (C : snd (docker_call (docker_t0 T None s) (Z.max 0 T) None (d_info s)) = DNull).
  { apply docker_call_iff; [discriminate|]. exists d, st, BNull. cbn. repeat split; auto; lia. }
  rewrite docker_scan_unfold. cbv zeta. rewrite C.
  destruct (snd (docker_call _ _ None (d_version s))); cbn; eauto.
Qed.

Lemma docker_fields T cancel tg s tg' k b :
  p_out (docker_scan T cancel tg s) = PReport tg' k b -> tg' = tg.
Proof.
  rewrite docker_scan_unfold. cbv zeta.
  destruct (snd (docker_call _ _ cancel (d_info s))); cbn; try discriminate;
    destruct (snd (docker_call _ _ cancel (d_version s))); cbn; intros H; injection H as <- _ _; reflexivity.
Qed.

Lemma docker_secondary_harmless T cancel tg ph pg info v1 v2 :
  same_primary
    (p_out (docker_scan T cancel tg {| d_ping_head := ph; d_ping_get := pg; d_info := info; d_version := v1 |}))
    (p_out (docker_scan T cancel tg {| d_ping_head := ph; d_ping_get := pg; d_info := info; d_version := v2 |})).
Proof.
  rewrite !docker_scan_unfold. cbv zeta. unfold docker_t0, docker_ping. cbn [d_ping_head d_ping_get d_info d_version].
  set (t0 := fst _).
  destruct (snd (docker_call t0 (Z.max 0 T) cancel info)); cbn;
    try exact I;
    destruct (snd (docker_call _ _ cancel v1)), (snd (docker_call _ _ cancel v2)); cbn; auto.
Qed.

Lemma docker_time T cancel tg s :
  0 <= p_fin (docker_scan T cancel tg s) <= Z.max 0 T.
Proof.
  rewrite docker_scan_unfold. cbv zeta.
  assert (H0 : 0 <= Z.max 0 T) by lia.
  pose proof (docker_ping_bounds 0 (Z.max 0 T) cancel s H0) as Hp. fold (docker_t0 T cancel s) in Hp.
  pose proof (docker_call_bounds (docker_t0 T cancel s) (Z.max 0 T) cancel (d_info s)) as H1.
  set (t1 := fst (docker_call (docker_t0 T cancel s) (Z.max 0 T) cancel (d_info s))) in *.
  pose proof (docker_call_bounds t1 (Z.max 0 T) cancel (d_version s)) as H2.
  destruct (snd (docker_call (docker_t0 T cancel s) (Z.max 0 T) cancel (d_info s))); cbn [g_time p_fin pmk rr_time fst snd wr_time];
    try lia; destruct (snd (docker_call t1 (Z.max 0 T) cancel (d_version s))); cbn [g_time p_fin pmk rr_time fst snd wr_time]; lia.
Qed.

Lemma docker_cancel_prompt T tc tg s :
  p_fin (docker_scan T (Some tc) tg s) <= Z.max 0 tc.
Proof.
  rewrite docker_scan_unfold. cbv zeta.
  pose proof (docker_ping_cancel_le 0 (Z.max 0 T) tc s) as Hp. fold (docker_t0 T (Some tc) s) in Hp.
  pose proof (docker_call_cancel_le (docker_t0 T (Some tc) s) (Z.max 0 T) tc (d_info s)) as H1.
  set (t1 := fst (docker_call (docker_t0 T (Some tc) s) (Z.max 0 T) (Some tc) (d_info s))) in *.
  pose proof (docker_call_cancel_le t1 (Z.max 0 T) tc (d_version s)) as H2.
  destruct (snd (docker_call (docker_t0 T (Some tc) s) (Z.max 0 T) (Some tc) (d_info s))); cbn [g_time p_fin pmk rr_time fst snd wr_time];
    try lia; destruct (snd (docker_call t1 (Z.max 0 T) (Some tc) (d_version s))); cbn [g_time p_fin pmk rr_time fst snd wr_time]; lia.
Qed.

(* when the version negotiation is answered at once (any answers), the time left for /info is the
   whole timeout; in general it is what the pings leave *)
Lemma docker_t0_bounds T cancel s : 0 <= docker_t0 T cancel s <= Z.max 0 T.
Proof. apply docker_ping_bounds. lia. Qed.
