(* Lemmas about Model/Receiver.v for C20.  All statements are about [recv] started at an arbitrary
   iteration index [i] with [nq] errors already sent (the induction needs that generality);
   Properties/C20.v instantiates them at [receive]. *)
From Coq Require Import String Ascii Bool Arith Lia List.
From SX Require Import Gen.ReceiverTable Model.Receiver Spec.C20.
Import ListNotations.

Local Open Scope nat_scope.

(* one case split per construct of the loop body *)
Ltac body_cases :=
  repeat match goal with
  | |- context [match ?st with SFrame _ _ => _ | SErr _ => _ end] => is_var st; destruct st
  | |- context [match ?p with Some _ => _ | None => _ end] => is_var p; destruct p
  | |- context [match classify ?e with Transient => _ | Unrecoverable => _ | Unknown => _ end] =>
      destruct (classify e) eqn:?
  | |- context [match try_send ?P ?c ?n with Sent => _ | Stopped => _ | Blocked => _ end] =>
      destruct (try_send P c n) eqn:?
  | |- context [if cancel_hits ?P ?i then _ else _] => destruct (cancel_hits P i) eqn:?
  end.

Section Proofs.
Variable P : params.

Notation recv := (recv P).

(* ------------------------------------------------------------------ number of read calls *)
Lemma recv_reads_ge : forall s i nq, i <= o_reads (recv i nq s).
Proof.
  induction s as [|st s IH]; intros i nq; cbn [Receiver.recv]; [cbn; lia|].
  body_cases; cbn [o_reads add_frame add_err stop];
    try lia; try (specialize (IH (S i) nq); lia); try (specialize (IH (S i) (S nq)); lia).
Qed.

Lemma recv_reads_cons : forall st s i nq, S i <= o_reads (recv i nq (st :: s)).
Proof.
  intros st s i nq; cbn [Receiver.recv].
  body_cases; cbn [o_reads add_frame add_err stop];
    try lia; try apply recv_reads_ge.
Qed.

Lemma recv_reads_le : forall s i nq, o_reads (recv i nq s) <= i + length s.
Proof.
  induction s as [|st s IH]; intros i nq; cbn [Receiver.recv length]; [cbn; lia|].
  body_cases; cbn [o_reads add_frame add_err stop];
    try lia; try (specialize (IH (S i) nq); lia); try (specialize (IH (S i) (S nq)); lia).
Qed.

(* only a script that is used up leaves the receiver waiting in a read call *)
Lemma recv_await : forall s i nq, o_final (recv i nq s) = AwaitRead -> o_reads (recv i nq s) = i + length s.
Proof.
  induction s as [|st s IH]; intros i nq; cbn [Receiver.recv length]; [cbn; lia|].
  body_cases; cbn [o_reads o_final add_frame add_err stop]; try discriminate;
    intros H; apply IH in H; lia.
Qed.

(* ------------------------------------------------------------------ frames *)
Lemma firstn_S_cons {A} (x : A) l n : firstn (S n) (x :: l) = x :: firstn n l.
Proof. reflexivity. Qed.

Lemma sub_S_S a i : S i <= a -> a - i = S (a - S i).
Proof. lia. Qed.

Lemma recv_frames : forall s i nq,
  o_frames (recv i nq s) = frames_of (firstn (o_reads (recv i nq s) - i) s).
Proof.
  induction s as [|st s IH]; intros i nq.
  - cbn. rewrite Nat.sub_diag. reflexivity.
  - rewrite (sub_S_S _ _ (recv_reads_cons st s i nq)), firstn_S_cons.
    cbn [Receiver.recv]. unfold frames_of. cbn [flat_map].
    body_cases; cbn [o_frames o_reads add_frame add_err stop step_frames app];
      rewrite ?Nat.sub_diag; cbn [firstn flat_map]; try reflexivity;
      try (f_equal; apply IH); apply IH.
Qed.

(* ------------------------------------------------------------------ errors on the channel *)
Lemma try_send_stopped : forall c nq, try_send P c nq = Stopped -> c = true /\ p_send_wins P = false.
Proof.
  intros c nq H. unfold try_send in H. destruct c.
  - destruct (p_send_wins P); [discriminate|split; reflexivity].
  - destruct (negb (p_drained P) && Nat.leb (p_cap P) nq); discriminate.
Qed.

Lemma recv_errs : forall s i nq,
  exists rest,
    reports_from i (firstn (o_reads (recv i nq s) - i) s) = o_errs (recv i nq s) ++ rest /\
    length rest <= 1 /\
    (rest <> [] -> o_final (recv i nq s) = BlockedSend \/
                   (cancel_hits P (o_reads (recv i nq s) - 1) = true /\ p_send_wins P = false)).
Proof.
  induction s as [|st s IH]; intros i nq.
  - exists []. cbn. rewrite Nat.sub_diag. cbn. repeat split; try lia. intros H; now elim H.
  - rewrite (sub_S_S _ _ (recv_reads_cons st s i nq)), firstn_S_cons.
    cbn [Receiver.recv reports_from].
    body_cases; cbn [o_errs o_reads o_final add_frame add_err stop step_reports app];
      rewrite ?Nat.sub_diag; cbn [firstn reports_from app];
      repeat match goal with H : classify _ = _ |- _ => rewrite H end; cbn [app];
      try (exists []; repeat split; cbn; try lia; intros HH; now elim HH);
      try (destruct (IH (S i) nq) as [rest [E [L B]]]; exists rest; rewrite E; repeat split; assumption);
      try (destruct (IH (S i) (S nq)) as [rest [E [L B]]]; exists rest; rewrite E; repeat split; assumption);
      try (eexists [_]; repeat split; [cbn; lia|]; intros _;
           first [left; reflexivity
                 | right; replace (S i - 1) with i by lia;
                   match goal with H : try_send _ _ _ = Stopped |- _ => exact (try_send_stopped _ _ H) end]).
Qed.

(* a channel that is being received from never blocks the receiver *)
Lemma recv_drained_never_blocks : p_drained P = true -> forall s i nq, o_final (recv i nq s) <> BlockedSend.
Proof.
  intros D. induction s as [|st s IH]; intros i nq; cbn [Receiver.recv]; [cbn; discriminate|].
  body_cases; cbn [o_final add_frame add_err stop]; try discriminate; try apply IH;
    match goal with H : try_send _ _ _ = Blocked |- _ =>
      unfold try_send in H; rewrite D in H; cbn in H;
      repeat match type of H with context [if ?b then _ else _] => destruct b end; discriminate end.
Qed.

Lemma no_cancel_hits : p_cancel P = NoCancel -> forall i, cancel_hits P i = false.
Proof. intros H i. unfold cancel_hits. rewrite H. reflexivity. Qed.

(* with a draining consumer and no cancellation every report is delivered *)
Lemma recv_errs_exact : p_drained P = true -> p_cancel P = NoCancel -> forall s i nq,
  o_errs (recv i nq s) = reports_from i (firstn (o_reads (recv i nq s) - i) s).
Proof.
  intros D C s i nq. destruct (recv_errs s i nq) as [rest [E [L B]]].
  destruct rest as [|r rest].
  - rewrite app_nil_r in E. symmetry. exact E.
  - exfalso. destruct B as [B|[B _]]; [discriminate| |].
    + exact (recv_drained_never_blocks D s i nq B).
    + rewrite (no_cancel_hits C) in B. discriminate.
Qed.

(* ------------------------------------------------------------------ progress and ending *)
Lemma try_send_free : p_drained P = true -> forall nq, try_send P false nq = Sent.
Proof. intros D nq. unfold try_send. rewrite D. reflexivity. Qed.

Lemma recv_progress : p_drained P = true -> p_cancel P = NoCancel -> forall s i nq,
  o_reads (recv i nq s) = i + consumed s /\
  o_final (recv i nq s) = if existsb is_unrec_step s then Closed else AwaitRead.
Proof.
  intros D C. induction s as [|st s IH]; intros i nq; cbn [Receiver.recv consumed existsb].
  - cbn. split; [lia|reflexivity].
  - rewrite (no_cancel_hits C), (try_send_free D).
    destruct st as [id [e|]|e]; cbn [is_unrec_step orb o_reads o_final add_frame add_err].
    + destruct (IH (S i) (S nq)) as [R F]. rewrite R, F. split; [lia|reflexivity].
    + destruct (IH (S i) nq) as [R F]. rewrite R, F. split; [lia|reflexivity].
    + destruct (classify e); cbn [orb o_reads o_final add_err stop].
      * destruct (IH (S i) nq) as [R F]. rewrite R, F. split; [lia|reflexivity].
      * split; [lia|reflexivity].
      * destruct (IH (S i) (S nq)) as [R F]. rewrite R, F. split; [lia|reflexivity].
Qed.

(* nothing is read after an unrecoverable error, and reading it closes the channel *)
Lemma recv_closed_ends : forall s k st i nq,
  nth_error s k = Some st -> is_unrec_step st = true ->
  o_reads (recv i nq s) <= i + k + 1 /\
  (o_reads (recv i nq s) = i + k + 1 -> o_final (recv i nq s) = Closed).
Proof.
  induction s as [|st0 s IH]; intros k st i nq N U; [destruct k; discriminate|].
  destruct k as [|k]; cbn [nth_error] in N.
  - injection N as ->. destruct st as [id p|e]; [discriminate|]. cbn [is_unrec_step] in U.
    cbn [Receiver.recv]. destruct (classify e); try discriminate. cbn. split; [lia|reflexivity].
  - cbn [Receiver.recv].
    body_cases; cbn [o_reads o_final add_frame add_err stop]; try (split; [lia|intros; lia]);
      try (destruct (IH k st (S i) nq N U) as [A B]; split; [lia|intros HH; apply B; lia]);
      try (destruct (IH k st (S i) (S nq) N U) as [A B]; split; [lia|intros HH; apply B; lia]).
Qed.

(* cancellation during read call k: at most k+1 read calls, and the channel is closed *)
Lemma recv_cancel_ends : forall k, p_cancel P = CancelDuring k -> forall s i nq, i <= k ->
  o_reads (recv i nq s) <= k + 1 /\
  (o_reads (recv i nq s) = k + 1 -> o_final (recv i nq s) = Closed) /\
  (k < i + length s -> o_final (recv i nq s) <> AwaitRead).
Proof.
  intros k C. assert (HC : forall i, cancel_hits P i = Nat.eqb k i) by (intros; unfold cancel_hits; now rewrite C).
  induction s as [|st s IH]; intros i nq L.
  - cbn. split; [lia|split; [intros; lia|intros; lia]].
  - cbn [Receiver.recv length]. rewrite HC. destruct (Nat.eqb_spec k i) as [->|NE].
    + assert (T : forall nq, try_send P true nq <> Blocked)
        by (intros n; unfold try_send; destruct (p_send_wins P); discriminate).
      body_cases; cbn [o_reads o_final add_frame add_err stop];
        try (match goal with H : try_send _ true _ = Blocked |- _ => now apply T in H end);
        (split; [lia|split; [intros _; reflexivity|intros _; discriminate]]).
    + assert (L' : S i <= k) by lia.
      body_cases; cbn [o_reads o_final add_frame add_err stop];
        try (destruct (IH (S i) nq L') as [A [B D]]; split; [lia|split; [exact B|intros; apply D; lia]]);
        try (destruct (IH (S i) (S nq) L') as [A [B D]]; split; [lia|split; [exact B|intros; apply D; lia]]);
        (split; [lia|split; [intros; lia|intros; discriminate]]).
Qed.

(* ------------------------------------------------------------------ the buffer *)
Lemma recv_buffer : p_drained P = false -> p_cancel P = NoCancel -> forall s i nq,
  nq <= p_cap P ->
  nq + length (o_errs (recv i nq s)) <= p_cap P /\
  (o_final (recv i nq s) = BlockedSend -> nq + length (o_errs (recv i nq s)) = p_cap P).
Proof.
  intros D C. induction s as [|st s IH]; intros i nq L; cbn [Receiver.recv].
  - cbn. split; [lia|discriminate].
  - rewrite (no_cancel_hits C).
    assert (TS : forall n, try_send P false n = if Nat.leb (p_cap P) n then Blocked else Sent)
      by (intros n; unfold try_send; rewrite D; reflexivity).
    rewrite !TS. destruct (Nat.leb_spec (p_cap P) nq) as [F|F].
    + body_cases; cbn [o_errs o_final add_frame add_err stop length];
        try (split; [lia|intros; lia]); try (split; [lia|discriminate]);
        destruct (IH (S i) nq L) as [A B]; split; assumption.
    + body_cases; cbn [o_errs o_final add_frame add_err stop length]; try (split; [lia|discriminate]);
        try (destruct (IH (S i) nq L) as [A B]; split; assumption);
        destruct (IH (S i) (S nq) F) as [A B]; (split; [lia|intros HH; apply B in HH; lia]).
Qed.

End Proofs.

(* ------------------------------------------------------------------ comparing two parameter sets *)

Definition with_drained (P : params) (d : bool) : params :=
  {| p_cap := p_cap P; p_drained := d; p_send_wins := p_send_wins P; p_cancel := p_cancel P |}.

Definition with_cancel (P : params) (w : bool) (c : cancel) : params :=
  {| p_cap := p_cap P; p_drained := p_drained P; p_send_wins := w; p_cancel := c |}.

Definition set_final (o : obs) (f : final) : obs :=
  {| o_frames := o_frames o; o_errs := o_errs o; o_reads := o_reads o; o_final := f |}.

(* as long as the reports fit into the buffer, a consumer that never receives makes no difference *)
Lemma recv_undrained_same : forall P, p_cancel P = NoCancel -> forall s i nq,
  nq + length (reports_from i (firstn (consumed s) s)) <= p_cap P ->
  recv (with_drained P false) i nq s = recv (with_drained P true) i nq s.
Proof.
  intros P C. induction s as [|st s IH]; intros i nq L; [reflexivity|].
  cbn [recv]. unfold cancel_hits. cbn [p_cancel with_drained]. rewrite C.
  cbn [consumed] in L.
  assert (TS : forall n, n < p_cap P -> try_send (with_drained P false) false n = Sent).
  { intros n H. unfold try_send. cbn [p_drained with_drained p_cap negb andb].
    destruct (Nat.leb_spec (p_cap P) n); [lia|reflexivity]. }
  assert (TD : forall n, try_send (with_drained P true) false n = Sent) by reflexivity.
  destruct st as [id [e|]|e]; cbn [is_unrec_step] in L.
  - cbn [firstn reports_from step_reports app length] in L.
    rewrite TS, TD by lia. f_equal. f_equal. apply IH. lia.
  - cbn [firstn reports_from step_reports app length] in L. f_equal. apply IH. lia.
  - destruct (classify e) eqn:K; cbn [firstn reports_from step_reports app length] in L; rewrite ?K in L;
      cbn [app length] in L.
    + apply IH. lia.
    + reflexivity.
    + rewrite TS, TD by lia. f_equal. apply IH. lia.
Qed.

(* a receiver that is blocked on the full channel is released by a cancellation: same frames, same
   errors, the channel gets closed.  (A cancellation that arrives while the goroutine is blocked in
   the send of iteration k is [CancelDuring k].) *)
Lemma recv_blocked_reads : forall P s i nq,
  o_final (recv P i nq s) = BlockedSend -> S i <= o_reads (recv P i nq s).
Proof. intros P [|st s] i nq H; [cbn in H; discriminate|apply recv_reads_cons]. Qed.

Ltac contra_blocked :=
  match goal with
  | B : o_final (recv ?P (S ?i) ?n ?s) = BlockedSend |- _ => apply recv_blocked_reads in B; lia
  | R : o_reads (recv ?P (S ?i) ?n ?s) <= ?i |- _ => pose proof (recv_reads_ge P s (S i) n); lia
  end.

Lemma recv_cancel_later : forall P, p_cancel P = NoCancel -> forall k s i nq, i <= k ->
  (o_reads (recv P i nq s) <= k ->
     recv (with_cancel P false (CancelDuring k)) i nq s = recv P i nq s) /\
  (o_reads (recv P i nq s) = S k -> o_final (recv P i nq s) = BlockedSend ->
     recv (with_cancel P false (CancelDuring k)) i nq s = set_final (recv P i nq s) Closed).
Proof.
  intros P C k. set (P' := with_cancel P false (CancelDuring k)).
  assert (TF : forall n, try_send P' false n = try_send P false n) by reflexivity.
  assert (TT : forall n, try_send P' true n = Stopped) by reflexivity.
  assert (NS : forall n, try_send P false n <> Stopped).
  { intros n H. apply try_send_stopped in H. destruct H; discriminate. }
  assert (HC : forall i, cancel_hits P' i = Nat.eqb k i) by reflexivity.
  induction s as [|st s IH]; intros i nq L.
  - cbn. split; [reflexivity|discriminate].
  - cbn [recv]. rewrite HC, (no_cancel_hits P C). destruct (Nat.eqb_spec k i) as [->|NE].
    + (* the cancellation fires in this very iteration *)
      rewrite !TT. split.
      * intros R. exfalso. revert R.
        destruct st as [id [e|]|e]; [| |destruct (classify e)]; try destruct (try_send P false nq);
          cbn [o_reads add_frame add_err stop]; intros R;
          try lia; contra_blocked.
      * destruct st as [id [e|]|e]; [| |destruct (classify e)]; try destruct (try_send P false nq) eqn:T;
          cbn [o_reads o_final add_frame add_err stop]; intros R B;
          try discriminate; try reflexivity; try (now apply NS in T); contra_blocked.
    + assert (L' : S i <= k) by lia. rewrite !TF.
      destruct st as [id [e|]|e]; [| |destruct (classify e)]; try destruct (try_send P false nq) eqn:T;
        cbn [o_reads o_final add_frame add_err stop set_final o_frames o_errs];
        try (now apply NS in T);
        try (split; [reflexivity|intros; lia]);
        try (destruct (IH (S i) nq L') as [A B]; split;
             [intros R; rewrite (A R); reflexivity|intros R F; rewrite (B R F); reflexivity]);
        try (destruct (IH (S i) (S nq) L') as [A B]; split;
             [intros R; rewrite (A R); reflexivity|intros R F; rewrite (B R F); reflexivity]).
Qed.

Lemma recv_blocked_released : forall P, p_cancel P = NoCancel -> forall s i nq,
  o_final (recv P i nq s) = BlockedSend ->
  recv (with_cancel P false (CancelDuring (o_reads (recv P i nq s) - 1))) i nq s
  = set_final (recv P i nq s) Closed.
Proof.
  intros P C s i nq B. assert (R := recv_blocked_reads P s i nq B).
  destruct (recv_cancel_later P C (o_reads (recv P i nq s) - 1) s i nq) as [_ H]; [lia|].
  apply H; [lia|exact B].
Qed.

(* transient errors are invisible: deleting them from the script changes neither the frames, nor the
   errors, nor how the run ends *)
Definition not_transient (st : step) : bool := negb (is_transient_step st).

Lemma recv_transient_silent : forall P, p_cancel P = NoCancel -> forall s i i' nq,
  o_frames (recv P i' nq (filter not_transient s)) = o_frames (recv P i nq s) /\
  map report_key (o_errs (recv P i' nq (filter not_transient s))) = map report_key (o_errs (recv P i nq s)) /\
  o_final (recv P i' nq (filter not_transient s)) = o_final (recv P i nq s).
Proof.
  intros P C. induction s as [|st s IH]; intros i i' nq.
  - cbn. repeat split.
  - destruct st as [id [e|]|e].
    + cbn [filter not_transient is_transient_step negb recv]. rewrite !(no_cancel_hits P C).
      destruct (try_send P false nq); cbn [o_frames o_errs o_final add_frame add_err stop map report_key];
        try (repeat split; reflexivity).
      destruct (IH (S i) (S i') (S nq)) as [A [B D]]. rewrite A, B, D. repeat split.
    + cbn [filter not_transient is_transient_step negb recv]. rewrite !(no_cancel_hits P C).
      cbn [o_frames o_errs o_final add_frame]. destruct (IH (S i) (S i') nq) as [A [B D]].
      rewrite A, B, D. repeat split.
    + assert (NT : not_transient (SErr e) = match classify e with Transient => false | _ => true end)
        by (unfold not_transient; cbn [is_transient_step]; destruct (classify e); reflexivity).
      cbn [filter]. rewrite NT. destruct (classify e) eqn:K.
      * cbn [recv]. rewrite K, (no_cancel_hits P C). apply IH.
      * cbn [recv]. rewrite K. cbn. repeat split.
      * cbn [recv]. rewrite K, !(no_cancel_hits P C).
        destruct (try_send P false nq); cbn [o_frames o_errs o_final add_frame add_err stop map report_key];
          try (repeat split; reflexivity).
        destruct (IH (S i) (S i') (S nq)) as [A [B D]]. rewrite A, B, D. repeat split.
Qed.

(* ------------------------------------------------------------------ classification
   (statements in the vocabulary of the property; they depend on Gen.ReceiverTable) *)

Lemma classify_is_target : forall e t, In t temporary_is_targets -> errors_is e t = true -> classify e = Transient.
Proof.
  intros e t I H. unfold classify, is_temporary.
  assert (X : existsb (errors_is e) temporary_is_targets = true) by (apply existsb_exists; exists t; split; assumption).
  rewrite X. reflexivity.
Qed.

Lemma classify_is_eagain : forall e, errors_is e "syscall.EAGAIN" = true -> classify e = Transient.
Proof. intros e. apply classify_is_target. cbn. tauto. Qed.

Lemma classify_is_econnreset : forall e, errors_is e "syscall.ECONNRESET" = true -> classify e = Transient.
Proof. intros e. apply classify_is_target. cbn. tauto. Qed.

Lemma classify_timeout : forall e, is_neterr e = true -> timeout_m e = true -> classify e = Transient.
Proof.
  intros e H T. unfold classify, is_temporary, temporary_neterr_timeout. rewrite H, T.
  rewrite orb_true_r. reflexivity.
Qed.

Lemma classify_transient_only : forall e, classify e = Transient ->
  errors_is e "syscall.EAGAIN" = true \/ errors_is e "syscall.ECONNRESET" = true \/
  (is_neterr e = true /\ timeout_m e = true).
Proof.
  intros e. unfold classify. destruct (is_temporary e) eqn:T.
  - intros _. unfold is_temporary, temporary_is_targets, temporary_neterr_timeout in T. cbn [existsb] in T.
    destruct (errors_is e "syscall.EAGAIN"); [left; reflexivity|].
    destruct (errors_is e "syscall.ECONNRESET"); [right; left; reflexivity|].
    cbn in T. apply andb_true_iff in T. right; right. exact T.
  - destruct (is_unrecoverable e); discriminate.
Qed.

Definition closed_values : list string :=
  ["io.EOF"; "io.ErrUnexpectedEOF"; "io.ErrNoProgress"; "io.ErrClosedPipe"; "io.ErrShortBuffer"; "syscall.EBADF"]%string.

Lemma classify_closed_values : forall v, In v closed_values -> classify (ESent v) = Unrecoverable.
Proof.
  intros v H. cbn in H.
  repeat (destruct H as [<-|H]; [vm_compute; reflexivity|]). now elim H.
Qed.

Lemma classify_closed_text : forall e, is_temporary e = false ->
  contains "use of closed file" (err_text e) = true -> classify e = Unrecoverable.
Proof.
  intros e T H. unfold classify. rewrite T. unfold is_unrecoverable, unrecoverable_text. rewrite H.
  rewrite orb_true_r. reflexivity.
Qed.

Lemma err_eq_sent_true : forall e v, err_eq_sent e v = true -> e = ESent v.
Proof.
  intros [n| | | | |] v H; try discriminate. cbn in H. apply String.eqb_eq in H. now subst.
Qed.

Lemma classify_unrecoverable_only : forall e, classify e = Unrecoverable ->
  (exists v, In v closed_values /\ e = ESent v) \/ contains "use of closed file" (err_text e) = true.
Proof.
  intros e. unfold classify. destruct (is_temporary e); [discriminate|].
  destruct (is_unrecoverable e) eqn:U; [intros _|discriminate].
  unfold is_unrecoverable, unrecoverable_text in U. apply orb_true_iff in U. destruct U as [U|U]; [left|right; exact U].
  apply existsb_exists in U. destruct U as [v [I E]]. exists v. split; [|apply err_eq_sent_true; exact E].
  unfold unrecoverable_values in I. cbn in I. repeat (destruct I as [<-|I]; [cbn; tauto|]). now elim I.
Qed.

(* ------------------------------------------------------------------ the same, for [receive] *)
Section ReceiveLevel.
Variable P : params.

Lemma receive_frames : forall s,
  o_frames (receive P s) = frames_of (firstn (o_reads (receive P s)) s).
Proof.
  intros s. unfold receive. destruct (p_cancel P); try reflexivity;
    rewrite (recv_frames P s 0 0), Nat.sub_0_r; reflexivity.
Qed.

Lemma receive_errs : forall s,
  exists rest,
    reports_from 0 (firstn (o_reads (receive P s)) s) = o_errs (receive P s) ++ rest /\
    length rest <= 1 /\
    (rest <> [] -> o_final (receive P s) = BlockedSend \/
                   (p_cancel P = CancelDuring (o_reads (receive P s) - 1) /\ p_send_wins P = false)).
Proof.
  intros s. unfold receive. destruct (p_cancel P) eqn:C.
  - destruct (recv_errs P s 0 0) as [rest [E [L B]]]. exists rest. rewrite Nat.sub_0_r in E.
    split; [exact E|split; [exact L|]]. intros N. destruct (B N) as [B1|[B1 B2]]; [left; exact B1|].
    unfold cancel_hits in B1. rewrite C in B1. discriminate.
  - exists []. cbn. split; [reflexivity|split; [lia|intros N; now elim N]].
  - destruct (recv_errs P s 0 0) as [rest [E [L B]]]. exists rest. rewrite Nat.sub_0_r in E.
    split; [exact E|split; [exact L|]]. intros N. destruct (B N) as [B1|[B1 B2]]; [left; exact B1|].
    right. split; [|exact B2]. unfold cancel_hits in B1. rewrite C in B1. apply Nat.eqb_eq in B1. now subst.
Qed.

Lemma receive_errs_exact : p_drained P = true -> p_cancel P = NoCancel -> forall s,
  o_errs (receive P s) = reports_from 0 (firstn (o_reads (receive P s)) s).
Proof.
  intros D C s. unfold receive. rewrite C. rewrite (recv_errs_exact P D C s 0 0), Nat.sub_0_r. reflexivity.
Qed.

Lemma receive_progress : p_drained P = true -> p_cancel P = NoCancel -> forall s,
  o_reads (receive P s) = consumed s /\
  o_final (receive P s) = if existsb is_unrec_step s then Closed else AwaitRead.
Proof. intros D C s. unfold receive. rewrite C. exact (recv_progress P D C s 0 0). Qed.

Lemma receive_closed_ends : forall s k st,
  nth_error s k = Some st -> is_unrec_step st = true ->
  o_reads (receive P s) <= k + 1 /\ (o_reads (receive P s) = k + 1 -> o_final (receive P s) = Closed).
Proof.
  intros s k st N U. unfold receive. destruct (p_cancel P);
    try exact (recv_closed_ends P s k st 0 0 N U). cbn. split; [lia|reflexivity].
Qed.

Lemma receive_cancel_ends : forall k, p_cancel P = CancelDuring k -> forall s,
  o_reads (receive P s) <= k + 1 /\
  (o_reads (receive P s) = k + 1 -> o_final (receive P s) = Closed) /\
  (k < length s -> o_final (receive P s) <> AwaitRead).
Proof.
  intros k C s. unfold receive. rewrite C. exact (recv_cancel_ends P k C s 0 0 (Nat.le_0_l k)).
Qed.

Lemma receive_precancel : p_cancel P = PreCancel -> forall s, receive P s = stop 0 Closed.
Proof. intros C s. unfold receive. rewrite C. reflexivity. Qed.

Lemma receive_drained_never_blocks : p_drained P = true -> forall s, o_final (receive P s) <> BlockedSend.
Proof.
  intros D s. unfold receive. destruct (p_cancel P); try exact (recv_drained_never_blocks P D s 0 0).
  cbn. discriminate.
Qed.

Lemma receive_buffer : p_drained P = false -> p_cancel P = NoCancel -> forall s,
  length (o_errs (receive P s)) <= p_cap P /\
  (o_final (receive P s) = BlockedSend -> length (o_errs (receive P s)) = p_cap P).
Proof.
  intros D C s. unfold receive. rewrite C. exact (recv_buffer P D C s 0 0 (Nat.le_0_l _)).
Qed.

Lemma receive_transient_silent : p_cancel P = NoCancel -> forall s,
  o_frames (receive P (filter not_transient s)) = o_frames (receive P s) /\
  map report_key (o_errs (receive P (filter not_transient s))) = map report_key (o_errs (receive P s)) /\
  o_final (receive P (filter not_transient s)) = o_final (receive P s).
Proof. intros C s. unfold receive. rewrite C. exact (recv_transient_silent P C s 0 0 0). Qed.

End ReceiveLevel.

Lemma receive_undrained_same : forall P, p_cancel P = NoCancel -> forall s,
  length (reports_from 0 (firstn (consumed s) s)) <= p_cap P ->
  receive (with_drained P false) s = receive (with_drained P true) s.
Proof.
  intros P C s L. unfold receive. cbn [p_cancel with_drained]. rewrite C.
  exact (recv_undrained_same P C s 0 0 L).
Qed.

Lemma receive_blocked_released : forall P, p_cancel P = NoCancel -> forall s,
  o_final (receive P s) = BlockedSend ->
  receive (with_cancel P false (CancelDuring (o_reads (receive P s) - 1))) s = set_final (receive P s) Closed.
Proof.
  intros P C s. unfold receive at 1 2 4. cbn [p_cancel with_cancel]. rewrite C. intros B.
  unfold receive. rewrite C. exact (recv_blocked_released P C s 0 0 B).
Qed.

Lemma nodup_app_l {A} : forall a b : list A, NoDup (a ++ b) -> NoDup a.
Proof.
  induction a as [|x a IH]; intros b H; [constructor|]. cbn in H. inversion H as [|y l N D]; subst.
  constructor; [|exact (IH b D)]. intros I. apply N. apply in_or_app. left. exact I.
Qed.

Lemma nth_error_firstn_lt {A} : forall n k (l : list A), k < n -> nth_error (firstn n l) k = nth_error l k.
Proof.
  induction n as [|n IH]; intros k l H; [lia|]. destruct l as [|x l]; [destruct k; reflexivity|].
  destruct k as [|k]; [reflexivity|]. cbn. apply IH. lia.
Qed.

(* "exactly once": if the frames of the history are pairwise distinct, no frame is processed twice *)
Lemma receive_frames_nodup : forall P s, NoDup (frames_of s) -> NoDup (o_frames (receive P s)).
Proof.
  intros P s H. rewrite receive_frames.
  rewrite <- (firstn_skipn (o_reads (receive P s)) s) in H. unfold frames_of in *.
  rewrite flat_map_app in H. exact (nodup_app_l _ _ H).
Qed.

(* ... and every frame that was read is processed *)
Lemma receive_frames_all : forall P s id k perr,
  nth_error s k = Some (SFrame id perr) -> k < o_reads (receive P s) -> In id (o_frames (receive P s)).
Proof.
  intros P s id k perr N L. rewrite receive_frames. unfold frames_of. apply in_flat_map.
  exists (SFrame id perr). split; [|left; reflexivity].
  apply nth_error_In with k. rewrite (nth_error_firstn_lt _ _ _ L). exact N.
Qed.
