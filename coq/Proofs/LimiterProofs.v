(* Lemmas about Model/Limiter.v: the atomic limiter is a GCRA ("virtual scheduling") with
   theoretical arrival time T = last + sleepFor + perRequest; spacing of grants follows for every
   sequence of clock readings. *)
From Coq Require Import ZArith List Bool Lia.
From SX Require Import Model.Limiter.
Import ListNotations.
Open Scope Z_scope.

(* ---------------------------------------------------------------- configuration *)
Definition conf_ok (c : lconf) : Prop :=
  0 <= perRequest c /\ maxSlack c <= 0.

(* slack (burst allowance) in units of perRequest *)
Definition conf_slack (c : lconf) (b : Z) : Prop :=
  0 <= perRequest c /\ 0 <= b /\ maxSlack c = - (b * perRequest c).

Lemma conf_slack_ok : forall c b, conf_slack c b -> conf_ok c.
Proof. intros c b [Hp [Hb Hm]]. split; [exact Hp|]. rewrite Hm. nia. Qed.

Lemma mk_conf_slack_spec : forall slack rate per,
  0 <= slack -> 1 <= rate -> 0 <= per ->
  conf_slack (mk_conf_slack slack rate per) slack /\
  perRequest (mk_conf_slack slack rate per) = per / rate.
Proof.
  intros slack rate per Hs Hr Hp. unfold mk_conf_slack, conf_slack. cbn [perRequest maxSlack].
  assert (Hq : Z.quot per rate = per / rate) by (apply Z.quot_div_nonneg; lia).
  rewrite Hq. assert (0 <= per / rate) by (apply Z.div_pos; lia).
  repeat split; try lia; ring.
Qed.

Lemma mk_conf_spec : forall rate per, 1 <= rate -> 0 <= per ->
  conf_slack (mk_conf rate per) 10 /\ perRequest (mk_conf rate per) = per / rate.
Proof. intros. apply mk_conf_slack_spec; unfold default_slack; lia. Qed.

(* floor(W/N) is within one nanosecond of W/N:  W - N < N * floor(W/N) <= W *)
Lemma per_request_floor : forall rate per, 1 <= rate -> 0 <= per ->
  rate * (per / rate) <= per < rate * (per / rate) + rate.
Proof.
  intros rate per Hr Hp. pose proof (Z.div_mod per rate ltac:(lia)) as Hdm.
  pose proof (Z.mod_pos_bound per rate ltac:(lia)). lia.
Qed.

(* ---------------------------------------------------------------- state invariant *)
Definition st_ok (c : lconf) (st : lstate) : Prop :=
  match st with
  | Fresh => True
  | Running _ sf => maxSlack c <= sf <= 0
  end.

(* theoretical arrival time of a running limiter *)
Definition tat (c : lconf) (last sf : Z) : Z := last + sf + perRequest c.

Lemma take_fresh : forall c now,
  take c Fresh now = {| t_state := Running now 0; t_grant := now; t_sleep := 0 |}.
Proof. reflexivity. Qed.

(* the GCRA characterisation of one Take *)
Lemma take_running : forall c last sf now,
  conf_ok c -> maxSlack c <= sf <= 0 ->
  exists last' sf',
    t_state (take c (Running last sf) now) = Running last' sf' /\
    maxSlack c <= sf' <= 0 /\
    tat c last' sf' = Z.max (tat c last sf) (now + maxSlack c) + perRequest c /\
    t_grant (take c (Running last sf) now) = Z.max (tat c last sf) now /\
    t_sleep (take c (Running last sf) now) = t_grant (take c (Running last sf) now) - now /\
    last' = t_grant (take c (Running last sf) now).
Proof.
  intros c last sf now [Hp Hm] Hsf. unfold take, tat.
  destruct (Z.ltb_spec (sf + (perRequest c - (now - last))) (maxSlack c)) as [H1|H1].
  - (* clamped to maxSlack (<= 0): no sleep *)
    destruct (Z.ltb_spec 0 (maxSlack c)) as [H2|H2]; [lia|].
    simpl. exists now, (maxSlack c). repeat split; lia.
  - destruct (Z.ltb_spec 0 (sf + (perRequest c - (now - last)))) as [H2|H2].
    + simpl. exists (now + (sf + (perRequest c - (now - last)))), 0. repeat split; lia.
    + simpl. exists now, (sf + (perRequest c - (now - last))). repeat split; lia.
Qed.

Lemma take_ok : forall c st now, conf_ok c -> st_ok c st -> st_ok c (t_state (take c st now)).
Proof.
  intros c st now Hc Hst. destruct st as [|last sf].
  - simpl. destruct Hc. lia.
  - destruct (take_running c last sf now Hc Hst) as [l' [s' [E [Hs _]]]]. rewrite E. exact Hs.
Qed.

Lemma take_is_running : forall c st now, exists l s, t_state (take c st now) = Running l s.
Proof.
  intros c st now. destruct st as [|last sf]; simpl; [eauto|].
  destruct (0 <? _); simpl; eauto.
Qed.

(* a grant is never before the clock reading of its call, and the sleep is exactly the difference *)
Lemma take_grant_ge_now : forall c st now, conf_ok c -> st_ok c st ->
  now <= t_grant (take c st now) /\ t_sleep (take c st now) = t_grant (take c st now) - now.
Proof.
  intros c st now Hc Hst. destruct st as [|last sf]; [simpl; lia|].
  destruct (take_running c last sf now Hc Hst) as [l' [s' [_ [_ [_ [Hg [Hs _]]]]]]]. lia.
Qed.

Lemma final_state_ok : forall c nows st, conf_ok c -> st_ok c st -> st_ok c (final_state c st nows).
Proof.
  intros c nows. induction nows as [|n r IH]; intros st Hc Hst; simpl; [exact Hst|].
  apply IH; [exact Hc|]. apply take_ok; assumption.
Qed.

(* ---------------------------------------------------------------- spacing *)
Local Opaque take.

(* from a running state with arrival time T the k-th grant (k = 0, 1, ...) is at least T + k*p *)
Lemma grants_lower : forall c nows last sf k g,
  conf_ok c -> maxSlack c <= sf <= 0 ->
  nth_error (grants c (Running last sf) nows) k = Some g ->
  tat c last sf + Z.of_nat k * perRequest c <= g.
Proof.
  intros c nows. induction nows as [|now rest IH]; intros last sf k g Hc Hsf Hn.
  - destruct k; discriminate.
  - unfold grants in Hn. simpl in Hn.
    destruct (take_running c last sf now Hc Hsf) as [l' [s' [E [Hs' [HT [Hg _]]]]]].
    destruct k as [|k'].
    + simpl in Hn. injection Hn as Hn. lia.
    + simpl in Hn. rewrite E in Hn. fold (grants c (Running l' s') rest) in Hn.
      specialize (IH l' s' k' g Hc Hs' Hn). destruct Hc as [Hp Hm].
      rewrite Nat2Z.inj_succ. lia.
Qed.

(* after any Take the next arrival time is at most |maxSlack| - perRequest behind the grant *)
Lemma take_tat_vs_grant : forall c st now, conf_ok c -> st_ok c st ->
  exists l s, t_state (take c st now) = Running l s /\ maxSlack c <= s <= 0 /\
              t_grant (take c st now) + maxSlack c + perRequest c <= tat c l s.
Proof.
  intros c st now Hc Hst. destruct st as [|last sf].
  - rewrite take_fresh. simpl. exists now, 0. destruct Hc. unfold tat. repeat split; lia.
  - destruct (take_running c last sf now Hc Hst) as [l' [s' [E [Hs' [HT [Hg _]]]]]].
    exists l', s'. repeat split; try tauto; try lia.
Qed.

Theorem spacing_general : forall c nows st i j gi gj,
  conf_ok c -> st_ok c st -> (i <= j)%nat ->
  nth_error (grants c st nows) i = Some gi ->
  nth_error (grants c st nows) j = Some gj ->
  (Z.of_nat j - Z.of_nat i) * perRequest c + maxSlack c <= gj - gi.
Proof.
  intros c nows. induction nows as [|now rest IH]; intros st i j gi gj Hc Hst Hij Hi Hj.
  - destruct i; discriminate.
  - unfold grants in Hi, Hj. simpl in Hi, Hj.
    destruct i as [|i'].
    + simpl in Hi. injection Hi as Hi.
      destruct j as [|j'].
      * simpl in Hj. injection Hj as Hj. destruct Hc. lia.
      * simpl in Hj.
        destruct (take_tat_vs_grant c st now Hc Hst) as [l [s [E [Hs HT]]]].
        rewrite E in Hj. fold (grants c (Running l s) rest) in Hj.
        pose proof (grants_lower c rest l s j' gj Hc Hs Hj) as HL.
        rewrite Nat2Z.inj_succ. simpl Z.of_nat. lia.
    + destruct j as [|j']; [lia|]. simpl in Hi, Hj.
      fold (grants c (t_state (take c st now)) rest) in Hi, Hj.
      assert (Hst' : st_ok c (t_state (take c st now))) by (apply take_ok; assumption).
      specialize (IH _ i' j' gi gj Hc Hst' ltac:(lia) Hi Hj).
      rewrite !Nat2Z.inj_succ. lia.
Qed.

(* the statement with the burst allowance b:  g_j - g_i >= (j - i - b) * perRequest *)
Theorem spacing_slack : forall c b nows st i j gi gj,
  conf_slack c b -> st_ok c st -> (i <= j)%nat ->
  nth_error (grants c st nows) i = Some gi ->
  nth_error (grants c st nows) j = Some gj ->
  (Z.of_nat j - Z.of_nat i - b) * perRequest c <= gj - gi.
Proof.
  intros c b nows st i j gi gj Hcs Hst Hij Hi Hj.
  pose proof (spacing_general c nows st i j gi gj (conf_slack_ok c b Hcs) Hst Hij Hi Hj) as H.
  destruct Hcs as [Hp [Hb Hm]]. rewrite Hm in H. lia.
Qed.

(* sx's configuration: ratelimit.New(N, Per(W)), k consecutive grants starting at the i-th *)
Theorem spacing_rate : forall N W nows i k gi gk,
  1 <= N -> 0 <= W -> (1 <= k)%nat ->
  nth_error (grants (mk_conf N W) Fresh nows) i = Some gi ->
  nth_error (grants (mk_conf N W) Fresh nows) (i + k - 1) = Some gk ->
  (Z.of_nat k - 1 - 10) * (W / N) <= gk - gi.
Proof.
  intros N W nows i k gi gk HN HW Hk Hi Hj.
  destruct (mk_conf_spec N W HN HW) as [Hcs Hp].
  pose proof (spacing_slack _ 10 nows Fresh i (i + k - 1)%nat gi gk Hcs I ltac:(lia) Hi Hj) as H.
  rewrite Hp in H. replace (Z.of_nat (i + k - 1) - Z.of_nat i - 10) with (Z.of_nat k - 1 - 10) in H by lia.
  exact H.
Qed.

(* the same against the rational rate W/N, without division:  N * (g_k - g_i) > (k-1-10) * (W - N),
   i.e. g_k - g_i > (k-1-10) * W/N - (k-1-10) ns *)
Theorem spacing_rate_rational : forall N W nows i k gi gk,
  1 <= N -> 0 <= W -> (12 <= k)%nat ->
  nth_error (grants (mk_conf N W) Fresh nows) i = Some gi ->
  nth_error (grants (mk_conf N W) Fresh nows) (i + k - 1) = Some gk ->
  (Z.of_nat k - 1 - 10) * (W - N) < N * (gk - gi).
Proof.
  intros N W nows i k gi gk HN HW Hk Hi Hj.
  pose proof (spacing_rate N W nows i k gi gk HN HW ltac:(lia) Hi Hj) as H.
  pose proof (per_request_floor N W HN HW) as [_ Hf].
  set (m := Z.of_nat k - 1 - 10) in *. assert (Hm : 1 <= m) by (unfold m; lia).
  set (p := W / N) in *.
  assert (H1 : m * (W - N) < m * (N * p)) by (apply Z.mul_lt_mono_pos_l; lia).
  assert (H2 : N * (m * p) <= N * (gk - gi)) by (apply Z.mul_le_mono_nonneg_l; lia).
  replace (m * (N * p)) with (N * (m * p)) in H1 by ring. lia.
Qed.

(* ---------------------------------------------------------------- not slower than necessary *)
(* the limiter never holds a call back beyond its arrival time: used for non-vacuity ("sleep for
   ever" would satisfy spacing) *)
Lemma take_grant_upper : forall c last sf now, conf_ok c -> maxSlack c <= sf <= 0 ->
  t_grant (take c (Running last sf) now) <= Z.max now (last + perRequest c).
Proof.
  intros c last sf now Hc Hsf.
  destruct (take_running c last sf now Hc Hsf) as [l' [s' [_ [_ [_ [Hg _]]]]]]. unfold tat in Hg. lia.
Qed.

(* ---------------------------------------------------------------- serial caller *)
Lemma run_serial_length : forall c gaps st clock, length (run_serial c st clock gaps) = length gaps.
Proof. intros c gaps. induction gaps; intros; simpl; [reflexivity|]. rewrite IHgaps. reflexivity. Qed.

(* the clock readings of a serial caller *)
Fixpoint serial_nows (c : lconf) (st : lstate) (clock : Z) (gaps : list Z) : list Z :=
  match gaps with
  | [] => []
  | d :: rest => let now := clock + d in let t := take c st now in
                 now :: serial_nows c (t_state t) (now + t_sleep t) rest
  end.

Lemma run_serial_grants : forall c gaps st clock,
  map (fun x => snd (fst x)) (run_serial c st clock gaps) = grants c st (serial_nows c st clock gaps).
Proof.
  intros c gaps. induction gaps as [|d r IH]; intros st clock; [reflexivity|].
  unfold grants. simpl. f_equal. rewrite IH. reflexivity.
Qed.

(* grants of a serial caller never go backwards and its sleep never exceeds perRequest *)
Lemma serial_step : forall c st clock d, conf_ok c -> st_ok c st -> 0 <= d ->
  (match st with Fresh => True | Running last _ => last <= clock end) ->
  let now := clock + d in let t := take c st now in
  now <= t_grant t /\ 0 <= t_sleep t <= perRequest c /\ t_grant t = now + t_sleep t /\
  match t_state t with Fresh => False | Running last' _ => last' <= now + t_sleep t end.
Proof.
  intros c st clock d Hc Hst Hd Hl. cbv zeta.
  destruct st as [|last sf].
  - rewrite take_fresh. simpl. destruct Hc. lia.
  - destruct (take_running c last sf (clock + d) Hc Hst) as [l' [s' [E [Hs' [HT [Hg [Hsl Hl']]]]]]].
    rewrite E. unfold tat in *. simpl in Hst, Hl. destruct Hc. lia.
Qed.

(* ---------------------------------------------------------------- wrappers *)
Lemma count_app : forall A (f : A -> bool) l1 l2, count f (l1 ++ l2) = (count f l1 + count f l2)%nat.
Proof. intros. unfold count. rewrite filter_app, app_length. reflexivity. Qed.

Lemma charged_once : forall ops,
  count is_take (rl_trace ops) = count is_probe_op ops /\
  count is_probe (rl_trace ops) = count is_probe_op ops.
Proof.
  induction ops as [|o r [IH1 IH2]]; [split; reflexivity|].
  unfold rl_trace in *. simpl. rewrite !count_app, IH1, IH2.
  destruct o; split; reflexivity.
Qed.

(* every delegate probe call is immediately preceded by its own Take, and every Take is immediately
   followed by a probe: the trace is a concatenation of blocks [Take; probe] and [Read] *)
Inductive blocks : list call -> Prop :=
| B_nil : blocks []
| B_write : forall p l, blocks l -> blocks (CTake :: CWrite p :: l)
| B_scan : forall r l, blocks l -> blocks (CTake :: CScan r :: l)
| B_read : forall l, blocks l -> blocks (CRead :: l).

Lemma trace_blocks : forall ops, blocks (rl_trace ops).
Proof.
  induction ops as [|o r IH]; [constructor|]. unfold rl_trace in *. simpl.
  destruct o; simpl; constructor; exact IH.
Qed.

(* the delegate sees exactly the caller's operations, in order, with the same arguments *)
Definition call_of_op (o : op) : call :=
  match o with OpWrite p => CWrite p | OpRead => CRead | OpScan r => CScan r end.

Lemma delegate_sees_ops : forall ops,
  filter (fun c => negb (is_take c)) (rl_trace ops) = map call_of_op ops.
Proof.
  induction ops as [|o r IH]; [reflexivity|]. unfold rl_trace in *. simpl.
  rewrite filter_app, IH. destruct o; reflexivity.
Qed.

Lemma reads_free : forall ops, forallb (fun o => negb (is_probe_op o)) ops = true ->
  count is_take (rl_trace ops) = 0%nat.
Proof.
  induction ops as [|o r IH]; intros H; [reflexivity|]. simpl in H.
  apply andb_prop in H as [Ho Hr]. unfold rl_trace in *. simpl. rewrite count_app, (IH Hr).
  destruct o; try discriminate. reflexivity.
Qed.

(* ---------------------------------------------------------------- any time window *)
(* the pairwise spacing property of a list of grant times, as a predicate on lists *)
Definition spaced_list (p ms : Z) (gs : list Z) : Prop :=
  forall i j gi gj, (i <= j)%nat -> nth_error gs i = Some gi -> nth_error gs j = Some gj ->
    (Z.of_nat j - Z.of_nat i) * p + ms <= gj - gi.

Lemma spaced_tail : forall p ms x r, spaced_list p ms (x :: r) -> spaced_list p ms r.
Proof.
  intros p ms x r H i j gi gj Hij Hi Hj.
  specialize (H (S i) (S j) gi gj ltac:(lia) Hi Hj). rewrite !Nat2Z.inj_succ in H. lia.
Qed.

Lemma grants_spaced : forall c st nows, conf_ok c -> st_ok c st ->
  spaced_list (perRequest c) (maxSlack c) (grants c st nows).
Proof. intros c st nows Hc Hst i j gi gj Hij Hi Hj. eapply spacing_general; eassumption. Qed.

Lemma count_in_nil : forall lo hi, count_in lo hi [] = 0%nat.
Proof. reflexivity. Qed.

Lemma count_in_cons : forall lo hi x r,
  count_in lo hi (x :: r) = if in_window lo hi x then S (count_in lo hi r) else count_in lo hi r.
Proof. intros. unfold count_in. simpl. destruct (in_window lo hi x); reflexivity. Qed.

Lemma in_window_spec : forall lo hi x, in_window lo hi x = true -> lo <= x <= hi.
Proof.
  intros lo hi x E. unfold in_window in E. apply andb_prop in E as [E1 E2].
  apply Z.leb_le in E1. apply Z.leb_le in E2. lia.
Qed.

(* a non-empty count in the window has a last witness at an index >= count - 1 *)
Lemma count_in_witness : forall lo hi r, (1 <= count_in lo hi r)%nat ->
  exists m y, nth_error r m = Some y /\ lo <= y <= hi /\ (count_in lo hi r <= m + 1)%nat.
Proof.
  intros lo hi r. induction r as [|y r IH]; intros H; [rewrite count_in_nil in H; lia|].
  rewrite count_in_cons in *.
  destruct (Nat.le_gt_cases 1 (count_in lo hi r)) as [H1|H1].
  - destruct (IH H1) as [m [z [Hn [Hz Hc]]]]. exists (S m), z. split; [exact Hn|]. split; [exact Hz|].
    destruct (in_window lo hi y); lia.
  - destruct (in_window lo hi y) eqn:E; [|lia].
    exists O, y. split; [reflexivity|]. split; [apply in_window_spec; exact E|lia].
Qed.

(* in any spaced list, n elements inside a window [lo, hi] force (n-1)*p + ms <= hi - lo *)
Lemma spaced_window : forall p ms gs lo hi, 0 <= p -> ms <= 0 -> spaced_list p ms gs ->
  (1 <= count_in lo hi gs)%nat ->
  (Z.of_nat (count_in lo hi gs) - 1) * p + ms <= hi - lo.
Proof.
  intros p ms gs lo hi Hp Hms. induction gs as [|x r IH]; intros Hsp Hc; [rewrite count_in_nil in Hc; lia|].
  rewrite count_in_cons in *.
  destruct (in_window lo hi x) eqn:E.
  - apply in_window_spec in E.
    destruct (Nat.le_gt_cases 1 (count_in lo hi r)) as [H1|H1].
    + destruct (count_in_witness lo hi r H1) as [m [y [Hn [Hy Hcm]]]].
      specialize (Hsp O (S m) x y ltac:(lia) eq_refl Hn). rewrite Nat2Z.inj_succ in Hsp.
      change (Z.of_nat 0) with 0 in Hsp. rewrite Nat2Z.inj_succ.
      set (n := count_in lo hi r) in *.
      assert (Hle : Z.of_nat n * p <= (Z.succ (Z.of_nat m) - 0) * p) by (apply Z.mul_le_mono_nonneg_r; lia).
      lia.
    + assert (Hz : count_in lo hi r = 0%nat) by lia. rewrite Hz. simpl. lia.
  - apply IH; [eapply spaced_tail; exact Hsp|exact Hc].
Qed.

(* classical form of the rate limit: a closed time window of length L holds at most L/p + b + 1 grants *)
Theorem window_count : forall c b st nows lo hi, conf_slack c b -> st_ok c st ->
  (1 <= count_in lo hi (grants c st nows))%nat ->
  (Z.of_nat (count_in lo hi (grants c st nows)) - 1 - b) * perRequest c <= hi - lo.
Proof.
  intros c b st nows lo hi Hcs Hst Hn. pose proof (conf_slack_ok c b Hcs) as Hc.
  pose proof (spaced_window (perRequest c) (maxSlack c) _ lo hi (proj1 Hc) (proj2 Hc)
                            (grants_spaced c st nows Hc Hst) Hn) as H.
  destruct Hcs as [Hp [Hb Hm]]. rewrite Hm in H. lia.
Qed.

(* ---------------------------------------------------------------- sequential sender, leave times *)
Definition steps_ok (steps : list step) : Prop := Forall step_ok steps.

Definition leaves (c : lconf) (st : lstate) (clock : Z) (steps : list step) : list Z :=
  leave_times (run_steps c st clock steps).

Lemma leaves_read : forall c st clock s rest, s_op s = OpRead ->
  leaves c st clock (s :: rest) = leaves c st (clock + s_gap s + s_dur s) rest.
Proof. intros c st clock s rest H. unfold leaves. simpl. rewrite H. simpl. reflexivity. Qed.

Lemma leaves_probe : forall c st clock s rest, s_op s <> OpRead ->
  leaves c st clock (s :: rest) =
    (clock + s_gap s + t_sleep (take c st (clock + s_gap s)) + s_leave s)
    :: leaves c (t_state (take c st (clock + s_gap s)))
              (clock + s_gap s + t_sleep (take c st (clock + s_gap s)) + s_dur s) rest.
Proof.
  intros c st clock s rest H. unfold leaves. simpl. destruct (s_op s) eqn:E; try congruence; simpl; reflexivity.
Qed.

Lemma op_read_dec : forall o, {o = OpRead} + {o <> OpRead}.
Proof. destruct o; [right|left|right]; congruence. Qed.

(* from a running state with arrival time T the k-th probe leaves no earlier than T + k*p *)
Lemma leaves_lower : forall c steps last sf clock k l,
  conf_ok c -> maxSlack c <= sf <= 0 -> steps_ok steps ->
  nth_error (leaves c (Running last sf) clock steps) k = Some l ->
  tat c last sf + Z.of_nat k * perRequest c <= l.
Proof.
  intros c steps. induction steps as [|s rest IH]; intros last sf clock k l Hc Hsf Hok Hn.
  - destruct k; discriminate.
  - inversion Hok as [|? ? Hs Hrest]; subst. destruct Hs as [Hg [Hl0 Hl1]].
    destruct (op_read_dec (s_op s)) as [Er|Er].
    + rewrite (leaves_read _ _ _ _ _ Er) in Hn. eapply IH; eassumption.
    + rewrite (leaves_probe _ _ _ _ _ Er) in Hn.
      destruct (take_running c last sf (clock + s_gap s) Hc Hsf) as [l' [s' [E [Hs' [HT [Hgr [Hsl _]]]]]]].
      destruct k as [|k'].
      * simpl in Hn. injection Hn as Hn. lia.
      * simpl in Hn. rewrite E in Hn. specialize (IH l' s' _ k' l Hc Hs' Hrest Hn).
        destruct Hc as [Hp Hm]. rewrite Nat2Z.inj_succ. lia.
Qed.

(* from any state, the k-th probe leaves no earlier than clock + k*p + maxSlack *)
Lemma leaves_after_clock : forall c steps st clock k l,
  conf_ok c -> st_ok c st -> steps_ok steps ->
  nth_error (leaves c st clock steps) k = Some l ->
  clock + Z.of_nat k * perRequest c + maxSlack c <= l.
Proof.
  intros c steps. induction steps as [|s rest IH]; intros st clock k l Hc Hst Hok Hn.
  - destruct k; discriminate.
  - inversion Hok as [|? ? Hs Hrest]; subst. destruct Hs as [Hg [Hl0 Hl1]].
    destruct (op_read_dec (s_op s)) as [Er|Er].
    + rewrite (leaves_read _ _ _ _ _ Er) in Hn. specialize (IH st _ k l Hc Hst Hrest Hn). lia.
    + rewrite (leaves_probe _ _ _ _ _ Er) in Hn.
      destruct (take_grant_ge_now c st (clock + s_gap s) Hc Hst) as [Hge Hsl].
      destruct k as [|k'].
      * simpl in Hn. injection Hn as Hn. destruct Hc. lia.
      * simpl in Hn.
        destruct (take_tat_vs_grant c st (clock + s_gap s) Hc Hst) as [l' [s' [E [Hs' HT]]]].
        rewrite E in Hn. pose proof (leaves_lower c rest l' s' _ k' l Hc Hs' Hrest Hn) as HL.
        rewrite Nat2Z.inj_succ. lia.
Qed.

(* One goroutine (the sender of pkg/packet) writing through the limited ReadWriter, reads and
   pauses anywhere in between: the i-th and j-th probes leave at least (j-i-1)*p + maxSlack apart,
   i.e. the bound with burst allowance b+1 on the moments the frames actually leave. *)
Theorem leave_spacing : forall c steps st clock i j li lj,
  conf_ok c -> st_ok c st -> steps_ok steps -> (i <= j)%nat ->
  nth_error (leaves c st clock steps) i = Some li ->
  nth_error (leaves c st clock steps) j = Some lj ->
  (Z.of_nat j - Z.of_nat i - 1) * perRequest c + maxSlack c <= lj - li.
Proof.
  intros c steps. induction steps as [|s rest IH]; intros st clock i j li lj Hc Hst Hok Hij Hi Hj.
  - destruct i; discriminate.
  - inversion Hok as [|? ? Hs Hrest]; subst. destruct Hs as [Hg [Hl0 Hl1]].
    destruct (op_read_dec (s_op s)) as [Er|Er].
    + rewrite (leaves_read _ _ _ _ _ Er) in Hi, Hj. eapply IH; eassumption.
    + rewrite (leaves_probe _ _ _ _ _ Er) in Hi, Hj.
      assert (Hst' : st_ok c (t_state (take c st (clock + s_gap s)))) by (apply take_ok; assumption).
      destruct i as [|i'].
      * simpl in Hi. injection Hi as Hi.
        destruct j as [|j'].
        -- simpl in Hj. injection Hj as Hj. destruct Hc. lia.
        -- simpl in Hj. pose proof (leaves_after_clock c rest _ _ j' lj Hc Hst' Hrest Hj) as HL.
           rewrite Nat2Z.inj_succ. simpl Z.of_nat. lia.
      * destruct j as [|j']; [lia|]. simpl in Hi, Hj.
        specialize (IH _ _ i' j' li lj Hc Hst' Hrest ltac:(lia) Hi Hj). rewrite !Nat2Z.inj_succ. lia.
Qed.

Theorem leave_spacing_slack : forall c b steps st clock i j li lj,
  conf_slack c b -> st_ok c st -> steps_ok steps -> (i <= j)%nat ->
  nth_error (leaves c st clock steps) i = Some li ->
  nth_error (leaves c st clock steps) j = Some lj ->
  (Z.of_nat j - Z.of_nat i - (b + 1)) * perRequest c <= lj - li.
Proof.
  intros c b steps st clock i j li lj Hcs Hst Hok Hij Hi Hj.
  pose proof (leave_spacing c steps st clock i j li lj (conf_slack_ok c b Hcs) Hst Hok Hij Hi Hj) as H.
  destruct Hcs as [Hp [Hb Hm]]. rewrite Hm in H. lia.
Qed.

(* reads are not delayed and do not touch the limiter: a run of reads only leaves no probe and the
   k-th read completes exactly after the gaps and durations of the reads before it *)
Lemma reads_only_no_leave : forall c steps st clock,
  Forall (fun s => s_op s = OpRead) steps -> leaves c st clock steps = [].
Proof.
  intros c steps. induction steps as [|s rest IH]; intros st clock H; [reflexivity|].
  inversion H; subst. rewrite leaves_read by assumption. apply IH. assumption.
Qed.

Lemma read_done_exact : forall c st clock s rest, s_op s = OpRead ->
  run_steps c st clock (s :: rest) =
    TReadDone (clock + s_gap s) (clock + s_gap s + s_dur s) :: run_steps c st (clock + s_gap s + s_dur s) rest.
Proof. intros c st clock s rest H. simpl. rewrite H. reflexivity. Qed.

(* ---------------------------------------------------------------- concurrent callers *)
Lemma nth_upd : forall A (l : list A) i a j x,
  nth_error (upd l i a) j = Some x -> (j = i /\ x = a) \/ (j <> i /\ nth_error l j = Some x).
Proof.
  intros A l. induction l as [|y t IH]; intros i a j x H.
  - destruct i; simpl in H; destruct j; discriminate.
  - destruct i as [|i'].
    + simpl in H. destruct j as [|j']; simpl in *.
      * injection H as H. left. auto.
      * right. split; [lia|exact H].
    + simpl in H. destruct j as [|j']; simpl in *.
      * right. split; [lia|exact H].
      * destruct (IH i' a j' x H) as [[E1 E2]|[E1 E2]]; [left; split; [lia|exact E2]|right; split; [lia|exact E2]].
Qed.

(* a goroutine that loaded the state at the current version holds the current state *)
Definition conc_inv (gs : list gstate) (sh : shared) : Prop :=
  forall g now ver old, nth_error gs g = Some (GLoaded now ver old) ->
    (ver <= sh_ver sh)%nat /\ (ver = sh_ver sh -> old = sh_st sh).

Lemma conc_inv_upd_other : forall gs sh g x, conc_inv gs sh ->
  (forall now ver old, x <> GLoaded now ver old) -> conc_inv (upd gs g x) sh.
Proof.
  intros gs sh g x Hinv Hx g' now ver old Hn.
  destruct (nth_upd _ _ _ _ _ _ Hn) as [[_ E]|[_ E]]; [exfalso; eapply Hx; symmetry; exact E|eapply Hinv; exact E].
Qed.

Lemma conc_step_inv : forall c gs sh s gs' sh' e,
  conc_inv gs sh -> conc_step c gs sh s = (gs', sh', e) ->
  conc_inv gs' sh' /\
  match e with
  | None => sh' = sh
  | Some (_, now, t) => t = take c (sh_st sh) now /\ sh_st sh' = t_state t
  end.
Proof.
  intros c gs sh s gs' sh' e Hinv Hs. destruct s as [g now|g|g]; simpl in Hs.
  - destruct (nth_error gs g) as [[| |]|] eqn:E; injection Hs as <- <- <-; (split; [|reflexivity]); try exact Hinv.
    apply conc_inv_upd_other; [exact Hinv|discriminate].
  - destruct (nth_error gs g) as [[|now|]|] eqn:E; injection Hs as <- <- <-; (split; [|reflexivity]); try exact Hinv.
    intros g' now' ver old Hn. destruct (nth_upd _ _ _ _ _ _ Hn) as [[_ E1]|[_ E1]].
    + injection E1 as -> -> ->. split; [lia|reflexivity].
    + eapply Hinv; exact E1.
  - destruct (nth_error gs g) as [[| |now ver old]|] eqn:E; try (injection Hs as <- <- <-; split; [exact Hinv|reflexivity]).
    destruct (Nat.eqb ver (sh_ver sh)) eqn:Ev.
    + injection Hs as <- <- <-. apply Nat.eqb_eq in Ev.
      destruct (Hinv g now ver old E) as [_ Hold]. specialize (Hold Ev). subst old.
      split; [|split; reflexivity].
      intros g' now' ver' old' Hn. simpl.
      destruct (nth_upd _ _ _ _ _ _ Hn) as [[_ E1]|[_ E1]]; [discriminate|].
      destruct (Hinv g' now' ver' old' E1) as [Hle _]. split; [lia|intros; lia].
    + injection Hs as <- <- <-. split; [|reflexivity]. apply conc_inv_upd_other; [exact Hinv|discriminate].
Qed.

Definition ev_now (e : nat * Z * taken) : Z := snd (fst e).
Definition ev_taken (e : nat * Z * taken) : taken := snd e.

(* every interleaving of the lock-free loop is a serial history: the successful swaps, in order,
   are exactly [run_takes] over the clock readings of the winners *)
Theorem conc_serialises : forall c sched gs sh, conc_inv gs sh ->
  map ev_taken (conc_run c gs sh sched) = run_takes c (sh_st sh) (map ev_now (conc_run c gs sh sched)).
Proof.
  intros c sched. induction sched as [|s rest IH]; intros gs sh Hinv; [reflexivity|].
  simpl. destruct (conc_step c gs sh s) as [[gs' sh'] e] eqn:Es.
  destruct (conc_step_inv c gs sh s gs' sh' e Hinv Es) as [Hinv' He].
  destruct e as [[[g now] t]|].
  - destruct He as [Ht Hst]. cbn [map run_takes].
    change (ev_taken (g, now, t)) with t. change (ev_now (g, now, t)) with now. cbv zeta.
    rewrite <- Ht. f_equal. rewrite (IH gs' sh' Hinv'). rewrite Hst. reflexivity.
  - subst sh'. apply IH. exact Hinv'.
Qed.

Lemma conc_inv_init : forall n st, conc_inv (repeat GIdle n) {| sh_ver := 0; sh_st := st |}.
Proof.
  intros n st g now ver old H. exfalso. revert g H. induction n as [|n IH]; intros g H.
  - destruct g; discriminate.
  - destruct g; simpl in H; [discriminate|eapply IH; exact H].
Qed.

Theorem conc_spacing : forall c b n sched i j ei ej,
  conf_slack c b -> (i <= j)%nat ->
  let evs := conc_run c (repeat GIdle n) {| sh_ver := 0; sh_st := Fresh |} sched in
  nth_error evs i = Some ei -> nth_error evs j = Some ej ->
  (Z.of_nat j - Z.of_nat i - b) * perRequest c <= t_grant (ev_taken ej) - t_grant (ev_taken ei).
Proof.
  intros c b n sched i j ei ej Hcs Hij evs Hi Hj.
  pose proof (conc_serialises c sched _ _ (conc_inv_init n Fresh)) as Hser. fold evs in Hser. simpl in Hser.
  apply (spacing_slack c b (map ev_now evs) Fresh i j); [exact Hcs|exact I|exact Hij| |].
  - unfold grants. rewrite <- Hser. rewrite map_map. apply map_nth_error with (f := fun e => t_grant (ev_taken e)). exact Hi.
  - unfold grants. rewrite <- Hser. rewrite map_map. apply map_nth_error with (f := fun e => t_grant (ev_taken e)). exact Hj.
Qed.

(* ---------------------------------------------------------------- chunked port scans *)
(* a fresh limiter has no accumulated slack: its m-th grant is at least m*p after its first *)
Lemma fresh_grants_lower : forall c nows g0 m gm, conf_ok c ->
  nth_error (grants c Fresh nows) 0 = Some g0 -> nth_error (grants c Fresh nows) m = Some gm ->
  g0 + Z.of_nat m * perRequest c <= gm.
Proof.
  intros c nows g0 m gm Hc H0 Hm. destruct nows as [|now rest]; [discriminate|].
  unfold grants in *. simpl in *. rewrite take_fresh in *. simpl in *. injection H0 as H0. subst g0.
  destruct m as [|m']; [simpl in Hm; injection Hm as Hm; lia|]. simpl in Hm.
  fold (grants c (Running now 0) rest) in Hm.
  assert (Hsf : maxSlack c <= 0 <= 0) by (destruct Hc; lia).
  pose proof (grants_lower c rest now 0 m' gm Hc Hsf Hm) as H. unfold tat in H.
  rewrite Nat2Z.inj_succ. lia.
Qed.

(* two consecutive chunks (two limiters): if the first probe of the second chunk is granted at least
   perRequest after the last probe of the first, the bound holds across the boundary with the same b *)
Theorem chunk_boundary : forall c b nows1 nows2 i m gi glast g0 gm,
  conf_slack c b ->
  nth_error (grants c Fresh nows1) i = Some gi ->
  nth_error (grants c Fresh nows1) (length nows1 - 1) = Some glast -> (i <= length nows1 - 1)%nat ->
  nth_error (grants c Fresh nows2) 0 = Some g0 ->
  nth_error (grants c Fresh nows2) m = Some gm ->
  glast + perRequest c <= g0 ->
  (* position of gm in the concatenation minus position of gi = (length nows1 - 1 - i) + 1 + m *)
  (Z.of_nat (length nows1 - 1 - i) + 1 + Z.of_nat m - b) * perRequest c <= gm - gi.
Proof.
  intros c b nows1 nows2 i m gi glast g0 gm Hcs Hi Hl Hil H0 Hm Hgap.
  pose proof (conf_slack_ok c b Hcs) as Hc.
  pose proof (spacing_slack c b nows1 Fresh i (length nows1 - 1) gi glast Hcs I Hil Hi Hl) as H1.
  pose proof (fresh_grants_lower c nows2 g0 m gm Hc H0 Hm) as H2.
  replace (Z.of_nat (length nows1 - 1) - Z.of_nat i) with (Z.of_nat (length nows1 - 1 - i)) in H1 by lia.
  lia.
Qed.

(* ---------------------------------------------------------------- wiring *)
From Coq Require Import String.
From SX Require Import Gen.RateWiring Spec.C15.

(* the guards that mean "count > 0" on non-negative counts (parseRateLimit rejects negative ones) *)
Definition guard_normal (gop : string) (rhs : Z) : bool :=
  (String.eqb gop ">" && (rhs =? 0)) || (String.eqb gop ">=" && (rhs =? 1)) ||
  (String.eqb gop "!=" && (rhs =? 0)).

Lemma guard_equiv : forall gop rhs count, guard_normal gop rhs = true -> 0 <= count ->
  guard_holds gop rhs count = Some (0 <? count).
Proof.
  intros gop rhs count H Hc. unfold guard_normal in H. unfold guard_holds.
  destruct (String.eqb gop ">") eqn:E1.
  - apply String.eqb_eq in E1. subst gop. simpl in H.
    rewrite !Bool.orb_false_r in H. apply Z.eqb_eq in H. subst rhs. reflexivity.
  - destruct (String.eqb gop ">=") eqn:E2.
    + apply String.eqb_eq in E2. subst gop. simpl in H.
      rewrite !Bool.orb_false_r in H. apply Z.eqb_eq in H. subst rhs. f_equal.
      destruct (Z.leb_spec 1 count), (Z.ltb_spec 0 count); try reflexivity; lia.
    + destruct (String.eqb gop "!=") eqn:E3.
      * simpl in H. apply Z.eqb_eq in H. subst rhs. f_equal.
        destruct (Z.eqb_spec count 0), (Z.ltb_spec 0 count); try reflexivity; lia.
      * simpl in H. discriminate.
Qed.

Lemma site_limiter_spec : forall s count window,
  site_shape_ok s = true -> guard_normal (rs_guard_op s) (rs_guard_rhs s) = true -> 0 <= count ->
  site_limiter s count window = if 0 <? count then Some (Some (mk_conf count window)) else Some None.
Proof.
  intros s count window Hs Hg Hc. unfold site_limiter. rewrite Hs, (guard_equiv _ _ _ Hg Hc).
  destruct (0 <? count); reflexivity.
Qed.
