(* The Next loop and the caller's Int()/Next() loop of Model.RangeIter over an abstract orbit.
   [orb 0 = startI], [orb (k+1) = orb k * g mod p], the orbit first returns to [startI] at index N. *)
From Coq Require Import ZArith List Lia Bool Arith.
From SX Require Import Base.Loop Model.RangeIter.
Import ListNotations.
Open Scope Z_scope.

Lemma filter_none {A} (f : A -> bool) l : (forall x, In x l -> f x = false) -> filter f l = [].
Proof. induction l as [|x xs IH]; simpl; intros Hf; [reflexivity|]. rewrite Hf by auto. apply IH. auto. Qed.

Lemma seq_split3 a k' len : (a <= k' < a + len)%nat ->
  seq a len = seq a (k' - a) ++ k' :: seq (S k') (a + len - S k').
Proof.
  intros Hk. replace len with ((k' - a) + S (a + len - S k'))%nat at 1 by lia.
  rewrite seq_app. f_equal. replace (a + (k' - a))%nat with k' by lia. reflexivity.
Qed.

Section Walk.
Variables (p g lim startI : Z) (N : nat) (orb : nat -> Z).
Hypothesis HNpos : (0 < N)%nat.
Hypothesis H0 : orb 0 = startI.
Hypothesis Hstep : forall k, orb (S k) = (orb k * g) mod p.
Hypothesis Hne : forall k, (0 < k < N)%nat -> orb k <> startI.
Hypothesis HN : orb N = startI.
Hypothesis Hfuel : (N <= Pos.to_nat (Z.to_pos p))%nat.

Definition inr_ (x : Z) : bool := x <=? lim.
Let step := next_step p g lim startI.

Lemma next_spec : forall fuel k, (k < N)%nat -> (N - k <= fuel)%nat ->
  (exists k', (k < k' < N)%nat /\ nloop step fuel (orb k) = inr (orb k', true) /\ inr_ (orb k') = true /\
              forall i, (k < i < k')%nat -> inr_ (orb i) = false)
  \/ (nloop step fuel (orb k) = inr (startI, false) /\ forall i, (k < i < N)%nat -> inr_ (orb i) = false).
Proof.
  induction fuel as [|f IH]; intros k Hk Hf; [lia|].
  cbn [nloop]. unfold step at 1 3. unfold next_step. cbv zeta. rewrite <- Hstep.
  destruct (Nat.eq_dec (S k) N) as [E|NE].
  - right. rewrite E, HN, Z.eqb_refl. split; [reflexivity|]. intros i Hi. lia.
  - assert (Hlt : (S k < N)%nat) by lia.
    destruct (Z.eqb_spec (orb (S k)) startI) as [Eq|Neq].
    { exfalso. apply (Hne (S k)); [lia|assumption]. }
    destruct (orb (S k) <=? lim) eqn:Hin.
    + left. exists (S k). split; [lia|]. split; [reflexivity|]. split; [exact Hin|]. intros i Hi. lia.
    + destruct (IH (S k) Hlt ltac:(lia)) as [[k' [Hk' [Hn [Hi' Hbetween]]]]|[Hn Hnone]].
      * left. exists k'. split; [lia|]. split; [exact Hn|]. split; [exact Hi'|].
        intros i Hi. destruct (Nat.eq_dec i (S k)) as [->|]; [exact Hin|]. apply Hbetween. lia.
      * right. split; [exact Hn|]. intros i Hi.
        destruct (Nat.eq_dec i (S k)) as [->|]; [exact Hin|]. apply Hnone. lia.
Qed.

Definition mk (k : nat) (stop : bool) : iter :=
  {| itP := p; itG := g; itI := orb k; itStart := startI; itLim := lim; itStop := stop |}.
Definition mk_end : iter :=
  {| itP := p; itG := g; itI := startI; itStart := startI; itLim := lim; itStop := true |}.

Lemma next_mk k : (k < N)%nat ->
  (exists k', (k < k' < N)%nat /\ next (mk k false) = Some (mk k' false, true) /\ inr_ (orb k') = true /\
              forall i, (k < i < k')%nat -> inr_ (orb i) = false)
  \/ (next (mk k false) = Some (mk_end, false) /\ forall i, (k < i < N)%nat -> inr_ (orb i) = false).
Proof.
  intros Hk. unfold next, mk. cbn [itStop itP itG itLim itStart itI].
  rewrite ploop_nloop. fold step.
  destruct (next_spec (Pos.to_nat (Z.to_pos p)) k Hk ltac:(lia)) as [[k' [Hk' [Hn [Hi' Hb]]]]|[Hn Hnone]].
  - left. exists k'. rewrite Hn. repeat split; try lia; assumption.
  - right. rewrite Hn. split; [reflexivity|assumption].
Qed.

Definition tail_from (k : nat) : list Z := filter inr_ (map orb (seq (S k) (N - S k))).

Lemma collect_spec : forall fuel k acc, (k < N)%nat -> (S (length (tail_from k)) <= fuel)%nat ->
  nloop collect_step fuel (mk k false, acc) = inr (Some (rev acc ++ orb k :: tail_from k)).
Proof.
  induction fuel as [|f IH]; intros k acc Hk Hf; [lia|].
  cbn [nloop]. unfold collect_step at 1.
  destruct (next_mk k Hk) as [[k' [Hk' [Hn [Hin Hbetween]]]]|[Hn Hnone]].
  - rewrite Hn. change (itI (mk k false)) with (orb k).
    assert (Esplit : tail_from k = orb k' :: tail_from k').
    { unfold tail_from. rewrite (seq_split3 (S k) k' (N - S k)) by lia.
      rewrite map_app, filter_app. cbn [map filter]. rewrite Hin.
      rewrite (filter_none inr_ (map orb (seq (S k) (k' - S k)))).
      - cbn [app]. replace (S k + (N - S k) - S k')%nat with (N - S k')%nat by lia. reflexivity.
      - intros x Hx. apply in_map_iff in Hx. destruct Hx as [i [<- Hi']]. apply in_seq in Hi'. apply Hbetween. lia. }
    rewrite Esplit in Hf. cbn [length] in Hf.
    rewrite (IH k' (orb k :: acc)) by lia.
    rewrite Esplit. cbn [rev]. rewrite <- app_assoc. reflexivity.
  - rewrite Hn. change (itI (mk k false)) with (orb k).
    assert (E : tail_from k = []).
    { unfold tail_from. apply filter_none.
      intros x Hx. apply in_map_iff in Hx. destruct Hx as [i [<- Hi']]. apply in_seq in Hi'. apply Hnone. lia. }
    rewrite E. cbn [rev]. reflexivity.
Qed.

(* the whole iteration when the start value itself is in range *)
Theorem walk_outputs fuel : inr_ startI = true ->
  (length (filter inr_ (map orb (seq 0 N))) <= Pos.to_nat fuel)%nat ->
  collect fuel (mk 0 false) = Complete (filter inr_ (map orb (seq 0 N))).
Proof.
  intros Hs Hlen. unfold collect. rewrite ploop_nloop.
  assert (E : filter inr_ (map orb (seq 0 N)) = orb 0%nat :: tail_from 0).
  { unfold tail_from. destruct N as [|N']; [lia|]. cbn [seq map filter]. rewrite H0, Hs.
    replace (S N' - 1)%nat with N' by lia. reflexivity. }
  rewrite E in Hlen. cbn [length] in Hlen.
  rewrite (collect_spec (Pos.to_nat fuel) 0%nat []) by lia.
  rewrite E. reflexivity.
Qed.

(* an iterator that has already stopped yields exactly its current value *)
Lemma collect_stopped fuel it : itStop it = true -> collect fuel it = Complete [itI it].
Proof.
  intros Hs. unfold collect. rewrite ploop_nloop.
  destruct (Pos2Nat.is_succ fuel) as [m ->]. cbn [nloop]. unfold collect_step, next. rewrite Hs. reflexivity.
Qed.

End Walk.

(* permutation content, from injectivity / range / surjectivity of the orbit *)
Section Perm.
Variables (lim : Z) (N : nat) (orb : nat -> Z).
Hypothesis Hinj : forall a b, (a < N)%nat -> (b < N)%nat -> orb a = orb b -> a = b.
Hypothesis Hrange : forall k, 1 <= orb k.
Hypothesis Hsurj : forall x, 1 <= x <= lim -> exists k, (k < N)%nat /\ orb k = x.

Theorem walk_is_permutation :
  let l := filter (inr_ lim) (map orb (seq 0 N)) in
  NoDup l /\ forall x, In x l <-> 1 <= x <= lim.
Proof.
  cbn zeta. split.
  - apply NoDup_filter.
    assert (G : forall l, NoDup l -> (forall a, In a l -> (a < N)%nat) -> NoDup (map orb l)).
    { induction l as [|a l IHl]; intros Hnd Hb; simpl; [constructor|].
      inversion Hnd as [|? ? Hni Hnd']; subst. constructor.
      - intros Hin. apply in_map_iff in Hin. destruct Hin as [b [E Hb']].
        assert (b = a) by (apply Hinj; auto; [apply Hb; right; auto|apply Hb; left; auto]). subst. contradiction.
      - apply IHl; auto. intros; apply Hb; right; auto. }
    apply G; [apply seq_NoDup|]. intros a Ha. apply in_seq in Ha. lia.
  - intros x. rewrite filter_In, in_map_iff. unfold inr_. split.
    + intros [[k [<- Hk]] Hle]. apply Z.leb_le in Hle. split; [apply Hrange|exact Hle].
    + intros Hx. destruct (Hsurj x Hx) as [k [Hk E]]. split.
      * exists k. split; [exact E|]. apply in_seq. lia.
      * apply Z.leb_le. lia.
Qed.
End Perm.
