(* The Internet checksum, once for all lengths.

   gopacket accumulates big-endian 16-bit words in a uint32 and folds the carries at the end
   ([sum16], [fold_carry], [csum_fin] of Model/Frames.v); the independent decoder adds the words one
   at a time with end-around carry as RFC 1071 defines it ([oc_sum] of Model/FramesParse.v).  Both
   are the same function of the plain integer sum: [norm c] = 0 for c = 0 and 1 + (c-1) mod 65535
   otherwise.  Hence: storing [csum_fin] of the sum taken with a zero checksum field, at an even
   offset, makes the block verify ([csum_ok]), for every content and every length, odd ones included. *)
From Coq Require Import ZArith List Bool Lia.
From SX Require Import Base.Bytes Model.FramesBase Model.FramesParse Model.Frames.
Import ListNotations.
Open Scope Z_scope.

Definition norm (c : Z) : Z := if c =? 0 then 0 else 1 + (c - 1) mod 65535.

Lemma norm_range c : 0 <= c -> 0 <= norm c <= 65535.
Proof.
  intros H. unfold norm. destruct (c =? 0) eqn:E; [lia|].
  pose proof (Z.mod_pos_bound (c - 1) 65535 ltac:(lia)). lia.
Qed.

Lemma norm_small c : 0 <= c <= 65535 -> norm c = c.
Proof.
  intros H. unfold norm. destruct (c =? 0) eqn:E; [apply Z.eqb_eq in E; lia|].
  apply Z.eqb_neq in E. rewrite Z.mod_small; lia.
Qed.

(* one step of the fold keeps the residue *)
Lemma fold_step_norm c : 0 <= c -> norm (c / 65536 + c mod 65536) = norm c.
Proof.
  intros H. unfold norm.
  destruct (c =? 0) eqn:E.
  - apply Z.eqb_eq in E. subst c. reflexivity.
  - apply Z.eqb_neq in E.
    assert (Hs : c / 65536 + c mod 65536 <> 0) by (Z.div_mod_to_equations; lia).
    apply Z.eqb_neq in Hs. rewrite Hs. f_equal.
    Z.div_mod_to_equations. lia.
Qed.

Lemma fold_carry_norm c : 0 <= c < 4294967296 -> fold_carry 4 c = norm c.
Proof.
  intros H. cbn [fold_carry].
  destruct (Z.gtb_spec (c) 65535); [|rewrite norm_small; [reflexivity|lia]].
  rewrite <- (fold_step_norm c) by lia.
  set (c1 := c / 65536 + c mod 65536).
  assert (Hc1 : 0 <= c1 <= 131070) by (subst c1; Z.div_mod_to_equations; lia).
  destruct (Z.gtb_spec (c1) 65535); [|rewrite norm_small; [reflexivity|lia]].
  rewrite <- (fold_step_norm c1) by lia.
  set (c2 := c1 / 65536 + c1 mod 65536).
  assert (Hc2 : 0 <= c2 <= 65535) by (subst c2; Z.div_mod_to_equations; lia).
  destruct (Z.gtb_spec (c2) 65535); [lia|]. rewrite norm_small; [reflexivity|lia].
Qed.

Lemma oc_add_norm a w : 0 <= a -> 0 <= w <= 65535 -> oc_add (norm a) w = norm (a + w).
Proof.
  intros Ha Hw. unfold oc_add, norm.
  destruct (Z.eqb_spec a 0) as [Ea|Ea].
  - subst a. rewrite !Z.add_0_l.
    destruct (Z.gtb_spec w 65535); [lia|].
    destruct (Z.eqb_spec w 0) as [Ew|Ew]; [lia|]. rewrite Z.mod_small; lia.
  - destruct (Z.eqb_spec (a + w) 0) as [En|En]; [lia|].
    destruct (Z.gtb_spec (1 + (a - 1) mod 65535 + w) 65535); Z.div_mod_to_equations; lia.
Qed.

(* ------------------------------------------------------------------ sums of words *)

Lemma list_pair_ind (P : list Z -> Prop) :
  P [] -> (forall a, P [a]) -> (forall a b t, P t -> P (a :: b :: t)) -> forall l, P l.
Proof.
  intros H0 H1 H2. fix IH 1. intros [|a [|b t]]; [exact H0|apply H1|apply H2, IH].
Qed.

Lemma wf_bytes_cons a l : wf_bytes (a :: l) = true <-> (0 <= a < 256) /\ wf_bytes l = true.
Proof.
  unfold wf_bytes. cbn [forallb]. rewrite andb_true_iff. unfold is_byte. rewrite andb_true_iff.
  rewrite Z.leb_le, Z.ltb_lt. tauto.
Qed.

Lemma wf_bytes_app a b : wf_bytes (a ++ b) = true <-> wf_bytes a = true /\ wf_bytes b = true.
Proof. unfold wf_bytes. rewrite forallb_app, andb_true_iff. tauto. Qed.

Lemma sum16_bounds l : wf_bytes l = true -> 0 <= sum16 l /\ 2 * sum16 l <= 65535 * (Z.of_nat (length l) + 1).
Proof.
  induction l as [|a|a b t IH] using list_pair_ind; intros H.
  - cbn. lia.
  - apply wf_bytes_cons in H. cbn [sum16 length]. lia.
  - apply wf_bytes_cons in H. destruct H as [Ha H]. apply wf_bytes_cons in H. destruct H as [Hb H].
    specialize (IH H). cbn [sum16 length]. lia.
Qed.

Lemma sum16_app_even a : forall b, Nat.even (length a) = true -> sum16 (a ++ b) = sum16 a + sum16 b.
Proof.
  induction a as [|x|x y t IH] using list_pair_ind; intros b H.
  - reflexivity.
  - discriminate.
  - cbn [length Nat.even] in H. cbn [app sum16]. rewrite IH by exact H. lia.
Qed.

Lemma words16_range l : wf_bytes l = true -> Forall (fun w => 0 <= w <= 65535) (words16 l).
Proof.
  induction l as [|a|a b t IH] using list_pair_ind; intros H; cbn [words16].
  - constructor.
  - apply wf_bytes_cons in H. constructor; [lia|constructor].
  - apply wf_bytes_cons in H. destruct H as [Ha H]. apply wf_bytes_cons in H. destruct H as [Hb H].
    constructor; [lia|apply IH, H].
Qed.

Lemma words16_total l : fold_right Z.add 0 (words16 l) = sum16 l.
Proof.
  induction l as [|a|a b t IH] using list_pair_ind; cbn [words16 fold_right sum16]; [reflexivity|lia|].
  rewrite IH. lia.
Qed.

Lemma fold_oc_add ws : forall a, 0 <= a -> Forall (fun w => 0 <= w <= 65535) ws ->
  fold_left oc_add ws (norm a) = norm (a + fold_right Z.add 0 ws).
Proof.
  induction ws as [|w ws IH]; intros a Ha Hws; cbn [fold_left fold_right].
  - f_equal. lia.
  - inversion Hws as [|? ? Hw Hws']; subst.
    rewrite oc_add_norm by assumption. rewrite IH by (try assumption; lia). f_equal. lia.
Qed.

(* the decoder's ones'-complement sum is [norm] of the integer sum *)
Lemma oc_sum_norm l : wf_bytes l = true -> oc_sum l = norm (sum16 l).
Proof.
  intros H. unfold oc_sum. change 0 with (norm 0) at 1.
  rewrite fold_oc_add; [|lia|apply words16_range, H]. rewrite words16_total. reflexivity.
Qed.

(* ------------------------------------------------------------------ inserting the checksum *)

Lemma csum_fin_range c : 0 <= c < 4294967296 -> 0 <= csum_fin c <= 65535.
Proof.
  intros H. unfold csum_fin. rewrite Z.mod_small by lia. rewrite fold_carry_norm by lia.
  pose proof (norm_range c ltac:(lia)). lia.
Qed.

Lemma csum_fin_complements c : 0 <= c < 4294967296 -> norm (c + csum_fin c) = 65535.
Proof.
  intros H. unfold csum_fin. rewrite Z.mod_small by lia. rewrite fold_carry_norm by lia.
  unfold norm. destruct (c =? 0) eqn:E.
  - apply Z.eqb_eq in E. subst c. reflexivity.
  - apply Z.eqb_neq in E.
    assert (Hn : (c + (65535 - (1 + (c - 1) mod 65535)) =? 0) = false)
      by (apply Z.eqb_neq; Z.div_mod_to_equations; lia).
    rewrite Hn. Z.div_mod_to_equations. lia.
Qed.

Lemma u16_bytes_wf v : wf_bytes (u16_bytes v) = true.
Proof.
  unfold u16_bytes, wf_bytes, is_byte. cbn [forallb].
  pose proof (Z.mod_pos_bound (v / 256) 256 ltac:(lia)). pose proof (Z.mod_pos_bound v 256 ltac:(lia)).
  repeat (apply andb_true_intro; split); try reflexivity; try (apply Z.leb_le; lia); apply Z.ltb_lt; lia.
Qed.

Lemma sum16_u16 v : 0 <= v < 65536 -> sum16 (u16_bytes v) = v.
Proof. intros H. unfold u16_bytes. cbn [sum16]. Z.div_mod_to_equations. lia. Qed.

(* [init] is whatever was accumulated before the block (the pseudo header), [pre] the bytes before
   the checksum field (even length), [post] the bytes after it *)
Theorem checksum_insert pre post init :
  Nat.even (length pre) = true -> wf_bytes pre = true -> wf_bytes post = true ->
  0 <= init -> init + sum16 (pre ++ 0 :: 0 :: post) < 4294967296 ->
  let ck := csum_fin (init + sum16 (pre ++ 0 :: 0 :: post)) in
  0 <= ck <= 65535 /\ norm (init + sum16 (pre ++ u16_bytes ck ++ post)) = 65535.
Proof.
  intros He Hpre Hpost Hinit Hlt ck.
  pose proof (sum16_bounds pre Hpre) as [Hp0 _]. pose proof (sum16_bounds post Hpost) as [Hq0 _].
  assert (Hs0 : sum16 (pre ++ 0 :: 0 :: post) = sum16 pre + sum16 post).
  { rewrite sum16_app_even by exact He. cbn [sum16]. lia. }
  assert (Hc : 0 <= init + sum16 (pre ++ 0 :: 0 :: post) < 4294967296) by lia.
  pose proof (csum_fin_range _ Hc) as Hr. fold ck in Hr. split; [exact Hr|].
  assert (Hs1 : sum16 (pre ++ u16_bytes ck ++ post) = sum16 pre + ck + sum16 post).
  { rewrite sum16_app_even by exact He. rewrite (sum16_app_even (u16_bytes ck)) by reflexivity.
    rewrite sum16_u16 by lia. lia. }
  rewrite Hs1. replace (init + (sum16 pre + ck + sum16 post)) with ((init + sum16 (pre ++ 0 :: 0 :: post)) + ck) by lia.
  apply csum_fin_complements, Hc.
Qed.

(* the form the decoder checks: a verified prefix [ph] (pseudo header, possibly empty) of even length
   followed by the block *)
Theorem checksum_verifies ph pre post :
  Nat.even (length ph) = true -> Nat.even (length pre) = true ->
  wf_bytes ph = true -> wf_bytes pre = true -> wf_bytes post = true ->
  sum16 ph + sum16 (pre ++ 0 :: 0 :: post) < 4294967296 ->
  csum_ok (ph ++ pre ++ u16_bytes (csum_fin (sum16 ph + sum16 (pre ++ 0 :: 0 :: post))) ++ post) = true.
Proof.
  intros Hph He Wph Wpre Wpost Hlt.
  pose proof (sum16_bounds ph Wph) as [Hph0 _].
  destruct (checksum_insert pre post (sum16 ph) He Wpre Wpost Hph0 Hlt) as [Hck Hn].
  unfold csum_ok. rewrite oc_sum_norm.
  - rewrite sum16_app_even by exact Hph. rewrite Hn. reflexivity.
  - apply wf_bytes_app. split; [exact Wph|]. apply wf_bytes_app. split; [exact Wpre|].
    apply wf_bytes_app. split; [apply u16_bytes_wf|exact Wpost].
Qed.
