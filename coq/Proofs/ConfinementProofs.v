(* Confinement through whole commands: whatever a command probes for a subnet specification lies inside the
   net and outside the exclusion list; the exclusion file yields IPv4 nets only. *)
From Coq Require Import ZArith List Bool Lia Permutation.
From SX Require Import Base.Loop Base.Bytes Model.RangeIter Model.IPNet Model.Exclude Model.Targets Model.FileTargets
  Model.TargetWiring Proofs.RangeIterProofs Proofs.IPNetProofs Proofs.StagesProofs Proofs.TargetsProofs
  Proofs.FileTargetsProofs Proofs.CoverageProofs Proofs.WiringProofs.
Import ListNotations.
Open Scope Z_scope.

Lemma cross_In ps (A : list ip) a p : In (a, p) (cross ps A) -> In a A /\ In p ps.
Proof.
  unfold cross. intros H. apply in_flat_map in H. destruct H as [q [Hq H]]. apply in_map_iff in H.
  destruct H as [x [E Hx]]. inversion E; subst. split; assumption.
Qed.

(* subnet specifications: everything denoted is inside the net and kept by the exclusion list *)
Lemma spec_denote_subnet_inside k f inp n pl a p :
  f_file f = false -> ipv4_net n pl -> In (a, p) (spec_denote k f inp n) ->
  contains n a = true /\ kept (class_stages k f inp) a = true.
Proof.
  intros Ef Hn H. unfold spec_denote in H. rewrite Ef in H. cbn [negb] in H.
  assert (Hin : In a (filter (kept (class_stages k f inp)) (net_addrs n))).
  { destruct k; unfold denote_subnet_ports, denote_subnet in H.
    - apply cross_In in H. exact (proj1 H).
    - apply cross_In in H. exact (proj1 H).
    - apply in_map_iff in H. destruct H as [x [E Hx]]. inversion E; subst. exact Hx.
    - apply in_map_iff in H. destruct H as [x [E Hx]]. inversion E; subst. exact Hx. }
  apply filter_In in Hin. destruct Hin as [Hin Hk]. split; [|exact Hk].
  exact (proj1 (net_addrs_inside n pl a Hn Hin)).
Qed.

(* with a non-empty port list, or for a command that does not chunk, the scan does not depend on what the
   chunk loop does with an empty list *)
Lemma run_command_once table size once1 once2 cmd f inp :
  (c_engine cmd = EChunked -> i_ports inp <> []) ->
  run_command table size once1 cmd f inp = run_command table size once2 cmd f inp.
Proof.
  intros H. unfold run_command. destruct (well_formed table f inp (resolve f (c_gen cmd))); [|reflexivity].
  f_equal. destruct (c_engine cmd); try reflexivity.
  unfold port_scan_engine. destruct (i_ports inp); [exfalso; apply (H eq_refl); reflexivity|reflexivity].
Qed.

(* parseExcludeFile: what it accepts is a list of IPv4 nets (under the library shape assumptions) *)
Section ExcludeParse.
Variable cidr_of : list Z -> option ipnet.
Variable addr_of : list Z -> option ip.
Hypothesis cidr_ok : forall s, lib_cidr_ok (cidr_of s) = true.
Hypothesis addr_ok' : forall s, lib_addr_ok (addr_of s) = true.

Lemma parse_exclude_ipv4 lines nets :
  parse_exclude cidr_of addr_of lines = Some nets -> Forall (fun n => is_ipv4_net n = true) nets.
Proof.
  revert nets. induction lines as [|l ls IH]; intros nets H; cbn [parse_exclude] in H.
  - inversion H. constructor.
  - destruct (clean_line l) as [|c s] eqn:E; [apply IH; exact H|].
    destruct (parse_ipnet (cidr_of (c :: s)) (addr_of (c :: s))) as [|n] eqn:P; [discriminate|].
    destruct (parse_exclude cidr_of addr_of ls) as [r|]; [|discriminate]. inversion H; subst.
    constructor; [|apply IH; reflexivity].
    exact (parse_ipnet_ipv4 _ _ n (cidr_ok _) (addr_ok' _) P).
Qed.

(* a line that is blank or only a comment contributes nothing; any other line must be an IPv4 target *)
Lemma parse_exclude_refuses l ls :
  clean_line l <> [] -> parse_ipnet (cidr_of (clean_line l)) (addr_of (clean_line l)) = PErr ->
  parse_exclude cidr_of addr_of (l :: ls) = None.
Proof.
  intros Hne P. cbn [parse_exclude]. destruct (clean_line l) as [|c s]; [contradiction|]. rewrite P. reflexivity.
Qed.
End ExcludeParse.
