From Coq Require Import List String Bool.
From SX Require Import Model.Redirect.
Import ListNotations.

Lemma chain_use_last {host} : forall fuel (p : peer host) k h, chain fuel UseLastResponse p k h = [h].
Proof. intros fuel p k h. destruct fuel as [|f]; reflexivity. Qed.

Lemma probe_use_last {host} : forall (ps : list (peer host)) t,
  probe_contacts UseLastResponse ps t = map (fun _ => t) ps.
Proof.
  intros ps t. unfold probe_contacts, request_contacts. induction ps as [|p ps IH]; [reflexivity|].
  cbn [flat_map map]. rewrite chain_use_last, IH. reflexivity.
Qed.

Lemma probe_confined {host} : forall (ps : list (peer host)) t x,
  In x (probe_contacts UseLastResponse ps t) -> x = t.
Proof.
  intros ps t x H. rewrite probe_use_last in H. apply in_map_iff in H. destruct H as [_ [H _]]. symmetry. exact H.
Qed.

Lemma probe_one_connection_per_request {host} : forall (ps : list (peer host)) t,
  List.length (probe_contacts UseLastResponse ps t) = List.length ps.
Proof. intros ps t. rewrite probe_use_last. apply map_length. Qed.

(* a client that follows: the world decides where the connections go *)
Lemma follow_reaches {host} : forall pol (t d : host), follows pol = true ->
  In d (request_contacts pol (fun _ _ => Some d) t).
Proof.
  intros pol t d Hf. unfold request_contacts, max_redirects. cbn [chain]. rewrite Hf. right. left. reflexivity.
Qed.
