(* C07, third part: the frames handed to the wire in a complete, uncancelled run of the pipeline are,
   as a LIST up to permutation, exactly the requests that carried no error and whose Fill and
   WritePacketData succeeded -- each once, nothing else.  (The multiset statements of
   PipelineOrder.v, packaged for composition with the request generators of C01.) *)
From stdpp Require Import gmultiset list sets.
From SX Require Import Base.Net Model.Pipeline Proofs.PipelineProofs Proofs.PipelineOrder.

Definition wire_id (e : ev) : option nat := match e with EWire id => Some id | _ => None end.
(* the ids of the frames handed to the wire, in the order of the WritePacketData calls *)
Definition wire_list (n : net val loc ev) : list nat := omap wire_id (log n).

Lemma wire_of_list n : wire_of n = list_to_set_disj (wire_list n).
Proof.
  unfold wire_of, wire_list. induction (log n) as [|e l IH]; simpl; [reflexivity|].
  rewrite IH. destruct e as [id|id|id|v]; simpl; try multiset_solver.
Qed.

Lemma wire_list_elem n id : id ∈ wire_list n <-> EWire id ∈ log n.
Proof.
  unfold wire_list. rewrite elem_of_list_omap. split.
  - intros (e & He & Hw). destruct e as [i|i|i|v]; simpl in Hw; try discriminate.
    injection Hw as ->. exact He.
  - intros He. exists (EWire id). split; [exact He|reflexivity].
Qed.

Definition err_id (e : ev) : option nat := match e with EErrOut (VErr id) => Some id | _ => None end.
(* the ids of the requests whose error was logged by the error drain, in log order *)
Definition err_list (n : net val loc ev) : list nat := omap err_id (log n).

Lemma err_list_elem n id : id ∈ err_list n <-> EErrOut (VErr id) ∈ log n.
Proof.
  unfold err_list. rewrite elem_of_list_omap. split.
  - intros (e & He & Hw). destruct e as [i|i|i|v]; simpl in Hw; try discriminate.
    destruct v; try discriminate. injection Hw as ->. exact He.
  - intros He. exists (EErrOut (VErr id)). split; [exact He|reflexivity].
Qed.

Lemma errs_of_list fill_ok write_ok reqs n :
  Forall (PE fill_ok write_ok reqs) (log n) -> errs_of n = list_to_set_disj (err_list n).
Proof.
  unfold errs_of, err_list. induction (log n) as [|e l IH]; intros H; simpl; [reflexivity|].
  apply Forall_cons in H as [He Hl]. rewrite (IH Hl).
  destruct e as [id|id|id|v]; simpl; try multiset_solver.
  destruct He as [-> | (i & -> & _)]; simpl; multiset_solver.
Qed.

Lemma mult1_NoDup (l : list nat) :
  (forall x, x ∈ l -> multiplicity x (list_to_set_disj l : gmultiset nat) = 1) -> NoDup l.
Proof.
  induction l as [|a l IH]; intros H; [constructor|].
  assert (Ha : multiplicity a (list_to_set_disj (a :: l) : gmultiset nat) = 1) by (apply H; left).
  rewrite list_to_set_disj_cons, multiplicity_disj_union, multiplicity_singleton in Ha.
  constructor.
  - intros Hin. apply (elem_of_list_to_set_disj (A := nat)) in Hin.
    rewrite elem_of_multiplicity in Hin. lia.
  - apply IH. intros x Hx.
    assert (Hx1 : multiplicity x (list_to_set_disj (a :: l) : gmultiset nat) = 1) by (apply H; right; exact Hx).
    rewrite list_to_set_disj_cons, multiplicity_disj_union in Hx1.
    apply (elem_of_list_to_set_disj (A := nat)) in Hx. rewrite elem_of_multiplicity in Hx. lia.
Qed.

Section wire.
Variable N : nat.
Variables fill_ok write_ok : nat -> bool.
Variable reqs : list (nat * bool).
Hypothesis Hnodup : NoDup (fst <$> reqs).
Notation beh := (beh N fill_ok write_ok).

(* the request becomes a frame on the wire: no error attached, Fill succeeds, the write succeeds *)
Definition sent_b (r : nat * bool) : bool := negb r.2 && fill_ok r.1 && write_ok r.1.
Definition due : list nat := fst <$> filter (fun r => sent_b r = true) reqs.

Lemma due_elem id : id ∈ due <-> wirefate fill_ok write_ok reqs id.
Proof.
  unfold due, wirefate, has, sent_b. rewrite elem_of_list_fmap. split.
  - intros ([i b] & -> & Hin). apply elem_of_list_filter in Hin as [Hs Hin]. simpl in *.
    destruct b; simpl in Hs; [discriminate|]. apply andb_true_iff in Hs as [Hf Hw]. auto.
  - intros (Hin & Hf & Hw). exists (id, false). split; [reflexivity|].
    apply elem_of_list_filter. split; [|exact Hin]. simpl. rewrite Hf, Hw. reflexivity.
Qed.

Lemma due_NoDup : NoDup due.
Proof.
  unfold due. clear -Hnodup. induction reqs as [|[i b] l IH]; [constructor|].
  rewrite fmap_cons in Hnodup. apply NoDup_cons in Hnodup as [Hni Hl]. specialize (IH Hl).
  rewrite filter_cons. destruct (decide (sent_b (i, b) = true)) as [Hs|Hs]; [|exact IH].
  rewrite fmap_cons. apply NoDup_cons. split; [|exact IH].
  intros Hin. apply Hni. apply elem_of_list_fmap in Hin as (r & Hr & Hin). apply elem_of_list_filter in Hin as [_ Hin].
  apply elem_of_list_fmap. exists r. auto.
Qed.

Theorem pipeline_wire_exact cap n :
  reachable beh (init N cap reqs) n -> cancelled n = false -> quiescent n ->
  wire_list n ≡ₚ due.
Proof.
  intros Hr Hc Hq.
  assert (Hfate : forall id, id ∈ wire_list n -> wirefate fill_ok write_ok reqs id).
  { intros id Hin. apply wire_list_elem in Hin.
    destruct (pipeline_typed N fill_ok write_ok reqs cap n Hr) as [[_ Hlog] _].
    rewrite Forall_forall in Hlog. exact (Hlog _ Hin). }
  assert (Hone : forall id, wirefate fill_ok write_ok reqs id ->
                 multiplicity id (list_to_set_disj (wire_list n) : gmultiset nat) = 1).
  { intros id Hw. rewrite <- wire_of_list.
    destruct Hw as (Hh & Hf & Hwr).
    destruct (pipeline_terminal N fill_ok write_ok reqs Hnodup cap n id false Hr Hc Hq Hh) as [H1 _].
    apply H1. repeat split; assumption. }
  apply NoDup_Permutation.
  - apply mult1_NoDup. intros x Hx. apply Hone. apply Hfate. exact Hx.
  - apply due_NoDup.
  - intros x. rewrite due_elem. split; [apply Hfate|].
    intros Hw. apply (elem_of_list_to_set_disj (A := nat)). apply elem_of_multiplicity.
    rewrite (Hone _ Hw). lia.
Qed.


(* ---- the same for the error stream: the request errors logged by the drain are exactly the requests
   that did NOT become a frame (error attached, Fill failed or the write failed), each once ---- *)
Definition errdue : list nat := fst <$> filter (fun r => sent_b r = false) reqs.

Lemma errdue_elem id : id ∈ errdue <-> errfate fill_ok write_ok reqs id.
Proof.
  unfold errdue, errfate, errfate1, has, sent_b. rewrite elem_of_list_fmap. split.
  - intros ([i b] & -> & Hin). apply elem_of_list_filter in Hin as [Hs Hin]. simpl in *.
    destruct b; [left; left; exact Hin|]. simpl in Hs.
    destruct (fill_ok i) eqn:Hf; [|left; right; auto].
    destruct (write_ok i) eqn:Hw; [discriminate|]. right. auto.
  - intros [[Hin | [Hin Hf]] | (Hin & Hf & Hw)].
    + exists (id, true). split; [reflexivity|]. apply elem_of_list_filter. split; [reflexivity|exact Hin].
    + exists (id, false). split; [reflexivity|]. apply elem_of_list_filter. split; [|exact Hin]. simpl. rewrite Hf. reflexivity.
    + exists (id, false). split; [reflexivity|]. apply elem_of_list_filter. split; [|exact Hin]. simpl. rewrite Hf, Hw. reflexivity.
Qed.

Lemma errdue_NoDup : NoDup errdue.
Proof.
  unfold errdue. clear -Hnodup. induction reqs as [|[i b] l IH]; [constructor|].
  rewrite fmap_cons in Hnodup. apply NoDup_cons in Hnodup as [Hni Hl]. specialize (IH Hl).
  rewrite filter_cons. destruct (decide (sent_b (i, b) = false)) as [Hs|Hs]; [|exact IH].
  rewrite fmap_cons. apply NoDup_cons. split; [|exact IH].
  intros Hin. apply Hni. apply elem_of_list_fmap in Hin as (r & Hr & Hin). apply elem_of_list_filter in Hin as [_ Hin].
  apply elem_of_list_fmap. exists r. auto.
Qed.

Lemma errfate_has id : errfate fill_ok write_ok reqs id -> exists b, has reqs id b.
Proof. intros [[H | [H _]] | (H & _)]; eauto. Qed.

Theorem pipeline_errors_exact cap n :
  reachable beh (init N cap reqs) n -> cancelled n = false -> quiescent n ->
  err_list n ≡ₚ errdue.
Proof.
  intros Hr Hc Hq.
  destruct (pipeline_typed N fill_ok write_ok reqs cap n Hr) as [[_ Hlog] _].
  assert (Hfate : forall id, id ∈ err_list n -> errfate fill_ok write_ok reqs id).
  { intros id Hin. apply err_list_elem in Hin. rewrite Forall_forall in Hlog.
    destruct (Hlog _ Hin) as [Hv | (i & Hv & He)]; [discriminate|]. injection Hv as ->. exact He. }
  assert (Hone : forall id, errfate fill_ok write_ok reqs id ->
                 multiplicity id (list_to_set_disj (err_list n) : gmultiset nat) = 1).
  { intros id He. rewrite <- (errs_of_list fill_ok write_ok reqs n Hlog).
    destruct (errfate_has id He) as [b Hh].
    destruct (pipeline_terminal N fill_ok write_ok reqs Hnodup cap n id b Hr Hc Hq Hh) as [_ H2].
    apply H2. intros Hw. exact (wire_not_err fill_ok write_ok reqs Hnodup id Hw He). }
  apply NoDup_Permutation.
  - apply mult1_NoDup. intros x Hx. apply Hone. apply Hfate. exact Hx.
  - apply errdue_NoDup.
  - intros x. rewrite errdue_elem. split; [apply Hfate|].
    intros He. apply (elem_of_list_to_set_disj (A := nat)). apply elem_of_multiplicity.
    rewrite (Hone _ He). lia.
Qed.

End wire.
