(* time.ParseDuration model ([Model.Duration]): the digit loop, the unit span, integer components
   (single and several), the sign, the int64 range of every accepted value and the syntactic
   exactness of accepted fraction-free input. *)
From Coq Require Import ZArith List Bool Lia.
From SX Require Import Model.Unquote Model.Duration Model.Parsers Proofs.ParsersDecimal.
Import ListNotations. Open Scope Z_scope.

Lemma two63_eq : two63 = 2 ^ 63. Proof. reflexivity. Qed.
Lemma two64_eq : two64 = 2 ^ 64. Proof. reflexivity. Qed.
Lemma two63_pos : 0 < two63. Proof. reflexivity. Qed.
Lemma two64_two63 : two64 = 2 * two63. Proof. reflexivity. Qed.

(* ---------------------------------------------------------------- 1. leading_int *)

Definition no_digit_head (s : bytes) : Prop :=
  match s with [] => True | c :: _ => is_digit c = false end.

Lemma pow10_pos n : 0 < 10 ^ Z.of_nat n.
Proof. apply Z.pow_pos_nonneg; lia. Qed.

Theorem leading_int_digits : forall ds acc rest,
  all_digits ds = true -> no_digit_head rest -> 0 <= acc ->
  acc * 10 ^ Z.of_nat (List.length ds) + dec_val ds <= two63 ->
  leading_int acc (ds ++ rest) = Some (acc * 10 ^ Z.of_nat (List.length ds) + dec_val ds, rest).
Proof.
  induction ds as [|c ds IH]; intros acc rest Hd Hr Ha Hb.
  - cbn [app List.length dec_val Z.of_nat]. rewrite Z.pow_0_r, Z.mul_1_r, Z.add_0_r.
    destruct rest as [|r rest]; cbn [leading_int]; [reflexivity|].
    cbn [no_digit_head] in Hr. rewrite Hr. reflexivity.
  - cbn [all_digits forallb] in Hd. apply andb_true_iff in Hd. destruct Hd as [Hc Hs].
    fold (all_digits ds) in Hs.
    pose proof (proj1 (is_digit_spec c) Hc) as Hcr.
    pose proof (dec_val_bound ds Hs) as Hv. pose proof (pow10_pos (List.length ds)) as Hp.
    cbn [dec_val List.length] in Hb |- *. rewrite Nat2Z.inj_succ, Z.pow_succ_r in Hb |- * by lia.
    set (P := 10 ^ Z.of_nat (List.length ds)) in *.
    assert (Hx : (acc * 10 + (c - 48)) * P + dec_val ds <= two63) by lia.
    assert (H1 : acc * 10 <= two63) by nia.
    assert (H2 : acc * 10 + (c - 48) <= two63) by nia.
    cbn [app leading_int]. rewrite Hc.
    replace (two63 / 10 <? acc) with false
      by (symmetry; apply Z.ltb_ge; apply Z.div_le_lower_bound; lia).
    replace (two63 <? acc * 10 + (c - 48)) with false by (symmetry; apply Z.ltb_ge; lia).
    unfold P in *. rewrite IH; [|exact Hs|exact Hr|lia|exact Hx].
    f_equal. f_equal. ring.
Qed.

Corollary leading_int_0 ds rest :
  all_digits ds = true -> no_digit_head rest -> dec_val ds <= two63 ->
  leading_int 0 (ds ++ rest) = Some (dec_val ds, rest).
Proof.
  intros Hd Hr Hb. rewrite leading_int_digits; [|exact Hd|exact Hr|lia|lia].
  f_equal.
Qed.

Theorem leading_int_inv : forall s acc v rest,
  leading_int acc s = Some (v, rest) ->
  exists ds, s = ds ++ rest /\ all_digits ds = true /\
             v = acc * 10 ^ Z.of_nat (List.length ds) + dec_val ds /\ no_digit_head rest.
Proof.
  induction s as [|c s IH]; intros acc v rest H; cbn [leading_int] in H.
  - injection H as <- <-. exists []. cbn. repeat split. lia.
  - destruct (is_digit c) eqn:Hc.
    + destruct (two63 / 10 <? acc); [discriminate|].
      destruct (two63 <? acc * 10 + (c - 48)); [discriminate|].
      destruct (IH _ _ _ H) as [ds [H1 [H2 [H3 H4]]]].
      exists (c :: ds). repeat split.
      * cbn [app]. rewrite <- H1. reflexivity.
      * cbn [all_digits forallb]. rewrite Hc. exact H2.
      * rewrite H3. cbn [dec_val List.length]. rewrite Nat2Z.inj_succ, Z.pow_succ_r by lia. ring.
      * exact H4.
    + injection H as <- <-. exists []. cbn [app all_digits forallb List.length dec_val Z.of_nat no_digit_head].
      repeat split; [|exact Hc]. rewrite Z.pow_0_r. lia.
Qed.

(* the accepted value never exceeds 2^63 *)
Lemma leading_int_le : forall s acc v rest,
  acc <= two63 -> leading_int acc s = Some (v, rest) -> v <= two63.
Proof.
  induction s as [|c s IH]; intros acc v rest Ha H; cbn [leading_int] in H.
  - injection H as <- <-. exact Ha.
  - destruct (is_digit c).
    + destruct (two63 / 10 <? acc); [discriminate|].
      destruct (two63 <? acc * 10 + (c - 48)) eqn:E; [discriminate|].
      apply Z.ltb_ge in E. exact (IH _ _ _ E H).
    + injection H as <- <-. exact Ha.
Qed.

(* ---------------------------------------------------------------- 2. span_unit *)

Definition unit_byte (c : Z) : bool := negb ((c =? 46) || is_digit c).
Definition unit_bytes (u : bytes) : bool := forallb unit_byte u.
Definition stop_head (s : bytes) : Prop :=
  match s with [] => True | c :: _ => (c =? 46) || is_digit c = true end.

Theorem span_unit_app : forall u rest,
  unit_bytes u = true -> stop_head rest -> span_unit (u ++ rest) = (u, rest).
Proof.
  induction u as [|c u IH]; intros rest Hu Hr.
  - cbn [app]. destruct rest as [|r rest]; cbn [span_unit]; [reflexivity|].
    cbn [stop_head] in Hr. rewrite Hr. reflexivity.
  - cbn [unit_bytes forallb] in Hu. apply andb_true_iff in Hu. destruct Hu as [Hc Hu].
    unfold unit_byte in Hc. apply negb_true_iff in Hc.
    cbn [app span_unit]. rewrite Hc, (IH rest Hu Hr). reflexivity.
Qed.

Theorem span_unit_inv : forall s u rest,
  span_unit s = (u, rest) -> s = u ++ rest /\ unit_bytes u = true /\ stop_head rest.
Proof.
  induction s as [|c s IH]; intros u rest H; cbn [span_unit] in H.
  - injection H as <- <-. repeat split.
  - destruct ((c =? 46) || is_digit c) eqn:Hc.
    + injection H as <- <-. repeat split. exact Hc.
    + destruct (span_unit s) as [u' r'] eqn:E. injection H as <- <-.
      destruct (IH _ _ eq_refl) as [H1 [H2 H3]]. repeat split.
      * cbn [app]. rewrite <- H1. reflexivity.
      * cbn [unit_bytes forallb]. unfold unit_byte at 1. rewrite Hc. exact H2.
      * exact H3.
Qed.

(* ---------------------------------------------------------------- the unit table *)

Lemma bytes_eq_true : forall a b, bytes_eq a b = true -> a = b.
Proof.
  induction a as [|x a IH]; destruct b as [|y b]; cbn [bytes_eq]; intros H; try discriminate; [reflexivity|].
  apply andb_true_iff in H. destruct H as [H1 H2]. apply Z.eqb_eq in H1. rewrite H1, (IH _ H2). reflexivity.
Qed.

Lemma assoc_bytes_in {A} (k : bytes) : forall (t : list (bytes * A)) v,
  assoc_bytes k t = Some v -> In (k, v) t.
Proof.
  induction t as [|[k' v'] t IH]; intros v H; cbn [assoc_bytes] in H; [discriminate|].
  destruct (bytes_eq k k') eqn:E.
  - apply bytes_eq_true in E. injection H as <-. subst k'. left. reflexivity.
  - right. exact (IH _ H).
Qed.

Lemma unit_of_in u uv : unit_of u = Some uv -> In (u, uv) unit_table.
Proof. apply assoc_bytes_in. Qed.

Lemma unit_table_facts u uv : In (u, uv) unit_table ->
  u <> [] /\ unit_bytes u = true /\ unit_of u = Some uv /\ 1 <= uv <= 3600000000000.
Proof.
  unfold unit_table. cbn [In]. intros H.
  repeat (destruct H as [H|H]; [injection H as <- <-; repeat split; try discriminate; vm_compute; congruence|]).
  destruct H.
Qed.

(* all 8 unit names contain neither a digit nor a dot *)
Lemma unit_table_names : forallb (fun p => unit_bytes (fst p)) unit_table = true.
Proof. vm_compute. reflexivity. Qed.

(* ---------------------------------------------------------------- one integer round of the loop *)

Lemma dur_loop_nil fuel d : dur_loop fuel [] d = Some d.
Proof. destruct fuel; reflexivity. Qed.

Lemma dur_loop_int_step fu c0 t d v c1 t1 u s3 unit :
  (c0 =? 46) || is_digit c0 = true ->
  leading_int 0 (c0 :: t) = Some (v, c1 :: t1) ->
  (c1 =? 46) = false ->
  Nat.eqb (List.length (c1 :: t1)) (List.length (c0 :: t)) = false ->
  span_unit (c1 :: t1) = (u, s3) -> u <> [] -> unit_of u = Some unit ->
  dur_loop (S fu) (c0 :: t) d =
    if two63 / unit <? v then None
    else if two63 <? (d + v * unit) mod two64 then None
         else dur_loop fu s3 ((d + v * unit) mod two64).
Proof.
  intros H0 Hl H1 Hn Hs Hu Hq.
  cbn [dur_loop]. rewrite H0. cbn [negb]. rewrite Hl, H1, Hn. cbn [negb andb]. rewrite Hs.
  destruct u as [|u0 u']; [congruence|]. rewrite Hq.
  change (0 <? 0) with false. cbn [andb]. reflexivity.
Qed.

(* ---------------------------------------------------------------- 4. several integer components *)

Definition comp : Type := (bytes * bytes * Z)%type.
Definition comp_text (c : comp) : bytes := let '(ds, u, _) := c in ds ++ u.
Definition comp_val (c : comp) : Z := let '(ds, _, uv) := c in dec_val ds * uv.
Definition comp_ok (c : comp) : Prop :=
  let '(ds, u, uv) := c in In (u, uv) unit_table /\ is_number ds = true.
Definition comps_text (cs : list comp) : bytes := flat_map comp_text cs.
Definition comps_val (cs : list comp) : Z := fold_right (fun c a => comp_val c + a) 0 cs.

Lemma is_number_inv ds : is_number ds = true ->
  exists c0 ds', ds = c0 :: ds' /\ is_digit c0 = true /\ all_digits ds = true.
Proof.
  unfold is_number. intros H. apply andb_true_iff in H. destruct H as [H1 H2].
  destruct ds as [|c0 ds']; [discriminate|]. exists c0, ds'. repeat split; [|exact H2].
  cbn [all_digits forallb] in H2. apply andb_true_iff in H2. tauto.
Qed.

Lemma comp_val_nonneg c : comp_ok c -> 0 <= comp_val c.
Proof.
  destruct c as [[ds u] uv]. cbn [comp_ok comp_val]. intros [Hu Hn].
  destruct (unit_table_facts _ _ Hu) as [_ [_ [_ Hv]]].
  destruct (is_number_inv _ Hn) as [c0 [ds' [_ [_ Hd]]]]. pose proof (dec_val_bound _ Hd). nia.
Qed.

Lemma comps_val_nonneg cs : Forall comp_ok cs -> 0 <= comps_val cs.
Proof.
  induction 1 as [|c cs Hc _ IH]; cbn [comps_val fold_right]; [lia|].
  pose proof (comp_val_nonneg _ Hc). fold (comps_val cs). lia.
Qed.

(* the text of a list of components is empty or starts with a digit *)
Lemma comps_text_head cs : Forall comp_ok cs ->
  match comps_text cs with [] => True | c :: _ => is_digit c = true end.
Proof.
  destruct 1 as [|c cs Hc _]; [exact I|]. destruct c as [[ds u] uv]. destruct Hc as [_ Hn].
  destruct (is_number_inv _ Hn) as [c0 [ds' [-> [H0 _]]]].
  cbn [comps_text flat_map comp_text app]. exact H0.
Qed.

Lemma comps_text_stop cs : Forall comp_ok cs -> stop_head (comps_text cs).
Proof.
  intros H. apply comps_text_head in H. unfold stop_head. destruct (comps_text cs); [exact I|].
  rewrite H. apply orb_true_r.
Qed.

Lemma unit_byte_head u : u <> [] -> unit_bytes u = true ->
  exists c1 u', u = c1 :: u' /\ (c1 =? 46) = false /\ is_digit c1 = false.
Proof.
  intros Hn Hu. destruct u as [|c1 u']; [congruence|]. exists c1, u'.
  cbn [unit_bytes forallb] in Hu. apply andb_true_iff in Hu. destruct Hu as [Hc _].
  unfold unit_byte in Hc. apply negb_true_iff, orb_false_iff in Hc. tauto.
Qed.

Lemma dur_loop_comps : forall cs fuel d,
  Forall comp_ok cs -> (List.length (comps_text cs) <= fuel)%nat -> 0 <= d ->
  d + comps_val cs <= two63 ->
  dur_loop fuel (comps_text cs) d = Some (d + comps_val cs).
Proof.
  induction cs as [|c cs IH]; intros fuel d Hok Hf Hd Hb.
  - cbn [comps_text flat_map comps_val fold_right]. rewrite dur_loop_nil. f_equal. lia.
  - inversion Hok as [|c' cs' Hc Hcs]; subst c' cs'.
    pose proof (comps_val_nonneg _ Hcs) as Hrest. pose proof (comps_text_stop _ Hcs) as Hstop.
    cbn [comps_text flat_map comps_val fold_right] in *.
    fold (comps_text cs) in *. fold (comps_val cs) in *.
    destruct c as [[ds u] uv]. cbn [comp_text comp_val] in *. destruct Hc as [Hu Hn].
    destruct (unit_table_facts _ _ Hu) as [Hne [Hub [Hq Hv]]].
    destruct (is_number_inv _ Hn) as [c0 [ds' [Eds [H0 Hdig]]]].
    destruct (unit_byte_head _ Hne Hub) as [c1 [u' [Eu [H1 H1d]]]].
    pose proof (dec_val_bound _ Hdig) as Hdv.
    assert (Hvu : dec_val ds * uv <= two63) by lia.
    assert (Hvl : dec_val ds <= two63) by nia.
    assert (Hli : leading_int 0 (ds ++ u ++ comps_text cs) = Some (dec_val ds, u ++ comps_text cs)).
    { apply leading_int_0; [exact Hdig| |exact Hvl]. rewrite Eu. exact H1d. }
    assert (Hsp : span_unit (u ++ comps_text cs) = (u, comps_text cs))
      by (apply span_unit_app; assumption).
    rewrite <- app_assoc in Hf |- *.
    rewrite !app_length in Hf.
    destruct fuel as [|fu]; [rewrite Eds in Hf; cbn [List.length] in Hf; lia|].
    assert (Hlen : Nat.eqb (List.length (u ++ comps_text cs)) (List.length (ds ++ u ++ comps_text cs)) = false).
    { apply Nat.eqb_neq. rewrite (app_length ds). rewrite Eds. cbn [List.length]. lia. }
    assert (Hfu : (List.length (comps_text cs) <= fu)%nat).
    { rewrite Eds, Eu in Hf. cbn [List.length] in Hf. lia. }
    set (V := dec_val ds) in *.
    assert (Hvn : 0 <= V * uv) by nia. pose proof two63_pos as H63.
    rewrite Eds in Hli, Hlen |- *. rewrite Eu in Hli, Hsp, Hlen |- *.
    cbn [app] in Hli, Hsp, Hlen |- *.
    rewrite (dur_loop_int_step fu c0 _ d _ c1 _ _ _ uv
               (eq_trans (f_equal (orb (c0 =? 46)) H0) (orb_true_r _)) Hli H1 Hlen Hsp);
      [|discriminate|rewrite <- Eu; exact Hq].
    replace (two63 / uv <? V) with false
      by (symmetry; apply Z.ltb_ge; apply Z.div_le_lower_bound; lia).
    rewrite (Z.mod_small (d + V * uv) two64) by (rewrite two64_two63; lia).
    replace (two63 <? d + V * uv) with false by (symmetry; apply Z.ltb_ge; lia).
    rewrite IH; [|exact Hcs|exact Hfu|lia|lia]. f_equal. lia.
Qed.

(* ---------------------------------------------------------------- the sign and the zero special case *)

Definition sign_split (s : bytes) : bool * bytes :=
  match s with
  | c :: t => if c =? 45 then (true, t) else if c =? 43 then (false, t) else (false, s)
  | [] => (false, s)
  end.

Definition parse_body (neg : bool) (s1 : bytes) : option Z :=
  if bytes_eq s1 [48] then Some 0
  else match s1 with
       | [] => None
       | _ => match dur_loop (List.length s1) s1 0 with
              | None => None
              | Some d => if neg then Some (- d) else if two63 - 1 <? d then None else Some d
              end
       end.

Lemma parse_duration_split s :
  parse_duration s = parse_body (fst (sign_split s)) (snd (sign_split s)).
Proof.
  unfold parse_duration, sign_split, parse_body.
  destruct s as [|c t]; [reflexivity|].
  destruct (c =? 45); [reflexivity|]. destruct (c =? 43); reflexivity.
Qed.

Definition no_sign_head (s : bytes) : Prop :=
  match s with [] => True | c :: _ => c <> 43 /\ c <> 45 end.

Lemma sign_split_plain s : no_sign_head s -> sign_split s = (false, s).
Proof.
  destruct s as [|c t]; [reflexivity|]. intros [H1 H2]. unfold sign_split.
  rewrite (proj2 (Z.eqb_neq c 45) H2), (proj2 (Z.eqb_neq c 43) H1). reflexivity.
Qed.

Theorem parse_duration_zero : parse_duration [48] = Some 0.
Proof. reflexivity. Qed.

Theorem parse_duration_plus s : no_sign_head s -> parse_duration (43 :: s) = parse_duration s.
Proof.
  intros H. rewrite !parse_duration_split, (sign_split_plain s H). reflexivity.
Qed.

Theorem parse_duration_plus_zero : parse_duration [43; 48] = Some 0.
Proof. reflexivity. Qed.

Theorem parse_duration_minus_zero : parse_duration [45; 48] = Some 0.
Proof. reflexivity. Qed.

Theorem parse_duration_minus s : parse_duration (45 :: s) = parse_body true s.
Proof. rewrite parse_duration_split. reflexivity. Qed.

(* ---------------------------------------------------------------- 3./4. parse_duration on integer components *)

Lemma comps_text_cons_shape c cs : Forall comp_ok (c :: cs) ->
  exists c0 t, comps_text (c :: cs) = c0 :: t /\ is_digit c0 = true /\ t <> [].
Proof.
  intros Hok. inversion Hok as [|c' cs' Hc Hcs]; subst c' cs'.
  destruct c as [[ds u] uv]. destruct Hc as [Hu Hn].
  destruct (unit_table_facts _ _ Hu) as [Hne _].
  destruct (is_number_inv _ Hn) as [c0 [ds' [-> [H0 _]]]].
  exists c0, ((ds' ++ u) ++ comps_text cs). repeat split; [exact H0|].
  destruct ds'; destruct u; cbn; congruence.
Qed.

Lemma parse_body_comps neg cs : cs <> [] -> Forall comp_ok cs -> comps_val cs <= two63 ->
  parse_body neg (comps_text cs) =
  if neg then Some (- comps_val cs)
  else if two63 - 1 <? comps_val cs then None else Some (comps_val cs).
Proof.
  intros Hne Hok Hb. destruct cs as [|c cs]; [congruence|].
  destruct (comps_text_cons_shape c cs Hok) as [c0 [t [E [H0 Ht]]]].
  unfold parse_body.
  rewrite (dur_loop_comps (c :: cs) _ 0 Hok (le_n _)); [|lia|lia].
  rewrite E. destruct (bytes_eq (c0 :: t) [48]) eqn:Eb.
  - apply bytes_eq_true in Eb. congruence.
  - rewrite Z.add_0_l. reflexivity.
Qed.

Lemma comps_no_sign cs : Forall comp_ok cs -> no_sign_head (comps_text cs).
Proof.
  intros H. apply comps_text_head in H. unfold no_sign_head. destruct (comps_text cs); [exact I|].
  apply is_digit_spec in H. lia.
Qed.

Theorem parse_duration_comps cs :
  cs <> [] -> Forall comp_ok cs -> comps_val cs <= two63 - 1 ->
  parse_duration (comps_text cs) = Some (comps_val cs).
Proof.
  intros Hne Hok Hb. rewrite parse_duration_split, (sign_split_plain _ (comps_no_sign _ Hok)).
  cbn [fst snd]. rewrite (parse_body_comps false cs Hne Hok) by lia.
  replace (two63 - 1 <? comps_val cs) with false by (symmetry; apply Z.ltb_ge; lia). reflexivity.
Qed.

Theorem parse_duration_plus_comps cs :
  cs <> [] -> Forall comp_ok cs -> comps_val cs <= two63 - 1 ->
  parse_duration (43 :: comps_text cs) = Some (comps_val cs).
Proof.
  intros Hne Hok Hb. rewrite (parse_duration_plus _ (comps_no_sign _ Hok)).
  apply parse_duration_comps; assumption.
Qed.

(* a negative duration reaches - 2^63 *)
Theorem parse_duration_minus_comps cs :
  cs <> [] -> Forall comp_ok cs -> comps_val cs <= two63 ->
  parse_duration (45 :: comps_text cs) = Some (- comps_val cs).
Proof.
  intros Hne Hok Hb. rewrite parse_duration_minus.
  rewrite (parse_body_comps true cs Hne Hok Hb). reflexivity.
Qed.

Theorem parse_duration_single ds u uv :
  In (u, uv) unit_table -> is_number ds = true -> dec_val ds * uv <= two63 - 1 ->
  parse_duration (ds ++ u) = Some (dec_val ds * uv).
Proof.
  intros Hu Hn Hb.
  pose proof (parse_duration_comps [(ds, u, uv)]) as H.
  cbn [comps_text flat_map comp_text comps_val fold_right comp_val] in H.
  rewrite app_nil_r, Z.add_0_r in H. apply H; [discriminate| |exact Hb].
  constructor; [split; assumption|constructor].
Qed.

Corollary parse_duration_render k u uv :
  In (u, uv) unit_table -> 0 <= k -> k * uv <= two63 - 1 ->
  parse_duration (render_dec k ++ u) = Some (k * uv).
Proof.
  intros Hu Hk Hb. destruct (render_dec_spec k Hk) as [_ [_ Hv]].
  rewrite <- Hv at 2. apply parse_duration_single; [exact Hu|apply render_dec_number; exact Hk|].
  rewrite Hv. exact Hb.
Qed.

(* ---------------------------------------------------------------- 6. every accepted value is an int64 *)

Lemma two64_pos : 0 < two64. Proof. reflexivity. Qed.

Definition frac_part (s1 : bytes) : Z * Z * bytes * bool :=
  match s1 with
  | c1 :: t => if c1 =? 46
               then let '(f, k, r) := leading_fraction 0 0 false t in
                    (f, k, r, negb (Nat.eqb (List.length r) (List.length t)))
               else (0, 0, s1, false)
  | [] => (0, 0, s1, false)
  end.

Lemma dur_loop_unfold fu c0 t d :
  dur_loop (S fu) (c0 :: t) d =
  if negb ((c0 =? 46) || is_digit c0) then None else
  match leading_int 0 (c0 :: t) with
  | None => None
  | Some (v, s1) =>
    let '(f, k, s2, post) := frac_part s1 in
    if negb (negb (Nat.eqb (List.length s1) (List.length (c0 :: t)))) && negb post then None else
    let (u, s3) := span_unit s2 in
    match u with
    | [] => None
    | _ =>
      match unit_of u with
      | None => None
      | Some unit =>
        if two63 / unit <? v then None else
        let v2 := if 0 <? f then v * unit + frac_ns f unit k else v * unit in
        if (0 <? f) && (two63 <? v2) then None else
        if two63 <? (d + v2) mod two64 then None else dur_loop fu s3 ((d + v2) mod two64)
      end
    end
  end.
Proof. reflexivity. Qed.

Lemma dur_loop_range : forall fuel s d r,
  dur_loop fuel s d = Some r -> 0 <= d <= two63 -> 0 <= r <= two63.
Proof.
  induction fuel as [|fu IH]; intros s d r H Hd; destruct s as [|c0 t].
  - injection H as <-. exact Hd.
  - discriminate H.
  - injection H as <-. exact Hd.
  - rewrite dur_loop_unfold in H.
    destruct (negb ((c0 =? 46) || is_digit c0)); [discriminate|].
    destruct (leading_int 0 (c0 :: t)) as [[v s1]|]; [|discriminate].
    destruct (frac_part s1) as [[[f k] s2] post]. cbv beta iota in H.
    destruct (negb (negb (Nat.eqb (List.length s1) (List.length (c0 :: t)))) && negb post); [discriminate|].
    destruct (span_unit s2) as [u s3]. destruct u as [|u0 u']; [discriminate|].
    destruct (unit_of (u0 :: u')) as [unit|]; [|discriminate].
    destruct (two63 / unit <? v); [discriminate|]. cbv zeta in H.
    destruct ((0 <? f) && (two63 <? (if 0 <? f then v * unit + frac_ns f unit k else v * unit))); [discriminate|].
    match type of H with (if two63 <? ?X then _ else _) = _ => destruct (two63 <? X) eqn:E; [discriminate|] end.
    apply Z.ltb_ge in E. apply IH in H; [exact H|]. split; [|exact E].
    apply Z.mod_pos_bound. exact two64_pos.
Qed.

Theorem parse_duration_range s d : parse_duration s = Some d -> - two63 <= d <= two63 - 1.
Proof.
  rewrite parse_duration_split. generalize (fst (sign_split s)) (snd (sign_split s)). clear s.
  intros neg s1. unfold parse_body. pose proof two63_pos as H63.
  destruct (bytes_eq s1 [48]); [intros H; injection H as <-; lia|].
  destruct s1 as [|c t]; [discriminate|].
  destruct (dur_loop (List.length (c :: t)) (c :: t) 0) as [r|] eqn:E; [|discriminate].
  apply dur_loop_range in E; [|lia].
  destruct neg; [intros H; injection H as <-; lia|].
  destruct (two63 - 1 <? r) eqn:F; [discriminate|]. apply Z.ltb_ge in F.
  intros H; injection H as <-. lia.
Qed.

(* ---------------------------------------------------------------- 6b. accepted fraction-free input, syntactically *)

Lemma mem_app c a b : mem c (a ++ b) = mem c a || mem c b.
Proof. induction a as [|x a IH]; cbn [app mem]; [reflexivity|]. rewrite IH, orb_assoc. reflexivity. Qed.

Lemma frac_part_nodot s1 : mem 46 s1 = false -> frac_part s1 = (0, 0, s1, false).
Proof.
  destruct s1 as [|c1 t]; [reflexivity|]. cbn [mem frac_part]. intros H.
  apply orb_false_iff in H. destruct H as [H _]. rewrite H. reflexivity.
Qed.

Lemma dur_loop_nofrac_step fu c0 t d r :
  mem 46 (c0 :: t) = false -> dur_loop (S fu) (c0 :: t) d = Some r ->
  exists ds u uv s3,
    c0 :: t = ds ++ u ++ s3 /\ is_number ds = true /\ In (u, uv) unit_table /\
    dec_val ds * uv <= two63 /\ (d + dec_val ds * uv) mod two64 <= two63 /\
    dur_loop fu s3 ((d + dec_val ds * uv) mod two64) = Some r.
Proof.
  intros Hm H. rewrite dur_loop_unfold in H.
  destruct (negb ((c0 =? 46) || is_digit c0)); [discriminate|].
  destruct (leading_int 0 (c0 :: t)) as [[v s1]|] eqn:El; [|discriminate].
  destruct (leading_int_inv _ _ _ _ El) as [ds [Es [Hds [Hv Hnd]]]].
  rewrite Es, mem_app in Hm. apply orb_false_iff in Hm. destruct Hm as [_ Hm1].
  rewrite (frac_part_nodot s1 Hm1) in H. cbv beta iota in H.
  destruct (Nat.eqb (List.length s1) (List.length (c0 :: t))) eqn:En; [discriminate|].
  cbn [negb andb] in H.
  destruct (span_unit s1) as [u s3] eqn:Eu.
  destruct (span_unit_inv _ _ _ Eu) as [Es1 _].
  destruct u as [|u0 u']; [discriminate|].
  destruct (unit_of (u0 :: u')) as [unit|] eqn:Eq; [|discriminate].
  apply unit_of_in in Eq. destruct (unit_table_facts _ _ Eq) as [_ [_ [_ Hunit]]].
  destruct (two63 / unit <? v) eqn:Ev; [discriminate|]. apply Z.ltb_ge in Ev.
  cbv zeta in H. destruct (0 <? 0) eqn:E0; [discriminate E0|]. cbn [andb] in H.
  match type of H with (if two63 <? ?X then _ else _) = _ => destruct (two63 <? X) eqn:E; [discriminate|] end.
  apply Z.ltb_ge in E.
  assert (Hvd : v = dec_val ds) by lia. subst v.
  exists ds, (u0 :: u'), unit, s3. repeat split.
  - rewrite Es, Es1. reflexivity.
  - unfold is_number. rewrite Hds. destruct ds as [|x ds']; [|reflexivity].
    cbn [app] in Es. subst s1. rewrite Nat.eqb_refl in En. discriminate.
  - exact Eq.
  - assert (unit * (two63 / unit) <= two63) by (apply Z.mul_div_le; lia). nia.
  - exact E.
  - exact H.
Qed.

Lemma dur_loop_nofrac : forall fuel s d r,
  mem 46 s = false -> 0 <= d -> dur_loop fuel s d = Some r ->
  exists cs, Forall comp_ok cs /\ Forall (fun c => comp_val c <= two63) cs /\
             s = comps_text cs /\
             r mod two64 = (d + comps_val cs) mod two64 /\
             (d + comps_val cs < two64 -> r = d + comps_val cs).
Proof.
  induction fuel as [|fu IH]; intros s d r Hm Hd H; destruct s as [|c0 t].
  1,3: injection H as <-; exists []; cbn [comps_text flat_map comps_val fold_right];
       rewrite Z.add_0_r; repeat split; constructor.
  - discriminate H.
  - destruct (dur_loop_nofrac_step _ _ _ _ _ Hm H) as [ds [u [uv [s3 [Es [Hn [Hu [Hb [_ Hr]]]]]]]]].
    assert (Hm3 : mem 46 s3 = false).
    { rewrite Es, !mem_app in Hm. apply orb_false_iff in Hm. destruct Hm as [_ Hm].
      apply orb_false_iff in Hm. tauto. }
    pose proof two64_pos as H64.
    assert (Hd' : 0 <= (d + dec_val ds * uv) mod two64) by (apply Z.mod_pos_bound; exact H64).
    destruct (IH _ _ _ Hm3 Hd' Hr) as [cs [Hok [Hle [Etext [Hmod Hex]]]]].
    assert (Hc : comp_ok (ds, u, uv)) by (split; assumption).
    pose proof (comp_val_nonneg _ Hc) as Hcv. cbn [comp_val] in Hcv.
    pose proof (comps_val_nonneg _ Hok) as Hrest.
    exists ((ds, u, uv) :: cs). cbn [comps_text flat_map comp_text comps_val fold_right comp_val].
    fold (comps_text cs). fold (comps_val cs). repeat split.
    + constructor; assumption.
    + constructor; [exact Hb|exact Hle].
    + rewrite Es, Etext, app_assoc. reflexivity.
    + rewrite Hmod, Z.add_mod_idemp_l by lia. f_equal. lia.
    + intros Hlt. rewrite Z.mod_small in Hex by lia. rewrite Hex by lia. lia.
Qed.

Lemma sign_split_spec s :
  exists sg, s = sg ++ snd (sign_split s) /\
             (sg = [] /\ fst (sign_split s) = false \/ sg = [43] /\ fst (sign_split s) = false \/
              sg = [45] /\ fst (sign_split s) = true).
Proof.
  destruct s as [|c t]; [exists []; cbn; auto|]. unfold sign_split.
  destruct (c =? 45) eqn:E1; [apply Z.eqb_eq in E1; subst c; exists [45]; cbn; auto|].
  destruct (c =? 43) eqn:E2; [apply Z.eqb_eq in E2; subst c; exists [43]; cbn; auto|].
  exists []. cbn. auto.
Qed.

Theorem parse_duration_nofrac_exact s d :
  parse_duration s = Some d -> mem 46 s = false ->
  let neg := fst (sign_split s) in
  let s1 := snd (sign_split s) in
  (s1 = [48] /\ d = 0) \/
  exists cs m,
    cs <> [] /\ Forall comp_ok cs /\ Forall (fun c => comp_val c <= two63) cs /\
    s1 = comps_text cs /\
    0 <= m <= two63 /\ m mod two64 = comps_val cs mod two64 /\
    (comps_val cs < two64 -> m = comps_val cs) /\
    d = (if neg then - m else m) /\ (neg = false -> m <= two63 - 1).
Proof.
  intros H Hm. cbv zeta.
  destruct (sign_split_spec s) as [sg [Es _]].
  assert (Hm1 : mem 46 (snd (sign_split s)) = false).
  { rewrite Es, mem_app in Hm. apply orb_false_iff in Hm. tauto. }
  rewrite parse_duration_split in H. clear Es.
  revert H Hm1. generalize (fst (sign_split s)) (snd (sign_split s)). clear s Hm sg.
  intros neg s1 H Hm1. unfold parse_body in H.
  destruct (bytes_eq s1 [48]) eqn:Eb.
  { left. apply bytes_eq_true in Eb. injection H as <-. auto. }
  right. destruct s1 as [|c t]; [discriminate|].
  destruct (dur_loop (List.length (c :: t)) (c :: t) 0) as [r|] eqn:E; [|discriminate].
  pose proof (dur_loop_range _ _ _ _ E) as Hr. pose proof two63_pos as H63.
  destruct (dur_loop_nofrac _ _ _ _ Hm1 (Z.le_refl 0) E) as [cs [Hok [Hle [Et [Hmod Hex]]]]].
  rewrite Z.add_0_l in Hmod, Hex.
  exists cs, r. repeat split; try assumption; try lia.
  - intros ->. discriminate Et.
  - destruct neg; [congruence|]. destruct (two63 - 1 <? r); congruence.
  - intros ->. destruct (two63 - 1 <? r) eqn:F; [discriminate|]. apply Z.ltb_ge in F. exact F.
Qed.

(* ---------------------------------------------------------------- the fuel is adequate *)

Lemma leading_fraction_len : forall s x k o,
  (List.length (snd (leading_fraction x k o s)) <= List.length s)%nat.
Proof.
  induction s as [|c s IH]; intros x k o; cbn [leading_fraction]; [cbn; lia|].
  destruct (is_digit c); [|cbn; lia].
  destruct o; [specialize (IH x k true); cbn [List.length]; lia|].
  destruct ((two63 - 1) / 10 <? x); [specialize (IH x k true); cbn [List.length]; lia|].
  destruct (two63 <? x * 10 + (c - 48)).
  - specialize (IH x k true). cbn [List.length]. lia.
  - specialize (IH (x * 10 + (c - 48)) (k + 1) false). cbn [List.length]. lia.
Qed.

Lemma frac_part_len s1 : (List.length (snd (fst (frac_part s1))) <= List.length s1)%nat.
Proof.
  destruct s1 as [|c1 t]; cbn [frac_part]; [cbn; lia|].
  destruct (c1 =? 46); [|cbn; lia].
  pose proof (leading_fraction_len t 0 0 false) as H.
  destruct (leading_fraction 0 0 false t) as [[f k] r]. cbn [fst snd List.length] in *. lia.
Qed.

(* every round consumes at least one byte: any fuel not below the length of the text gives the same result *)
Theorem dur_loop_fuel : forall fuel1 fuel2 s d,
  (List.length s <= fuel1)%nat -> (List.length s <= fuel2)%nat ->
  dur_loop fuel1 s d = dur_loop fuel2 s d.
Proof.
  induction fuel1 as [|f1 IH]; intros [|f2] s d H1 H2; destruct s as [|c0 t];
    try reflexivity; try (cbn [List.length] in H1, H2; lia).
  rewrite !dur_loop_unfold.
  destruct (negb ((c0 =? 46) || is_digit c0)); [reflexivity|].
  destruct (leading_int 0 (c0 :: t)) as [[v s1]|] eqn:El; [|reflexivity].
  destruct (leading_int_inv _ _ _ _ El) as [ds [Es _]].
  pose proof (frac_part_len s1) as Hf.
  destruct (frac_part s1) as [[[f k] s2] post]. cbv beta iota. cbn [fst snd] in Hf.
  destruct (negb (negb (Nat.eqb (List.length s1) (List.length (c0 :: t)))) && negb post); [reflexivity|].
  destruct (span_unit s2) as [u s3] eqn:Eu. destruct (span_unit_inv _ _ _ Eu) as [Es2 _].
  destruct u as [|u0 u']; [reflexivity|].
  destruct (unit_of (u0 :: u')) as [unit|]; [|reflexivity].
  destruct (two63 / unit <? v); [reflexivity|]. cbv zeta.
  destruct ((0 <? f) && (two63 <? (if 0 <? f then v * unit + frac_ns f unit k else v * unit))); [reflexivity|].
  match goal with |- (if two63 <? ?X then _ else _) = _ => destruct (two63 <? X); [reflexivity|] end.
  assert (Hl : (List.length s3 < List.length (c0 :: t))%nat).
  { rewrite Es, app_length. rewrite Es2 in Hf. cbn [app List.length] in Hf. rewrite app_length in Hf. lia. }
  cbn [List.length] in H1, H2, Hl. apply IH; lia.
Qed.

(* ---------------------------------------------------------------- concrete values (fractions included) *)

Example ex_1h30m : parse_duration [49; 104; 51; 48; 109] = Some 5400000000000.      (* 1h30m *)
Proof. vm_compute. reflexivity. Qed.
Example ex_1_5h : parse_duration [49; 46; 53; 104] = Some 5400000000000.            (* 1.5h *)
Proof. vm_compute. reflexivity. Qed.
Example ex_neg_dot5s : parse_duration [45; 46; 53; 115] = Some (-500000000).        (* -.5s *)
Proof. vm_compute. reflexivity. Qed.
Example ex_dot_s : parse_duration [46; 115] = None.                                 (* .s *)
Proof. vm_compute. reflexivity. Qed.
Example ex_no_unit : parse_duration [49; 48] = None.                                (* 10 *)
Proof. vm_compute. reflexivity. Qed.
Example ex_1_dot_s : parse_duration [49; 46; 115] = Some 1000000000.                (* 1.s *)
Proof. vm_compute. reflexivity. Qed.
Example ex_long_fraction :                                          (* .9223372036854775808s *)
  parse_duration ([46; 57; 50; 50; 51; 51; 55; 50; 48; 51; 54; 56; 53; 52; 55; 55; 53; 56; 48; 56] ++ [115])
  = Some 922337203.
Proof. vm_compute. reflexivity. Qed.
Example ex_two63_ns : parse_duration (render_dec two63 ++ [110; 115]) = None.
Proof. vm_compute. reflexivity. Qed.
Example ex_min : parse_duration (45 :: render_dec two63 ++ [110; 115]) = Some (- two63).
Proof. vm_compute. reflexivity. Qed.
(* the uint64 wrap: 2^63 ns + 2^63 ns is accepted with value 0 *)
Example ex_wrap :
  parse_duration (render_dec two63 ++ [110; 115] ++ render_dec two63 ++ [110; 115]) = Some 0.
Proof. vm_compute. reflexivity. Qed.

Print Assumptions leading_int_digits.
Print Assumptions leading_int_inv.
Print Assumptions span_unit_app.
Print Assumptions span_unit_inv.
Print Assumptions unit_table_facts.
Print Assumptions dur_loop_comps.
Print Assumptions parse_duration_single.
Print Assumptions parse_duration_render.
Print Assumptions parse_duration_comps.
Print Assumptions parse_duration_plus_comps.
Print Assumptions parse_duration_minus_comps.
Print Assumptions parse_duration_zero.
Print Assumptions parse_duration_plus.
Print Assumptions parse_duration_minus.
Print Assumptions parse_duration_range.
Print Assumptions dur_loop_nofrac.
Print Assumptions dur_loop_fuel.
Print Assumptions parse_duration_nofrac_exact.
Print Assumptions ex_wrap.
