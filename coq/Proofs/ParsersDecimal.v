(* Decimal strings: positional value [dec_val], the rendering [render_dec], and the digit loops of
   strconv.ParseUint ([digits_val]) -- shared by the port, rate and duration proofs. *)
From Coq Require Import ZArith List Bool Lia.
From SX Require Import Model.Unquote Model.Duration Model.Parsers.
Import ListNotations.
Open Scope Z_scope.

Lemma in_range_spec lo hi b : in_range lo hi b = true <-> lo <= b <= hi.
Proof. unfold in_range. rewrite andb_true_iff, !Z.leb_le. tauto. Qed.

Lemma is_digit_spec c : is_digit c = true <-> 48 <= c <= 57.
Proof. apply in_range_spec. Qed.

Lemma is_digit_false c : is_digit c = false <-> ~ (48 <= c <= 57).
Proof. rewrite <- is_digit_spec. destruct (is_digit c); split; intros; try congruence; tauto. Qed.

Lemma dec_val_app s t : dec_val (s ++ t) = dec_val s * 10 ^ Z.of_nat (length t) + dec_val t.
Proof.
  induction s as [|c s IH]; cbn [app dec_val]; [lia|].
  rewrite IH, app_length, Nat2Z.inj_add, Z.pow_add_r by lia. ring.
Qed.

Lemma dec_val_snoc s d : dec_val (s ++ [d]) = dec_val s * 10 + (d - 48).
Proof. rewrite dec_val_app. cbn. lia. Qed.

Lemma all_digits_app s t : all_digits (s ++ t) = all_digits s && all_digits t.
Proof. apply forallb_app. Qed.

Lemma dec_val_bound s : all_digits s = true -> 0 <= dec_val s < 10 ^ Z.of_nat (length s).
Proof.
  induction s as [|c s IH]; cbn [all_digits forallb dec_val length]; intros H; [cbn; lia|].
  apply andb_true_iff in H. destruct H as [Hc Hs]. apply is_digit_spec in Hc. specialize (IH Hs).
  rewrite Nat2Z.inj_succ, Z.pow_succ_r by lia. nia.
Qed.

(* ---------------------------------------------------------------- render_dec *)

Lemma render_dec_f_spec fuel : forall n acc,
  0 <= n < 2 ^ Z.of_nat (S fuel) ->
  exists ds, render_dec_f (S fuel) n acc = ds ++ acc /\ ds <> [] /\ all_digits ds = true /\ dec_val ds = n.
Proof.
  induction fuel as [|f IH]; intros n acc Hn; cbn [render_dec_f];
    assert (Hd : is_digit (48 + n mod 10) = true) by (apply is_digit_spec; pose proof (Z.mod_pos_bound n 10); lia);
    destruct (n <? 10) eqn:E.
  1,3: apply Z.ltb_lt in E; exists [48 + n mod 10]; repeat split;
       [discriminate | unfold all_digits; cbn [forallb]; rewrite Hd; reflexivity | cbn [dec_val length Z.of_nat]; rewrite Z.pow_0_r, Z.mod_small by lia; lia].
  - apply Z.ltb_ge in E. cbn in Hn. lia.
  - apply Z.ltb_ge in E.
    assert (Hn' : 0 <= n / 10 < 2 ^ Z.of_nat (S f)).
    { split; [apply Z.div_pos; lia|]. apply Z.div_lt_upper_bound; [lia|].
      rewrite (Nat2Z.inj_succ (S f)), Z.pow_succ_r in Hn by lia. lia. }
    destruct (IH (n / 10) ((48 + n mod 10) :: acc) Hn') as [ds [H1 [H2 [H3 H4]]]].
    exists (ds ++ [48 + n mod 10]). repeat split.
    + change (render_dec_f (S f) (n / 10) ((48 + n mod 10) :: acc) = (ds ++ [48 + n mod 10]) ++ acc).
      rewrite H1, <- app_assoc. reflexivity.
    + destruct ds; discriminate.
    + rewrite all_digits_app, H3. unfold all_digits. cbn [forallb]. rewrite Hd. reflexivity.
    + rewrite dec_val_snoc, H4. pose proof (Z.div_mod n 10). lia.
Qed.

Lemma render_dec_spec n : 0 <= n ->
  render_dec n <> [] /\ all_digits (render_dec n) = true /\ dec_val (render_dec n) = n.
Proof.
  intros Hn. unfold render_dec.
  assert (Hb : 0 <= n < 2 ^ Z.of_nat (S (Z.to_nat (Z.log2 n)))).
  { split; [lia|]. rewrite Nat2Z.inj_succ, Z2Nat.id by apply Z.log2_nonneg.
    destruct (Z.eq_dec n 0) as [->|Hz]; [cbn; lia|]. apply Z.log2_spec. lia. }
  destruct (render_dec_f_spec _ n [] Hb) as [ds [H1 [H2 [H3 H4]]]].
  rewrite H1, app_nil_r. auto.
Qed.

Lemma render_dec_number n : 0 <= n -> is_number (render_dec n) = true.
Proof.
  intros Hn. destruct (render_dec_spec n Hn) as [H1 [H2 _]]. unfold is_number. rewrite H2.
  destruct (render_dec n); [congruence|reflexivity].
Qed.

(* ---------------------------------------------------------------- the digit loop of ParseUint, base 10 *)

Lemma digit_val_10 c : match digit_val c with Some d => d <? 10 | None => false end = is_digit c.
Proof.
  unfold digit_val. destruct (is_digit c) eqn:E.
  - apply is_digit_spec in E. apply Z.ltb_lt. lia.
  - destruct (in_range 97 122 (lower_byte c)) eqn:F; [|reflexivity].
    apply in_range_spec in F. apply Z.ltb_ge. lia.
Qed.

Lemma digit_val_digit c : is_digit c = true -> digit_val c = Some (c - 48).
Proof. intros H. unfold digit_val. rewrite H. reflexivity. Qed.

Lemma digits_val_10_some s : forall acc v,
  digits_val 10 acc s = Some v ->
  all_digits s = true /\ v = acc * 10 ^ Z.of_nat (length s) + dec_val s.
Proof.
  induction s as [|c s IH]; intros acc v H; cbn [digits_val] in H.
  - injection H as <-. cbn. split; [reflexivity|lia].
  - pose proof (digit_val_10 c) as Hd. destruct (digit_val c) as [d|] eqn:E; [|discriminate].
    destruct (d <? 10) eqn:F; [|discriminate].
    assert (Hc : is_digit c = true) by congruence.
    rewrite (digit_val_digit c Hc) in E. injection E as <-.
    destruct (two64 <=? acc * 10 + (c - 48)); [discriminate|].
    destruct (IH _ _ H) as [H1 H2]. split.
    + cbn [all_digits forallb]. rewrite Hc. exact H1.
    + rewrite H2. cbn [dec_val length]. rewrite Nat2Z.inj_succ, Z.pow_succ_r by lia. ring.
Qed.

Lemma digits_val_10_complete s : forall acc,
  all_digits s = true -> 0 <= acc -> acc * 10 ^ Z.of_nat (length s) + dec_val s < two64 ->
  digits_val 10 acc s = Some (acc * 10 ^ Z.of_nat (length s) + dec_val s).
Proof.
  induction s as [|c s IH]; intros acc H Ha Hb; cbn [digits_val].
  - cbn. f_equal. lia.
  - cbn [all_digits forallb] in H. apply andb_true_iff in H. destruct H as [Hc Hs].
    rewrite (digit_val_digit c Hc). pose proof (proj1 (is_digit_spec c) Hc) as Hr.
    replace (c - 48 <? 10) with true by (symmetry; apply Z.ltb_lt; lia).
    pose proof (dec_val_bound s Hs) as Hv.
    cbn [dec_val length] in Hb. rewrite Nat2Z.inj_succ, Z.pow_succ_r in Hb by lia.
    assert (Hp : 0 < 10 ^ Z.of_nat (length s)) by (apply Z.pow_pos_nonneg; lia).
    replace (two64 <=? acc * 10 + (c - 48)) with false by (symmetry; apply Z.leb_gt; nia).
    rewrite IH; [|exact Hs|lia|nia].
    f_equal. cbn [dec_val length]. rewrite Nat2Z.inj_succ, Z.pow_succ_r by lia. ring.
Qed.
