(* Coverage (C01): for every generator chain the commands build, the probes of one scan pass are - as a
   multiset - exactly what the target specification denotes; no errors, normal termination. *)
From Coq Require Import ZArith List Bool Lia Permutation.
From SX Require Import Base.Loop Base.Bytes Model.RangeIter Model.IPNet Model.Exclude Model.Targets Model.FileTargets
  Proofs.NumTheory Proofs.RangeIterProofs Proofs.IPNetProofs Proofs.StagesProofs Proofs.TargetsProofs
  Proofs.FileTargetsProofs.
Import ListNotations.
Open Scope Z_scope.

Lemma net_addrs_ok n : Forall addr_ok (net_addrs n).
Proof.
  unfold net_addrs, net_addrs_from. apply Forall_forall. intros a Ha. apply in_map_iff in Ha.
  destruct Ha as [i [<- _]]. left. reflexivity.
Qed.

Lemma Forall_perm {A} (P : A -> Prop) l l' : Permutation l l' -> Forall P l' -> Forall P l.
Proof. intros Hp H. rewrite Forall_forall in *. intros x Hx. apply H. eapply Permutation_in; eassumption. Qed.

(* blocks built from error-free passes over well-formed addresses are good requests *)
Lemma blocks_good pass A : Forall addr_ok A -> (forall k, exists a, pass k = map inl a /\ Permutation a A) ->
  forall ps k, Forall good_req (blocks pass k ps).
Proof.
  intros HA Hp ps. induction ps as [|p ps IH]; intros k; cbn [blocks]; [constructor|].
  apply Forall_app. split; [|apply IH]. destruct (Hp k) as [a [-> Pa]]. rewrite map_map.
  apply Forall_forall. intros r Hr. apply in_map_iff in Hr. destruct Hr as [x [<- Hx]].
  repeat split. cbn. pose proof (Forall_perm _ _ _ Pa HA) as Ha. rewrite Forall_forall in Ha. apply Ha. exact Hx.
Qed.

Section Coverage.
Variable table : list row.
Hypothesis table_good : table_ok table.

(* ---------- the nested generator over any good address source ---------- *)
Lemma nested_coverage dp src pass A st rs :
  nonneg dp -> rs <> [] -> Forall valid_range rs -> cache_total st ->
  good_source src pass -> Forall addr_ok A -> (forall k, exists a, pass k = map inl a /\ Permutation a A) ->
  let evs := events (apply_stages st (ip_port_gen (ports_gen table dp rs) src)) in
  Permutation (probes evs) (cross (all_ports rs) (filter (kept st) A)) /\ errors evs = [] /\ normal evs = true.
Proof.
  intros Hdp Hne Hv Ht Hsrc HA Hpass.
  destruct (ports_gen_ok table table_good dp rs Hdp Hne Hv) as [ps [Hg Hp]].
  cbv zeta. rewrite Hg, (ip_port_gen_blocks src pass ps Hsrc).
  destruct (stages_probes st (blocks pass 0 ps) Ht (blocks_good pass A HA Hpass ps 0)) as (E1 & E2 & E3).
  split; [|split; assumption]. rewrite E1.
  destruct (blocks_perm pass A Hpass ps 0) as [_ P].
  eapply Permutation_trans; [apply Permutation_filter; exact P|].
  rewrite cross_filter. apply cross_perm. exact Hp.
Qed.

(* ---------- subnet x ports, one engine run ---------- *)
Lemma subnet_source_good di n k : ipv4_net n k -> nonneg di ->
  exists pass, good_source (subnet_source table di (Some n)) pass /\
               forall j, exists a, pass j = map inl a /\ Permutation a (net_addrs n).
Proof.
  intros Hn Hdi.
  exists (fun j => match subnet_source table di (Some n) j with Emit l _ => l | Fail _ => [] end).
  assert (H : forall j, exists a, subnet_source table di (Some n) j = Emit (map inl a) Done /\ Permutation a (net_addrs n)).
  { intros j. destruct (Hdi j) as [H1 H2]. destruct (ips_gen_perm table table_good n k (di j) Hn H1 H2) as [a [Hg Pa]].
    exists a. unfold subnet_source. rewrite Hg. split; [reflexivity|exact Pa]. }
  split.
  - intros j. destruct (H j) as [a [-> _]]. reflexivity.
  - intros j. destruct (H j) as [a [E Pa]]. exists a. rewrite E. split; [reflexivity|exact Pa].
Qed.

Lemma subnet_ports_run dp di n k st rs :
  ipv4_net n k -> nonneg dp -> nonneg di -> rs <> [] -> Forall valid_range rs -> cache_total st ->
  let evs := events (ipport_requests table dp di (TSubnet (Some n)) st rs) in
  Permutation (probes evs) (denote_subnet_ports n rs st) /\ errors evs = [] /\ normal evs = true.
Proof.
  intros Hn Hdp Hdi Hne Hv Ht. destruct (subnet_source_good di n k Hn Hdi) as [pass [Hsrc Hpass]].
  exact (nested_coverage dp _ pass (net_addrs n) st rs Hdp Hne Hv Ht Hsrc (net_addrs_ok n) Hpass).
Qed.

(* ---------- address file x ports, one engine run ---------- *)
Lemma file_ports_run dp di op ls st rs :
  (forall k, op k = Some ls) -> forallb wf_addr_line ls = true ->
  nonneg dp -> rs <> [] -> Forall valid_range rs -> cache_total st ->
  let evs := events (ipport_requests table dp di (TFileIPs op) st rs) in
  Permutation (probes evs) (denote_file_ports ls rs st) /\ errors evs = [] /\ normal evs = true.
Proof.
  intros Hop Hwf Hdp Hne Hv Ht. destruct (wf_addrs_pass ls Hwf) as [E HA].
  pose proof (file_source_good op ls Hop) as Hsrc. rewrite E in Hsrc.
  refine (nested_coverage dp _ _ (flat_map line_addr ls) st rs Hdp Hne Hv Ht Hsrc HA _).
  intros j. eexists. split; [reflexivity|apply Permutation_refl].
Qed.

(* ---------- pairs file, one engine run (the port list plays no role) ---------- *)
Lemma file_pairs_run dp di op ls st ports :
  op 0%nat = Some ls -> forallb wf_pair_line ls = true -> cache_total st ->
  let evs := events (ipport_requests table dp di (TFilePairs op) st ports) in
  probes evs = denote_file_pairs ls st /\ errors evs = [] /\ normal evs = true.
Proof.
  intros Hop Hwf Ht. cbv zeta. unfold ipport_requests, file_pairs_gen. rewrite Hop.
  destruct (wf_pairs_reqs ls Hwf) as [E F].
  destruct (stages_probes st (pairs_walk ls) Ht F) as (E1 & E2 & E3). split; [|split; assumption].
  rewrite E1, E. unfold denote_file_pairs. f_equal. rewrite map_map. cbn [pair_of mk_req rip rport].
  rewrite <- (map_id (flat_map line_pair ls)) at 2. apply map_ext. intros [a p]. reflexivity.
Qed.

(* ---------- port-less scans ---------- *)
Lemma subnet_portless_run di n k st :
  ipv4_net n k -> nonneg di -> cache_total st ->
  let evs := events (ip_requests table di (TSubnet (Some n)) st) in
  Permutation (probes evs) (denote_subnet n st) /\ errors evs = [] /\ normal evs = true.
Proof.
  intros Hn Hdi Ht. cbv zeta. unfold ip_requests, ip_req_gen, subnet_source.
  destruct (Hdi 0%nat) as [H1 H2]. destruct (ips_gen_perm table table_good n k (di 0%nat) Hn H1 H2) as [a [Hg Pa]].
  rewrite Hg. cbn [lift_ips]. rewrite map_map.
  assert (F : Forall good_req (map (fun x => ip_req 0 (inl x)) a)).
  { apply Forall_forall. intros r Hr. apply in_map_iff in Hr. destruct Hr as [x [<- Hx]]. repeat split. cbn.
    pose proof (Forall_perm _ _ _ Pa (net_addrs_ok n)) as Ha. rewrite Forall_forall in Ha. apply Ha. exact Hx. }
  destruct (stages_probes st _ Ht F) as (E1 & E2 & E3). split; [|split; assumption].
  assert (Em : map pair_of (map (fun x => ip_req 0 (inl x)) a) = map (fun x => (x, 0)) a) by (rewrite map_map; reflexivity).
  rewrite E1, Em. unfold denote_subnet.
  rewrite (filter_map_comm (fun ap => kept st (fst ap)) (fun x => (x, 0)) a). cbn [fst].
  apply Permutation_map. apply Permutation_filter. exact Pa.
Qed.

Lemma file_portless_run di op ls st :
  op 0%nat = Some ls -> forallb wf_addr_line ls = true -> cache_total st ->
  let evs := events (ip_requests table di (TFileIPs op) st) in
  probes evs = denote_file_addrs ls st /\ errors evs = [] /\ normal evs = true.
Proof.
  intros Hop Hwf Ht. cbv zeta. unfold ip_requests, ip_req_gen, file_source, file_ips_gen. rewrite Hop, ips_walk_spec.
  destruct (wf_addrs_pass ls Hwf) as [E HA]. rewrite E, map_map.
  assert (F : Forall good_req (map (fun x => ip_req 0 (inl x)) (flat_map line_addr ls))).
  { apply Forall_forall. intros r Hr. apply in_map_iff in Hr. destruct Hr as [x [<- Hx]]. repeat split. cbn.
    rewrite Forall_forall in HA. apply HA. exact Hx. }
  destruct (stages_probes st _ Ht F) as (E1 & E2 & E3). split; [|split; assumption].
  assert (Em : map pair_of (map (fun x => ip_req 0 (inl x)) (flat_map line_addr ls)) = map (fun x => (x, 0)) (flat_map line_addr ls))
    by (rewrite map_map; reflexivity).
  rewrite E1, Em. unfold denote_file_addrs.
  rewrite (filter_map_comm (fun ap => kept st (fst ap)) (fun x => (x, 0)) _). reflexivity.
Qed.

(* ---------- the chunk loop of the packet port scans ---------- *)
Lemma all_ports_app a b : all_ports (a ++ b) = all_ports a ++ all_ports b.
Proof. apply flat_map_app'. Qed.

Lemma Forall_incl {A} (P : A -> Prop) l l' : incl l l' -> Forall P l' -> Forall P l.
Proof. intros Hi H. rewrite Forall_forall in *. intros x Hx. apply H, Hi, Hx. Qed.

Lemma perm_nil_eq {A} (l : list A) : Permutation l [] -> l = [].
Proof. intros H. apply Permutation_sym in H. apply Permutation_nil in H. exact H. Qed.

(* a loop of runs each of which is error-free and ends normally is error-free and ends normally *)
Lemma port_scan_engine_clean size once (run_engine : nat -> list prange -> list event) ports :
  0 < size -> ports <> [] ->
  (forall c chunk, chunk <> [] -> incl chunk ports -> errors (run_engine c chunk) = [] /\ normal (run_engine c chunk) = true) ->
  errors (port_scan_engine size once run_engine ports) = [] /\ normal (port_scan_engine size once run_engine ports) = true.
Proof.
  intros Hs Hne H. split.
  - apply perm_nil_eq.
    apply (port_scan_engine_perm run_engine errors (fun _ => []) errors_app (fun _ _ => eq_refl) size once ports Hs Hne).
    intros c chunk H1 H2. rewrite (proj1 (H c chunk H1 H2)). constructor.
  - (* normal = no abnormal event: project the abnormal events *)
    set (abn := fun es : list event => filter (fun e => match e with EAbnormal _ => true | _ => false end) es).
    assert (Hn : forall es, abn es = [] -> normal es = true).
    { induction es as [|e es IH]; [reflexivity|]. unfold abn. cbn [filter normal forallb].
      destruct e; cbn; try (intros Hq; apply IH; exact Hq). discriminate. }
    assert (Hn' : forall es, normal es = true -> abn es = []).
    { induction es as [|e es IH]; [reflexivity|]. unfold abn. cbn [filter normal forallb].
      destruct e; cbn; try (intros Hq; apply IH; exact Hq). discriminate. }
    apply Hn. apply perm_nil_eq.
    apply (port_scan_engine_perm run_engine abn (fun _ => []) (fun a b => filter_app _ a b) (fun _ _ => eq_refl) size once ports Hs Hne).
    intros c chunk H1 H2. rewrite (Hn' _ (proj2 (H c chunk H1 H2))). constructor.
Qed.

Lemma subnet_ports_chunked size once dp di n k st rs :
  0 < size -> ipv4_net n k -> (forall c, nonneg (dp c)) -> (forall c, nonneg (di c)) ->
  rs <> [] -> Forall valid_range rs -> cache_total st ->
  let evs := packet_port_scan table size once dp di (fun _ => TSubnet (Some n)) st rs in
  Permutation (probes evs) (denote_subnet_ports n rs st) /\ errors evs = [] /\ normal evs = true.
Proof.
  intros Hs Hn Hdp Hdi Hne Hv Ht. cbv zeta. unfold packet_port_scan.
  assert (Hrun : forall c chunk, chunk <> [] -> incl chunk rs ->
            let evs := events (ipport_requests table (dp c) (di c) (TSubnet (Some n)) st chunk) in
            Permutation (probes evs) (denote_subnet_ports n chunk st) /\ errors evs = [] /\ normal evs = true).
  { intros c chunk H1 H2. apply (subnet_ports_run (dp c) (di c) n k st chunk Hn (Hdp c) (Hdi c) H1 (Forall_incl _ _ _ H2 Hv) Ht). }
  split.
  - apply (port_scan_engine_perm _ probes (fun r => denote_subnet_ports n r st) probes_app); [|exact Hs|exact Hne|].
    + intros a b. unfold denote_subnet_ports. rewrite all_ports_app. apply cross_app.
    + intros c chunk H1 H2. exact (proj1 (Hrun c chunk H1 H2)).
  - apply port_scan_engine_clean; [exact Hs|exact Hne|]. intros c chunk H1 H2. exact (proj2 (Hrun c chunk H1 H2)).
Qed.

Lemma file_ports_chunked size once dp di (op : nat -> opener) ls st rs :
  0 < size -> (forall c k, op c k = Some ls) -> forallb wf_addr_line ls = true -> (forall c, nonneg (dp c)) ->
  rs <> [] -> Forall valid_range rs -> cache_total st ->
  let evs := packet_port_scan table size once dp di (fun c => TFileIPs (op c)) st rs in
  Permutation (probes evs) (denote_file_ports ls rs st) /\ errors evs = [] /\ normal evs = true.
Proof.
  intros Hs Hop Hwf Hdp Hne Hv Ht. cbv zeta. unfold packet_port_scan.
  assert (Hrun : forall c chunk, chunk <> [] -> incl chunk rs ->
            let evs := events (ipport_requests table (dp c) (di c) (TFileIPs (op c)) st chunk) in
            Permutation (probes evs) (denote_file_ports ls chunk st) /\ errors evs = [] /\ normal evs = true).
  { intros c chunk H1 H2. apply (file_ports_run (dp c) (di c) (op c) ls st chunk (Hop c) Hwf (Hdp c) H1 (Forall_incl _ _ _ H2 Hv) Ht). }
  split.
  - apply (port_scan_engine_perm _ probes (fun r => denote_file_ports ls r st) probes_app); [|exact Hs|exact Hne|].
    + intros a b. unfold denote_file_ports. rewrite all_ports_app. apply cross_app.
    + intros c chunk H1 H2. exact (proj1 (Hrun c chunk H1 H2)).
  - apply port_scan_engine_clean; [exact Hs|exact Hne|]. intros c chunk H1 H2. exact (proj2 (Hrun c chunk H1 H2)).
Qed.

(* pairs file through the chunk loop: the port list is empty, so everything hinges on the loop running
   one engine for an empty list (the fix of D1) *)
Lemma file_pairs_chunked size dp di (op : nat -> opener) ls st :
  op 0%nat 0%nat = Some ls -> forallb wf_pair_line ls = true -> cache_total st ->
  let evs := packet_port_scan table size true dp di (fun c => TFilePairs (op c)) st [] in
  probes evs = denote_file_pairs ls st /\ errors evs = [] /\ normal evs = true.
Proof.
  intros Hop Hwf Ht. cbv zeta. unfold packet_port_scan, port_scan_engine.
  exact (file_pairs_run (dp 0%nat) (di 0%nat) (op 0%nat) ls st [] Hop Hwf Ht).
Qed.

(* without that guard the same scan does nothing at all: the defect D1 *)
Lemma file_pairs_chunked_unfixed size dp di t st :
  packet_port_scan table size false dp di t st [] = [].
Proof. reflexivity. Qed.
End Coverage.
