(* What Go's IPNet.Contains / IP.Mask compute, in arithmetic: for addresses of one family, with a
   CIDR mask of prefix length p over n bytes, "the network of a contains x" is
       be a / 2^(8n-p) = be x / 2^(8n-p)
   (be = big-endian value), i.e. a and x agree on their first p bits. This ties the byte-level model
   of Model/Iface.v ([contains], [ip_mask], [masked_eqb]) to the usual notion of a subnet. *)
From Coq Require Import ZArith List Bool Lia.
From SX Require Import Model.Iface Proofs.IfaceProofs.
Import ListNotations.
Open Scope Z_scope.

Definition bytes (l : list Z) : Prop := Forall (fun b => 0 <= b < 256) l.

(* big-endian value of a byte string *)
Fixpoint be (l : list Z) : Z :=
  match l with
  | [] => 0
  | b :: l' => b * 2 ^ (8 * Z.of_nat (List.length l')) + be l'
  end.

(* net.CIDRMask(ones, 8*n) *)
Fixpoint cidr_mask (ones : Z) (n : nat) : list Z :=
  match n with
  | O => []
  | S n' => if 8 <=? ones then 255 :: cidr_mask (ones - 8) n'
            else (256 - 2 ^ (8 - ones)) :: cidr_mask 0 n'
  end.

Lemma cidr_mask_length n : forall p, List.length (cidr_mask p n) = n.
Proof. induction n as [|n IH]; intros p; cbn; [reflexivity|]. destruct (8 <=? p); cbn; rewrite IH; reflexivity. Qed.

Lemma pow2_succ8 n : 2 ^ (8 * Z.of_nat (S n)) = 256 * 2 ^ (8 * Z.of_nat n).
Proof.
  replace (8 * Z.of_nat (S n)) with (8 + 8 * Z.of_nat n) by lia.
  rewrite Z.pow_add_r by lia. reflexivity.
Qed.

Lemma be_range l : bytes l -> 0 <= be l < 2 ^ (8 * Z.of_nat (List.length l)).
Proof.
  induction 1 as [|b l Hb Hl IH]; cbn [be List.length]; [cbn; lia|].
  rewrite pow2_succ8. assert (0 < 2 ^ (8 * Z.of_nat (List.length l))) by (apply Z.pow_pos_nonneg; lia). nia.
Qed.

(* ------------------------------------------------------------------ one byte, by exhaustion *)

Definition all_bytes : list Z := map Z.of_nat (seq 0 256).

Lemma in_all_bytes b : 0 <= b < 256 -> In b all_bytes.
Proof.
  intros H. unfold all_bytes. replace b with (Z.of_nat (Z.to_nat b)) by lia.
  apply in_map. apply in_seq. lia.
Qed.

Definition byte_ok (j b x : Z) : bool :=
  Bool.eqb (Z.land b (256 - 2 ^ j) =? Z.land x (256 - 2 ^ j)) (b / 2 ^ j =? x / 2 ^ j).

Definition sweep (js bs : list Z) : bool :=
  forallb (fun j => forallb (fun b => forallb (fun x => byte_ok j b x) bs) bs) js.

Lemma sweep_sound js bs :
  sweep js bs = true -> forall j b x, In j js -> In b bs -> In x bs -> byte_ok j b x = true.
Proof.
  unfold sweep. intros H j b x Hj Hb Hx.
  rewrite forallb_forall in H. specialize (H j Hj).
  rewrite forallb_forall in H. specialize (H b Hb).
  rewrite forallb_forall in H. exact (H x Hx).
Qed.

(* 9 x 256 x 256 cases, checked by the kernel's VM *)
Lemma byte_mask_sweep_ok : sweep [0; 1; 2; 3; 4; 5; 6; 7; 8] all_bytes = true.
Proof. vm_compute. reflexivity. Qed.

Lemma byte_mask_spec j b x :
  0 <= j <= 8 -> 0 <= b < 256 -> 0 <= x < 256 ->
  (Z.land b (256 - 2 ^ j) =? Z.land x (256 - 2 ^ j)) = (b / 2 ^ j =? x / 2 ^ j).
Proof.
  intros Hj Hb Hx.
  assert (Hin : In j [0; 1; 2; 3; 4; 5; 6; 7; 8]) by (cbn; lia).
  pose proof (sweep_sound _ _ byte_mask_sweep_ok j b x Hin (in_all_bytes b Hb) (in_all_bytes x Hx)) as H.
  unfold byte_ok in H. apply Bool.eqb_prop in H. exact H.
Qed.

(* ------------------------------------------------------------------ the comparison loop *)

Lemma div_weighted b B x X e K :
  0 <= e -> 0 < K -> 0 <= B < 2 ^ e * K -> 0 <= X < 2 ^ e * K ->
  ((b * (2 ^ e * K) + B) / 2 ^ e = (x * (2 ^ e * K) + X) / 2 ^ e <-> b = x /\ B / 2 ^ e = X / 2 ^ e).
Proof.
  intros He HK HB HX. assert (Hp : 0 < 2 ^ e) by (apply Z.pow_pos_nonneg; lia).
  replace (b * (2 ^ e * K) + B) with (b * K * 2 ^ e + B) by ring.
  replace (x * (2 ^ e * K) + X) with (x * K * 2 ^ e + X) by ring.
  rewrite !Z.div_add_l by lia.
  assert (0 <= B / 2 ^ e < K) by (split; [apply Z.div_pos; lia|apply Z.div_lt_upper_bound; lia]).
  assert (0 <= X / 2 ^ e < K) by (split; [apply Z.div_pos; lia|apply Z.div_lt_upper_bound; lia]).
  split; [intros Heq|intros [-> ->]; reflexivity].
  assert (b = x) by nia. subst. split; [reflexivity|lia].
Qed.

Lemma masked_eqb_spec : forall n bs xs p,
  List.length bs = n -> List.length xs = n -> bytes bs -> bytes xs -> 0 <= p <= 8 * Z.of_nat n ->
  (masked_eqb bs (cidr_mask p n) xs = true <->
   be bs / 2 ^ (8 * Z.of_nat n - p) = be xs / 2 ^ (8 * Z.of_nat n - p)).
Proof.
  induction n as [|n IH]; intros bs xs p Lb Lx Hb Hx Hp.
  - destruct bs; [|discriminate]. destruct xs; [|discriminate]. cbn. tauto.
  - destruct bs as [|b bs]; [discriminate|]. destruct xs as [|x xs]; [discriminate|].
    injection Lb as Lb. injection Lx as Lx.
    pose proof (Forall_inv Hb) as Hb0. pose proof (Forall_inv_tail Hb) as Hbs.
    pose proof (Forall_inv Hx) as Hx0. pose proof (Forall_inv_tail Hx) as Hxs. cbn beta in Hb0, Hx0.
    pose proof (be_range bs Hbs) as RB. pose proof (be_range xs Hxs) as RX. rewrite Lb in RB. rewrite Lx in RX.
    cbn [cidr_mask be]. rewrite Lb, Lx.
    set (W := 2 ^ (8 * Z.of_nat n)) in *.
    assert (HW : 0 < W) by (apply Z.pow_pos_nonneg; lia).
    destruct (8 <=? p) eqn:E8.
    + apply Z.leb_le in E8. cbn [masked_eqb].
      replace (Z.land b 255) with b by (symmetry; change 255 with (Z.ones 8); rewrite Z.land_ones by lia; apply Z.mod_small; lia).
      replace (Z.land x 255) with x by (symmetry; change 255 with (Z.ones 8); rewrite Z.land_ones by lia; apply Z.mod_small; lia).
      rewrite andb_true_iff, Z.eqb_eq.
      rewrite (IH bs xs (p - 8) Lb Lx Hbs Hxs) by lia.
      replace (8 * Z.of_nat (S n) - p) with (8 * Z.of_nat n - (p - 8)) by lia.
      set (e := 8 * Z.of_nat n - (p - 8)).
      assert (He : 0 <= e <= 8 * Z.of_nat n) by (unfold e; lia).
      assert (HWe : W = 2 ^ e * 2 ^ (8 * Z.of_nat n - e))
        by (unfold W; rewrite <- Z.pow_add_r by lia; f_equal; lia).
      rewrite HWe in *. symmetry. apply div_weighted; first [lia|apply Z.pow_pos_nonneg; lia].
    + apply Z.leb_gt in E8. cbn [masked_eqb].
      rewrite andb_true_iff, Z.eqb_eq.
      assert (Hrest : masked_eqb bs (cidr_mask 0 n) xs = true).
      { apply (IH bs xs 0 Lb Lx Hbs Hxs); [lia|]. rewrite Z.sub_0_r. fold W. rewrite !Z.div_small by lia. reflexivity. }
      rewrite Hrest.
      pose proof (byte_mask_spec (8 - p) b x ltac:(lia) Hb0 Hx0) as Hbyte.
      replace (8 * Z.of_nat (S n) - p) with (8 * Z.of_nat n + (8 - p)) by lia.
      rewrite Z.pow_add_r by lia. fold W.
      assert (Hj : 0 < 2 ^ (8 - p)) by (apply Z.pow_pos_nonneg; lia).
      rewrite <- !Z.div_div by lia.
      rewrite !Z.div_add_l by lia. rewrite !(Z.div_small _ W) by lia. rewrite !Z.add_0_r.
      split.
      * intros [H _]. apply Z.eqb_eq. rewrite <- Hbyte. apply Z.eqb_eq. exact H.
      * intros H. split; [|reflexivity]. apply Z.eqb_eq. rewrite Hbyte. apply Z.eqb_eq. exact H.
Qed.

(* ------------------------------------------------------------------ IP.Mask *)

Definition land_ok (j b : Z) : bool := Z.land b (256 - 2 ^ j) =? b / 2 ^ j * 2 ^ j.

Lemma land_sweep_ok :
  forallb (fun j => forallb (fun b => land_ok j b) all_bytes) [0; 1; 2; 3; 4; 5; 6; 7; 8] = true.
Proof. vm_compute. reflexivity. Qed.

Lemma land_sound js bs :
  forallb (fun j => forallb (fun b => land_ok j b) bs) js = true ->
  forall j b, In j js -> In b bs -> land_ok j b = true.
Proof.
  intros H j b Hj Hb. rewrite forallb_forall in H. specialize (H j Hj).
  rewrite forallb_forall in H. exact (H b Hb).
Qed.

Lemma land_mask_spec j b : 0 <= j <= 8 -> 0 <= b < 256 -> Z.land b (256 - 2 ^ j) = b / 2 ^ j * 2 ^ j.
Proof.
  intros Hj Hb. assert (Hin : In j [0; 1; 2; 3; 4; 5; 6; 7; 8]) by (cbn; lia).
  pose proof (land_sound _ _ land_sweep_ok j b Hin (in_all_bytes b Hb)) as H.
  unfold land_ok in H. apply Z.eqb_eq in H. exact H.
Qed.

Lemma and_bytes_spec : forall n xs q,
  List.length xs = n -> bytes xs -> 0 <= q <= 8 * Z.of_nat n ->
  bytes (and_bytes xs (cidr_mask q n)) /\ List.length (and_bytes xs (cidr_mask q n)) = n /\
  be (and_bytes xs (cidr_mask q n)) = be xs / 2 ^ (8 * Z.of_nat n - q) * 2 ^ (8 * Z.of_nat n - q).
Proof.
  induction n as [|n IH]; intros xs q Lx Hx Hq.
  - destruct xs; [|discriminate]. cbn. split; [constructor|]. split; reflexivity.
  - destruct xs as [|x xs]; [discriminate|]. injection Lx as Lx.
    pose proof (Forall_inv Hx) as Hx0. pose proof (Forall_inv_tail Hx) as Hxs. cbn beta in Hx0.
    pose proof (be_range xs Hxs) as RX. rewrite Lx in RX.
    cbn [cidr_mask]. set (W := 2 ^ (8 * Z.of_nat n)) in *.
    assert (HW : 0 < W) by (apply Z.pow_pos_nonneg; lia).
    destruct (8 <=? q) eqn:E8.
    + apply Z.leb_le in E8. cbn [and_bytes].
      replace (Z.land x 255) with x by (symmetry; change 255 with (Z.ones 8); rewrite Z.land_ones by lia; apply Z.mod_small; lia).
      destruct (IH xs (q - 8) Lx Hxs ltac:(lia)) as (Hby & Hlen & Hbe).
      split; [constructor; assumption|]. split; [cbn; rewrite Hlen; reflexivity|].
      cbn [be]. rewrite Hlen, Hbe, Lx. fold W.
      replace (8 * Z.of_nat (S n) - q) with (8 * Z.of_nat n - (q - 8)) by lia.
      set (e := 8 * Z.of_nat n - (q - 8)).
      assert (He : 0 <= e <= 8 * Z.of_nat n) by (unfold e; lia).
      assert (HWe : W = 2 ^ (8 * Z.of_nat n - e) * 2 ^ e)
        by (unfold W; rewrite <- Z.pow_add_r by lia; f_equal; lia).
      assert (Hp : 0 < 2 ^ e) by (apply Z.pow_pos_nonneg; lia).
      rewrite HWe. rewrite Z.mul_assoc, Z.div_add_l by lia. ring.
    + apply Z.leb_gt in E8. cbn [and_bytes].
      destruct (IH xs 0 Lx Hxs ltac:(lia)) as (Hby & Hlen & Hbe).
      rewrite Z.sub_0_r in Hbe. fold W in Hbe. rewrite (Z.div_small _ W) in Hbe by lia. rewrite Z.mul_0_l in Hbe.
      rewrite (land_mask_spec (8 - q) x ltac:(lia) Hx0).
      assert (Hj : 0 < 2 ^ (8 - q)) by (apply Z.pow_pos_nonneg; lia).
      assert (Hxd : 0 <= x / 2 ^ (8 - q) * 2 ^ (8 - q) <= x).
      { split; [apply Z.mul_nonneg_nonneg; [apply Z.div_pos; lia|lia]|]. rewrite Z.mul_comm. apply Z.mul_div_le. lia. }
      split; [constructor; [lia|assumption]|]. split; [cbn; rewrite Hlen; reflexivity|].
      cbn [be]. rewrite Hlen, Hbe, Lx. fold W.
      replace (8 * Z.of_nat (S n) - q) with (8 * Z.of_nat n + (8 - q)) by lia.
      rewrite Z.pow_add_r by lia. fold W.
      rewrite <- Z.div_div by lia. rewrite Z.div_add_l by lia. rewrite (Z.div_small _ W) by lia. rewrite !Z.add_0_r.
      generalize (2 ^ (8 - q)) (x / 2 ^ (8 - q)). intros J D. ring.
Qed.

(* ------------------------------------------------------------------ Contains / covers, IPv4 *)

(* an IPv4 interface address as Go reports it on Linux: 16-byte IP with the ::ffff:0:0/96 prefix,
   4-byte mask CIDRMask(p, 32) *)
Definition v4_addr (b : list Z) (p : Z) : addr :=
  {| a_ip := v4in6_prefix ++ b; a_mask := cidr_mask p 4; a_ipnet := true |}.

(* an IPv4 target as ip.ParseIPNet produces it: 4-byte IP, 4-byte mask CIDRMask(q, 32) *)
Definition v4_target (tb : list Z) (q : Z) : target := {| t_ip := tb; t_mask := cidr_mask q 4 |}.

Lemma to4_mapped b : List.length b = 4%nat -> to4 (v4in6_prefix ++ b) = Some b.
Proof.
  intros H. destruct b as [|b0 [|b1 [|b2 [|b3 [|? ?]]]]]; try discriminate. reflexivity.
Qed.

Lemma to4_four b : List.length b = 4%nat -> to4 b = Some b.
Proof. intros H. unfold to4, len. rewrite H. reflexivity. Qed.

Lemma net_num_mask_v4 b p : List.length b = 4%nat -> net_num_mask (v4_addr b p) = (b, cidr_mask p 4).
Proof.
  intros Lb. unfold net_num_mask, v4_addr. cbn [a_ip a_mask]. rewrite (to4_mapped b Lb).
  unfold len. rewrite cidr_mask_length, Lb. reflexivity.
Qed.

Lemma contains_v4 b p x :
  List.length b = 4%nat -> List.length x = 4%nat -> bytes b -> bytes x -> 0 <= p <= 32 ->
  (contains (v4_addr b p) x = true <-> be b / 2 ^ (32 - p) = be x / 2 ^ (32 - p)).
Proof.
  intros Lb Lx Hb Hx Hp. unfold contains. rewrite (net_num_mask_v4 b p Lb), (to4_four x Lx).
  unfold len. rewrite Lb, Lx. change (Z.of_nat 4 =? Z.of_nat 4) with true. cbn [andb].
  change (32 - p) with (8 * Z.of_nat 4 - p). apply masked_eqb_spec; assumption.
Qed.

Lemma ip_mask_v4 tb q : List.length tb = 4%nat -> ip_mask tb (cidr_mask q 4) = and_bytes tb (cidr_mask q 4).
Proof.
  intros L. unfold ip_mask, len. rewrite cidr_mask_length, L.
  change (Z.of_nat 4 =? 16) with false. cbn [andb].
  rewrite !cidr_mask_length. change (Z.of_nat 4 =? 4) with true. cbn [andb].
  rewrite L. reflexivity.
Qed.

(* the code's attachment test for IPv4, in arithmetic: the interface address and the target's BASE
   address (its IP with the last 32-q bits cleared) agree on their first p bits *)
Lemma contains_base_v4 tb q b p :
  List.length tb = 4%nat -> List.length b = 4%nat -> bytes tb -> bytes b -> 0 <= q <= 32 -> 0 <= p <= 32 ->
  (contains (v4_addr b p) (ip_mask tb (cidr_mask q 4)) = true <->
   be b / 2 ^ (32 - p) = (be tb / 2 ^ (32 - q) * 2 ^ (32 - q)) / 2 ^ (32 - p)).
Proof.
  intros Lt Lb Ht Hb Hq Hp. rewrite (ip_mask_v4 tb q Lt).
  destruct (and_bytes_spec 4 tb q Lt Ht ltac:(cbn; lia)) as (Hby & Hlen & Hbe).
  rewrite (contains_v4 b p _ Lb Hlen Hb Hby Hp). rewrite Hbe. reflexivity.
Qed.

(* when the target is no larger than the interface's network (q >= p) this is plain membership of
   the whole target in that network: target and interface address agree on the first p bits *)
Lemma base_div tb q p :
  0 <= p <= q -> q <= 32 ->
  (tb / 2 ^ (32 - q) * 2 ^ (32 - q)) / 2 ^ (32 - p) = tb / 2 ^ (32 - p).
Proof.
  intros Hp Hq. set (u := 32 - q). set (v := 32 - p).
  assert (Hu : 0 <= u <= v) by (unfold u, v; lia).
  assert (Hv : 2 ^ v = 2 ^ u * 2 ^ (v - u)) by (rewrite <- Z.pow_add_r by lia; f_equal; lia).
  assert (H1 : 0 < 2 ^ u) by (apply Z.pow_pos_nonneg; lia).
  assert (H2 : 0 < 2 ^ (v - u)) by (apply Z.pow_pos_nonneg; lia).
  rewrite Hv. rewrite <- !Z.div_div by lia. rewrite Z.div_mul by lia. reflexivity.
Qed.

Lemma contains_base_v4_subnet tb q b p :
  List.length tb = 4%nat -> List.length b = 4%nat -> bytes tb -> bytes b -> 0 <= p <= q -> q <= 32 ->
  (contains (v4_addr b p) (ip_mask tb (cidr_mask q 4)) = true <-> be b / 2 ^ (32 - p) = be tb / 2 ^ (32 - p)).
Proof.
  intros Lt Lb Ht Hb Hp Hq. rewrite (contains_base_v4 tb q b p Lt Lb Ht Hb ltac:(lia) ltac:(lia)).
  rewrite (base_div (be tb) q p Hp Hq). reflexivity.
Qed.

(* the same two facts for [covers], the attachment test of the theorems of Properties/C17.v *)
Lemma covers_v4 tb q b p :
  List.length tb = 4%nat -> List.length b = 4%nat -> bytes tb -> bytes b -> 0 <= q <= 32 -> 0 <= p <= 32 ->
  (covers (v4_target tb q) (v4_addr b p) = true <->
   be b / 2 ^ (32 - p) = (be tb / 2 ^ (32 - q) * 2 ^ (32 - q)) / 2 ^ (32 - p)).
Proof. intros. unfold covers, v4_target. cbn [t_ip t_mask a_ipnet v4_addr andb]. apply contains_base_v4; assumption. Qed.

Lemma covers_v4_subnet tb q b p :
  List.length tb = 4%nat -> List.length b = 4%nat -> bytes tb -> bytes b -> 0 <= p <= q -> q <= 32 ->
  (covers (v4_target tb q) (v4_addr b p) = true <-> be b / 2 ^ (32 - p) = be tb / 2 ^ (32 - p)).
Proof. intros. unfold covers, v4_target. cbn [t_ip t_mask a_ipnet v4_addr andb]. apply contains_base_v4_subnet; assumption. Qed.

(* an IPv6 address never covers an IPv4 target, and the other way round (Contains compares lengths) *)
Lemma contains_family_mismatch a x :
  List.length (fst (net_num_mask a)) <> List.length (match to4 x with Some y => y | None => x end) ->
  contains a x = false.
Proof.
  intros H. unfold contains. destruct (net_num_mask a) as [nn m]. cbn [fst] in H.
  destruct (len (match to4 x with Some y => y | None => x end) =? len nn) eqn:E; [|reflexivity].
  apply Z.eqb_eq in E. unfold len in E. apply Nat2Z.inj in E. exfalso. apply H. symmetry. exact E.
Qed.
