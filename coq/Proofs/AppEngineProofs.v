(* C08 / C12: invariants of the application-scan engine network, for every worker count W, request
   list, Scan outcome function and schedule (with cancellation at any moment). *)
From stdpp Require Import gmultiset list sets.
From SX Require Import Base.Net Model.AppEngine.

Section proofs.
Variable W : nat.
Variable scan_out : nat -> scan_res.
Notation beh := (beh W scan_out).

Ltac alts H :=
  repeat (apply elem_of_cons in H; destruct H as [H|H]); [..|apply elem_of_nil in H; destruct H];
  try (injection H as -> ->).
Ltac mem H :=
  repeat match type of H with
  | _ ∈ _ ++ _ => apply elem_of_app in H; destruct H as [H|H]
  | _ ∈ _ :: _ => apply elem_of_cons in H; destruct H as [H|H]
  | _ ∈ [] => apply elem_of_nil in H; destruct H
  | _ ∈ _ <$> _ => apply elem_of_list_fmap in H; destruct H as (? & H & _)
  end.
Ltac chan_lia := unfold c_req, c_errc, c_done, c_int, c_results in *; lia.

Lemma ended_is_End l : beh l = PEnd -> exists r, l = End r.
Proof.
  destruct l as [rest| |i|i id|i id|i id| | | | |v| | |v| |v| |r v|r|srest]; simpl; try discriminate.
  - destruct rest as [|[id b] r]; discriminate.
  - eauto.
Qed.

Lemma ids_of_cons id b r : ids_of ((id, b) :: r) = {[+ id +]} ⊎ ids_of r.
Proof. reflexivity. Qed.
Lemma good_ids_cons id b r :
  good_ids ((id, b) :: r) = (if b then ∅ else {[+ id +]}) ⊎ good_ids r.
Proof. unfold good_ids. simpl. destruct b; simpl; [|reflexivity]. unfold filter. simpl. multiset_solver. Qed.

(* ------------------------------------------------------------------ conservation (two token systems) *)
Lemma engine_conserving : conserving beh weight tok_val tok_ev.
Proof.
  intros l. destruct l as [rest| |i|i id|i id|i id| | | | |v| | |v| |v| |r v|r|srest]; simpl; try done.
  - destruct rest as [|[id b] r]; simpl; [done|].
    intros g k Hin. alts Hin; simpl; [|done|reflexivity]. rewrite ids_of_cons. multiset_solver.
  - intros g k Hin. alts Hin; simpl; [done|]. split; [|multiset_solver].
    intros v. destruct v as [id b|id|id]; simpl; try multiset_solver. destruct b; simpl; multiset_solver.
  - intros g k Hin. alts Hin; simpl; [done|]. multiset_solver.
  - intros o. destruct (scan_out id); simpl; multiset_solver.
  - intros g k Hin. alts Hin; simpl; [done|]. multiset_solver.
  - intros g k Hin. alts Hin; simpl; [done|]. split; [|multiset_solver]. intros v0. multiset_solver.
  - intros g k Hin. alts Hin; simpl; [done|]. multiset_solver.
  - intros g k Hin. alts Hin; simpl; [done|]. split; [|multiset_solver]. intros v0. multiset_solver.
  - intros o. simpl. multiset_solver.
  - intros g k Hin. alts Hin; simpl. split; [|multiset_solver]. intros v0. multiset_solver.
  - intros o. simpl. multiset_solver.
  - intros g k Hin. apply elem_of_nil in Hin. destruct Hin.
  - intros g k Hin. apply elem_of_nil in Hin. destruct Hin.
Qed.

Lemma engine_conserving_owed : conserving beh owed owed_val owed_ev.
Proof.
  intros l. destruct l as [rest| |i|i id|i id|i id| | | | |v| | |v| |v| |r v|r|srest]; simpl; try done.
  - destruct rest as [|[id b] r]; simpl; [done|].
    intros g k Hin. alts Hin; simpl; [|done|reflexivity]. rewrite good_ids_cons. destruct b; multiset_solver.
  - intros g k Hin. alts Hin; simpl; [done|]. split; [|multiset_solver].
    intros v. destruct v as [id b|id|id]; simpl; try multiset_solver. destruct b; simpl; multiset_solver.
  - intros g k Hin. alts Hin; simpl; [done|]. multiset_solver.
  - intros o. destruct (scan_out id); simpl; multiset_solver.
  - intros g k Hin. alts Hin; simpl; [done|]. multiset_solver.
  - intros g k Hin. alts Hin; simpl; [done|]. split; [|multiset_solver]. intros v0. multiset_solver.
  - intros g k Hin. alts Hin; simpl; [done|]. multiset_solver.
  - intros g k Hin. alts Hin; simpl; [done|]. split; [|multiset_solver]. intros v0. multiset_solver.
  - intros o. simpl. multiset_solver.
  - intros g k Hin. alts Hin; simpl. split; [|multiset_solver]. intros v0. multiset_solver.
  - intros o. simpl. multiset_solver.
  - intros g k Hin. apply elem_of_nil in Hin. destruct Hin.
  - intros g k Hin. apply elem_of_nil in Hin. destruct Hin.
Qed.

Lemma msum_empty {A} (f : A -> gmultiset nat) (l : list A) :
  (forall a, a ∈ l -> f a = ∅) -> msum f l = ∅.
Proof.
  induction l as [|a l IH]; simpl; intros Hf; [done|].
  rewrite (Hf a) by (apply elem_of_cons; auto). rewrite IH; [multiset_solver|].
  intros b Hb. apply Hf. apply elem_of_cons; auto.
Qed.

Lemma potential_init (wt : loc -> gmultiset nat) tv te cap reqs :
  (forall l, l ∈ (WIdle <$> seq 0 W) ++ [SWait; CIdle; LIdle; DIdle; MWait] -> wt l = ∅) ->
  potential wt tv te (init W cap reqs) = wt (Src reqs).
Proof.
  intros Hw. unfold potential, init. cbn [procs chans log].
  rewrite (msum_empty (bufW tv)).
  2:{ intros ch Hch. unfold init_chans in Hch. mem Hch; subst; reflexivity. }
  unfold init_procs. rewrite msum_app. rewrite (msum_empty wt (_ ++ _)) by exact Hw.
  simpl. multiset_solver.
Qed.

Theorem engine_conservation cap reqs n :
  reachable beh (init W cap reqs) n -> cancelled n = false ->
  potential weight tok_val tok_ev n = ids_of reqs.
Proof.
  intros Hr Hc.
  rewrite (conservation beh weight tok_val tok_ev _ n engine_conserving Hr Hc).
  rewrite potential_init; [reflexivity|]. intros l Hl. mem Hl; subst; reflexivity.
Qed.

Theorem engine_conservation_owed cap reqs n :
  reachable beh (init W cap reqs) n -> cancelled n = false ->
  potential owed owed_val owed_ev n = good_ids reqs.
Proof.
  intros Hr Hc.
  rewrite (conservation beh owed owed_val owed_ev _ n engine_conserving_owed Hr Hc).
  rewrite potential_init; [reflexivity|]. intros l Hl. mem Hl; subst; reflexivity.
Qed.

(* ------------------------------------------------------------------ no panic *)
Definition fin (l : loc) : list nat :=
  match l with
  | SCloseErr | SCloseDone | End RSup => worker_ids W
  | End RCaller => [p_logger W; p_drain W]
  | _ => []
  end.

Definition live (l : loc) (c : nat) : Prop :=
  match l with
  | Src _ | SrcClose => c = c_req
  | WIdle _ | WErr _ _ | WScan _ _ | WPut _ _ => c = c_errc \/ c = c_int
  | SWait | SCloseErr => c = c_errc \/ c = c_done
  | SCloseDone => c = c_done
  | CIdle | CSend _ | CClose => c = c_results
  | _ => False
  end.

Ltac dmatch := repeat match goal with |- context [match ?x with _ => _ end] => is_var x; destruct x end.
Ltac psel := let g := fresh "g" in let k := fresh "k" in let Hin := fresh "Hin" in let rr := fresh "rr" in
  intros g k Hin; alts Hin; simpl; (split; [first [done|tauto]|]); intros rr; dmatch; simpl; (split; [set_solver|tauto]).
Ltac pclose := split; [first [reflexivity|tauto]|]; split; [set_solver|]; split; [tauto|first [tauto|chan_lia]].

Lemma engine_disciplined : disciplined beh role_of fin live.
Proof.
  intros l. split.
  - intros l' Hc. unfold conts in Hc.
    destruct l as [rest| |i|i id|i id|i id| | | | |v| | |v| |v| |r v|r|srest]; simpl in Hc.
    + destruct rest as [|[id b] r]; simpl in Hc; [subst; reflexivity|].
      destruct Hc as (g & k & rr & Hin & ->). alts Hin; reflexivity.
    + subst; reflexivity.
    + destruct Hc as (g & k & rr & Hin & ->). alts Hin; [reflexivity|].
      destruct rr as [v| | | |]; try reflexivity. destruct v as [id b|id|id]; try reflexivity. destruct b; reflexivity.
    + destruct Hc as (g & k & rr & Hin & ->). alts Hin; reflexivity.
    + destruct Hc as [o ->]. destruct (scan_out id); reflexivity.
    + destruct Hc as (g & k & rr & Hin & ->). alts Hin; reflexivity.
    + subst; reflexivity.
    + subst; reflexivity.
    + subst; reflexivity.
    + destruct Hc as (g & k & rr & Hin & ->). alts Hin; [reflexivity|]. destruct rr; reflexivity.
    + destruct Hc as (g & k & rr & Hin & ->). alts Hin; reflexivity.
    + subst; reflexivity.
    + destruct Hc as (g & k & rr & Hin & ->). alts Hin; [reflexivity|]. destruct rr; reflexivity.
    + destruct Hc as [o ->]. reflexivity.
    + destruct Hc as (g & k & rr & Hin & ->). alts Hin. destruct rr; reflexivity.
    + destruct Hc as [o ->]. reflexivity.
    + subst; reflexivity.
    + destruct Hc as (g & k & rr & Hin & _). apply elem_of_nil in Hin. destruct Hin.
    + destruct Hc.
    + destruct Hc as (g & k & rr & Hin & _). apply elem_of_nil in Hin. destruct Hin.
  - destruct l as [rest| |i|i id|i id|i id| | | | |v| | |v| |v| |r v|r|srest]; simpl.
    + destruct rest as [|[id b] r]; simpl; [pclose|psel].
    + pclose.
    + psel.
    + psel.
    + intros o. destruct (scan_out id); simpl; (split; [set_solver|tauto]).
    + psel.
    + split; [set_solver|tauto].
    + pclose.
    + pclose.
    + psel.
    + psel.
    + pclose.
    + psel.
    + intros o. simpl. split; [set_solver|tauto].
    + psel.
    + intros o. simpl. split; [set_solver|tauto].
    + split; [set_solver|tauto].
    + intros g k Hin. apply elem_of_nil in Hin. destruct Hin.
    + tauto.
    + intros g k Hin. apply elem_of_nil in Hin. destruct Hin.
Qed.

Lemma layout_NoDup : NoDup (layout W).
Proof using W. clear scan_out.
  unfold layout. apply NoDup_app. split; [apply NoDup_singleton|]. split.
  { intros x Hx. apply elem_of_list_singleton in Hx. subst. rewrite elem_of_app. intros [H|H].
    - apply elem_of_list_fmap in H. destruct H as (? & ? & _). done.
    - set_solver. }
  apply NoDup_app. split; [apply NoDup_fmap_2; [intros a b; congruence|apply NoDup_seq]|]. split.
  { intros x Hx. apply elem_of_list_fmap in Hx. destruct Hx as (a & -> & _). set_solver. }
  repeat (apply NoDup_cons; split; [set_solver|]). apply NoDup_nil_2.
Qed.

Lemma same_role_same_index (n : net val loc ev) i j li lj :
  roles_of role_of n = layout W -> procs n !! i = Some li -> procs n !! j = Some lj ->
  role_of li = role_of lj -> i = j.
Proof using W. clear scan_out.
  intros Hr Hi Hj Heq.
  assert (Hli : layout W !! i = Some (role_of li)) by (rewrite <- Hr; unfold roles_of; rewrite list_lookup_fmap, Hi; done).
  assert (Hlj : layout W !! j = Some (role_of lj)) by (rewrite <- Hr; unfold roles_of; rewrite list_lookup_fmap, Hj; done).
  rewrite <- Heq in Hlj. eapply NoDup_lookup; [apply layout_NoDup|eassumption|eassumption].
Qed.

Lemma layout_worker k : k < W -> layout W !! p_w k = Some (RWorker k).
Proof using W. clear scan_out.
  intros Hk. unfold layout, p_w.
  rewrite lookup_app_r by (simpl; lia). simpl.
  rewrite lookup_app_l by (rewrite fmap_length, seq_length; lia).
  rewrite list_lookup_fmap. replace (k - 0) with k by lia. rewrite lookup_seq_lt by lia. reflexivity.
Qed.

Lemma layout_worker_inv j k : layout W !! j = Some (RWorker k) -> k < W /\ j = p_w k.
Proof using W. clear scan_out.
  intros Hj.
  assert (Hk : k < W).
  { apply elem_of_list_lookup_2 in Hj. unfold layout in Hj. rewrite !elem_of_app in Hj.
    destruct Hj as [H|[H|H]].
    - set_solver.
    - apply elem_of_list_fmap in H. destruct H as (x & [= ->] & Hx). apply elem_of_seq in Hx. lia.
    - set_solver. }
  split; [assumption|]. eapply NoDup_lookup; [apply layout_NoDup|eassumption|apply layout_worker; assumption].
Qed.

Lemma layout_logger : layout W !! p_logger W = Some RLogger.
Proof using W. clear scan_out.
  unfold layout, p_logger. rewrite lookup_app_r by (simpl; lia). simpl.
  rewrite lookup_app_r by (rewrite fmap_length, seq_length; lia). rewrite fmap_length, seq_length.
  replace (W + 3 - 1 - W) with 2 by lia. reflexivity.
Qed.
Lemma layout_drain : layout W !! p_drain W = Some RDrain.
Proof using W. clear scan_out.
  unfold layout, p_drain. rewrite lookup_app_r by (simpl; lia). simpl.
  rewrite lookup_app_r by (rewrite fmap_length, seq_length; lia). rewrite fmap_length, seq_length.
  replace (W + 4 - 1 - W) with 3 by lia. reflexivity.
Qed.

Lemma engine_exclusive_close : exclusive_close beh role_of fin live (layout W).
Proof.
  intros n i l c k Hroles Hfin Hpi Hbl j lj Hne Hpj Hlive.
  assert (Hrole_j : layout W !! j = Some (role_of lj))
    by (rewrite <- Hroles; unfold roles_of; rewrite list_lookup_fmap, Hpj; done).
  assert (Hsame : role_of lj = role_of l -> False).
  { intros Heq. apply Hne. symmetry. eapply same_role_same_index; eauto. }
  destruct l as [rest| |i0|i0 id|i0 id|i0 id| | | | |v| | |v| |v| |r v|r|srest]; simpl in Hbl; try discriminate.
  - destruct rest as [|[id b] r]; [|discriminate]. injection Hbl as <- <-.
    destruct lj; simpl in Hlive; try done; try (apply Hsame; reflexivity); try (destruct Hlive); chan_lia.
  - injection Hbl as <- <-.
    destruct lj; simpl in Hlive; try done; try (apply Hsame; reflexivity); try (destruct Hlive); chan_lia.
  - (* supervisor closes errc: every worker has ended *)
    injection Hbl as <- <-.
    destruct lj; simpl in Hlive, Hrole_j; try done; try (apply Hsame; reflexivity);
      try (destruct Hlive as [Hlive|Hlive]; try chan_lia); try chan_lia.
    all: destruct (layout_worker_inv _ _ Hrole_j) as [Hk ->].
    all: match type of Hpj with procs _ !! p_w ?m = _ =>
           destruct (Hfin i SCloseErr (p_w m) Hpi) as (lm & Hlm & Hend);
           [simpl; unfold worker_ids; apply elem_of_list_fmap; exists m; split; [reflexivity|apply elem_of_seq; lia]|];
           rewrite Hpj in Hlm; injection Hlm as <-; unfold ended in Hend; simpl in Hend; discriminate end.
  - (* supervisor closes done *)
    injection Hbl as <- <-.
    destruct lj; simpl in Hlive; try done; try (apply Hsame; reflexivity); try (destruct Hlive); chan_lia.
  - (* copier closes results *)
    injection Hbl as <- <-.
    destruct lj; simpl in Hlive; try done; try (apply Hsame; reflexivity); try (destruct Hlive); chan_lia.
Qed.

Lemma init_safe cap reqs : safe beh role_of fin live (layout W) (init W cap reqs).
Proof.
  split; [|split; [|split]].
  - unfold roles_of, init, init_procs, layout. simpl. rewrite !fmap_app. simpl.
    rewrite <- !list_fmap_compose. reflexivity.
  - intros j l i Hj Hi. exfalso. simpl in Hj. unfold init_procs in Hj.
    apply elem_of_list_lookup_2 in Hj. mem Hj; subst; simpl in Hi; set_solver.
  - intros c ch Hc Hcl. exfalso. simpl in Hc. unfold init_chans in Hc.
    apply elem_of_list_lookup_2 in Hc. mem Hc; subst; discriminate.
  - reflexivity.
Qed.

Theorem engine_safe cap reqs n :
  reachable beh (init W cap reqs) n -> safe beh role_of fin live (layout W) n.
Proof.
  apply safe_reachable; [apply engine_disciplined|apply engine_exclusive_close|apply init_safe].
Qed.

Corollary engine_no_panic cap reqs n : reachable beh (init W cap reqs) n -> panicked n = false.
Proof. intros Hr. destruct (engine_safe cap reqs n Hr) as (_ & _ & _ & H). exact H. Qed.

(* ------------------------------------------------------------------ typing by fate *)
Section fates.
Variable reqs : list (nat * bool).
Definition has (id : nat) (b : bool) : Prop := (id, b) ∈ reqs.
Definition posfate (id : nat) : Prop := has id false /\ scan_out id = SPos.
Definition negfate (id : nat) : Prop := has id false /\ scan_out id = SNeg.
Definition errfate (id : nat) : Prop := has id true \/ (has id false /\ scan_out id = SFail).

Definition is_req (v : val) : Prop := exists id b, v = VReq id b /\ has id b.
Definition is_res (v : val) : Prop := exists id, v = VRes id /\ posfate id.
Definition is_verr (v : val) : Prop := exists id, v = VErr id /\ errfate id.

Definition PV (c : nat) (v : val) : Prop :=
  (c = c_req /\ is_req v) \/ (c = c_errc /\ is_verr v) \/ ((c = c_int \/ c = c_results) /\ is_res v).

Definition PL (l : loc) : Prop :=
  match l with
  | Src rest | SrcStalled rest => forall x, x ∈ rest -> x ∈ reqs
  | WErr _ id => errfate id
  | WScan _ id => has id false
  | WPut _ id => posfate id
  | CSend v | LWrite v => is_res v
  | DEmit v => is_verr v
  | Junk _ _ => False
  | _ => True
  end.

Definition PE (e : ev) : Prop :=
  match e with
  | EScan id => has id false
  | ENeg id => negfate id
  | EPrint v => is_res v
  | EErrLog v => is_verr v
  end.

Lemma PV_req v : PV c_req v -> is_req v.
Proof. intros [[_ H]|[[H _]|[[H|H] _]]]; [assumption|chan_lia..]. Qed.
Lemma PV_errc v : PV c_errc v -> is_verr v.
Proof. intros [[H _]|[[_ H]|[[H|H] _]]]; [chan_lia|assumption|chan_lia..]. Qed.
Lemma PV_int v : PV c_int v -> is_res v.
Proof. intros [[H _]|[[H _]|[_ H]]]; [chan_lia|chan_lia|assumption]. Qed.
Lemma PV_results v : PV c_results v -> is_res v.
Proof. intros [[H _]|[[H _]|[_ H]]]; [chan_lia|chan_lia|assumption]. Qed.
Lemma PV_done v : ~ PV c_done v.
Proof. intros [[H _]|[[H _]|[[H|H] _]]]; chan_lia. Qed.

Lemma engine_typed_beh : typed_beh beh PL PV PE.
Proof.
  intros l HPL. destruct l as [rest| |i|i id|i id|i id| | | | |v| | |v| |v| |r v|r|srest]; simpl in *; try done.
  - destruct rest as [|[id b] r]; simpl; [done|].
    intros g k Hin. alts Hin; simpl; [| |exact HPL].
    * split.
      -- left. split; [reflexivity|]. exists id, b. split; [reflexivity|]. apply HPL. left.
      -- intros x Hx. apply HPL. right. assumption.
    * intros x Hx. apply HPL. right. assumption.
  - intros g k Hin. alts Hin; simpl; [done|]. split; [|done].
    intros v Hv. apply PV_req in Hv. destruct Hv as (id & b & -> & Hhas). destruct b; simpl; [left|]; assumption.
  - intros g k Hin. alts Hin; simpl; [done|]. split; [|done]. right. left. split; [reflexivity|]. exists id. auto.
  - intros o. destruct (scan_out id) eqn:Es; simpl.
    + split; [split; assumption|]. constructor; [assumption|constructor].
    + split; [done|]. constructor; [assumption|]. constructor; [split; assumption|constructor].
    + split; [right; auto|]. constructor; [assumption|constructor].
  - intros g k Hin. alts Hin; simpl; [done|]. split; [|done]. right. right. split; [left; reflexivity|]. exists id. auto.
  - intros g k Hin. alts Hin; simpl; [done|]. split; [|done]. intros v Hv. apply PV_int. assumption.
  - intros g k Hin. alts Hin; simpl; [done|]. split; [|done]. right. right. split; [right; reflexivity|assumption].
  - intros g k Hin. alts Hin; simpl; [done|]. split; [|done]. intros v Hv. apply PV_results. assumption.
  - intros o. split; [done|]. constructor; [assumption|constructor].
  - intros g k Hin. alts Hin; simpl. split; [|done]. intros v Hv. apply PV_errc. assumption.
  - intros o. split; [done|]. constructor; [assumption|constructor].
  - intros g k Hin. apply elem_of_nil in Hin. destruct Hin.
Qed.

Lemma init_typed cap : typed PL PV PE (init W cap reqs).
Proof.
  split; [split|].
  - simpl. unfold init_procs. rewrite !Forall_app. split; [|split].
    + constructor; [|constructor]. simpl. auto.
    + apply Forall_fmap. apply Forall_forall. intros i Hi. exact I.
    + repeat constructor.
  - simpl. constructor.
  - intros c ch Hc. simpl in Hc. unfold init_chans in Hc. apply elem_of_list_lookup_2 in Hc.
    assert (cbuf ch = []) as ->; [|constructor]. mem Hc; subst; reflexivity.
Qed.

Theorem engine_typed cap n : reachable beh (init W cap reqs) n -> typed PL PV PE n.
Proof. apply typed_reachable; [apply engine_typed_beh|apply init_typed]. Qed.

(* ------------------------------------------------------------------ closed-and-drained chains *)
Definition needs (l : loc) : list nat :=
  match l with
  | End (RWorker _) => [c_req]
  | End RLogger => [c_results]
  | End RDrain => [c_errc]
  | _ => []
  end.

Lemma engine_needs_beh : needs_beh beh needs.
Proof.
  intros l. destruct l as [rest| |i|i id|i id|i id| | | | |v| | |v| |v| |r v|r|srest]; simpl; try done.
  - destruct rest as [|[id b] r]; simpl; [done|]. intros g k Hin. alts Hin; simpl; done.
  - intros g k Hin. alts Hin; simpl; [done|]. split; [|set_solver].
    intros v. destruct v as [id b|id|id]; simpl; try done. destruct b; done.
  - intros g k Hin. alts Hin; simpl; done.
  - intros o. destruct (scan_out id); done.
  - intros g k Hin. alts Hin; simpl; done.
  - intros g k Hin. alts Hin; simpl; [done|]. split; [done|set_solver].
  - intros g k Hin. alts Hin; simpl; done.
  - intros g k Hin. alts Hin; simpl; [done|]. split; [done|set_solver].
  - intros g k Hin. alts Hin; simpl. split; [done|set_solver].
  - intros g k Hin. apply elem_of_nil in Hin. destruct Hin.
  - intros g k Hin. apply elem_of_nil in Hin. destruct Hin.
Qed.

Definition has_closed (l : loc) (c : nat) : Prop :=
  match l with
  | End RSrc => c = c_req
  | SCloseDone => c = c_errc
  | End RSup => c = c_errc \/ c = c_done
  | End RCopier => c = c_results
  | _ => False
  end.

Lemma engine_closers_beh : closers_beh beh has_closed.
Proof.
  intros l. destruct l as [rest| |i|i id|i id|i id| | | | |v| | |v| |v| |r v|r|srest]; simpl; try done.
  all: try (destruct rest as [|[id b] r]; simpl; try done).
  all: split; [first [reflexivity|left; reflexivity|right; reflexivity]|intros c' Hc'; try done; subst; auto].
Qed.

Lemma engine_did_beh : did_beh beh has_closed.
Proof.
  intros l. destruct l as [rest| |i|i id|i id|i id| | | | |v| | |v| |v| |r v|r|srest]; simpl; try done.
  - destruct rest as [|[id b] r]; simpl; [intros c' ->; left; reflexivity|].
    intros g k r0 c Hin. alts Hin; simpl; done.
  - intros c' ->. left. reflexivity.
  - intros g k r0 c Hin. alts Hin; simpl; try done. destruct r0 as [v| | | |]; simpl; try done.
    destruct v as [id b|id|id]; simpl; try done. destruct b; done.
  - intros g k r0 c Hin. alts Hin; simpl; done.
  - intros o c. destruct (scan_out id); done.
  - intros g k r0 c Hin. alts Hin; simpl; done.
  - intros c' ->. left. reflexivity.
  - intros c' [->| ->]; [right; reflexivity|left; reflexivity].
  - intros g k r0 c Hin. alts Hin; simpl; try done. destruct r0; done.
  - intros g k r0 c Hin. alts Hin; simpl; done.
  - intros c' ->. left. reflexivity.
  - intros g k r0 c Hin. alts Hin; simpl; try done. destruct r0; done.
  - intros g k r0 c Hin. alts Hin; simpl. destruct r0; done.
  - intros g k r0 c Hin. apply elem_of_nil in Hin. destruct Hin.
  - intros g k r0 c Hin. apply elem_of_nil in Hin. destruct Hin.
Qed.

Lemma init_did cap : did_ok has_closed (init W cap reqs).
Proof.
  intros j l c Hj Hd. exfalso. simpl in Hj. unfold init_procs in Hj. apply elem_of_list_lookup_2 in Hj.
  mem Hj; subst; simpl in Hd; done.
Qed.

Lemma init_needs cap : needs_ok needs (init W cap reqs).
Proof.
  intros _ j l c Hj Hc. exfalso. simpl in Hj. unfold init_procs in Hj. apply elem_of_list_lookup_2 in Hj.
  mem Hj; subst; simpl in Hc; set_solver.
Qed.
Lemma init_closers cap : closers_ok has_closed (init W cap reqs).
Proof.
  intros c ch Hc Hcl. exfalso. simpl in Hc. unfold init_chans in Hc. apply elem_of_list_lookup_2 in Hc.
  mem Hc; subst; discriminate.
Qed.

Definition chan_closed (n : net val loc ev) (c : nat) : Prop :=
  exists ch, chans n !! c = Some ch /\ cclosed ch = true.

(* done closed (not cancelled) => every worker has returned, the request stream is closed and
   drained, the source has ended, the supervisor has closed errc *)
Theorem engine_done_quiet cap n :
  0 < W -> reachable beh (init W cap reqs) n -> cancelled n = false -> chan_closed n c_done ->
  (forall k, k < W -> procs n !! p_w k = Some (End (RWorker k))) /\
  closed_empty n c_req /\ (exists j, procs n !! j = Some (End RSrc)) /\ chan_closed n c_errc.
Proof.
  intros HW Hr Hcan (chd & Hchd & Hcld).
  pose proof (engine_safe cap reqs n Hr) as (Hroles & Hfin & _ & _).
  pose proof (needs_reachable beh needs _ n engine_needs_beh (init_needs cap) Hr Hcan) as Hneeds.
  pose proof (closers_reachable beh has_closed _ n engine_closers_beh (init_closers cap) Hr) as Hclosers.
  assert (Hrole_at : forall j l, procs n !! j = Some l -> layout W !! j = Some (role_of l)).
  { intros j l Hj. rewrite <- Hroles. unfold roles_of. rewrite list_lookup_fmap, Hj. done. }
  destruct (Hclosers _ _ Hchd Hcld) as (js & ls & Hjs & Hhs).
  assert (ls = End RSup) as ->.
  { destruct ls; simpl in Hhs; try done; try (destruct r; try done); try reflexivity;
      try (match type of Hhs with _ \/ _ => destruct Hhs end); exfalso; chan_lia. }
  assert (Hworkers : forall k, k < W -> procs n !! p_w k = Some (End (RWorker k))).
  { intros k Hk. destruct (Hfin js (End RSup) (p_w k) Hjs) as (lm & Hlm & Hend).
    { simpl. unfold worker_ids. apply elem_of_list_fmap. exists k. split; [reflexivity|apply elem_of_seq; lia]. }
    rewrite Hlm. f_equal. pose proof (Hrole_at _ _ Hlm) as Hrl. rewrite (layout_worker k Hk) in Hrl. injection Hrl as Hrl.
    unfold ended in Hend. apply ended_is_End in Hend. destruct Hend as [r ->]. simpl in Hrl. congruence. }
  assert (Hcreq : closed_empty n c_req).
  { apply (Hneeds (p_w 0) (End (RWorker 0))); [apply Hworkers; assumption|simpl; set_solver]. }
  split; [assumption|]. split; [assumption|]. split.
  - destruct Hcreq as (chi & Hchi & Hcli & _).
    destruct (Hclosers _ _ Hchi Hcli) as (jsrc & lsrc & Hjsrc & Hhsrc). exists jsrc. rewrite Hjsrc. f_equal.
    destruct lsrc; simpl in Hhsrc; try done; try (destruct r; try done); try reflexivity;
      try (match type of Hhsrc with _ \/ _ => destruct Hhsrc end); exfalso; chan_lia.
  - (* errc was closed by the supervisor before done *)
    apply (did_reachable beh has_closed _ n engine_did_beh (init_did cap) Hr js (End RSup) c_errc Hjs). left. reflexivity.
Qed.

End fates.
End proofs.
