(* Lemmas about the generators of Model/Targets.v and Model/FileTargets.v: the port generator yields a
   permutation of the ports the ranges denote, the nested generator one full address pass per port, the
   stages act request by request, chunking loses and repeats nothing, the stdin recorder replays the
   whole input. *)
From Coq Require Import ZArith List Bool Lia Permutation.
From SX Require Import Base.Loop Base.Bytes Model.RangeIter Model.IPNet Model.Exclude Model.Targets Model.FileTargets
  Proofs.NumTheory Proofs.RangeIterProofs Proofs.IPNetProofs Proofs.StagesProofs.
Import ListNotations.
Open Scope Z_scope.

Definition nonneg (d : draws) : Prop := forall i, 0 <= fst (d i) /\ 0 <= snd (d i).
Definition pair_of (r : req) : ip * Z := (rip r, rport r).

(* ------------------------------------------------------------------ list helpers *)
Lemma flat_map_app' {A B} (f : A -> list B) l1 l2 : flat_map f (l1 ++ l2) = flat_map f l1 ++ flat_map f l2.
Proof. induction l1 as [|x l1 IH]; cbn; [reflexivity|]. rewrite IH, app_assoc. reflexivity. Qed.

Lemma flat_map_flat_map' {A B C} (f : A -> list B) (g : B -> list C) l :
  flat_map g (flat_map f l) = flat_map (fun x => flat_map g (f x)) l.
Proof. induction l as [|x l IH]; cbn; [reflexivity|]. rewrite flat_map_app', IH. reflexivity. Qed.

Lemma Permutation_flat_map_l {A B} (f : A -> list B) l l' : Permutation l l' -> Permutation (flat_map f l) (flat_map f l').
Proof.
  induction 1; cbn.
  - constructor.
  - apply Permutation_app_head. assumption.
  - rewrite !app_assoc. apply Permutation_app_tail. apply Permutation_app_comm.
  - eapply Permutation_trans; eassumption.
Qed.

Lemma Permutation_filter {A} (f : A -> bool) l l' : Permutation l l' -> Permutation (filter f l) (filter f l').
Proof.
  induction 1; cbn.
  - constructor.
  - destruct (f x); [constructor|]; assumption.
  - destruct (f x), (f y); try apply Permutation_refl. constructor.
  - eapply Permutation_trans; eassumption.
Qed.

Lemma filter_flat_map {A B} (p : B -> bool) (f : A -> list B) l :
  filter p (flat_map f l) = flat_map (fun x => filter p (f x)) l.
Proof. induction l as [|x l IH]; cbn; [reflexivity|]. rewrite filter_app, IH. reflexivity. Qed.

Lemma filter_map_comm {A B} (p : B -> bool) (f : A -> B) l : filter p (map f l) = map f (filter (fun x => p (f x)) l).
Proof. induction l as [|x l IH]; cbn; [reflexivity|]. destruct (p (f x)); cbn; rewrite IH; reflexivity. Qed.

(* ------------------------------------------------------------------ ports *)
Definition valid_range (r : prange) : Prop := 0 <= fst r /\ fst r <= snd r /\ snd r <= 65535.

Lemma range_ports_zrange r : range_ports r = zrange (fst r) (Z.to_nat (snd r - fst r + 1)).
Proof. reflexivity. Qed.

Lemma validate_ports_true rs : rs <> [] -> Forall valid_range rs -> validate_ports rs = true.
Proof.
  intros Hne H. destruct rs as [|r rs]; [contradiction|]. unfold validate_ports.
  apply forallb_forall. intros x Hx. rewrite Forall_forall in H. destruct (H x Hx) as (_ & H1 & _). apply Z.leb_le. exact H1.
Qed.

Section Ports.
Variable table : list row.
Hypothesis table_good : table_ok table.

(* the walk over valid ranges ends normally, yields no error, and its ports are, range after range, a
   permutation of the ports of that range *)
Lemma ports_walk_ok ds : nonneg ds -> forall rs i, Forall valid_range rs ->
  exists ps, ports_walk table ds i rs = (map inl ps, Done) /\ Permutation ps (all_ports rs).
Proof.
  intros Hds rs. induction rs as [|[s e] rs IH]; intros i Hv.
  - exists []. split; [reflexivity|constructor].
  - inversion Hv as [|? ? Hr Hv']; subst. destruct Hr as (H0 & H1 & H2). cbn [fst snd] in *.
    cbn [ports_walk].
    assert (Hn : 1 <= e - s + 1 <= 2 ^ 32) by (change (2 ^ 32) with 4294967296; lia).
    destruct (Hds i) as [Hd1 Hd2].
    destruct (run_permutation table (e - s + 1) _ _ table_good Hn Hd1 Hd2) as [l [Hrun Hperm]].
    rewrite Hrun. destruct (IH (S i) Hv') as [ps [Hw Hp]]. rewrite Hw.
    exists (map (fun x => s - 1 + x) l ++ ps). split.
    + rewrite map_app, map_map. f_equal. f_equal. apply map_ext_in. intros x Hx. apply (proj2 Hperm) in Hx.
      f_equal. apply Z.mod_small. lia.
    + unfold all_ports. cbn [flat_map]. apply Permutation_app; [|exact Hp].
      rewrite range_ports_zrange. cbn [fst snd].
      pose proof (perm_zrange (e - s + 1) l ltac:(lia) Hperm) as P.
      apply (Permutation_map (fun x => s - 1 + x)) in P. eapply Permutation_trans; [exact P|].
      unfold zrange. rewrite map_map. erewrite map_ext; [apply Permutation_refl|]. intros j. cbv beta. lia.
Qed.

Lemma ports_gen_ok ds rs : nonneg ds -> rs <> [] -> Forall valid_range rs ->
  exists ps, ports_gen table ds rs = Emit (map inl ps) Done /\ Permutation ps (all_ports rs).
Proof.
  intros Hds Hne Hv. unfold ports_gen. rewrite (validate_ports_true rs Hne Hv).
  destruct (ports_walk_ok ds Hds rs 0%nat Hv) as [ps [Hw Hp]]. rewrite Hw. exists ps. split; [reflexivity|exact Hp].
Qed.
End Ports.

(* ------------------------------------------------------------------ the nested generator *)
(* a source whose every pass ends normally and yields the address list [pass k] *)
Definition good_source (src : ip_source) (pass : nat -> list (getter ip)) : Prop :=
  forall k, src k = Emit (pass k) Done.

(* one block per port, in port order: the k-th block pairs the port with the k-th address pass *)
Fixpoint blocks (pass : nat -> list (getter ip)) (k : nat) (ps : list Z) : list req :=
  match ps with
  | [] => []
  | p :: ps' => map (ip_req p) (pass k) ++ blocks pass (S k) ps'
  end.

Lemma ip_port_loop_blocks src pass : good_source src pass -> forall ps k,
  ip_port_loop src (S k) (pass k) Done (map inl ps) Done = (blocks pass k ps, Done).
Proof.
  intros Hsrc ps. induction ps as [|p ps IH]; intros k; cbn [map ip_port_loop blocks]; [reflexivity|].
  rewrite (Hsrc (S k)). rewrite IH. reflexivity.
Qed.

Lemma ip_port_gen_blocks src pass ps : good_source src pass ->
  ip_port_gen (Emit (map inl ps) Done) src = Emit (blocks pass 0 ps) Done.
Proof.
  intros Hsrc. unfold ip_port_gen. rewrite (Hsrc 0%nat). rewrite (ip_port_loop_blocks src pass Hsrc ps 0). reflexivity.
Qed.

Lemma blocks_const pass l ps k : (forall j, pass j = l) -> blocks pass k ps = flat_map (fun p => map (ip_req p) l) ps.
Proof.
  intros H. revert k. induction ps as [|p ps IH]; intros k; cbn [blocks flat_map]; [reflexivity|]. rewrite H, IH. reflexivity.
Qed.

(* when every pass is an error-free permutation of the address list A, the requests are - as a multiset -
   ports x A *)
Lemma blocks_perm pass A : (forall k, exists a, pass k = map inl a /\ Permutation a A) -> forall ps k,
  Forall (fun r => rerr r = None) (blocks pass k ps) /\
  Permutation (map pair_of (blocks pass k ps)) (cross ps A).
Proof.
  intros Hp ps. induction ps as [|p ps IH]; intros k; cbn [blocks cross flat_map map].
  - split; constructor.
  - destruct (Hp k) as [a [-> Pa]]. destruct (IH (S k)) as [F P]. rewrite map_map. split.
    + apply Forall_app. split; [|exact F]. apply Forall_forall. intros r Hr. apply in_map_iff in Hr.
      destruct Hr as [x [<- _]]. reflexivity.
    + rewrite map_app, map_map. apply Permutation_app; [|exact P].
      change (fun x : ip => pair_of (ip_req p (inl x))) with (fun x : ip => (x, p)).
      apply Permutation_map. exact Pa.
Qed.

(* ------------------------------------------------------------------ the stages act request by request *)
Definition stage_one (st : stages) (r : req) : list req :=
  let l1 := match st_filter st with Some nets => filter_one nets r | None => [r] end in
  match st_cache st with Some c => map (cache_one c) l1 | None => l1 end.

Lemma flat_map_single {A} (l : list A) : flat_map (fun r => [r]) l = l.
Proof. induction l as [|r l IH]; cbn; [reflexivity|]. rewrite IH. reflexivity. Qed.

Lemma flat_map_map_single {A B} (f : A -> B) (l : list A) : flat_map (fun r => map f [r]) l = map f l.
Proof. induction l as [|r l IH]; [reflexivity|]. cbn [flat_map]. rewrite IH. reflexivity. Qed.

Lemma map_flat_map {A B C} (g : B -> C) (f : A -> list B) l : map g (flat_map f l) = flat_map (fun x => map g (f x)) l.
Proof. induction l as [|r l IH]; cbn; [reflexivity|]. rewrite map_app, IH. reflexivity. Qed.

Lemma apply_stages_flat st l en : apply_stages st (Emit l en) = Emit (flat_map (stage_one st) l) en.
Proof.
  unfold apply_stages, stage_one. destruct (st_filter st) as [nets|], (st_cache st) as [c|];
    cbn [filter_stage cache_stage]; f_equal;
    first [apply map_flat_map | symmetry; apply flat_map_map_single | symmetry; apply flat_map_single].
Qed.

Lemma apply_stages_fail st e : apply_stages st (Fail e) = Fail e.
Proof. unfold apply_stages. destruct (st_filter st), (st_cache st); reflexivity. Qed.

(* an error request leaves every stack of stages exactly as it entered *)
Lemma stage_one_err st r : has_err r = true -> stage_one st r = [r].
Proof.
  intros H. unfold stage_one. destruct (st_filter st) as [nets|].
  - rewrite filter_one_spec, H. destruct (st_cache st) as [c|]; [cbn; rewrite cache_one_err by exact H|]; reflexivity.
  - destruct (st_cache st) as [c|]; [cbn; rewrite cache_one_err by exact H|]; reflexivity.
Qed.

Definition cache_total (st : stages) : Prop :=
  match st_cache st with Some c => ac_gateway c <> [] | None => True end.
Definition stage_mac (st : stages) (a : ip) : list Z :=
  match st_cache st with Some c => get_mac c a | None => [] end.

Lemma get_mac_total c a : ac_gateway c <> [] -> get_mac c a <> [].
Proof. unfold get_mac. intros H. destruct (cache_get (rev (ac_entries c)) (ip_key a)); [exact H|discriminate]. Qed.

(* an error-free request with a real address: dropped iff excluded; otherwise it comes out with its
   address and port, with the MAC the cache knows, or as a no-MAC error when the cache knows none *)
Lemma stage_one_good st a p : addr_ok a ->
  stage_one st (mk_req a p) =
    if kept st a then
      match st_cache st with
      | None => [mk_req a p]
      | Some c => match get_mac c a with
                  | [] => [{| rip := a; rport := p; rerr := Some GNoMAC; rmac := [] |}]
                  | m => [{| rip := a; rport := p; rerr := None; rmac := m |}]
                  end
      end
    else [].
Proof.
  intros Ha. unfold stage_one, kept. destruct (st_filter st) as [nets|].
  - rewrite filter_one_spec. cbn [has_err mk_req rerr rip]. rewrite (excluded_res_ok nets a Ha).
    destruct (excluded nets a); cbn [negb].
    + destruct (st_cache st); reflexivity.
    + destruct (st_cache st) as [c|]; [|reflexivity]. cbn [map]. unfold cache_one. cbn [mk_req rerr rip rport rmac].
      destruct (get_mac c a); reflexivity.
  - destruct (st_cache st) as [c|]; [|reflexivity]. cbn [map]. unfold cache_one. cbn [mk_req rerr rip rport rmac].
    destruct (get_mac c a); reflexivity.
Qed.

Lemma probes_app a b : probes (a ++ b) = probes a ++ probes b.
Proof. apply flat_map_app'. Qed.
Lemma errors_app a b : errors (a ++ b) = errors a ++ errors b.
Proof. apply flat_map_app'. Qed.
Lemma normal_app a b : normal (a ++ b) = normal a && normal b.
Proof. apply forallb_app. Qed.

Definition good_req (r : req) : Prop := rerr r = None /\ addr_ok (rip r) /\ rmac r = [].

Lemma stage_one_good_events st r : cache_total st -> good_req r ->
  let evs := map req_event (stage_one st r) in
  probes evs = (if kept st (rip r) then [pair_of r] else []) /\ errors evs = [] /\ normal evs = true.
Proof.
  intros Ht (He & Ha & Hm). destruct r as [a p e m]. cbn [rerr rip rmac] in *. subst e m.
  change {| rip := a; rport := p; rerr := None; rmac := [] |} with (mk_req a p).
  cbv zeta. rewrite (stage_one_good st a p Ha). cbn [mk_req rip pair_of rport].
  destruct (kept st a); [|repeat split].
  unfold cache_total in Ht. destruct (st_cache st) as [c|]; [|repeat split].
  pose proof (get_mac_total c a Ht) as Hg. destruct (get_mac c a); [contradiction|]. repeat split.
Qed.

(* with a total cache (gateway MAC known, or no cache stage) the probes of error-free requests are the kept
   (address, port) pairs, in order; there are no errors *)
Lemma stages_probes st l :
  cache_total st -> Forall good_req l ->
  let evs := events (apply_stages st (Emit l Done)) in
  probes evs = filter (fun ap => kept st (fst ap)) (map pair_of l) /\ errors evs = [] /\ normal evs = true.
Proof.
  intros Ht H. rewrite apply_stages_flat. cbn [events]. induction H as [|r l Hr _ IH]; [repeat split|].
  destruct IH as (IH1 & IH2 & IH3). destruct (stage_one_good_events st r Ht Hr) as (S1 & S2 & S3).
  cbn [flat_map map filter]. rewrite map_app, probes_app, errors_app, normal_app.
  rewrite IH1, IH2, IH3, S1, S2, S3. cbn [pair_of fst]. destruct (kept st (rip r)); repeat split.
Qed.

Lemma cross_filter (f : ip -> bool) ps A :
  filter (fun ap => f (fst ap)) (cross ps A) = cross ps (filter f A).
Proof.
  unfold cross. rewrite filter_flat_map. apply flat_map_ext. intros p. rewrite filter_map_comm. reflexivity.
Qed.

Lemma cross_perm ps ps' A : Permutation ps ps' -> Permutation (cross ps A) (cross ps' A).
Proof. apply Permutation_flat_map_l. Qed.

Lemma cross_app ps1 ps2 A : cross (ps1 ++ ps2) A = cross ps1 A ++ cross ps2 A.
Proof. apply flat_map_app'. Qed.

(* ------------------------------------------------------------------ chunking *)
Lemma chunks_fuel_concat {A} size : (0 < size)%nat -> forall fuel (l : list A), (length l <= fuel)%nat ->
  concat (chunks_fuel fuel size l) = l /\ Forall (fun c => c <> []) (chunks_fuel fuel size l).
Proof.
  intros Hs fuel. induction fuel as [|f IH]; intros l Hl.
  - destruct l; [split; [reflexivity|constructor]|cbn in Hl; lia].
  - cbn [chunks_fuel]. destruct l as [|x l]; [split; [reflexivity|constructor]|].
    assert (Hlen : (length (skipn size (x :: l)) <= f)%nat).
    { rewrite skipn_length. cbn [length] in *. lia. }
    destruct (IH _ Hlen) as [E F]. cbn [concat]. rewrite E. split; [apply firstn_skipn|].
    constructor; [|exact F]. destruct size; [lia|]. cbn. discriminate.
Qed.

Lemma chunks_concat {A} size (l : list A) : (0 < size)%nat ->
  concat (chunks size l) = l /\ Forall (fun c => c <> []) (chunks size l).
Proof. intros Hs. apply chunks_fuel_concat; [exact Hs|apply Nat.le_refl]. Qed.

Lemma chunks_length {A} size (l : list A) : (length (chunks size l) <= length l)%nat.
Proof.
  unfold chunks. assert (H : forall fuel (l : list A), (length (chunks_fuel fuel size l) <= fuel)%nat).
  { induction fuel as [|f IH]; intros l0; cbn [chunks_fuel]; [apply Nat.le_0_l|].
    destruct l0; [apply Nat.le_0_l|]. cbn [length]. specialize (IH (skipn size (a :: l0))). lia. }
  apply H.
Qed.

(* the engine loop: if every run on a non-empty part of the list yields (as a multiset) D(part), and D is
   additive, the whole loop yields D(whole list).  This is "concat (map f (chunks n l)) = f l" for
   multisets. *)
Lemma combine_seq_map {A B} (f : nat -> A -> list B) (g : A -> list B) (cs : list A) : forall i,
  (forall j c, In c cs -> Permutation (f j c) (g c)) ->
  Permutation (concat (map (fun ic => f (fst ic) (snd ic)) (combine (seq i (length cs)) cs))) (concat (map g cs)).
Proof.
  induction cs as [|c cs IH]; intros i H; cbn; [constructor|].
  apply Permutation_app; [apply H; left; reflexivity|]. apply IH. intros j c' Hc. apply H. right. exact Hc.
Qed.

Lemma combine_seq_longer {A} (cs : list A) i n : (length cs <= n)%nat ->
  combine (seq i n) cs = combine (seq i (length cs)) cs.
Proof.
  revert i n. induction cs as [|c cs IH]; intros i n H; [destruct n; reflexivity|].
  destruct n; [cbn in H; lia|]. cbn. f_equal. apply IH. cbn in H. lia.
Qed.

Section Chunking.
Context {B : Type}.
Variable run_engine : nat -> list prange -> list event.
Variable proj : list event -> list B.
Variable D : list prange -> list B.
Hypothesis proj_app : forall a b, proj (a ++ b) = proj a ++ proj b.
Hypothesis D_app : forall a b, D (a ++ b) = D a ++ D b.

Lemma proj_concat ls : proj (concat ls) = concat (map proj ls).
Proof.
  induction ls as [|l ls IH]; cbn.
  - pose proof (proj_app [] []) as H. cbn in H. destruct (proj []); [reflexivity|].
    exfalso. apply (f_equal (@length B)) in H. rewrite app_length in H. cbn in H. lia.
  - rewrite proj_app, IH. reflexivity.
Qed.

Lemma D_concat ls : D (concat ls) = concat (map D ls).
Proof.
  induction ls as [|l ls IH]; cbn.
  - pose proof (D_app [] []) as H. cbn in H. destruct (D []); [reflexivity|].
    exfalso. apply (f_equal (@length B)) in H. rewrite app_length in H. cbn in H. lia.
  - rewrite D_app, IH. reflexivity.
Qed.

Lemma port_scan_engine_perm size once ports :
  0 < size -> ports <> [] ->
  (forall c chunk, chunk <> [] -> incl chunk ports -> Permutation (proj (run_engine c chunk)) (D chunk)) ->
  Permutation (proj (port_scan_engine size once run_engine ports)) (D ports).
Proof.
  intros Hs Hne Hrun. unfold port_scan_engine. destruct ports as [|p0 ports0]; [contradiction|].
  set (ports := p0 :: ports0) in *.
  assert (Hs' : (0 < Z.to_nat size)%nat) by lia.
  destruct (chunks_concat (Z.to_nat size) ports Hs') as [Ec Fc].
  rewrite (combine_seq_longer _ 0 (length ports) (chunks_length _ _)).
  rewrite proj_concat, map_map.
  assert (ED : D ports = concat (map D (chunks (Z.to_nat size) ports))) by (rewrite <- D_concat, Ec; reflexivity).
  rewrite ED.
  apply (combine_seq_map (fun i c => proj (run_engine i c)) D).
  intros j c Hc. apply Hrun.
  - rewrite Forall_forall in Fc. apply Fc. exact Hc.
  - intros x Hx. rewrite <- Ec. apply in_concat. exists c. split; assumption.
Qed.
End Chunking.

(* ------------------------------------------------------------------ the stdin recorder *)
Section ReplayProofs.
Context {A : Type}.
Definition replay_inv (stdin : list A) (s : replay A) : Prop :=
  rp_buf s ++ rp_rest s = stdin /\ (rp_opened s = false -> rp_buf s = []).

Lemma replay_open_inv stdin s : replay_inv stdin s ->
  fst (replay_open s) = stdin /\ replay_inv stdin (snd (replay_open s)).
Proof.
  intros [H1 H2]. unfold replay_open. destruct (rp_opened s) eqn:E; cbn [fst snd].
  - split; [exact H1|]. split; cbn; [rewrite app_nil_r; exact H1|discriminate].
  - rewrite (H2 eq_refl) in H1. cbn in H1. split; [exact H1|]. split; cbn; [rewrite (H2 eq_refl); exact H1|discriminate].
Qed.

Lemma replay_read_inv stdin n s : replay_inv stdin s -> replay_inv stdin (replay_read n s).
Proof.
  intros [H1 H2]. unfold replay_read. destruct (rp_opened s) eqn:E; [|split; [exact H1|intros _; apply H2; reflexivity]].
  split; cbn; [|discriminate]. rewrite <- app_assoc, firstn_skipn. exact H1.
Qed.

(* whatever the streaming reader has or has not consumed, every open offers the whole of stdin *)
Lemma replay_run_all stdin ops : forall s, replay_inv stdin s -> Forall (eq stdin) (replay_run ops s).
Proof.
  induction ops as [|[|n] ops IH]; intros s Hs; cbn [replay_run].
  - constructor.
  - destruct (replay_open_inv stdin s Hs) as [E Hs']. destruct (replay_open s) as [c s']. cbn [fst snd] in *.
    constructor; [symmetry; exact E|apply IH; exact Hs'].
  - apply IH. apply replay_read_inv. exact Hs.
Qed.

Lemma replay_new_inv stdin : replay_inv stdin (replay_new stdin).
Proof. split; reflexivity. Qed.
End ReplayProofs.
