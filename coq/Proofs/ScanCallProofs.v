(* Lemmas about Model/ScanCall.v: invariants of the timed run of startScanEngine over every
   time-ordered event list. *)
From Coq Require Import ZArith List Bool Lia.
From SX Require Import Model.ScanCall.
Import ListNotations.
Open Scope Z_scope.

Section Inv.
Variable delay : Z.
Variable all : list tev.

Definition DoneAt (d : Z) : Prop := In (d, EvDone) all.
Definition ParentAt (p : Z) : Prop := In (p, EvParentCancel) all.
Definition ResClosedAt (q : Z) : Prop := In (q, EvResultsClosed) all.
Definition ErrcClosedAt (q : Z) : Prop := In (q, EvErrcClosed) all.

(* why a context cancellation at time a can have happened *)
Definition Expl (a : Z) : Prop :=
  (exists d, DoneAt d /\ d + delay <= a) \/ (exists p, ParentAt p /\ p <= a).

Record inv (s : state) (t : Z) : Prop := {
  i_timer : forall dl, st_delay s = DWaitTimer dl -> t <= dl /\ exists d, DoneAt d /\ dl = d + Z.max delay 0;
  i_internal : forall c, st_internal s = Some c -> (exists d, DoneAt d /\ c = d + Z.max delay 0) /\ st_ctx s <> None;
  i_waiting : st_delay s = DWaitDone -> st_internal s = None;
  i_exited : st_delay s = DExited -> st_ctx s <> None;
  i_ctx : forall c, st_ctx s = Some c -> Expl c /\ c <= t /\ exists a, st_logger s = Some a /\ a <= c;
  i_logger : forall a, st_logger s = Some a -> a <= t /\ (Expl a \/ ResClosedAt a);
  i_drain : forall b, st_drain s = Some b -> b <= t /\ ErrcClosedAt b
}.

Lemma inv_init : forall t, inv init t.
Proof. intros t. constructor; simpl; intros; try discriminate; try reflexivity. Qed.

Lemma inv_mono : forall s t t', inv s t -> t <= t' ->
  (forall dl, st_delay s = DWaitTimer dl -> t' <= dl) -> inv s t'.
Proof.
  intros s t t' [H1 H2 H3 H4 H5 H6 H7] Hle Htm. constructor; intros; auto.
  - destruct (H1 _ H) as [Hl Hd]. split; [apply Htm; exact H|exact Hd].
  - destruct (H5 _ H) as [He [Hl Ha]]. repeat split; auto; lia.
  - destruct (H6 _ H) as [Hl He]. split; auto; lia.
  - destruct (H7 _ H) as [Hl He]. split; auto; lia.
Qed.

(* cancellation at the current time with a valid explanation *)
Lemma inv_cancel : forall s c, inv s c -> Expl c -> inv (cancel_ctx c s) c.
Proof.
  intros s c Hi Hex.
  unfold cancel_ctx. destruct (st_ctx s) as [c0|] eqn:Ec; [exact Hi|].
  destruct Hi as [H1 H2 H3 H4 H5 H6 H7].
  destruct s as [dl cx it lg dr wr er]. simpl in *. subst cx.
  constructor; simpl; intros; auto.
  - destruct (H2 _ H) as [Hd Hn]. split; [exact Hd|discriminate].
  - discriminate.
  - injection H as <-. split; [exact Hex|]. split; [lia|].
    destruct lg as [a|].
    + exists a. split; [reflexivity|]. destruct (H6 a eq_refl) as [Hl _]. exact Hl.
    + exists c. split; [reflexivity|lia].
  - destruct lg as [a0|].
    + injection H as <-. exact (H6 a0 eq_refl).
    + injection H as <-. split; [lia|left; exact Hex].
Qed.

Lemma cancel_ctx_some : forall c s, st_ctx (cancel_ctx c s) <> None.
Proof. intros c s. unfold cancel_ctx. destruct (st_ctx s) eqn:E; simpl; [rewrite E|]; discriminate. Qed.

Lemma cancel_ctx_delay : forall c s, st_delay (cancel_ctx c s) = st_delay s.
Proof. intros c s. unfold cancel_ctx. destruct (st_ctx s); reflexivity. Qed.

(* the timer fires (or not) when time advances to upto >= t *)
Lemma inv_fire : forall s t upto, inv s t -> t <= upto -> inv (fire_timer upto s) upto.
Proof.
  intros s t upto Hi Hle. unfold fire_timer.
  destruct (st_delay s) as [|dl|] eqn:Ed;
    try (apply (inv_mono s t upto Hi Hle); intros dl' Hd'; rewrite Ed in Hd'; discriminate).
  destruct (i_timer s t Hi dl Ed) as [Htd [d [Hd He]]].
  destruct (Z.leb_spec dl upto) as [Hdl|Hdl].
  - assert (Hex : Expl dl) by (left; exists d; split; [exact Hd|lia]).
    assert (Hi1 : inv s dl).
    { apply (inv_mono s t dl Hi Htd). intros dl' Hd'. rewrite Ed in Hd'. injection Hd' as <-. lia. }
    pose proof (inv_cancel s dl Hi1 Hex) as [H1 H2 H3 H4 H5 H6 H7].
    pose proof (cancel_ctx_some dl s) as Hcx.
    constructor; simpl; intros; try discriminate.
    + injection H as <-. split; [exists d; auto|exact Hcx].
    + exact Hcx.
    + destruct (H5 _ H) as [Hx [Hl Ha]]. repeat split; auto; lia.
    + destruct (H6 _ H) as [Hl Hx]. split; auto; lia.
    + destruct (H7 _ H) as [Hl Hx]. split; auto; lia.
  - apply (inv_mono s t upto Hi Hle). intros dl' Hd'. rewrite Ed in Hd'. injection Hd' as <-. lia.
Qed.

Lemma fire_timer_delay_cases : forall upto s,
  st_delay (fire_timer upto s) = st_delay s \/ st_delay (fire_timer upto s) = DExited.
Proof.
  intros upto s. unfold fire_timer. destruct (st_delay s) as [|dl|] eqn:E; auto.
  destruct (dl <=? upto); simpl; auto.
Qed.

(* one external event of the list at time t' >= t *)
Lemma inv_step : forall s t t' e, inv s t -> t <= t' -> In (t', e) all -> inv (step delay s (t', e)) t'.
Proof.
  intros s t t' e Hi Hle Hin. unfold step. simpl fst. simpl snd.
  pose proof (inv_fire s t t' Hi Hle) as Hf. set (s1 := fire_timer t' s) in *.
  destruct e; simpl.
  - (* EvDone *)
    destruct (st_delay s1) eqn:Ed; try exact Hf.
    set (s2 := {| st_delay := DWaitTimer (timer_deadline t' delay); st_ctx := st_ctx s1;
                  st_internal := st_internal s1; st_logger := st_logger s1; st_drain := st_drain s1;
                  st_written := st_written s1; st_errors := st_errors s1 |}).
    assert (Hi2 : inv s2 t').
    { destruct Hf as [H1 H2 H3 H4 H5 H6 H7]. constructor; simpl; intros; auto; try discriminate.
      injection H as <-. unfold timer_deadline. split; [lia|]. exists t'. split; [exact Hin|reflexivity]. }
    apply (inv_fire s2 t' t' Hi2). lia.
  - (* EvParentCancel *)
    apply inv_cancel; [exact Hf|]. right. exists t'. split; [exact Hin|lia].
  - (* EvResult *)
    destruct (st_logger s1) eqn:El; [exact Hf|].
    destruct Hf as [H1 H2 H3 H4 H5 H6 H7]. constructor; simpl; intros; auto; try discriminate.
    destruct (H5 _ H) as [_ [_ [a [Ha _]]]]. rewrite El in Ha. discriminate.
  - (* EvResultsClosed *)
    destruct (st_logger s1) eqn:El; [exact Hf|].
    destruct Hf as [H1 H2 H3 H4 H5 H6 H7]. constructor; simpl; intros; auto.
    + destruct (H5 _ H) as [_ [_ [a [Ha _]]]]. rewrite El in Ha. discriminate.
    + injection H as <-. split; [lia|right; exact Hin].
  - (* EvErr *)
    destruct (st_drain s1) eqn:Edr; [exact Hf|].
    destruct Hf as [H1 H2 H3 H4 H5 H6 H7]. constructor; simpl; intros; auto; try discriminate.
  - (* EvErrcClosed *)
    destruct (st_drain s1) eqn:Edr; [exact Hf|].
    destruct Hf as [H1 H2 H3 H4 H5 H6 H7]. constructor; simpl; intros; auto.
    injection H as <-. split; [lia|exact Hin].
Qed.

Lemma sorted_from_le : forall evs t t' e, sorted_from t evs -> In (t', e) evs -> t <= t'.
Proof.
  induction evs as [|[t0 e0] r IH]; intros t t' e Hs Hin; [contradiction|].
  simpl in Hs. destruct Hs as [Hle Hr]. destruct Hin as [Heq|Hin].
  - injection Heq as <- <-. exact Hle.
  - specialize (IH t0 t' e Hr Hin). lia.
Qed.

Lemma inv_run_from : forall evs s t, inv s t -> sorted_from t evs -> (forall x, In x evs -> In x all) ->
  exists t', t <= t' /\ inv (run_from delay s evs) t'.
Proof.
  induction evs as [|[t0 e0] r IH]; intros s t Hi Hs Hsub.
  - exists t. split; [lia|exact Hi].
  - simpl in Hs. destruct Hs as [Hle Hr]. unfold run_from. simpl.
    assert (Hin : In (t0, e0) all) by (apply Hsub; left; reflexivity).
    pose proof (inv_step s t t0 e0 Hi Hle Hin) as Hi'.
    destruct (IH _ t0 Hi' Hr (fun x Hx => Hsub x (or_intror Hx))) as [t' [Hl Hi'']].
    exists t'. split; [lia|exact Hi''].
Qed.

Lemma inv_settle : forall s t, inv s t -> exists t', t <= t' /\ inv (settle s) t'.
Proof.
  intros s t Hi. unfold settle. destruct (st_delay s) as [|dl|] eqn:Ed; try (exists t; split; [lia|exact Hi]).
  destruct (i_timer s t Hi dl Ed) as [Hl _]. exists dl. split; [exact Hl|]. apply (inv_fire s t dl Hi Hl).
Qed.

End Inv.

Lemma sorted_sorted_from : forall evs, sorted evs -> exists t, sorted_from t evs.
Proof.
  intros [|[t e] r] H; [exists 0; exact I|]. exists t. simpl in *. split; [lia|exact H].
Qed.

(* the invariant holds of the final state of every run over a time-ordered event list *)
Theorem inv_run : forall delay evs, sorted evs -> exists t, inv delay evs (run delay evs) t.
Proof.
  intros delay evs Hs. destruct (sorted_sorted_from evs Hs) as [t0 Hs0].
  destruct (inv_run_from delay evs evs init t0 (inv_init delay evs t0) Hs0 (fun x H => H)) as [t1 [_ Hi1]].
  destruct (inv_settle delay evs _ t1 Hi1) as [t2 [_ Hi2]]. exists t2. exact Hi2.
Qed.

(* ---------------------------------------------------------------- projections that never change *)
Lemma cancel_ctx_drain : forall c s, st_drain (cancel_ctx c s) = st_drain s.
Proof. intros c s. unfold cancel_ctx. destruct (st_ctx s); reflexivity. Qed.
Lemma cancel_ctx_written : forall c s, st_written (cancel_ctx c s) = st_written s.
Proof. intros c s. unfold cancel_ctx. destruct (st_ctx s); reflexivity. Qed.
Lemma cancel_ctx_errors : forall c s, st_errors (cancel_ctx c s) = st_errors s.
Proof. intros c s. unfold cancel_ctx. destruct (st_ctx s); reflexivity. Qed.
Lemma cancel_ctx_keeps : forall c s, st_ctx s <> None -> st_ctx (cancel_ctx c s) <> None.
Proof. intros. apply cancel_ctx_some. Qed.

Lemma fire_timer_drain : forall u s, st_drain (fire_timer u s) = st_drain s.
Proof.
  intros u s. unfold fire_timer. destruct (st_delay s) as [|dl|]; try reflexivity.
  destruct (dl <=? u); simpl; [apply cancel_ctx_drain|reflexivity].
Qed.
Lemma fire_timer_written : forall u s, st_written (fire_timer u s) = st_written s.
Proof.
  intros u s. unfold fire_timer. destruct (st_delay s) as [|dl|]; try reflexivity.
  destruct (dl <=? u); simpl; [apply cancel_ctx_written|reflexivity].
Qed.
Lemma fire_timer_ctx_keeps : forall u s, st_ctx s <> None -> st_ctx (fire_timer u s) <> None.
Proof.
  intros u s H. unfold fire_timer. destruct (st_delay s) as [|dl|]; try exact H.
  destruct (dl <=? u); simpl; [apply cancel_ctx_some|exact H].
Qed.
Lemma fire_timer_not_waiting : forall u s, st_delay s <> DWaitDone -> st_delay (fire_timer u s) <> DWaitDone.
Proof.
  intros u s H. destruct (fire_timer_delay_cases u s) as [E|E]; rewrite E; [exact H|discriminate].
Qed.

(* ---------------------------------------------------------------- monotone facts of one step *)
Lemma step_written_mono : forall delay s te id, In id (st_written s) -> In id (st_written (step delay s te)).
Proof.
  intros delay s [t e] id H. unfold step. simpl fst. simpl snd.
  assert (H1 : In id (st_written (fire_timer t s))) by (rewrite fire_timer_written; exact H).
  set (s1 := fire_timer t s) in *. destruct e; simpl.
  - destruct (st_delay s1); try exact H1. rewrite fire_timer_written. simpl. exact H1.
  - rewrite cancel_ctx_written. exact H1.
  - destruct (st_logger s1); [exact H1|]. simpl. right. exact H1.
  - destruct (st_logger s1); [exact H1|]. simpl. exact H1.
  - destruct (st_drain s1); [exact H1|]. simpl. exact H1.
  - destruct (st_drain s1); [exact H1|]. simpl. exact H1.
Qed.

Lemma run_from_written_mono : forall delay evs s id,
  In id (st_written s) -> In id (st_written (run_from delay s evs)).
Proof.
  intros delay evs. induction evs as [|te r IH]; intros s id H; [exact H|].
  unfold run_from. simpl. apply IH. apply step_written_mono. exact H.
Qed.

Lemma settle_written : forall s, st_written (settle s) = st_written s.
Proof. intros s. unfold settle. destruct (st_delay s); try reflexivity. apply fire_timer_written. Qed.

Lemma step_drain_stays : forall delay s te b, st_drain s = Some b -> st_drain (step delay s te) = Some b.
Proof.
  intros delay s [t e] b H. unfold step. simpl fst. simpl snd.
  assert (H1 : st_drain (fire_timer t s) = Some b) by (rewrite fire_timer_drain; exact H).
  set (s1 := fire_timer t s) in *. destruct e; simpl.
  - destruct (st_delay s1); try exact H1. rewrite fire_timer_drain. simpl. exact H1.
  - rewrite cancel_ctx_drain. exact H1.
  - destruct (st_logger s1); [exact H1|]. simpl. exact H1.
  - destruct (st_logger s1); [exact H1|]. simpl. exact H1.
  - rewrite H1. exact H1.
  - rewrite H1. exact H1.
Qed.

Lemma run_from_drain_stays : forall delay evs s b,
  st_drain s = Some b -> st_drain (run_from delay s evs) = Some b.
Proof.
  intros delay evs. induction evs as [|te r IH]; intros s b H; [exact H|].
  unfold run_from. simpl. apply IH. apply step_drain_stays. exact H.
Qed.

Lemma settle_drain : forall s, st_drain (settle s) = st_drain s.
Proof. intros s. unfold settle. destruct (st_delay s); try reflexivity. apply fire_timer_drain. Qed.

(* the drain ends at the first close of errc *)
Lemma drain_first : forall delay evs s t te, sorted_from t evs -> In (te, EvErrcClosed) evs ->
  exists b, st_drain (run_from delay s evs) = Some b /\ (st_drain s = None -> t <= b <= te).
Proof.
  intros delay evs. induction evs as [|[t1 e1] r IH]; intros s t te Hs Hin; [contradiction|].
  simpl in Hs. destruct Hs as [Hle Hr]. unfold run_from. simpl.
  destruct (st_drain s) as [b0|] eqn:Ed.
  - exists b0. split; [|discriminate]. apply (run_from_drain_stays delay r). apply step_drain_stays. exact Ed.
  - assert (Hte : t1 <= te).
    { destruct Hin as [Heq|Hin]; [injection Heq as <- _; lia|exact (sorted_from_le r t1 te _ Hr Hin)]. }
    destruct e1.
    + (* not a close: recurse unless it is our event *)
      destruct Hin as [Heq|Hin]; [discriminate|].
      destruct (IH (step delay s (t1, EvDone)) t1 te Hr Hin) as [b [Hb Hbt]]. exists b. split; [exact Hb|].
      intros _. assert (Hn : st_drain (step delay s (t1, EvDone)) = None).
      { unfold step. simpl. destruct (st_delay (fire_timer t1 s)); try (rewrite fire_timer_drain; exact Ed).
        rewrite fire_timer_drain. simpl. rewrite fire_timer_drain. exact Ed. }
      specialize (Hbt Hn). lia.
    + destruct Hin as [Heq|Hin]; [discriminate|].
      destruct (IH (step delay s (t1, EvParentCancel)) t1 te Hr Hin) as [b [Hb Hbt]]. exists b. split; [exact Hb|].
      intros _. assert (Hn : st_drain (step delay s (t1, EvParentCancel)) = None).
      { unfold step. simpl. rewrite cancel_ctx_drain, fire_timer_drain. exact Ed. }
      specialize (Hbt Hn). lia.
    + destruct Hin as [Heq|Hin]; [discriminate|].
      destruct (IH (step delay s (t1, EvResult id)) t1 te Hr Hin) as [b [Hb Hbt]]. exists b. split; [exact Hb|].
      intros _. assert (Hn : st_drain (step delay s (t1, EvResult id)) = None).
      { unfold step. simpl. destruct (st_logger (fire_timer t1 s)); simpl; rewrite fire_timer_drain; exact Ed. }
      specialize (Hbt Hn). lia.
    + destruct Hin as [Heq|Hin]; [discriminate|].
      destruct (IH (step delay s (t1, EvResultsClosed)) t1 te Hr Hin) as [b [Hb Hbt]]. exists b. split; [exact Hb|].
      intros _. assert (Hn : st_drain (step delay s (t1, EvResultsClosed)) = None).
      { unfold step. simpl. destruct (st_logger (fire_timer t1 s)); simpl; rewrite fire_timer_drain; exact Ed. }
      specialize (Hbt Hn). lia.
    + destruct Hin as [Heq|Hin]; [discriminate|].
      destruct (IH (step delay s (t1, EvErr id)) t1 te Hr Hin) as [b [Hb Hbt]]. exists b. split; [exact Hb|].
      intros _. assert (Hn : st_drain (step delay s (t1, EvErr id)) = None).
      { unfold step. simpl. rewrite fire_timer_drain, Ed. reflexivity. }
      specialize (Hbt Hn). lia.
    + (* the first close *)
      assert (Hn : st_drain (step delay s (t1, EvErrcClosed)) = Some t1).
      { unfold step. simpl. rewrite fire_timer_drain, Ed. reflexivity. }
      exists t1. split; [apply run_from_drain_stays; exact Hn|]. intros _. lia.
Qed.

(* ---------------------------------------------------------------- the context is eventually cancelled *)
Lemma step_ctx_keeps : forall delay s te, st_ctx s <> None -> st_ctx (step delay s te) <> None.
Proof.
  intros delay s [t e] H. unfold step. simpl fst. simpl snd.
  pose proof (fire_timer_ctx_keeps t s H) as H1. set (s1 := fire_timer t s) in *. destruct e; simpl.
  - destruct (st_delay s1); try exact H1. apply fire_timer_ctx_keeps. simpl. exact H1.
  - apply cancel_ctx_some.
  - destruct (st_logger s1); [exact H1|]. simpl. exact H1.
  - destruct (st_logger s1); [exact H1|]. simpl. exact H1.
  - destruct (st_drain s1); [exact H1|]. simpl. exact H1.
  - destruct (st_drain s1); [exact H1|]. simpl. exact H1.
Qed.

Lemma run_from_ctx_keeps : forall delay evs s, st_ctx s <> None -> st_ctx (run_from delay s evs) <> None.
Proof.
  intros delay evs. induction evs as [|te r IH]; intros s H; [exact H|].
  unfold run_from. simpl. apply IH. apply step_ctx_keeps. exact H.
Qed.

Lemma run_from_parent : forall delay evs s p, In (p, EvParentCancel) evs -> st_ctx (run_from delay s evs) <> None.
Proof.
  intros delay evs. induction evs as [|te r IH]; intros s p Hin; [contradiction|].
  unfold run_from. simpl. destruct Hin as [Heq|Hin].
  - subst te. apply run_from_ctx_keeps. unfold step. simpl. apply cancel_ctx_some.
  - eapply IH. exact Hin.
Qed.

Lemma step_not_waiting : forall delay s te, st_delay s <> DWaitDone -> st_delay (step delay s te) <> DWaitDone.
Proof.
  intros delay s [t e] H. unfold step. simpl fst. simpl snd.
  pose proof (fire_timer_not_waiting t s H) as H1. set (s1 := fire_timer t s) in *. destruct e; simpl.
  - destruct (st_delay s1) eqn:E; try (rewrite E; discriminate). congruence.
  - rewrite cancel_ctx_delay. exact H1.
  - destruct (st_logger s1); [exact H1|]. simpl. exact H1.
  - destruct (st_logger s1); [exact H1|]. simpl. exact H1.
  - destruct (st_drain s1); [exact H1|]. simpl. exact H1.
  - destruct (st_drain s1); [exact H1|]. simpl. exact H1.
Qed.

Lemma run_from_not_waiting : forall delay evs s, st_delay s <> DWaitDone -> st_delay (run_from delay s evs) <> DWaitDone.
Proof.
  intros delay evs. induction evs as [|te r IH]; intros s H; [exact H|].
  unfold run_from. simpl. apply IH. apply step_not_waiting. exact H.
Qed.

Lemma run_from_done : forall delay evs s d, In (d, EvDone) evs -> st_delay (run_from delay s evs) <> DWaitDone.
Proof.
  intros delay evs. induction evs as [|te r IH]; intros s d Hin; [contradiction|].
  unfold run_from. simpl. destruct Hin as [Heq|Hin].
  - subst te. apply run_from_not_waiting. unfold step. simpl.
    destruct (st_delay (fire_timer d s)) eqn:E; try (rewrite E; discriminate).
    apply fire_timer_not_waiting. simpl. discriminate.
  - eapply IH. exact Hin.
Qed.

Lemma settle_ctx : forall delay all s t, inv delay all s t -> st_delay s <> DWaitDone -> st_ctx (settle s) <> None.
Proof.
  intros delay all s t Hi H. unfold settle. destruct (st_delay s) as [|dl|] eqn:E; [congruence| |].
  - unfold fire_timer. rewrite E. rewrite Z.leb_refl. simpl. apply cancel_ctx_some.
  - apply (i_exited delay all s t Hi E).
Qed.

Lemma settle_ctx_keeps : forall s, st_ctx s <> None -> st_ctx (settle s) <> None.
Proof. intros s H. unfold settle. destruct (st_delay s); try exact H. apply fire_timer_ctx_keeps. exact H. Qed.

(* ---------------------------------------------------------------- the four results *)

(* the delay goroutine calls cancel() exactly exitDelay (or 0 if negative) after a close of done *)
Theorem internal_cancel_not_before : forall delay evs c, sorted evs ->
  st_internal (run delay evs) = Some c ->
  exists d, In (d, EvDone) evs /\ c = d + Z.max delay 0 /\ d + delay <= c.
Proof.
  intros delay evs c Hs H. destruct (inv_run delay evs Hs) as [t Hi].
  destruct (i_internal delay evs _ t Hi c H) as [[d [Hd He]] _]. exists d. repeat split; auto. lia.
Qed.

(* the derived context is cancelled only by the caller or exitDelay after done *)
Theorem ctx_cancel_explained : forall delay evs c, sorted evs ->
  st_ctx (run delay evs) = Some c ->
  (exists d, In (d, EvDone) evs /\ d + delay <= c) \/ (exists p, In (p, EvParentCancel) evs /\ p <= c).
Proof.
  intros delay evs c Hs H. destruct (inv_run delay evs Hs) as [t Hi].
  destruct (i_ctx delay evs _ t Hi c H) as [He _]. exact He.
Qed.

(* the call does not return before done + exitDelay, unless the caller cancels, provided the engine
   closes Results() only after the context it runs under has been cancelled *)
Theorem return_not_before : forall delay evs r, sorted evs ->
  (forall q, In (q, EvResultsClosed) evs ->
     (exists d, In (d, EvDone) evs /\ d + delay <= q) \/ (exists p, In (p, EvParentCancel) evs /\ p <= q)) ->
  return_time (run delay evs) = Some r ->
  (exists d, In (d, EvDone) evs /\ d + delay <= r) \/ (exists p, In (p, EvParentCancel) evs /\ p <= r).
Proof.
  intros delay evs r Hs Hres H. destruct (inv_run delay evs Hs) as [t Hi].
  unfold return_time in H. destruct (st_logger (run delay evs)) as [a|] eqn:El; [|discriminate].
  destruct (st_drain (run delay evs)) as [b|]; [|discriminate]. injection H as <-.
  destruct (i_logger delay evs _ t Hi a El) as [_ [He|Hq]].
  - destruct He as [[d [Hd Hl]]|[p [Hp Hl]]]; [left; exists d|right; exists p]; split; auto; lia.
  - destruct (Hres a Hq) as [[d [Hd Hl]]|[p [Hp Hl]]]; [left; exists d|right; exists p]; split; auto; lia.
Qed.

(* once done is closed (or the caller cancels) and the engine closes errc, the call returns, no later
   than the later of the context cancellation and that close *)
Theorem then_exits : forall delay evs te, sorted evs ->
  (exists d, In (d, EvDone) evs) \/ (exists p, In (p, EvParentCancel) evs) ->
  In (te, EvErrcClosed) evs ->
  exists c r, st_ctx (run delay evs) = Some c /\ return_time (run delay evs) = Some r /\ r <= Z.max c te.
Proof.
  intros delay evs te Hs Hcause Herr. destruct (inv_run delay evs Hs) as [t Hi].
  destruct (sorted_sorted_from evs Hs) as [t0 Hs0].
  assert (Hctx : st_ctx (run delay evs) <> None).
  { unfold run. destruct Hcause as [[d Hd]|[p Hp]].
    - destruct (inv_run_from delay evs evs init t0 (inv_init delay evs t0) Hs0 (fun x H => H)) as [t1 [_ Hi1]].
      apply (settle_ctx delay evs _ t1 Hi1). apply (run_from_done delay evs init d Hd).
    - apply settle_ctx_keeps. apply (run_from_parent delay evs init p Hp). }
  destruct (st_ctx (run delay evs)) as [c|] eqn:Ec; [|congruence].
  destruct (i_ctx delay evs _ t Hi c Ec) as [_ [_ [a [Ha Hac]]]].
  destruct (drain_first delay evs init t0 te Hs0 Herr) as [b [Hb Hbt]].
  specialize (Hbt eq_refl).
  exists c. exists (Z.max a b). split; [reflexivity|]. split.
  - unfold return_time. rewrite Ha. unfold run. rewrite settle_drain, Hb. reflexivity.
  - lia.
Qed.

(* a result the engine delivers before done + exitDelay (and before any caller cancellation or close
   of Results()) is written by the logger *)
Lemma late_core : forall delay all t id evs s t0,
  (forall a, Expl delay all a \/ ResClosedAt all a -> t < a) ->
  inv delay all s t0 -> sorted_from t0 evs -> (forall x, In x evs -> In x all) ->
  In (t, EvResult id) evs -> In id (st_written (run_from delay s evs)).
Proof.
  intros delay all t id evs. induction evs as [|[t1 e1] r IH]; intros s t0 Hlate Hi Hs Hsub Hin; [contradiction|].
  simpl in Hs. destruct Hs as [Hle Hr]. unfold run_from. simpl.
  assert (Hall : In (t1, e1) all) by (apply Hsub; left; reflexivity).
  destruct Hin as [Heq|Hin].
  - injection Heq as -> ->. apply run_from_written_mono. unfold step. simpl.
    pose proof (inv_fire delay all s t0 t Hi Hle) as Hf.
    destruct (st_logger (fire_timer t s)) as [a|] eqn:El.
    + exfalso. destruct (i_logger delay all _ t Hf a El) as [Hat Hex]. specialize (Hlate a Hex). lia.
    + simpl. left. reflexivity.
  - apply (IH _ t1 Hlate (inv_step delay all s t0 t1 e1 Hi Hle Hall) Hr (fun x Hx => Hsub x (or_intror Hx)) Hin).
Qed.

Theorem late_reply_reported : forall delay evs t id, sorted evs ->
  In (t, EvResult id) evs ->
  (forall d, In (d, EvDone) evs -> t < d + delay) ->
  (forall p, In (p, EvParentCancel) evs -> t < p) ->
  (forall q, In (q, EvResultsClosed) evs -> t < q) ->
  In id (written (run delay evs)).
Proof.
  intros delay evs t id Hs Hin Hd Hp Hq. destruct (sorted_sorted_from evs Hs) as [t0 Hs0].
  unfold written, run. rewrite <- in_rev, settle_written.
  apply (late_core delay evs t id evs init t0); auto.
  - intros a [[[d [Hda Hl]]|[p [Hpa Hl]]]|Hqa].
    + specialize (Hd d Hda). lia.
    + specialize (Hp p Hpa). lia.
    + exact (Hq a Hqa).
  - apply inv_init.
Qed.

(* nothing is written that the engine did not deliver, and nothing twice: the written ids are a
   subsequence of the delivered ones *)
Fixpoint result_ids (evs : list tev) : list Z :=
  match evs with
  | [] => []
  | (_, EvResult id) :: r => id :: result_ids r
  | _ :: r => result_ids r
  end.

Inductive subseq {A} : list A -> list A -> Prop :=
| sub_nil : forall l, subseq [] l
| sub_take : forall x a l, subseq a l -> subseq (x :: a) (x :: l)
| sub_skip : forall x a l, subseq a l -> subseq a (x :: l).

Lemma subseq_refl : forall A (l : list A), subseq l l.
Proof. induction l; constructor; auto. Qed.

Lemma written_subseq_core : forall delay evs s,
  exists w, st_written (run_from delay s evs) = rev w ++ st_written s /\ subseq w (result_ids evs).
Proof.
  intros delay evs. induction evs as [|[t e] r IH]; intros s.
  - exists []. split; [reflexivity|constructor].
  - unfold run_from. simpl. destruct (IH (step delay s (t, e))) as [w [Hw Hs]].
    fold (run_from delay (step delay s (t, e)) r). rewrite Hw.
    assert (Hcase : st_written (step delay s (t, e)) = st_written s \/
                    exists id, e = EvResult id /\ st_written (step delay s (t, e)) = id :: st_written s).
    { unfold step. simpl. set (s1 := fire_timer t s).
      assert (E1 : st_written s1 = st_written s) by apply fire_timer_written.
      destruct e; simpl.
      - left. destruct (st_delay s1); try exact E1. rewrite fire_timer_written. simpl. exact E1.
      - left. rewrite cancel_ctx_written. exact E1.
      - destruct (st_logger s1); [left; exact E1|]. right. exists id. simpl. rewrite E1. auto.
      - left. destruct (st_logger s1); [exact E1|]. simpl. exact E1.
      - left. destruct (st_drain s1); [exact E1|]. simpl. exact E1.
      - left. destruct (st_drain s1); [exact E1|]. simpl. exact E1. }
    destruct Hcase as [Hc|[id [He Hc]]].
    + rewrite Hc. exists w. split; [reflexivity|]. destruct e; simpl; try exact Hs. constructor. exact Hs.
    + subst e. rewrite Hc. exists (id :: w). split.
      * simpl. rewrite <- app_assoc. reflexivity.
      * simpl. constructor. exact Hs.
Qed.

Theorem written_faithful : forall delay evs, subseq (written (run delay evs)) (result_ids evs).
Proof.
  intros delay evs. unfold written, run. rewrite settle_written.
  destruct (written_subseq_core delay evs init) as [w [Hw Hs]]. rewrite Hw. simpl.
  rewrite app_nil_r, rev_involutive. exact Hs.
Qed.

(* a reply that is on the wire at w and handed over to the receiver within lat of that (so that it
   is delivered as a result at some t in [w, w + lat]) is written, provided w + lat is still before
   done + exitDelay, any caller cancellation and any close of Results() *)
Theorem late_reply_on_wire : forall delay evs w lat t id, sorted evs ->
  In (t, EvResult id) evs -> w <= t <= w + lat ->
  (forall d, In (d, EvDone) evs -> w + lat < d + delay) ->
  (forall p, In (p, EvParentCancel) evs -> w + lat < p) ->
  (forall q, In (q, EvResultsClosed) evs -> w + lat < q) ->
  In id (written (run delay evs)).
Proof.
  intros delay evs w lat t id Hs Hin Ht Hd Hp Hq.
  apply (late_reply_reported delay evs t id Hs Hin).
  - intros d H. specialize (Hd d H). lia.
  - intros p H. specialize (Hp p H). lia.
  - intros q H. specialize (Hq q H). lia.
Qed.
