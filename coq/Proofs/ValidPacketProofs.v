(* The validity test translated from the current sources (Gen/ValidPacket.v) against the
   exact-header-chain test:
     [code_valid_sound]    whatever it accepts is the exact chain of the scanned protocol (ARP: with
                           address sizes 6/4)                                   -- needed by C06;
     [code_valid_respects] it reads only structs of layers that were decoded    -- needed by C06;
     [code_valid_complete] it accepts everything [valid_fixed] accepts           -- needed by C03.
   The proofs are case analyses that do not depend on how the Go predicate is written (if-chains,
   && / || order, helper functions, redundant conjuncts): they break exactly when the predicate
   accepts a different set of (decoded layers, ARP sizes). *)
From Coq Require Import ZArith List Bool Lia.
From SX Require Import Base.Bytes Model.Decode Model.Process Gen.ValidPacket Spec.C06
  Proofs.DecodeProofs Proofs.ProcessProofs.
Import ListNotations.
Open Scope Z_scope.

(* the exact chain without the (redundant) length test on the sender MAC *)
Definition valid_min (k : kind) : validity := fun dec st =>
  match k with
  | KArp => ltypes_eqb dec [LEth; LARP] && (ar_hw (s_arp st) =? 6) && (ar_pr (s_arp st) =? 4)
  | _ => ltypes_eqb dec [LEth; LIPv4; transport k] || ltypes_eqb dec [LIPv4; transport k]
  end.

Lemma valid_min_sound k : valid_sound k (valid_min k).
Proof.
  intros dec st H. destruct k; cbn in H |- *.
  - apply orb_true_iff in H. destruct H as [H|H]; apply ltypes_eqb_eq in H; auto.
  - apply orb_true_iff in H. destruct H as [H|H]; apply ltypes_eqb_eq in H; auto.
  - repeat (apply andb_true_iff in H; destruct H as [H ?]).
    apply ltypes_eqb_eq in H. repeat split; try assumption; apply Z.eqb_eq; assumption.
Qed.

Ltac atoms st :=
  destruct (ar_hw (s_arp st) =? 6), (ar_pr (s_arp st) =? 4), (3 <=? Zlength (ar_sha (s_arp st))).

(* split [dec] into the lists of length 0..3 with concrete elements and the lists of length >= 4,
   for which every test "Zlength dec =? n" of the predicate is decided by arithmetic *)
Ltac mentions r e n :=
  lazymatch e with
  | context [Zlength r] => idtac
  | _ => lazymatch n with context [Zlength r] => idtac end
  end.

Ltac decide_lengths r :=
  repeat match goal with
         | |- context [?e =? ?n] => mentions r e n; destruct (Z.eqb_spec e n); try lia
         | |- context [?e <? ?n] => mentions r e n; destruct (Z.ltb_spec e n); try lia
         | |- context [?e <=? ?n] => mentions r e n; destruct (Z.leb_spec e n); try lia
         | H : context [?e =? ?n] |- _ => mentions r e n; destruct (Z.eqb_spec e n); try lia
         | H : context [?e <? ?n] |- _ => mentions r e n; destruct (Z.ltb_spec e n); try lia
         | H : context [?e <=? ?n] |- _ => mentions r e n; destruct (Z.leb_spec e n); try lia
         end.

Ltac by_shape dec tac :=
  let x := fresh "lx" in let y := fresh "ly" in let z := fresh "lz" in let w := fresh "lw" in
  let r := fresh "lrest" in
  destruct dec as [|x [|y [|z [|w r]]]];
  [ tac
  | destruct x; tac
  | destruct x, y; tac
  | destruct x, y, z; tac
  | rewrite ?Zlength_cons in *;
    assert (0 <= Zlength r) by (rewrite Zlength_correct; apply Nat2Z.is_nonneg);
    decide_lengths r;
    destruct x, y, z; tac ].

Lemma code_valid_min k dec st : code_valid k dec st = true -> valid_min k dec st = true.
Proof.
  destruct k as [sa af| |]; unfold code_valid, valid_min, tcp_valid_packet, icmp_valid_packet,
    arp_valid_packet, transport; rewrite ?negb_involutive; intros H;
  by_shape dec ltac:(cbn in H |- *; try reflexivity; try discriminate;
                     atoms st; cbn in H |- *; try reflexivity; try discriminate).
Qed.

Lemma code_valid_complete k dec st : valid_fixed k dec st = true -> code_valid k dec st = true.
Proof.
  destruct k as [sa af| |]; unfold code_valid, valid_fixed, tcp_valid_packet, icmp_valid_packet,
    arp_valid_packet, transport; rewrite ?negb_involutive; intros H;
  by_shape dec ltac:(cbn in H |- *; try reflexivity; try discriminate;
                     atoms st; cbn in H |- *; try reflexivity; try discriminate).
Qed.

Lemma code_valid_sound k : valid_sound k (code_valid k).
Proof. intros dec st H. exact (valid_min_sound k dec st (code_valid_min k dec st H)). Qed.

Lemma code_valid_respects k : valid_respects (code_valid k).
Proof.
  intros dec a b Hag.
  destruct k as [sa af| |]; unfold code_valid, tcp_valid_packet, icmp_valid_packet, arp_valid_packet;
    rewrite ?negb_involutive;
  by_shape dec ltac:(cbn; try reflexivity;
                     try (assert (s_arp a = s_arp b) as -> by (apply (Hag LARP); cbn; auto 6));
                     try reflexivity;
                     atoms a; atoms b; reflexivity).
Qed.

(* the decoders of each parser and IgnoreUnsupported are the ones the model assumes *)
Lemma code_decoders_ok k t : has_dec k t = existsb (ltype_eqb t) (code_decoders k).
Proof. destruct k, t; reflexivity. Qed.

Lemma code_ignore_unsupported_ok : code_ignore_unsupported = true.
Proof. reflexivity. Qed.
