(* C08, third part: when the engine signals completion (done closed, nothing cancelled) the Scan calls
   made are, as a LIST up to permutation, exactly the requests that carried no error -- each once,
   nothing else.  (The multiset statements of AppEngineOrder.v packaged for composition with the
   request generators of C01.) *)
From stdpp Require Import gmultiset list sets.
From SX Require Import Base.Net Model.AppEngine Proofs.AppEngineProofs Proofs.AppEngineOrder Proofs.PipelineWire.

Definition scan_id (e : ev) : option nat := match e with EScan id => Some id | _ => None end.
(* the ids of the requests handed to Scanner.Scan, in call order *)
Definition scan_list (n : net val loc ev) : list nat := omap scan_id (log n).

Lemma scans_of_list n : scans_of n = list_to_set_disj (scan_list n).
Proof.
  unfold scans_of, scan_list. induction (log n) as [|e l IH]; simpl; [reflexivity|].
  rewrite IH. destruct e as [id|id|v|v]; simpl; try multiset_solver.
Qed.

Lemma scan_list_elem n id : id ∈ scan_list n <-> EScan id ∈ log n.
Proof.
  unfold scan_list. rewrite elem_of_list_omap. split.
  - intros (e & He & Hw). destruct e as [i|i|v|v]; simpl in Hw; try discriminate.
    injection Hw as ->. exact He.
  - intros He. exists (EScan id). split; [exact He|reflexivity].
Qed.

Section scans.
Variable W : nat.
Variable scan_out : nat -> scan_res.
Variable reqs : list (nat * bool).
Hypothesis Hnodup : NoDup (fst <$> reqs).
Notation beh := (beh W scan_out).

Definition good_list : list nat := fst <$> filter (fun r => snd r = false) reqs.

Lemma good_elem id : id ∈ good_list <-> has reqs id false.
Proof.
  unfold good_list, has. rewrite elem_of_list_fmap. split.
  - intros ([i b] & -> & Hin). apply elem_of_list_filter in Hin as [Hs Hin]. simpl in *. subst b. exact Hin.
  - intros Hin. exists (id, false). split; [reflexivity|]. apply elem_of_list_filter. split; [reflexivity|exact Hin].
Qed.

Lemma good_NoDup : NoDup good_list.
Proof.
  unfold good_list. clear -Hnodup. induction reqs as [|[i b] l IH]; [constructor|].
  rewrite fmap_cons in Hnodup. apply NoDup_cons in Hnodup as [Hni Hl]. specialize (IH Hl).
  rewrite filter_cons. destruct (decide (snd (i, b) = false)) as [Hs|Hs]; [|exact IH].
  rewrite fmap_cons. apply NoDup_cons. split; [|exact IH].
  intros Hin. apply Hni. apply elem_of_list_fmap in Hin as (r & Hr & Hin). apply elem_of_list_filter in Hin as [_ Hin].
  apply elem_of_list_fmap. exists r. auto.
Qed.

Theorem engine_scans_exact cap n :
  0 < W -> reachable beh (init W cap reqs) n -> cancelled n = false -> chan_closed n c_done ->
  scan_list n ≡ₚ good_list.
Proof.
  intros HW Hr Hc Hd.
  assert (Hfate : forall id, id ∈ scan_list n -> has reqs id false).
  { intros id Hin. apply scan_list_elem in Hin.
    destruct (engine_typed W scan_out reqs cap n Hr) as [[_ Hlog] _].
    rewrite Forall_forall in Hlog. exact (Hlog _ Hin). }
  assert (Hone : forall id, has reqs id false ->
                 multiplicity id (list_to_set_disj (scan_list n) : gmultiset nat) = 1).
  { intros id Hh. rewrite <- scans_of_list. exact (engine_probe_once W scan_out reqs Hnodup cap n id HW Hr Hc Hd Hh). }
  apply NoDup_Permutation.
  - apply mult1_NoDup. intros x Hx. apply Hone. apply Hfate. exact Hx.
  - apply good_NoDup.
  - intros x. rewrite good_elem. split; [apply Hfate|].
    intros Hh. apply (elem_of_list_to_set_disj (A := nat)). apply elem_of_multiplicity.
    rewrite (Hone _ Hh). lia.
Qed.

End scans.

(* ---- the same for the error records: once completion is signalled and the error stream is drained, the
   ids logged by the error drain are exactly the requests that carried an error or whose probe failed ---- *)
Definition errlog_id (e : ev) : option nat := match e with EErrLog (VErr id) => Some id | _ => None end.
Definition errlog_list (n : net val loc ev) : list nat := omap errlog_id (log n).

Lemma errlog_list_elem n id : id ∈ errlog_list n <-> EErrLog (VErr id) ∈ log n.
Proof.
  unfold errlog_list. rewrite elem_of_list_omap. split.
  - intros (e & He & Hw). destruct e as [i|i|v|v]; simpl in Hw; try discriminate.
    destruct v; try discriminate. injection Hw as ->. exact He.
  - intros He. exists (EErrLog (VErr id)). split; [exact He|reflexivity].
Qed.

Lemma errlog_of_list scan_out reqs n :
  Forall (PE scan_out reqs) (log n) -> errlog_of n = list_to_set_disj (errlog_list n).
Proof.
  unfold errlog_of, errlog_list. induction (log n) as [|e l IH]; intros H; simpl; [reflexivity|].
  apply Forall_cons in H as [He Hl]. rewrite (IH Hl).
  destruct e as [id|id|v|v]; simpl; try multiset_solver.
  destruct He as (i & -> & _). simpl. multiset_solver.
Qed.

Section errors.
Variable W : nat.
Variable scan_out : nat -> scan_res.
Variable reqs : list (nat * bool).
Hypothesis Hnodup : NoDup (fst <$> reqs).
Notation beh := (beh W scan_out).

Definition failed_b (r : nat * bool) : bool :=
  r.2 || match scan_out r.1 with SFail => true | _ => false end.
Definition failed_list : list nat := fst <$> filter (fun r => failed_b r = true) reqs.

Lemma failed_elem id : id ∈ failed_list <-> errfate scan_out reqs id.
Proof.
  unfold failed_list, errfate, has, failed_b. rewrite elem_of_list_fmap. split.
  - intros ([i b] & -> & Hin). apply elem_of_list_filter in Hin as [Hs Hin]. simpl in *.
    destruct b; [left; exact Hin|]. simpl in Hs. right. split; [exact Hin|].
    destruct (scan_out i); try discriminate; reflexivity.
  - intros [Hin | [Hin Hf]].
    + exists (id, true). split; [reflexivity|]. apply elem_of_list_filter. split; [reflexivity|exact Hin].
    + exists (id, false). split; [reflexivity|]. apply elem_of_list_filter. split; [|exact Hin]. simpl. rewrite Hf. reflexivity.
Qed.

Lemma failed_NoDup : NoDup failed_list.
Proof.
  unfold failed_list. clear -Hnodup. induction reqs as [|[i b] l IH]; [constructor|].
  rewrite fmap_cons in Hnodup. apply NoDup_cons in Hnodup as [Hni Hl]. specialize (IH Hl).
  rewrite filter_cons. destruct (decide (failed_b (i, b) = true)) as [Hs|Hs]; [|exact IH].
  rewrite fmap_cons. apply NoDup_cons. split; [|exact IH].
  intros Hin. apply Hni. apply elem_of_list_fmap in Hin as (r & Hr & Hin). apply elem_of_list_filter in Hin as [_ Hin].
  apply elem_of_list_fmap. exists r. auto.
Qed.

Theorem engine_errors_exact cap n :
  0 < W -> reachable beh (init W cap reqs) n -> cancelled n = false -> chan_closed n c_done ->
  (forall ch, chans n !! c_errc = Some ch -> cbuf ch = []) ->
  (forall j l, procs n !! j = Some l -> role_of l = RDrain -> weight l = ∅) ->
  errlog_list n ≡ₚ failed_list.
Proof.
  intros HW Hr Hc Hd Herrc Hidle.
  destruct (engine_typed W scan_out reqs cap n Hr) as [[_ Hlog] _].
  assert (Hfate : forall id, id ∈ errlog_list n -> errfate scan_out reqs id).
  { intros id Hin. apply errlog_list_elem in Hin. rewrite Forall_forall in Hlog.
    destruct (Hlog _ Hin) as (i & Hv & He). injection Hv as ->. exact He. }
  assert (Hone : forall id, errfate scan_out reqs id ->
                 multiplicity id (list_to_set_disj (errlog_list n) : gmultiset nat) = 1).
  { intros id He. rewrite <- (errlog_of_list scan_out reqs n Hlog).
    exact (proj1 (engine_errors_once W scan_out reqs Hnodup cap n id HW Hr Hc Hd Herrc Hidle He)). }
  apply NoDup_Permutation.
  - apply mult1_NoDup. intros x Hx. apply Hone. apply Hfate. exact Hx.
  - apply failed_NoDup.
  - intros x. rewrite failed_elem. split; [apply Hfate|].
    intros He. apply (elem_of_list_to_set_disj (A := nat)). apply elem_of_multiplicity.
    rewrite (Hone _ He). lia.
Qed.

End errors.
