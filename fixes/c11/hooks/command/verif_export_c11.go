//go:build verif

package command

import (
	"net"

	"github.com/v-byte-cpu/sx/pkg/scan/arp"
)

// VerifGetGatewayMAC runs the unexported ipScanCmdOpts.getGatewayMAC with the given --gwmac value
// (nil = flag absent), interface and ARP cache. Read-only accessor for the verification harness.
func VerifGetGatewayMAC(flag net.HardwareAddr, iface *net.Interface, cache *arp.Cache) (net.HardwareAddr, error) {
	o := &ipScanCmdOpts{gatewayMAC: flag}
	return o.getGatewayMAC(iface, cache)
}
