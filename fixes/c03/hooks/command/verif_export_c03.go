//go:build verif

package command

import (
	"context"
	"time"

	"github.com/v-byte-cpu/sx/command/log"
	"github.com/v-byte-cpu/sx/pkg/scan"
)

// VerifC03StartPacketScan runs the real startPortScanEngine / startPacketScanEngine (packet source on the
// interface of the range, capture filter as the engine installs it, sender, receiver, result logging,
// exit delay) for a scan method, filter builder and logger supplied by the verification harness
// (built only with -tags verif).
func VerifC03StartPacketScan(ctx context.Context, chunked bool, r *scan.Range, vpnMode bool,
	bpfFilter func(r *scan.Range) (filter string, maxPacketLength int), m scan.PacketMethod,
	logger log.Logger, exitDelay time.Duration) error {
	conf := newPacketScanConfig(
		withPacketScanMethod(m),
		withPacketBPFFilter(bpfFilter),
		withPacketVPNmode(vpnMode),
		withPacketEngineConfig(newEngineConfig(
			withLogger(logger),
			withScanRange(r),
			withExitDelay(exitDelay),
		)),
	)
	if chunked {
		return startPortScanEngine(ctx, conf)
	}
	return startPacketScanEngine(ctx, conf)
}
