//go:build verif

package command

import (
	"context"
	"time"

	"github.com/v-byte-cpu/sx/command/log"
	"github.com/v-byte-cpu/sx/pkg/scan"
)

// Hook for the verification harness of property C16 (exit delay); built only with -tags verif.

// VerifC16StartScanEngine calls the unexported startScanEngine with a caller-supplied engine and
// logger; the configuration is assembled by the same option setters the commands use
// (newEngineConfig, withLogger, withScanRange, withExitDelay).
func VerifC16StartScanEngine(ctx context.Context, engine scan.EngineResulter, logger log.Logger,
	exitDelay time.Duration) error {
	return startScanEngine(ctx, engine, newEngineConfig(
		withLogger(logger),
		withScanRange(&scan.Range{}),
		withExitDelay(exitDelay),
	))
}

// VerifC16DefaultExitDelay returns the exit delay of a configuration built without withExitDelay.
func VerifC16DefaultExitDelay() time.Duration {
	return newEngineConfig().exitDelay
}
