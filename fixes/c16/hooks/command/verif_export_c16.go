//go:build verif

package command

import (
	"context"
	"errors"
	"time"

	"github.com/v-byte-cpu/sx/command/log"
	"github.com/v-byte-cpu/sx/pkg/scan"
)

// Hook for the verification harness of property C16 (exit delay); built only with -tags verif.

// VerifC16StartScanEngine calls the unexported startScanEngine with a caller-supplied engine and
// logger; the configuration is assembled by the same option setters the commands use
// (newEngineConfig, withLogger, withScanRange, withExitDelay).
func VerifC16StartScanEngine(ctx context.Context, engine scan.EngineResulter, logger log.Logger,
	exitDelay time.Duration) error {
	return startScanEngine(ctx, engine, newEngineConfig(
		withLogger(logger),
		withScanRange(&scan.Range{}),
		withExitDelay(exitDelay),
	))
}

// VerifC16DefaultExitDelay returns the exit delay of a configuration built without withExitDelay.
func VerifC16DefaultExitDelay() time.Duration {
	return newEngineConfig().exitDelay
}

// VerifC16Commands lists the scan commands VerifC16ParsedExitDelay knows.
var VerifC16Commands = []string{"arp", "icmp", "tcp", "tcp syn", "tcp fin", "tcp null", "tcp xmas", "udp",
	"socks", "docker", "elastic"}

// VerifC16ParsedExitDelay does what a command's RunE does with its options up to the point where
// the engine configuration is built: the command's own flag set parses args, parseRawOptions runs,
// and the value that the command then hands to withExitDelay (<opts>.exitDelay) is returned.
func VerifC16ParsedExitDelay(name string, args []string) (time.Duration, error) {
	type parsed struct {
		flags func([]string) error
		raw   func() error
		delay func() time.Duration
	}
	var p parsed
	switch name {
	case "arp":
		c := newARPCmd()
		p = parsed{c.cmd.ParseFlags, c.opts.parseRawOptions, func() time.Duration { return c.opts.exitDelay }}
	case "icmp":
		c := newICMPCmd()
		p = parsed{c.cmd.ParseFlags, c.opts.parseRawOptions, func() time.Duration { return c.opts.exitDelay }}
	case "tcp":
		c := newTCPFlagsCmd()
		p = parsed{c.cmd.ParseFlags, c.opts.parseRawOptions, func() time.Duration { return c.opts.exitDelay }}
	case "tcp syn":
		c := newTCPSYNCmd()
		p = parsed{c.cmd.ParseFlags, c.opts.parseRawOptions, func() time.Duration { return c.opts.exitDelay }}
	case "tcp fin":
		c := newTCPFINCmd()
		p = parsed{c.cmd.ParseFlags, c.opts.parseRawOptions, func() time.Duration { return c.opts.exitDelay }}
	case "tcp null":
		c := newTCPNULLCmd()
		p = parsed{c.cmd.ParseFlags, c.opts.parseRawOptions, func() time.Duration { return c.opts.exitDelay }}
	case "tcp xmas":
		c := newTCPXmasCmd()
		p = parsed{c.cmd.ParseFlags, c.opts.parseRawOptions, func() time.Duration { return c.opts.exitDelay }}
	case "udp":
		c := newUDPCmd()
		p = parsed{c.cmd.ParseFlags, c.opts.parseRawOptions, func() time.Duration { return c.opts.exitDelay }}
	case "socks":
		c := newSocksCmd()
		p = parsed{c.cmd.ParseFlags, c.opts.parseRawOptions, func() time.Duration { return c.opts.exitDelay }}
	case "docker":
		c := newDockerCmd()
		p = parsed{c.cmd.ParseFlags, c.opts.parseRawOptions, func() time.Duration { return c.opts.exitDelay }}
	case "elastic":
		c := newElasticCmd()
		p = parsed{c.cmd.ParseFlags, c.opts.parseRawOptions, func() time.Duration { return c.opts.exitDelay }}
	default:
		return 0, errors.New("unknown command " + name)
	}
	if err := p.flags(args); err != nil {
		return 0, err
	}
	if err := p.raw(); err != nil {
		return 0, err
	}
	return p.delay(), nil
}
