//go:build verif

package command

import (
	"io"
	"time"

	"github.com/v-byte-cpu/sx/pkg/scan"
	"github.com/v-byte-cpu/sx/pkg/scan/tcp"
)

// Thin wrappers around the unexported option parsers for the verification harness
// (built only with -tags verif). No behaviour of its own.

func VerifC18ParsePortRange(s string) (*scan.PortRange, error) { return parsePortRange(s) }

func VerifC18ParsePortRanges(s string) ([]*scan.PortRange, error) { return parsePortRanges(s) }

func VerifC18ParsePortsFile(open func() (io.ReadCloser, error)) ([]*scan.PortRange, error) {
	return parsePortsFile(open)
}

func VerifC18ParseRateLimit(s string) (int, time.Duration, error) { return parseRateLimit(s) }

func VerifC18ParsePacketPayload(s string) ([]byte, error) { return parsePacketPayload(s) }

func VerifC18ParseIPFlags(s string) (uint8, error) { return parseIPFlags(s) }

func VerifC18ParseExcludeFile(open func() (io.ReadCloser, error)) (scan.IPContainer, error) {
	return parseExcludeFile(open)
}

func VerifC18ParseTCPFlags(s string) ([]string, error) { return parseTCPFlags(s) }

// VerifC18TCPFlagOptions maps parsed flag names to packet filler options exactly as the RunE closure
// of newTCPFlagsCmd does (one table lookup per name, in order).
func VerifC18TCPFlagOptions(flags []string) []tcp.PacketFillerOption {
	var opts []tcp.PacketFillerOption
	for _, flag := range flags {
		opts = append(opts, tcpPacketFlagOptions[flag])
	}
	return opts
}

// VerifC18TCPFlagNames returns the keys of the option table.
func VerifC18TCPFlagNames() []string {
	names := make([]string, 0, len(tcpPacketFlagOptions))
	for k := range tcpPacketFlagOptions {
		names = append(names, k)
	}
	return names
}
