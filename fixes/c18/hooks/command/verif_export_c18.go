//go:build verif

package command

import (
	"io"
	"time"

	"github.com/v-byte-cpu/sx/pkg/scan"
	"github.com/v-byte-cpu/sx/pkg/scan/tcp"
)

// Thin wrappers around the unexported option parsers for the verification harness
// (built only with -tags verif). No behaviour of its own.

func VerifParsePortRange(s string) (*scan.PortRange, error) { return parsePortRange(s) }

func VerifParsePortRanges(s string) ([]*scan.PortRange, error) { return parsePortRanges(s) }

func VerifParsePortsFile(open func() (io.ReadCloser, error)) ([]*scan.PortRange, error) {
	return parsePortsFile(open)
}

func VerifParseRateLimit(s string) (int, time.Duration, error) { return parseRateLimit(s) }

func VerifParsePacketPayload(s string) ([]byte, error) { return parsePacketPayload(s) }

func VerifParseIPFlags(s string) (uint8, error) { return parseIPFlags(s) }

func VerifParseExcludeFile(open func() (io.ReadCloser, error)) (scan.IPContainer, error) {
	return parseExcludeFile(open)
}

func VerifParseTCPFlags(s string) ([]string, error) { return parseTCPFlags(s) }

// VerifTCPFlagOptions maps parsed flag names to packet filler options exactly as the RunE closure
// of newTCPFlagsCmd does (one table lookup per name, in order).
func VerifTCPFlagOptions(flags []string) []tcp.PacketFillerOption {
	var opts []tcp.PacketFillerOption
	for _, flag := range flags {
		opts = append(opts, tcpPacketFlagOptions[flag])
	}
	return opts
}

// VerifTCPFlagNames returns the keys of the option table.
func VerifTCPFlagNames() []string {
	names := make([]string, 0, len(tcpPacketFlagOptions))
	for k := range tcpPacketFlagOptions {
		names = append(names, k)
	}
	return names
}
