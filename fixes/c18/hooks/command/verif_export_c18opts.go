//go:build verif

package command

import (
	"errors"

	"github.com/v-byte-cpu/sx/pkg/scan"
)

// Add-only hook for the verification harness (built only with -tags verif). No behaviour of its own.

// VerifC18PortCommands lists the commands that accept both -p/--ports and --ports-file.
var VerifC18PortCommands = []string{"tcp", "tcp syn", "tcp fin", "tcp null", "tcp xmas", "udp",
	"socks", "docker", "elastic"}

// VerifC18ParsedPorts does what a command's RunE does with its options up to parseRawOptions: the
// command's own flag set parses args, the command's own parseRawOptions runs, and the port ranges
// the command then scans (<opts>.portRanges) are returned.
func VerifC18ParsedPorts(name string, args []string) ([]*scan.PortRange, error) {
	type parsed struct {
		flags func([]string) error
		raw   func() error
		ports func() []*scan.PortRange
	}
	var p parsed
	switch name {
	case "tcp":
		c := newTCPFlagsCmd()
		p = parsed{c.cmd.ParseFlags, c.opts.parseRawOptions, func() []*scan.PortRange { return c.opts.portRanges }}
	case "tcp syn":
		c := newTCPSYNCmd()
		p = parsed{c.cmd.ParseFlags, c.opts.parseRawOptions, func() []*scan.PortRange { return c.opts.portRanges }}
	case "tcp fin":
		c := newTCPFINCmd()
		p = parsed{c.cmd.ParseFlags, c.opts.parseRawOptions, func() []*scan.PortRange { return c.opts.portRanges }}
	case "tcp null":
		c := newTCPNULLCmd()
		p = parsed{c.cmd.ParseFlags, c.opts.parseRawOptions, func() []*scan.PortRange { return c.opts.portRanges }}
	case "tcp xmas":
		c := newTCPXmasCmd()
		p = parsed{c.cmd.ParseFlags, c.opts.parseRawOptions, func() []*scan.PortRange { return c.opts.portRanges }}
	case "udp":
		c := newUDPCmd()
		p = parsed{c.cmd.ParseFlags, c.opts.parseRawOptions, func() []*scan.PortRange { return c.opts.portRanges }}
	case "socks":
		c := newSocksCmd()
		p = parsed{c.cmd.ParseFlags, c.opts.parseRawOptions, func() []*scan.PortRange { return c.opts.portRanges }}
	case "docker":
		c := newDockerCmd()
		p = parsed{c.cmd.ParseFlags, c.opts.parseRawOptions, func() []*scan.PortRange { return c.opts.portRanges }}
	case "elastic":
		c := newElasticCmd()
		p = parsed{c.cmd.ParseFlags, c.opts.parseRawOptions, func() []*scan.PortRange { return c.opts.portRanges }}
	default:
		return nil, errors.New("unknown command " + name)
	}
	if err := p.flags(args); err != nil {
		return nil, err
	}
	if err := p.raw(); err != nil {
		return nil, err
	}
	return p.ports(), nil
}
