//go:build verif

package command

import (
	"context"
	"time"

	"github.com/v-byte-cpu/sx/pkg/scan"
)

// Hooks for the verification harness of property C15 (rate limit); built only with -tags verif.
// They call the unexported code exactly as the commands do and add no behaviour.

// VerifC15ParseRateLimit exposes parseRateLimit.
func VerifC15ParseRateLimit(s string) (int, time.Duration, error) {
	return parseRateLimit(s)
}

// VerifC15NewGenericEngine builds the application-scan engine the way the socks/docker/elastic
// commands do: option struct filled from the raw --rate string by parseRawOptions, then
// genericScanCmdOpts.newScanEngine around the supplied scanner.
func VerifC15NewGenericEngine(ctx context.Context, rawRate string, workers int,
	scanner scan.Scanner) (scan.EngineResulter, error) {
	o := &genericScanCmdOpts{workers: workers, rawRateLimit: rawRate}
	if err := o.parseRawOptions(); err != nil {
		return nil, err
	}
	return o.newScanEngine(ctx, scanner), nil
}
