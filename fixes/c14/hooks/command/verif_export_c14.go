//go:build verif

package command

import (
	"io"
	"time"

	"github.com/v-byte-cpu/sx/command/log"
)

// Read-only accessors for the verification harness (built only with -tags verif): the loggers
// exactly as the commands construct them from their options. No behaviour of their own.

// VerifC14PacketLogger is packetScanCmdOpts.getLogger with the --json flag set as given.
func VerifC14PacketLogger(name string, w io.Writer, json bool) (log.Logger, error) {
	o := &packetScanCmdOpts{json: json}
	return o.getLogger(name, w)
}

// VerifC14GenericLogger is genericScanCmdOpts.getLogger with the --json flag set as given.
func VerifC14GenericLogger(name string, w io.Writer, json bool) (log.Logger, error) {
	o := &genericScanCmdOpts{json: json}
	return o.getLogger(name, w)
}

// VerifC14ARPLogger is arpCmdOpts.getLogger (writes to os.Stdout) with --json and --live as given.
func VerifC14ARPLogger(json bool, live time.Duration) (log.Logger, error) {
	o := &arpCmdOpts{liveTimeout: live}
	o.json = json
	return o.getLogger()
}
