//go:build verif

package command

import (
	"github.com/v-byte-cpu/sx/pkg/scan/icmp"
	"github.com/v-byte-cpu/sx/pkg/scan/tcp"
	"github.com/v-byte-cpu/sx/pkg/scan/udp"
)

// Accessors for the verification harness of the probe frame builders (built only with
// -tags verif). They run the real cobra flag definitions (names, defaults), the real raw option
// parsing and the real option plumbing, and hand back the packet filler options they produce.
// Nothing touches the network: with no --iface/--srcmac/--rate/--exclude the raw option parsers
// only parse strings.

// VerifC05ICMPFillerOptions parses argv with the flag set of `sx icmp` and returns the result of
// getICMPOptions.
func VerifC05ICMPFillerOptions(argv []string, vpnMode bool) ([]icmp.PacketFillerOption, error) {
	c := newICMPCmd()
	if err := c.cmd.Flags().Parse(argv); err != nil {
		return nil, err
	}
	if err := c.opts.parseRawOptions(); err != nil {
		return nil, err
	}
	c.opts.vpnMode = vpnMode
	return c.opts.getICMPOptions(), nil
}

// VerifC05UDPFillerOptions parses argv with the flag set of `sx udp` and returns the result of
// getUDPOptions.
func VerifC05UDPFillerOptions(argv []string, vpnMode bool) ([]udp.PacketFillerOption, error) {
	c := newUDPCmd()
	if err := c.cmd.Flags().Parse(argv); err != nil {
		return nil, err
	}
	if err := c.opts.parseRawOptions(); err != nil {
		return nil, err
	}
	c.opts.vpnMode = vpnMode
	return c.opts.getUDPOptions(), nil
}

// VerifC05TCPFlagFillerOptions parses argv with the flag set of `sx tcp` (--flags a,b,c) and maps
// the accepted flag names through tcpPacketFlagOptions, as the command does before it builds the
// scan method.
func VerifC05TCPFlagFillerOptions(argv []string) ([]tcp.PacketFillerOption, error) {
	c := newTCPFlagsCmd()
	if err := c.cmd.Flags().Parse(argv); err != nil {
		return nil, err
	}
	if err := c.opts.parseRawOptions(); err != nil {
		return nil, err
	}
	var opts []tcp.PacketFillerOption
	for _, flag := range c.opts.tcpFlags {
		opts = append(opts, tcpPacketFlagOptions[flag])
	}
	return opts, nil
}
