//go:build verif

package command

import (
	"context"

	"github.com/v-byte-cpu/sx/pkg/scan"
	"github.com/v-byte-cpu/sx/pkg/scan/tcp"
)

// VerifC06ScanMethod builds the packet scan method of a command ("arp", "icmp", "udp", "tcp") with the
// command's own constructor (newARPScanMethod, newICMPScanMethod, newUDPScanMethod, newTCPScanMethod)
// from option structs that carry the given VPN mode, and returns the whole method: the verification
// harness feeds received frames to its ProcessPacketData and reads its Results()
// (built only with -tags verif).
func VerifC06ScanMethod(ctx context.Context, cmd string, vpnMode bool) scan.PacketMethod {
	ip := ipScanCmdOpts{vpnMode: vpnMode}
	ipPort := ipPortScanCmdOpts{ipScanCmdOpts: ip}
	switch cmd {
	case "arp":
		o := arpCmdOpts{}
		return o.newARPScanMethod(ctx)
	case "icmp":
		o := icmpCmdOpts{ipScanCmdOpts: ip, ipTTL: 64, ipProtocol: 1, icmpType: 8}
		return o.newICMPScanMethod(ctx)
	case "udp":
		o := udpCmdOpts{ipPortScanCmdOpts: ipPort, ipTTL: 64, ipProtocol: 17}
		return o.newUDPScanMethod(ctx)
	case "tcp":
		o := tcpCmdOpts{ipPortScanCmdOpts: ipPort}
		return o.newTCPScanMethod(ctx,
			withTCPScanName(tcp.FlagsScanType),
			withTCPPacketFillerOptions(tcp.WithSYN()),
			withTCPPacketFilterFunc(tcp.TrueFilter),
			withTCPPacketFlags(tcp.AllFlags))
	}
	return nil
}
