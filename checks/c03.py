"""C03 -- detection exactness: a frame is reported iff it is reply-shaped."""
import hashlib
import json
import os
import re

import verif

RULE = ("plus a CLI stage: every packet-scan command line (tcp, tcp --flags <several lists incl. the lone syn>, tcp syn/fin/null/"
        "xmas, udp, icmp, arp; tcp/udp/icmp also in VPN mode on a tun device) run in-process through its real cobra RunE "
        "in the namespace, JSON stdout as observation; plus an end-to-end stage: the real startPort/PacketScanEngine on a veth pair in a private network namespace (real "
        "AF_PACKET socket, the filter the engine installs, kernel BPF), frames injected on the peer, records taken from the "
        "engine's logger; "
        "accepted frames are cut to the length the compiled program returns (the snapshot length, as the kernel does) and "
        "delivered in fresh buffers or through a ring of 1-3 reused buffers; "
        "cases = (command wiring translated from command/*.go, link mode, random scan range: subnet /1../32 or none, "
        "0-5 or 200 port ranges); per case the REAL filter builder's text is compiled by the real libpcap and run in the "
        "x/net/bpf VM on frames built relative to the range (valid replies; source just inside/outside the net; ports at "
        "range edges and just outside; every flag pattern incl. single-bit flips and NS; IP options; TCP options; payload; "
        "padding; IP and TCP option blocks swept over 0..40 bytes each; payloads up to the MTU; every ICMP type near 8; fragments; other protocols; IPv6 with and without fragment header; IP-in-IP; "
        "VLAN; truncations; malformed options); plus port specifications at the ends of the port space (1-65535, 0-65535, 2-65535, "
        "1-65534, 65535, 1, 0, alone and mixed with other ranges, parsed by the real -p parser) with replies from source port 0, 1, "
        "65535 and at / next to every range edge; accepted frames go through the REAL ProcessPacketData; evaluations = "
        "frames; non-trivial = well-formed unfragmented frame (the property's domain); distinct by (command, link, range, frame)")

CLASS = {"tcp syn": "syn", "tcp --flags": "tcp", "tcp fin": "tcp", "tcp null": "tcp", "tcp xmas": "tcp",
         "udp": "icmp", "icmp": "icmp", "arp": "arp"}
# command lines run through the real cobra RunE in the CLI stage, with the scan each one IS according to the tool's own
# documentation and the property: name, argv, frame generator (0 tcp any flags, 1 SYN+ACK centred, 2 icmp, 3 arp), takes -p,
# scan class, prints flags, scan label
CLI = [
    ("tcp", ["tcp"], 1, True, "syn", False, "tcpsyn"),
    ("tcp --flags syn", ["tcp", "--flags", "syn"], 0, True, "tcp", True, "tcpflags"),
    ("tcp --flags SYN", ["tcp", "--flags", "SYN"], 0, True, "tcp", True, "tcpflags"),
    ("tcp --flags syn,ack", ["tcp", "--flags", "syn,ack"], 0, True, "tcp", True, "tcpflags"),
    ("tcp --flags fin", ["tcp", "--flags", "fin"], 0, True, "tcp", True, "tcpflags"),
    ("tcp --flags ack,psh,urg", ["tcp", "--flags", "ack,psh,urg"], 0, True, "tcp", True, "tcpflags"),
    ("tcp syn", ["tcp", "syn"], 1, True, "syn", False, "tcpsyn"),
    ("tcp fin", ["tcp", "fin"], 0, True, "tcp", True, "tcpfin"),
    ("tcp null", ["tcp", "null"], 0, True, "tcp", True, "tcpnull"),
    ("tcp xmas", ["tcp", "xmas"], 0, True, "tcp", True, "tcpxmas"),
    ("udp", ["udp"], 2, True, "icmp", True, "udp"),
    ("icmp", ["icmp"], 2, False, "icmp", True, "icmp"),
    ("arp", ["arp"], 3, False, "arp", True, None),
    # > 200 port ranges: startPortScanEngine runs one engine + filter per chunk of 200; replies to the FIRST chunk that arrive
    # after its probes are out but within its exit delay
    ("tcp syn [201 port ranges]", ["tcp", "syn"], 1, True, "syn", False, "tcpsyn"),
    ("tcp fin [201 port ranges]", ["tcp", "fin"], 0, True, "tcp", True, "tcpfin"),
]
CLI_VPN = ["tcp", "tcp --flags syn", "tcp fin", "udp", "icmp"]


def cli_cases():
    out = []
    for name, argv, flt, ports, cls, af, scan in CLI:
        out.append({"name": name, "argv": argv, "filter": flt, "ports": ports, "tun": False, "chunks": "[201 port ranges]" in name})
    for name, argv, flt, ports, cls, af, scan in CLI:
        if name in CLI_VPN:
            out.append({"name": name, "argv": argv, "filter": flt, "ports": ports, "tun": True})
    return out


CLI_SPEC = {name: (cls, af, scan) for name, argv, flt, ports, cls, af, scan in CLI}

LETTERS = [(1, "s"), (4, "a"), (0, "f"), (2, "r"), (3, "p"), (5, "u"), (6, "e"), (7, "c"), (8, "n")]


def be16(b, i):
    return b[i] * 256 + b[i + 1]


# ------------------------------------------------------------------ the property, re-stated independently
def tlv_ok(opts, minlen):
    """gopacket's option walk: type 0 ends, 1 is a one-byte option, else TLV with length >= minlen within the block."""
    i = 0
    while i < len(opts):
        if opts[i] == 0:
            return True
        if opts[i] == 1:
            i += 1
            continue
        if i + 1 >= len(opts):
            return False
        l = opts[i + 1]
        if l < minlen or i + l > len(opts):
            return False
        i += l
    return True


def wf_ip(p):
    if len(p) < 20 or p[0] >> 4 != 4:
        return None
    ihl = (p[0] & 15) * 4
    tl = be16(p, 2) or (len(p) % 65536)
    ff = be16(p, 6)
    if ihl < 20 or ihl > tl or tl > len(p) or (ff >> 13) & 1 or ff & 0x1fff:
        return None
    if not tlv_ok(p[20:ihl], 3):
        return None
    body = p[ihl:tl]
    if p[9] == 6:
        if len(body) < 20 or (body[12] >> 4) < 5 or (body[12] >> 4) * 4 > len(body):
            return None
        if not tlv_ok(body[20:(body[12] >> 4) * 4], 2):
            return None
    if p[9] == 1 and len(body) < 8:
        return None
    return body


def wf_and_shape(cls, raw, subnet, ports, f):
    """Returns (well_formed, reply_shaped, expected record fields)."""
    def in_net(a):
        if subnet is None:
            return True
        net, bits = subnet
        return (a >> (32 - bits)) == (net >> (32 - bits))
    if len(f) >= 65536:
        return False, False, None
    if raw:
        p = f
        ipv4 = True
    else:
        if len(f) >= 14 and be16(f, 12) == 0x0806:
            a = f[14:]
            if len(a) < 28 or a[4] != 6 or a[5] != 4:
                return False, False, None
            spa = int.from_bytes(a[14:18], "big")
            return True, cls == "arp" and in_net(spa), {"ip": ".".join(str(x) for x in a[14:18]),
                                                       "mac": ":".join("%02x" % x for x in a[8:14])}
        ipv4 = len(f) >= 14 and be16(f, 12) == 0x0800
        p = f[14:]
    if not ipv4:
        return True, False, None
    body = wf_ip(p)
    if body is None:
        return False, False, None
    src = int.from_bytes(p[12:16], "big")
    ip = ".".join(str(x) for x in p[12:16])
    if cls in ("tcp", "syn") and p[9] == 6:
        sp = be16(body, 0)
        fl = (body[12] & 1) << 8 | body[13]
        shape = in_net(src) and (not ports or any(a <= sp <= b for a, b in ports)) and (cls != "syn" or fl == 0x12)
        return True, shape, {"ip": ip, "port": sp, "flags": "".join(c for b, c in LETTERS if fl >> b & 1)}
    if cls == "icmp" and p[9] == 1:
        return True, body[0] != 8 and in_net(src), {"ip": ip, "ttl": p[8], "type": body[0], "code": body[1]}
    return True, False, None


def judge(case, fo, allflags):
    cls = case.get("cls") or CLASS.get(case["cmd"])
    if cls is None:
        return ("unknown-command:" + case["cmd"], "the command %r is not one of the packet scans of the property" % case["cmd"])
    f = bytes.fromhex(fo["frame"])
    subnet = (case["net"], case["bits"]) if case["subnet"] else None
    if fo.get("crash"):
        return ("crash:" + cls, "ProcessPacketData panics: " + fo["crash"])
    if fo["n"] > 1:
        return ("multi:" + cls, "%d records for one frame" % fo["n"])
    wf, shape, exp = wf_and_shape(cls, case["vpn"] and cls != "arp", subnet, [tuple(p) for p in case["ports"]], f)
    if not wf:
        return None
    reported = fo["vm"] and fo["record"]
    if reported and not shape:
        return ("false-positive:%s:%s" % (cls, fo["class"]),
                "%s scan of %s ports %s reports a frame that is not reply-shaped (%s): record %s" % (
                    case["cmd"], case["subnet"] or "any", case["ports"][:3], fo["class"],
                    {k: fo[k] for k in ("ip", "port", "flags", "type", "code", "mac") if fo.get(k) not in (None, "")}))
    if shape and not reported:
        return ("missed:%s:%s" % (cls, fo["class"]),
                "%s scan of %s ports %s does not report a reply-shaped frame (%s): filter accepts=%s, record=%s %s" % (
                    case["cmd"], case["subnet"] or "any", case["ports"][:3], fo["class"], fo["vm"], fo["record"], fo.get("err", "")))
    if reported:
        got = {"ip": fo.get("ip", "")}
        if cls in ("tcp", "syn"):
            got.update(port=fo["port"], flags=fo["flags"])
            if not allflags:
                exp = dict(exp, flags="")
        elif cls == "icmp":
            got.update(ttl=fo["ttl"], type=fo["type"], code=fo["code"])
        else:
            got.update(mac=fo.get("mac", ""))
        if got != exp:
            return ("unfaithful:" + cls, "the record %s does not carry the frame's own fields %s" % (got, exp))
        if case.get("scan") and fo.get("scan") != case["scan"]:
            return ("wrong-scan:" + case["cmd"], "`sx %s` reports the frame as scan %r, it is the %r scan" % (
                case["cmd"], fo.get("scan"), case["scan"]))
        if cls == "arp" and not fo.get("vendor_ok", True):
            return ("unfaithful:arp-vendor", "the vendor %r is not the OUI table's entry for the sender MAC %s of the frame" % (
                fo.get("vendor", ""), fo.get("mac", "")))
    return None


# ------------------------------------------------------------------ model side
def read_wirings(ctx):
    out = ctx.coq_eval("wirings", "From Coq Require Import ZArith List String.\nFrom SX Require Import Spec.C03.\n"
                                  "Import ListNotations.\nOpen Scope Z_scope.\nSet Printing Depth 1000000.\n"
                                  "Definition N := Eval vm_compute in wiring_names.\n"
                                  "Definition D := Eval vm_compute in wiring_dump.\nPrint N. Print D.\n")
    flat = " ".join(out.split())
    names = re.findall(r'"([^"]*)"', flat[flat.index("N ="):flat.index("D =")])
    d = ctx.parse_result(out, "D")
    rows = [[int(x) for x in re.findall(r"-?\d+", grp)] for grp in re.findall(r"\[([^\[\]]*)\]", d)]
    if len(names) != len(rows) or not rows:
        raise verif.Broken("cannot read the translated wirings back", out[-800:])
    ws = []
    for nme, r in zip(names, rows):
        ws.append({"cmd": nme, "method": ["tcp", "udp", "icmp", "arp"][r[0]], "allflags": bool(r[1]), "filter": r[2],
                   "chunked": bool(r[3]), "vpn_source": bool(r[4]), "vpn_method": bool(r[5]), "ok": bool(r[6]),
                   "pf": "".join(str(x) for x in r[7:])})
    return ws


def case_term(c):
    z = verif.coq_z
    sub = "Some (%s, %s)" % (z(c["net"]), z(c["bits"])) if c["subnet"] else "None"
    return ("{| k_filter := %d; k_raw := %s; k_subnet := %s; k_ports := [%s]; k_text := %s; k_snap := %s; k_frames := [%s]; "
            "k_verdicts := [%s] |}") % (
        c["filter"], verif.coq_bool(c["raw_source"]), sub, ";".join("(%d,%d)" % tuple(p) for p in c["ports"]),
        verif.coq_packed(c["text"].encode()), z(c["snap"]), ";".join(verif.coq_packed(bytes.fromhex(f["frame"])) for f in c["frames"]),
        ";".join(verif.coq_bool(f["vm"]) for f in c["frames"]))


def case_file(rows):
    return "\n".join([
        "From Coq Require Import ZArith List Uint63.",
        "From SX Require Import Base.Bytes Model.Bpf Spec.C03.",
        "Import ListNotations.", "Open Scope Z_scope.",
        "Definition cases : list case := [", ";\n".join(case_term(r) for r in rows), "].",
        "Definition M := Eval vm_compute in check_all 0 cases.",
        "Definition L := Eval vm_compute in total_frames cases.",
        "Print M. Print L."])


def parse_eval(ctx, out, rows):
    raw = " ".join(out.split())
    n_model = int(ctx.parse_result(out, "L"))
    if n_model != sum(len(r["frames"]) for r in rows):
        raise verif.Broken("frame count differs between harness and model")
    seg = raw[raw.index("M ="):raw.index("L =")]
    return [(int(i), [int(x) for x in re.findall(r"\d+", codes)]) for i, codes in re.findall(r"\((\d+)%nat, \[([^\]]*)\]\)", seg)]


def run_cases(ctx, ins, tag):
    path = os.path.join(ctx.work, tag + ".in.json")
    with open(path, "w") as f:
        json.dump(ins, f)
    ok, _ = ctx.harness_run("c03", ["-out", tag + ".jsonl", "-wiring", os.path.join(ctx.work, "wiring.json"), "-replay", path], timeout=600)
    return ctx.read_jsonl(os.path.join(ctx.work, tag + ".jsonl")) if ok else []


def run_e2e(ctx, args, tag, cli=False):
    """End-to-end stage: the real startPort/PacketScanEngine on a veth pair in a private network namespace (real AF_PACKET
    source, the filter the engine installs, the kernel's BPF interpreter and snapshot cut). Returns case rows."""
    if not os.path.exists(os.path.join(verif.REPO, "command", "verif_export_c03.go")):
        ctx.skipped.append("e2e stage: hook command/verif_export_c03.go is not in the tree")
        return []
    if not ctx.harness_build("c03e2e"):
        return []
    ns = "vc3-%d-%s" % (os.getpid(), tag)
    setup = [["ip", "netns", "add", ns],
             ["ip", "-n", ns, "link", "add", "vc3a", "type", "veth", "peer", "name", "vc3b"],
             ["ip", "netns", "exec", ns, "sysctl", "-qw", "net.ipv6.conf.all.disable_ipv6=1", "net.ipv6.conf.default.disable_ipv6=1"],
             ["ip", "-n", ns, "link", "set", "lo", "up"], ["ip", "-n", ns, "link", "set", "vc3a", "up"],
             ["ip", "-n", ns, "link", "set", "vc3b", "up"]]
    if cli:
        # the command lines need an interface address; VPN mode runs on a tun device
        setup += [["ip", "-n", ns, "addr", "add", "10.203.7.1/24", "dev", "vc3a"],
                  ["ip", "-n", ns, "tuntap", "add", "dev", "vc3t", "mode", "tun"],
                  ["ip", "-n", ns, "addr", "add", "10.204.7.1/24", "dev", "vc3t"],
                  ["ip", "-n", ns, "link", "set", "vc3t", "up"]]
    rows = []
    try:
        for c in setup:
            rc, out = verif.sh(c, timeout=30)
            if rc != 0 and "sysctl" not in c and "tuntap" not in c and "vc3t" not in c:
                ctx.skipped.append("e2e stage: cannot set up a network namespace (%s): %s" % (" ".join(c[:4]), out.strip()[:120]))
                return []
        out_file = os.path.join(ctx.work, tag + ".jsonl")
        rc, out = verif.sh(["ip", "netns", "exec", ns, os.path.join(verif.HBIN, "c03e2e"), "-out", out_file,
                            "-wiring", os.path.join(ctx.work, "wiring.json")] + [str(a) for a in args],
                           timeout=600, env=verif.GOENV, cwd=ctx.work)
        if rc != 0:
            ctx.broken.append(("correspondence: e2e driver failed (rc=%d)" % rc, out[-1500:]))
            return []
        rows = ctx.read_jsonl(out_file)
    finally:
        verif.sh(["ip", "netns", "del", ns], timeout=30)
    return rows


def judge_e2e(ctx, rows, af, seen):
    for c in rows:
        c.setdefault("raw_source", False)
        if c["cmd"] in CLI_SPEC and c.get("w") == -1:
            c["cls"], c["allflags"], c["scan"] = CLI_SPEC[c["cmd"]]
            c["cli"] = True
        if (c.get("err") or "").startswith("skip:"):
            ctx.skipped.append("CLI stage, `sx %s`%s: %s" % (c["cmd"], " (VPN)" if c.get("vpn") else "", c["err"]))
            continue
        if c.get("err") in ("sentinel-not-reported", "second-sentinel-not-reported"):
            fo = {"frame": c["sentinel"], "class": "to-scanning-host", "vm": False, "record": False, "n": 0}
            report(ctx, c, fo, ("missed:e2e:" + (c.get("cls") or CLASS.get(c["cmd"], "?")),
                                "%s scan of %s ports %s%s (source %s) on a real AF_PACKET socket %s a plain reply-shaped frame "
                                "addressed to the scanning host%s" % (
                                    c["cmd"], c["subnet"] or "any", c["ports"][:3], " ..." if len(c["ports"]) > 3 else "", c["srcip"],
                                    "never reports" if c["err"].startswith("sentinel") else "stops reporting: after the first replies were "
                                    "reported, the scan (still running, within its exit delay) yields no record for",
                                    "" if c["err"].startswith("sentinel") else " (injected repeatedly for 20 s)")), seen)
            continue
        if c.get("err"):
            ctx.broken.append(("correspondence: e2e run of %s failed: %s" % (c["cmd"], c["err"]), ""))
            continue
        for u in c.get("unmatched") or []:
            ctx.broken.append(("correspondence: e2e run of %s: a record belongs to no injected frame" % c["cmd"], u))
        for fo in c["frames"]:
            if not fo["sent"]:
                continue
            wf = wf_and_shape(c.get("cls") or CLASS.get(c["cmd"], "tcp"), bool(c.get("vpn")) and c.get("cls") != "arp",
                              (c["net"], c["bits"]) if c["subnet"] else None,
                              [tuple(p) for p in c["ports"]], bytes.fromhex(fo["frame"]))[0]
            ctx.count("%s/%s%s/%s/%s" % ("cli" if c.get("cli") else "e2e", c["cmd"], "/vpn" if c.get("vpn") else "", fo["class"], "reported" if fo["record"] else "not-reported"),
                      hashlib.md5(("e2e" + c["cmd"] + c["text"] + fo["frame"]).encode()).digest(), nontrivial=wf)
            why = judge(c, fo, c["allflags"] if c.get("cli") else af.get(c["cmd"], True))
            if why:
                tag = "cli" if c.get("cli") else "e2e"
                pre = "[real command line `%s`] " % c["text"] if c.get("cli") else "[end-to-end, kernel filter] "
                report(ctx, c, fo, (why[0].replace(":", ":%s:" % tag, 1) + (":vpn" if c.get("cli") and c.get("vpn") else ""), pre + why[1]), seen)


def run_burst(ctx, n, seen):
    """More replies than the result channel buffers (2 x 1000) while the consumer is stalled: every record exactly once."""
    ok, _ = ctx.harness_run("c03", ["-out", "burst.jsonl", "-burst", n, "-wiring", os.path.join(ctx.work, "wiring.json")], timeout=600)
    if not ok:
        return
    for b in ctx.read_jsonl(os.path.join(ctx.work, "burst.jsonl")):
        ctx.count("burst/%s/%s" % (b["cmd"], "complete" if not b["missing"] and not b["dups"] else "lossy"),
                  ("burst", b["cmd"], b["n"]), nontrivial=True)
        ctx.cov["evaluations"] += b["n"] - 1
        what = None
        if b.get("err"):
            ctx.broken.append(("correspondence: burst stage of %s: %s" % (b["cmd"], b["err"]), ""))
        elif b["missing"]:
            what = ("missed:burst:" + b["cmd"],
                    "%d reply-shaped frames are handed to the %s scan method while the consumer of its results is stalled: %d of them "
                    "yield no record (first: the frame from %s), %d records come out" % (b["n"], b["cmd"], b["missing"], b["first_missing_key"], b["records"]))
        elif b["dups"] or b["foreign"]:
            what = ("multi:burst:" + b["cmd"], "%d reply-shaped frames in a burst: %d duplicate and %d foreign records" % (b["n"], b["dups"], b["foreign"]))
        if what and what[0] not in seen:
            seen[what[0]] = 1
            path = ctx.write_replay(re.sub(r"\W+", "-", what[0]), {
                "property": "C03", "what": what[1],
                "input": {"burst": True, "w": b["w"], "cmd": b["cmd"], "n": b["n"], "frames": [b.get("first_missing", "")]},
                "observed": b, "replay_cmd": "bin/check C03 --replay <this file>"})
            ctx.findings.append({"key": what[0], "what": what[1], "replay": path})


def report(ctx, case, fo, why, seen):
    key, reason = why
    if key in seen:
        seen[key] += 1
        return
    seen[key] = 1
    if len(ctx.findings) >= 12:
        return
    frames = [fo["frame"]]
    if case.get("e2e") and fo["frame"] in [x["frame"] for x in case.get("frames") or []]:
        # on the wire the history matters (what was reported before): replay the injected frames up to this one
        k = [x["frame"] for x in case["frames"]].index(fo["frame"])
        frames = [x["frame"] for x in case["frames"][:k + 1] if x.get("sent", True)]
    if key.startswith("unfaithful"):
        # a record that depends on other frames of the case (reused buffer, record read after later frames):
        # replay the whole case
        frames = [x["frame"] for x in case["frames"] if x.get("sent", True)]
    inp = {"w": case["w"], "cmd": case["cmd"], "vpn": case["vpn"], "ring": case.get("ring", 0) if len(frames) > 1 else 0,
           "subnet": case["subnet"], "ports": case["ports"], "frames": frames}
    if case.get("e2e"):
        inp["e2e"] = True
    if case.get("spec"):
        inp["port_spec"] = "-p " + case["spec"]
    if case.get("cli"):
        inp["cli"] = {"name": case["cmd"], "tun": bool(case.get("vpn"))}
    path = ctx.write_replay(re.sub(r"\W+", "-", key), {
        "property": "C03", "what": reason, "input": inp, "filter_text": case["text"], "observed": fo,
        "replay_cmd": "bin/check C03 --replay <this file>"})
    ctx.findings.append({"key": key, "what": reason, "replay": path})


def prepare(ctx):
    ws = read_wirings(ctx)
    with open(os.path.join(ctx.work, "wiring.json"), "w") as f:
        json.dump(ws, f)
    return ws


def ns_witness(ws):
    """The _refuted witness of Properties/C03.v: SYN+ACK+NS from inside the scanned net, port in range."""
    eth = [2, 0, 0, 0, 0, 1, 2, 0, 0, 0, 0, 2, 8, 0]
    ip = [69, 0, 0, 40, 0, 1, 64, 0, 64, 6, 0, 0, 10, 0, 0, 1, 192, 168, 0, 9]
    tcp = [0, 80, 156, 64, 0, 0, 0, 1, 0, 0, 0, 2, 81, 18, 250, 240, 0, 0, 0, 0]
    out = []
    for i, w in enumerate(ws):
        if w["cmd"] == "tcp syn":
            out.append({"w": i, "vpn": False, "subnet": "10.0.0.0/24", "ports": [[80, 80]], "frames": [bytes(eth + ip + tcp).hex()]})
    return out


def run(ctx):
    quick = ctx.tier == "quick"
    ctx.trusted += [
        "libpcap's filter compiler and the BPF interpreter (kernel / x/net/bpf VM) are exercised, not proved: bpf_sem is the "
        "filter-expression semantics, compared with the compiled program on every generated frame",
        "tools/gen/wiring.go transcribes the command wiring (scan method, result filter closure, flag printer, filter "
        "builder, engine, VPN flag); the harness runs the result filter from its translated truth table",
        "gopacket decoders modelled (shared with C06)",
    ]
    ctx.assumptions += ["frames arrive before the scan exits; the kernel applies the attached filter to every frame",
                        "DstSubnet is an IPv4 network with host bits cleared (net.ParseCIDR), port ranges have start <= end"]
    gen_ok = ctx.gen()
    model_ok = gen_ok and ctx.coq_model(["Spec/C03.vo"])
    proof_ok = gen_ok and ctx.coq_proofs("Properties/C03.v")
    rows, ws, seen = [], [], {}
    if model_ok:
        ws = prepare(ctx)
        for w in ws:
            if not w["ok"]:
                ctx.broken.append(("proof: the wiring of command %r is not the wiring its scan needs (cmd_wiring_ok = false)" % w["cmd"],
                                   json.dumps({k: v for k, v in w.items() if k != "pf"})))
    if ws and ctx.harness_build("c03"):
        rows += run_cases(ctx, ns_witness(ws), "witness")
        ok, _ = ctx.harness_run("c03", ["-out", "cases.jsonl", "-seed", ctx.seed, "-n", 320 if quick else 6400, "-per", 10,
                                        "-wiring", os.path.join(ctx.work, "wiring.json")], timeout=3000)
        if ok:
            rows += ctx.read_jsonl(os.path.join(ctx.work, "cases.jsonl"))
        # edge stage (always on, < 1 s): -p texts at the ends of the port space (1-65535, 0-65535, 2-65535, 1-65534, 65535, 1, 0,
        # the whole space mixed with other ranges, ranges that only together cover everything), parsed by the real -p parser;
        # replies with source port 0, 1, 65535 and at / next to every range edge. Same path, same judge (the property: reported
        # iff reply-shaped, which includes "source port is one of the scanned ports"), same model evaluation as the other cases.
        ok, _ = ctx.harness_run("c03", ["-out", "edges.jsonl", "-edges", "-seed", ctx.seed, "-per", 12,
                                        "-wiring", os.path.join(ctx.work, "wiring.json")], timeout=600)
        if ok:
            rows += ctx.read_jsonl(os.path.join(ctx.work, "edges.jsonl"))
    rows = [r for r in rows if not r.get("comperr") or ctx.skipped.append("libpcap rejects %r: %s" % (r["text"][:80], r["comperr"]))]
    af = {w["cmd"]: w["allflags"] for w in ws}
    for c in rows:
        for fo in c["frames"] or []:
            cls = "%s/%s/%s/%s" % (c["cmd"], "raw-ip" if c["raw_source"] else "eth", fo["class"],
                                    "reported" if fo["vm"] and fo["record"] else "filtered" if not fo["vm"] else "dropped")
            f = bytes.fromhex(fo["frame"])
            wf = wf_and_shape(CLASS.get(c["cmd"], "tcp"), c["vpn"] and c["cmd"] != "arp",
                              (c["net"], c["bits"]) if c["subnet"] else None, [tuple(p) for p in c["ports"]], f)[0]
            ctx.count(cls, hashlib.md5((c["cmd"] + str(c["vpn"]) + c["text"] + fo["frame"]).encode()).digest(), nontrivial=wf,
                      sample={"cmd": c["cmd"], "vpn": c["vpn"], "filter": c["text"][:120], "class": fo["class"],
                              "frame": fo["frame"][:140], "vm": fo["vm"], "record": fo["record"]})
            why = judge(c, fo, af.get(c["cmd"], True))
            if why:
                report(ctx, c, fo, why, seen)
    if ws and os.path.exists(os.path.join(verif.HBIN, "c03")):
        run_burst(ctx, 3000 if quick else 20000, seen)
        judge_e2e(ctx, run_e2e(ctx, ["-seed", ctx.seed, "-n", 4 if quick else 96, "-per", 8], "e2e"), af, seen)
    if True:
        # every packet-scan command line through its real RunE, Ethernet and VPN (tun) mode; this stage needs nothing
        # from the translator or the model, so it also runs when those are broken
        cli_file = os.path.join(ctx.work, "cli.in.json")
        with open(cli_file, "w") as f:
            json.dump(cli_cases() * (1 if quick else 6), f)
        judge_e2e(ctx, run_e2e(ctx, ["-seed", ctx.seed, "-cli", cli_file], "cli", cli=True), af, seen)
    for k, n in seen.items():
        if n > 1:
            ctx.info.append("%d more frames show %s" % (n - 1, k))
    if model_ok and rows:
        rows = [r for r in rows if r["frames"]]
        nshards = 16 if quick else 64
        size = max(1, (len(rows) + nshards - 1) // nshards)
        parts = [rows[i:i + size] for i in range(0, len(rows), size)]
        outs = ctx.coq_eval_many([("cases_%d" % i, case_file(p)) for i, p in enumerate(parts)], timeout=3000)
        nbad = 0
        for part, out in zip(parts, outs):
            for idx, codes in parse_eval(ctx, out, part):
                nbad += 1
                if nbad > 5:
                    continue
                c = part[idx]
                if 3 in codes:
                    ctx.broken.append(("correspondence: snapshot length %d returned by the filter builder of %s differs from the "
                                       "translated constant" % (c["snap"], c["cmd"]), ""))
                if 1 in codes:
                    ctx.broken.append(("correspondence: filter text of %s differs from the model for subnet=%r ports=%s" % (
                        c["cmd"], c["subnet"], c["ports"][:4]), c["text"][:400]))
                for code in [x for x in codes if x >= 100][:2]:
                    fo = c["frames"][code - 100]
                    ctx.broken.append(("correspondence: libpcap's program and bpf_sem disagree on a %s frame for filter %r (%s)" % (
                        fo["class"], c["text"][:100], "raw-ip" if c["raw_source"] else "eth"),
                        json.dumps({"frame": fo["frame"], "vm": fo["vm"]})))
            ctx.cov["traces_validated_against_impl"] += sum(len(r["frames"]) for r in part)
        if nbad > 5:
            ctx.broken.append(("correspondence: %d cases disagree in total" % nbad, ""))
    if ctx.broken and not ctx.findings and ws and os.path.exists(os.path.join(verif.HBIN, "c03")):
        ok, _ = ctx.harness_run("c03", ["-out", "search.jsonl", "-seed", ctx.seed + 1000, "-n", 4000, "-per", 12,
                                        "-wiring", os.path.join(ctx.work, "wiring.json")], timeout=3000)
        if ok:
            for c in ctx.read_jsonl(os.path.join(ctx.work, "search.jsonl")):
                for fo in c.get("frames") or []:
                    why = judge(c, fo, af.get(c["cmd"], True))
                    if why:
                        report(ctx, c, fo, why, seen)
        if not ctx.findings:
            judge_e2e(ctx, run_e2e(ctx, ["-seed", ctx.seed + 1000, "-n", 32, "-per", 10], "e2e-search"), af, seen)
    return ctx.finish(rule=RULE)


def replay(ctx, path):
    r = json.load(open(path))
    if "input" not in r:
        print(json.dumps(r, indent=1))
        return 1
    ok, _ = ctx.coq_build(["Spec/C03.vo"], "model") if ctx.gen() else (False, "")
    if not ok or not ctx.harness_build("c03"):
        print("replay: cannot build")
        return 1
    ws = prepare(ctx)
    i = r["input"]
    if i.get("burst"):
        seen = {}
        run_burst(ctx, i["n"], seen)
        for fd in ctx.findings:
            print("burst replay: " + fd["what"])
        print("replay: " + ("the property FAILS on this input" if ctx.findings else "the property holds on this input"))
        return 1 if ctx.findings else 0
    w = [k for k, x in enumerate(ws) if x["cmd"] == i["cmd"]]
    if i.get("cli"):
        spec = [c for c in cli_cases() if c["name"] == i["cli"]["name"] and c["tun"] == i["cli"]["tun"]]
        path2 = os.path.join(ctx.work, "cli-replay.in.json")
        with open(path2, "w") as f:
            json.dump([dict(spec[0], subnet=i["subnet"], portlist=i["ports"], frames=i["frames"])], f)
        rows = run_e2e(ctx, ["-cli", path2], "cli-replay", cli=True)
        seen = {}
        judge_e2e(ctx, rows, {}, seen)
        for fd in ctx.findings:
            print("cli replay: " + fd["what"])
        for b in ctx.broken + [(s_, "") for s_ in ctx.skipped]:
            print("cli replay: " + b[0])
        rc = 1 if ctx.findings or ctx.broken else 0
        print("replay: " + ("the property FAILS on this input" if rc else "the property holds on this input"))
        return rc
    if i.get("e2e"):
        path2 = os.path.join(ctx.work, "e2e-replay.in.json")
        with open(path2, "w") as f:
            json.dump([{"w": w[0] if w else i["w"], "subnet": i["subnet"], "ports": i["ports"], "frames": i["frames"]}], f)
        rows = run_e2e(ctx, ["-replay", path2], "e2e-replay")
        seen = {}
        judge_e2e(ctx, rows, {x["cmd"]: x["allflags"] for x in ws}, seen)
        for fd in ctx.findings:
            print("e2e replay: " + fd["what"])
        for b in ctx.broken + [(s_, "") for s_ in ctx.skipped]:
            print("e2e replay: " + b[0])
        rc = 1 if ctx.findings or ctx.broken else 0
        print("replay: " + ("the property FAILS on this input" if rc else "the property holds on this input"))
        return rc
    rows = run_cases(ctx, [dict(i, w=w[0] if w else i["w"])], "replay")
    rc = 0
    for c in rows:
        print("filter: %s" % c["text"])
        for fo in c["frames"]:
            why = judge(c, fo, ws[c["w"]]["allflags"])
            print("frame %s...: filter accepts=%s record=%s %s -> %s" % (
                fo["frame"][:60], fo["vm"], fo["record"],
                {k: fo[k] for k in ("ip", "port", "flags", "type", "code", "mac") if fo.get(k) not in (None, "")},
                why[1] if why else "ok"))
            if why:
                rc = 1
    print("replay: " + ("the property FAILS on this input" if rc else "the property holds on this input"))
    return rc


MANIFEST = {
    "technique": "Coq proof (iff between the composed capture-filter semantics + ProcessPacketData model and the transcribed "
                 "reply shape, for all ranges, decoder states and well-formed frames) + translated command wiring table checked "
                 "by computation + differential correspondence against the real libpcap compiler, the BPF VM and ProcessPacketData",
    "level_text": "Theorems C03_wiring_ok, C03_iff, C03_record_faithful, C03_one_record hold for every command of the wiring table "
                  "regenerated from command/*.go on every run, every scan range (every chunk), both link modes, all decoder "
                  "states and all well-formed unfragmented frames; the filter text equals the real builders' text and the "
                  "filter-expression semantics agrees with the libpcap-compiled program on ~3 200 frames per quick run, which "
                  "are also pushed through the real ProcessPacketData and judged against the reply shape.",
    "level_note": "PARTIAL: libpcap's compiler and the kernel's BPF interpreter are exercised (x/net/bpf VM), not proved; "
                  "gopacket decoders modelled; translator trusted. No axioms. The code as found reports SYN+ACK+NS in the SYN "
                  "scan (C03_syn_ns_refuted_orig; fix patch fixes/c03/fix-synack-ns-bit.patch) and needs the C06 fix.",
    "design_ref": "DESIGN.md section 5 (C03)",
}
