"""C15 -- rate limit: probes never leave faster than the configured rate; charged once; reads free."""
import json
import os
import re

import verif

RULE = ("--rate strings from a grammar (count classes 1, small, mid, large, huge, round; windows none, s, Ns, Nms, ms, "
        "Nus, Nm, N.Ns, NmNs) parsed by the real parseRateLimit; fractional-window stage: windows 0.x / .x / n.x / n / "
        "unit-only over s, ms, us, m, 60..299 Takes by one caller on a fake clock (and one application-engine run on the "
        "real clock), judged against the (count, window) the raw string denotes, computed exactly by the check; per limiter 2..120 Take calls on a fake clock: serial "
        "caller (gaps: back-to-back, around perRequest, long idle) or fully scripted readings (also backwards); "
        "wrapper op sequences (mixed / reads-only / writes-only / scans-only) with a counting limiter; composed "
        "sender+receiver runs; application-engine runs on the real clock; application-engine runs whose probes fail as "
        "scripted (refused, timeout, reset, unreachable, deadline, generic, EMFILE, ENFILE, EADDRNOTAVAIL, ENOBUFS; one to "
        "three bursts of 18..47 failures at seed-chosen positions, mixed bursts, isolated failures, all failing; 1..8 "
        "workers, 72..128 probes), each once with the real limiter on the real clock (probe starts) and once with a "
        "counting limiter (Take / probe-start order). Non-trivial = limiter run with at least "
        "12 calls or a wrapper/engine run with at least one probe; distinct by (kind, rate string, inputs)")

CODES = {1: "the real limiter's (clock reading, returned time, sleep) sequence differs from the model",
         2: "the calls the real wrapper made on limiter and delegate differ from the model"}
SLACK = 10


UNIT_NS = {"ns": 1, "us": 10 ** 3, "\u00b5s": 10 ** 3, "\u03bcs": 10 ** 3, "ms": 10 ** 6, "s": 10 ** 9, "m": 60 * 10 ** 9,
           "h": 3600 * 10 ** 9}


def exact_rate(rate_str):
    """(N, W) the --rate string denotes, by exact rational arithmetic (never by the code under test): "N" = N per
    second; "N/W" with W a duration (decimal numbers with units ns us ms s m h, several terms add up; a bare unit is
    one unit); W in whole nanoseconds (time.Duration), fractions of a nanosecond dropped.  None for anything else."""
    from fractions import Fraction
    m = re.fullmatch(r"([0-9]+)(?:/(.*))?", rate_str or "")
    if not m:
        return None
    n, win = int(m.group(1)), m.group(2)
    if win is None:
        return n, 10 ** 9
    if win in UNIT_NS:
        return n, UNIT_NS[win]
    terms = re.findall(r"([0-9]*\.?[0-9]*)(ns|us|\u00b5s|\u03bcs|ms|s|m|h)", win)
    if not terms or "".join(a + b for a, b in terms) != win:
        return None
    w = Fraction(0)
    for num, unit in terms:
        if not re.search(r"[0-9]", num):
            return None
        w += Fraction(num if not num.endswith(".") else num + "0") * UNIT_NS[unit]
    return n, int(w)       # floor (w >= 0)


def per_request(o):
    """The interval W/N (whole ns, rounded down as the library does) the property speaks about: from the duration the
    raw --rate string denotes; the parser's own answer only for a string outside the grammar above."""
    ex = exact_rate(o.get("rate_str"))
    if ex and ex[0] >= 1:
        return ex[1] // ex[0]
    return o["per"] // o["rate"]


def spec_parse(o):
    """The cheap exact pre-stage: with `--rate R` the limiter is built from what the real parseRateLimit returns for R;
    if that is a shorter interval than the one R denotes, probes leave faster than the configured rate."""
    ex = exact_rate(o.get("rate_str"))
    if not ex or ex[0] < 1 or not o.get("parse_ok") or o["rate"] < 1:
        return None
    n, w = ex
    if o["per"] * n >= w * o["rate"]:        # per/rate >= w/n: not faster than configured
        return None
    p, q = w // n, o["per"] // o["rate"]
    if q >= p:                               # the bound is stated with whole nanoseconds, as the library computes W/N
        return None
    k = SLACK + 2
    while k * q >= (k - SLACK) * p and k < 10 ** 7:
        k += 1 + k // 8
    return ("--rate %s denotes %d probes per %d ns (one every %d ns); the real parseRateLimit returned count %d, window %d ns, "
            "so the limiter is built with one probe every %d ns: %d consecutive probes leave within %d ns, the rate allows "
            "no less than (%d-1-%d)*%d = %d ns" % (o["rate_str"], n, w, p, o["rate"], o["per"], q, k + 1, k * q, k + 1, SLACK,
                                                   p, (k - SLACK) * p))


def spec_lim(o):
    """Spacing judged on the real limiter's own observation."""
    if not o.get("obs"):
        return None
    p = per_request(o)
    g = [x[1] for x in o["obs"]]
    for i, (now, grant, slept) in enumerate(o["obs"]):
        if grant < now:
            return "call %d at %d ns was granted the earlier time %d ns" % (i, now, grant)
        if slept < grant - now:
            return ("call %d at %d ns was granted %d ns but Take slept only %d ns (returned before the grant)"
                    % (i, now, grant, slept))
    n = len(g)
    for i in range(n):
        gi = g[i]
        for j in range(i + 1, n):
            if g[j] - gi < (j - i - SLACK) * p:
                return ("%d consecutive probes (calls %d..%d) were granted within %d ns; rate %s allows no less than "
                        "(k-1-%d)*%d = %d ns" % (j - i + 1, i, j, g[j] - gi, o["rate_str"], SLACK, p, (j - i - SLACK) * p))
    if o["mode"] == 0:
        # release times on the fake clock (now + time actually slept)
        rel = [x[0] + x[2] for x in o["obs"]]
        for i in range(n):
            for j in range(i + 1, n):
                if rel[j] - rel[i] < (j - i - SLACK) * p:
                    return ("%d consecutive Take calls (%d..%d) returned within %d ns; rate %s allows no less than %d ns"
                            % (j - i + 1, i, j, rel[j] - rel[i], o["rate_str"], (j - i - SLACK) * p))
    return None


def spec_wrap(o):
    ops, log = o.get("ops") or [], o.get("log") or []
    probes = sum(1 for k, _ in ops if k != 1)
    takes = sum(1 for k, _ in log if k == 0)
    if takes != probes:
        kinds = {0: "successful", 1: "EAGAIN", 2: "ECONNRESET", 3: "timeout", 4: "other-error", 5: "wrapped-EAGAIN"}
        reads = sorted({kinds.get(v, "?") for k, v in ops if k == 1})
        return ("%d probes (writes/scans)%s were charged %d times to the limiter"
                % (probes, " and %d reads (%s)" % (len([1 for k, _ in ops if k == 1]), ", ".join(reads)) if reads else "", takes))
    if o.get("takes") != takes:
        return "the limiter counted %s Takes, the log has %d" % (o.get("takes"), takes)
    prev = None
    for k, v in log:
        if k in (1, 3) and prev != 0:
            return "a probe reached the delegate without a Take immediately before it"
        if k == 2 and prev == 0:
            return "a read was charged to the limiter"
        prev = k
    if prev == 0:
        return "a Take was not followed by its probe"
    deleg = [(k, v) for k, v in log if k != 0]
    want = [({0: 1, 1: 2, 2: 3}[k], 0 if k == 1 else v) for k, v in ops]   # a read's second field is its result class
    if deleg != want:
        return "the delegate did not see exactly the caller's operations"
    if not o.get("ret_ok"):
        return "the wrapper altered an argument or a result of the delegate"
    return None


def spec_pipe(o):
    if o.get("err"):
        return o["err"]
    if o["takes"] != o["sent"] or o["writes"] != o["sent"]:
        return "%d frames sent: %d Takes, %d writes" % (o["sent"], o["takes"], o["writes"])
    return None


ERR_NAMES = {".": "success", "r": "connection refused", "t": "i/o timeout", "g": "generic error", "x": "connection reset",
             "u": "host unreachable", "c": "deadline exceeded", "M": "EMFILE", "N": "ENFILE", "A": "EADDRNOTAVAIL", "B": "ENOBUFS"}


def _outcomes(script, i, j):
    """Outcomes of the probes started i-th .. j-th (0-based, inclusive), run-length encoded."""
    out, seg = [], script[i:j + 1]
    k = 0
    while k < len(seg):
        e = k
        while e < len(seg) and seg[e] == seg[k]:
            e += 1
        out.append("%dx %s" % (e - k, ERR_NAMES.get(seg[k], seg[k])))
        k = e
    return ", ".join(out)


def spec_eng_errors(o):
    """Application engine whose probes fail as scripted (kind eng, classes eng/probe-errors*).  The judge is the property
    alone -- pacing of probe STARTS and one charge per probe before it starts -- never the class of the error."""
    script, p = o.get("script") or "", per_request(o)
    if o["scans"] != o["m"]:
        return "%d targets, %d probes started (outcomes %s)" % (o["m"], o["scans"], _outcomes(script, 0, len(script)))
    if o["class"].startswith("eng/probe-errors-charged"):
        takes = probes = 0
        for k, v in o.get("log") or []:
            if k == 0:
                takes += 1
            elif k == 3:
                probes += 1
                if probes > takes:
                    return ("application scan, %d workers, counting limiter, probe outcomes in start order [%s]: the probe "
                            "started %d-th (the probe before it: %s) began when the limiter had been charged only %d times: a probe "
                            "started without its own Take" % (o["workers"], _outcomes(script, 0, len(script) - 1), probes,
                                                              ERR_NAMES.get(script[v - 1:v], "the first probe") if v else "no probe",
                                                              takes))
        if takes != probes or o.get("takes") != takes:
            return ("application scan, %d workers, counting limiter, probe outcomes in start order [%s]: %d probes were "
                    "charged %d times to the limiter (limiter counted %s)"
                    % (o["workers"], _outcomes(script, 0, len(script) - 1), probes, takes, o.get("takes")))
        return None
    ts = o["starts"]
    for j, t in enumerate(ts):
        if t < (j - SLACK) * p:
            return ("application scan --rate %s, %d workers, probe outcomes in start order [%s]: probe number %d started "
                    "%d ns after the scan began; the rate allows no less than (%d-%d)*%d = %d ns"
                    % (o["rate_str"], o["workers"], _outcomes(script, 0, j), j + 1, t, j, SLACK, p, (j - SLACK) * p))
    # every window of consecutive probe starts; three more intervals for the delay between Take returning in a worker and
    # the probe start being recorded (concurrent workers, real clock), as in the other engine stages
    best = None
    for i in range(len(ts)):
        for j in range(i + 1, len(ts)):
            need = (j - i - SLACK - 3) * p
            if ts[j] - ts[i] < need and (best is None or need - (ts[j] - ts[i]) > best[0]):
                best = (need - (ts[j] - ts[i]), i, j)
    if best:
        _, i, j = best
        return ("application scan --rate %s, %d workers: the %d consecutive probes started %d-th..%d-th (outcomes %s) began "
                "within %d ns; the rate allows no less than (%d-1-%d)*%d = %d ns"
                % (o["rate_str"], o["workers"], j - i + 1, i + 1, j + 1, _outcomes(script, i, j), ts[j] - ts[i], j - i + 1,
                   SLACK, p, (j - i - SLACK) * p))
    return None


def spec_eng(o):
    if o.get("err"):
        return o["err"]
    if (o.get("class") or "").startswith("eng/probe-errors"):
        return spec_eng_errors(o)
    if o.get("class") == "eng/cancel-while-waiting":
        # the scan was interrupted (context cancelled, Ctrl-C) while more workers than the burst allowance waited in the
        # limiter: every probe the engine still starts is paced like all others
        ts, p = o["starts"], per_request(o)
        for i in range(len(ts)):
            for j in range(i + 1, len(ts)):
                if ts[j] - ts[i] < (j - i - SLACK - 3) * p:
                    return ("application scan --rate %s, %d workers, interrupted %d ms after the start while the workers wait "
                            "for their turn: %d consecutive probes were started within %d ns (from %d ms after the start); "
                            "the rate allows no less than (%d-1-%d)*%d = %d ns"
                            % (o["rate_str"], o["workers"], o["takes"] // 10 ** 6, j - i + 1, ts[j] - ts[i], ts[i] // 10 ** 6,
                               j - i + 1, SLACK, p, (j - i - SLACK) * p))
        return None
    if o["scans"] != o["m"]:
        return "%d targets, %d probes started" % (o["m"], o["scans"])
    p = per_request(o)
    for j, t in enumerate(o["starts"]):
        if t < (j - SLACK) * p:
            return ("application scan --rate %s, %d workers: probe number %d started %d ns after the scan began; the rate "
                    "allows no less than (%d-%d)*%d = %d ns" % (o["rate_str"], o["workers"], j + 1, t, j, SLACK, p,
                                                                (j - SLACK) * p))
    if o.get("class") == "eng/slow-then-fast":
        # every window of consecutive probe starts; three more intervals are allowed for the delay between Take
        # returning in a worker and the probe start being recorded (concurrent workers, real clock)
        ts = o["starts"]
        for i in range(len(ts)):
            for j in range(i + 1, len(ts)):
                if ts[j] - ts[i] < (j - i - SLACK - 3) * p:
                    return ("application scan --rate %s, %d workers, first %d targets slow then fast ones: %d consecutive "
                            "probes started within %d ns; the rate allows no less than (%d-1-%d)*%d = %d ns"
                            % (o["rate_str"], o["workers"], o["workers"], j - i + 1, ts[j] - ts[i], j - i + 1, SLACK, p,
                               (j - i - SLACK) * p))
    return None


def spec_rxlat(o):
    """Real sender+receiver around the rate-limited ReadWriter with the real limiter at 1/400ms; the source fails
    temporarily (quiet wire) and then has one frame: the processor must get it without waiting for the limiter."""
    if o.get("err"):
        return o["err"]
    on_wire, processed = o["starts"]
    if processed == 0:
        return ("packet path --rate %s, source quiet (%s): a frame on the wire at %d ms was not handed to the processor "
                "within 3 s" % (o["rate_str"], o["class"].split("/")[1], on_wire // 10 ** 6))
    if processed - on_wire > 100 * 10 ** 6:
        return ("packet path --rate %s, source quiet (%s): a frame on the wire at %d ms reached the processor %d ms later "
                "(receiving waits for the rate limiter)" % (o["rate_str"], o["class"].split("/")[1], on_wire // 10 ** 6,
                                                            (processed - on_wire) // 10 ** 6))
    return None


E2E_SLACK = SLACK + 1 + 2   # sequential sender: one more than the limiter's slack (C15_leave_sequential); two for capture jitter


def spec_e2e(o):
    if o.get("err"):
        return None          # an e2e run that could not be set up is recorded as skipped, never as a violation
    ts, p = o["ts"], o["per"] // o["rate"]
    if o.get("coarse"):
        n = len(ts)
        for k in sorted({k for k in (1000, 2000, 3000, n - 1) if 400 <= k < n}):
            for i in range(0, n - k):
                if ts[i + k] - ts[i] < (k - E2E_SLACK) * p - 20 * 10 ** 6:
                    return ("sx %s --rate %s: %d consecutive probes were seen on the wire within %d ns; the rate allows no "
                            "less than %d ns" % (o["args"], o["rate_str"], k + 1, ts[i + k] - ts[i], (k - SLACK) * p))
        return None
    for i in range(len(ts)):
        for j in range(i + 1, len(ts)):
            if ts[j] - ts[i] < (j - i - E2E_SLACK) * p:
                return ("sx %s --rate %s: %d consecutive probes were seen on the wire within %d ns; the rate allows no "
                        "less than %d ns" % (o["args"], o["rate_str"], j - i + 1, ts[j] - ts[i], (j - i - SLACK) * p))
    return None


CHUNK_WITNESS = [0] + [20 * 10 ** 9] * 11 + [203 * 10 ** 8]


def spec_chunk(o):
    return None     # the chunk-boundary observation is reported as information, see run()


def spec_frac(o):
    """Fractional-window stage: the measured grants first (a concrete span), then the interval the limiter was built with."""
    return spec_lim(o) or spec_parse(o)


SPEC = {"lim": spec_frac, "frac": spec_frac, "wrap": spec_wrap, "pipe": spec_pipe, "eng": spec_eng, "rxlat": spec_rxlat, "e2e": spec_e2e, "chunk": spec_chunk}

GW = "02:00:00:c1:60:02"


def _arp(rate, cnt, win, cidr):
    return {"cmd": "arp", "rate_str": rate, "rate": cnt, "per": win, "iface": "v1", "match": "arp",
            "args": ["arp", "-i", "v0", cidr]}


def _pkt(name, args):
    return {"cmd": name, "rate_str": "50/s", "rate": 50, "per": 10 ** 9, "iface": "v1", "match": "dstmac:" + GW,
            "args": args + ["-i", "v0", "--gwmac", GW, "-a", "ARP"]}


def _app(name):
    return {"cmd": name, "rate_str": "50/s", "rate": 50, "per": 10 ** 9, "iface": "lo", "match": "syn:10.77.0.1",
            "args": [name, "-p", "1-48", "-w", "8", "10.77.0.1/32"]}


# the first six: sx arp at different rates (quick tier picks one); then every other scan command at 50/s, 48 probes
E2E_SPECS = [_arp("200/s", 200, 10 ** 9, "10.77.0.0/26"), _arp("25/100ms", 25, 10 ** 8, "10.77.0.0/26"),
             _arp("1000/5s", 1000, 5 * 10 ** 9, "10.77.0.0/27"), _arp("2/16ms", 2, 16 * 10 ** 6, "10.77.0.0/26"),
             _arp("120", 120, 10 ** 9, "10.77.0.0/27"), _arp("1/8ms", 1, 8 * 10 ** 6, "10.77.0.0/26"),
             _arp("10/50ms", 10, 5 * 10 ** 7, "10.77.0.0/25"),
             _pkt("icmp", ["icmp", "10.99.0.0/26"]),
             _pkt("tcp", ["tcp", "--flags", "syn,ack", "-p", "1-48", "10.99.0.1/32"]),
             _pkt("tcp syn", ["tcp", "syn", "-p", "1-48", "10.99.0.1/32"]),
             _pkt("tcp fin", ["tcp", "fin", "-p", "1-48", "10.99.0.1/32"]),
             _pkt("tcp null", ["tcp", "null", "-p", "1-48", "10.99.0.1/32"]),
             _pkt("tcp xmas", ["tcp", "xmas", "-p", "1-48", "10.99.0.1/32"]),
             _pkt("udp", ["udp", "-p", "1-48", "10.99.0.1/32"]),
             _app("socks"), _app("docker"), _app("elastic")]
N_ARP_SPECS = 7
# a tcp scan with more than 200 port RANGES (450 single odd ports = 3 chunks of startPortScanEngine) under one --rate
CHUNK_PORTS = ",".join(str(x) for x in range(1001, 1001 + 2 * 450, 2))
E2E_SPECS.append({"cmd": "tcp syn (450 port ranges, 3 chunks)", "rate_str": "300/s", "rate": 300, "per": 10 ** 9,
                  "iface": "v1", "match": "dstmac:" + GW,
                  "args": ["tcp", "syn", "-p", CHUNK_PORTS, "10.99.0.1/32", "-i", "v0", "--gwmac", GW, "-a", "ARP"]})
IDX_CHUNKS = len(E2E_SPECS) - 1
# packet path at rates whose per-second value is fractional and below ~2/s: the process is stopped after `kill_after`
# seconds (at the configured rate it would run for minutes); what was on the wire until then is judged
for _r, _c, _w in (("1/m", 1, 60 * 10 ** 9), ("21/20s", 21, 20 * 10 ** 9)):
    E2E_SPECS.append({"cmd": "arp (slow)", "rate_str": _r, "rate": _c, "per": _w, "iface": "v1", "match": "arp",
                      "args": ["arp", "-i", "v0", "10.77.0.0/26"], "kill_after": 16.0, "idle": "60s", "total": "16500ms",
                      "min_probes": 1})
IDX_SLOW = [len(E2E_SPECS) - 2, len(E2E_SPECS) - 1]
IDX_FAST = list(range(IDX_CHUNKS + 1))
# per-frame intervals below 50 us: 4096 ARP probes (a /20) must take (4096-1-b)*W/N; only long windows are judged, with
# 20 ms allowed for timestamp batching at the capture side (an unpaced run puts them on a veth within ~10-30 ms)
for _r, _c in (("25000/s", 25000), ("50000/s", 50000)):
    E2E_SPECS.append({"cmd": "arp (high rate)", "rate_str": _r, "rate": _c, "per": 10 ** 9, "iface": "v1", "match": "arp",
                      "args": ["arp", "-i", "v0", "10.77.16.0/20"], "coarse": True, "min_probes": 500, "idle": "400ms"})
IDX_HIGH = [len(E2E_SPECS) - 2, len(E2E_SPECS) - 1]


def e2e_runs(ctx, idxs, tag=""):
    """Real `sx <command> --rate R` binary in a private network namespace; probes timestamped by the kernel on the peer of
    a veth pair (packet scans) or on the loopback interface (application scans: first SYN per destination port).
    Several calls with different `tag`s may run in parallel (one namespace each)."""
    import subprocess
    rows = []
    exe = os.path.join(ctx.work, "sx")
    with _build_lock:
        if not os.path.exists(exe):
            rc, out = verif.sh(["go", "build", "-o", exe, "."], env=verif.GOENV, cwd=verif.REPO, timeout=900)
            if rc != 0:
                ctx.broken.append(("correspondence: the sx binary does not build from the current tree", out[-1500:]))
                return rows
    ns = "vc15n%d%s" % (os.getpid(), tag)
    cap_exe = os.path.join(verif.HBIN, "c15")
    arp = os.path.join(ctx.work, "arp.cache")
    with open(arp, "w") as f:
        f.write('{"ip":"10.77.0.2","mac":"%s"}\n' % GW)
    setup = [["ip", "netns", "add", ns],
             ["ip", "-n", ns, "link", "add", "v0", "type", "veth", "peer", "name", "v1"],
             ["ip", "-n", ns, "link", "set", "lo", "up"], ["ip", "-n", ns, "link", "set", "v0", "up"],
             ["ip", "-n", ns, "link", "set", "v1", "up"], ["ip", "-n", ns, "addr", "add", "10.77.0.1/24", "dev", "v0"]]
    try:
        for cmd in setup:
            rc, out = verif.sh(cmd, timeout=20)
            if rc != 0:
                ctx.skipped.append("e2e runs skipped: cannot set up a network namespace (%s: %s)" % (" ".join(cmd), out.strip()[:200]))
                return rows
        import time as _t
        _t.sleep(0.3)
        for n, i in enumerate(idxs):
            sp = E2E_SPECS[i % len(E2E_SPECS)]
            capf = os.path.join(ctx.work, "cap%s_%d.jsonl" % (tag, n))
            cap = subprocess.Popen(["ip", "netns", "exec", ns, cap_exe, "-capture", sp["iface"], "-match", sp["match"],
                                    "-out", capf, "-max", "4096", "-idle", sp.get("idle", "600ms"),
                                    "-total", sp.get("total", "40s")],
                                   stdout=subprocess.PIPE, stderr=subprocess.STDOUT, text=True, cwd=ctx.work)
            args = [arp if a == "ARP" else a for a in sp["args"]]
            shown = " ".join(a if len(a) < 60 else a[:40] + "..." for a in sp["args"])
            o = {"kind": "e2e", "class": "e2e", "id": i % len(E2E_SPECS), "cmd": sp["cmd"], "rate_str": sp["rate_str"],
                 "rate": sp["rate"], "per": sp["per"], "args": shown, "ts": [], "coarse": bool(sp.get("coarse"))}
            try:
                line = cap.stdout.readline()
                if line.strip() != "ready":
                    o["err"] = "capture did not start: " + line.strip()[:200]
                else:
                    cmdline = ["ip", "netns", "exec", ns, exe] + args + ["--rate", sp["rate_str"], "--exit-delay", "30ms"]
                    if sp.get("kill_after"):
                        pr = subprocess.Popen(cmdline, stdout=subprocess.DEVNULL, stderr=subprocess.PIPE, text=True)
                        try:
                            pr.wait(timeout=sp["kill_after"])
                            o["sx_rc"] = pr.returncode
                        except subprocess.TimeoutExpired:
                            pr.kill()
                            pr.wait()
                            o["sx_rc"], o["stopped_after_s"] = 0, sp["kill_after"]
                        if o["sx_rc"] != 0:
                            o["err"] = "sx %s failed: %s" % (sp["cmd"], pr.stderr.read().strip()[-300:])
                    else:
                        rc, out = verif.sh(cmdline, timeout=120)
                        o["sx_rc"] = rc
                        if rc != 0:
                            o["err"] = "sx %s failed: %s" % (sp["cmd"], out.strip()[-300:])
                cap.wait(timeout=60)
                if os.path.exists(capf):
                    got = ctx.read_jsonl(capf)
                    if got:
                        o["ts"] = sorted(got[0]["ts"] or [])
                        o["other"] = got[0]["other"]
            except Exception as e:  # noqa: BLE001
                o["err"] = "e2e run failed: %r" % (e,)
                cap.kill()
            if not o.get("err") and len(o["ts"]) < sp.get("min_probes", 16):
                o["err"] = "only %d probes captured" % len(o["ts"])
            rows.append(o)
    finally:
        verif.sh(["ip", "netns", "del", ns], timeout=20)
    return rows


import threading  # noqa: E402

_build_lock = threading.Lock()


def spec_slow(o):
    """Application engine at about one probe per second, stopped after a few seconds: every window of consecutive
    probe starts is judged, with 50 ms allowed for the delay between Take returning and the probe being recorded;
    the window anchored at the start of the scan is judged exactly (the limiter cannot have granted before it)."""
    if o.get("err"):
        return o["err"]
    p, ts = o["per"] // o["rate"], o["starts"]
    for j, t in enumerate(ts):
        if t < (j - SLACK) * p:
            return ("application scan --rate %s, %d workers: probe number %d started %.2f s after the scan began; the rate "
                    "allows no less than (%d-%d)*%.3f s = %.2f s" % (o["rate_str"], o["workers"], j + 1, t / 1e9, j, SLACK,
                                                                     p / 1e9, (j - SLACK) * p / 1e9))
    for i in range(len(ts)):
        for j in range(i + 1, len(ts)):
            if ts[j] - ts[i] < (j - i - SLACK) * p - 50 * 10 ** 6:
                return ("application scan --rate %s, %d workers: %d consecutive probes were started within %.2f s; the rate "
                        "allows no less than %.2f s" % (o["rate_str"], o["workers"], j - i + 1, (ts[j] - ts[i]) / 1e9,
                                                        (j - i - SLACK) * p / 1e9))
    return None


SPEC["slow"] = spec_slow


def quiet_e2e(ctx, tag="q"):
    """`sx arp --rate 1/2s --exit-delay 300ms 10.77.0.0/31` on a quiet wire: a responder answers the first request
    400 ms after it saw it.  The reply must be PRINTED soon after it was on the wire: the receiver must not wait for
    the limiter (a read that times out on the quiet wire is not a probe)."""
    import subprocess
    import time as _t
    exe = os.path.join(ctx.work, "sx")
    with _build_lock:
        if not os.path.exists(exe):
            rc, out = verif.sh(["go", "build", "-o", exe, "."], env=verif.GOENV, cwd=verif.REPO, timeout=900)
            if rc != 0:
                return []
    if not ctx.harness_build("c16"):
        return []
    tool = os.path.join(verif.HBIN, "c16")
    ns = "vc15n%d%s" % (os.getpid(), tag)
    o = {"kind": "quiet", "class": "quiet", "id": 0, "rate_str": "1/2s", "rate": 1, "per": 2 * 10 ** 9, "cmd": "arp",
         "args": "arp -i v0 --rate 1/2s --exit-delay 300ms 10.77.0.0/31"}
    setup = [["ip", "netns", "add", ns],
             ["ip", "-n", ns, "link", "add", "v0", "type", "veth", "peer", "name", "v1"],
             ["ip", "-n", ns, "link", "set", "lo", "up"], ["ip", "-n", ns, "link", "set", "v0", "up"],
             ["ip", "-n", ns, "link", "set", "v1", "up"], ["ip", "-n", ns, "addr", "add", "10.77.0.9/24", "dev", "v0"]]
    try:
        for cmd in setup:
            rc, out = verif.sh(cmd, timeout=20)
            if rc != 0:
                o["err"] = "cannot set up a network namespace: " + out.strip()[:200]
                return [o]
        _t.sleep(0.3)
        respf = os.path.join(ctx.work, "resp%s.jsonl" % tag)
        resp = subprocess.Popen(["ip", "netns", "exec", ns, tool, "-respond", "v1", "-ip", "any", "-after", "400ms",
                                 "-out", respf, "-total", "12s"], stdout=subprocess.PIPE, stderr=subprocess.STDOUT,
                                text=True, cwd=ctx.work)
        if resp.stdout.readline().strip() != "ready":
            o["err"] = "responder did not start"
            resp.kill()
            return [o]
        pr = subprocess.Popen(["ip", "netns", "exec", ns, exe, "arp", "-i", "v0", "--rate", "1/2s", "--exit-delay", "300ms",
                               "10.77.0.0/31"], stdout=subprocess.PIPE, stderr=subprocess.DEVNULL, text=True)
        first = pr.stdout.readline()
        o["printed_unix_ns"] = _t.time_ns() if first else 0
        o["stdout"] = first.strip()
        try:
            pr.wait(timeout=15)
        except subprocess.TimeoutExpired:
            pr.kill()
        resp.wait(timeout=20)
        got = ctx.read_jsonl(respf) if os.path.exists(respf) else []
        if got and got[0].get("reply_sent_unix_ns"):
            o["reply_sent_unix_ns"], o["reply_mac"] = got[0]["reply_sent_unix_ns"], got[0]["reply_mac"]
        else:
            o["err"] = "the responder saw no request"
    except Exception as e:  # noqa: BLE001
        o["err"] = "quiet-wire run failed: %r" % (e,)
    finally:
        verif.sh(["ip", "netns", "del", ns], timeout=20)
    return [o]


def spec_quiet(o):
    if o.get("err"):
        return None
    if not o["printed_unix_ns"] or o["reply_mac"] not in o["stdout"].lower():
        return ("sx %s: the reply put on the wire 400 ms after the first probe was never printed (output %r)"
                % (o["args"], o["stdout"][:120]))
    lat = o["printed_unix_ns"] - o["reply_sent_unix_ns"]
    if lat > 500 * 10 ** 6:
        return ("sx %s on a quiet wire: the reply was printed %d ms after it was on the wire (the receiver waited for "
                "the rate limiter)" % (o["args"], lat // 10 ** 6))
    return None


SPEC["quiet"] = spec_quiet


def slow_stage(ctx, cap_s=12):
    """Rates whose per-second value is fractional (1/m, 21/20s, 41/20s, 61/20s, 1/15s, 81/20s) through the real
    newScanEngine, all in parallel, at most cap_s seconds."""
    ok, _ = ctx.harness_run("c15", ["-out", "slow.jsonl", "-slow", "%ds" % cap_s], timeout=cap_s + 60)
    return ctx.read_jsonl(os.path.join(ctx.work, "slow.jsonl")) if ok else []


def deep_stage(ctx, with_fast=True):
    """Wall-clock stages of the failing-input search / thorough tier, run side by side: the fractional-rate engine runs,
    the slow packet-path runs, and every command of the real binary in three namespaces."""
    from concurrent.futures import ThreadPoolExecutor
    jobs = {}
    with ThreadPoolExecutor(max_workers=6) as ex:
        jobs["slow"] = ex.submit(slow_stage, ctx)
        jobs["quiet"] = ex.submit(quiet_e2e, ctx)
        jobs["high"] = ex.submit(e2e_runs, ctx, IDX_HIGH, "h")
        jobs["slowpkt"] = ex.submit(e2e_runs, ctx, IDX_SLOW[:1], "s")
        jobs["slowpkt2"] = ex.submit(e2e_runs, ctx, IDX_SLOW[1:], "t")
        if with_fast:
            third = (len(IDX_FAST) + 2) // 3
            for g in range(3):
                jobs["fast%d" % g] = ex.submit(e2e_runs, ctx, IDX_FAST[g * third:(g + 1) * third], "f%d" % g)
    rows = []
    for k in sorted(jobs):
        rows += jobs[k].result()
    return rows


def lcase_term(o):
    z = verif.coq_z
    return "{| l_rate := %s; l_per := %s; l_mode := %d; l_in := %s; l_obs := %s |}" % (
        z(o["rate"]), z(o["per"]), o["mode"], verif.coq_list([z(x) for x in o["in"]]),
        verif.coq_list(["(%s, %s, %s)" % (z(a), z(b), z(c)) for a, b, c in o["obs"]]))


def wcase_term(o):
    z = verif.coq_z
    ops = []
    for k, v in o.get("ops") or []:
        ops.append({0: "WWrite %s" % z(v), 1: "WRead", 2: "WScan %s" % z(v)}[k])
    return "{| w_ops := %s; w_log := %s |}" % (
        verif.coq_list(ops), verif.coq_list(["(%s, %s)" % (z(a), z(b)) for a, b in o.get("log") or []]))


def case_file(lrows, wrows):
    body = ["From Coq Require Import ZArith List.", "From SX Require Import Model.Limiter Spec.C15.",
            "Import ListNotations.", "Open Scope Z_scope.",
            "Definition lcases : list lcase := [", ";\n".join(lcase_term(o) for o in lrows), "].",
            "Definition wcases : list wcase := [", ";\n".join(wcase_term(o) for o in wrows), "].",
            "Definition ML := Eval vm_compute in check_lall lcases.",
            "Definition MW := Eval vm_compute in check_wall wcases.",
            "Definition NL := Eval vm_compute in length lcases.",
            "Definition NW := Eval vm_compute in length wcases.",
            "Print ML. Print MW. Print NL. Print NW."]
    return "\n".join(body)


def parse_mismatch(ctx, out, name):
    m = ctx.parse_result(out, name)
    res = []
    if m.strip() not in ("[]", "nil"):
        for idx, codes in re.findall(r"\((\d+), \[([^\]]*)\]\)", m):
            res.append((int(idx), [int(c.strip().strip("()")) for c in codes.split(";") if c.strip()]))
        if not res:
            raise verif.Broken("cannot parse mismatch list", m[:500])
    return res


def key_of(o):
    if o["kind"] in ("lim", "frac"):
        return o["kind"] + ":" + o.get("rate_str", "")
    if o["kind"] == "e2e":
        return "e2e:" + o.get("cmd", "")
    return "%s:%s" % (o["kind"], o.get("class", ""))


def report(ctx, o, why, args):
    small = {k: v for k, v in o.items() if k not in ("obs", "in", "log", "ops", "starts", "ts")}
    for k in ("obs", "in", "log", "ops", "starts", "ts"):
        if o.get(k):
            small[k + "_head"] = o[k][:40]
            small[k + "_len"] = len(o[k])
    path = ctx.write_replay("%s-%d-seed%d" % (o["kind"], o["id"], args["seed"]), {
        "property": "C15", "what": why,
        "input": {"kind": o["kind"], "id": o["id"], "seed": args["seed"], "k": args["k"], "rate": o.get("rate_str")},
        "observed": small, "replay_cmd": "bin/check C15 --replay <this file>"})
    ctx.findings.append({"key": key_of(o), "what": why, "replay": path})


def run_harness(ctx, name, seed, n, wrap, pipe, eng, k=120, timeout=600, frac=40, engerr=4):
    ok, _ = ctx.harness_run("c15", ["-out", name, "-seed", seed, "-n", n, "-wrap", wrap, "-pipe", pipe, "-eng", eng,
                                    "-k", k, "-frac", frac, "-engerr", engerr], timeout=timeout)
    return ctx.read_jsonl(os.path.join(ctx.work, name)) if ok else []


def judge(ctx, rows, args, limit=3):
    bad, per_kind = 0, {}
    for o in rows:
        why = SPEC[o["kind"]](o)
        if why:
            bad += 1
            per_kind[o["kind"]] = per_kind.get(o["kind"], 0) + 1
            if per_kind[o["kind"]] <= limit:      # at most `limit` replay files per kind of run
                report(ctx, o, why, args)
    return bad


def run(ctx):
    quick = ctx.tier == "quick"
    ctx.trusted += [
        "go.uber.org/ratelimit v0.2.0: its atomic Take algorithm is modelled by hand (Model/Limiter.v) and tied by "
        "exact comparison under a fake clock; version, go.sum hash and the defaults (slack 10, window 1 s, atomic "
        "implementation) are translated from go.mod/go.sum/module cache (Gen/RateLib.v, theorem C15_library_pinned)",
        "real time: clock.Sleep sleeps at least the requested duration; scheduling delay between Take returning and "
        "the frame reaching the wire is not modelled (application-engine runs measure it in the safe direction only)",
        "Go memory model: the compare-and-swap loop of Take serialises concurrent callers (modelled by conc_step)",
        "command/verif_export_c15.go hooks (build tag verif)",
    ]
    ctx.assumptions += ["rate count N >= 1 and window W >= 0 (parseRateLimit rejects negatives; N = 0 builds no limiter)",
                        "time.Duration arithmetic does not overflow int64 (runs shorter than 292 years)",
                        "the clock never returns the zero time.Time (year 1), which the library treats as 'first call'"]
    gen_ok = ctx.gen()
    model_ok = gen_ok and ctx.coq_model(["Spec/C15.vo"])
    proof_ok = gen_ok and ctx.coq_proofs("Properties/C15.v")
    rows = []
    args = {"seed": ctx.seed, "k": 120}
    if ctx.harness_build("c15"):
        rows = run_harness(ctx, "cases.jsonl", ctx.seed, 200 if quick else 5000, 60 if quick else 1500,
                           6 if quick else 40, 3 if quick else 7, frac=40 if quick else 1000, engerr=4 if quick else 24)
    for o in rows:
        if o["kind"] == "chunk":
            got = [x[1] for x in o["obs"]]
            if got == CHUNK_WITNESS:
                ctx.info.append("chunk boundary (C15_chunked_scan_refuted replayed on the real library): two limiters as "
                                "startPortScanEngine builds them, 1/s: 12 consecutive grants within 0.3 s; holds again when "
                                "the inter-chunk gap is at least W/N (C15_chunked_scan_partial)")
            else:
                ctx.broken.append(("correspondence: the real library does not reproduce the chunk-boundary witness of "
                                   "C15_chunked_scan_refuted", json.dumps(got)))
            continue
        if o["kind"] in ("lim", "frac") and not o.get("parse_ok"):
            ctx.count(o["kind"] + ":" + o["class"], (o["kind"], o["rate_str"]), nontrivial=False)
            continue
        if o["kind"] == "frac":
            # fractional-window stage: class = window form and unit; the denoted (N, W) is computed here, exactly
            ex = exact_rate(o["rate_str"])
            ctx.count("frac:" + o["class"][5:], ("frac", o["rate_str"], tuple(o["in"])), nontrivial=len(o["obs"]) >= 12,
                      sample={"rate": o["rate_str"], "denotes(count,window_ns)": ex, "parsed(count,window_ns)": [o["rate"], o["per"]],
                              "calls": len(o["obs"]), "grant_span_ns": o["obs"][-1][1] - o["obs"][0][1],
                              "first_calls(now,grant,slept)": o["obs"][:4]})
        elif o["kind"] == "lim":
            p = o["per"] // o["rate"]
            cls = "lim:%s:%s:%s" % ("serial" if o["mode"] == 0 else "scripted", o["class"], "p=0" if p == 0 else "p>0")
            ctx.count(cls, ("lim", o["rate_str"], tuple(o["in"])), nontrivial=len(o["obs"]) >= 12,
                      sample={"rate": o["rate_str"], "count": o["rate"], "window_ns": o["per"], "mode": o["mode"],
                              "calls": len(o["obs"]), "first_calls(now,grant,slept)": o["obs"][:4]})
        elif o["kind"] == "eng" and o["class"].startswith("eng/probe-errors"):
            # probes that fail as scripted: class = stage / shape of the script / error classes that occur in it
            sc = o.get("script") or ""
            kinds = ("local-resource" if set(sc) & set("MNAB") else "") + ("+remote" if set(sc) & set("rtgxuc") else "")
            ctx.count("%s:%s:%s" % (o["kind"], o["class"], kinds.strip("+") or "none"),
                      ("eng", o["id"], sc, o["rate_str"], o["workers"], json.dumps(o.get("starts") or o.get("log"))),
                      nontrivial=bool(o.get("scans")) and any(c != "." for c in sc),
                      sample={"rate": o["rate_str"], "workers": o["workers"], "probes": o["scans"],
                              "outcomes_in_start_order": _outcomes(sc, 0, len(sc) - 1), "takes": o.get("takes"),
                              "errors_reported": o.get("reads"), "first_starts_ns": (o.get("starts") or [])[:6]})
        else:
            ctx.count("%s:%s" % (o["kind"], o["class"]), (o["kind"], o["id"], json.dumps(o.get("ops") or o.get("starts") or o.get("sent"))),
                      nontrivial=bool(o.get("ops") or o.get("scans") or o.get("sent")),
                      sample={k: (v[:6] if isinstance(v, list) else v) for k, v in o.items() if k not in ("kind",)})
    if os.path.exists(os.path.join(verif.HBIN, "c15")):
        erows = e2e_runs(ctx, [(ctx.seed + d) % N_ARP_SPECS for d in (0, 3)] + [IDX_CHUNKS, IDX_HIGH[0]]) if quick else deep_stage(ctx)
        srows = [o for o in erows if o["kind"] == "slow"]
        qrows = [o for o in erows if o["kind"] == "quiet"]
        erows = [o for o in erows if o["kind"] == "e2e"]
        for o in qrows:
            if o.get("err"):
                ctx.skipped.append("quiet-wire e2e: " + o["err"])
                continue
            ctx.count("quiet:arp", ("quiet", o["printed_unix_ns"]), nontrivial=True,
                      sample={"cmd": "sx " + o["args"], "printed_after_reply_ms": (o["printed_unix_ns"] - o["reply_sent_unix_ns"]) // 10 ** 6})
            rows.append(o)
        for o in srows:
            ctx.count("slow:" + o["rate_str"], ("slow", o["rate_str"], o["scans"]), nontrivial=o["scans"] >= 2,
                      sample={"rate": o["rate_str"], "workers": o["workers"], "probes_started": o["scans"],
                              "first_starts_ns": (o.get("starts") or [])[:6]})
        rows += srows
        for o in erows:
            if o.get("err"):
                ctx.skipped.append("e2e sx %s --rate %s: %s" % (o["cmd"], o["rate_str"], o["err"]))
                continue
            ctx.count("e2e:%s:%s" % (o["cmd"], o["rate_str"]), ("e2e", o["cmd"], o["rate_str"], len(o["ts"])), nontrivial=True,
                      sample={"cmd": "sx %s --rate %s" % (o["args"], o["rate_str"]), "probes_seen": len(o["ts"]),
                              "span_ns": o["ts"][-1] - o["ts"][0], "first_ts": o["ts"][:6]})
        rows += [o for o in erows if not o.get("err")]
    judge(ctx, rows, args)
    # the first three findings are printed: one per kind of run first (fractional-window stage, engine, limiter, ...)
    _kinds = ["frac", "eng", "lim"]
    _rank, _seen = {}, {}
    for fd in ctx.findings:
        kd = fd["key"].split(":")[0]
        _seen[kd] = _seen.get(kd, 0) + 1
        _rank[id(fd)] = (_seen[kd], _kinds.index(kd) if kd in _kinds else len(_kinds))
    ctx.findings.sort(key=lambda fd: _rank[id(fd)])
    # model vs implementation, inside Coq
    lrows = [o for o in rows if o["kind"] in ("lim", "frac") and o.get("parse_ok")]
    wrows = [o for o in rows if o["kind"] == "wrap"]
    if model_ok and (lrows or wrows):
        nshards = 8 if quick else 32
        lsz = max(1, (len(lrows) + nshards - 1) // nshards)
        wsz = max(1, (len(wrows) + nshards - 1) // nshards)
        parts = [(lrows[i * lsz:(i + 1) * lsz], wrows[i * wsz:(i + 1) * wsz]) for i in range(nshards)]
        parts = [pt for pt in parts if pt[0] or pt[1]]
        outs = ctx.coq_eval_many([("cases_%d" % i, case_file(l, w)) for i, (l, w) in enumerate(parts)], workers=8)
        for (l, w), out in zip(parts, outs):
            if int(ctx.parse_result(out, "NL")) != len(l) or int(ctx.parse_result(out, "NW")) != len(w):
                raise verif.Broken("case count differs between harness and model")
            for idx, codes in parse_mismatch(ctx, out, "ML"):
                o = l[idx]
                at = codes[1] if len(codes) > 1 else -1
                ctx.broken.append(("correspondence: limiter --rate %s (case %s,%d), call %d: %s" % (
                    o["rate_str"], o["kind"], o["id"], at, CODES[1]),
                    json.dumps({"rate": o["rate"], "per": o["per"], "mode": o["mode"], "in": o["in"][:at + 2],
                                "obs": o["obs"][max(0, at - 2):at + 2]})[:600]))
            for idx, codes in parse_mismatch(ctx, out, "MW"):
                o = w[idx]
                ctx.broken.append(("correspondence: wrapper case wrap,%d: %s" % (o["id"], CODES[2]),
                                   json.dumps({"ops": o["ops"], "log": o["log"]})[:300]))
            ctx.cov["traces_validated_against_impl"] += len(l) + len(w)
    if ctx.broken and not ctx.findings and os.path.exists(os.path.join(verif.HBIN, "c15")) \
            and not any("harness c15 does not build" in w for w, _ in ctx.broken):
        # a proof or a tie broke: look harder for a concrete input on which the real code breaks the property
        sd = ctx.seed + 101
        a2 = {"seed": sd, "k": 400}
        more = run_harness(ctx, "search.jsonl", sd, 600, 300, 10, 7, k=400, timeout=300, frac=400, engerr=12)
        if not judge(ctx, [o for o in more if o["kind"] not in ("lim", "frac") or o.get("parse_ok")], a2):
            deep = deep_stage(ctx)
            for o in deep:
                if o.get("err") and o["kind"] == "e2e":
                    ctx.skipped.append("e2e sx %s --rate %s: %s" % (o["cmd"], o["rate_str"], o["err"]))
            deep.sort(key=lambda o: (o["kind"], o.get("id", 0) < IDX_CHUNKS))     # packet-path evidence first
            judge(ctx, [o for o in deep if not (o.get("err") and o["kind"] in ("e2e", "quiet"))], a2, limit=4)
    return ctx.finish(rule=RULE)


def replay(ctx, path):
    r = json.load(open(path))
    if "input" not in r:
        print(json.dumps(r, indent=1))
        return 1
    i = r["input"]
    if not ctx.harness_build("c15"):
        return 1
    if i["kind"] == "quiet":
        got = quiet_e2e(ctx)
        why = spec_quiet(got[0]) if got else None
        print("replay quiet-wire e2e: %s" % (why or (got and got[0].get("err")) or "property holds on this run"))
        return 1 if why else 0
    if i["kind"] == "slow":
        ok, out = ctx.harness_run("c15", ["-out", "one.jsonl", "-slow", "12s", "-slowonly", i["id"]], timeout=120)
        o = ctx.read_jsonl(os.path.join(ctx.work, "one.jsonl"))[0] if ok else {"err": out[-300:]}
        why = spec_slow(o)
        print("replay application scan --rate %s: %s" % (i.get("rate"), why or "property holds on this run"))
        return 1 if why else 0
    if i["kind"] == "e2e":
        got = e2e_runs(ctx, [i["id"]])
        why = spec_e2e(got[0]) if got else None
        print("replay sx %s --rate %s: %s" % (got[0]["args"] if got else "", i.get("rate"),
                                               why or (got and got[0].get("err")) or "property holds on this run"))
        return 1 if why else 0
    ok, out = ctx.harness_run("c15", ["-out", "one.jsonl", "-seed", i["seed"], "-k", i["k"], "-n", 1000000, "-wrap", 1000000,
                                      "-pipe", 1000, "-eng", 7, "-frac", i["id"] + 1 if i["kind"] == "frac" else 1,
                                      "-engerr", i["id"] % 100 + 1 if i["kind"] == "eng" and i["id"] >= 300 else 0,
                                      "-one", "%s,%d" % (i["kind"], i["id"])], timeout=300)
    if not ok:
        print(out)
        return 1
    o = ctx.read_jsonl(os.path.join(ctx.work, "one.jsonl"))[0]
    why = SPEC[o["kind"]](o)
    print("replay %s,%d seed=%d rate=%s: %s" % (i["kind"], i["id"], i["seed"], i.get("rate"),
                                                why or "property holds on this input"))
    return 1 if why else 0


MANIFEST = {
    "technique": "Coq proof (GCRA invariant of the atomic limiter by induction over the call sequence; trace lemmas for "
                 "the wrappers) + translated wiring + exact differential correspondence under a fake clock",
    "level_text": "Theorems C15_spacing / C15_spacing_rational / C15_spacing_any_state (all call-time sequences, all "
                  "rates N>=1, W>=0), C15_window, C15_leave_sequential, C15_spacing_concurrent (every interleaving of the "
                  "lock-free Take loop), C15_charged_once, C15_take_before_probe, C15_reads_free, C15_wiring, "
                  "C15_limiter_iff_positive and C15_library_pinned over the wiring regenerated from command/*.go and go.mod; the real uber limiter is "
                  "compared call by call with the model on generated rates and call times, the real wrappers call by "
                  "call with a counting limiter.",
    "level_note": "Partial: real time and scheduling are not modelled (grant = time Take returns under an ideal clock); "
                  "the bound uses floor(W/N) as the library does (< 1 ns per probe below W/N). Trusted: Coq kernel + VM, "
                  "tools/gen wiring transcription, hand model of ratelimit v0.2.0, harness comparison. No axioms.",
    "design_ref": "DESIGN.md section 5 (C15)",
}
