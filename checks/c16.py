"""C16 -- exit delay is honoured: no cancellation before done + delay, late replies reported, then it exits."""
import json
import os
import re
import subprocess
import time

import verif

RULE = ("scripts for the real startScanEngine: exit delay 0, negative, 20..200 ms; done closed after 10..60 ms or never; "
        "caller cancellation none / before done / inside the delay / late; 0..6 results offered early, inside the exit "
        "delay (late replies) or after the cancellation; 0..2 errors; errc closed 0..20 ms after ctx.Done or never; "
        "Results() closed 0..25 ms after ctx.Done or never. Non-trivial = done was closed and at least one result was "
        "offered; distinct by the whole script")

CODES = {1: "results written by the real logger differ from the model run on the measured events",
         2: "errors logged differ from the model", 3: "returned / did not return differs from the model"}
MARGIN = 15 * 10 ** 6     # ns; used only to decide which assertions apply, never to excuse a violation
MS = 10 ** 6


def spec_on_impl(o):
    """The property judged on the measured run alone; every inequality is in the safe direction."""
    k = o["script"]
    k["results"] = k.get("results") or []
    k["errs"] = k.get("errs") or []
    o["logged"] = o.get("logged") or []
    delay, done, parent = k["delay"], o["done_at"], o["parent_at"]
    ctxd, ret = o["ctx_done_at"], o["return_at"] if o["returned"] else None
    if o["returned"] and o.get("out_at_return") is not None:
        snap = o["out_at_return"]
        if snap and not snap.endswith("\n"):
            return ("at the moment startScanEngine returned the output ended in the middle of a record: %r (slow output: the "
                    "record of result %s, offered %d ms before the exit delay ran out, is accepted in two pieces %d ms apart)"
                    % (snap[-12:], k.get("slow_id"), ((done + delay) - max(r["start"] for r in k["results"] if r["taken"])) // MS
                       if any(r["taken"] for r in k["results"]) else -1, k.get("slow_gap", 0) // MS))
        at_return = [ln for ln in snap.split("\n") if ln]
        want = ["id=%d" % r["id"] for r in k["results"] if r["taken"] and 0 <= r["end"] <= ret]
        if any(x not in at_return for x in want):
            return ("at the moment startScanEngine returned, the records of results the logger had taken before (%s) were not "
                    "all written: %r" % (want, snap))
    if o.get("bad_output"):
        return "incomplete or foreign record in the output: %s" % o["bad_output"]
    if o["default_ns"] != 300 * MS:
        return "a configuration built without --exit-delay waits %d ns, not 300 ms" % o["default_ns"]
    caller_cancelled = lambda t: parent >= 0 and parent <= t    # noqa: E731
    if ctxd >= 0 and not caller_cancelled(ctxd):
        if done < 0:
            return "the scan's context was cancelled at %d ns although done was never closed and nobody cancelled" % ctxd
        if ctxd < done + delay:
            return ("the scan's context was cancelled %d ns after done was closed; the exit delay is %d ns"
                    % (ctxd - done, delay))
    if ret is not None and not caller_cancelled(ret):
        if done < 0:
            return "startScanEngine returned at %d ns although done was never closed and nobody cancelled" % ret
        if ret < done + delay:
            return "startScanEngine returned %d ns after done was closed; the exit delay is %d ns" % (ret - done, delay)
    taken = [r["id"] for r in k["results"] if r["taken"]]
    if o["logged"] != taken:
        return "results taken from the engine %s, records written %s" % (taken, o["logged"])
    for r in k["results"]:
        if r["start"] < 0:
            continue
        limit = []
        if done >= 0:
            limit.append(done + max(delay, 0))
        if parent >= 0:
            limit.append(parent)
        if o["res_closed"] >= 0:
            limit.append(o["res_closed"])
        if all(r["start"] + MARGIN <= x for x in limit) and not r["taken"]:
            why = "inside the exit delay" if done >= 0 and r["start"] > done else "while the scan was running"
            return ("result %d offered at %d ns (%s: done at %d ns, delay %d ns) was never taken by the logger"
                    % (r["id"], r["start"], why, done, delay))
    if not o["expect_hang"]:
        if not o["returned"]:
            return "startScanEngine did not return although done was closed / the caller cancelled and errc was closed"
        bound = max(ctxd, o["errc_closed"]) + 2000 * MS
        if ret > bound:
            return "startScanEngine returned %d ns after cancellation and close of errc" % (ret - max(ctxd, o["errc_closed"]))
    return None


def ev_list(o):
    z = verif.coq_z
    k = o["script"]
    evs = []
    if o["done_at"] >= 0:
        evs.append("(%s, EvDone)" % z(o["done_at"]))
    if o["parent_at"] >= 0:
        evs.append("(%s, EvParentCancel)" % z(o["parent_at"]))
    for r in k["results"] or []:
        if r["start"] >= 0:
            evs.append("(%s, EvResult %s)" % (z(r["start"]), z(r["id"])))
    for r in k["errs"] or []:
        if r["start"] >= 0:
            evs.append("(%s, EvErr %s)" % (z(r["start"]), z(r["id"])))
    if o["errc_closed"] >= 0:
        evs.append("(%s, EvErrcClosed)" % z(o["errc_closed"]))
    if o["res_closed"] >= 0:
        evs.append("(%s, EvResultsClosed)" % z(o["res_closed"]))
    return evs


def case_term(o):
    z = verif.coq_z
    return "{| c_delay := %s; c_evs := %s; c_logged := %s; c_errors := %s; c_returned := %s |}" % (
        z(o["script"]["delay"]), verif.coq_list(ev_list(o)), verif.coq_list([z(x) for x in o["logged"] or []]),
        verif.coq_list([z(x) for x in o["errors_seen"] or []]), verif.coq_bool(o["returned"]))


def case_file(rows):
    return "\n".join(["From Coq Require Import ZArith List.", "From SX Require Import Model.ScanCall Spec.C16.",
                      "Import ListNotations.", "Open Scope Z_scope.",
                      "Definition cases : list case := [", ";\n".join(case_term(o) for o in rows), "].",
                      "Definition M := Eval vm_compute in check_all 0 cases.",
                      "Definition L := Eval vm_compute in length cases.", "Print M. Print L."])


def parse_eval(ctx, out, nrows):
    m = ctx.parse_result(out, "M")
    if int(ctx.parse_result(out, "L")) != nrows:
        raise verif.Broken("case count differs between harness and model")
    res = []
    if m.strip() not in ("[]", "nil"):
        for idx, codes in re.findall(r"\((\d+), \[([^\]]*)\]\)", m):
            res.append((int(idx), [int(c.strip().strip("()")) for c in codes.split(";") if c.strip()]))
        if not res:
            raise verif.Broken("cannot parse mismatch list", m[:500])
    return res


def report(ctx, o, why, seed, n):
    small = {k: v for k, v in o.items() if k not in ("output",) or o.get("kind") == "burst"}
    tag = "case%s" % o["id"] if o.get("kind", "script") == "script" else "%s-%s" % (o["kind"], o["id"])
    inp = {"kind": o.get("kind", "script"), "id": o["id"], "seed": seed, "n": n}
    if o.get("kind") == "burst":   # the concrete history: what was put on the link, and when
        inp.update({"scan": "arp %s, source 10.9.x.3, in-memory link" % o["subnet"], "exit_delay_ms": o["delay"] // MS,
                    "frames_queued_ms_after_last_probe": o["lead"] // MS,
                    "frames": "%d x %s (ethernet + %d bytes of ARP, undecodable), then 1 x %s (ARP reply of %s)"
                              % (o["burst"], o["runt_hex"], o["runt_len"] - 14, o["reply_hex"], o["host"])})
    path = ctx.write_replay("%s-seed%d" % (tag, seed), {
        "property": "C16", "what": why, "input": inp,
        "observed": small, "replay_cmd": "bin/check C16 --replay <this file>"})
    key = "%s:%s" % (o.get("kind", "script"), o.get("class", ""))
    ctx.findings.append({"key": key, "what": why, "replay": path})


# ---------------------------------------------------------------- end to end: the real binary in a network namespace
# (exit delay D ms, the reply is sent L ms after the request was seen).  The first four answer in the middle of the delay;
# the LATE ones answer 110..150 ms before the delay runs out: the receive path (AF_PACKET ring: the kernel hands a block
# of frames over when it is full or when the block timeout expires, gopacket default 64 ms) must surface the reply in
# time.  D values have different residues so that a longer hand-over period T is exposed for most T (a reply is lost when
# no multiple of T after the socket was opened falls between its arrival and the cancellation).
E2E = [(400, 200), (250, 100), (600, 360), (300, 150)]
LATE = [(400, 250), (400, 290), (450, 340), (700, 550), (350, 240), (600, 490)]
ALL_E2E = E2E + LATE
_sx_lock = __import__("threading").Lock()


def build_sx(ctx):
    exe = os.path.join(ctx.work, "sx")
    with _sx_lock:
        if not os.path.exists(exe):
            rc, out = verif.sh(["go", "build", "-o", exe, "."], env=verif.GOENV, cwd=verif.REPO, timeout=900)
            if rc != 0:
                ctx.broken.append(("correspondence: the sx binary does not build from the current tree", out[-1500:]))
                return None
    return exe


def e2e_runs(ctx, idxs, tag=""):
    """`sx arp --exit-delay D 10.78.0.0/30` in a private netns; a responder on the veth peer answers the request for
    10.78.0.2 only L ms after it saw it.  Observed: the reply is printed; the process exits no earlier than D after
    the last probe was seen on the wire.  Calls with different tags may run in parallel (one namespace each)."""
    rows = []
    exe = build_sx(ctx)
    if not exe:
        return rows
    ns = "vc16n%d%s" % (os.getpid(), tag)
    tool = os.path.join(verif.HBIN, "c16")
    setup = [["ip", "netns", "add", ns],
             ["ip", "-n", ns, "link", "add", "v0", "type", "veth", "peer", "name", "v1"],
             ["ip", "-n", ns, "link", "set", "lo", "up"], ["ip", "-n", ns, "link", "set", "v0", "up"],
             ["ip", "-n", ns, "link", "set", "v1", "up"], ["ip", "-n", ns, "addr", "add", "10.78.0.1/24", "dev", "v0"]]
    try:
        for cmd in setup:
            rc, out = verif.sh(cmd, timeout=20)
            if rc != 0:
                ctx.skipped.append("e2e runs skipped: cannot set up a network namespace (%s: %s)" % (" ".join(cmd), out.strip()[:200]))
                return rows
        time.sleep(0.3)
        for n, i in enumerate(idxs):
            d_ms, after_ms = ALL_E2E[i % len(ALL_E2E)]
            respf = os.path.join(ctx.work, "resp%s_%d.jsonl" % (tag, n))
            resp = subprocess.Popen(["ip", "netns", "exec", ns, tool, "-respond", "v1", "-ip", "10.78.0.2", "-after",
                                     "%dms" % after_ms, "-out", respf, "-total", "20s"],
                                    stdout=subprocess.PIPE, stderr=subprocess.STDOUT, text=True, cwd=ctx.work)
            o = {"kind": "e2e", "class": "e2e", "id": i % len(ALL_E2E), "delay_ms": d_ms, "reply_after_ms": after_ms}
            try:
                line = resp.stdout.readline()
                if line.strip() != "ready":
                    o["err"] = "responder did not start: " + line.strip()[:200]
                else:
                    p = subprocess.run(["ip", "netns", "exec", ns, exe, "arp", "-i", "v0", "--exit-delay", "%dms" % d_ms,
                                        "10.78.0.0/30"], stdout=subprocess.PIPE, stderr=subprocess.PIPE, text=True, timeout=60)
                    o["exit_unix_ns"] = time.time_ns()
                    o["sx_rc"], o["stdout"] = p.returncode, p.stdout[-2000:]
                    if p.returncode != 0:
                        o["err"] = "sx arp failed: " + p.stderr.strip()[-300:]
                resp.wait(timeout=40)
                if os.path.exists(respf):
                    got = ctx.read_jsonl(respf)
                    if got:
                        o.update({"last_probe_unix_ns": got[0]["last_probe_unix_ns"], "probes": got[0]["probes"],
                                  "reply_sent_unix_ns": got[0]["reply_sent_unix_ns"], "reply_mac": got[0]["reply_mac"]})
            except Exception as e:  # noqa: BLE001
                o["err"] = "e2e run failed: %r" % (e,)
                resp.kill()
            if not o.get("err") and not o.get("reply_sent_unix_ns"):
                o["err"] = "the responder saw no request for 10.78.0.2"
            rows.append(o)
    finally:
        verif.sh(["ip", "netns", "del", ns], timeout=20)
    return rows


def e2e_parallel(ctx, idxs):
    """One namespace per run, all at once (each run is a sleeping process: no load)."""
    from concurrent.futures import ThreadPoolExecutor
    if not build_sx(ctx):
        return []
    with ThreadPoolExecutor(max_workers=max(1, min(8, len(idxs)))) as ex:
        futs = [ex.submit(e2e_runs, ctx, [i], "p%d" % n) for n, i in enumerate(idxs)]
        return [o for f in futs for o in f.result()]


LATE_MARGIN_MS = 100    # a reply sent later than D - 100 ms after the last probe (responder stalled) is not judged


def reply_missed(o):
    if o.get("err"):
        return False
    if (o["reply_sent_unix_ns"] - o["last_probe_unix_ns"]) > (o["delay_ms"] - LATE_MARGIN_MS) * MS:
        return False
    return "10.78.0.2" not in o["stdout"] or o["reply_mac"] not in o["stdout"].lower()


def confirm_misses(ctx, rows):
    """A reply that was not reported is reported as a violation only if the same run, repeated alone four more times,
    misses it at least once more (a single miss can be scheduling noise on a loaded machine)."""
    out, confirmed = [], False
    for o in rows:
        if not reply_missed(o):
            out.append(o)
            continue
        if confirmed:
            continue          # one confirmed failing input is enough; do not spend time on the others
        again = e2e_runs(ctx, [o["id"]] * 4, "c%d" % o["id"])
        misses = 1 + sum(1 for a in again if reply_missed(a))
        o["attempts"], o["misses"] = 1 + len([a for a in again if not a.get("err")]), misses
        if misses >= 2:
            out.append(o)
            confirmed = True
        else:
            ctx.info.append("e2e --exit-delay %dms, reply after %dms: missed once, reported in %d repeated runs (not a finding)"
                            % (o["delay_ms"], o["reply_after_ms"], o["attempts"] - 1))
            o["stdout"] = again[0]["stdout"] if again and not again[0].get("err") else o["stdout"]
            if not reply_missed(o):
                out.append(o)
    return out


CMDS = [("arp", ["arp", "-i", "v0", "10.78.0.0/30"]),
        ("icmp", ["icmp", "-i", "v0", "-a", "ARP", "10.78.0.2/32"]),
        ("tcp", ["tcp", "--flags", "syn,ack", "-i", "v0", "-a", "ARP", "-p", "80", "10.78.0.2/32"]),
        ("tcp syn", ["tcp", "syn", "-i", "v0", "-a", "ARP", "-p", "80", "10.78.0.2/32"]),
        ("tcp fin", ["tcp", "fin", "-i", "v0", "-a", "ARP", "-p", "80", "10.78.0.2/32"]),
        ("tcp null", ["tcp", "null", "-i", "v0", "-a", "ARP", "-p", "80", "10.78.0.2/32"]),
        ("tcp xmas", ["tcp", "xmas", "-i", "v0", "-a", "ARP", "-p", "80", "10.78.0.2/32"]),
        ("udp", ["udp", "-i", "v0", "-a", "ARP", "-p", "53", "10.78.0.2/32"]),
        ("socks", ["socks", "-p", "9", "10.78.0.1/32"]),
        ("docker", ["docker", "-p", "9", "10.78.0.1/32"]),
        ("elastic", ["elastic", "-p", "9", "10.78.0.1/32"]),
        # more than 200 port RANGES: startPortScanEngine runs 3 chunks, each a complete scan with its own exit delay
        ("tcp syn (450 port ranges, 3 chunks)", ["tcp", "syn", "-i", "v0", "-a", "ARP", "-p",
                                                 ",".join(str(x) for x in range(1001, 1901, 2)), "10.78.0.2/32"])]
IDX_CHUNKED = len(CMDS) - 1
CHUNKS = {IDX_CHUNKED: 3}


def cmd_runs(ctx, idxs, delay_ms=700, tag=""):
    """Every scan command of the real binary with --exit-delay D in a private netns: the process must live at least D
    (wall time from before it is started to after it has exited: at least exit - done)."""
    rows = []
    exe = build_sx(ctx)
    if not exe:
        return rows
    ns = "vc16m%d%s" % (os.getpid(), tag)
    arp = os.path.join(ctx.work, "arp.cache")
    with open(arp, "w") as f:
        f.write('{"ip":"10.78.0.2","mac":"02:00:00:c1:60:02"}\n')
    setup = [["ip", "netns", "add", ns],
             ["ip", "-n", ns, "link", "add", "v0", "type", "veth", "peer", "name", "v1"],
             ["ip", "-n", ns, "link", "set", "lo", "up"], ["ip", "-n", ns, "link", "set", "v0", "up"],
             ["ip", "-n", ns, "link", "set", "v1", "up"], ["ip", "-n", ns, "addr", "add", "10.78.0.1/24", "dev", "v0"]]
    try:
        for cmd in setup:
            rc, out = verif.sh(cmd, timeout=20)
            if rc != 0:
                ctx.skipped.append("command runs skipped: cannot set up a network namespace (%s)" % out.strip()[:200])
                return rows
        time.sleep(0.3)
        for i in idxs:
            name, args = CMDS[i % len(CMDS)]
            args = [arp if a == "ARP" else a for a in args]
            o = {"kind": "cmd", "class": "cmd", "id": i % len(CMDS), "cmd": name, "delay_ms": delay_ms,
                 "chunks": CHUNKS.get(i % len(CMDS), 1)}
            t0 = time.monotonic_ns()
            try:
                p = subprocess.run(["ip", "netns", "exec", ns, exe] + args + ["--exit-delay", "%dms" % delay_ms],
                                   stdout=subprocess.PIPE, stderr=subprocess.PIPE, text=True, timeout=60)
                o["wall_ns"] = time.monotonic_ns() - t0
                o["sx_rc"] = p.returncode
                if p.returncode != 0:
                    o["err"] = "sx %s failed: %s" % (name, p.stderr.strip()[-300:])
            except Exception as e:  # noqa: BLE001
                o["err"] = "run failed: %r" % (e,)
            rows.append(o)
    finally:
        verif.sh(["ip", "netns", "del", ns], timeout=20)
    return rows


# ---------------------------------------------------------------- instant stages: option value, receiver latency
def pkt_stage(ctx):
    """Real startScanEngine over the real packet engine on an in-memory link / the real application engine, real plain
    logger; a frame write that fails with ENOBUFS, one output write that fails (ENOSPC, EIO)."""
    ok, _ = ctx.harness_run("c16", ["-pkt", "-seed", ctx.seed, "-out", "pkt.jsonl"], timeout=120)
    return ctx.read_jsonl(os.path.join(ctx.work, "pkt.jsonl")) if ok else []


def spec_burst(o):
    """Real startScanEngine over the real packet engine with the real ARP scan method (harness burst.go): once all probes
    have left, `burst` frames that pass the capture filter but are cut short (the method's decoder rejects them) are put
    on the link AHEAD of one genuine reply, a few tens of ms after the last probe.  The property, on the run alone: the
    reply -- on the link >= 150 ms before the exit delay ran out -- is reported, nothing else is, the call does not return
    before the delay is over, and it returns."""
    d = o["delay"]
    head = ("arp scan of %s over the real packet engine (%s, seed %d case %d, exit delay %d ms; %d frames of %d bytes that pass "
            "the filter `arp` but are cut short (%s) are on the link %d ms after the last probe, AHEAD of the reply of %s)"
            % (o["subnet"], o["class"], o["seed"], o["id"], d // MS, o["burst"], o["runt_len"], o["runt_hex"],
               o["lead"] // MS, o["host"]))
    if not o["returned"]:
        return head + ": startScanEngine did not return"
    out = o["output"] or ""
    if out and not out.endswith("\n"):
        return head + ": the output ends in the middle of a record: %r" % out[-30:]
    writes = o["writes"] or []
    if len(writes) < o["probes"] or o["inject_at"] < 0:
        return None            # not all probes left: nothing was put on the link (not this property's business)
    last = max(writes)
    if o["return_at"] < last + d:
        return head + ": the scan returned %d ms after the last probe was on the link" % ((o["return_at"] - last) // MS)
    printed = [ln.split() for ln in out.split("\n") if ln]
    want = [o["host"], o["host_mac"]]
    for rec in printed:
        if rec[:2] != want:
            return head + ": a record was printed that no frame on the link carried: %r" % " ".join(rec)
    if o["inject_at"] <= last + d - 150 * MS and want not in [rec[:2] for rec in printed]:
        return (head + ": the reply, on the link %d ms after the last probe (%d ms before the exit delay ran out), was not "
                "reported before the scan returned (%d ms after the last probe); %d of the %d undecodable frames had been "
                "handed to the error log, %d frames were still unread on the link; output %r"
                % ((o["inject_at"] - last) // MS, (last + d - o["inject_at"]) // MS, (o["return_at"] - last) // MS,
                   o["errors"], o["burst"], o["left_queued"], out))
    return None


def spec_pkt(o):
    d = o["delay"]
    what = {"pkt": "packet scan", "gen": "application scan"}[o["kind"]]
    fault = ""
    if o["fail_probe"]:
        fault += ", the first write of probe %d fails with ENOBUFS" % o["fail_probe"]
    if o["fail_write"]:
        fault += ", write number %d to the output fails with %s" % (o["fail_write"], o["fail_err"])
    head = "%s (%s, exit delay %d ms%s)" % (what, o["class"], d // MS, fault)
    if not o["returned"]:
        return head + ": startScanEngine did not return"
    out = o["output"] or ""
    if out and not out.endswith("\n"):
        return head + ": the output ends in the middle of a record: %r" % out[-20:]
    printed = [ln for ln in out.split("\n") if ln]
    lost = set(o.get("lost") or [])
    if o["kind"] == "pkt":
        on_wire = {}
        for w in o["writes"] or []:
            if w["ok"]:
                on_wire[w["probe"]] = w["at"]
        if on_wire:
            last = max(on_wire.values())
            if o["return_at"] < last + d:
                return (head + ": the scan returned %d ms after the last probe (probe %d) was really on the wire"
                        % ((o["return_at"] - last) // MS, max(on_wire, key=on_wire.get)))
        for probe, t in o["injects"] or []:
            rec = "id=%d" % probe
            if probe in on_wire and t <= on_wire[probe] + d - 60 * MS and rec not in lost and rec not in printed:
                return (head + ": the reply to probe %d, on the link %d ms after the probe left (%d ms before the exit delay ran "
                        "out), was not reported; output %r" % (probe, (t - on_wire[probe]) // MS,
                                                               (on_wire[probe] + d - t) // MS, out))
    else:
        if o["return_at"] < o["last_scan_end"] + d:
            return (head + ": the scan returned %d ms after the last probe had finished" % ((o["return_at"] - o["last_scan_end"]) // MS))
        want = ["id=%d" % i for i in range(1, o["probes"] + 1) if "id=%d" % i not in lost]
        if printed != want:
            return head + ": results %s, records printed %s" % (want, printed)
    return None


def parse_stage(ctx):
    """--exit-delay D through every command's own flag set + parseRawOptions (hook): the value handed to withExitDelay."""
    ok, _ = ctx.harness_run("c16", ["-parse", "-out", "parse.jsonl"], timeout=60)
    return ctx.read_jsonl(os.path.join(ctx.work, "parse.jsonl")) if ok else []


def spec_parse(o):
    if o.get("err"):
        return "sx %s --exit-delay %s is rejected: %s" % (o["cmd"], o["arg"], o["err"])
    if o["got_ns"] != o["want_ns"]:
        if not o["given"]:
            return "sx %s without --exit-delay: the scan would wait %d ns, not the default 300 ms" % (o["cmd"], o["got_ns"])
        return ("sx %s --exit-delay %s: the exit delay that reaches startScanEngine is %d ns, not %d ns"
                % (o["cmd"], o["arg"], o["got_ns"], o["want_ns"]))
    return None


def rx_stage(ctx, max_n):
    """Real packet.NewReceiver over a reader that is quiet (N temporary errors in a row) and then has a frame."""
    ok, _ = ctx.harness_run("c16", ["-rx", max_n, "-out", "rx.jsonl"], timeout=120)
    return ctx.read_jsonl(os.path.join(ctx.work, "rx.jsonl")) if ok else []


def spec_rx(o):
    """A reply must reach the processor as soon as it is readable, however long the source was quiet before: the delay
    after N consecutive temporary read errors must stay below 60 ms (it is microseconds when reads are retried at once)."""
    if not o["processed_at"]:
        return ("receiver: after %d consecutive %s read errors a frame that was readable at %d ms did not reach the processor "
                "within 8 s" % (o["n"], o["err_kind"], o["frame_at"] // MS))
    d = o["processed_at"] - o["frame_at"]
    if d > 60 * MS:
        return ("receiver: after %d consecutive %s read errors (a quiet wire) a frame that was readable at %d ms reached the "
                "processor %d ms later; a reply in the last %d ms of the exit delay would be lost"
                % (o["n"], o["err_kind"], o["frame_at"] // MS, d // MS, d // MS))
    return None


def quiet_phase_runs(ctx, quiets_ms=(3500, 4600), delay_ms=400, after_ms=100):
    """`sx arp --rate 1/<Q>ms --exit-delay 400ms 10.78.0.0/31`: two probes Q ms apart with a silent wire in between
    (dozens of empty polls); the responder ignores the first request and answers the second 100 ms after it saw it.
    The reply is 300 ms inside the exit delay and must be printed.  One namespace per run, side by side."""
    from concurrent.futures import ThreadPoolExecutor
    exe = build_sx(ctx)
    if not exe:
        return []
    tool = os.path.join(verif.HBIN, "c16")

    def one(n, q):
        ns = "vc16q%d_%d" % (os.getpid(), n)
        o = {"kind": "quietphase", "class": "quietphase", "id": n, "quiet_ms": q, "delay_ms": delay_ms, "reply_after_ms": after_ms,
             "cmd": "sx arp -i v0 --rate 1/%dms --exit-delay %dms 10.78.0.0/31" % (q, delay_ms)}
        setup = [["ip", "netns", "add", ns],
                 ["ip", "-n", ns, "link", "add", "v0", "type", "veth", "peer", "name", "v1"],
                 ["ip", "-n", ns, "link", "set", "lo", "up"], ["ip", "-n", ns, "link", "set", "v0", "up"],
                 ["ip", "-n", ns, "link", "set", "v1", "up"], ["ip", "-n", ns, "addr", "add", "10.78.0.9/24", "dev", "v0"]]
        try:
            for cmd in setup:
                rc, out = verif.sh(cmd, timeout=20)
                if rc != 0:
                    o["err"] = "cannot set up a network namespace: " + out.strip()[:200]
                    return o
            time.sleep(0.3)
            respf = os.path.join(ctx.work, "respq_%d.jsonl" % n)
            resp = subprocess.Popen(["ip", "netns", "exec", ns, tool, "-respond", "v1", "-ip", "any", "-skip", "1", "-after",
                                     "%dms" % after_ms, "-out", respf, "-total", "25s"],
                                    stdout=subprocess.PIPE, stderr=subprocess.STDOUT, text=True, cwd=ctx.work)
            if resp.stdout.readline().strip() != "ready":
                o["err"] = "responder did not start"
                resp.kill()
                return o
            p = subprocess.run(["ip", "netns", "exec", ns, exe, "arp", "-i", "v0", "--rate", "1/%dms" % q, "--exit-delay",
                                "%dms" % delay_ms, "10.78.0.0/31"], stdout=subprocess.PIPE, stderr=subprocess.PIPE, text=True,
                               timeout=60)
            o["exit_unix_ns"], o["stdout"], o["sx_rc"] = time.time_ns(), p.stdout[-1000:], p.returncode
            if p.returncode != 0:
                o["err"] = "sx arp failed: " + p.stderr.strip()[-300:]
            resp.wait(timeout=40)
            got = ctx.read_jsonl(respf) if os.path.exists(respf) else []
            if got and got[0].get("reply_sent_unix_ns"):
                o.update({"last_probe_unix_ns": got[0]["last_probe_unix_ns"], "probes": got[0]["probes"],
                          "reply_sent_unix_ns": got[0]["reply_sent_unix_ns"], "reply_mac": got[0]["reply_mac"]})
            elif not o.get("err"):
                o["err"] = "the responder saw no second request"
        except Exception as e:  # noqa: BLE001
            o["err"] = "quiet-phase run failed: %r" % (e,)
        finally:
            verif.sh(["ip", "netns", "del", ns], timeout=20)
        return o

    with ThreadPoolExecutor(max_workers=len(quiets_ms)) as ex:
        return list(ex.map(lambda a: one(*a), enumerate(quiets_ms)))


def quiet_missed(o):
    if o.get("err"):
        return False
    if o["reply_sent_unix_ns"] - o["last_probe_unix_ns"] > (o["delay_ms"] - LATE_MARGIN_MS) * MS:
        return False
    return o["reply_mac"] not in o["stdout"].lower()


def spec_quietphase(o):
    if quiet_missed(o):
        return ("%s: after %d ms of silence on the wire, the reply put on the wire %d ms after the last probe (%d ms before the "
                "exit delay ran out) was not reported%s; output %r"
                % (o["cmd"], o["quiet_ms"], (o["reply_sent_unix_ns"] - o["last_probe_unix_ns"]) // MS,
                   o["delay_ms"] - (o["reply_sent_unix_ns"] - o["last_probe_unix_ns"]) // MS,
                   " (again when repeated)" if o.get("confirmed") else "", o["stdout"][:120]))
    return None


def quiet_phase_confirmed(ctx):
    rows = quiet_phase_runs(ctx)
    missed = [o for o in rows if quiet_missed(o)]
    if missed:
        again = quiet_phase_runs(ctx, quiets_ms=tuple(o["quiet_ms"] for o in missed))
        if any(quiet_missed(a) for a in again):
            for o in missed:
                o["confirmed"] = True
        else:
            ctx.info.append("quiet-phase e2e: a reply was missed once and reported when repeated (not a finding)")
            for o, a in zip(missed, again):
                o["stdout"] = a.get("stdout", o["stdout"]) if not a.get("err") else o["reply_mac"]
    return rows


# generic scans whose request generator fails when the scan starts: the engine still has to close done, the command
# exits one exit delay later (error logged)
GENFAIL = [("docker, reversed port range", ["docker", "-p", "30-20", "10.0.0.1"]),
           ("socks, reversed port range", ["socks", "-p", "1090-1080", "10.0.0.1/30"]),
           ("elastic, address file missing", ["elastic", "-p", "9200", "-f", "/nonexistent/c16-missing.jsonl"]),
           ("socks, address file is a directory", ["socks", "-p", "1080", "-f", "/tmp"])]


def genfail_runs(ctx, delay_ms=300, limit_s=6.0):
    """No network is touched (the generator fails first): run outside any namespace, all at once."""
    from concurrent.futures import ThreadPoolExecutor
    exe = build_sx(ctx)
    if not exe:
        return []

    def one(i):
        name, args = GENFAIL[i]
        o = {"kind": "genfail", "class": "genfail", "id": i, "cmd": name, "delay_ms": delay_ms,
             "args": "sx %s --exit-delay %dms" % (" ".join(args), delay_ms)}
        t0 = time.monotonic_ns()
        pr = subprocess.Popen([exe] + args + ["--exit-delay", "%dms" % delay_ms], stdout=subprocess.DEVNULL,
                              stderr=subprocess.PIPE, text=True)
        try:
            pr.wait(timeout=limit_s)
            o["wall_ns"], o["exited"], o["sx_rc"] = time.monotonic_ns() - t0, True, pr.returncode
            o["stderr"] = pr.stderr.read()[-300:]
        except subprocess.TimeoutExpired:
            pr.kill()
            pr.wait()
            o["wall_ns"], o["exited"] = time.monotonic_ns() - t0, False
        return o

    with ThreadPoolExecutor(max_workers=len(GENFAIL)) as ex:
        return list(ex.map(one, range(len(GENFAIL))))


def spec_genfail(o):
    if not o["exited"]:
        return ("%s (%s): the request generator fails at the start of the scan and the command never exits (killed after "
                "%d ms; it must exit one exit delay after the start)" % (o["args"], o["cmd"], o["wall_ns"] // MS))
    return None


def flap_run(ctx, tag="fl", delay_ms=4500):
    """`sx arp --exit-delay 4.5s 10.78.0.0/30`; 1.5 s after the start (the probes have left) the scanning interface is set
    down for 300 ms and up again; the responder answers the request for 10.78.0.2 2.5 s after it saw it, three times 200 ms
    apart (>= 1 s before the delay runs out).  The reply must be printed."""
    exe = build_sx(ctx)
    if not exe:
        return []
    tool = os.path.join(verif.HBIN, "c16")
    ns = "vc16%s%d" % (tag, os.getpid())
    o = {"kind": "flap", "class": "flap", "id": 0, "delay_ms": delay_ms,
         "cmd": "sx arp -i v0 --exit-delay %dms 10.78.0.0/30 + `ip link set v0 down; sleep 0.3; ip link set v0 up` 1.5 s after "
                "the start" % delay_ms}
    setup = [["ip", "netns", "add", ns],
             ["ip", "-n", ns, "link", "add", "v0", "type", "veth", "peer", "name", "v1"],
             ["ip", "-n", ns, "link", "set", "lo", "up"], ["ip", "-n", ns, "link", "set", "v0", "up"],
             ["ip", "-n", ns, "link", "set", "v1", "up"], ["ip", "-n", ns, "addr", "add", "10.78.0.1/24", "dev", "v0"]]
    try:
        for cmd in setup:
            rc, out = verif.sh(cmd, timeout=20)
            if rc != 0:
                o["err"] = "cannot set up a network namespace: " + out.strip()[:200]
                return [o]
        time.sleep(0.3)
        respf = os.path.join(ctx.work, "resp%s.jsonl" % tag)
        resp = subprocess.Popen(["ip", "netns", "exec", ns, tool, "-respond", "v1", "-ip", "10.78.0.2", "-after", "2500ms",
                                 "-repeat", "3", "-every", "200ms", "-out", respf, "-total", "20s"],
                                stdout=subprocess.PIPE, stderr=subprocess.STDOUT, text=True, cwd=ctx.work)
        if resp.stdout.readline().strip() != "ready":
            o["err"] = "responder did not start"
            resp.kill()
            return [o]
        pr = subprocess.Popen(["ip", "netns", "exec", ns, exe, "arp", "-i", "v0", "--exit-delay", "%dms" % delay_ms,
                               "10.78.0.0/30"], stdout=subprocess.PIPE, stderr=subprocess.DEVNULL, text=True)
        time.sleep(1.5)
        o["link_down_unix_ns"] = time.time_ns()
        verif.sh(["ip", "-n", ns, "link", "set", "v0", "down"], timeout=10)
        time.sleep(0.3)
        verif.sh(["ip", "-n", ns, "link", "set", "v0", "up"], timeout=10)
        o["link_back_unix_ns"] = time.time_ns()
        try:
            out, _ = pr.communicate(timeout=30)
        except subprocess.TimeoutExpired:
            pr.kill()
            out, _ = pr.communicate()
            o["err"] = "sx arp did not exit"
        o["exit_unix_ns"], o["stdout"], o["sx_rc"] = time.time_ns(), out[-1000:], pr.returncode
        resp.wait(timeout=30)
        got = ctx.read_jsonl(respf) if os.path.exists(respf) else []
        if got and got[0].get("replies"):
            o.update({"last_probe_unix_ns": got[0]["last_probe_unix_ns"], "reply_sent_unix_ns": got[0]["reply_sent_unix_ns"],
                      "last_reply_unix_ns": got[0]["last_reply_unix_ns"], "replies": got[0]["replies"],
                      "reply_mac": got[0]["reply_mac"]})
        elif not o.get("err"):
            o["err"] = "the responder could not send a reply"
    except Exception as e:  # noqa: BLE001
        o["err"] = "link-flap run failed: %r" % (e,)
    finally:
        verif.sh(["ip", "netns", "del", ns], timeout=20)
    return [o]


def flap_exercised(o):
    """The flap happened after the last probe had left (otherwise the run only shows an ordinary late reply)."""
    return (not o.get("err")) and o["last_probe_unix_ns"] < o["link_down_unix_ns"]


def flap_missed(o):
    if o.get("err"):
        return False
    # judged only when the link was back before the first reply and the last reply left >= 500 ms before the delay ran out
    if o["reply_sent_unix_ns"] < o["link_back_unix_ns"] + 100 * MS:
        return False
    if not flap_exercised(o):
        return False
    if o["last_reply_unix_ns"] - o["last_probe_unix_ns"] > (o["delay_ms"] - 500) * MS:
        return False
    return o["reply_mac"] not in o["stdout"].lower()


def spec_flap(o):
    if flap_missed(o):
        return ("%s: the link came back %d ms after the last probe, the reply was then put on the wire %d times from %d ms "
                "after the last probe on (exit delay %d ms) and was not reported%s; output %r"
                % (o["cmd"], (o["link_back_unix_ns"] - o["last_probe_unix_ns"]) // MS, o["replies"],
                   (o["reply_sent_unix_ns"] - o["last_probe_unix_ns"]) // MS, o["delay_ms"],
                   " (again when repeated)" if o.get("confirmed") else "", o["stdout"][:100]))
    return None


def flap_confirmed(ctx):
    rows = flap_run(ctx)
    if rows and not rows[0].get("err") and not flap_exercised(rows[0]):
        rows = flap_run(ctx, tag="fr")     # the machine was too slow: the link went down before the probes left; once more
    if rows and flap_missed(rows[0]):
        again = flap_run(ctx, tag="fm")
        if again and flap_missed(again[0]):
            rows[0]["confirmed"] = True
        else:
            ctx.info.append("link-flap e2e: the reply was missed once and reported when repeated (not a finding)")
            return again
    return rows


def spec_cmd(o):
    if o.get("err"):
        return None
    if o["wall_ns"] < o.get("chunks", 1) * o["delay_ms"] * MS:
        return "sx %s --exit-delay %dms: the whole process lived only %d ms%s" % (
            o["cmd"], o["delay_ms"], o["wall_ns"] // MS,
            " (%d chunks, each must keep listening for the exit delay)" % o["chunks"] if o.get("chunks", 1) > 1 else "")
    return None


def spec_e2e(o):
    if o.get("err"):
        return None
    d = o["delay_ms"] * MS
    if reply_missed(o):
        sent = (o["reply_sent_unix_ns"] - o["last_probe_unix_ns"]) // MS
        return ("sx arp --exit-delay %dms: the reply for 10.78.0.2 put on the wire %d ms after the last probe, i.e. %d ms "
                "before the exit delay ran out, was not reported%s; output %r"
                % (o["delay_ms"], sent, o["delay_ms"] - sent,
                   " (in %d of %d runs)" % (o["misses"], o["attempts"]) if o.get("attempts") else "", o["stdout"][:200]))
    if o["exit_unix_ns"] - o["last_probe_unix_ns"] < d:
        return ("sx arp --exit-delay %dms exited %d ms after its last probe was on the wire"
                % (o["delay_ms"], (o["exit_unix_ns"] - o["last_probe_unix_ns"]) // MS))
    return None


def deep_stage(ctx, n, long_run=True):
    """Expensive wall-clock runs (thorough tier and failing-input search): a long quiet phase before the last probe, and
    an exit delay above ten seconds."""
    from concurrent.futures import ThreadPoolExecutor
    bad = 0
    with ThreadPoolExecutor(max_workers=4) as ex:
        fq = ex.submit(quiet_phase_confirmed, ctx)
        ff = ex.submit(flap_confirmed, ctx)
        fls = [ex.submit(cmd_runs, ctx, [i], 12000, "L%d" % i) for i in (0, 3)] if long_run else []
        qrows = fq.result()
        frows = ff.result()
        lrows = [o for f in fls for o in f.result()]
    for o in frows:
        if o.get("err"):
            ctx.skipped.append("link-flap e2e: " + o["err"])
            continue
        ctx.count("flap", ("flap", o["exit_unix_ns"]), nontrivial=True, sample={"cmd": o["cmd"], "stdout": o["stdout"][:80]})
        why = spec_flap(o)
        if why:
            bad += 1
            report(ctx, o, why, ctx.seed, n)
    for o in qrows:
        if o.get("err"):
            ctx.skipped.append("quiet-phase e2e: " + o["err"])
            continue
        ctx.count("quietphase:%dms" % o["quiet_ms"], ("quietphase", o["quiet_ms"], o["exit_unix_ns"]), nontrivial=True,
                  sample={"cmd": o["cmd"], "stdout": o["stdout"][:80]})
        why = spec_quietphase(o)
        if why:
            bad += 1
            report(ctx, o, why, ctx.seed, n)
    for o in lrows:
        if o.get("err"):
            ctx.skipped.append("sx %s --exit-delay 12s: %s" % (o["cmd"], o["err"]))
            continue
        ctx.count("cmd12s:" + o["cmd"], ("cmd12", o["cmd"], o["wall_ns"]), nontrivial=True,
                  sample={"cmd": "sx %s --exit-delay 12s" % o["cmd"], "wall_ms": o["wall_ns"] // MS})
        why = spec_cmd(o)
        if why:
            bad += 1
            report(ctx, o, why, ctx.seed, n)
    return bad


def run(ctx):
    quick = ctx.tier == "quick"
    ctx.trusted += [
        "real time: time.After fires no earlier than requested; goroutine scheduling latency is not modelled (the model's "
        "goroutines react instantly = its fairness assumption); measured times are judged by inequalities in the safe "
        "direction only",
        "Go channel / context / WaitGroup semantics as assumed by Model/ScanCall.v",
        "command/verif_export_c16.go hook (build tag verif)",
    ]
    ctx.assumptions += ["(E1) the engine closes errc after its context is cancelled (shown for the real engines under C12)",
                        "(E2) the engine closes Results() only after its context is cancelled (scan.NewResultChan)",
                        "'done' is closed by the engine when the last probe has been handed to the wire (C07)"]
    gen_ok = ctx.gen()
    model_ok = gen_ok and ctx.coq_model(["Spec/C16.vo"])
    proof_ok = gen_ok and ctx.coq_proofs("Properties/C16.v")
    rows = []
    n = 40 if quick else 400
    if ctx.harness_build("c16"):
        ok, _ = ctx.harness_run("c16", ["-out", "cases.jsonl", "-seed", ctx.seed, "-n", n, "-par", 8], timeout=900)
        if ok:
            rows = ctx.read_jsonl(os.path.join(ctx.work, "cases.jsonl"))
    for o in rows:
        k = o["script"]
        k["results"] = k.get("results") or []
        k["errs"] = k.get("errs") or []
        ctx.count(o["class"], json.dumps(k, sort_keys=True), nontrivial=o["done_at"] >= 0 and bool(k["results"]),
                  sample={"delay_ns": k["delay"], "done_at": o["done_at"], "ctx_done_at": o["ctx_done_at"],
                          "return_at": o["return_at"], "results(at,taken)": [(r["start"], r["taken"]) for r in k["results"] or []],
                          "logged": o["logged"], "class": o["class"]})
        why = spec_on_impl(o)
        if why and len(ctx.findings) < 3:
            report(ctx, o, why, ctx.seed, n)
    if os.path.exists(os.path.join(verif.HBIN, "c16")):
        prows = pkt_stage(ctx)
        if not any(o["kind"] == "burst" for o in prows):
            ctx.broken.append(("correspondence: the undecodable-burst stage produced nothing", ""))
        for o in prows:
            if o["kind"] == "burst":
                judged = (len(o["writes"] or []) >= o["probes"] and o["inject_at"] >= 0
                          and o["inject_at"] <= max(o["writes"]) + o["delay"] - 150 * MS)
                if not judged:
                    ctx.skipped.append("burst case %d: the frames were not on the link in time (inject_at %d)" % (o["id"], o["inject_at"]))
                ctx.count(o["class"], ("burst", o["id"], o["seed"], o["return_at"]), nontrivial=judged,
                          sample={"class": o["class"], "delay_ms": o["delay"] // MS, "undecodable_frames": o["burst"],
                                  "frame_len": o["runt_len"], "on_link_after_last_probe_ms": o["lead"] // MS,
                                  "errors_logged": o["errors"], "return_ms": o["return_at"] // MS,
                                  "output": (o["output"] or "")[:60]})
                why = spec_burst(o)
                if why and len(ctx.findings) < 3:
                    report(ctx, o, why, ctx.seed, n)
                continue
            ctx.count(o["class"], (o["kind"], o["id"], o["return_at"]), nontrivial=True,
                      sample={"class": o["class"], "delay_ms": o["delay"] // MS, "return_ms": o["return_at"] // MS,
                              "output": (o["output"] or "")[:60]})
            why = spec_pkt(o)
            if why and len(ctx.findings) < 3:
                report(ctx, o, why, ctx.seed, n)
        prow = parse_stage(ctx)
        if not prow:
            ctx.broken.append(("correspondence: the option-value stage produced nothing", ""))
        for o in prow:
            ctx.count("parse:" + o["cmd"], ("parse", o["cmd"], o["arg"], o["given"]), nontrivial=True,
                      sample={"cmd": "sx %s --exit-delay %s" % (o["cmd"], o["arg"]), "reaches_startScanEngine_ns": o["got_ns"]})
            why = spec_parse(o)
            if why and len(ctx.findings) < 3:
                o["id"] = "parse-%s-%s" % (o["cmd"].replace(" ", "_"), o["arg"] or "default")
                report(ctx, o, why, ctx.seed, n)
        for o in rx_stage(ctx, 10 if quick else 12):
            ctx.count("rx:%s" % o["err_kind"], ("rx", o["err_kind"], o["n"]), nontrivial=True,
                      sample={"consecutive_temporary_errors": o["n"], "kind": o["err_kind"],
                              "delay_to_processor_ns": o["processed_at"] - o["frame_at"]})
            why = spec_rx(o)
            if why and len(ctx.findings) < 3:
                report(ctx, o, why, ctx.seed, n)
    erows = []
    if os.path.exists(os.path.join(verif.HBIN, "c16")):
        late = list(range(len(E2E), len(ALL_E2E)))
        erows = e2e_parallel(ctx, [ctx.seed % len(E2E)] + late if quick else list(range(len(ALL_E2E))) + late * 2)
        erows = confirm_misses(ctx, erows)
        for o in erows:
            if o.get("err"):
                ctx.skipped.append("e2e --exit-delay %dms: %s" % (o["delay_ms"], o["err"]))
                continue
            ctx.count("e2e:%dms:reply@%dms" % (o["delay_ms"], o["reply_after_ms"]), ("e2e", o["delay_ms"], o["exit_unix_ns"]), nontrivial=True,
                      sample={"cmd": "sx arp -i v0 --exit-delay %dms 10.78.0.0/30" % o["delay_ms"], "probes": o["probes"],
                              "reply_after_last_probe_ms": (o["reply_sent_unix_ns"] - o["last_probe_unix_ns"]) // MS,
                              "exit_after_last_probe_ms": (o["exit_unix_ns"] - o["last_probe_unix_ns"]) // MS,
                              "stdout": o["stdout"][:120]})
            why = spec_e2e(o)
            if why:
                report(ctx, o, why, ctx.seed, n)
        crows = cmd_runs(ctx, [ctx.seed * 2 % IDX_CHUNKED, (ctx.seed * 2 + 1) % IDX_CHUNKED, IDX_CHUNKED] if quick else range(len(CMDS)),
                         delay_ms=400 if quick else 700)
        for o in crows:
            if o.get("err"):
                ctx.skipped.append("sx %s --exit-delay: %s" % (o["cmd"], o["err"]))
                continue
            ctx.count("cmd:" + o["cmd"], ("cmd", o["cmd"], o["wall_ns"]), nontrivial=True,
                      sample={"cmd": "sx %s --exit-delay %dms" % (o["cmd"], o["delay_ms"]), "wall_ms": o["wall_ns"] // MS})
            why = spec_cmd(o)
            if why:
                report(ctx, o, why, ctx.seed, n)
        for o in genfail_runs(ctx):
            ctx.count("genfail:" + o["cmd"], ("genfail", o["cmd"], o["wall_ns"]), nontrivial=True,
                      sample={"cmd": o["args"], "exited": o["exited"], "wall_ms": o["wall_ns"] // MS})
            why = spec_genfail(o)
            if why:
                report(ctx, o, why, ctx.seed, n)
        if not quick:
            deep_stage(ctx, n)
    if model_ok and rows:
        nshards = 4 if quick else 16
        size = max(1, (len(rows) + nshards - 1) // nshards)
        parts = [rows[i:i + size] for i in range(0, len(rows), size)]
        outs = ctx.coq_eval_many([("cases_%d" % i, case_file(p)) for i, p in enumerate(parts)], workers=8)
        for part, out in zip(parts, outs):
            for idx, codes in parse_eval(ctx, out, len(part)):
                o = part[idx]
                ctx.broken.append(("correspondence: script %d (%s): %s" % (o["id"], o["class"], "; ".join(CODES[c] for c in codes)),
                                   json.dumps({k: v for k, v in o.items() if k != "output"})[:900]))
            ctx.cov["traces_validated_against_impl"] += len(part)
    if ctx.broken and not ctx.findings and os.path.exists(os.path.join(verif.HBIN, "c16")) \
            and any("afpacket" in x for x in (getattr(ctx, "source_diff", []) or [])):
        # the AF_PACKET source changed: the stages that exercise it directly first (late replies are in every run already)
        for o in flap_confirmed(ctx):
            why = None if o.get("err") else spec_flap(o)
            if why:
                report(ctx, o, why, ctx.seed, n)
    if ctx.broken and not ctx.findings and os.path.exists(os.path.join(verif.HBIN, "c16")):
        for sd in (ctx.seed + 101, ctx.seed + 202):
            ok, _ = ctx.harness_run("c16", ["-out", "search.jsonl", "-seed", sd, "-n", 200, "-par", 8], timeout=900)
            more = ctx.read_jsonl(os.path.join(ctx.work, "search.jsonl")) if ok else []
            bad = 0
            for o in more:
                why = spec_on_impl(o)
                if why and bad < 3:
                    bad += 1
                    report(ctx, o, why, sd, 200)
            for o in confirm_misses(ctx, e2e_parallel(ctx, range(len(ALL_E2E)))):
                why = spec_e2e(o)
                if why and bad < 3:
                    bad += 1
                    report(ctx, o, why, sd, 200)
            if not bad:
                for o in cmd_runs(ctx, range(len(CMDS)), delay_ms=900):
                    why = spec_cmd(o)
                    if why and bad < 3:
                        bad += 1
                        report(ctx, o, why, sd, 200)
            if not bad:
                deep_stage(ctx, 200, long_run=False)
            break
    return ctx.finish(rule=RULE)


def replay(ctx, path):
    r = json.load(open(path))
    if "input" not in r:
        print(json.dumps(r, indent=1))
        return 1
    i = r["input"]
    if not ctx.harness_build("c16"):
        return 1
    if i.get("kind") == "burst":
        ok, out = ctx.harness_run("c16", ["-pkt", "-pktonly", i["id"], "-seed", i["seed"], "-out", "one.jsonl"], timeout=120)
        got = ctx.read_jsonl(os.path.join(ctx.work, "one.jsonl")) if ok else []
        why = next((w for w in map(spec_burst, got) if w), None)
        print("replay burst %s (seed %s): %s" % (i["id"], i["seed"], why or "property holds on this run"))
        return 1 if why else 0
    if i.get("kind") in ("pkt", "gen"):
        ok, out = ctx.harness_run("c16", ["-pkt", "-pktonly", i["id"], "-out", "one.jsonl"], timeout=120)
        got = ctx.read_jsonl(os.path.join(ctx.work, "one.jsonl")) if ok else []
        why = next((w for w in map(spec_pkt, got) if w), None)
        print("replay %s %s: %s" % (i["kind"], i["id"], why or "property holds on this run"))
        return 1 if why else 0
    if i.get("kind") == "genfail":
        got = [o for o in genfail_runs(ctx) if o["id"] == i["id"]]
        why = next((w for w in map(spec_genfail, got) if w), None)
        print("replay %s: %s" % (GENFAIL[i["id"]][0], why or "property holds on this run"))
        return 1 if why else 0
    if i.get("kind") == "flap":
        got = flap_run(ctx)
        why = spec_flap(got[0]) if got else None
        print("replay link flap: %s" % (why or (got and got[0].get("err")) or "property holds on this run"))
        return 1 if why else 0
    if i.get("kind") in ("parse", "rx", "quietphase"):
        obs = r["observed"]
        if i["kind"] == "parse":
            got = [o for o in parse_stage(ctx) if o["cmd"] == obs["cmd"] and o["arg"] == obs["arg"] and o["given"] == obs["given"]]
            why = next((w for w in map(spec_parse, got) if w), None)
        elif i["kind"] == "rx":
            got = [o for o in rx_stage(ctx, 12) if o["err_kind"] == obs["err_kind"] and o["n"] == obs["n"]]
            why = next((w for w in map(spec_rx, got) if w), None)
        else:
            got = quiet_phase_runs(ctx, quiets_ms=(obs["quiet_ms"],))
            why = next((w for w in map(spec_quietphase, got) if w), None)
        print("replay %s: %s" % (i["kind"], why or "property holds on this run"))
        return 1 if why else 0
    if i.get("kind") == "cmd":
        got = cmd_runs(ctx, [i["id"]], delay_ms=r["observed"].get("delay_ms", 900))
        why = spec_cmd(got[0]) if got else None
        print("replay sx %s: %s" % (CMDS[i["id"]][0], why or (got and got[0].get("err")) or "property holds on this run"))
        return 1 if why else 0
    if i.get("kind") == "e2e":
        got = confirm_misses(ctx, e2e_runs(ctx, [i["id"]]))
        why = spec_e2e(got[0]) if got else None
        print("replay e2e %d (--exit-delay %dms, reply after %dms): %s" % (
            i["id"], ALL_E2E[i["id"]][0], ALL_E2E[i["id"]][1], why or (got and got[0].get("err")) or "property holds on this run"))
        return 1 if why else 0
    ok, out = ctx.harness_run("c16", ["-out", "one.jsonl", "-seed", i["seed"], "-n", i["n"], "-one", i["id"]], timeout=300)
    if not ok:
        print(out)
        return 1
    o = ctx.read_jsonl(os.path.join(ctx.work, "one.jsonl"))[0]
    why = spec_on_impl(o)
    print("replay script %d seed=%d: %s" % (i["id"], i["seed"], why or "property holds on this run"))
    return 1 if why else 0


MANIFEST = {
    "technique": "Coq proof (invariant of a timed event-driven model of startScanEngine over every time-ordered event "
                 "list) + translated wiring and goroutine shape + scripted-environment differential correspondence + e2e",
    "level_text": "Theorems C16_not_before / C16_ctx_not_before / C16_return_not_before (no cancellation or return before "
                  "done + delay unless the caller cancels), C16_then_exits (bounded exit once errc is closed), "
                  "C16_late_reply_reported, C16_written_faithful, C16_wiring over the wiring regenerated from command/*.go; "
                  "the real startScanEngine with the real logger is run against scripted engines and compared with the "
                  "model on the measured events; sx arp --exit-delay end to end in a network namespace.",
    "level_note": "Partial: real time is measured (inequalities in the safe direction), the logic is proved; goroutines of "
                  "the model react instantly (fairness assumption); engine assumptions E1 (errc closed after cancel) and "
                  "E2 (Results() closed only after cancel) are explicit hypotheses. No axioms.",
    "design_ref": "DESIGN.md section 5 (C16)",
}
