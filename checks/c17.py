"""C17 -- probes leave through the right interface with the right source."""
import json
import os

import verif

RULE = ("host configurations generated from one PRNG and built in fresh anonymous network namespaces (1-3 veth pairs, "
        "0-2 MAC-less tun devices, loopback; 0-4 IPv4 and 0-2 IPv6 addresses per interface from overlapping pools, "
        "IPv4-mapped IPv6 addresses, point-to-point addresses; 0-3 default routes: gateway/device/src-hinted/"
        "blackhole/multipath, metrics incl. ties and >= 2^31-1; 0-2 IPv6 default routes with lower and higher metrics on the "
        "same and on other interfaces); per configuration 6-8 targets (attached net/host, "
        "supernet, subnet, fixed, none, IPv6) x all 8 combinations of --iface/--srcip/--srcmac x 2 entry points "
        "(getScanRange, ipScanCmdOpts.parseOptions) + real command runs observed on the wire (veth peer, tun fd): arp and every ip-level command (icmp, udp, tcp, tcp syn, "
        "tcp --flags, tcp fin/null/xmas); non-trivial = the option "
        "code accepted the input (an interface and a source were chosen); distinct by (configuration, case number)")

CODES = {1: "error class differs from the model", 2: "chosen interface differs from the model",
         3: "source IP differs from the model", 4: "source MAC differs from the model",
         5: "vpn flag differs from the model", 6: "gateway differs from the model",
         7: "ip.ParseIPNet accepts / refuses / returns something else than the model of it"}

ERRCODE = {"": 0, "srciface": 1, "srcip": 2, "srcmac": 3, "badtarget": 4}
ENTRY = ["getScanRange", "parseOptions", "arp command on the wire", "ip-level command on the wire"]


def entry_name(o):
    return "`sx %s` on the wire" % (o.get("cmd") or "icmp") if o["entry"] == 3 else ENTRY[o["entry"]]
V4IN6 = bytes([0] * 10 + [255, 255])
MAXINT32 = 2 ** 31 - 1


# ------------------------------------------------------------------------------------------ Coq terms
def hx(s):
    return bytes.fromhex(s) if s else b""


def coq_ip(b):
    return "[" + ";".join(str(x) for x in b) + "]"


def coq_opt_ip(s):
    return "None" if s is None else "(Some %s)" % coq_ip(hx(s))


def cfg_term(cfg):
    ifs = []
    for i in cfg["ifaces"] or []:
        addrs = []
        for a in i["addrs"] or []:
            addrs.append("{| a_ip := %s; a_mask := %s; a_ipnet := %s |}" % (
                coq_ip(hx(a["ip"])), coq_ip(hx(a["mask"])), verif.coq_bool(a["ipnet"])))
        ifs.append("{| if_index := %d; if_name := %s%%string; if_mac := %s; if_addrs := %s; if_addrs_err := false |}" % (
            i["index"], verif.coq_string(i["name"]), coq_opt_ip(i["mac"]), verif.coq_list(addrs)))
    rts = []
    for r in cfg["routes"] or []:
        rts.append("{| rt_dst_nil := %s; rt_src_nil := %s; rt_link := %s; rt_prio := %s; rt_gw := %s |}" % (
            verif.coq_bool(r["dst_nil"]), verif.coq_bool(r["src_nil"]), verif.coq_z(r["link"]), verif.coq_z(r["prio"]),
            coq_ip(hx(r["gw"]))))
    return "{| ifaces := %s; ifaces_err := false; routes := %s; routes_err := false |}" % (
        verif.coq_list(ifs), verif.coq_list(rts))


def case_term(o, cfgname):
    refused = bool(o.get("dst_refused"))
    tgt = "None" if o["dst_nil"] or refused else "(Some {| t_ip := %s; t_mask := %s |})" % (
        coq_ip(hx(o["dst_ip"])), coq_ip(hx(o["dst_mask"])))
    kind = o.get("txt_kind", "")
    if o["dst_nil"]:
        txt = "None"
    elif kind == "cidr":
        txt = "(Some (TxtCIDR %s %s))" % (coq_ip(hx(o["txt_ip"])), coq_ip(hx(o["txt_mask"])))
    elif kind == "addr":
        txt = "(Some (TxtAddr %s %s))" % (verif.coq_bool(o["txt_is4"]), coq_ip(hx(o["txt_ip"])))
    else:
        txt = "(Some TxtJunk)"
    ov = "{| ov_iface := %s%%string; ov_srcip := %s; ov_srcmac := %s |}" % (
        verif.coq_string(o["iface"]), coq_opt_ip(o["srcip_in"]), coq_opt_ip(o["srcmac_in"]))
    return ("{| c_cfg := %s; c_entry := %d; c_txt := %s; c_target := %s; c_refused := %s; c_ov := %s; c_err := %d; c_ifindex := %d; "
            "c_ifname := %s%%string; c_srcip := %s; c_srcmac := %s; c_vpn := %s; c_gwmac := %s |}") % (
        cfgname, o["entry"], txt, tgt, verif.coq_bool(refused), ov, ERRCODE.get(o["err"], 9), o["ifindex"], verif.coq_string(o["ifname"]),
        coq_opt_ip(o["srcip_out"]), coq_opt_ip(o["srcmac_out"]), verif.coq_bool(o["vpn"]), coq_opt_ip(o["gwmac"]))


def case_file(groups):
    """groups: list of (cfg, [cases])"""
    body = ["From Coq Require Import ZArith List String.", "From SX Require Import Model.Iface Spec.C17.",
            "Import ListNotations.", "Open Scope Z_scope."]
    terms = []
    for k, (cfg, cases) in enumerate(groups):
        body.append("Definition cfg%d : config := %s." % (k, cfg_term(cfg)))
        terms += [case_term(o, "cfg%d" % k) for o in cases]
    body.append("Definition cases : list case := [")
    body.append(";\n".join(terms))
    body.append("].")
    body.append("Definition M := Eval vm_compute in check_all 0 cases.")
    body.append("Definition L := Eval vm_compute in List.length cases.")
    body.append("Set Printing Depth 1000000. Set Printing Width 200.")
    body.append("Print M. Print L.")
    return "\n".join(body)


def parse_eval(ctx, out, nrows):
    import re
    m = ctx.parse_result(out, "M")
    n_model = int(ctx.parse_result(out, "L"))
    if n_model != nrows:
        raise verif.Broken("case count differs between harness and model (%d vs %d)" % (nrows, n_model))
    res = []
    if m.strip() not in ("[]", "nil"):
        for idx, codes in re.findall(r"\(\s*(\d+)\s*,\s*\[([^\]]*)\]\s*\)", m):
            res.append((int(idx), [int(c.strip().strip("()")) for c in codes.split(";") if c.strip()]))
        if not res:
            raise verif.Broken("cannot parse mismatch list", m[:500])
    return res


# ------------------------------------------------------------------------------------------ the property, on the implementation's observation
def to4(b):
    if len(b) == 4:
        return b
    if len(b) == 16 and b[:12] == V4IN6:
        return b[12:]
    return None


def net_contains(a, x):
    """does the network of interface address a = (ip, mask) contain the address x? (integers, per family)"""
    aip, am = hx(a["ip"]), hx(a["mask"])
    a4, x4 = to4(aip), to4(x)
    if a4 is not None:
        if x4 is None or len(am) not in (4, 16):
            return False
        m = int.from_bytes(am[-4:], "big")
        return int.from_bytes(a4, "big") & m == int.from_bytes(x4, "big") & m
    if x4 is not None or len(x) != 16 or len(aip) != 16 or len(am) != 16:
        return False
    m = int.from_bytes(am, "big")
    return int.from_bytes(aip, "big") & m == int.from_bytes(x, "big") & m


def ipv4_target(text):
    """The target as the property understands it: an IPv4 host or an IPv4 CIDR block -> base address bytes;
       anything else (every IPv6 notation, IPv4-mapped forms included, junk) -> None. Python's own parser."""
    import ipaddress
    try:
        if "/" in text:
            n = ipaddress.ip_network(text, strict=False)
            return n.network_address.packed if n.version == 4 else None
        a = ipaddress.ip_address(text)
        return a.packed if a.version == 4 else None
    except ValueError:
        return None


def expected(cfg, o):
    """What the property demands for this configuration, target and flags:
       ('ok', iface, srcip(4 bytes), srcmac|None) or ('err', why) or ('either', why)."""
    ifaces = cfg["ifaces"] or []
    search = ifaces
    forced = None
    base = None
    if not o["dst_nil"]:
        base = ipv4_target(o["target"])
        if base is None:
            return ("err", "the target is not an IPv4 address or IPv4 CIDR block")
    if o["iface"]:
        forced = next((i for i in ifaces if i["name"] == o["iface"]), None)
        if forced is None:
            return ("err", "--iface names no interface")
        search = [forced]
    chosen, addr = None, None
    if not o["dst_nil"]:
        for i in search:
            hit = next((a for a in i["addrs"] or [] if a["ipnet"] and len(base) in (4, 16) and net_contains(a, base)), None)
            if hit is not None:
                chosen, addr = i, hx(hit["ip"])
                break
    if chosen is None:
        if forced is not None:
            chosen = forced
        else:
            best, prefix_min_bad = None, False
            cur = MAXINT32
            for r in cfg["routes"] or []:
                if r["dst_nil"] and r["src_nil"] and r["prio"] < cur:
                    cur, best = r["prio"], r
                    if not any(i["index"] == r["link"] for i in ifaces) or r["link"] <= 0:
                        prefix_min_bad = True
            if best is None:
                return ("err", "no attached interface, no --iface, no default route")
            chosen = next((i for i in ifaces if i["index"] == best["link"] and best["link"] > 0), None)
            if chosen is None:
                return ("err", "the lowest-metric default route has no interface")
            if prefix_min_bad:
                return ("either", "an earlier default route without interface precedes the best one")
        addrs = chosen["addrs"] or []
        addr = hx(addrs[0]["ip"]) if addrs else None
    src = hx(o["srcip_in"]) if o["srcip_in"] is not None else addr
    if src is None:
        return ("err", "the interface has no address and --srcip is absent")
    src4 = to4(src)
    if src4 is None:
        return ("err", "the source address is not an IPv4 address")
    mac = hx(o["srcmac_in"]) if o["srcmac_in"] is not None else (hx(chosen["mac"]) if chosen["mac"] is not None else None)
    if o["entry"] == 2 and mac is None:
        return ("err", "arp scan without a source MAC")
    return ("ok", chosen, src4, mac)


def v6_hint(cfg, o):
    """IPv6 default routes are no input of the selection; say so when the interface used is the one of such a route."""
    hit = [r for r in cfg.get("routes6") or [] if r["link"] == o["ifindex"]]
    return " (%s is the interface of an IPv6 default route, metric %d: IPv6 routes must not take part)" % (
        o["ifname"], hit[0]["prio"]) if hit and not o["iface"] else ""


def spec_on_impl(cfg, o):
    """Returns None or (key, reason)."""
    if o["err"] in ("wire-skip", "wire-crash"):
        return None
    if o["err"] == "wire-noframes":
        exp = expected(cfg, o)
        if exp[0] == "ok" and exp[3] is None and o["entry"] == 3:
            return ("wire-noframes", "`sx %s` reports success but no raw-IP framed probe left through %s, the interface "
                                     "without hardware address the options select (source %s)" % (
                                         o.get("cmd") or "icmp", exp[1]["name"], ".".join(str(x) for x in exp[2])))
        return ("wire-noframes", "the command reports success but no probe left any interface" + (
            "; the property demands an error: " + exp[1] if exp[0] == "err" else ""))
    if o["err"] == "wire-garbage":
        return ("wire-garbage", "what left through the MAC-less interface is not a raw IPv4 packet: " + o["errtext"])
    if o["err"] == "wire-mixed":
        return ("wire-mixed", "probes of one scan left through several interfaces or with several sources: %s" % json.dumps(o.get("wire")))
    exp = expected(cfg, o)
    if o["err"]:
        if exp[0] == "ok":
            return ("spurious-error", "the scan fails with '%s' although interface %s with source %s is usable%s" % (
                o["errtext"], exp[1]["name"], ".".join(str(x) for x in exp[2]),
                " (the host also has IPv6 default routes: %s)" % "; ".join(r["text"] for r in cfg.get("routes6") or [])
                if cfg.get("routes6") and not o["iface"] else ""))
        return None
    # the implementation goes ahead
    on_wire = " (seen on the wire: %s)" % json.dumps(o["wire"]) if o.get("wire") else ""
    src = hx(o["srcip_out"]) if o["srcip_out"] is not None else None
    if src is None or len(src) != 4:
        return ("srcip-nil", "the scan goes ahead on %s with an empty (non-IPv4) source IP%s; the property demands an error (%s)" % (
            o["ifname"], on_wire, exp[1] if exp[0] != "ok" else "?"))
    mac = hx(o["srcmac_out"]) if o["srcmac_out"] is not None else None
    me = next((i for i in cfg["ifaces"] or [] if i["index"] == o["ifindex"] and i["name"] == o["ifname"]), None)
    if me is None:
        return ("iface-unknown", "the chosen interface %s/%d does not exist" % (o["ifname"], o["ifindex"]))
    if o["iface"] and o["ifname"] != o["iface"]:
        return ("iface-override", "--iface %s is given but %s is used" % (o["iface"], o["ifname"]))
    if o["srcip_in"] is not None and to4(hx(o["srcip_in"])) != src:
        return ("srcip-override", "--srcip %s is given but source %s is used" % (o["srcip"], o["srcip_out"]))
    if o["srcmac_in"] is not None and hx(o["srcmac_in"]) != mac:
        return ("srcmac-override", "--srcmac %s is given but source MAC %s is used" % (o["srcmac"], o["srcmac_out"]))
    if o["srcip_in"] is None and src not in [to4(hx(a["ip"])) for a in me["addrs"] or [] if a["ipnet"]]:
        return ("foreign-srcip", "source %s is not an address of the chosen interface %s" % (o["srcip_out"], o["ifname"]))
    if o["srcmac_in"] is None and mac != (hx(me["mac"]) if me["mac"] is not None else None):
        return ("foreign-srcmac", "source MAC %s is not the MAC of the chosen interface %s" % (o["srcmac_out"], o["ifname"]))
    if o["entry"] in (1, 3) and o["vpn"] != (mac is None):
        return ("vpn-flag", "vpn mode (raw-IP framing) is %s although the source MAC is %s" % (o["vpn"], o["srcmac_out"]))
    if o["entry"] == 2 and mac is None:
        return ("arp-no-mac", "the arp scan goes ahead without a source MAC")
    if exp[0] == "err":
        return ("missing-error", "the scan goes ahead (%s, %s) although %s%s" % (o["ifname"], o["srcip_out"], exp[1], v6_hint(cfg, o)))
    if exp[0] == "ok":
        if exp[1]["name"] != o["ifname"] or exp[1]["index"] != o["ifindex"]:
            return ("wrong-iface", "interface %s is used, the property selects %s%s" % (o["ifname"], exp[1]["name"], v6_hint(cfg, o)))
        if exp[2] != src:
            return ("wrong-srcip", "source %s is used, the property selects %s" % (o["srcip_out"], exp[2].hex()))
        if exp[3] != mac:
            return ("wrong-srcmac", "source MAC %s is used, the property selects %s" % (o["srcmac_out"], exp[3].hex() if exp[3] else None))
    return None


# ------------------------------------------------------------------------------------------ driver
def load(ctx, path):
    rows = ctx.read_jsonl(path)
    cfgs, cases, skipped = {}, [], None
    for r in rows:
        if r.get("kind") == "skipped":
            skipped = r["why"]
        elif r.get("kind") == "childfail":
            ctx.info.append("configuration %s was lost (its child process died): %s" % (r["id"], r["why"][-400:]))
        elif r.get("kind") == "cfg":
            cfgs[r["id"]] = r
        elif r.get("kind") == "case":
            cases.append(r)
    return cfgs, cases, skipped


def flags_of(o):
    return "".join(c for c, f in (("i", o["iface"]), ("s", o["srcip"]), ("m", o["srcmac"])) if f) or "-"


def report(ctx, cfg, o, key, why):
    spec = {"id": cfg["id"], "seed": cfg["seed"], "class": cfg["class"], "cmds": cfg["cmds"],
            "cases": [{k: o[k] for k in ("entry", "iface", "srcip", "srcmac", "target", "tclass", "cmd") if k in o}]}
    tag = "cfg%d-case%d" % (cfg["id"], o["n"])
    path = ctx.write_replay(tag, {
        "property": "C17", "what": why, "key": key, "spec": spec,
        "configuration_as_read_back": {"ifaces": cfg["ifaces"], "routes": cfg["routes"],
                                       "ipv6_default_routes_not_an_input": cfg.get("routes6")},
        "observed": o, "replay_cmd": "bin/check C17 --replay <this file>"})
    ctx.findings.append({"key": key, "what": why, "replay": path})


def judge(ctx, cfgs, cases, limit=3):
    per_key = {}
    for o in cases:
        cfg = cfgs[o["id"]]
        r = spec_on_impl(cfg, o)
        if r:
            key, why = r
            per_key[key] = per_key.get(key, 0) + 1
            if per_key[key] <= limit:
                report(ctx, cfg, o, key, why)
    return per_key


def run(ctx):
    quick = ctx.tier == "quick"
    ctx.trusted += [
        "Linux kernel + iproute2 build the configurations; Go's net.Interfaces/Interface.Addrs/InterfaceByName/"
        "InterfaceByIndex, net.IP.To4/Mask, IPNet.Contains and vishvananda/netlink RouteList are modelled on bytes "
        "(Model/Iface.v) and tied by differential testing only",
        "command/verif_export_c17.go (build tag verif): builds the real option structs from an argv with the real flag "
        "definitions and calls the unexported parseRawOptions/getScanRange/parseOptions and the arp command",
        "the configuration is a static snapshot read back with the same calls the code uses (kernel enumeration order "
        "is an input of the model); the harness re-reads it after the cases and repeats on any difference",
    ]
    ctx.assumptions += ["the host configuration does not change between the calls one option-parsing run makes",
                        "operating-system call failures (Interfaces, Addrs, RouteList) are oracle flags of the model: "
                        "covered by the theorems, not provoked by the harness"]
    ctx.gen()      # Gen/SourceShapes.v for the source tie (Properties/C17Source.v); the model itself has no generated part
    model_ok = ctx.coq_model(["Spec/C17.vo"])
    ctx.coq_proofs("Properties/C17.v")
    cfgs, cases = {}, []
    built = ctx.harness_build("c17")
    if built:
        n = 25 if quick else 400
        ok, _ = ctx.harness_run("c17", ["-out", "cases.jsonl", "-seed", ctx.seed, "-n", n, "-wire", 4 if quick else 8,
                                        "-jobs", 4, "-corpus", os.path.join(verif.ROOT, "corpus", "C17")], timeout=1500)
        if ok:
            cfgs, cases, skipped = load(ctx, os.path.join(ctx.work, "cases.jsonl"))
            if skipped:
                ctx.skipped.append("correspondence with the real code: " + skipped)
                ctx.info.append("SKIPPED (not passed): " + skipped)
    unstable = [c["id"] for c in cfgs.values() if c.get("unstable")]
    if unstable:
        ctx.info.append("configurations %s kept changing while measured; their cases are dropped" % unstable)
        cases = [o for o in cases if o["id"] not in unstable]
    for o in cases:
        cls = "%s/entry%d%s/flags=%s/%s" % (o["tclass"], o["entry"], ":" + o["cmd"].replace("/", "") if o.get("cmd") else "",
                                           flags_of(o), o["err"] or "ok")
        ctx.count(cls, (o["id"], o["n"]), nontrivial=(o["err"] == ""),
                  sample={"configuration": cfgs[o["id"]]["class"], "target": o["target"], "iface": o["iface"],
                          "srcip": o["srcip"], "srcmac": o["srcmac"], "entry": o["entry"], "err": o["err"],
                          "chosen": o["ifname"], "srcip_out": o["srcip_out"], "srcmac_out": o["srcmac_out"], "vpn": o["vpn"]})
    crashes = [o for o in cases if o["err"] == "wire-crash"]
    if crashes:
        ctx.info.append("%d run(s) of the real arp command crashed or hung inside the scan engine (not a C17 matter: the options "
                        "had been accepted; reported for the engine properties): %s" % (len(crashes), crashes[0]["errtext"][:1200]))
    per_key = judge(ctx, cfgs, cases)
    if per_key:
        ctx.info.append("property violations on the implementation's observations by class: %s" % json.dumps(per_key))
    # model vs implementation, inside Coq
    comparable = [o for o in cases if not o["err"].startswith("wire-")]
    if model_ok and comparable:
        by_cfg = {}
        for o in comparable:
            by_cfg.setdefault(o["id"], []).append(o)
        ids = sorted(by_cfg)
        nshards = 16 if quick else 64
        size = max(1, (len(ids) + nshards - 1) // nshards)
        shards = [ids[i:i + size] for i in range(0, len(ids), size)]
        jobs = [("cases_%d" % k, case_file([(cfgs[i], by_cfg[i]) for i in sh])) for k, sh in enumerate(shards)]
        outs = ctx.coq_eval_many(jobs, workers=8)
        nbroken = 0
        for sh, out in zip(shards, outs):
            flat = [o for i in sh for o in by_cfg[i]]
            for idx, codes in parse_eval(ctx, out, len(flat)):
                o = flat[idx]
                nbroken += 1
                if nbroken <= 8:
                    ctx.broken.append(("correspondence: configuration %d case %d (%s, target %s, flags %s): %s" % (
                        o["id"], o["n"], entry_name(o), o["target"] or "none",
                        flags_of(o), "; ".join(CODES[c] for c in codes)), json.dumps(o)[:700]))
            ctx.cov["traces_validated_against_impl"] += len(flat)
        if nbroken > 8:
            ctx.info.append("%d cases disagree with the model in total" % nbroken)
    if ctx.broken and not ctx.findings and built:
        # a proof or the tie broke and no case of the standard budget fails the property: look harder
        ok, _ = ctx.harness_run("c17", ["-out", "search.jsonl", "-seed", ctx.seed + 977, "-n", 150 if quick else 1200,
                                        "-wire", 6, "-jobs", 4], timeout=2400)
        if ok:
            scfgs, scases, _ = load(ctx, os.path.join(ctx.work, "search.jsonl"))
            scases = [o for o in scases if not scfgs[o["id"]].get("unstable")]
            judge(ctx, scfgs, scases, limit=2)
    return ctx.finish(rule=RULE)


def replay(ctx, path):
    r = json.load(open(path))
    if "spec" not in r:
        print(json.dumps(r, indent=1))
        return 1
    if not ctx.harness_build("c17"):
        return 1
    sp = os.path.join(ctx.work, "replay-spec.json")
    json.dump(r["spec"], open(sp, "w"))
    ok, out = ctx.harness_run("c17", ["-out", "one.jsonl", "-spec", sp], timeout=300)
    if not ok:
        print(out)
        return 1
    cfgs, cases, skipped = load(ctx, os.path.join(ctx.work, "one.jsonl"))
    if skipped:
        print("replay skipped:", skipped)
        return 1
    rc = 0
    for o in cases:
        res = spec_on_impl(cfgs[o["id"]], o)
        print("replay configuration %d, target %s, --iface %s --srcip %s --srcmac %s (%s):" % (
            o["id"], o["target"] or "none", o["iface"] or "-", o["srcip"] or "-", o["srcmac"] or "-",
            entry_name(o)))
        print("  observed: err=%r iface=%s srcip=%s srcmac=%s vpn=%s %s" % (
            o["err"], o["ifname"], o["srcip_out"], o["srcmac_out"], o["vpn"], json.dumps(o.get("wire") or "")))
        print("  " + (res[1] if res else "property holds on this input"))
        if res:
            rc = 1
    return rc


MANIFEST = {
    "technique": "Coq proof about an executable model of the selection functions (all configurations, targets, flag "
                 "combinations and OS-failure oracles) + differential correspondence with the real option code and the "
                 "real arp command inside generated private network namespaces",
    "level_text": "Theorems C17_attached / C17_fallback_order / C17_overrides_win / C17_vpn_iff_no_mac / "
                  "C17_error_not_empty_source hold for every host configuration; the model is compared inside Coq with "
                  "getScanRange, ipScanCmdOpts.parseOptions and with the probes of real `sx arp` / `sx icmp` runs seen on veth wires "
                  "and tun devices, for generated configurations read back from the kernel.",
    "level_note": "Trusted: Coq kernel + VM, the byte-level model of Go's net package and of netlink route listing (tied "
                  "by testing only), kernel enumeration order is an input. No axioms. A default route counts only without "
                  "a preferred-source attribute and with metric < 2^31-1, as in the code.",
    "design_ref": "DESIGN.md section 5 (C17)",
}
